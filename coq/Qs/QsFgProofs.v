(* Fine-grained model of qs.hpp: invariants (J1-J4 with the in-flight adjustments, restarter
   uniqueness, K, the pending-list structure) for every number of threads, every scripts, every
   scheduler; grace period, callbacks once / by owner, node untouched, absence of deadlock. *)
From Coq Require Import List NArith Bool Arith Lia.
Import ListNotations.
From FV Require Import Qs.QsTypes Qs.QsModel Qs.QsFgModel Qs.QsWoProofs.
Local Open Scope N_scope.

(* boolean comparisons to propositions (lia is used without ZifyBool here: contexts are large) *)
Ltac n2p := repeat match goal with
  | H : (_ =? _) = true |- _ => apply N.eqb_eq in H
  | H : (_ =? _) = false |- _ => apply N.eqb_neq in H
  | H : (_ <? _) = true |- _ => apply N.ltb_lt in H
  | H : (_ <? _) = false |- _ => apply N.ltb_ge in H
  | H : negb _ = true |- _ => apply negb_true_iff in H
  | H : negb _ = false |- _ => apply negb_false_iff in H
  end.

(* the step of the repaired source *)
Definition fstep : tid -> fstate -> result := f_step MLock MUnlock true.

(* ---------------------------------------------------------------------------------------- *)
(* attributes of a thread, from its program counter and its agent object                      *)
(* ---------------------------------------------------------------------------------------- *)

(* counted in num_agents *)
Definition memb (th : thread) : bool :=
  match tpc th with
  | POn2 _ | POn3 _ | POn4 _ | POn5 _ => true
  | POff2 _ | POff3 _ | POff4 _ | POff5 => false
  | _ => negb (acked (tag th) =? 0)
  end.

(* the period the agent has acked, counting an ack that is already visible in agents_to_ack *)
Definition eack (th : thread) : N :=
  match tpc th with
  | POn2 c | POn3 c | POn4 c | POn5 c => c
  | PQ3 _ | PQ4 _ | PQ5 _ | PQ6 _ | PQ7 => acked (tag th) + 1
  | _ => acked (tag th)
  end.

(* counted in agents_to_ack *)
Definition needs (c : N) (th : thread) : bool :=
  match tpc th with
  | POff2 _ => true
  | _ => memb th && (eack th + 1 =? c)
  end.

(* agents_to_ack already reset, counter not yet bumped *)
Definition special (th : thread) : bool :=
  match tpc th with POn4 _ | POff4 _ | PQd5 | PQ6 _ => true | _ => false end.

Definition holds (th : thread) : bool :=
  match tpc th with
  | POn1 | POn2 _ | POn3 _ | POn4 _ | POn5 _ | POff1 | POff2 _ | POff3 _ | POff4 _ | POff5
  | PQd4 | PQd5 | PQd6 | PQ5 _ | PQ6 _ | PQ7 => true
  | _ => false end.

(* the thread that will restart the period: it holds a deferred period, or it is the last acker /
   the first agent on its way to the bump *)
Definition restarter (th : thread) : bool :=
  deferred (tag th) ||
  match tpc th with
  | PQ3 _ | PQ4 _ | PQ5 _ | PQ6 _ | POff3 _ | POff4 _ | POn2 _ | POn3 _ | POn4 _ => true
  | _ => false end.

Definition isoff2 (th : thread) : bool := match tpc th with POff2 _ => true | _ => false end.

Lemma needs_eq c th : needs c th = isoff2 th || (memb th && (eack th + 1 =? c)).
Proof. unfold needs, isoff2, memb. destruct (tpc th); reflexivity. Qed.

(* everything the counting invariants see of a thread *)
Definition attrs (th : thread) : bool * N * bool * bool * bool * bool * bool * N :=
  (memb th, eack th, special th, holds th, restarter th, isoff2 th, deferred (tag th), acked (tag th)).

Definition in_qs (p : pc) : bool :=
  match p with
  | PQd1 | PQd2 | PQd3 | PQd4 | PQd5 | PQd6 | PQ1 | PQ2 _ | PQ3 _ | PQ4 _ | PQ5 _ | PQ6 _ | PQ7 => true
  | _ => false end.

(* facts tied to a program counter *)
Definition local_ok (s : fstate) (nown : nid -> tid) (t : tid) (th : thread) : Prop :=
  let a := tag th in let d := fd s in
  (in_qs (tpc th) = false -> tret th = None) /\
  match tpc th with
  | PIdle => True
  | POn0 | POn1 => acked a = 0 /\ deferred a = false
  | POn2 c | POn3 c | POn4 c => acked a = 0 /\ deferred a = false /\ c = ctr d /\ nagents d = 1 /\ 1 <= c
  | POn5 c => acked a = 0 /\ deferred a = false /\ 1 <= c
  | POff0 | POff1 => acked a <> 0 /\ deferred a = false
  | POff2 c | POff3 c | POff4 c => acked a <> 0 /\ deferred a = false /\ c = ctr d /\ acked a + 1 = c
  | POff5 => deferred a = false
  | PQd1 | PQd2 | PQd3 | PQd4 | PQd5 => acked a <> 0 /\ deferred a = true
  | PQd6 => acked a <> 0 /\ deferred a = false
  | PQ1 | PQ7 => acked a <> 0 /\ deferred a = false
  | PQ2 c | PQ3 c | PQ4 c | PQ5 c | PQ6 c => acked a <> 0 /\ deferred a = false /\ c = ctr d /\ acked a + 1 = c
  | PAb1 n => nown n = t
  | PAb2 n tg | PAb3 n tg _ => nown n = t /\ tg = fwtg s n /\ tg <> 0
  | PRun1 => True
  | PRun2 c => c <= ctr d
  | PQb1 | PQb2 _ | PQb3 _ _ | PQb4 _ => True
  end.


Definition in_await (th : thread) (n : nid) : bool :=
  match tpc th with PAb2 m _ | PAb3 m _ _ => Nat.eqb m n | _ => false end.

(* the period as it will be once the thread that has already reset agents_to_ack has stored it *)
Definition vctr (s : fstate) : N :=
  match fmx s with
  | Some h => if special (fth s h) then ctr (fd s) + 1 else ctr (fd s)
  | None => ctr (fd s)
  end.

Section Invariant.
Variable U : list tid.
Variable nown : nid -> tid.     (* every node is used by one agent (documented precondition) *)

Record FCore (s : fstate) : Prop := mkFCore {
  f_ctr : 1 <= ctr (fd s);
  f_univ : forall x, ~ In x U -> fth s x = thread0 [];
  f_hold : forall x, holds (fth s x) = true <-> fmx s = Some x;
  f_loc : forall x, local_ok s nown x (fth s x);
  (* J1, J2, J3 *)
  f_j1 : forall x, memb (fth s x) = true -> eack (fth s x) = vctr s \/ eack (fth s x) + 1 = vctr s;
  f_le : forall x, memb (fth s x) = true -> eack (fth s x) <= ctr (fd s);
  f_j2 : toack (fd s) = cnt (fun x => needs (vctr s) (fth s x)) U;
  f_j3 : nagents (fd s) = cnt (fun x => memb (fth s x)) U;
  (* J4 and the uniqueness of the thread that restarts the period *)
  f_j4 : forall x, deferred (tag (fth s x)) = true -> memb (fth s x) = true /\ acked (tag (fth s x)) = ctr (fd s);
  f_r1 : forall x y, restarter (fth s x) = true -> restarter (fth s y) = true -> x = y;
  f_r2 : forall x, restarter (fth s x) = true -> special (fth s x) = false -> toack (fd s) = 0
}.

Record FGhost (s : fstate) : Prop := mkFGhost {
  f_k : forall n x, fwait s n x = true ->
          acked (tag (fth s x)) <> 0 /\ in_quiescent (tpc (fth s x)) = false /\ acked (tag (fth s x)) + 2 <= fwtg s n;
  f_kq : forall t x tg, fqbw s t x = true -> qb_target (fth s t) = Some tg ->
          acked (tag (fth s x)) <> 0 /\ in_quiescent (tpc (fth s x)) = false /\ acked (tag (fth s x)) + 2 <= tg;
  f_m : forall n, ftarget s n <> 0 ->
          exists t, fowner s n = Some t /\ In n (pending (tag (fth s t))) /\
                    (fwtg s n = ftarget s n \/ in_await (fth s t) n = true);
  f_p1 : forall t n, In n (pending (tag (fth s t))) -> ftarget s n <> 0 /\ fowner s n = Some t;
  f_p3 : forall t, NoDup (pending (tag (fth s t)));
  f_own : forall n t, fowner s n = Some t -> nown n = t;
  f_scr : forall t n, In (CAwait n) (tscript (fth s t)) -> nown n = t
}.

Definition FInv (s : fstate) : Prop := fstop s = None -> FCore s /\ FGhost s.

End Invariant.

(* ---------------------------------------------------------------------------------------- *)
(* helpers                                                                                    *)
(* ---------------------------------------------------------------------------------------- *)

Lemma special_holds th : special th = true -> holds th = true.
Proof. unfold special, holds. destruct (tpc th); intros; try discriminate; reflexivity. Qed.

Lemma special_restarter th : special th = true -> tpc th <> PQd5 -> restarter th = true.
Proof. unfold special, restarter. destruct (tpc th); intros; try discriminate; try contradiction; apply orb_true_r. Qed.

Section Helpers.
Variable U : list tid.
Variable nown : nid -> tid.

Lemma vctr_cases s : FCore U nown s ->
  (vctr s = ctr (fd s) /\ forall x, special (fth s x) = false) \/
  (vctr s = ctr (fd s) + 1 /\ exists h, fmx s = Some h /\ special (fth s h) = true).
Proof.
  intros HC. unfold vctr. destruct (fmx s) as [h|] eqn:E.
  - destruct (special (fth s h)) eqn:Sp.
    + right. split; [reflexivity|]. exists h. auto.
    + left. split; [reflexivity|]. intros x. destruct (special (fth s x)) eqn:Sx; [|reflexivity].
      pose proof Sx as Sx'. apply special_holds in Sx. apply (f_hold _ _ _ HC) in Sx. congruence.
  - left. split; [reflexivity|]. intros x. destruct (special (fth s x)) eqn:Sx; [|reflexivity].
    apply special_holds in Sx. apply (f_hold _ _ _ HC) in Sx. congruence.
Qed.

Lemma vctr_not_holder s t : FCore U nown s -> fmx s = Some t -> special (fth s t) = false -> vctr s = ctr (fd s).
Proof. intros _ E Sp. unfold vctr. now rewrite E, Sp. Qed.

Lemma vctr_free s : fmx s = None -> vctr s = ctr (fd s).
Proof. intros E. unfold vctr. now rewrite E. Qed.

(* the counting clauses, when thread t changes and the virtual period does not *)
Lemma fcore_upd s s' t th' :
  FCore U nown s -> NoDup U -> In t U ->
  fth s' = upd (fth s) t th' ->
  vctr s' = vctr s -> ctr (fd s) <= ctr (fd s') ->
  (memb th' = true -> eack th' = vctr s \/ eack th' + 1 = vctr s) ->
  (memb th' = true -> eack th' <= ctr (fd s')) ->
  toack (fd s') + b2n (needs (vctr s) (fth s t)) = toack (fd s) + b2n (needs (vctr s) th') ->
  nagents (fd s') + b2n (memb (fth s t)) = nagents (fd s) + b2n (memb th') ->
  (forall x, holds (fth s' x) = true <-> fmx s' = Some x) ->
  (forall x, local_ok s' nown x (fth s' x)) ->
  (forall x, deferred (tag (fth s' x)) = true -> memb (fth s' x) = true /\ acked (tag (fth s' x)) = ctr (fd s')) ->
  (forall x y, restarter (fth s' x) = true -> restarter (fth s' y) = true -> x = y) ->
  (forall x, restarter (fth s' x) = true -> special (fth s' x) = false -> toack (fd s') = 0) ->
  FCore U nown s'.
Proof.
  intros HC ND Ht Hth Hv Hc H1 Hle H2 H3 Hh Hl H4 Hr1 Hr2.
  assert (Hoth : forall x, x <> t -> fth s' x = fth s x) by (intros x Hx; rewrite Hth; now apply upd_other).
  assert (Hme : fth s' t = th') by (rewrite Hth; apply upd_same).
  constructor; try assumption.
  - pose proof (f_ctr _ _ _ HC). lia.
  - intros x Hx. rewrite Hoth by (intros ->; contradiction). apply (f_univ _ _ _ HC x Hx).
  - intros x. rewrite Hv. destruct (Nat.eq_dec x t) as [->|Hx].
    + rewrite Hme. exact H1.
    + rewrite (Hoth x Hx). apply (f_j1 _ _ _ HC x).
  - intros x. destruct (Nat.eq_dec x t) as [->|Hx].
    + rewrite Hme. exact Hle.
    + rewrite (Hoth x Hx). intros M. pose proof (f_le _ _ _ HC x M) as L. clear - L Hc. lia.
  - rewrite Hv.
    pose proof (cnt_change (fun x => needs (vctr s) (fth s x)) (fun x => needs (vctr s) (fth s' x)) U t ND Ht) as C.
    cbv beta in C. rewrite Hme in C. rewrite <- (f_j2 _ _ _ HC) in C.
    assert (E : toack (fd s) + b2n (needs (vctr s) th') =
                cnt (fun x => needs (vctr s) (fth s' x)) U + b2n (needs (vctr s) (fth s t))).
    { apply C. intros y Hy. now rewrite (Hoth y Hy). }
    lia.
  - pose proof (cnt_change (fun x => memb (fth s x)) (fun x => memb (fth s' x)) U t ND Ht) as C.
    cbv beta in C. rewrite Hme in C. rewrite <- (f_j3 _ _ _ HC) in C.
    assert (E : nagents (fd s) + b2n (memb th') = cnt (fun x => memb (fth s' x)) U + b2n (memb (fth s t))).
    { apply C. intros y Hy. now rewrite (Hoth y Hy). }
    lia.
Qed.

End Helpers.

Section Moves.
Variable U : list tid.
Variable nown : nid -> tid.

Lemma local_ok_frame s s' x th :
  ctr (fd s') = ctr (fd s) -> nagents (fd s') = nagents (fd s) ->
  (forall n, nown n = x -> fwtg s' n = fwtg s n) ->
  local_ok s nown x th -> local_ok s' nown x th.
Proof.
  intros Hc Hn Hw [H0 H]. split; [assumption|]. destruct (tpc th); rewrite ?Hc, ?Hn; try assumption.
  - destruct H as (H1 & H2 & H3). split; [assumption|]. rewrite (Hw _ H1). split; assumption.
  - destruct H as (H1 & H2 & H3). split; [assumption|]. rewrite (Hw _ H1). split; assumption.
Qed.

(* the counting attributes of t do not change; the mutex and t's agent object may *)
Lemma fcore_move2 s s' t th' :
  FCore U nown s -> NoDup U -> In t U ->
  fth s' = upd (fth s) t th' ->
  ctr (fd s') = ctr (fd s) -> nagents (fd s') = nagents (fd s) -> toack (fd s') = toack (fd s) ->
  vctr s' = vctr s ->
  (forall n, fwtg s' n = fwtg s n \/ nown n = t) ->
  memb th' = memb (fth s t) -> (memb th' = true -> eack th' = eack (fth s t)) -> isoff2 th' = isoff2 (fth s t) ->
  special th' = special (fth s t) -> restarter th' = restarter (fth s t) ->
  (forall x, holds (fth s' x) = true <-> fmx s' = Some x) ->
  local_ok s' nown t th' ->
  (deferred (tag th') = true -> memb th' = true /\ acked (tag th') = ctr (fd s)) ->
  FCore U nown s'.
Proof.
  intros HC ND Ht Hth Hc Hn Hta Hv Hw A1 A2 A6 A3 A5 Hh Hl H4.
  assert (Hoth : forall x, x <> t -> fth s' x = fth s x) by (intros x Hx; rewrite Hth; now apply upd_other).
  assert (Hme : fth s' t = th') by (rewrite Hth; apply upd_same).
  assert (Hneeds : forall c, needs c th' = needs c (fth s t)).
  { intros c. rewrite !needs_eq, A6. destruct (memb th') eqn:M.
    - now rewrite <- A1, (A2 eq_refl).
    - now rewrite <- A1. }
  apply (fcore_upd U nown s s' t th' HC ND Ht Hth Hv).
  - rewrite Hc. apply N.le_refl.
  - intros M. rewrite (A2 M). apply (f_j1 _ _ _ HC t). now rewrite <- A1.
  - intros M. rewrite (A2 M), Hc. apply (f_le _ _ _ HC t). now rewrite <- A1.
  - rewrite Hneeds, Hta. reflexivity.
  - rewrite A1, Hn. reflexivity.
  - exact Hh.
  - intros x. destruct (Nat.eq_dec x t) as [->|Hx]; [now rewrite Hme|]. rewrite (Hoth x Hx).
    apply (local_ok_frame s s' x (fth s x) Hc Hn); [|apply (f_loc _ _ _ HC x)].
    intros n Hnx. destruct (Hw n) as [E|E]; [assumption|congruence].
  - intros x Hx. rewrite Hc. destruct (Nat.eq_dec x t) as [->|Hn'].
    + rewrite Hme in *. now apply H4.
    + rewrite (Hoth x Hn') in *. apply (f_j4 _ _ _ HC x Hx).
  - intros x y Hx Hy.
    assert (Rx : restarter (fth s x) = true) by (destruct (Nat.eq_dec x t) as [->|Hn']; [now rewrite Hme, A5 in Hx|now rewrite (Hoth x Hn') in Hx]).
    assert (Ry : restarter (fth s y) = true) by (destruct (Nat.eq_dec y t) as [->|Hn']; [now rewrite Hme, A5 in Hy|now rewrite (Hoth y Hn') in Hy]).
    apply (f_r1 _ _ _ HC x y Rx Ry).
  - intros x Hx Hs. rewrite Hta.
    destruct (Nat.eq_dec x t) as [->|Hn']; [rewrite Hme in *; apply (f_r2 _ _ _ HC t); congruence|].
    rewrite (Hoth x Hn') in *. apply (f_r2 _ _ _ HC x Hx Hs).
Qed.

(* thread t moves between program counters with the same attributes; shared counters unchanged *)
Lemma hold_same s s' t th' :
  FCore U nown s -> fth s' = upd (fth s) t th' -> fmx s' = fmx s -> holds th' = holds (fth s t) ->
  forall x, holds (fth s' x) = true <-> fmx s' = Some x.
Proof.
  intros HC Hth Hm Hh x. rewrite Hm, Hth. destruct (Nat.eq_dec x t) as [->|Hx].
  - rewrite upd_same, Hh. apply (f_hold _ _ _ HC t).
  - rewrite upd_other by assumption. apply (f_hold _ _ _ HC x).
Qed.

Lemma hold_lock s s' t th' :
  FCore U nown s -> fth s' = upd (fth s) t th' -> fmx s = None -> fmx s' = Some t -> holds th' = true ->
  forall x, holds (fth s' x) = true <-> fmx s' = Some x.
Proof.
  intros HC Hth Hm Hm' Hh x. rewrite Hm', Hth. destruct (Nat.eq_dec x t) as [->|Hx].
  - rewrite upd_same, Hh. tauto.
  - rewrite upd_other by assumption. split.
    + intros H. apply (f_hold _ _ _ HC x) in H. congruence.
    + intros H. inversion H. congruence.
Qed.

Lemma hold_unlock s s' t th' :
  FCore U nown s -> fth s' = upd (fth s) t th' -> fmx s = Some t -> fmx s' = None -> holds th' = false ->
  forall x, holds (fth s' x) = true <-> fmx s' = Some x.
Proof.
  intros HC Hth Hm Hm' Hh x. rewrite Hm', Hth. destruct (Nat.eq_dec x t) as [->|Hx].
  - rewrite upd_same, Hh. split; discriminate.
  - rewrite upd_other by assumption. split; [|discriminate].
    intros H. apply (f_hold _ _ _ HC x) in H. congruence.
Qed.

Lemma fcore_move s s' t th' :
  FCore U nown s -> NoDup U -> In t U ->
  fth s' = upd (fth s) t th' ->
  ctr (fd s') = ctr (fd s) -> nagents (fd s') = nagents (fd s) -> toack (fd s') = toack (fd s) ->
  fmx s' = fmx s ->
  (forall n, fwtg s' n = fwtg s n \/ nown n = t) ->
  attrs th' = attrs (fth s t) ->
  local_ok s' nown t th' ->
  FCore U nown s'.
Proof.
  intros HC ND Ht Hth Hc Hn Hta Hm Hw Hat Hl.
  unfold attrs in Hat. inversion Hat as [[A1 A2 A3 A4 A5 A6 A7 A8]]. clear Hat.
  apply (fcore_move2 s s' t th' HC ND Ht Hth Hc Hn Hta); try assumption; try (intros _; assumption).
  - unfold vctr. rewrite Hm, Hc, Hth. destruct (fmx s) as [h|]; [|reflexivity].
    destruct (Nat.eq_dec h t) as [->|Hx]; [now rewrite upd_same, A3|now rewrite upd_other].
  - apply (hold_same s s' t th' HC Hth Hm A4).
  - rewrite A7, A8, A1. apply (f_j4 _ _ _ HC t).
Qed.

(* facts about the threads that do not hold the mutex *)
Lemma other_not_holder s t x : FCore U nown s -> fmx s = Some t -> x <> t -> holds (fth s x) = false.
Proof.
  intros HC Hm Hx. destruct (holds (fth s x)) eqn:E; [|reflexivity].
  apply (f_hold _ _ _ HC x) in E. congruence.
Qed.

(* local facts of the other threads when the holder changes num_agents *)
Lemma loc_others_holder s s' t x :
  FCore U nown s -> fmx s = Some t -> x <> t ->
  ctr (fd s') = ctr (fd s) -> fwtg s' = fwtg s ->
  local_ok s' nown x (fth s x).
Proof.
  intros HC Hm Hx Hc Hw. pose proof (f_loc _ _ _ HC x) as [L0 L]. pose proof (other_not_holder s t x HC Hm Hx) as Hh.
  split; [assumption|]. unfold holds in Hh. destruct (tpc (fth s x)); try discriminate; rewrite ?Hc, ?Hw; assumption.
Qed.

Lemma memb_in_U s x : FCore U nown s -> memb (fth s x) = true -> In x U.
Proof.
  intros HC Hx. destruct (in_dec Nat.eq_dec x U) as [i|n]; [assumption|].
  rewrite (f_univ _ _ _ HC x n) in Hx. discriminate.
Qed.

Lemma nagents_room s t : FCore U nown s -> NoDup U -> In t U -> memb (fth s t) = false ->
  nagents (fd s) + 1 <= N.of_nat (length U).
Proof.
  intros HC ND Ht Hm. rewrite (f_j3 _ _ _ HC).
  set (q := fun x => if Nat.eqb x t then true else memb (fth s x)).
  assert (E : cnt (fun x => memb (fth s x)) U + b2n (q t) = cnt q U + b2n (memb (fth s t))).
  { apply cnt_change; [assumption|assumption|]. intros y Hy. unfold q. apply Nat.eqb_neq in Hy. now rewrite Hy. }
  assert (Q : q t = true) by (unfold q; now rewrite Nat.eqb_refl).
  rewrite Q, Hm in E. cbn [b2n] in E. pose proof (cnt_le_length q U) as L. clearbody q. clear - E L. lia.
Qed.

Lemma nagents_pos s t : FCore U nown s -> memb (fth s t) = true -> 1 <= nagents (fd s).
Proof.
  intros HC Hm. rewrite (f_j3 _ _ _ HC).
  pose proof (cnt_pos (fun x => memb (fth s x)) U t (memb_in_U s t HC Hm) Hm) as P. clear - P. lia.
Qed.

Lemma no_members s : FCore U nown s -> nagents (fd s) = 0 -> forall x, memb (fth s x) = false.
Proof.
  intros HC H0 x. destruct (memb (fth s x)) eqn:E; [|reflexivity].
  pose proof (nagents_pos s x HC E) as P. clear - P H0. lia.
Qed.

Lemma needs_in_U s c x : FCore U nown s -> needs c (fth s x) = true -> In x U.
Proof.
  intros HC Hx. destruct (in_dec Nat.eq_dec x U) as [i|n]; [assumption|].
  rewrite (f_univ _ _ _ HC x n) in Hx. discriminate.
Qed.

Lemma toack_pos s t : FCore U nown s -> needs (vctr s) (fth s t) = true -> 1 <= toack (fd s).
Proof.
  intros HC Hn. rewrite (f_j2 _ _ _ HC).
  pose proof (cnt_pos (fun x => needs (vctr s) (fth s x)) U t (needs_in_U s _ t HC Hn) Hn) as P. clear - P. lia.
Qed.

Lemma toack_one_only s t : FCore U nown s -> NoDup U -> toack (fd s) = 1 -> needs (vctr s) (fth s t) = true ->
  forall x, x <> t -> needs (vctr s) (fth s x) = false.
Proof.
  intros HC ND H1 Hn x Hx. destruct (needs (vctr s) (fth s x)) eqn:E; [|reflexivity].
  pose proof (cnt_two (fun y => needs (vctr s) (fth s y)) U x t ND (needs_in_U s _ x HC E) (needs_in_U s _ t HC Hn) Hx E Hn) as P.
  rewrite <- (f_j2 _ _ _ HC) in P. clear - P H1. lia.
Qed.

Lemma toack_zero_none s : FCore U nown s -> toack (fd s) = 0 -> forall x, needs (vctr s) (fth s x) = false.
Proof.
  intros HC H0 x. destruct (needs (vctr s) (fth s x)) eqn:E; [|reflexivity].
  pose proof (toack_pos s x HC E) as P. clear - P H0. lia.
Qed.

(* a restarter is a member or holds the mutex *)
Lemma restarter_memb_or_holds s x : FCore U nown s -> restarter (fth s x) = true ->
  memb (fth s x) = true \/ holds (fth s x) = true.
Proof.
  intros HC R. unfold restarter in R. apply orb_true_iff in R. destruct R as [D|R].
  - left. apply (f_j4 _ _ _ HC x D).
  - pose proof (f_loc _ _ _ HC x) as [_ L]. unfold memb, holds.
    destruct (tpc (fth s x)); try discriminate; try (right; reflexivity); left;
      destruct L as (La & _); destruct (acked (tag (fth s x)) =? 0) eqn:Z; try reflexivity; apply N.eqb_eq in Z; contradiction.
Qed.

(* nobody is a member and t holds the mutex (without being at the fetch_sub of offline): nothing to ack *)
Lemma nobody_needs s t : FCore U nown s -> nagents (fd s) = 0 -> fmx s = Some t -> isoff2 (fth s t) = false ->
  toack (fd s) = 0 /\ forall x, x <> t -> restarter (fth s x) = false.
Proof.
  intros HC H0 Hm I2.
  assert (Hnn : forall x, needs (vctr s) (fth s x) = false).
  { intros x. rewrite needs_eq, (no_members s HC H0 x). cbn. rewrite orb_false_r.
    destruct (Nat.eq_dec x t) as [->|Hx]; [assumption|].
    pose proof (other_not_holder s t x HC Hm Hx) as Hh. unfold isoff2, holds in *. destruct (tpc (fth s x)); try reflexivity; discriminate. }
  split.
  - rewrite (f_j2 _ _ _ HC). clear - Hnn. induction U as [|a l IH]; cbn; [reflexivity|]. now rewrite Hnn, IH.
  - intros x Hx. destruct (restarter (fth s x)) eqn:R; [|reflexivity].
    destruct (restarter_memb_or_holds s x HC R) as [M|Hh].
    + rewrite (no_members s HC H0 x) in M. discriminate.
    + rewrite (other_not_holder s t x HC Hm Hx) in Hh. discriminate.
Qed.

(* thread t (not special before or after) changes counters other than the period; mutex unchanged *)
Lemma fcore_step_upd s s' t th' :
  FCore U nown s -> NoDup U -> In t U ->
  fth s' = upd (fth s) t th' ->
  fmx s' = fmx s -> holds th' = holds (fth s t) ->
  special (fth s t) = false -> special th' = false ->
  vctr s = ctr (fd s) ->
  ctr (fd s') = ctr (fd s) ->
  (memb th' = true -> eack th' = ctr (fd s) \/ eack th' + 1 = ctr (fd s)) ->
  toack (fd s') + b2n (needs (ctr (fd s)) (fth s t)) = toack (fd s) + b2n (needs (ctr (fd s)) th') ->
  nagents (fd s') + b2n (memb (fth s t)) = nagents (fd s) + b2n (memb th') ->
  local_ok s' nown t th' ->
  (forall x, x <> t -> local_ok s' nown x (fth s x)) ->
  (deferred (tag th') = true -> memb th' = true /\ acked (tag th') = ctr (fd s)) ->
  (restarter th' = true -> restarter (fth s t) = true \/ forall x, x <> t -> restarter (fth s x) = false) ->
  (restarter th' = true -> toack (fd s') = 0) ->
  (toack (fd s) = 0 -> toack (fd s') = 0) ->
  FCore U nown s'.
Proof.
  intros HC ND Ht Hth Hm Hh Sp Sp' Hv Hc H1 H2 H3 Hl Hlo H4 Hr1 Hr2 Hr2o.
  assert (Hoth : forall x, x <> t -> fth s' x = fth s x) by (intros x Hx; rewrite Hth; now apply upd_other).
  assert (Hme : fth s' t = th') by (rewrite Hth; apply upd_same).
  assert (Hv' : vctr s' = vctr s).
  { rewrite Hv. unfold vctr in *. rewrite Hm, Hc. destruct (fmx s) as [h|]; [|reflexivity].
    destruct (Nat.eq_dec h t) as [->|Hx]; [now rewrite Hme, Sp'|]. rewrite (Hoth h Hx). exact Hv. }
  apply (fcore_upd U nown s s' t th' HC ND Ht Hth Hv').
  - rewrite Hc. apply N.le_refl.
  - now rewrite Hv.
  - intros M. rewrite Hc. destruct (H1 M) as [E|E]; clear - E; lia.
  - now rewrite Hv.
  - exact H3.
  - apply (hold_same s s' t th' HC Hth Hm Hh).
  - intros x. destruct (Nat.eq_dec x t) as [->|Hx]; [now rewrite Hme|]. rewrite (Hoth x Hx). now apply Hlo.
  - intros x Hx. rewrite Hc. destruct (Nat.eq_dec x t) as [->|Hn']; [rewrite Hme in *; now apply H4|].
    rewrite (Hoth x Hn') in *. apply (f_j4 _ _ _ HC x Hx).
  - intros x y Hx Hy. destruct (Nat.eq_dec x t) as [->|Hnx]; destruct (Nat.eq_dec y t) as [->|Hny]; try reflexivity.
    + rewrite Hme in Hx. rewrite (Hoth y Hny) in Hy. destruct (Hr1 Hx) as [R|R]; [apply (f_r1 _ _ _ HC t y R Hy)|].
      rewrite (R y Hny) in Hy. discriminate.
    + rewrite Hme in Hy. rewrite (Hoth x Hnx) in Hx. destruct (Hr1 Hy) as [R|R]; [apply (f_r1 _ _ _ HC x t Hx R)|].
      rewrite (R x Hnx) in Hx. discriminate.
    + rewrite (Hoth x Hnx) in Hx. rewrite (Hoth y Hny) in Hy. apply (f_r1 _ _ _ HC x y Hx Hy).
  - intros x Hx Hs. destruct (Nat.eq_dec x t) as [->|Hn']; [rewrite Hme in Hx; now apply Hr2|].
    rewrite (Hoth x Hn') in *. apply Hr2o. apply (f_r2 _ _ _ HC x Hx Hs).
Qed.

(* the holder t resets agents_to_ack: from now on the virtual period is the next one *)
Lemma fcore_vbump s s' t th' :
  FCore U nown s -> NoDup U -> In t U ->
  fth s' = upd (fth s) t th' ->
  fmx s = Some t -> fmx s' = Some t ->
  special (fth s t) = false -> restarter (fth s t) = true ->
  special th' = true -> holds th' = true -> restarter th' = true ->
  memb th' = memb (fth s t) -> eack th' = eack (fth s t) -> isoff2 th' = false ->
  tag th' = tag (fth s t) ->
  ctr (fd s') = ctr (fd s) -> nagents (fd s') = nagents (fd s) -> toack (fd s') = nagents (fd s) ->
  fwtg s' = fwtg s ->
  local_ok s' nown t th' ->
  FCore U nown s'.
Proof.
  intros HC ND Ht Hth Hm Hm' Sp Rs Sp' Hh' Rs' A1 A2 A6 Atag Hc Hn Hta Hw Hl.
  assert (Hoth : forall x, x <> t -> fth s' x = fth s x) by (intros x Hx; rewrite Hth; now apply upd_other).
  assert (Hme : fth s' t = th') by (rewrite Hth; apply upd_same).
  assert (Hv : vctr s = ctr (fd s)) by (unfold vctr; now rewrite Hm, Sp).
  assert (Hv' : vctr s' = ctr (fd s) + 1) by (unfold vctr; now rewrite Hm', Hme, Sp', Hc).
  assert (T0 : toack (fd s) = 0) by (apply (f_r2 _ _ _ HC t Rs Sp)).
  assert (Hnn : forall x, In x U -> needs (ctr (fd s)) (fth s x) = false).
  { intros x Hx. pose proof (f_j2 _ _ _ HC) as J. rewrite T0, Hv in J. symmetry in J. apply (cnt_zero _ _ J x Hx). }
  assert (Hmem : forall x, memb (fth s x) = true -> In x U).
  { intros x Hx. destruct (in_dec Nat.eq_dec x U) as [i|n]; [assumption|].
    rewrite (f_univ _ _ _ HC x n) in Hx. discriminate. }
  assert (Hall : forall x, memb (fth s x) = true -> eack (fth s x) = ctr (fd s)).
  { intros x Hx. destruct (f_j1 _ _ _ HC x Hx) as [E|E]; rewrite Hv in E; [assumption|].
    pose proof (Hnn x (Hmem x Hx)) as F. rewrite needs_eq, Hx in F. apply orb_false_iff in F. destruct F as [_ F].
    cbn in F. apply N.eqb_neq in F. contradiction. }
  assert (Hat : forall x, memb (fth s' x) = memb (fth s x) /\ eack (fth s' x) = eack (fth s x)).
  { intros x. destruct (Nat.eq_dec x t) as [->|Hx]; [rewrite Hme; auto|rewrite (Hoth x Hx); auto]. }
  constructor.
  - rewrite Hc. apply (f_ctr _ _ _ HC).
  - intros x Hx. rewrite Hoth by (intros ->; contradiction). apply (f_univ _ _ _ HC x Hx).
  - apply (hold_same s s' t th' HC Hth); [congruence|]. rewrite Hh'. symmetry. apply (f_hold _ _ _ HC t). exact Hm.
  - intros x. destruct (Nat.eq_dec x t) as [->|Hx]; [now rewrite Hme|]. rewrite (Hoth x Hx).
    apply (local_ok_frame s s' x (fth s x) Hc Hn); [|apply (f_loc _ _ _ HC x)]. intros; now rewrite Hw.
  - intros x Hx. destruct (Hat x) as [E1 E2]. rewrite E1 in Hx. rewrite E2, Hv', (Hall x Hx). now right.
  - intros x Hx. destruct (Hat x) as [E1 E2]. rewrite E1 in Hx. rewrite E2, Hc. apply (f_le _ _ _ HC x Hx).
  - rewrite Hta, Hv', (f_j3 _ _ _ HC). apply cnt_ext. intros x Hx. destruct (Hat x) as [E1 E2].
    rewrite needs_eq, E1, E2.
    assert (I2 : isoff2 (fth s' x) = false).
    { destruct (Nat.eq_dec x t) as [->|Hn']; [now rewrite Hme|]. rewrite (Hoth x Hn').
      pose proof (Hnn x Hx) as F. rewrite needs_eq in F. apply orb_false_iff in F. tauto. }
    rewrite I2. cbn. destruct (memb (fth s x)) eqn:M; [|reflexivity]. rewrite (Hall x M). cbn. symmetry. apply N.eqb_refl.
  - rewrite Hn, (f_j3 _ _ _ HC). apply cnt_ext. intros x _. now destruct (Hat x) as [-> _].
  - intros x Hx. rewrite Hc. destruct (Nat.eq_dec x t) as [->|Hn'].
    + rewrite Hme in *. rewrite Atag in *. rewrite A1. apply (f_j4 _ _ _ HC t Hx).
    + rewrite (Hoth x Hn') in *. apply (f_j4 _ _ _ HC x Hx).
  - intros x y Hx Hy.
    assert (Rx : restarter (fth s x) = true) by (destruct (Nat.eq_dec x t) as [->|Hn']; [assumption|now rewrite (Hoth x Hn') in Hx]).
    assert (Ry : restarter (fth s y) = true) by (destruct (Nat.eq_dec y t) as [->|Hn']; [assumption|now rewrite (Hoth y Hn') in Hy]).
    apply (f_r1 _ _ _ HC x y Rx Ry).
  - intros x Hx Hs. destruct (Nat.eq_dec x t) as [->|Hn']; [rewrite Hme in Hs; congruence|].
    rewrite (Hoth x Hn') in Hx. elim Hn'. apply (f_r1 _ _ _ HC x t Hx Rs).
Qed.

(* the holder t, having reset agents_to_ack, stores the new period *)
Lemma fcore_store_ctr s s' t th' :
  FCore U nown s -> NoDup U -> In t U ->
  fth s' = upd (fth s) t th' ->
  fmx s = Some t -> fmx s' = Some t ->
  special (fth s t) = true -> restarter (fth s t) = true ->
  special th' = false -> holds th' = true -> restarter th' = false ->
  memb th' = memb (fth s t) -> eack th' = eack (fth s t) -> isoff2 th' = false -> isoff2 (fth s t) = false ->
  deferred (tag th') = false ->
  ctr (fd s') = ctr (fd s) + 1 -> nagents (fd s') = nagents (fd s) -> toack (fd s') = toack (fd s) ->
  fwtg s' = fwtg s ->
  local_ok s' nown t th' ->
  FCore U nown s'.
Proof.
  intros HC ND Ht Hth Hm Hm' Sp Rs Sp' Hh' Rs' A1 A2 A6 A6' Dt Hc Hn Hta Hw Hl.
  assert (Hoth : forall x, x <> t -> fth s' x = fth s x) by (intros x Hx; rewrite Hth; now apply upd_other).
  assert (Hme : fth s' t = th') by (rewrite Hth; apply upd_same).
  assert (Hv : vctr s = ctr (fd s) + 1) by (unfold vctr; now rewrite Hm, Sp).
  assert (Hv' : vctr s' = vctr s) by (unfold vctr at 1; now rewrite Hm', Hme, Sp', Hc, Hv).
  assert (Honly : forall x, x <> t -> restarter (fth s x) = false).
  { intros x Hx. destruct (restarter (fth s x)) eqn:R; [|reflexivity]. elim Hx. apply (f_r1 _ _ _ HC x t R Rs). }
  apply (fcore_upd U nown s s' t th' HC ND Ht Hth Hv').
  - rewrite Hc. clear. lia.
  - rewrite A1, A2. apply (f_j1 _ _ _ HC t).
  - rewrite A1, A2, Hc. intros M. pose proof (f_le _ _ _ HC t M) as L. clear - L. lia.
  - rewrite !needs_eq, A1, A2, A6, A6', Hta. reflexivity.
  - rewrite A1, Hn. reflexivity.
  - apply (hold_same s s' t th' HC Hth); [congruence|]. rewrite Hh'. symmetry. apply (f_hold _ _ _ HC t). exact Hm.
  - intros x. destruct (Nat.eq_dec x t) as [->|Hx]; [now rewrite Hme|]. rewrite (Hoth x Hx).
    pose proof (f_loc _ _ _ HC x) as [L0 L]. pose proof (other_not_holder s t x HC Hm Hx) as Hhx.
    pose proof (Honly x Hx) as Rx. split; [assumption|].
    unfold holds in Hhx. unfold restarter in Rx. apply orb_false_iff in Rx. destruct Rx as [Dx Rx].
    destruct (tpc (fth s x)) eqn:Ex; try discriminate; rewrite ?Hw; try assumption.
    + (* PQ2 c: impossible while t is special *)
      exfalso. destruct L as (La & Lb & Lc & Ld).
      assert (M : memb (fth s x) = true) by (unfold memb; rewrite Ex; destruct (acked (tag (fth s x)) =? 0) eqn:Z; [apply N.eqb_eq in Z; contradiction|reflexivity]).
      destruct (f_j1 _ _ _ HC x M) as [E|E]; unfold eack in E; rewrite Ex, Hv in E; clear - E Lc Ld; lia.
    + rewrite Hc. clear - L. lia.
  - intros x Hx. destruct (Nat.eq_dec x t) as [->|Hn']; [rewrite Hme in Hx; congruence|].
    rewrite (Hoth x Hn') in Hx. pose proof (Honly x Hn') as R. unfold restarter in R. rewrite Hx in R. discriminate.
  - intros x y Hx Hy. destruct (Nat.eq_dec x t) as [->|Hn']; [rewrite Hme in Hx; congruence|].
    rewrite (Hoth x Hn') in Hx. rewrite (Honly x Hn') in Hx. discriminate.
  - intros x Hx Hs. destruct (Nat.eq_dec x t) as [->|Hn']; [rewrite Hme in Hx; congruence|].
    rewrite (Hoth x Hn') in Hx. rewrite (Honly x Hn') in Hx. discriminate.
Qed.

(* an agent that is online and outside quiescent_state()/offline() has acked at most the current period *)
Lemma active_acked_le s x : FCore U nown s -> f_active s x = true ->
  acked (tag (fth s x)) <> 0 /\ in_quiescent (tpc (fth s x)) = false /\ acked (tag (fth s x)) <= ctr (fd s).
Proof.
  intros HC A. unfold f_active, online_b in A. apply andb_true_iff in A. destruct A as [A1 A2].
  apply negb_true_iff in A1, A2. apply N.eqb_neq in A1. split; [assumption|]. split; [assumption|].
  pose proof (f_loc _ _ _ HC x) as [_ L]. pose proof (f_le _ _ _ HC x) as Le.
  unfold memb, eack in Le. destruct (tpc (fth s x)); try discriminate;
    try (destruct L as (La & _); contradiction);
    (destruct (acked (tag (fth s x)) =? 0) eqn:Z; [apply N.eqb_eq in Z; contradiction|]; now apply Le).
Qed.

End Moves.

Section GhostMoves.
Variable nown : nid -> tid.

(* thread t moves; node fields unchanged; waiting sets only shrink *)
Lemma fghost_frame s s' t th' :
  FGhost nown s ->
  fth s' = upd (fth s) t th' ->
  ftarget s' = ftarget s -> fowner s' = fowner s -> fwtg s' = fwtg s ->
  (forall n x, fwait s' n x = true -> fwait s n x = true) ->
  (forall b x, fqbw s' b x = true -> fqbw s b x = true) ->
  pending (tag th') = pending (tag (fth s t)) ->
  (forall n, fwait s' n t = true -> acked (tag th') = acked (tag (fth s t)) /\ in_quiescent (tpc th') = false) ->
  (forall b tg, fqbw s' b t = true -> qb_target (fth s b) = Some tg ->
     acked (tag th') = acked (tag (fth s t)) /\ in_quiescent (tpc th') = false) ->
  (qb_target th' = None \/ qb_target th' = qb_target (fth s t)) ->
  (forall n, in_await (fth s t) n = true -> in_await th' n = true) ->
  (forall c, In c (tscript th') -> In c (tscript (fth s t))) ->
  FGhost nown s'.
Proof.
  intros HG Hth Htg Hown Hwtg Hw Hq Hpend Hkt Hqt Hqb Haw Hscr.
  assert (Hoth : forall x, x <> t -> fth s' x = fth s x) by (intros x Hx; rewrite Hth; now apply upd_other).
  assert (Hme : fth s' t = th') by (rewrite Hth; apply upd_same).
  assert (Hpending : forall x, pending (tag (fth s' x)) = pending (tag (fth s x))).
  { intros x. destruct (Nat.eq_dec x t) as [->|Hx]; [now rewrite Hme|now rewrite Hoth]. }
  constructor.
  - intros n x Hx. rewrite Hwtg. destruct (f_k _ _ HG n x (Hw n x Hx)) as (A & B & C).
    destruct (Nat.eq_dec x t) as [->|Hn]; [|now rewrite Hoth].
    rewrite Hme. destruct (Hkt n Hx) as [E1 E2]. rewrite E1. auto.
  - intros b x tg Hx Hb.
    assert (Hb' : qb_target (fth s b) = Some tg).
    { destruct (Nat.eq_dec b t) as [->|Hn]; [|now rewrite Hoth in Hb].
      rewrite Hme in Hb. destruct Hqb as [E|E]; [congruence|now rewrite <- E]. }
    destruct (f_kq _ _ HG b x tg (Hq b x Hx) Hb') as (A & B & C).
    destruct (Nat.eq_dec x t) as [->|Hn]; [|now rewrite Hoth].
    rewrite Hme. destruct (Hqt b tg Hx Hb') as [E1 E2]. rewrite E1. auto.
  - intros n. rewrite Htg, Hown, Hwtg. intros Hn. destruct (f_m _ _ HG n Hn) as (o & Ho & Hin & Hor).
    exists o. split; [assumption|]. split; [now rewrite Hpending|].
    destruct Hor as [E|E]; [now left|right].
    destruct (Nat.eq_dec o t) as [->|Hx]; [rewrite Hme; now apply Haw|now rewrite Hoth].
  - intros x n. rewrite Hpending, Htg, Hown. apply (f_p1 _ _ HG x n).
  - intros x. rewrite Hpending. apply (f_p3 _ _ HG x).
  - intros n x. rewrite Hown. apply (f_own _ _ HG n x).
  - intros x n Hin. destruct (Nat.eq_dec x t) as [->|Hx].
    + rewrite Hme in Hin. apply (f_scr _ _ HG t n). now apply Hscr.
    + rewrite Hoth in Hin by assumption. apply (f_scr _ _ HG x n Hin).
Qed.

End GhostMoves.

(* ---------------------------------------------------------------------------------------- *)
(* case analysis of one step                                                                  *)
(* ---------------------------------------------------------------------------------------- *)

Ltac fstep_inv H Hstop :=
  unfold fstep, f_step in H; rewrite Hstop in H; cbv zeta in H;
  match type of H with context [tpc ?th] => destruct (tpc th) eqn:Epc end;
  unfold do_mcall, start_call, qs_entry, ab_finish, cas_step, halt, stutter in H;
  repeat match type of H with
  | context [desired (fd ?s) =? ?c] => destruct (desired (fd s) =? c) eqn:?
  end;
  repeat match type of H with
  | context [match ?x with _ => _ end] => destruct x eqn:?
  end;
  inversion H; subst; clear H;
  cbn [tag tpc tscript tret acked deferred pending] in *.

Ltac split_ret := unfold ret_th; try match goal with |- context [tret ?th] => destruct (tret th) eqn:? end.

Ltac attrs_tac Epc :=
  unfold attrs, memb, eack, special, holds, restarter, isoff2; split_ret; cbn; rewrite ?Epc; cbn; reflexivity.

Ltac local_tac U nown HC t Epc :=
  let L := fresh "L" in
  pose proof (f_loc U nown _ HC t) as L; unfold local_ok in L |- *; rewrite Epc in L; cbn in L |- *;
  split_ret; cbn;
  n2p; intuition (try lia; try congruence).

Ltac move_tac U nown HC ND Ht t Epc :=
  eapply (fcore_move U nown _ _ t _ HC ND Ht);
    [ cbn; reflexivity | cbn; reflexivity | cbn; reflexivity | cbn; reflexivity | cbn; reflexivity
    | intros; left; reflexivity | attrs_tac Epc | local_tac U nown HC t Epc ].

Ltac attr1 Epc := intros; unfold memb, eack, special, holds, restarter, isoff2; split_ret; cbn; rewrite ?Epc; cbn; reflexivity.

Ltac j4_same U nown HC t Epc :=
  let D := fresh "D" in let M := fresh "M" in let A := fresh "A" in
  intros D; cbn in D; destruct (f_j4 U nown _ HC t D) as [M A]; split;
  [ unfold memb in *; cbn; rewrite ?Epc in *; cbn in *; assumption | exact A ].

Ltac lock_tac U nown HC ND Ht t Epc :=
  match goal with Hmx : fmx ?s = None |- _ =>
  eapply (fcore_move2 U nown _ _ t _ HC ND Ht);
  [ cbn; reflexivity | cbn; reflexivity | cbn; reflexivity | cbn; reflexivity
  | unfold vctr; cbn; rewrite Hmx, upd_same; cbn; reflexivity
  | intros; left; reflexivity
  | attr1 Epc | attr1 Epc | attr1 Epc | attr1 Epc | attr1 Epc
  | eapply (hold_lock U nown _ _ t _ HC); [cbn; reflexivity | exact Hmx | cbn; reflexivity | cbn; reflexivity]
  | local_tac U nown HC t Epc
  | j4_same U nown HC t Epc ] end.

Ltac get_local U nown HC t Epc :=
  let L := fresh "L" in pose proof (f_loc U nown _ HC t) as L; unfold local_ok in L; rewrite Epc in L; cbn in L.

Ltac holder_is_t :=
  match goal with Hmx : fmx ?s = Some ?h, E : (?h =? ?t)%nat = true |- _ => apply Nat.eqb_eq in E; subst h end.

Ltac unlock_tac U nown HC ND Ht t Epc :=
  holder_is_t;
  match goal with Hmx : fmx ?s = Some t |- _ =>
  eapply (fcore_move2 U nown _ _ t _ HC ND Ht);
  [ cbn; reflexivity | cbn; reflexivity | cbn; reflexivity | cbn; reflexivity
  | unfold vctr; cbn; rewrite Hmx; unfold special; rewrite Epc; reflexivity
  | intros; left; reflexivity
  | attr1 Epc | attr1 Epc | attr1 Epc | attr1 Epc | attr1 Epc
  | eapply (hold_unlock U nown _ _ t _ HC); [cbn; reflexivity | exact Hmx | cbn; reflexivity | attr1 Epc]
  | local_tac U nown HC t Epc
  | let D := fresh "D" in intros D; exfalso; get_local U nown HC t Epc; revert D; split_ret; cbn; intuition congruence ] end.

(* prelude for a step by the mutex holder t (not special) *)
Ltac holder_prelude U nown HC t Epc :=
  let Hh := fresh "Hh" in
  assert (Hh : holds (fth _ t) = true) by (unfold holds; now rewrite Epc);
  assert (Hmx : fmx _ = Some t) by (apply (f_hold U nown _ HC t); exact Hh);
  assert (Hsp : special (fth _ t) = false) by (unfold special; now rewrite Epc);
  assert (Hv : vctr _ = ctr (fd _)) by (unfold vctr; rewrite Hmx, Hsp; reflexivity).

Ltac others_holder U nown HC t Hmx :=
  let x := fresh "x" in let Hx := fresh "Hx" in
  intros x Hx; apply (loc_others_holder U nown _ _ t x HC Hmx Hx); reflexivity.

Ltac attrv Epc := unfold memb, eack, special, holds, restarter, isoff2; cbn; rewrite ?Epc; cbn;
  try reflexivity; try (apply orb_true_r).

Ltac vbump_tac U nown HC ND Ht t Epc :=
  let Hh := fresh "Hh" in
  assert (Hh : holds (fth _ t) = true) by (unfold holds; now rewrite Epc);
  assert (Hmx : fmx _ = Some t) by (apply (f_hold U nown _ HC t); exact Hh);
  eapply (fcore_vbump U nown _ _ t _ HC ND Ht);
  [ cbn; reflexivity | exact Hmx | cbn; exact Hmx | attrv Epc | attrv Epc | attrv Epc | attrv Epc | attrv Epc
  | attrv Epc | attrv Epc | attrv Epc | cbn; reflexivity | cbn; reflexivity | cbn; reflexivity | cbn
  | cbn; reflexivity | local_tac U nown HC t Epc ].

Ltac store_ctr_tac U nown HC ND Ht t Epc :=
  let Hh := fresh "Hh" in
  assert (Hh : holds (fth _ t) = true) by (unfold holds; now rewrite Epc);
  assert (Hmx : fmx _ = Some t) by (apply (f_hold U nown _ HC t); exact Hh);
  eapply (fcore_store_ctr U nown _ _ t _ HC ND Ht);
  [ cbn; reflexivity | exact Hmx | cbn; exact Hmx | attrv Epc | attrv Epc | attrv Epc | attrv Epc | 
  | attrv Epc | attrv Epc | attrv Epc | attrv Epc | | cbn | cbn; reflexivity | cbn; reflexivity
  | cbn; reflexivity | ].

Ltac others_frame U nown HC :=
  let x := fresh "x" in let Hx := fresh "Hx" in
  intros x Hx; eapply (local_ok_frame nown); [cbn; reflexivity|cbn; reflexivity|intros; reflexivity|apply (f_loc U nown _ HC x)].

Section Step.
Variable U : list tid.
Variable nown : nid -> tid.
Hypothesis ND : NoDup U.
Hypothesis HB : few U.

Lemma fstep_core t s s' evs op :
  In t U -> FCore U nown s -> FGhost nown s -> fstop s = None ->
  fstep t s = (s', evs, op) -> fstop s' = None -> FCore U nown s'.
Proof.
  intros Ht HC HG Hstop H Hns.
  fstep_inv H Hstop.
  all: try (cbn in Hns; discriminate).
  all: try assumption.
  all: try solve [move_tac U nown HC ND Ht t Epc].
  all: try solve [lock_tac U nown HC ND Ht t Epc].
  all: try solve [unlock_tac U nown HC ND Ht t Epc].
  all: clear Hns.
  1: { (* PIdle -> POn0 *)
    assert (Dn : deferred (tag (fth s t)) = false).
    { destruct (deferred (tag (fth s t))) eqn:D; [|reflexivity].
      destruct (f_j4 _ _ _ HC t D) as [M _]. unfold memb in M. rewrite Epc in M. n2p. contradiction. }
    eapply (fcore_move U nown _ _ t _ HC ND Ht);
      [ cbn; reflexivity | cbn; reflexivity | cbn; reflexivity | cbn; reflexivity | cbn; reflexivity
      | intros; left; reflexivity | attrs_tac Epc | ].
    n2p. split; cbn; auto. }
  1: { (* PIdle -> PAb1 n *)
    eapply (fcore_move U nown _ _ t _ HC ND Ht);
      [ cbn; reflexivity | cbn; reflexivity | cbn; reflexivity | cbn; reflexivity | cbn; reflexivity
      | intros; left; reflexivity | attrs_tac Epc | ].
    split; cbn; [auto|]. apply (f_scr _ _ HG t n). rewrite Heql. now left. }
  1: { (* POn1 -> POn2: first agent *)
    get_local U nown HC t Epc. destruct L as (L0 & La & Ld).
    holder_prelude U nown HC t Epc.
    assert (Hnm : memb (fth s t) = false) by (unfold memb; rewrite Epc, La; reflexivity).
    pose proof (nagents_room U nown s t HC ND Ht Hnm) as Hroom.
    assert (Hinc : inc32 (nagents (fd s)) = nagents (fd s) + 1).
    { unfold inc32. destruct (nagents (fd s) =? 4294967295) eqn:E; [|reflexivity]. n2p. unfold few in HB. clear - HB Hroom E. lia. }
    rewrite Hinc in *. n2p.
    assert (Hn0 : nagents (fd s) = 0) by (clear - Heqb; lia).
    assert (I2 : isoff2 (fth s t) = false) by (unfold isoff2; now rewrite Epc).
    destruct (nobody_needs U nown s t HC Hn0 Hmx I2) as [T0 Hnor].
    pose proof (f_ctr _ _ _ HC) as Hc1.
    eapply (fcore_step_upd U nown s _ t _ HC ND Ht); try (cbn; reflexivity); try assumption.
    - attr1 Epc.
    - intros _. left. reflexivity.
    - cbn. rewrite !needs_eq, Hnm, I2. unfold isoff2, memb, eack. cbn.
      destruct (ctr (fd s) + 1 =? ctr (fd s)) eqn:E; [n2p; clear - E; lia|reflexivity].
    - cbn. rewrite Hnm. unfold memb. cbn. clear. lia.
    - split; cbn; [auto|]. repeat split; auto.
    - others_holder U nown HC t Hmx.
    - cbn. congruence.
    - intros _. now right.
    - intros _. exact T0.
    - auto. }
  1: { (* POn1 -> POn5: somebody is online already *)
    get_local U nown HC t Epc. destruct L as (L0 & La & Ld).
    holder_prelude U nown HC t Epc.
    assert (Hnm : memb (fth s t) = false) by (unfold memb; rewrite Epc, La; reflexivity).
    pose proof (nagents_room U nown s t HC ND Ht Hnm) as Hroom.
    assert (Hinc : inc32 (nagents (fd s)) = nagents (fd s) + 1).
    { unfold inc32. destruct (nagents (fd s) =? 4294967295) eqn:E; [|reflexivity]. n2p. unfold few in HB. clear - HB Hroom E. lia. }
    rewrite Hinc in *. n2p.
    assert (I2 : isoff2 (fth s t) = false) by (unfold isoff2; now rewrite Epc).
    pose proof (f_ctr _ _ _ HC) as Hc1.
    eapply (fcore_step_upd U nown s _ t _ HC ND Ht); try (cbn; reflexivity); try assumption.
    - attr1 Epc.
    - intros _. left. reflexivity.
    - cbn. rewrite !needs_eq, Hnm, I2. unfold isoff2, memb, eack. cbn.
      destruct (ctr (fd s) + 1 =? ctr (fd s)) eqn:E; [n2p; clear - E; lia|reflexivity].
    - cbn. rewrite Hnm. unfold memb. cbn. clear. lia.
    - split; cbn; [auto|]. repeat split; auto.
    - others_holder U nown HC t Hmx.
    - cbn. congruence.
    - unfold restarter. cbn. rewrite Ld. discriminate.
    - unfold restarter. cbn. rewrite Ld. discriminate.
    - auto. }
  1: { (* POn3 -> POn4 *)
    vbump_tac U nown HC ND Ht t Epc. get_local U nown HC t Epc. symmetry. tauto. }
  1: { (* POn4 -> POn5 *)
    get_local U nown HC t Epc. destruct L as (L0 & La & Ld & Lc & Ln & L1).
    store_ctr_tac U nown HC ND Ht t Epc.
    - unfold restarter. cbn. now rewrite Ld.
    - exact Ld.
    - now rewrite Lc.
    - split; cbn; auto. }
  1: { (* POn5 -> idle: unlock, acked := c *)
    holder_is_t. get_local U nown HC t Epc. destruct L as (L0 & La & Ld & L1).
    assert (Hr : tret (fth s t) = None) by (apply L0; reflexivity).
    assert (Hc0 : (c =? 0) = false) by (apply N.eqb_neq; clear - L1; lia).
    eapply (fcore_move2 U nown s _ t _ HC ND Ht); try (cbn; reflexivity).
    - unfold vctr. cbn. rewrite Heqo. unfold special. now rewrite Epc.
    - intros; left; reflexivity.
    - unfold ret_th, memb. cbn. rewrite Hr, Epc. cbn. now rewrite Hc0.
    - intros _. unfold ret_th, eack. cbn. rewrite Hr, Epc. reflexivity.
    - unfold ret_th, isoff2. cbn. rewrite Hr, Epc. reflexivity.
    - unfold ret_th, special. cbn. rewrite Hr, Epc. reflexivity.
    - unfold ret_th, restarter. cbn. rewrite Hr, Epc. reflexivity.
    - eapply (hold_unlock U nown s _ t _ HC); [cbn; reflexivity|exact Heqo|cbn; reflexivity|].
      unfold ret_th, holds. cbn. now rewrite Hr.
    - unfold ret_th. cbn. rewrite Hr. split; cbn; auto.
    - unfold ret_th. cbn. rewrite Hr. cbn. congruence. }
  1: { (* POff1 -> POff2 *)
    get_local U nown HC t Epc. destruct L as (L0 & La & Ld).
    holder_prelude U nown HC t Epc. n2p.
    assert (Hm1 : memb (fth s t) = true).
    { unfold memb. rewrite Epc. destruct (acked (tag (fth s t)) =? 0) eqn:Z; [n2p; contradiction|reflexivity]. }
    pose proof (nagents_pos U nown s t HC Hm1) as Hnp. rewrite (dec32_pos _ Hnp).
    eapply (fcore_step_upd U nown s _ t _ HC ND Ht); try (cbn; reflexivity); try assumption.
    - attr1 Epc.
    - unfold memb. cbn. discriminate.
    - cbn. rewrite !needs_eq, Hm1. unfold isoff2, memb, eack. cbn. rewrite Epc. cbn.
      destruct (acked (tag (fth s t)) + 1 =? ctr (fd s)) eqn:E; [reflexivity|n2p; contradiction].
    - cbn. rewrite Hm1. unfold memb. cbn. clear - Hnp. lia.
    - split; cbn; auto.
    - others_holder U nown HC t Hmx.
    - cbn. congruence.
    - unfold restarter. cbn. rewrite Ld. discriminate.
    - unfold restarter. cbn. rewrite Ld. discriminate.
    - auto. }
  1: { (* POff1 -> POff5: already acked *)
    get_local U nown HC t Epc. destruct L as (L0 & La & Ld).
    holder_prelude U nown HC t Epc. n2p.
    assert (Hm1 : memb (fth s t) = true).
    { unfold memb. rewrite Epc. destruct (acked (tag (fth s t)) =? 0) eqn:Z; [n2p; contradiction|reflexivity]. }
    pose proof (nagents_pos U nown s t HC Hm1) as Hnp. rewrite (dec32_pos _ Hnp).
    eapply (fcore_step_upd U nown s _ t _ HC ND Ht); try (cbn; reflexivity); try assumption.
    - attr1 Epc.
    - unfold memb. cbn. discriminate.
    - cbn. rewrite !needs_eq, Hm1. unfold isoff2, memb, eack. cbn. rewrite Epc. cbn.
      destruct (acked (tag (fth s t)) + 1 =? ctr (fd s)) eqn:E; [n2p; clear - E Heqb; lia|reflexivity].
    - cbn. rewrite Hm1. unfold memb. cbn. clear - Hnp. lia.
    - split; cbn; auto.
    - others_holder U nown HC t Hmx.
    - cbn. congruence.
    - unfold restarter. cbn. rewrite Ld. discriminate.
    - unfold restarter. cbn. rewrite Ld. discriminate.
    - auto. }
  1: { (* POff2 -> POff3: last acker *)
    get_local U nown HC t Epc. destruct L as (L0 & La & Ld & Lc & Le).
    holder_prelude U nown HC t Epc. n2p. rewrite Heqb.
    assert (Hnor : forall x, x <> t -> restarter (fth s x) = false).
    { intros x Hx. destruct (restarter (fth s x)) eqn:R; [|reflexivity].
      assert (Sx : special (fth s x) = false).
      { destruct (special (fth s x)) eqn:Sx; [|reflexivity]. apply special_holds in Sx.
        rewrite (other_not_holder U nown s t x HC Hmx Hx) in Sx. discriminate. }
      pose proof (f_r2 _ _ _ HC x R Sx) as T0. clear - T0 Heqb. lia. }
    eapply (fcore_step_upd U nown s _ t _ HC ND Ht); try (cbn; reflexivity); try assumption.
    1: attr1 Epc.
    1: (unfold memb; cbn; discriminate).
    1: (cbn; rewrite !needs_eq; unfold isoff2, memb, eack; cbn; rewrite Epc; cbn; rewrite Heqb; reflexivity).
    1: (cbn; unfold memb; cbn; rewrite Epc; reflexivity).
    1: (split; cbn; auto).
    1: others_holder U nown HC t Hmx.
    1: (cbn; congruence).
    1: (intros _; now right).
    all: try (intros E; clear - E Heqb; lia). }
  1: { (* POff2 -> POff5: not the last one *)
    get_local U nown HC t Epc. destruct L as (L0 & La & Ld & Lc & Le).
    holder_prelude U nown HC t Epc. n2p.
    assert (Hnd : needs (vctr s) (fth s t) = true) by (unfold needs; now rewrite Epc).
    pose proof (toack_pos U nown s t HC Hnd) as Htp. rewrite (dec32_pos _ Htp).
    eapply (fcore_step_upd U nown s _ t _ HC ND Ht); try (cbn; reflexivity); try assumption.
    - attr1 Epc.
    - unfold memb. cbn. discriminate.
    - cbn. rewrite !needs_eq. unfold isoff2, memb, eack. cbn. rewrite Epc. cbn. clear - Htp. lia.
    - cbn. unfold memb. cbn. rewrite Epc. reflexivity.
    - split; cbn; auto.
    - others_holder U nown HC t Hmx.
    - cbn. congruence.
    - unfold restarter. cbn. rewrite Ld. discriminate.
    - unfold restarter. cbn. rewrite Ld. discriminate.
    - intros E. clear - E Htp. lia. }
  1: { (* POff3 -> POff4 *)
    vbump_tac U nown HC ND Ht t Epc. reflexivity. }
  1: { (* POff4 -> POff5 *)
    get_local U nown HC t Epc. destruct L as (L0 & La & Ld & Lc & Le).
    store_ctr_tac U nown HC ND Ht t Epc.
    - unfold restarter. cbn. now rewrite Ld.
    - exact Ld.
    - now rewrite Lc.
    - split; cbn; auto. }
  1: { (* POff5 -> idle: unlock, acked := 0 *)
    holder_is_t. get_local U nown HC t Epc. destruct L as (L0 & Ld).
    assert (Hr : tret (fth s t) = None) by (apply L0; reflexivity).
    eapply (fcore_move2 U nown s _ t _ HC ND Ht); try (cbn; reflexivity).
    - unfold vctr. cbn. rewrite Heqo. unfold special. now rewrite Epc.
    - intros; left; reflexivity.
    - unfold ret_th, memb. cbn. rewrite Hr, Epc. reflexivity.
    - unfold ret_th, memb. cbn. rewrite Hr. cbn. discriminate.
    - unfold ret_th, isoff2. cbn. rewrite Hr, Epc. reflexivity.
    - unfold ret_th, special. cbn. rewrite Hr, Epc. reflexivity.
    - unfold ret_th, restarter. cbn. rewrite Hr, Epc. reflexivity.
    - eapply (hold_unlock U nown s _ t _ HC); [cbn; reflexivity|exact Heqo|cbn; reflexivity|].
      unfold ret_th, holds. cbn. now rewrite Hr.
    - unfold ret_th. cbn. rewrite Hr. split; cbn; auto.
    - unfold ret_th. cbn. rewrite Hr. cbn. congruence. }
  1: { (* PQd4 -> PQd5 *)
    get_local U nown HC t Epc. destruct L as (L0 & La & Ld).
    assert (Hh : holds (fth s t) = true) by (unfold holds; now rewrite Epc).
    assert (Hmx : fmx s = Some t) by (apply (f_hold U nown _ HC t); exact Hh).
    eapply (fcore_vbump U nown _ _ t _ HC ND Ht); try (cbn; reflexivity); try assumption.
    all: try (unfold memb, eack, special, holds, restarter, isoff2; cbn; rewrite ?Epc, ?Ld; cbn; reflexivity).
    split; cbn; auto. }
  1: { (* PQd5 -> PQd6 *)
    get_local U nown HC t Epc. destruct L as (L0 & La & Ld).
    destruct (f_j4 _ _ _ HC t Ld) as [Hm1 Hac].
    assert (Hh : holds (fth s t) = true) by (unfold holds; now rewrite Epc).
    assert (Hmx : fmx s = Some t) by (apply (f_hold U nown _ HC t); exact Hh).
    eapply (fcore_store_ctr U nown _ _ t _ HC ND Ht); try (cbn; reflexivity); try assumption.
    all: try (unfold memb, eack, special, holds, restarter, isoff2; cbn; rewrite ?Epc, ?Ld; cbn; reflexivity).
    - cbn. now rewrite Hac.
    - split; cbn; auto. }
  1: { (* PQ2 -> PQ3: last acker *)
    get_local U nown HC t Epc. destruct L as (L0 & La & Ld & Lc & Le). n2p. rewrite Heqb.
    assert (Hm1 : memb (fth s t) = true).
    { unfold memb. rewrite Epc. destruct (acked (tag (fth s t)) =? 0) eqn:Z; [n2p; contradiction|reflexivity]. }
    assert (Hv : vctr s = ctr (fd s)).
    { destruct (vctr_cases U nown s HC) as [[E _]|[E _]]; [assumption|exfalso].
      destruct (f_j1 _ _ _ HC t Hm1) as [F|F]; unfold eack in F; rewrite Epc, E in F; clear - F Lc Le; lia. }
    assert (Hnor : forall x, x <> t -> restarter (fth s x) = false).
    { intros x Hx. destruct (restarter (fth s x)) eqn:R; [|reflexivity].
      assert (Sx : special (fth s x) = false).
      { destruct (special (fth s x)) eqn:Sx; [|reflexivity]. exfalso. pose proof Sx as Sx'. apply special_holds in Sx.
        apply (f_hold _ _ _ HC x) in Sx. unfold vctr in Hv. rewrite Sx, Sx' in Hv. clear - Hv. lia. }
      pose proof (f_r2 _ _ _ HC x R Sx) as T0. clear - T0 Heqb. lia. }
    eapply (fcore_step_upd U nown s _ t _ HC ND Ht); try (cbn; reflexivity); try assumption.
    1: attr1 Epc.
    1: (unfold special; now rewrite Epc).
    1: (intros _; left; unfold eack; cbn; clear - Lc Le; lia).
    1: (cbn; rewrite !needs_eq; unfold isoff2, memb, eack; cbn; rewrite Epc; cbn;
        destruct (acked (tag (fth s t)) =? 0) eqn:Z1; [n2p; contradiction|]; cbn;
        destruct (acked (tag (fth s t)) + 1 =? ctr (fd s)) eqn:Z2; [|n2p; clear - Z2 Lc Le; lia];
        destruct (acked (tag (fth s t)) + 1 + 1 =? ctr (fd s)) eqn:Z3; [n2p; clear - Z3 Lc Le; lia|rewrite Heqb; reflexivity]).
    1: (cbn; unfold memb; cbn; rewrite Epc; reflexivity).
    1: (split; cbn; auto).
    1: others_frame U nown HC.
    1: (cbn; congruence).
    1: (intros _; now right).
    all: try (intros E; clear - E Heqb; lia). }
  1: { (* PQ2 -> return: acked, not the last one *)
    get_local U nown HC t Epc. destruct L as (L0 & La & Ld & Lc & Le). n2p.
    assert (Hm1 : memb (fth s t) = true).
    { unfold memb. rewrite Epc. destruct (acked (tag (fth s t)) =? 0) eqn:Z; [n2p; contradiction|reflexivity]. }
    assert (Hv : vctr s = ctr (fd s)).
    { destruct (vctr_cases U nown s HC) as [[E _]|[E _]]; [assumption|exfalso].
      destruct (f_j1 _ _ _ HC t Hm1) as [F|F]; unfold eack in F; rewrite Epc, E in F; clear - F Lc Le; lia. }
    assert (Hnd : needs (vctr s) (fth s t) = true).
    { rewrite needs_eq, Hm1, Hv. unfold eack. rewrite Epc. cbn.
      destruct (acked (tag (fth s t)) + 1 =? ctr (fd s)) eqn:Z2; [apply orb_true_r|n2p; clear - Z2 Lc Le; lia]. }
    pose proof (toack_pos U nown s t HC Hnd) as Htp. rewrite (dec32_pos _ Htp). rewrite Hv in Hnd.
    assert (Hz : (acked (tag (fth s t)) + 1 =? 0) = false) by (apply N.eqb_neq; clear; lia).
    assert (Hz2 : (acked (tag (fth s t)) + 1 + 1 =? ctr (fd s)) = false) by (apply N.eqb_neq; clear - Lc Le; lia).
    unfold ret_th; cbn [tret with_ag]; destruct (tret (fth s t)) eqn:Hr.
    all: eapply (fcore_step_upd U nown s _ t _ HC ND Ht); try (cbn; reflexivity); try assumption.
    all: try (unfold holds, special; cbn; rewrite ?Epc; reflexivity).
    all: try (intros _; left; unfold eack; cbn; clear - Lc Le; lia).
    all: try (rewrite Hnd, needs_eq; unfold isoff2, memb, eack; cbn; rewrite Hz, Hz2; cbn; clear - Htp; lia).
    all: try (cbn; rewrite Hm1; unfold memb; cbn; rewrite Hz; reflexivity).
    all: try (split; cbn; auto; fail).
    all: try (others_frame U nown HC).
    all: try (cbn; congruence).
    all: try (unfold restarter; cbn; rewrite Ld; discriminate).
    all: try (intros E; clear - E Htp; lia). }
  1: { (* PQ3 -> return: the period is deferred *)
    get_local U nown HC t Epc. destruct L as (L0 & La & Ld & Lc & Le).
    assert (Hz : (acked (tag (fth s t)) + 1 =? 0) = false) by (apply N.eqb_neq; clear; lia).
    assert (Hz0 : (acked (tag (fth s t)) =? 0) = false) by (now apply N.eqb_neq).
    assert (Hnh : holds (fth s t) = false) by (unfold holds; now rewrite Epc).
    unfold ret_th; cbn [tret with_ag]; destruct (tret (fth s t)) eqn:Hr.
    all: eapply (fcore_move2 U nown s _ t _ HC ND Ht); try (cbn; reflexivity).
    all: try (intros; left; reflexivity).
    all: try (intros; unfold memb, eack, special, restarter, isoff2; cbn; rewrite ?Epc, ?Hz, ?Hz0, ?Ld; cbn; reflexivity).
    all: try (eapply (hold_same U nown s _ t _ HC); [cbn; reflexivity|cbn; reflexivity|unfold holds; cbn; now rewrite Epc]).
    all: try (split; cbn; auto; fail).
    all: try (intros _; cbn; unfold memb; cbn; rewrite Hz; split; [reflexivity|clear - Lc Le; lia]).
    all: unfold vctr; cbn; destruct (fmx s) as [h|] eqn:Hm; [|reflexivity];
      destruct (Nat.eq_dec h t) as [->|Hx]; [apply (f_hold _ _ _ HC t) in Hm; congruence|now rewrite upd_other]. }
  1: { (* PQ5 -> PQ6 *)
    vbump_tac U nown HC ND Ht t Epc. reflexivity. }
  1: { (* PQ6 -> PQ7 *)
    get_local U nown HC t Epc. destruct L as (L0 & La & Ld & Lc & Le).
    store_ctr_tac U nown HC ND Ht t Epc.
    - unfold restarter. cbn. now rewrite Ld.
    - exact Ld.
    - now rewrite Lc.
    - split; cbn; auto. }
  1: { (* PQ7 -> return: unlock, acked++ *)
    holder_is_t. get_local U nown HC t Epc. destruct L as (L0 & La & Ld).
    assert (Hz : (acked (tag (fth s t)) + 1 =? 0) = false) by (apply N.eqb_neq; clear; lia).
    assert (Hz0 : (acked (tag (fth s t)) =? 0) = false) by (now apply N.eqb_neq).
    unfold ret_th; cbn [tret with_ag]; destruct (tret (fth s t)) eqn:Hr.
    all: eapply (fcore_move2 U nown s _ t _ HC ND Ht); try (cbn; reflexivity).
    all: try (intros; left; reflexivity).
    all: try (intros; unfold memb, eack, special, restarter, isoff2; cbn; rewrite ?Epc, ?Hz, ?Hz0, ?Ld; cbn; reflexivity).
    all: try (eapply (hold_unlock U nown s _ t _ HC); [cbn; reflexivity|exact Heqo|cbn; reflexivity|unfold holds; cbn; reflexivity]).
    all: try (split; cbn; auto; fail).
    all: try (cbn; congruence).
    all: unfold vctr; cbn; rewrite Heqo; unfold special; now rewrite Epc. }
  1: { (* PAb1 -> PAb2: the waiting set is formed *)
    get_local U nown HC t Epc. destruct L as (L0 & Ln).
    eapply (fcore_move U nown s _ t _ HC ND Ht); try (cbn; reflexivity).
    - intros m. cbn. destruct (Nat.eq_dec m n) as [->|Hm]; [now right|left; now apply upd_other].
    - attrs_tac Epc.
    - split; cbn; auto. split; [assumption|]. rewrite upd_same. split; [reflexivity|]. clear. lia. }
  1: { (* PRun2: one callback *)
    eapply (fcore_move U nown s _ t _ HC ND Ht); try (cbn; reflexivity).
    - intros; left; reflexivity.
    - get_local U nown HC t Epc. unfold local_ok. cbn. rewrite Epc. cbn. exact L. }
Qed.

End Step.

Section StepGhost.
Variable U : list tid.
Variable nown : nid -> tid.

(* obligations about t being in a waiting set: it is not (quiescent program counter / offline), or nothing changes *)
Ltac in_wait_tac nown HG t Epc :=
  let n := fresh "n" in let Hw := fresh "Hw" in let A := fresh "A" in let Q := fresh "Q" in
  intros n Hw; cbn in Hw; rewrite ?Nat.eqb_refl in Hw; first [discriminate Hw|idtac];
  destruct (f_k nown _ HG n t Hw) as (A & Q & _);
  rewrite ?Epc in Q; cbn in Q; first [ discriminate Q | split; split_ret; cbn; reflexivity ].

Ltac in_qbw_tac nown HG t Epc :=
  let n := fresh "b" in let tg := fresh "tg" in let Hw := fresh "Hw" in let Hb := fresh "Hb" in
  let A := fresh "A" in let Q := fresh "Q" in
  intros n tg Hw Hb; cbn in Hw; rewrite ?Nat.eqb_refl in Hw; first [discriminate Hw|idtac];
  destruct (f_kq nown _ HG n t tg Hw Hb) as (A & Q & _);
  rewrite ?Epc in Q; cbn in Q; first [ discriminate Q | split; split_ret; cbn; reflexivity ].

(* the tail of await_barrier: the node is queued *)
Lemma ghost_ab_finish s t n tg d mx :
  FGhost nown s -> in_await (fth s t) n = true -> in_quiescent (tpc (fth s t)) = false ->
  nown n = t -> tg = fwtg s n -> tg <> 0 -> tret (fth s t) = None -> ftarget s n = 0 ->
  FGhost nown
    (mkF d mx
       (upd (fth s) t (ret_th (with_ag (fth s t)
          (mkAgent (acked (tag (fth s t))) (deferred (tag (fth s t))) (pending (tag (fth s t)) ++ [n])))))
       (upd (ftarget s) n tg) (fstop s) (fwait s) (fwtg s) (fqbw s) (upd (fowner s) n (Some t))).
Proof.
  intros HG Haw Hq Hn Htg Htg0 Hr H0.
  unfold ret_th. cbn [tret with_ag]. rewrite Hr.
  set (th' := mkT PIdle _ None _).
  assert (Hacc : forall x, acked (tag (upd (fth s) t th' x)) = acked (tag (fth s x))).
  { intros x. unfold upd. destruct (Nat.eqb x t) eqn:E; [apply Nat.eqb_eq in E; subst x|]; reflexivity. }
  assert (Hpc : forall x, in_quiescent (tpc (fth s x)) = false -> in_quiescent (tpc (upd (fth s) t th' x)) = false).
  { intros x. unfold upd. destruct (Nat.eqb x t) eqn:E; [reflexivity|auto]. }
  assert (Hnot : forall x, ~ In n (pending (tag (fth s x)))).
  { intros x Hin. destruct (f_p1 nown _ HG x n Hin). contradiction. }
  constructor; cbn.
  - intros m x Hw. rewrite Hacc. destruct (f_k nown _ HG m x Hw) as (A1 & A2 & A3). auto.
  - intros b x tg0 Hw Hb. rewrite Hacc.
    assert (Hb' : qb_target (fth s b) = Some tg0).
    { revert Hb. unfold upd. destruct (Nat.eqb b t) eqn:E; [|auto]. unfold qb_target, th'. cbn. discriminate. }
    destruct (f_kq nown _ HG b x tg0 Hw Hb') as (A1 & A2 & A3). auto.
  - intros m. destruct (Nat.eq_dec m n) as [->|Hm].
    + intros _. exists t. rewrite !upd_same. split; [reflexivity|]. split; [cbn; apply in_or_app; right; now left|].
      left. now symmetry.
    + rewrite !(upd_other _ n _ m Hm). intros Hmz. destruct (f_m nown _ HG m Hmz) as (o & Ho & Hin & Hor).
      exists o. split; [assumption|]. unfold upd at 1 2. destruct (Nat.eqb o t) eqn:E.
      * apply Nat.eqb_eq in E. subst o. split; [cbn; apply in_or_app; now left|].
        destruct Hor as [F|F]; [now left|]. exfalso. unfold in_await in *.
        destruct (tpc (fth s t)); try discriminate; apply Nat.eqb_eq in Haw, F; congruence.
      * split; [assumption|]. destruct Hor as [F|F]; [now left|right; assumption].
  - intros x m Hin. unfold upd in Hin. destruct (Nat.eqb x t) eqn:E.
    + apply Nat.eqb_eq in E. subst x. cbn in Hin. apply in_app_or in Hin. destruct Hin as [Hin|[<-|[]]].
      * assert (m <> n) by (intros ->; apply (Hnot t Hin)). rewrite !upd_other by assumption. apply (f_p1 nown _ HG t m Hin).
      * rewrite !upd_same. split; [assumption|reflexivity].
    + assert (m <> n) by (intros ->; apply (Hnot x Hin)). rewrite !upd_other by assumption.
      apply Nat.eqb_neq in E. destruct (f_p1 nown _ HG x m Hin). split; assumption.
  - intros x. unfold upd. destruct (Nat.eqb x t) eqn:E; [|apply (f_p3 nown _ HG x)].
    cbn. apply NoDup_snoc; [apply (f_p3 nown _ HG t)|apply Hnot].
  - intros m x. unfold upd. destruct (Nat.eqb m n) eqn:E.
    + apply Nat.eqb_eq in E. subst m. intros F. inversion F. congruence.
    + apply (f_own nown _ HG).
  - intros x m. unfold upd. destruct (Nat.eqb x t) eqn:E; [apply Nat.eqb_eq in E; subst x|]; apply (f_scr nown _ HG).
Qed.

Ltac ghost_move nown HG t Epc :=
  eapply (fghost_frame nown _ _ t _ HG);
  [ cbn; reflexivity | cbn; reflexivity | cbn; reflexivity | cbn; reflexivity
  | cbn; intros ? ? ?; repeat match goal with H : (if ?b then _ else _) = true |- _ => destruct b; [discriminate|] end; assumption
  | cbn; intros ? ? ?; repeat match goal with H : (if ?b then _ else _) = true |- _ => destruct b; [discriminate|] end; assumption
  | split_ret; cbn; reflexivity
  | in_wait_tac nown HG t Epc | in_qbw_tac nown HG t Epc
  | unfold qb_target; split_ret; cbn; rewrite ?Epc; cbn; first [left; reflexivity | right; reflexivity | right; assumption | auto]
  | intros ?; unfold in_await; rewrite Epc; cbn; try discriminate; auto
  | let HH := fresh "HH" in split_ret; cbn; intros ? HH;
    first [exact HH | match goal with E : tscript _ = _ :: _ |- _ => rewrite E; right; exact HH end] ].

Lemma fstep_ghost t s s' evs op :
  FCore U nown s -> FGhost nown s -> fstop s = None ->
  fstep t s = (s', evs, op) -> fstop s' = None -> FGhost nown s'.
Proof.
  intros HC HG Hstop H Hns.
  fstep_inv H Hstop.
  all: try (cbn in Hns; discriminate).
  all: try assumption.
  all: clear Hns.
  all: try solve [ghost_move nown HG t Epc].
  1: { (* POn5 -> idle: acked := c; an offline agent is in no waiting set *)
    pose proof (f_loc _ _ _ HC t) as [L0 L]. rewrite Epc in L0, L. destruct L as (La & _).
    assert (Hr : tret (fth s t) = None) by (apply L0; reflexivity).
    unfold ret_th. cbn [tret with_ag]. rewrite Hr.
    eapply (fghost_frame nown _ _ t _ HG); try (cbn; reflexivity).
    - cbn. auto.
    - cbn. auto.
    - intros m Hw. cbn in Hw. destruct (f_k nown _ HG m t Hw) as (A & _). contradiction.
    - intros b tg Hw Hb. cbn in Hw. destruct (f_kq nown _ HG b t tg Hw Hb) as (A & _). contradiction.
    - left. reflexivity.
    - intros m. unfold in_await. rewrite Epc. discriminate.
    - cbn; auto. }
  1: { (* PAb1 -> PAb2: the waiting set is formed *)
    pose proof (f_loc _ _ _ HC t) as [L0 L]. rewrite Epc in L.
    assert (Hoth : forall x, acked (tag (upd (fth s) t (with_pc (fth s t) (PAb2 n (ctr (fd s) + 2))) x)) = acked (tag (fth s x)) /\
                             pending (tag (upd (fth s) t (with_pc (fth s t) (PAb2 n (ctr (fd s) + 2))) x)) = pending (tag (fth s x))).
    { intros x. unfold upd. destruct (Nat.eqb x t) eqn:E; [apply Nat.eqb_eq in E; subst x|]; auto. }
    constructor; cbn.
    - intros m x. destruct (Hoth x) as [-> _]. destruct (Nat.eq_dec m n) as [->|Hm].
      + rewrite !upd_same. intros A. destruct (active_acked_le U nown s x HC A) as (A1 & A2 & A3).
        split; [assumption|]. split; [|clear - A3; lia].
        unfold upd. destruct (Nat.eqb x t) eqn:E; [reflexivity|assumption].
      + rewrite !(upd_other _ n _ m Hm). intros Hw. destruct (f_k nown _ HG m x Hw) as (A1 & A2 & A3).
        split; [assumption|]. split; [|assumption].
        unfold upd. destruct (Nat.eqb x t) eqn:E; [reflexivity|assumption].
    - intros b x tg Hw Hb. destruct (Hoth x) as [-> _].
      assert (Hb' : qb_target (fth s b) = Some tg).
      { revert Hb. unfold upd. destruct (Nat.eqb b t) eqn:E; [|auto]. apply Nat.eqb_eq in E. subst b.
        unfold qb_target. cbn. rewrite Epc. auto. }
      destruct (f_kq nown _ HG b x tg Hw Hb') as (A1 & A2 & A3). split; [assumption|]. split; [|assumption].
      unfold upd. destruct (Nat.eqb x t) eqn:E; [reflexivity|assumption].
    - intros m Hm. destruct (f_m nown _ HG m Hm) as (o & Ho & Hin & Hor). exists o. split; [assumption|].
      destruct (Hoth o) as [_ ->]. split; [assumption|].
      destruct (Nat.eq_dec m n) as [->|Hmn].
      + right. assert (o = t) by (rewrite <- (f_own nown _ HG n o Ho); exact (proj1 (conj L I))). subst o.
        rewrite upd_same. unfold in_await. cbn. apply Nat.eqb_refl.
      + rewrite (upd_other _ n _ m Hmn). destruct Hor as [E|E]; [now left|right].
        unfold upd. destruct (Nat.eqb o t) eqn:Eo; [|assumption]. apply Nat.eqb_eq in Eo. subst o.
        unfold in_await in E. rewrite Epc in E. discriminate.
    - intros x m. destruct (Hoth x) as [_ ->]. apply (f_p1 nown _ HG x m).
    - intros x. destruct (Hoth x) as [_ ->]. apply (f_p3 nown _ HG x).
    - apply (f_own nown _ HG).
    - intros x m. unfold upd. destruct (Nat.eqb x t) eqn:E; [apply Nat.eqb_eq in E; subst x|]; apply (f_scr nown _ HG). }
  1-3: (pose proof (f_loc _ _ _ HC t) as [L0 L]; rewrite Epc in L0, L; destruct L as (Ln & Lt & Lz); n2p;
        apply (ghost_ab_finish s t _ _ _ _ HG);
        [ unfold in_await; rewrite Epc; apply Nat.eqb_refl | rewrite Epc; reflexivity | assumption | assumption
        | assumption | apply L0; reflexivity | assumption ]).
  1: { (* PRun2: the head of the pending list is called back *)
    assert (NDp : NoDup (n :: l)) by (rewrite <- Heql; apply (f_p3 nown _ HG t)).
    inversion NDp as [|? ? Hnl NDl]; subst.
    assert (Hnt : In n (pending (tag (fth s t)))) by (rewrite Heql; now left).
    destruct (f_p1 nown _ HG t n Hnt) as [Hnz Hown].
    set (th' := with_ag (fth s t) _).
    assert (Hacc : forall x, acked (tag (upd (fth s) t th' x)) = acked (tag (fth s x)) /\ tpc (upd (fth s) t th' x) = tpc (fth s x)
                           /\ tscript (upd (fth s) t th' x) = tscript (fth s x) /\ qb_target (upd (fth s) t th' x) = qb_target (fth s x)
                           /\ (forall m, in_await (upd (fth s) t th' x) m = in_await (fth s x) m)).
    { intros x. unfold upd. destruct (Nat.eqb x t) eqn:E; [apply Nat.eqb_eq in E; subst x|]; repeat split; reflexivity. }
    constructor; cbn.
    - intros m x Hw. destruct (Hacc x) as (-> & -> & _). apply (f_k nown _ HG m x Hw).
    - intros b x tg Hw Hb. destruct (Hacc x) as (-> & -> & _). destruct (Hacc b) as (_ & _ & _ & Eb & _). rewrite Eb in Hb.
      apply (f_kq nown _ HG b x tg Hw Hb).
    - intros m. destruct (Nat.eq_dec m n) as [->|Hm]; [rewrite upd_same; congruence|].
      rewrite (upd_other _ n _ m Hm). intros Hmz. destruct (f_m nown _ HG m Hmz) as (o & Ho & Hin & Hor).
      exists o. split; [assumption|]. destruct (Hacc o) as (_ & _ & _ & _ & Ea). rewrite Ea. split; [|assumption].
      unfold upd. destruct (Nat.eqb o t) eqn:E; [|assumption]. apply Nat.eqb_eq in E. subst o.
      cbn. rewrite Heql in Hin. destruct Hin as [->|Hin]; [congruence|assumption].
    - intros x m Hin. unfold upd in Hin. destruct (Nat.eqb x t) eqn:E.
      + apply Nat.eqb_eq in E. subst x. cbn in Hin.
        assert (m <> n) by (intros ->; contradiction). rewrite (upd_other _ n _ m H).
        apply (f_p1 nown _ HG t m). rewrite Heql. now right.
      + apply Nat.eqb_neq in E. destruct (f_p1 nown _ HG x m Hin) as [A B].
        assert (m <> n) by (intros ->; congruence). rewrite (upd_other _ n _ m H). auto.
    - intros x. unfold upd. destruct (Nat.eqb x t); [cbn; assumption|apply (f_p3 nown _ HG x)].
    - apply (f_own nown _ HG).
    - intros x m. destruct (Hacc x) as (_ & _ & -> & _). apply (f_scr nown _ HG x m). }
  1: { (* PQb1 -> PQb2: the barrier's waiting set is formed *)
    set (th' := with_pc (fth s t) _).
    assert (Hacc : forall x, acked (tag (upd (fth s) t th' x)) = acked (tag (fth s x)) /\
                             (in_quiescent (tpc (fth s x)) = false -> in_quiescent (tpc (upd (fth s) t th' x)) = false)
                           /\ tscript (upd (fth s) t th' x) = tscript (fth s x) /\ pending (tag (upd (fth s) t th' x)) = pending (tag (fth s x))
                           /\ (forall m, in_await (upd (fth s) t th' x) m = in_await (fth s x) m)).
    { intros x. unfold upd. destruct (Nat.eqb x t) eqn:E; [apply Nat.eqb_eq in E; subst x|]; repeat split; auto.
      intros m. unfold in_await, th'. cbn. now rewrite Epc. }
    constructor; cbn [fwait fwtg fqbw fth ftarget fowner fstop fd fmx].
    - intros m x Hw. destruct (Hacc x) as (-> & Hq & _). destruct (f_k nown _ HG m x Hw) as (A1 & A2 & A3). auto.
    - intros b x tg Hw Hb. destruct (Hacc x) as (-> & Hq & _). destruct (Nat.eq_dec b t) as [Ebt|Hbt].
      + subst b. rewrite upd_same in Hw. rewrite upd_same in Hb. unfold qb_target, th' in Hb. cbn in Hb. inversion Hb; subst tg.
        destruct (active_acked_le U nown s x HC Hw) as (A1 & A2 & A3). split; [assumption|]. split; [auto|]. clear - A3. lia.
      + rewrite (upd_other _ t _ b Hbt) in Hw. rewrite (upd_other _ t _ b Hbt) in Hb. destruct (f_kq nown _ HG b x tg Hw Hb) as (A1 & A2 & A3). auto.
    - intros m Hmz. destruct (f_m nown _ HG m Hmz) as (o & Ho & Hin & Hor). exists o.
      destruct (Hacc o) as (_ & _ & _ & -> & Ea). rewrite Ea. auto.
    - intros x m. destruct (Hacc x) as (_ & _ & _ & -> & _). apply (f_p1 nown _ HG x m).
    - intros x. destruct (Hacc x) as (_ & _ & _ & -> & _). apply (f_p3 nown _ HG x).
    - apply (f_own nown _ HG).
    - intros x m. destruct (Hacc x) as (_ & _ & -> & _). apply (f_scr nown _ HG x m). }
  1: { (* PQb4 -> idle: quiescent_barrier returns *)
    pose proof (f_loc _ _ _ HC t) as [L0 _]. rewrite Epc in L0.
    eapply (fghost_frame nown _ _ t _ HG); try (cbn; reflexivity).
    - cbn. auto.
    - cbn. auto.
    - in_wait_tac nown HG t Epc.
    - in_qbw_tac nown HG t Epc.
    - left. unfold qb_target. cbn. apply L0. reflexivity.
    - intros m. unfold in_await. rewrite Epc. discriminate.
    - cbn. auto. }
Qed.

End StepGhost.

(* ---------------------------------------------------------------------------------------- *)
(* reachable states of the fine-grained model                                                 *)
(* ---------------------------------------------------------------------------------------- *)

Section Reach.
Variable U : list tid.
Variable nown : nid -> tid.
Hypothesis ND : NoDup U.
Hypothesis HB : few U.

(* scripts: threads outside U do nothing; every node is passed to await_barrier by one agent only *)
Definition scripts_ok (scripts : tid -> list call) : Prop :=
  (forall t, ~ In t U -> scripts t = []) /\
  (forall t n, In (CAwait n) (scripts t) -> nown n = t).

Lemma cnt_all_false (p : nat -> bool) (l : list nat) : (forall x, p x = false) -> cnt p l = 0.
Proof. intros H. induction l as [|a l IH]; cbn; [reflexivity|]. now rewrite H, IH. Qed.

Lemma finv_init scripts : scripts_ok scripts -> FCore U nown (f0 scripts) /\ FGhost nown (f0 scripts).
Proof.
  intros [S1 S2]. split.
  - constructor; cbn.
    + lia.
    + intros x Hx. unfold thread0. now rewrite (S1 x Hx).
    + intros x. unfold holds. cbn. split; discriminate.
    + intros x. unfold local_ok. cbn. auto.
    + intros x. unfold memb. cbn. discriminate.
    + intros x. unfold memb. cbn. discriminate.
    + symmetry. apply cnt_all_false. intros x. unfold needs, memb. cbn. reflexivity.
    + symmetry. apply cnt_all_false. intros x. unfold memb. cbn. reflexivity.
    + intros x. cbn. discriminate.
    + intros x y. unfold restarter. cbn. discriminate.
    + reflexivity.
  - constructor; cbn.
    + intros n x. discriminate.
    + intros t x tg. discriminate.
    + intros n H. congruence.
    + intros t n [].
    + intros t. constructor.
    + intros n t. discriminate.
    + intros t n. apply S2.
Qed.

(* a thread outside U never moves *)
Lemma fstep_outside s t : FCore U nown s -> ~ In t U -> fstep t s = (s, [], CkNone).
Proof.
  intros HC Ht. unfold fstep, f_step. destruct (fstop s); [reflexivity|].
  rewrite (f_univ _ _ _ HC t Ht). reflexivity.
Qed.

Inductive freach (scripts : tid -> list call) : fstate -> list wev -> Prop :=
| fr_init : freach scripts (f0 scripts) []
| fr_step s tr t s' evs op :
    freach scripts s tr -> fstep t s = (s', evs, op) -> freach scripts s' (tr ++ evs).

Lemma fstep_stopped s t : fstop s <> None -> fstep t s = (s, [], CkNone).
Proof. intros H. unfold fstep, f_step. destruct (fstop s); [reflexivity|congruence]. Qed.

Theorem freach_inv scripts s tr :
  scripts_ok scripts -> freach scripts s tr -> fstop s = None -> FCore U nown s /\ FGhost nown s.
Proof.
  intros Hok H. induction H as [|s tr t s' evs op Hr IH Hs].
  - intros _. now apply finv_init.
  - intros Hns. destruct (fstop s) eqn:Hstop.
    + rewrite fstep_stopped in Hs by congruence. inversion Hs; subst. congruence.
    + destruct (IH eq_refl) as [HC HG]. destruct (in_dec Nat.eq_dec t U) as [Ht|Ht].
      * split; [apply (fstep_core U nown ND HB t s s' evs op Ht HC HG Hstop Hs Hns)
               |apply (fstep_ghost U nown t s s' evs op HC HG Hstop Hs Hns)].
      * rewrite (fstep_outside s t HC Ht) in Hs. inversion Hs; subst. auto.
Qed.

End Reach.
