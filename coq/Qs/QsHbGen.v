(* C11_hb for the model instance built from the generated memory orders. *)
From Coq Require Import List NArith Bool Arith Lia.
Import ListNotations.
From FV Require Import Qs.QsTypes Qs.QsModel Qs.QsFgModel Qs.QsGenOk Qs.QsWoProofs Qs.QsFgProofs Qs.QsFgThms Qs.QsFgGen Qs.QsHbProofs Qs.QsHbBarrier.
Local Open Scope N_scope.

Lemma gen_h_step_eq t h : gen_h_step t h = hstep gen_ord gen_ord_fail t h.
Proof. unfold gen_h_step, hstep. rewrite gen_f_step_eq. reflexivity. Qed.

Lemma gen_h_run_eq : forall sched h tr, gen_h_run sched h tr = hrun gen_ord gen_ord_fail sched h tr.
Proof.
  induction sched as [|t r IH]; intros h tr; cbn; [reflexivity|].
  unfold hstep'. rewrite gen_h_step_eq. destruct (hstep gen_ord gen_ord_fail t h) as [h1 e1]. apply IH.
Qed.

Section Gen.
Variable U : list tid.
Variable nown : nid -> tid.
Variable scripts : tid -> list call.
Hypothesis ND : NoDup U.
Hypothesis HB : few U.
Hypothesis Hok : scripts_ok U nown scripts.

Lemma hall_init : HAll U nown (h0 scripts).
Proof.
  intros _. cbn. destruct (finv_init U nown scripts Hok) as [HC HG]. split; [assumption|]. split; [assumption|].
  apply hinv_init.
Qed.

Lemma gen_hb sched h tr t h' evs n t' :
  gen_h_run sched (h0 scripts) [] = (h, tr) -> gen_h_step t h = (h', evs) -> In (WCb n t') evs ->
  forall X kx, hleft h n X = Some kx -> (kx <= vc (hk h') t' X)%nat.
Proof.
  intros Hrun Hs Hin. rewrite gen_h_run_eq in Hrun. rewrite gen_h_step_eq in Hs.
  pose proof (hrun_all gen_ord gen_ord_fail gen_orders_sufficient_true U nown ND HB sched (h0 scripts) [] h tr hall_init Hrun) as HA.
  apply (hb_callback gen_ord gen_ord_fail gen_orders_sufficient_true U nown t h h' evs n t' HA Hs Hin).
Qed.

Lemma gen_hb_barrier sched h tr t h' evs t' :
  gen_h_run sched (h0 scripts) [] = (h, tr) -> gen_h_step t h = (h', evs) -> In (WQbRet t') evs ->
  forall X kx, hleftq h t' X = Some kx -> (kx <= vc (hk h') t' X)%nat.
Proof.
  intros Hrun Hs Hin. rewrite gen_h_run_eq in Hrun. rewrite gen_h_step_eq in Hs.
  pose proof (hrun_allq gen_ord gen_ord_fail gen_orders_sufficient_true U nown ND HB sched (h0 scripts) [] h tr
                (hallq_init U nown scripts Hok) Hrun) as HA.
  apply (hb_barrier_return gen_ord gen_ord_fail gen_orders_sufficient_true U nown t h h' evs t' HA Hs Hin).
Qed.

End Gen.
