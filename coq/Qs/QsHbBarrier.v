(* Happens-before for the return of quiescent_barrier(): everything an agent did before it left the
   barrier's waiting set happens-before the return.  Same invariants as for callbacks (QsHbProofs.v),
   stated per stamp. *)
From Coq Require Import List NArith Bool Arith Lia.
Import ListNotations.
From FV Require Import Qs.QsTypes Qs.QsModel Qs.QsFgModel Qs.QsWoProofs Qs.QsFgProofs Qs.QsFgThms Qs.QsHbProofs.
Local Open Scope N_scope.

(* one stamp: agent X left a waiting set with target tg when its own clock component was kx *)
Record SOK (s : fstate) (k : clocks) (tg : N) (X : tid) (kx : nat) : Prop := mkSOK {
  s_v1 : (kx <= vc k X X)%nat;
  s_h : (memb (fth s X) = true /\ eack (fth s X) + 1 < tg) \/ (kx <= MK s k X)%nat \/ (kx <= lc k LToAck X)%nat;
  s_off : memb (fth s X) = false -> (kx <= MK s k X)%nat;
  s_c' : tg <= vctr s -> (kx <= MK s k X)%nat;
  s_c : tg <= ctr (fd s) -> (kx <= lc k LCtr X)%nat
}.

Definition qstamps := tid -> tid -> option nat.

Definition HQ (s : fstate) (k : clocks) (lfq : qstamps) : Prop :=
  forall b X kx tg, lfq b X = Some kx -> qb_target (fth s b) = Some tg -> SOK s k tg X kx.

Section B.
Variable ord ord_fail : site -> mo.
Hypothesis Hord : orders_sufficient ord = true.
Variable U : list tid.
Variable nown : nid -> tid.

Lemma qstamps_cases s s' k' lfq b X kx :
  new_stampsq s s' k' lfq b X = Some kx ->
  (lfq b X = Some kx /\ fqbw s b X = false /\
     ~ (qb_target (fth s b) = None /\ exists tg, qb_target (fth s' b) = Some tg)) \/
  (fqbw s b X = true /\ fqbw s' b X = false /\ kx = vc k' X X).
Proof.
  unfold new_stampsq. destruct (fqbw s' b X) eqn:E1; [discriminate|]. destruct (fqbw s b X) eqn:E2.
  - intros H. inversion H. right. auto.
  - destruct (qb_target (fth s b)) eqn:Q1; [intros H; left; split; [assumption|split; [reflexivity|intros [F _]; discriminate]]|].
    destruct (qb_target (fth s' b)) eqn:Q2; [discriminate|].
    intros H. left. split; [assumption|]. split; [reflexivity|]. intros [_ [tg F]]. discriminate.
Qed.

(* the monotone frame lemma (the analogue of hinv_mono) *)
Lemma hq_mono s k lfq t th' s' k' :
  FCore U nown s -> FGhost nown s -> HQ s k lfq ->
  (forall x, fth s' x = upd (fth s) t th' x) ->
  (forall x, vle (vc k x) (vc k' x)) ->
  vle (lc k LToAck) (lc k' LToAck) -> lc k' LCtr = lc k LCtr ->
  vle (MK s k) (MK s' k') ->
  vctr s' = vctr s -> ctr (fd s') = ctr (fd s) ->
  (forall b tg, qb_target (fth s' b) = Some tg ->
     qb_target (fth s b) = Some tg \/ forall X, new_stampsq s s' k' lfq b X = None) ->
  ((memb th' = memb (fth s t) /\ (memb th' = true -> eack th' = eack (fth s t))) \/ MK s' k' t = vc k' t t \/
   (vc k' t t <= lc k' LToAck t)%nat) ->
  (memb th' = false -> memb (fth s t) = false \/ MK s' k' t = vc k' t t) ->
  (forall b x, fqbw s b x = true -> fqbw s' b x = false -> x = t) ->
  HQ s' k' (new_stampsq s s' k' lfq).
Proof.
  intros HC HG HI Hth Vmono LT LC MKmono Hv Hc HT E12 Eoff Hleave.
  assert (Hoth : forall x, x <> t -> fth s' x = fth s x) by (intros x Hx; rewrite Hth; now apply upd_other).
  assert (Hme : fth s' t = th') by (rewrite Hth; apply upd_same).
  intros b X kx tg H HT'. destruct (HT b tg HT') as [HT0|HT0]; [|rewrite HT0 in H; discriminate].
  destruct (qstamps_cases _ _ _ _ _ _ _ H) as [(H0 & _ & _)|(W1 & W2 & ->)].
  - (* an old stamp *)
    pose proof (HI b X kx tg H0 HT0) as [V1 Hh Hoff Hc' Hcc].
    assert (V1' : (kx <= vc k' X X)%nat) by (eapply Nat.le_trans; [exact V1|apply Vmono]).
    destruct (Nat.eq_dec X t) as [->|HX].
    + (* the stamp of the thread that moves *)
      constructor; rewrite ?Hme.
      * exact V1'.
      * destruct E12 as [[Em Ee]|[E|E]].
        -- destruct Hh as [[D1 D2]|[D|D]]; [left|right; left|right; right].
           ++ rewrite <- Em in D1. split; [assumption|]. now rewrite (Ee D1).
           ++ eapply Nat.le_trans; [exact D|apply MKmono].
           ++ eapply Nat.le_trans; [exact D|apply LT].
        -- right. left. now rewrite E.
        -- right. right. eapply Nat.le_trans; [exact V1'|exact E].
      * intros Hmb. destruct (Eoff Hmb) as [E|E]; [|now rewrite E].
        eapply Nat.le_trans; [apply (Hoff E)|apply MKmono].
      * rewrite Hv. intros Hle. eapply Nat.le_trans; [apply (Hc' Hle)|apply MKmono].
      * rewrite Hc, LC. exact Hcc.
    + constructor; rewrite ?(Hoth X HX).
      * exact V1'.
      * destruct Hh as [D|[D|D]]; [now left|right; left|right; right].
        -- eapply Nat.le_trans; [exact D|apply MKmono].
        -- eapply Nat.le_trans; [exact D|apply LT].
      * intros Hmb. eapply Nat.le_trans; [apply (Hoff Hmb)|apply MKmono].
      * rewrite Hv. intros Hle. eapply Nat.le_trans; [apply (Hc' Hle)|apply MKmono].
      * rewrite Hc, LC. exact Hcc.
  - (* X = t leaves the barrier's waiting set now: it is awake and has not acked the period before the target *)
    pose proof (Hleave b X W1 W2) as ->.
    destruct (f_kq _ _ HG b t tg W1 HT0) as (A1 & A2 & A3).
    destruct (awake_memb U nown s t HC A1 A2) as [M E].
    assert (Hbeyond : vctr s < tg) by (destruct (f_j1 _ _ _ HC t M) as [J|J]; rewrite E in J; lia).
    pose proof (ctr_le_vctr ord Hord U nown s HC) as Hcv.
    constructor; rewrite ?Hme.
    + apply Nat.le_refl.
    + destruct E12 as [[Em Ee]|[E'|E']].
      * left. rewrite <- Em in M. split; [assumption|]. rewrite (Ee M), E. lia.
      * right. left. rewrite E'. apply Nat.le_refl.
      * right. right. exact E'.
    + intros Hmb. destruct (Eoff Hmb) as [E'|E']; [congruence|rewrite E'; apply Nat.le_refl].
    + rewrite Hv. lia.
    + rewrite Hc. lia.
Qed.

Notation cstep' := (cstep ord ord_fail).

(* wrappers, as in QsHbProofs.v *)
Lemma hq_quiet s k lfq t th' s' op :
  FCore U nown s -> FGhost nown s -> HQ s k lfq ->
  (forall x, fth s' x = upd (fth s) t th' x) ->
  ((memb th' = memb (fth s t) /\ (memb th' = true -> eack th' = eack (fth s t))) \/ fmx s = Some t) ->
  special th' = special (fth s t) ->
  fmx s' = fmx s -> ctr (fd s') = ctr (fd s) ->
  (forall b tg, qb_target (fth s' b) = Some tg ->
     qb_target (fth s b) = Some tg \/ forall X, new_stampsq s s' (cstep' t op k) lfq b X = None) ->
  benign op ->
  (forall b x, fqbw s b x = true -> fqbw s' b x = false -> x = t) ->
  HQ s' (cstep' t op k) (new_stampsq s s' (cstep' t op k) lfq).
Proof.
  intros HC HG HI Hth E12 E3 Hm Hc HT B Hleave.
  set (k' := cstep' t op k).
  destruct (benign_same ord ord_fail t op k B) as (LT & LC & MC). fold k' in LT, LC, MC.
  assert (Vmono : forall x, vle (vc k x) (vc k' x)) by (intros x; apply (cstep_vc_mono ord ord_fail Hord)).
  assert (Hme : fth s' t = th') by (rewrite Hth; apply upd_same).
  assert (Hoth : forall x, x <> t -> fth s' x = fth s x) by (intros x Hx; rewrite Hth; now apply upd_other).
  assert (Hspec : forall x, special (fth s' x) = special (fth s x)).
  { intros x. destruct (Nat.eq_dec x t) as [->|Hx]; [now rewrite Hme|now rewrite (Hoth x Hx)]. }
  apply (hq_mono s k lfq t th' s' k' HC HG HI Hth Vmono); try assumption.
  - rewrite LT. apply vle_refl.
  - unfold MK. rewrite Hm. destruct (fmx s); [apply Vmono|rewrite MC; apply vle_refl].
  - unfold vctr. rewrite Hm, Hc. destruct (fmx s); [now rewrite Hspec|reflexivity].
  - destruct E12 as [E|E]; [now left|right; left]. unfold MK. now rewrite Hm, E.
  - intros Hmb. destruct E12 as [[E _]|E]; [left; congruence|right]. unfold MK. now rewrite Hm, E.
Qed.

Lemma hq_lock s k lfq t th' s' :
  FCore U nown s -> FGhost nown s -> HQ s k lfq ->
  (forall x, fth s' x = upd (fth s) t th' x) ->
  memb th' = memb (fth s t) -> (memb th' = true -> eack th' = eack (fth s t)) -> special th' = false ->
  fmx s = None -> fmx s' = Some t -> ctr (fd s') = ctr (fd s) ->
  (forall b tg, qb_target (fth s' b) = Some tg -> qb_target (fth s b) = Some tg) ->
  (forall b x, fqbw s b x = true -> fqbw s' b x = false -> x = t) ->
  HQ s' (cstep' t CkLock k) (new_stampsq s s' (cstep' t CkLock k) lfq).
Proof.
  intros HC HG HI Hth E1 E2 E3 Hm Hm' Hc HT Hleave.
  set (k' := cstep' t CkLock k).
  assert (Vmono : forall x, vle (vc k x) (vc k' x)) by (intros x; apply (cstep_vc_mono ord ord_fail Hord)).
  assert (Hme : fth s' t = th') by (rewrite Hth; apply upd_same).
  assert (LT : lc k' LToAck = lc k LToAck) by reflexivity.
  apply (hq_mono s k lfq t th' s' k' HC HG HI Hth Vmono); try assumption; try (intros b0 tg0 H0; left; now apply HT); try reflexivity.
  - rewrite LT. apply vle_refl.
  - unfold MK. rewrite Hm, Hm'. unfold k', cstep, clk_step. cbn [vc]. rewrite upd_same. apply vle_join_r.
  - unfold vctr. rewrite Hm, Hm', Hme, E3, Hc. reflexivity.
  - left. auto.
  - intros Hmb. left. congruence.
Qed.

Lemma hq_unlock s k lfq t th' s' :
  FCore U nown s -> FGhost nown s -> HQ s k lfq ->
  (forall x, fth s' x = upd (fth s) t th' x) ->
  memb th' = memb (fth s t) -> (memb th' = true -> eack th' = eack (fth s t)) -> special (fth s t) = false ->
  fmx s = Some t -> fmx s' = None -> ctr (fd s') = ctr (fd s) ->
  (forall b tg, qb_target (fth s' b) = Some tg -> qb_target (fth s b) = Some tg) ->
  (forall b x, fqbw s b x = true -> fqbw s' b x = false -> x = t) ->
  HQ s' (cstep' t CkUnlock k) (new_stampsq s s' (cstep' t CkUnlock k) lfq).
Proof.
  intros HC HG HI Hth E1 E2 E3 Hm Hm' Hc HT Hleave.
  set (k' := cstep' t CkUnlock k).
  assert (Vmono : forall x, vle (vc k x) (vc k' x)) by (intros x; apply (cstep_vc_mono ord ord_fail Hord)).
  assert (LT : lc k' LToAck = lc k LToAck) by reflexivity.
  apply (hq_mono s k lfq t th' s' k' HC HG HI Hth Vmono); try assumption; try (intros b0 tg0 H0; left; now apply HT); try reflexivity.
  - rewrite LT. apply vle_refl.
  - unfold MK. rewrite Hm, Hm'. unfold k', cstep, clk_step. cbn [mc]. apply (tick_ge ord Hord).
  - unfold vctr. rewrite Hm, Hm', E3, Hc. reflexivity.
  - left. auto.
  - intros Hmb. left. congruence.
Qed.

Lemma hq_rmw s k lfq t th' s' st :
  FCore U nown s -> FGhost nown s -> HQ s k lfq ->
  (forall x, fth s' x = upd (fth s) t th' x) ->
  site_loc st = LToAck -> is_acq (ord st) = true ->
  (fmx s = Some t \/ is_rel (ord st) = true) ->
  special th' = false -> special (fth s t) = false ->
  fmx s' = fmx s -> ctr (fd s') = ctr (fd s) ->
  (forall b tg, qb_target (fth s' b) = Some tg -> qb_target (fth s b) = Some tg) ->
  (memb th' = false -> memb (fth s t) = false \/ fmx s = Some t) ->
  (forall b x, fqbw s b x = true -> fqbw s' b x = false -> x = t) ->
  HQ s' (cstep' t (CkRmw st) k) (new_stampsq s s' (cstep' t (CkRmw st) k) lfq).
Proof.
  intros HC HG HI Hth Hloc Hacq Hown E3 E3' Hm Hc HT Eoff Hleave.
  set (k' := cstep' t (CkRmw st) k).
  assert (Vmono : forall x, vle (vc k x) (vc k' x)) by (intros x; apply (cstep_vc_mono ord ord_fail Hord)).
  assert (Hme : fth s' t = th') by (rewrite Hth; apply upd_same).
  assert (Hoth : forall x, x <> t -> fth s' x = fth s x) by (intros x Hx; rewrite Hth; now apply upd_other).
  assert (Evc : vc k' t = vjoin (tick k t) (lc k LToAck)).
  { unfold k', cstep, clk_step. cbn [vc]. rewrite upd_same, Hacq, Hloc. reflexivity. }
  assert (Elc : lc k' LToAck = if is_rel (ord st) then vjoin (lc k LToAck) (vc k' t) else lc k LToAck).
  { rewrite Evc. unfold k', cstep, clk_step. cbn [lc]. unfold loc_eq_upd. rewrite Hloc. cbn. rewrite Hacq. reflexivity. }
  assert (ELC : lc k' LCtr = lc k LCtr).
  { unfold k', cstep, clk_step. cbn [lc]. unfold loc_eq_upd. rewrite Hloc. reflexivity. }
  assert (EMC : mc k' = mc k) by reflexivity.
  assert (Hspec : forall x, special (fth s' x) = special (fth s x)).
  { intros x. destruct (Nat.eq_dec x t) as [->|Hx]; [rewrite Hme; congruence|now rewrite (Hoth x Hx)]. }
  apply (hq_mono s k lfq t th' s' k' HC HG HI Hth Vmono); try assumption; try (intros b0 tg0 H0; left; now apply HT).
  - rewrite Elc. destruct (is_rel (ord st)); [apply vle_join_l|apply vle_refl].
  - unfold MK. rewrite Hm. destruct (fmx s); [apply Vmono|rewrite EMC; apply vle_refl].
  - unfold vctr. rewrite Hm, Hc. destruct (fmx s); [now rewrite Hspec|reflexivity].
  - right. destruct Hown as [Ho|Hr].
    + left. unfold MK. now rewrite Hm, Ho.
    + right. rewrite Elc, Hr. apply vle_join_r.
  - intros Hmb. destruct (Eoff Hmb) as [E|E]; [now left|right]. unfold MK. now rewrite Hm, E.
Qed.

Lemma qold s s' k' lfq :
  (forall b x, fqbw s' b x = fqbw s b x) ->
  (forall b tg, qb_target (fth s' b) = Some tg -> qb_target (fth s b) = Some tg) ->
  forall b X kx tg, new_stampsq s s' k' lfq b X = Some kx -> qb_target (fth s' b) = Some tg ->
    lfq b X = Some kx /\ qb_target (fth s b) = Some tg.
Proof.
  intros Hfw HT b X kx tg H HT'. split; [|now apply HT].
  destruct (qstamps_cases _ _ _ _ _ _ _ H) as [(H0 & _ & _)|(W1 & W2 & _)]; [assumption|].
  rewrite Hfw in W2. congruence.
Qed.

Lemma hq_vbump s k lf lfq t th' s' st :
  FCore U nown s -> FGhost nown s -> HInv s k lf -> HQ s k lfq -> In t U ->
  (forall x, fth s' x = upd (fth s) t th' x) ->
  site_loc st = LToAck ->
  fmx s = Some t -> fmx s' = Some t ->
  special (fth s t) = false -> restarter (fth s t) = true -> special th' = true ->
  memb th' = memb (fth s t) -> eack th' = eack (fth s t) ->
  ctr (fd s') = ctr (fd s) -> (forall b x, fqbw s' b x = fqbw s b x) ->
  (forall b tg, qb_target (fth s' b) = Some tg -> qb_target (fth s b) = Some tg) ->
  (acked (tag (fth s t)) = 0 -> forall x, x <> t -> memb (fth s x) = false) ->
  HQ s' (cstep' t (CkStore st) k) (new_stampsq s s' (cstep' t (CkStore st) k) lfq).
Proof.
  intros HC HG HI HQ0 Ht Hth Hloc Hm Hm' Sp Rs Sp' E1 E2 Hc Hfw HT Hfirst.
  set (k' := cstep' t (CkStore st) k).
  assert (Vmono : forall x, vle (vc k x) (vc k' x)) by (intros x; apply (cstep_vc_mono ord ord_fail Hord)).
  assert (Hme : fth s' t = th') by (rewrite Hth; apply upd_same).
  assert (Hoth : forall x, x <> t -> fth s' x = fth s x) by (intros x Hx; rewrite Hth; now apply upd_other).
  assert (ELC : lc k' LCtr = lc k LCtr).
  { unfold k', cstep, clk_step. cbn [lc]. unfold loc_eq_upd. rewrite Hloc. reflexivity. }
  assert (Hmemb : forall x, memb (fth s' x) = memb (fth s x)).
  { intros x. destruct (Nat.eq_dec x t) as [->|Hx]; [now rewrite Hme|now rewrite (Hoth x Hx)]. }
  assert (Heack : forall x, eack (fth s' x) = eack (fth s x)).
  { intros x. destruct (Nat.eq_dec x t) as [->|Hx]; [now rewrite Hme|now rewrite (Hoth x Hx)]. }
  assert (Hns : forall x, special (fth s x) = false).
  { intros x. destruct (special (fth s x)) eqn:E; [|reflexivity]. pose proof E as E'. apply special_holds in E.
    apply (f_hold _ _ _ HC x) in E. rewrite Hm in E. inversion E; subst. congruence. }
  assert (T0 : toack (fd s) = 0) by (apply (f_r2 _ _ _ HC t Rs Sp)).
  pose proof (all_acked U nown s HC Hns T0) as Hall.
  assert (Hv' : vctr s' = ctr (fd s) + 1) by (unfold vctr; now rewrite Hm', Hme, Sp', Hc).
  assert (MKe : MK s k = vc k t) by (unfold MK; now rewrite Hm).
  assert (MKe' : MK s' k' = vc k' t) by (unfold MK; now rewrite Hm').
  intros b X kx tg H HT'. destruct (qold s s' k' lfq Hfw HT b X kx tg H HT') as [H0 HT0].
  pose proof (HQ0 b X kx tg H0 HT0) as [V1 Hh Hoff Hc' Hcc].
  assert (Hpub : (memb (fth s X) = true /\ eack (fth s X) + 1 < tg) \/ (kx <= vc k' t X)%nat).
  { destruct Hh as [D|[D|D]]; [now left|right|right].
    - rewrite MKe in D. eapply Nat.le_trans; [exact D|apply Vmono].
    - destruct (N.eq_dec (acked (tag (fth s t))) 0) as [A0|A0].
      + destruct (Nat.eq_dec X t) as [->|HX]; [eapply Nat.le_trans; [exact V1|apply Vmono]|].
        pose proof (Hoff (Hfirst A0 X HX)) as F. rewrite MKe in F. eapply Nat.le_trans; [exact F|apply Vmono].
      + eapply Nat.le_trans; [exact D|]. eapply vle_trans; [apply (h_tkz _ _ _ HI t Rs Sp A0)|apply Vmono]. }
  constructor; rewrite ?Hmemb, ?Heack, ?MKe'.
  - eapply Nat.le_trans; [exact V1|apply Vmono].
  - destruct Hpub as [D|D]; [now left|right; now left].
  - intros Hmb. pose proof (Hoff Hmb) as F. rewrite MKe in F. eapply Nat.le_trans; [exact F|apply Vmono].
  - rewrite Hv'. intros Hle. destruct Hpub as [[M D]|D]; [|assumption]. exfalso. rewrite (Hall X M) in D. lia.
  - rewrite Hc, ELC. exact Hcc.
Qed.

Lemma hq_store s k lfq t th' s' st :
  FCore U nown s -> FGhost nown s -> HQ s k lfq ->
  (forall x, fth s' x = upd (fth s) t th' x) ->
  site_loc st = LCtr -> is_rel (ord st) = true ->
  fmx s = Some t -> fmx s' = Some t ->
  special (fth s t) = true -> special th' = false ->
  memb th' = memb (fth s t) -> eack th' = eack (fth s t) ->
  ctr (fd s') = ctr (fd s) + 1 -> (forall b x, fqbw s' b x = fqbw s b x) ->
  (forall b tg, qb_target (fth s' b) = Some tg -> qb_target (fth s b) = Some tg) ->
  HQ s' (cstep' t (CkStore st) k) (new_stampsq s s' (cstep' t (CkStore st) k) lfq).
Proof.
  intros HC HG HQ0 Hth Hloc Hrel Hm Hm' Sp Sp' E1 E2 Hc Hfw HT.
  set (k' := cstep' t (CkStore st) k).
  assert (Vmono : forall x, vle (vc k x) (vc k' x)) by (intros x; apply (cstep_vc_mono ord ord_fail Hord)).
  assert (Hme : fth s' t = th') by (rewrite Hth; apply upd_same).
  assert (Hoth : forall x, x <> t -> fth s' x = fth s x) by (intros x Hx; rewrite Hth; now apply upd_other).
  assert (ELC : lc k' LCtr = tick k t).
  { unfold k', cstep, clk_step. cbn [lc]. unfold loc_eq_upd. rewrite Hloc, Hrel. reflexivity. }
  assert (ELT : lc k' LToAck = lc k LToAck).
  { unfold k', cstep, clk_step. cbn [lc]. unfold loc_eq_upd. rewrite Hloc. reflexivity. }
  assert (Hmemb : forall x, memb (fth s' x) = memb (fth s x)).
  { intros x. destruct (Nat.eq_dec x t) as [->|Hx]; [now rewrite Hme|now rewrite (Hoth x Hx)]. }
  assert (Heack : forall x, eack (fth s' x) = eack (fth s x)).
  { intros x. destruct (Nat.eq_dec x t) as [->|Hx]; [now rewrite Hme|now rewrite (Hoth x Hx)]. }
  assert (Hv : vctr s = ctr (fd s) + 1) by (unfold vctr; now rewrite Hm, Sp).
  assert (Hv' : vctr s' = ctr (fd s) + 1) by (unfold vctr; now rewrite Hm', Hme, Sp', Hc).
  assert (MKe : MK s k = vc k t) by (unfold MK; now rewrite Hm).
  assert (MKe' : MK s' k' = vc k' t) by (unfold MK; now rewrite Hm').
  intros b X kx tg H HT'. destruct (qold s s' k' lfq Hfw HT b X kx tg H HT') as [H0 HT0].
  pose proof (HQ0 b X kx tg H0 HT0) as [V1 Hh Hoff Hc' Hcc].
  constructor; rewrite ?Hmemb, ?Heack, ?MKe', ?ELT.
  - eapply Nat.le_trans; [exact V1|apply Vmono].
  - destruct Hh as [D|[D|D]]; [now left|right; left|now right; right].
    rewrite MKe in D. eapply Nat.le_trans; [exact D|apply Vmono].
  - intros Hmb. pose proof (Hoff Hmb) as F. rewrite MKe in F. eapply Nat.le_trans; [exact F|apply Vmono].
  - rewrite Hv', <- Hv. intros Hle. pose proof (Hc' Hle) as F. rewrite MKe in F. eapply Nat.le_trans; [exact F|apply Vmono].
  - rewrite Hc, <- Hv, ELC. intros Hle. pose proof (Hc' Hle) as F. rewrite MKe in F.
    eapply Nat.le_trans; [exact F|apply (tick_ge ord Hord)].
Qed.

End B.

(* ---------------------------------------------------------------------------------------- *)
(* every step preserves the barrier invariant                                                 *)
(* ---------------------------------------------------------------------------------------- *)

(* a thread that is not inside quiescent_barrier() has an empty barrier waiting set *)
Definition QE (s : fstate) : Prop := forall b, qb_target (fth s b) = None -> forall x, fqbw s b x = false.

Ltac hq_pw := let x := fresh "x" in intros x; cbn; reflexivity.

Ltac hq_attr Epc := intros; unfold memb, eack, special, holds, restarter, isoff2; split_ret; cbn; rewrite ?Epc; cbn; try reflexivity.

(* targets of barriers do not appear or change (they may vanish) *)
Ltac hq_tgt t Epc :=
  let b := fresh "b" in let tg := fresh "tg" in let E := fresh "E" in
  intros b tg; cbn; unfold upd; destruct (Nat.eqb b t) eqn:E;
  [ apply Nat.eqb_eq in E; subst b; unfold qb_target, ret_th; cbn;
    try (match goal with |- context [tret ?th] => destruct (tret th) eqn:? end); cbn; rewrite ?Epc; cbn;
    intros; first [assumption | discriminate | congruence]
  | auto ].

Ltac hq_tgtw t Epc :=
  let b := fresh "b" in let tg := fresh "tg" in let Hq := fresh "Hq" in
  intros b tg Hq; left; revert Hq; revert b tg; hq_tgt t Epc.

Ltac hq_leave t :=
  let b := fresh "b" in let x := fresh "x" in let W1 := fresh "W1" in let W2 := fresh "W2" in let E := fresh "E" in
  intros b x W1 W2; cbn in W2;
  first [ congruence
        | destruct (Nat.eqb x t) eqn:E; [apply Nat.eqb_eq in E; exact E | congruence] ].

Ltac hq_quiet_tac ord ord_fail Hord U nown HC HG HQ0 t Epc :=
  eapply (hq_quiet ord ord_fail Hord U nown _ _ _ t _ _ _ HC HG HQ0);
  [ hq_pw
  | left; split; [hq_attr Epc | hq_attr Epc]
  | hq_attr Epc
  | cbn; reflexivity | cbn; reflexivity
  | hq_tgtw t Epc
  | first [exact I | reflexivity]
  | hq_leave t ].

Ltac hq_stutter_tac ord ord_fail Hord U nown HC HG HQ0 t :=
  match goal with |- HQ ?s0 _ _ =>
  eapply (hq_quiet ord ord_fail Hord U nown s0 _ _ t (fth s0 t) s0 CkNone HC HG HQ0);
  [ let x := fresh "x" in let E := fresh "E" in
    intros x; unfold upd; destruct (Nat.eqb x t) eqn:E; [apply Nat.eqb_eq in E; now subst|reflexivity]
  | left; split; reflexivity
  | reflexivity
  | reflexivity | reflexivity | intros; left; assumption | exact I
  | intros; congruence ] end.

Ltac hq_lock_tac ord ord_fail Hord U nown HC HG HQ0 t Epc :=
  match goal with Hmx : fmx _ = None |- _ =>
  eapply (hq_lock ord ord_fail Hord U nown _ _ _ t _ _ HC HG HQ0);
  [ hq_pw | hq_attr Epc | hq_attr Epc | hq_attr Epc
  | exact Hmx | cbn; reflexivity | cbn; reflexivity
  | hq_tgt t Epc | hq_leave t ] end.

Section BStep.
Variable ord ord_fail : site -> mo.
Hypothesis Hord : orders_sufficient ord = true.
Variable U : list tid.
Variable nown : nid -> tid.
Hypothesis ND : NoDup U.
Hypothesis HB : few U.

Lemma hqstep_inv t s k lf lfq s' evs op :
  In t U -> FCore U nown s -> FGhost nown s -> HInv s k lf -> HQ s k lfq -> QE s -> fstop s = None ->
  fstep t s = (s', evs, op) -> fstop s' = None ->
  HQ s' (cstep ord ord_fail t op k) (new_stampsq s s' (cstep ord ord_fail t op k) lfq).
Proof.
  intros Ht HC HG HI HQ0 HE Hstop H Hns.
  fstep_inv H Hstop.
  all: try (cbn in Hns; discriminate).
  all: clear Hns.
  all: try solve [hq_quiet_tac ord ord_fail Hord U nown HC HG HQ0 t Epc].
  all: try solve [hq_stutter_tac ord ord_fail Hord U nown HC HG HQ0 t].
  all: try solve [hq_lock_tac ord ord_fail Hord U nown HC HG HQ0 t Epc].
  1,2: ((* POn1 *)
    get_loc U nown HC t Epc; destruct L as (L0 & La & Ld); get_holder U nown HC t Epc;
    eapply (hq_quiet ord ord_fail Hord U nown _ _ _ t _ _ _ HC HG HQ0);
    [ hq_pw | right; eassumption | hq_attr Epc | cbn; reflexivity | cbn; reflexivity | hq_tgtw t Epc | exact I | hq_leave t ]).
  1: { (* POn3 -> POn4 *)
    get_loc U nown HC t Epc. destruct L as (L0 & La & Ld & Lc & Ln & L1). get_holder U nown HC t Epc.
    eapply (hq_vbump ord ord_fail Hord U nown _ _ _ _ t _ _ _ HC HG HI HQ0 Ht);
      [ hq_pw | reflexivity | eassumption | cbn; eassumption | hq_attr Epc
      | unfold restarter; rewrite Epc; apply orb_true_r | hq_attr Epc | hq_attr Epc | hq_attr Epc
      | cbn; reflexivity | intros; reflexivity | hq_tgt t Epc | ].
    intros _. eapply (only_member _ Hord U nown ND s t HC Ln). unfold memb. now rewrite Epc. }
  1: { (* POn4 -> POn5 *)
    get_loc U nown HC t Epc. destruct L as (L0 & La & Ld & Lc & Ln & L1). get_holder U nown HC t Epc.
    destruct (ord_facts ord Hord) as (_ & _ & _ & Hrel & _).
    eapply (hq_store ord ord_fail Hord U nown _ _ _ t _ _ _ HC HG HQ0);
      [ hq_pw | reflexivity | exact Hrel | eassumption | cbn; eassumption | hq_attr Epc | hq_attr Epc
      | hq_attr Epc | hq_attr Epc | cbn; now rewrite Lc | intros; reflexivity | hq_tgt t Epc ]. }
  1: { (* POn5 -> idle *)
    holder_is_t2. get_loc U nown HC t Epc. destruct L as (L0 & La & Ld & L1).
    assert (Hr : tret (fth s t) = None) by (apply L0; reflexivity).
    assert (Hc0 : (c =? 0) = false) by (apply N.eqb_neq; clear - L1; lia).
    unfold ret_th. cbn [tret with_ag]. rewrite Hr.
    eapply (hq_unlock ord ord_fail Hord U nown _ _ _ t _ _ HC HG HQ0);
      [ hq_pw | unfold memb; cbn; now rewrite Epc, Hc0 | intros _; unfold eack; cbn; now rewrite Epc
      | unfold special; now rewrite Epc | exact Heqo | reflexivity | reflexivity
      | intros b tg; cbn; unfold upd; destruct (Nat.eqb b t) eqn:E; [unfold qb_target; cbn; discriminate|auto]
      | hq_leave t ]. }
  1,2: ((* POff1 *)
    get_loc U nown HC t Epc; destruct L as (L0 & La & Ld); get_holder U nown HC t Epc;
    eapply (hq_quiet ord ord_fail Hord U nown _ _ _ t _ _ _ HC HG HQ0);
    [ hq_pw | right; eassumption | hq_attr Epc | cbn; reflexivity | cbn; reflexivity | hq_tgtw t Epc | exact I | hq_leave t ]).
  1,2: ((* POff2 *)
    get_holder U nown HC t Epc;
    destruct (ord_facts ord Hord) as (_ & _ & Hacq & _);
    eapply (hq_rmw ord ord_fail Hord U nown _ _ _ t _ _ S_off_fsub HC HG HQ0);
    [ hq_pw | reflexivity | exact Hacq | left; eassumption | hq_attr Epc | hq_attr Epc
    | cbn; reflexivity | cbn; reflexivity | hq_tgt t Epc
    | intros _; right; eassumption | hq_leave t ]).
  1: { (* POff3 -> POff4 *)
    get_loc U nown HC t Epc. destruct L as (L0 & La & Ld & Lc & Le). get_holder U nown HC t Epc.
    eapply (hq_vbump ord ord_fail Hord U nown _ _ _ _ t _ _ _ HC HG HI HQ0 Ht);
      [ hq_pw | reflexivity | eassumption | cbn; eassumption | hq_attr Epc
      | unfold restarter; rewrite Epc; apply orb_true_r | hq_attr Epc | hq_attr Epc | hq_attr Epc
      | cbn; reflexivity | intros; reflexivity | hq_tgt t Epc | intros A0; contradiction ]. }
  1: { (* POff4 -> POff5 *)
    get_loc U nown HC t Epc. destruct L as (L0 & La & Ld & Lc & Le). get_holder U nown HC t Epc.
    destruct (ord_facts ord Hord) as (_ & _ & _ & _ & Hrel & _).
    eapply (hq_store ord ord_fail Hord U nown _ _ _ t _ _ _ HC HG HQ0);
      [ hq_pw | reflexivity | exact Hrel | eassumption | cbn; eassumption | hq_attr Epc | hq_attr Epc
      | hq_attr Epc | hq_attr Epc | cbn; now rewrite Lc | intros; reflexivity | hq_tgt t Epc ]. }
  1: { (* POff5 -> idle *)
    holder_is_t2. get_loc U nown HC t Epc. destruct L as (L0 & Ld).
    assert (Hr : tret (fth s t) = None) by (apply L0; reflexivity).
    unfold ret_th. cbn [tret with_ag]. rewrite Hr.
    eapply (hq_unlock ord ord_fail Hord U nown _ _ _ t _ _ HC HG HQ0);
      [ hq_pw | unfold memb; cbn; now rewrite Epc | unfold memb; cbn; discriminate
      | unfold special; now rewrite Epc | exact Heqo | reflexivity | reflexivity
      | intros b tg; cbn; unfold upd; destruct (Nat.eqb b t) eqn:E; [unfold qb_target; cbn; discriminate|auto]
      | hq_leave t ]. }
  1: { (* PQd4 -> PQd5 *)
    get_loc U nown HC t Epc. destruct L as (L0 & La & Ld). get_holder U nown HC t Epc.
    eapply (hq_vbump ord ord_fail Hord U nown _ _ _ _ t _ _ _ HC HG HI HQ0 Ht);
      [ hq_pw | reflexivity | eassumption | cbn; eassumption | hq_attr Epc
      | unfold restarter; now rewrite Ld | reflexivity | hq_attr Epc | hq_attr Epc
      | cbn; reflexivity | intros; reflexivity | hq_tgt t Epc | intros A0; contradiction ]. }
  1: { (* PQd5 -> PQd6 *)
    get_loc U nown HC t Epc. destruct L as (L0 & La & Ld). get_holder U nown HC t Epc.
    destruct (f_j4 _ _ _ HC t Ld) as [_ Hac].
    destruct (ord_facts ord Hord) as (_ & _ & _ & _ & _ & Hrel & _).
    eapply (hq_store ord ord_fail Hord U nown _ _ _ t _ _ _ HC HG HQ0);
      [ hq_pw | reflexivity | exact Hrel | eassumption | cbn; eassumption | hq_attr Epc | reflexivity
      | hq_attr Epc | hq_attr Epc | cbn; now rewrite Hac | intros; reflexivity | hq_tgt t Epc ]. }
  1: { (* PQd6 -> return *)
    holder_is_t2. get_loc U nown HC t Epc. destruct L as (L0 & La & Ld).
    unfold ret_th. destruct (tret (fth s t)) eqn:Hr.
    all: eapply (hq_unlock ord ord_fail Hord U nown _ _ _ t _ _ HC HG HQ0);
      [ hq_pw | unfold memb; cbn; now rewrite Epc | intros _; unfold eack; cbn; now rewrite Epc
      | unfold special; now rewrite Epc | exact Heqo | reflexivity | reflexivity
      | intros b tg; cbn; unfold upd; destruct (Nat.eqb b t) eqn:E;
        [apply Nat.eqb_eq in E; subst b; unfold qb_target; cbn; rewrite Epc, ?Hr; intros; first [assumption|discriminate]|auto]
      | hq_leave t ]. }
  1,2: ((* PQ2 *)
    get_loc U nown HC t Epc; destruct L as (L0 & La & Ld & Lc & Le);
    assert (Hz : (acked (tag (fth s t)) + 1 =? 0) = false) by (apply N.eqb_neq; clear; lia);
    assert (Hz0 : (acked (tag (fth s t)) =? 0) = false) by (now apply N.eqb_neq);
    destruct (ord_facts ord Hord) as (Hacq & Hrel & _);
    eapply (hq_rmw ord ord_fail Hord U nown _ _ _ t _ _ S_q_fsub HC HG HQ0);
    [ hq_pw | reflexivity | exact Hacq | right; exact Hrel | hq_attr Epc | hq_attr Epc
    | cbn; reflexivity | cbn; reflexivity | hq_tgt t Epc
    | intros M; exfalso; revert M; unfold memb; split_ret; cbn; rewrite ?Hz, ?Hz0; discriminate
    | hq_leave t ]).
  1: { (* PQ3 -> return: deferred *)
    get_loc U nown HC t Epc. destruct L as (L0 & La & Ld & Lc & Le).
    assert (Hz : (acked (tag (fth s t)) + 1 =? 0) = false) by (apply N.eqb_neq; clear; lia).
    assert (Hz0 : (acked (tag (fth s t)) =? 0) = false) by (now apply N.eqb_neq).
    unfold ret_th. cbn [tret with_ag]. destruct (tret (fth s t)) eqn:Hr.
    all: eapply (hq_quiet ord ord_fail Hord U nown _ _ _ t _ _ _ HC HG HQ0);
      [ hq_pw
      | left; split; [unfold memb; cbn; now rewrite Epc, Hz, Hz0 | intros _; unfold eack; cbn; now rewrite Epc]
      | unfold special; cbn; now rewrite Epc
      | reflexivity | reflexivity
      | intros b tg Hq; left; revert Hq; cbn; unfold upd; destruct (Nat.eqb b t) eqn:E;
        [apply Nat.eqb_eq in E; subst b; unfold qb_target; cbn; rewrite Epc, ?Hr; intros; first [assumption|discriminate]|auto]
      | exact I | hq_leave t ]. }
  1: { (* PQ5 -> PQ6 *)
    get_loc U nown HC t Epc. destruct L as (L0 & La & Ld & Lc & Le). get_holder U nown HC t Epc.
    eapply (hq_vbump ord ord_fail Hord U nown _ _ _ _ t _ _ _ HC HG HI HQ0 Ht);
      [ hq_pw | reflexivity | eassumption | cbn; eassumption | hq_attr Epc
      | unfold restarter; rewrite Epc; apply orb_true_r | hq_attr Epc | hq_attr Epc | hq_attr Epc
      | cbn; reflexivity | intros; reflexivity | hq_tgt t Epc | intros A0; contradiction ]. }
  1: { (* PQ6 -> PQ7 *)
    get_loc U nown HC t Epc. destruct L as (L0 & La & Ld & Lc & Le). get_holder U nown HC t Epc.
    destruct (ord_facts ord Hord) as (_ & _ & _ & _ & _ & _ & Hrel & _).
    eapply (hq_store ord ord_fail Hord U nown _ _ _ t _ _ _ HC HG HQ0);
      [ hq_pw | reflexivity | exact Hrel | eassumption | cbn; eassumption | hq_attr Epc | hq_attr Epc
      | hq_attr Epc | hq_attr Epc | cbn; now rewrite Lc | intros; reflexivity | hq_tgt t Epc ]. }
  1: { (* PQ7 -> return *)
    holder_is_t2. get_loc U nown HC t Epc. destruct L as (L0 & La & Ld).
    assert (Hz : (acked (tag (fth s t)) + 1 =? 0) = false) by (apply N.eqb_neq; clear; lia).
    assert (Hz0 : (acked (tag (fth s t)) =? 0) = false) by (now apply N.eqb_neq).
    unfold ret_th. cbn [tret with_ag]. destruct (tret (fth s t)) eqn:Hr.
    all: eapply (hq_unlock ord ord_fail Hord U nown _ _ _ t _ _ HC HG HQ0);
      [ hq_pw | unfold memb; cbn; now rewrite Epc, Hz, Hz0 | intros _; unfold eack; cbn; now rewrite Epc
      | unfold special; now rewrite Epc | exact Heqo | reflexivity | reflexivity
      | intros b tg; cbn; unfold upd; destruct (Nat.eqb b t) eqn:E;
        [apply Nat.eqb_eq in E; subst b; unfold qb_target; cbn; rewrite Epc, ?Hr; intros; first [assumption|discriminate]|auto]
      | hq_leave t ]. }
  1: { (* PQb1 -> PQb2: the barrier's waiting set is formed; its stamps start afresh *)
    get_loc U nown HC t Epc. destruct L as (L0 & _).
    assert (Hnone : qb_target (fth s t) = None) by (unfold qb_target; rewrite Epc; apply L0; reflexivity).
    eapply (hq_quiet ord ord_fail Hord U nown _ _ _ t _ _ _ HC HG HQ0).
    - hq_pw.
    - left. split; [hq_attr Epc | hq_attr Epc].
    - hq_attr Epc.
    - reflexivity.
    - reflexivity.
    - intros b tg Hq. destruct (Nat.eq_dec b t) as [->|Hb].
      + right. intros X. unfold new_stampsq. cbn [fqbw fth]. rewrite !upd_same.
        destruct (f_active s X); [reflexivity|]. rewrite (HE t Hnone X). rewrite Hnone. reflexivity.
      + left. revert Hq. cbn. now rewrite upd_other.
    - exact I.
    - intros b x W1 W2. exfalso. cbn in W2. destruct (Nat.eq_dec b t) as [->|Hb].
      + rewrite (HE t Hnone x) in W1. discriminate.
      + rewrite (upd_other _ t _ b Hb) in W2. congruence. }
  1: { (* PQb4 -> idle: quiescent_barrier returns *)
    get_loc U nown HC t Epc. destruct L as (L0 & _).
    assert (Hr : tret (fth s t) = None) by (apply L0; reflexivity).
    eapply (hq_quiet ord ord_fail Hord U nown _ _ _ t _ _ _ HC HG HQ0).
    - hq_pw.
    - left. split; [hq_attr Epc | hq_attr Epc].
    - hq_attr Epc.
    - reflexivity.
    - reflexivity.
    - intros b tg0 Hq. left. revert Hq. cbn. unfold upd. destruct (Nat.eqb b t) eqn:E; [|auto].
      unfold qb_target. cbn. rewrite Hr. discriminate.
    - exact I.
    - hq_leave t. }
Qed.

(* the barrier waiting set of a thread that is not inside quiescent_barrier() stays empty *)
Lemma fstep_qe t s s' evs op :
  FCore U nown s -> FGhost nown s -> QE s -> fstop s = None ->
  fstep t s = (s', evs, op) -> fstop s' = None -> QE s'.
Proof.
  intros HC HG HE Hstop H Hns b Hnone x.
  destruct (fqbw s' b x) eqn:W; [exfalso|reflexivity].
  fstep_inv H Hstop.
  all: try (cbn in Hns; discriminate).
  all: clear Hns.
  all: try (rewrite (HE b Hnone x) in W; discriminate).
  all: try solve [
    assert (W0 : fqbw s b x = true) by
      (revert W; cbn; unfold upd; repeat (match goal with |- context [if ?c then _ else _] => destruct c eqn:? end); try discriminate; auto);
    destruct (qb_target (fth s b)) eqn:T0; [|rewrite (HE b T0 x) in W0; discriminate];
    revert Hnone; cbn; unfold upd; destruct (Nat.eqb b t) eqn:E;
    [ apply Nat.eqb_eq in E; subst b; unfold qb_target in *; unfold ret_th; cbn;
      try (match goal with |- context [tret ?th] => destruct (tret th) eqn:? end); cbn; rewrite ?Epc in *; cbn in *;
      first [ congruence
            | (pose proof (f_loc U nown s HC t) as [L0 _]; rewrite ?Epc in L0; cbn in L0; specialize (L0 eq_refl); congruence) ]
    | congruence ] ].
  - (* PQb1: the new set belongs to a thread that is inside quiescent_barrier() now *)
    cbn in Hnone, W. unfold upd in Hnone, W. destruct (Nat.eqb b t) eqn:E.
    + unfold qb_target in Hnone. cbn in Hnone. discriminate.
    + destruct (qb_target (fth s b)) eqn:T0; [congruence|]. rewrite (HE b T0 x) in W. discriminate.
  - (* PQb4: quiescent_barrier returns only when its waiting set is empty *)
    cbn in Hnone, W. destruct (Nat.eq_dec b t) as [->|Hb].
    + assert (Hb : qb_target (fth s t) = Some tg) by (unfold qb_target; now rewrite Epc).
      destruct (f_kq _ _ HG t x tg W Hb) as (A1 & A2 & A3).
      destruct (awake_bounds U nown s x HC A1 A2) as [B1 B2]. n2p.
      match goal with Hge : tg <= ctr (fd s) |- _ => clear - A3 B2 Hge; lia end.
    + unfold upd in Hnone. destruct (Nat.eqb b t) eqn:E; [apply Nat.eqb_eq in E; contradiction|].
      rewrite (HE b Hnone x) in W. discriminate.
Qed.

(* ---- runs and the theorem ---- *)

Definition HAllQ (h : hstate) : Prop :=
  HAll U nown h /\ (fstop (hf h) = None -> HQ (hf h) (hk h) (hleftq h) /\ QE (hf h)).

Lemma hallq_init scripts : scripts_ok U nown scripts -> HAllQ (h0 scripts).
Proof.
  intros Hok. split.
  - intros _. cbn. destruct (finv_init U nown scripts Hok) as [HC HG]. split; [assumption|]. split; [assumption|apply hinv_init].
  - intros _. cbn. split; [intros b X kx tg H; discriminate|intros b _ x; reflexivity].
Qed.

Lemma hstep_allq t h h' evs : HAllQ h -> hstep ord ord_fail t h = (h', evs) -> HAllQ h'.
Proof.
  intros [HA HQE] H. split; [apply (hstep_all ord ord_fail Hord U nown ND HB t h h' evs HA H)|].
  unfold hstep in H. destruct (fstep t (hf h)) as [[s' e] op] eqn:E. inversion H; subst h' evs; clear H.
  intros Hns. cbn in Hns. cbn [hf hk hleftq]. destruct (fstop (hf h)) eqn:Hstop.
  - exfalso. rewrite fstep_stopped in E by congruence. inversion E; subst. congruence.
  - destruct (HA Hstop) as (HC & HG & HI). destruct (HQE eq_refl) as [HQ0 HE].
    destruct (in_dec Nat.eq_dec t U) as [Ht|Ht].
    + split; [apply (hqstep_inv t (hf h) (hk h) (hleft h) (hleftq h) s' e op Ht HC HG HI HQ0 HE Hstop E Hns)
             |apply (fstep_qe t (hf h) s' e op HC HG HE Hstop E Hns)].
    + pose proof (fstep_outside U nown (hf h) t HC Ht) as E'. rewrite E' in E. inversion E; subst s' e op.
      split; [|assumption].
      match goal with |- HQ ?s0 _ _ =>
        eapply (hq_quiet ord ord_fail Hord U nown s0 _ _ t (fth s0 t) s0 CkNone HC HG HQ0) end;
      [ intros x; unfold upd; destruct (Nat.eqb x t) eqn:Ex; [apply Nat.eqb_eq in Ex; now subst|reflexivity]
      | left; split; reflexivity | reflexivity | reflexivity | reflexivity
      | intros; left; assumption | exact I | intros; congruence ].
Qed.

Lemma hrun_allq : forall sched h tr h' tr', HAllQ h -> hrun ord ord_fail sched h tr = (h', tr') -> HAllQ h'.
Proof.
  induction sched as [|t r IH]; intros h tr h' tr' HA H; cbn in H; [now inversion H; subst|].
  unfold hstep' in H. destruct (hstep ord ord_fail t h) as [h1 e1] eqn:E. apply (IH h1 (tr ++ e1) h' tr'); [|exact H].
  apply (hstep_allq t h h1 e1 HA E).
Qed.

(* quiescent_barrier() returns only after everything the agents of its waiting set did before they
   left it has happened-before *)
Theorem hb_barrier_return t h h' evs t' :
  HAllQ h -> hstep ord ord_fail t h = (h', evs) -> In (WQbRet t') evs ->
  forall X kx, hleftq h t' X = Some kx -> (kx <= vc (hk h') t' X)%nat.
Proof.
  intros [HA HQE] H Hin X kx Hl. unfold hstep in H.
  destruct (fstep t (hf h)) as [[s' e] op] eqn:E. inversion H; subst h' evs; clear H. cbn [hk].
  destruct (fstop (hf h)) eqn:Hstop.
  - exfalso. rewrite fstep_stopped in E by congruence. inversion E; subst. destruct Hin.
  - destruct (HA Hstop) as (HC & HG & HI). destruct (HQE eq_refl) as [HQ0 HE].
    revert E Hin Hl. generalize (hf h) (hk h) (hleftq h) Hstop HC HG HQ0. clear - Hord.
    intros s k lfq Hstop HC HG HQ0 E Hin Hl.
    fstep_inv E Hstop; cbn in Hin; try (intuition discriminate).
    destruct Hin as [F|[]]. inversion F; subst t'. clear F.
    assert (Hb : qb_target (fth s t) = Some tg) by (unfold qb_target; now rewrite Epc).
    pose proof (HQ0 t X kx tg Hl Hb) as [_ _ _ _ Hcc]. n2p.
    unfold cstep, clk_step. cbn [vc]. rewrite upd_same.
    destruct (ord_facts ord Hord) as (_ & _ & _ & _ & _ & _ & _ & _ & Hacq). rewrite Hacq.
    eapply Nat.le_trans; [apply (Hcc Heqb)|apply vle_join_r].
Qed.

End BStep.
