(* The fine-grained theorems, for the model instance built from the generated source facts
   ([gen_f_step], [gen_f_run]) and stated over schedulers. *)
From Coq Require Import List NArith Bool Arith Lia.
Import ListNotations.
From FV Require Import Qs.QsTypes Qs.QsModel Qs.QsFgModel Qs.QsGenOk Qs.QsWoProofs Qs.QsFgProofs Qs.QsFgThms.
Local Open Scope N_scope.

Lemma gen_enter_call_eq : gen_enter_call = MLock.
Proof. unfold gen_enter_call. now rewrite gen_enter_eq. Qed.
Lemma gen_exit_call_eq : gen_exit_call = MUnlock.
Proof. unfold gen_exit_call. now rewrite gen_exit_eq. Qed.

Lemma gen_f_step_eq : gen_f_step = fstep.
Proof. unfold gen_f_step, fstep. now rewrite gen_enter_call_eq, gen_exit_call_eq, gen_pop_first_true. Qed.

Lemma gen_f_run_cons t r s tr :
  gen_f_run (t :: r) s tr = let '(s', evs, _) := gen_f_step t s in gen_f_run r s' (tr ++ evs).
Proof. reflexivity. Qed.

Section Gen.
Variable U : list tid.
Variable nown : nid -> tid.
Variable scripts : tid -> list call.
Hypothesis ND : NoDup U.
Hypothesis HB : few U.
Hypothesis Hok : scripts_ok U nown scripts.

Lemma run_freach : forall sched s tr s' tr',
  freach scripts s tr -> gen_f_run sched s tr = (s', tr') -> freach scripts s' tr'.
Proof.
  induction sched as [|t r IH]; intros s tr s' tr' Hr H.
  - cbn in H. now inversion H; subst.
  - rewrite gen_f_run_cons in H. destruct (gen_f_step t s) as [[s1 e1] o1] eqn:E.
    apply (IH s1 (tr ++ e1) s' tr'); [|exact H]. rewrite gen_f_step_eq in E. econstructor; eassumption.
Qed.

Lemma run_reach sched s tr : gen_f_run sched (f0 scripts) [] = (s, tr) -> freach scripts s tr.
Proof. apply run_freach. constructor. Qed.

Lemma reach_inv s tr : freach scripts s tr -> fstop s = None -> FCore U nown s /\ FGhost nown s.
Proof. intros H. apply (freach_inv U nown ND HB scripts s tr Hok H). Qed.

Lemma reach_ft s tr : freach scripts s tr -> FT s tr.
Proof.
  intros H. induction H as [|s tr t s' evs op Hr IH Hs].
  - intros n. reflexivity.
  - destruct (fstop s) eqn:Hstop.
    + rewrite fstep_stopped in Hs by congruence. inversion Hs; subst. now rewrite app_nil_r.
    + destruct (reach_inv s tr Hr Hstop) as [HC HG].
      apply (fstep_tinv U nown t s tr s' evs op HC HG Hstop IH Hs).
Qed.

Lemma reach_trace_ok s tr : freach scripts s tr -> trace_ok tr.
Proof. intros H n. rewrite (reach_ft s tr H n). discriminate. Qed.

(* a step from a stopped state does nothing *)
Lemma step_of_stopped s t s' evs op : fstop s <> None -> fstep t s = (s', evs, op) -> evs = [].
Proof. intros H E. rewrite fstep_stopped in E by assumption. now inversion E. Qed.

Lemma fgen_grace s tr t s' evs op n t' :
  freach scripts s tr -> gen_f_step t s = (s', evs, op) -> In (WCb n t') evs ->
  t' = t /\ (exists c, tpc (fth s t) = PRun2 c) /\ fowner s n = Some t /\ forall x, fwait s n x = false.
Proof.
  intros Hr H Hin. rewrite gen_f_step_eq in H. destruct (fstop s) eqn:Hstop.
  - rewrite (step_of_stopped s t s' evs op) in Hin by (congruence || assumption). destruct Hin.
  - destruct (reach_inv s tr Hr Hstop) as [HC HG].
    apply (fg_grace_period U nown t s s' evs op n t' HC HG Hstop H Hin).
Qed.

Lemma fgen_qb_grace s tr t s' evs op t' :
  freach scripts s tr -> gen_f_step t s = (s', evs, op) -> In (WQbRet t') evs ->
  t' = t /\ forall x, fqbw s' t x = false.
Proof.
  intros Hr H Hin. rewrite gen_f_step_eq in H. destruct (fstop s) eqn:Hstop.
  - rewrite (step_of_stopped s t s' evs op) in Hin by (congruence || assumption). destruct Hin.
  - destruct (reach_inv s tr Hr Hstop) as [HC HG].
    apply (fg_qbarrier_grace U nown t s s' evs op t' HC HG Hstop H Hin).
Qed.

Lemma fgen_stops s tr t s' evs op st :
  freach scripts s tr -> fstop s = None -> gen_f_step t s = (s', evs, op) -> fstop s' = Some st ->
  exists l, st = StopAssert t l /\ In l [102; 124; 127; 151; 214].
Proof.
  intros Hr Hstop H Hst. rewrite gen_f_step_eq in H. destruct (reach_inv s tr Hr Hstop) as [HC HG].
  apply (fg_stops U nown t s s' evs op st HC HG Hstop H Hst).
Qed.

Lemma fgen_no_deadlock s tr :
  freach scripts s tr -> fstop s = None ->
  (exists t, tpc (fth s t) <> PIdle \/ tscript (fth s t) <> []) ->
  exists t', fst (fst (gen_f_step t' s)) <> s.
Proof.
  intros Hr Hstop Hb. rewrite gen_f_step_eq. destruct (reach_inv s tr Hr Hstop) as [HC HG].
  apply (fg_no_deadlock U nown s HC Hstop Hb).
Qed.

Lemma fgen_mutex_released s tr t :
  freach scripts s tr -> fstop s = None -> tpc (fth s t) = PIdle -> fmx s <> Some t.
Proof. intros Hr Hstop. destruct (reach_inv s tr Hr Hstop) as [HC HG]. apply (fg_mutex_released U nown s t HC). Qed.

End Gen.
