(* Vocabulary shared by the generated source facts (Gen/QsOrders.v, written by translator/gen_qs.py
   from the clang AST of include/frg/qs.hpp) and the hand-written model (Qs/QsModel.v).
   Definitions only. *)
From Coq Require Import List Bool.
Import ListNotations.

(* std::memory_order *)
Inductive mo := Relaxed | Consume | Acquire | Release | AcqRel | SeqCst.

(* the three atomics of qs_domain *)
Inductive loc := LCtr | LDesired | LToAck.

Inductive akind := KLoad | KStore | KFetchSub | KCas.

(* member functions of qs_agent *)
Inductive fn := FOnline | FOffline | FQs | FQBarrier | FAwait | FRun.

(* calls on the mutex type M *)
Inductive mcall := MLock | MUnlock.

Inductive callee :=
| CQs          (* quiescent_state() called from quiescent_barrier() *)
| CCallback    (* node->on_grace_period(node) *)
| CEmpty | CFront | CPopFront | CPushBack.   (* _pending.<f>() *)

(* One event of a member function body, in source order. *)
Inductive gop :=
| GAtomic (k : akind) (l : loc) (o ofail : mo)  (* ofail: failure order of a CAS, = o otherwise *)
| GGuard          (* lock_guard<M> lock(_dom->_mutex) constructed *)
| GScopeEnd       (* end of the compound statement that declared the innermost live guard *)
| GNumAgents      (* access to the mutex-protected plain field _dom->_num_agents *)
| GNode           (* access to a field of the qs_node (its _target_qs_counter) *)
| GAssert         (* FRG_ASSERT(...) (atomics inside its condition are listed before it) *)
| GCall (c : callee)
| GIf | GElse | GEndIf | GWhile | GDo | GEndWhile | GBreak.

(* Events of the member functions of qs.hpp's own lock_guard<M>. *)
Inductive lgop :=
| LgAssertLocked (b : bool)   (* FRG_ASSERT(_locked) / FRG_ASSERT(!_locked): requires _locked = b *)
| LgMutex (c : mcall)         (* _mutex-><c>() *)
| LgSetLocked (b : bool)
| LgCallLock | LgCallUnlock   (* this->lock() / this->unlock() *)
| LgIfLocked | LgEndIf.       (* if(_locked) ... *)

Definition mo_eqb (a b : mo) : bool :=
  match a, b with
  | Relaxed, Relaxed | Consume, Consume | Acquire, Acquire | Release, Release
  | AcqRel, AcqRel | SeqCst, SeqCst => true
  | _, _ => false end.
Definition loc_eqb (a b : loc) : bool :=
  match a, b with LCtr, LCtr | LDesired, LDesired | LToAck, LToAck => true | _, _ => false end.
Definition akind_eqb (a b : akind) : bool :=
  match a, b with KLoad, KLoad | KStore, KStore | KFetchSub, KFetchSub | KCas, KCas => true | _, _ => false end.
Definition mcall_eqb (a b : mcall) : bool :=
  match a, b with MLock, MLock | MUnlock, MUnlock => true | _, _ => false end.
Definition callee_eqb (a b : callee) : bool :=
  match a, b with
  | CQs, CQs | CCallback, CCallback | CEmpty, CEmpty | CFront, CFront
  | CPopFront, CPopFront | CPushBack, CPushBack => true
  | _, _ => false end.

(* does the order include acquire / release semantics (for the operation kinds where it applies) *)
Definition is_acq (o : mo) : bool :=
  match o with Acquire | AcqRel | SeqCst => true | _ => false end.   (* consume: not counted *)
Definition is_rel (o : mo) : bool :=
  match o with Release | AcqRel | SeqCst => true | _ => false end.
