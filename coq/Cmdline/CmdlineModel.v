(* Executable model of frg::parse_arguments (include/frg/cmdline.hpp) AS THE CODE IS in /repo, on
   top of the string_view model of Str/StrModel.v (find_first, sub_string, operator==).
   The command line is a buffer of EXACTLY n bytes; every byte is obtained through the
   bounds-checked [read] of StrModel (UB "oob" outside the buffer); size_t arithmetic wraps
   mod 2^64 as in the source; option callbacks are output events.  Definitions only. *)
From Coq Require Import List NArith ZArith Bool.
From FV Require Import Str.StrModel.
Import ListNotations.
Local Open Scope N_scope.

Definition add64 (a b : N) : N := (a + b) mod W64.
Definition sub64 (a b : N) : N := (a + W64 - b mod W64) mod W64.

(* frg::option: name view, fn.has_arg, and whether fn.ptr is non-null (a reserved / unbound option has a null handler) *)
Record copt := mkOpt { o_name : view; o_has_arg : bool; o_has_fn : bool }.

Inductive item :=
| IRead (r : range)               (* a byte of some buffer was read *)
| IApply (idx : nat) (v : view).  (* option number idx: fn.ptr(v, ctx) *)

Definition T (A : Type) := (outcome A * list item)%type.
Definition retT {A} (a : A) : T A := (Ok a, []).
Definition bindT {A B} (c : T A) (f : A -> T B) : T B :=
  match c with
  | (Ok a, l) => let (o, l') := f a in (o, l ++ l')
  | (o, l) => (errR o, l)
  end.
Notation "x <~~ c ;; f" := (bindT c (fun x => f)) (at level 61, c at next level, right associativity).
Definition liftT {A} (c : R A) : T A := (fst c, map IRead (snd c)).
Definition emit (idx : nat) (v : view) : T unit := (Ok tt, [IApply idx v]).
(* option::apply(value): FRG_ASSERT(fn.ptr); fn.ptr(value, fn.ctx) *)
Definition apply_opt (idx : nat) (o : copt) (v : view) : T unit :=
  if o_has_fn o then emit idx v else (AssertStop a_option_apply, []).

Section Parse.
Variable m : mem.
(* sub_string; a parameter only for the D32 refutation, the model instantiates it with StrModel.sub_string *)
Variable sub_string : view -> N -> N -> R view.

(* the lambda try_apply_arg *)
Definition try_apply (arg : view) (idx : nat) (o : copt) : T bool :=
  eq <~~ liftT (find_first m arg 61 0) ;;
  if eq =? MAX64 then
    if o_has_arg o then retT false else
    e <~~ liftT (view_eq m (o_name o) arg) ;;
    if negb e then retT false else
    _ <~~ apply_opt idx o VNull ;; retT true
  else
    if negb (o_has_arg o) then retT false else
    name <~~ liftT (sub_string arg 0 eq) ;;
    val <~~ liftT (sub_string arg (add64 eq 1) (sub64 (sub64 (vlen arg) eq) 1)) ;;
    e <~~ liftT (view_eq m (o_name o) name) ;;
    if negb e then retT false else
    _ <~~ apply_opt idx o val ;; retT true.

Fixpoint try_all (arg : view) (idx : nat) (opts : list copt) : T unit :=
  match opts with
  | [] => retT tt
  | o :: r => hit <~~ try_apply arg idx o ;; if hit : bool then retT tt else try_all arg (S idx) r
  end.

(* tokeniser of one loop iteration: (quoted, opening_quote, closing_quote, spc) *)
Definition tokenise (cl : view) : T (bool * N * N * N) :=
  spc <~~ liftT (find_first m cl 32 0) ;;
  oq <~~ liftT (find_first m cl 34 0) ;;
  if oq <? spc then
    v1 <~~ liftT (sub_string cl (add64 oq 1) (sub64 (sub64 (vlen cl) oq) 1)) ;;
    r1 <~~ liftT (find_first m v1 34 0) ;;
    let cq := add64 (add64 oq 1) r1 in
    v2 <~~ liftT (sub_string cl (add64 cq 1) (sub64 (sub64 (vlen cl) cq) 1)) ;;
    r2 <~~ liftT (find_first m v2 32 0) ;;
    retT (true, oq, cq, add64 (add64 cq 1) r2)
  else retT (false, oq, MAX64, spc).

Fixpoint parse_loop (opts : list copt) (fuel : nat) (cl : view) : T unit :=
  match fuel with
  | O => (OutOfFuel, [])
  | S f =>
    tk <~~ tokenise cl ;;
    let '(quoted, oq, cq, spc) := tk in
    let split_on := if spc =? MAX64 then vlen cl else spc in
    arg <~~ liftT (sub_string cl (if quoted : bool then add64 oq 1 else 0)
                                 (if quoted then sub64 (sub64 cq oq) 1 else split_on)) ;;
    _ <~~ try_all arg 0 opts ;;
    if spc =? MAX64 then retT tt else
    cl' <~~ liftT (sub_string cl (add64 spc 1) (sub64 (sub64 (vlen cl) spc) 1)) ;;
    parse_loop opts f cl'
  end.

Definition parse_fuel (cl : view) : nat := S (N.to_nat (vlen cl)).
Definition parse_arguments (cl : view) (opts : list copt) : T unit := parse_loop opts (parse_fuel cl) cl.
End Parse.

(* script level: the command line is buffer 0 (exact size), option names are buffers 1, 2, ... *)
Fixpoint opt_mem (names : list (list byte)) (id : nat) : mem :=
  match names with [] => [] | n :: r => (id, n) :: opt_mem r (S id) end.
(* a table entry: (name, has_arg, handler present) *)
Definition tentry := (list byte * bool * bool)%type.
Definition te_name (e : tentry) : list byte := fst (fst e).
Fixpoint opt_table (tbl : list tentry) (id : nat) : list copt :=
  match tbl with
  | [] => []
  | (n, h, f) :: r => mkOpt (V id 0 (N.of_nat (length n))) h f :: opt_table r (S id)
  end.
Definition run_mem (tbl : list tentry) (cl : list byte) : mem :=
  (0%nat, cl) :: opt_mem (map te_name tbl) 1.
(* null_cl = true: parse_arguments(string_view{}, ...) *)
Definition run_cmdline_with (sub : view -> N -> N -> R view) (tbl : list tentry) (cl : list byte) (null_cl : bool) : T unit :=
  parse_arguments (run_mem tbl cl) sub (if null_cl then VNull else V 0 0 (N.of_nat (length cl))) (opt_table tbl 1).
Definition run_cmdline := run_cmdline_with sub_string.

(* ---- the option helpers of cmdline.hpp as targets: what the callbacks of store_true/store_false,
   as_string_view and as_number<T> leave in their targets (they write nowhere else) *)
Inductive okind := KCustom | KStore (b : bool) | KView | KNum (t : ity).
Inductive tval := TCustom | TBool (b : bool) | TView (v : view) | TNum (n : N).
Definition target0 (k : okind) : tval :=
  match k with KCustom => TCustom | KStore b => TBool (negb b) | KView => TView VNull | KNum _ => TNum 7 end.
Definition target_apply (m : mem) (k : okind) (old : tval) (v : view) : tval :=
  match k with
  | KCustom => old
  | KStore b => TBool b
  | KView => TView v
  | KNum t => match to_number m t v with (Ok (Some n), _) => TNum n | _ => old end   (* if(n) *target = n.value() *)
  end.
Fixpoint upd_target (m : mem) (kinds : list okind) (tg : list tval) (idx : nat) (v : view) : list tval :=
  match kinds, tg, idx with
  | k :: _, t :: tr, O => target_apply m k t v :: tr
  | _ :: kr, t :: tr, S j => t :: upd_target m kr tr j v
  | _, _, _ => tg
  end.
Definition targets (m : mem) (kinds : list okind) (items : list item) : list tval :=
  fold_left (fun tg it => match it with IApply idx v => upd_target m kinds tg idx v | IRead _ => tg end)
            items (map target0 kinds).
Definition run_cmdline_targets (tbl : list tentry) (kinds : list okind) (cl : list byte) (null_cl : bool)
  : T unit * list tval :=
  let r := run_cmdline tbl cl null_cl in (r, targets (run_mem tbl cl) kinds (snd r)).
