From FV Require Import Common.ExtractTypes Str.StrModel Cmdline.CmdlineModel.
From Coq Require Extraction.
From Coq Require Import ExtrOcamlBasic.
Extraction "../build/extract/cmdline_model.ml" types_witness run_cmdline run_cmdline_targets.
