(* parse_arguments is total and memory-safe on every command line and every option table. *)
From Coq Require Import List NArith ZArith Bool Lia Arith.
From Coq Require Import ZifyBool ZifyNat ZifyN.
From FV Require Import Str.StrModel Str.StrProofs Str.StrNumProofs Cmdline.CmdlineModel.
Import ListNotations.
Local Open Scope N_scope.

(* v lies inside outer (same buffer, sub-interval); the null view lies inside everything *)
Definition inside (outer v : view) : Prop :=
  match v with
  | VNull => True
  | V b off len => match outer with
                   | V b' off' len' => b = b' /\ off' <= off /\ off + len <= off' + len'
                   | VNull => False end
  end.

Lemma inside_refl v : inside v v.
Proof. destruct v; simpl; [trivial|]. repeat split; lia. Qed.
Lemma inside_sub outer v from size : inside outer v -> from <= vlen v -> size <= vlen v - from ->
  inside outer (sub_view v from size).
Proof.
  destruct v as [|b off len]; simpl; [trivial|]. destruct outer as [|b' off' len']; [tauto|].
  intros (A & B & C) H1 H2. repeat split; lia.
Qed.

Section Safe.
Variable m : mem.
Variable cl0 : view.

Definition good (v : view) : Prop := valid_view m v /\ inside cl0 v.
Definition item_ok (it : item) : Prop :=
  match it with IRead r => in_mem m r | IApply _ v => good v end.

Definition safeT {A} (c : T A) (Q : A -> Prop) : Prop :=
  match c with
  | (Ok a, l) => Q a /\ Forall item_ok l
  | (AssertStop _, l) => Forall item_ok l
  | _ => False
  end.

Lemma safeT_ret {A} (a : A) (Q : A -> Prop) : Q a -> safeT (retT a) Q.
Proof. intros H. simpl. split; [assumption|constructor]. Qed.
Lemma safeT_bind {A C} (c : T A) (f : A -> T C) (Q1 : A -> Prop) (Q2 : C -> Prop) :
  safeT c Q1 -> (forall a, Q1 a -> safeT (f a) Q2) -> safeT (bindT c f) Q2.
Proof.
  unfold safeT, bindT. destruct c as [[a|w|w|] l]; simpl; try tauto.
  intros [Ha Hl] Hf. specialize (Hf a Ha). destruct (f a) as [[x|w|w|] l']; try tauto.
  - destruct Hf. split; [assumption|apply Forall_app; split; assumption].
  - apply Forall_app; split; assumption.
Qed.
Lemma safeT_weaken {A} (c : T A) (Q1 Q2 : A -> Prop) : safeT c Q1 -> (forall a, Q1 a -> Q2 a) -> safeT c Q2.
Proof. unfold safeT. destruct c as [[a|w|w|] l]; try tauto. intros [Ha Hl] H. split; auto. Qed.
Lemma safeT_lift {A} (c : R A) (Q : A -> Prop) : safeR c Q (in_mem m) -> safeT (liftT c) Q.
Proof.
  unfold safeR, safeT, liftT. destruct c as [[a|w|w|] l]; simpl; try tauto.
  - intros [Ha Hl]. split; [assumption|]. apply Forall_map. exact Hl.
  - intros Hl. apply Forall_map. exact Hl.
Qed.
Lemma safeT_emit idx v : good v -> safeT (emit idx v) (fun _ => True).
Proof. intros H. simpl. split; [trivial|]. constructor; [exact H|constructor]. Qed.
(* option::apply: a callback event, or the assertion stop when the handler is null -- never a call through null *)
Lemma safeT_apply idx o v : good v -> safeT (apply_opt idx o v) (fun _ => True).
Proof. intros H. unfold apply_opt. destruct (o_has_fn o); [apply safeT_emit; exact H|simpl; constructor]. Qed.

Lemma good_null : good VNull.
Proof. split; simpl; trivial. Qed.
Lemma good_sub v from size : good v -> from <= vlen v -> size <= vlen v - from -> good (sub_view v from size).
Proof. intros [Hv Hi] H1 H2. split; [apply sub_view_valid; assumption|apply inside_sub; assumption]. Qed.

(* building blocks, as safeT facts *)
Lemma ff_safe v c start : good v ->
  safeT (liftT (find_first m v c start)) (fun r => r = MAX64 \/ r < vlen v).
Proof.
  intros [Hv _]. apply safeT_lift. apply okR_safeR.
  eapply okR_weaken; [apply find_first_ok; exact Hv| |].
  - intros r Hr. apply ff_spec_range in Hr. rewrite vtext_length in Hr by assumption. exact Hr.
  - intros r. apply within_in_mem. assumption.
Qed.
Lemma sub_safe v from size : good v ->
  safeT (liftT (sub_string v from size)) (fun s => good s /\ vlen s = size /\ from <= vlen v /\ size <= vlen v - from).
Proof.
  intros Hg. apply safeT_lift.
  eapply safeR_weaken; [apply sub_string_safe| |intros r Hr; exact Hr].
  intros s (-> & H1 & H2). split; [apply good_sub; assumption|]. split; [|split; assumption].
  destruct v; simpl in *; [lia|reflexivity].
Qed.
Lemma eq_safe a b : valid_view m a -> good b -> safeT (liftT (view_eq m a b)) (fun _ => True).
Proof.
  intros Ha [Hb _]. apply safeT_lift. apply okR_safeR.
  eapply okR_weaken; [apply view_eq_ok; assumption|intros; exact I|].
  intros r [H|H]; [apply (within_in_mem m a)|apply (within_in_mem m b)]; assumption.
Qed.

Definition valid_opt (o : copt) : Prop := valid_view m (o_name o).

Lemma try_apply_safe arg idx o : good arg -> valid_opt o -> safeT (try_apply m sub_string arg idx o) (fun _ => True).
Proof.
  intros Hg Ho. unfold try_apply.
  eapply safeT_bind; [apply ff_safe; exact Hg|]. intros eq _. cbv beta.
  destruct (eq =? MAX64).
  - destruct (o_has_arg o); [apply safeT_ret; trivial|].
    eapply safeT_bind; [apply eq_safe; [exact Ho|exact Hg]|]. intros e _. cbv beta.
    destruct (negb e); [apply safeT_ret; trivial|].
    eapply safeT_bind; [apply safeT_apply; apply good_null|]. intros _ _. apply safeT_ret; trivial.
  - destruct (negb (o_has_arg o)); [apply safeT_ret; trivial|].
    eapply safeT_bind; [apply sub_safe; exact Hg|]. intros name (Hn & _). cbv beta.
    eapply safeT_bind; [apply sub_safe; exact Hg|]. intros val (Hval & _). cbv beta.
    eapply safeT_bind; [apply eq_safe; [exact Ho|exact Hn]|]. intros e _. cbv beta.
    destruct (negb e); [apply safeT_ret; trivial|].
    eapply safeT_bind; [apply safeT_apply; exact Hval|]. intros _ _. apply safeT_ret; trivial.
Qed.

Lemma try_all_safe arg idx opts : good arg -> Forall valid_opt opts -> safeT (try_all m sub_string arg idx opts) (fun _ => True).
Proof.
  intros Hg Ho. revert idx; induction Ho as [|o opts Hv Ho IH]; intros idx; cbn [try_all].
  - apply safeT_ret; trivial.
  - eapply safeT_bind; [apply try_apply_safe; assumption|]. intros hit _. cbv beta.
    destruct hit; [apply safeT_ret; trivial|apply IH].
Qed.

Lemma add64_lt a b : add64 a b < W64.
Proof. unfold add64. apply N.mod_lt. discriminate. Qed.

(* the tokeniser: whatever it computes, spc is a size_t *)
Lemma tokenise_safe cl : good cl -> vlen cl < W64 ->
  safeT (tokenise m sub_string cl) (fun tk => let '(_, _, _, spc) := tk in spc < W64).
Proof.
  intros Hg Hl. unfold tokenise.
  eapply safeT_bind; [apply ff_safe; exact Hg|]. intros spc Hspc. cbv beta.
  eapply safeT_bind; [apply ff_safe; exact Hg|]. intros oq _. cbv beta.
  destruct (oq <? spc).
  - eapply safeT_bind; [apply sub_safe; exact Hg|]. intros v1 (H1 & _). cbv beta.
    eapply safeT_bind; [apply ff_safe; exact H1|]. intros r1 _. cbv beta zeta.
    eapply safeT_bind; [apply sub_safe; exact Hg|]. intros v2 (H2 & _). cbv beta.
    eapply safeT_bind; [apply ff_safe; exact H2|]. intros r2 _. cbv beta.
    apply safeT_ret. apply add64_lt.
  - apply safeT_ret. unfold MAX64, W64 in *. destruct Hspc; lia.
Qed.

Lemma parse_loop_safe opts fuel cl : Forall valid_opt opts -> good cl -> vlen cl < W64 -> vlen cl < N.of_nat fuel ->
  safeT (parse_loop m sub_string opts fuel cl) (fun _ => True).
Proof.
  intros Ho. revert cl; induction fuel as [|f IH]; intros cl Hg Hl Hf; [lia|]. cbn [parse_loop].
  eapply safeT_bind; [apply tokenise_safe; assumption|]. intros [[[quoted oq] cq] spc] Hspc. cbv beta iota.
  eapply safeT_bind; [apply sub_safe; exact Hg|]. intros arg (Harg & _). cbv beta.
  eapply safeT_bind; [apply try_all_safe; assumption|]. intros _ _.
  destruct (N.eqb_spec spc MAX64) as [E|E]; [apply safeT_ret; trivial|].
  eapply safeT_bind; [apply sub_safe; exact Hg|]. intros cl' (Hg' & Hlen & Hfrom & Hsize). cbv beta.
  assert (Hadd : add64 spc 1 = spc + 1).
  { unfold add64. apply N.mod_small. unfold MAX64, W64 in *. lia. }
  rewrite Hadd in *. apply IH; [assumption|lia|lia].
Qed.

Lemma parse_arguments_safe cl opts : cl = cl0 -> valid_view m cl -> vlen cl < W64 -> Forall valid_opt opts ->
  safeT (parse_arguments m sub_string cl opts) (fun _ => True).
Proof.
  intros -> Hv Hl Ho. unfold parse_arguments, parse_fuel.
  apply parse_loop_safe; [assumption|split; [assumption|apply inside_refl]|assumption|lia].
Qed.
End Safe.

(* ---- script level: exact-size command line in buffer 0, option names in buffers 1.. *)
Lemma opt_table_mem tbl k :
  Forall (fun o => exists id n, o_name o = V id 0 (N.of_nat (length n)) /\ (k <= id)%nat /\
                                mem_get (opt_mem (map te_name tbl) k) id = Some n) (opt_table tbl k).
Proof.
  revert k; induction tbl as [|[[n h] f] tbl IH]; intros k; cbn [opt_table map te_name fst opt_mem]; constructor.
  - exists k, n. cbn [o_name mem_get]. rewrite Nat.eqb_refl. repeat split. lia.
  - eapply Forall_impl; [|apply (IH (S k))]. intros o (id & n' & E & Hk & Hm). exists id, n'.
    split; [assumption|]. split; [lia|]. cbn [mem_get]. destruct (Nat.eqb_spec k id); [lia|]. exact Hm.
Qed.
Lemma opt_table_valid tbl cl : Forall (valid_opt (run_mem tbl cl)) (opt_table tbl 1).
Proof.
  eapply Forall_impl; [|apply (opt_table_mem tbl 1)]. intros o (id & n & E & Hk & Hm).
  unfold valid_opt. rewrite E. destruct id as [|id]; [lia|]. simpl. exists n. split; [exact Hm|lia].
Qed.

Definition cl_view (cl : list byte) (null_cl : bool) : view := if null_cl then VNull else V 0 0 (N.of_nat (length cl)).

(* an item of a run over the n-byte command line cl *)
Definition run_item_ok (tbl : list tentry) (cl : list byte) (it : item) : Prop :=
  match it with
  | IRead r => in_mem (run_mem tbl cl) r
  | IApply _ v => v = VNull \/ exists off len, v = V 0 off len /\ off + len <= N.of_nat (length cl)
  end.

Lemma run_cmdline_safe (tbl : list tentry) (cl : list byte) (null_cl : bool) :
  N.of_nat (length cl) < W64 ->
  match run_cmdline tbl cl null_cl with
  | (Ok _, items) => Forall (run_item_ok tbl cl) items
  | (AssertStop _, items) => Forall (run_item_ok tbl cl) items
  | (UB _, _) => False
  | (OutOfFuel, _) => False
  end.
Proof.
  intros Hl. unfold run_cmdline, run_cmdline_with.
  assert (Hv : valid_view (run_mem tbl cl) (cl_view cl null_cl)).
  { destruct null_cl; simpl; [trivial|]. exists cl. split; [reflexivity|lia]. }
  assert (Hlen : vlen (cl_view cl null_cl) < W64).
  { destruct null_cl; simpl; [reflexivity|assumption]. }
  pose proof (parse_arguments_safe (run_mem tbl cl) (cl_view cl null_cl) (cl_view cl null_cl) (opt_table tbl 1)
                eq_refl Hv Hlen (opt_table_valid tbl cl)) as S.
  unfold cl_view in *. unfold safeT in S.
  destruct (parse_arguments (run_mem tbl cl) sub_string (if null_cl then VNull else V 0 0 (N.of_nat (length cl))) (opt_table tbl 1))
    as [[a|w|w|] items]; try tauto.
  - destruct S as [_ S]. eapply Forall_impl; [|exact S]. intros [r|idx v]; simpl; [trivial|].
    intros [_ Hi]. destruct v as [|b off len]; [left; reflexivity|right].
    destruct null_cl; simpl in Hi; [tauto|]. destruct Hi as (-> & _ & H). exists off, len. split; [reflexivity|lia].
  - eapply Forall_impl; [|exact S]. intros [r|idx v]; simpl; [trivial|].
    intros [_ Hi]. destruct v as [|b off len]; [left; reflexivity|right].
    destruct null_cl; simpl in Hi; [tauto|]. destruct Hi as (-> & _ & H). exists off, len. split; [reflexivity|lia].
Qed.

(* general form with the fuel spelled out: any valid view of any memory, any table of valid option names *)
Lemma parse_loop_total_safe (m : mem) (cl : view) (opts : list copt) :
  valid_view m cl -> vlen cl < W64 -> Forall (valid_opt m) opts ->
  safeT m cl (parse_loop m sub_string opts (S (N.to_nat (vlen cl))) cl) (fun _ => True).
Proof. intros Hv Hl Ho. apply (parse_arguments_safe m cl cl opts eq_refl Hv Hl Ho). Qed.

(* the assertion stop is real: an unbalanced quote ends in the hook (and nowhere else) *)
Definition d32_cl : list byte := [34; 97; 98; 99].     (* a quote, then abc: the opening quote only *)
Lemma unbalanced_quote_stops : fst (run_cmdline [([97], true, true)] d32_cl false) = AssertStop a_sub_string.
Proof. vm_compute. reflexivity. Qed.

(* D32, the code before the repair: with the wrapping bound check from + size <= _length (mod 2^64) the same
   unbalanced quote reads outside the 4-byte buffer *)
Lemma parse_wrapping_check_refuted :
  fst (run_cmdline_with (sub_string_with chk_wrapping) [([97], true, true)] d32_cl false) = UB oob.
Proof. lazy. reflexivity. Qed.

(* as_number<T>: the to_number call inside the callback runs on a view handed out by parse_arguments, so it is
   total and in bounds too (C20 for the composition); as_string_view / store_const only assign their target *)
Lemma run_apply_view_to_number tbl cl null_cl t : N.of_nat (length cl) < W64 ->
  forall idx v, In (IApply idx v) (snd (run_cmdline tbl cl null_cl)) ->
  exists r reads, to_number (run_mem tbl cl) t v = (Ok r, reads) /\ Forall (in_mem (run_mem tbl cl)) reads.
Proof.
  intros Hl idx v Hin. pose proof (run_cmdline_safe tbl cl null_cl Hl) as S.
  destruct (run_cmdline tbl cl null_cl) as [[a|w|w|] items]; cbn [snd] in Hin; try contradiction.
  all: rewrite Forall_forall in S; specialize (S _ Hin); cbn [run_item_ok] in S.
  all: assert (Hv : valid_view (run_mem tbl cl) v)
         by (destruct S as [->|(off & len & -> & Hb)]; [exact I|exists cl; split; [reflexivity|exact Hb]]).
  all: destruct (StrNumProofs.to_number_total_safe (run_mem tbl cl) t v Hv) as (r & reads & E & _ & _ & Hm).
  all: exists r, reads; split; assumption.
Qed.

(* a reserved option (null handler) named on the command line stops in option::apply's assertion *)
Lemma null_handler_stops :
  fst (run_cmdline [([100], false, false)] [100] false) = AssertStop a_option_apply /\
  fst (run_cmdline [([99], true, false)] [120; 32; 99; 61; 49; 32; 121] false) = AssertStop a_option_apply /\
  fst (run_cmdline [([99], true, false)] [120; 32; 99; 32; 121] false) = Ok tt.
Proof. vm_compute. repeat split; reflexivity. Qed.
