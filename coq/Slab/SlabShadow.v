(* C03_poison_protocol (b), (c): the shadow-vs-state invariant.
   The shadow is the fold of the poison calls of the log over an all-poisoned memory (SlabPoison.v).  Invariant [Sh]:
   requested bytes of live blocks and all frame headers are unpoisoned, a free object is unpoisoned exactly on its link
   word, nothing outside the mapped regions is unpoisoned.  [acc_ok] walks the log and demands every pool access to hit
   unpoisoned bytes at the time of the access. *)
From Coq Require Import List NArith Bool Lia ZifyBool ZifyNat ZifyN.
From FV Require Import Slab.SlabModel Slab.SlabArith Slab.SlabBasics Slab.SlabFail Slab.SlabInv
  Slab.SlabInvAlloc Slab.SlabInvFree Slab.SlabInvStep Slab.SlabC01 Slab.SlabLog Slab.SlabPoison.
Import ListNotations.
Local Open Scope N_scope.

(* ---------- generic shadow facts ---------- *)
Definition touches (cb : callback) (x : N) : bool :=
  match cb with
  | CPoison a n | CUnpoison a n | CUnpoisonExpand a n | CUnmap a n => in_range a n x
  | _ => false
  end.

Lemma sh_fold_outside l : forall sh x, (forall cb, In cb l -> touches cb x = false) -> sh_fold sh l x = sh x.
Proof.
  induction l as [|cb t IH]; intros sh x H; [reflexivity|]. cbn [sh_fold fold_left].
  change (fold_left apply_cb t (apply_cb sh cb) x) with (sh_fold (apply_cb sh cb) t x).
  rewrite IH by (intros cb' Hc; apply H; right; assumption).
  specialize (H cb (or_introl eq_refl)). destruct cb; cbn in *; auto; unfold sh_set; rewrite H; reflexivity.
Qed.

Lemma in_range_false_of_disjoint a n t sz x :
  disjoint a n t sz -> in_range a n x = true -> in_range t sz x = false.
Proof.
  intros D H. apply in_range_spec in H. destruct (in_range t sz x) eqn:E; [|reflexivity].
  apply in_range_spec in E. unfold disjoint in D. lia.
Qed.

Lemma in_range_sub a n b m x : b <= a -> a + n <= b + m -> in_range a n x = true -> in_range b m x = true.
Proof. intros H1 H2 H. apply in_range_spec in H. apply in_range_spec. lia. Qed.

(* every pool access hits unpoisoned bytes at the time it is made *)
Fixpoint acc_ok (sh : shadow) (l : list callback) : Prop :=
  match l with
  | [] => True
  | cb :: t =>
    match cb with CAccess _ a n => forall x, in_range a n x = true -> sh x = true | _ => True end
    /\ acc_ok (apply_cb sh cb) t
  end.

Lemma acc_ok_app l1 : forall sh l2, acc_ok sh (l1 ++ l2) <-> acc_ok sh l1 /\ acc_ok (sh_fold sh l1) l2.
Proof.
  induction l1 as [|cb t IH]; intros sh l2; cbn [app acc_ok sh_fold fold_left]; [tauto|].
  change (fold_left apply_cb t (apply_cb sh cb)) with (sh_fold (apply_cb sh cb) t). rewrite IH. tauto.
Qed.

Lemma acc_ok_carve c up : forall sh, poison c = true ->
  acc_ok sh (flat_map (fun o => pcb c [CUnpoison o 8] ++ [CAccess true o 8]) up).
Proof.
  induction up as [|o r IH]; intros sh Hpo; [exact Logic.I|]. cbn [flat_map]. unfold pcb at 1. rewrite Hpo.
  cbn [app acc_ok apply_cb]. split; [exact Logic.I|]. split.
  - intros x Hx. unfold sh_set. rewrite Hx. reflexivity.
  - apply IH. assumption.
Qed.

(* after carving, the link word of every carved object is unpoisoned and nothing else changed *)
Lemma fold_carve c up : forall sh x, poison c = true ->
  sh_fold sh (flat_map (fun o => pcb c [CUnpoison o 8] ++ [CAccess true o 8]) up) x
  = if existsb (fun o => in_range o 8 x) up then true else sh x.
Proof.
  induction up as [|o r IH]; intros sh x Hpo; [reflexivity|]. cbn [flat_map existsb]. unfold pcb at 1. rewrite Hpo.
  cbn [app]. unfold sh_fold. cbn [fold_left apply_cb]. fold (sh_fold (sh_set sh o 8 true)
    (flat_map (fun o0 => pcb c [CUnpoison o0 8] ++ [CAccess true o0 8]) r)).
  rewrite IH by assumption. unfold sh_set. destruct (in_range o 8 x); cbn; [destruct (existsb _ r); reflexivity|reflexivity].
Qed.

(* ---------- cells: the extents of live blocks and free objects ---------- *)
Definition is_cell (c : cfg) (s : state) (t sz : N) : Prop :=
  (exists y, In y (slabs s) /\ obj_of c y t /\ sz = sl_item y)
  \/ (exists y, In y (larges s) /\ t = lg_addr c y /\ sz = lg_len y).

Section Cells.
Variable c : cfg.
Hypothesis F : cfg_facts c.
Variables (k : N) (s : state).
Hypothesis I : Inv c k s.

Lemma cell_extent t sz : is_cell c s t sz ->
  exists f rg, In (f, rg) (frames s) /\ fst rg <= t /\ t + sz <= fst rg + snd rg /\ 0 < sz /\
    ((exists y, In y (slabs s) /\ sl_frame y = f /\ obj_of c y t /\ sz = sl_item y)
     \/ (exists y, In y (larges s) /\ lg_frame y = f /\ t = lg_addr c y /\ sz = lg_len y)).
Proof.
  intros [(y & Hy & O & ->)| (y & Hy & -> & ->)].
  - exists (sl_frame y), (sl_region y). split; [apply in_frames_slab; assumption|].
    pose proof (obj_in_region c F _ _ y _ (I_slab _ _ _ I y Hy) O) as (B1 & B2 & B3). cbn.
    pose proof (b2s_pos (sl_idx y)). unfold sl_item in *.
    split; [lia|]. split; [lia|]. split; [lia|]. left. exists y. auto.
  - exists (lg_frame y), (lg_region y). split; [apply in_frames_large; assumption|].
    pose proof (I_large _ _ _ I y Hy) as L. pose proof (lo_lo _ _ L). pose proof (lo_hi _ _ L). pose proof (lo_len _ _ L).
    cbn. unfold lg_addr. split; [lia|]. split; [lia|]. split; [lia|]. right. exists y. auto.
Qed.

Lemma cells_apart t1 sz1 t2 sz2 : is_cell c s t1 sz1 -> is_cell c s t2 sz2 -> t1 <> t2 -> disjoint t1 sz1 t2 sz2.
Proof.
  intros H1 H2 Hne.
  destruct (cell_extent t1 sz1 H1) as (f1 & r1 & Hf1 & A1 & A2 & _ & K1).
  destruct (cell_extent t2 sz2 H2) as (f2 & r2 & Hf2 & B1 & B2 & _ & K2).
  destruct (N.eq_dec f1 f2) as [<- |Hf]; [|exact (frames_apart c k s I f1 r1 f2 r2 _ _ _ _ Hf1 Hf2 Hf A1 A2 B1 B2)].
  destruct K1 as [(x1 & Hx1 & E1 & O1 & Z1)| (x1 & Hx1 & E1 & P1 & Z1)],
           K2 as [(x2 & Hx2 & E2 & O2 & Z2)| (x2 & Hx2 & E2 & P2 & Z2)].
  - assert (x1 = x2) by (apply (slab_by_frame c k s I); congruence). subst x2.
    rewrite Z1, Z2. apply (objs_apart c x1); assumption.
  - exfalso. apply (slab_large_frames c k s I x1 x2 Hx1 Hx2). congruence.
  - exfalso. apply (slab_large_frames c k s I x2 x1 Hx2 Hx1). congruence.
  - assert (x1 = x2) by (apply (large_by_frame c k s I); congruence). subst x2. congruence.
Qed.

Lemma cell_vs_slab_hdr t sz y : is_cell c s t sz -> In y (slabs s) -> disjoint t sz (sl_frame y) (hdr_slab c).
Proof.
  intros Hc Hy. destruct (cell_extent t sz Hc) as (f & rg & Hf & A1 & A2 & _ & K).
  pose proof (I_slab _ _ _ I y Hy) as S. pose proof (so_lo _ _ _ _ S). pose proof (so_hi _ _ _ _ S).
  pose proof (overhead_spec c (b2s (sl_idx y)) (b2s_pos _)) as (O1 & _).
  pose proof (overhead_lt_slabsz c (sl_idx y) F (so_idx _ _ _ _ S)).
  destruct (N.eq_dec f (sl_frame y)) as [-> |Hne].
  - destruct K as [(x1 & Hx1 & E1 & O & Z)| (x1 & Hx1 & E1 & _)].
    + assert (x1 = y) by (apply (slab_by_frame c k s I); congruence). subst x1.
      pose proof (obj_in_region c F _ _ y _ S O) as (_ & _ & B3). right. lia.
    + exfalso. apply (slab_large_frames c k s I y x1 Hy Hx1). congruence.
  - eapply (frames_apart c k s I); [exact Hf|apply (in_frames_slab s y Hy)|exact Hne|auto|auto|cbn; lia|cbn; lia].
Qed.

Lemma cell_vs_large_hdr t sz y : is_cell c s t sz -> In y (larges s) -> disjoint t sz (lg_frame y) (hdr_frame c).
Proof.
  intros Hc Hy. destruct (cell_extent t sz Hc) as (f & rg & Hf & A1 & A2 & _ & K).
  pose proof (I_large _ _ _ I y Hy) as L. pose proof (lo_lo _ _ L). pose proof (lo_hi _ _ L). pose proof (cf_hdrf_page c F).
  destruct (N.eq_dec f (lg_frame y)) as [-> |Hne].
  - destruct K as [(x1 & Hx1 & E1 & _)| (x1 & Hx1 & E1 & P & Z)].
    + exfalso. apply (slab_large_frames c k s I x1 y Hx1 Hy). congruence.
    + assert (x1 = y) by (apply (large_by_frame c k s I); congruence). subst x1. right. rewrite P. unfold lg_addr. lia.
  - eapply (frames_apart c k s I); [exact Hf|apply (in_frames_large s y Hy)|exact Hne|auto|auto|cbn; lia|cbn; lia].
Qed.

Lemma cell_in_mapped t sz : is_cell c s t sz ->
  exists rg, In rg (mapped s) /\ fst rg <= t /\ t + sz <= fst rg + snd rg.
Proof.
  intros Hc. destruct (cell_extent t sz Hc) as (f & rg & Hf & A1 & A2 & _).
  exists rg. split; [apply (mapped_frames s); eauto|auto].
Qed.

Lemma live_is_cell b : In b (live s) -> is_cell c s (bk_p b) (bk_size0 b) /\ N.max (bk_req b) 1 <= bk_size0 b.
Proof.
  intros Hb. destruct (I_live _ _ _ I b Hb) as [(y & Hy & O & Z & R)| (y & Hy & E & Z & R)].
  - split; [left; exists y; auto|lia].
  - split; [right; exists y; auto|lia].
Qed.

Lemma avail_is_cell y o : In y (slabs s) -> In o (sl_avail y) -> is_cell c s o (sl_item y).
Proof. intros Hy Ho. left. exists y. split; [assumption|]. split; [apply (so_avail _ _ _ _ (I_slab _ _ _ I y Hy) o Ho)|reflexivity]. Qed.

End Cells.

(* ---------- the shadow invariant ---------- *)
Record Sh (c : cfg) (s : state) (sh : shadow) : Prop := {
  S_live : forall b x, In b (live s) -> in_range (bk_p b) (N.max (bk_req b) 1) x = true -> sh x = true;
  S_hs : forall y x, In y (slabs s) -> in_range (sl_frame y) (hdr_slab c) x = true -> sh x = true;
  S_hl : forall y x, In y (larges s) -> in_range (lg_frame y) (hdr_frame c) x = true -> sh x = true;
  S_free : forall y o x, In y (slabs s) -> In o (sl_avail y) -> in_range o (sl_item y) x = true -> sh x = in_range o 8 x;
  S_out : forall x, (forall rg, In rg (mapped s) -> in_range (fst rg) (snd rg) x = false) -> sh x = false
}.

(* what stays as it was when a list of calls only touches the range [t, t+sz) *)
Section Untouched.
Variable c : cfg.
Hypothesis F : cfg_facts c.
Variables (k : N) (s : state).
Hypothesis I : Inv c k s.
Variables (sh : shadow) (l : list callback) (t sz : N).
Hypothesis H : Sh c s sh.
Hypothesis HT : forall cb x, In cb l -> touches cb x = true -> in_range t sz x = true.

Lemma untouched x : in_range t sz x = false -> sh_fold sh l x = sh x.
Proof.
  intros Hx. apply sh_fold_outside. intros cb Hcb. destruct (touches cb x) eqn:E; [|reflexivity].
  rewrite (HT cb x Hcb E) in Hx. discriminate.
Qed.

Hypothesis Hcell : is_cell c s t sz.

Lemma keep_live b x : In b (live s) -> bk_p b <> t -> in_range (bk_p b) (N.max (bk_req b) 1) x = true -> sh_fold sh l x = true.
Proof.
  intros Hb Hne Hx. destruct (live_is_cell c k s I b Hb) as [Cb R].
  rewrite untouched; [apply (S_live _ _ _ H b x Hb Hx)|].
  apply (in_range_false_of_disjoint (bk_p b) (bk_size0 b)); [apply (cells_apart c F k s I); assumption|].
  apply (in_range_sub (bk_p b) (N.max (bk_req b) 1) (bk_p b) (bk_size0 b) x); [lia|lia|exact Hx].
Qed.

Lemma keep_hs y x : In y (slabs s) -> in_range (sl_frame y) (hdr_slab c) x = true -> sh_fold sh l x = true.
Proof.
  intros Hy Hx. rewrite untouched; [apply (S_hs _ _ _ H y x Hy Hx)|].
  pose proof (cell_vs_slab_hdr c F k s I t sz y Hcell Hy) as D.
  apply (in_range_false_of_disjoint (sl_frame y) (hdr_slab c)); [unfold disjoint in *; lia|assumption].
Qed.

Lemma keep_hl y x : In y (larges s) -> in_range (lg_frame y) (hdr_frame c) x = true -> sh_fold sh l x = true.
Proof.
  intros Hy Hx. rewrite untouched; [apply (S_hl _ _ _ H y x Hy Hx)|].
  pose proof (cell_vs_large_hdr c F k s I t sz y Hcell Hy) as D.
  apply (in_range_false_of_disjoint (lg_frame y) (hdr_frame c)); [unfold disjoint in *; lia|assumption].
Qed.

Lemma keep_free y o x : In y (slabs s) -> In o (sl_avail y) -> o <> t -> in_range o (sl_item y) x = true ->
  sh_fold sh l x = in_range o 8 x.
Proof.
  intros Hy Ho Hne Hx. rewrite untouched; [apply (S_free _ _ _ H y o x Hy Ho Hx)|].
  apply (in_range_false_of_disjoint o (sl_item y)); [|assumption].
  apply (cells_apart c F k s I); [apply (avail_is_cell c k s I y o Hy Ho)|assumption|assumption].
Qed.

Lemma keep_out x : (forall rg, In rg (mapped s) -> in_range (fst rg) (snd rg) x = false) -> sh_fold sh l x = false.
Proof.
  intros Hx. rewrite untouched; [apply (S_out _ _ _ H x Hx)|].
  destruct (cell_in_mapped c F k s I t sz Hcell) as (rg & Hrg & A1 & A2).
  specialize (Hx rg Hrg). destruct (in_range t sz x) eqn:E; [|reflexivity].
  apply in_range_spec in E. assert (in_range (fst rg) (snd rg) x = true) by (apply in_range_spec; lia). congruence.
Qed.

End Untouched.

Definition step_shadow_ok (c : cfg) (sh : shadow) (x : state * result * list callback) : Prop :=
  acc_ok sh (cbs_of x) /\ Sh c (st_of x) (sh_fold sh (cbs_of x)).

Lemma mapped_pop_state s idx h x av b :
  (forall z, In z (slabs s) -> sl_frame z = h -> sl_region (set_avail x av (wrap32 (sl_nres x + 1))) = sl_region z) ->
  mapped (pop_state s idx h x av b) = mapped s.
Proof. intros Hz. unfold mapped, pop_state. cbn [slabs larges]. rewrite map_upd_slab_const; auto. Qed.

Section PopShadow.
Variable c : cfg.
Hypothesis F : cfg_facts c.
Hypothesis Hpo : poison c = true.
Variables (k : N) (s : state).
Hypothesis I : Inv c k s.
Variable sh : shadow.
Hypothesis H : Sh c s sh.

Lemma pop_shadow idx h t n' nreq e : idx < nbuckets c -> bucket s idx = h :: t -> N.max nreq 1 = n' -> n' <= b2s idx ->
  step_shadow_ok c sh (alloc_small c s n' nreq idx e).
Proof.
  intros Hidx Hb Hn Hfit.
  destruct (alloc_small_pop c F k s I idx h t Hidx Hb n' nreq e) as (x & o & av & Hx & Hf & Hi & Ha & Hst & _).
  pose proof (find_slab_in h (slabs s) x (slab_frames_nodup c k s I) Hx Hf) as Hfind.
  pose proof (I_slab _ _ _ I x Hx) as Sx.
  assert (Hoa : In o (sl_avail x)) by (rewrite Ha; left; reflexivity).
  destruct (so_avail _ _ _ _ Sx o Hoa) as [Oo Onl].
  assert (Hcbs : cbs_of (alloc_small c s n' nreq idx e) =
                 [CAccess false h (hdr_slab c); CAccess false o 8; CAccess true h (hdr_slab c); CPoison o 8; CUnpoison o n']).
  { unfold alloc_small. rewrite Hb. unfold pop_head. rewrite Hfind, Ha.
    rewrite (obj_contains c F _ _ x o Sx Oo). cbn [negb]. unfold hand_out, cbs_of. cbn [snd]. unfold pcb. rewrite Hpo. reflexivity. }
  assert (Hitem : sl_item x = b2s idx) by (unfold sl_item; rewrite Hi; reflexivity).
  pose proof (b2s_ge8 idx) as I8.
  assert (Hcell : is_cell c s o (sl_item x)) by (apply (avail_is_cell c k s I x o Hx Hoa)).
  unfold step_shadow_ok. rewrite Hcbs, Hst.
  set (l := [CAccess false h (hdr_slab c); CAccess false o 8; CAccess true h (hdr_slab c); CPoison o 8; CUnpoison o n']).
  assert (HT : forall cb y, In cb l -> touches cb y = true -> in_range o (sl_item x) y = true).
  { intros cb y [<- |[<- |[<- |[<- |[<- |[]]]]]] Ht; cbn in Ht; try discriminate;
      apply in_range_spec in Ht; apply in_range_spec; lia. }
  split.
  - (* accesses: the header of the head slab, the link word of its first free object *)
    unfold l. cbn [acc_ok apply_cb]. repeat split.
    + intros y Hy. rewrite <- Hf in Hy. apply (S_hs _ _ _ H x y Hx Hy).
    + intros y Hy. rewrite (S_free _ _ _ H x o y Hx Hoa); [assumption|].
      apply in_range_spec in Hy. apply in_range_spec. lia.
    + intros y Hy. rewrite <- Hf in Hy. apply (S_hs _ _ _ H x y Hx Hy).
  - pose proof (slab_frames_nodup c k s I) as Hnd.
    set (x' := set_avail x av (wrap32 (sl_nres x + 1))).
    assert (Hin : forall y, In y (upd_slab h (fun _ => x') (slabs s)) <-> (In y (slabs s) /\ sl_frame y <> h) \/ y = x').
    { intros y. apply (in_upd_slab_const h x x' (slabs s) y Hnd Hx Hf). }
    constructor.
    + intros b y [<- |Hb']; cbn [bk_p bk_req].
      * intros Hy. rewrite Hn in Hy.
        change l with ([CAccess false h (hdr_slab c); CAccess false o 8; CAccess true h (hdr_slab c); CPoison o 8] ++ [CUnpoison o n']).
        apply sh_fold_unpoison_last. assumption.
      * intros Hy. apply (keep_live c F k s I sh l o (sl_item x) H HT Hcell b y Hb'); [|assumption].
        intros E. apply Onl. rewrite <- E. apply in_map. assumption.
    + intros y z Hy Hz. unfold pop_state in Hy. cbn [slabs] in Hy. apply Hin in Hy.
      destruct Hy as [[Hy _]| ->]; [apply (keep_hs c F k s I sh l o (sl_item x) H HT Hcell y z Hy Hz)|].
      apply (keep_hs c F k s I sh l o (sl_item x) H HT Hcell x z Hx Hz).
    + intros y z Hy Hz. apply (keep_hl c F k s I sh l o (sl_item x) H HT Hcell y z Hy Hz).
    + intros y o2 z Hy Ho2 Hz. unfold pop_state in Hy. cbn [slabs] in Hy. apply Hin in Hy.
      destruct Hy as [[Hy Hne]| ->].
      * apply (keep_free c F k s I sh l o (sl_item x) H HT Hcell y o2 z Hy Ho2); [|assumption].
        intros ->. pose proof (I_slab _ _ _ I y Hy) as Sy. destruct (so_avail _ _ _ _ Sy o Ho2) as [Oy _].
        pose proof (obj_frame c F _ _ y o Sy Oy) as E1. pose proof (obj_frame c F _ _ x o Sx Oo) as E2. congruence.
      * cbn [sl_avail x' set_avail] in Ho2. change (sl_item x') with (sl_item x) in Hz.
        assert (Ho2' : In o2 (sl_avail x)) by (rewrite Ha; right; assumption).
        apply (keep_free c F k s I sh l o (sl_item x) H HT Hcell x o2 z Hx Ho2'); [|assumption].
        intros ->. pose proof (so_nodup _ _ _ _ Sx) as Nd. rewrite Ha in Nd. inversion Nd; contradiction.
    + intros z Hz. apply (keep_out c F k s I sh l o (sl_item x) H HT Hcell z).
      rewrite mapped_pop_state in Hz; [exact Hz|].
      intros z0 Hz0 Hzf. rewrite (slab_by_frame c k s I z0 x Hz0 Hx) by congruence. reflexivity.
Qed.

End PopShadow.

(* ---------- free of a small block ---------- *)
Section FreeSmallShadow.
Variable c : cfg.
Hypothesis F : cfg_facts c.
Hypothesis Hpo : poison c = true.
Variables (k : N) (s : state).
Hypothesis I : Inv c k s.
Variable sh : shadow.
Hypothesis H : Sh c s sh.
Variables (x : slab) (p : N) (b : blk).
Hypothesis Hx : In x (slabs s).
Hypothesis Hb : In b (live s).
Hypothesis Hbp : bk_p b = p.
Hypothesis Ho : obj_of c x p.

Lemma free_small_cbs :
  cbs_of (free_small c s x p) =
  [CUnpoisonExpand p (sl_item x); CPoison p (sl_item x); CUnpoison p 8; CAccess true p 8; CAccess true (sl_frame x) (hdr_slab c)].
Proof.
  pose proof (I_slab _ _ _ I x Hx) as S.
  unfold free_small. rewrite (obj_contains c F _ _ x p S Ho). cbn [negb].
  rewrite (find_blk_in p (live s) b (I_live_nodup _ _ _ I) Hb Hbp).
  assert (E : (sl_nres x =? 0) = false) by (apply N.eqb_neq; pose proof (nres_pos c k s I x p b Hx Hb Hbp Ho); lia).
  rewrite E.
  assert (E2 : match sl_avail x with [] => false | a :: _ => negb (sl_contains c x a) end = false).
  { destruct (sl_avail x) as [|a r] eqn:Ea; [reflexivity|].
    rewrite (obj_contains c F _ _ x a S); [reflexivity|]. apply (so_avail _ _ _ _ S). rewrite Ea. left. reflexivity. }
  rewrite E2. unfold cbs_of. cbn [snd]. unfold pcb. rewrite Hpo. reflexivity.
Qed.

Lemma free_small_shadow :
  let l := CAccess false (sl_frame x) (hdr_slab c) :: cbs_of (free_small c s x p) in
  acc_ok sh l /\ Sh c (free_small_state s x p) (sh_fold sh l).
Proof.
  rewrite free_small_cbs. cbv zeta.
  set (l := [CAccess false (sl_frame x) (hdr_slab c); CUnpoisonExpand p (sl_item x); CPoison p (sl_item x); CUnpoison p 8;
             CAccess true p 8; CAccess true (sl_frame x) (hdr_slab c)]).
  pose proof (I_slab _ _ _ I x Hx) as Sx.
  pose proof (b2s_ge8 (sl_idx x)) as I8. fold (sl_item x) in I8.
  assert (Hcell : is_cell c s p (sl_item x)) by (left; exists x; auto).
  assert (HT : forall cb y, In cb l -> touches cb y = true -> in_range p (sl_item x) y = true).
  { intros cb y [<- |[<- |[<- |[<- |[<- |[<- |[]]]]]]] Ht; cbn in Ht; try discriminate; try assumption.
    apply in_range_spec in Ht. apply in_range_spec. lia. }
  (* the value of the final shadow inside and outside the freed object *)
  assert (Hval : forall y, sh_fold sh l y = if in_range p (sl_item x) y then in_range p 8 y else sh y).
  { intros y. unfold l, sh_fold. cbn [fold_left apply_cb]. unfold sh_set.
    destruct (in_range p 8 y) eqn:E8.
    - assert (in_range p (sl_item x) y = true) as -> by (apply in_range_spec in E8; apply in_range_spec; lia). reflexivity.
    - destruct (in_range p (sl_item x) y); reflexivity. }
  assert (Hhdr : forall y, in_range (sl_frame x) (hdr_slab c) y = true -> in_range p (sl_item x) y = false).
  { intros y Hy. pose proof (cell_vs_slab_hdr c F k s I p (sl_item x) x Hcell Hx) as D.
    apply (in_range_false_of_disjoint (sl_frame x) (hdr_slab c)); [unfold disjoint in *; lia|assumption]. }
  assert (Hpl : In p (live_ptrs s)) by (rewrite <- Hbp; apply in_map; assumption).
  assert (Hp_not_avail : forall y, In y (slabs s) -> ~ In p (sl_avail y)).
  { intros y Hy Hin. destruct (so_avail _ _ _ _ (I_slab _ _ _ I y Hy) p Hin) as [_ Hn]. contradiction. }
  split.
  - unfold l. cbn [acc_ok apply_cb]. repeat split.
    + intros y Hy. apply (S_hs _ _ _ H x y Hx Hy).
    + intros y Hy. unfold sh_set. rewrite Hy. reflexivity.
    + intros y Hy. unfold sh_set. pose proof (Hhdr y Hy) as E.
      assert (E8 : in_range p 8 y = false).
      { destruct (in_range p 8 y) eqn:Q; [|reflexivity]. apply in_range_spec in Q.
        assert (in_range p (sl_item x) y = true) by (apply in_range_spec; lia). congruence. }
      rewrite E8, E. apply (S_hs _ _ _ H x y Hx Hy).
  - pose proof (slab_frames_nodup c k s I) as Hnd.
    set (x' := set_avail x (p :: sl_avail x) (sl_nres x - 1)).
    assert (Hin : forall y, In y (upd_slab (sl_frame x) (fun _ => x') (slabs s)) <->
                            (In y (slabs s) /\ sl_frame y <> sl_frame x) \/ y = x').
    { intros y. apply (in_upd_slab_const (sl_frame x) x x' (slabs s) y Hnd Hx eq_refl). }
    constructor; unfold free_small_state; cbn [slabs larges live].
    + intros b' y Hb' Hy. pose proof (remove_blk_notin p (live s) (I_live_nodup _ _ _ I) b' Hb') as Hne.
      apply in_remove_blk in Hb'. apply (keep_live c F k s I sh l p (sl_item x) H HT Hcell b' y Hb' Hne Hy).
    + intros y z Hy Hz. apply Hin in Hy. destruct Hy as [[Hy _]| ->].
      * apply (keep_hs c F k s I sh l p (sl_item x) H HT Hcell y z Hy Hz).
      * apply (keep_hs c F k s I sh l p (sl_item x) H HT Hcell x z Hx Hz).
    + intros y z Hy Hz. apply (keep_hl c F k s I sh l p (sl_item x) H HT Hcell y z Hy Hz).
    + intros y o2 z Hy Ho2 Hz. apply Hin in Hy. destruct Hy as [[Hy Hne]| ->].
      * apply (keep_free c F k s I sh l p (sl_item x) H HT Hcell y o2 z Hy Ho2); [|assumption].
        intros ->. apply (Hp_not_avail y Hy Ho2).
      * change (sl_item x') with (sl_item x) in Hz. cbn [sl_avail x' set_avail] in Ho2. destruct Ho2 as [<- |Ho2].
        -- rewrite Hval, Hz. reflexivity.
        -- apply (keep_free c F k s I sh l p (sl_item x) H HT Hcell x o2 z Hx Ho2); [|assumption].
           intros ->. apply (Hp_not_avail x Hx Ho2).
    + intros z Hz. apply (keep_out c F k s I sh l p (sl_item x) H HT Hcell z).
      intros rg Hrg. apply Hz. unfold mapped in *. cbn [slabs larges].
      rewrite map_upd_slab_const; [exact Hrg|].
      intros z0 Hz0 Hzf. rewrite (slab_by_frame c k s I z0 x Hz0 Hx) by congruence. reflexivity.
Qed.

End FreeSmallShadow.

(* ---------- calls that only touch a freshly mapped region ---------- *)
Section FreshRegion.
Variable c : cfg.
Hypothesis F : cfg_facts c.
Variables (k : N) (s : state).
Hypothesis I : Inv c k s.
Variables (sh : shadow) (l : list callback) (r len : N).
Hypothesis H : Sh c s sh.
Hypothesis Hfr : fresh_region s r len.
Hypothesis HT : forall cb x, In cb l -> touches cb x = true -> in_range r len x = true.

Lemma untouchedR x : in_range r len x = false -> sh_fold sh l x = sh x.
Proof.
  intros Hx. apply sh_fold_outside. intros cb Hcb. destruct (touches cb x) eqn:E; [|reflexivity].
  rewrite (HT cb x Hcb E) in Hx. discriminate.
Qed.

Lemma mapped_not_fresh rg a n x : In rg (mapped s) -> fst rg <= a -> a + n <= fst rg + snd rg ->
  in_range a n x = true -> in_range r len x = false.
Proof.
  intros Hrg A1 A2 Hx. destruct Hfr as (_ & _ & D). specialize (D rg Hrg). apply rdisj_spec in D. cbn in D.
  apply in_range_spec in Hx. destruct (in_range r len x) eqn:E; [|reflexivity]. apply in_range_spec in E. lia.
Qed.

Lemma keepR_live b x : In b (live s) -> in_range (bk_p b) (N.max (bk_req b) 1) x = true -> sh_fold sh l x = true.
Proof.
  intros Hb Hx. destruct (live_is_cell c k s I b Hb) as [Cb R].
  destruct (cell_in_mapped c F k s I _ _ Cb) as (rg & Hrg & A1 & A2).
  rewrite untouchedR; [apply (S_live _ _ _ H b x Hb Hx)|].
  apply (mapped_not_fresh rg (bk_p b) (N.max (bk_req b) 1) x Hrg); [lia|lia|assumption].
Qed.

Lemma keepR_hs y x : In y (slabs s) -> in_range (sl_frame y) (hdr_slab c) x = true -> sh_fold sh l x = true.
Proof.
  intros Hy Hx. rewrite untouchedR; [apply (S_hs _ _ _ H y x Hy Hx)|].
  pose proof (I_slab _ _ _ I y Hy) as S. pose proof (so_lo _ _ _ _ S). pose proof (so_hi _ _ _ _ S).
  pose proof (overhead_spec c (b2s (sl_idx y)) (b2s_pos _)) as (O1 & _).
  pose proof (overhead_lt_slabsz c (sl_idx y) F (so_idx _ _ _ _ S)).
  apply (mapped_not_fresh (sl_region y) (sl_frame y) (hdr_slab c) x); [|cbn; lia|cbn; lia|assumption].
  unfold mapped. apply in_or_app. left. apply in_map. assumption.
Qed.

Lemma keepR_hl y x : In y (larges s) -> in_range (lg_frame y) (hdr_frame c) x = true -> sh_fold sh l x = true.
Proof.
  intros Hy Hx. rewrite untouchedR; [apply (S_hl _ _ _ H y x Hy Hx)|].
  pose proof (I_large _ _ _ I y Hy) as L. pose proof (lo_lo _ _ L). pose proof (lo_hi _ _ L). pose proof (cf_hdrf_page c F).
  apply (mapped_not_fresh (lg_region y) (lg_frame y) (hdr_frame c) x); [|cbn; lia|cbn; lia|assumption].
  unfold mapped. apply in_or_app. right. apply in_map. assumption.
Qed.

Lemma keepR_free y o x : In y (slabs s) -> In o (sl_avail y) -> in_range o (sl_item y) x = true ->
  sh_fold sh l x = in_range o 8 x.
Proof.
  intros Hy Ho Hx. rewrite untouchedR; [apply (S_free _ _ _ H y o x Hy Ho Hx)|].
  destruct (cell_in_mapped c F k s I _ _ (avail_is_cell c k s I y o Hy Ho)) as (rg & Hrg & A1 & A2).
  apply (mapped_not_fresh rg o (sl_item y) x Hrg); assumption.
Qed.

Lemma keepR_out x : (forall rg, In rg (mapped s) -> in_range (fst rg) (snd rg) x = false) -> in_range r len x = false ->
  sh_fold sh l x = false.
Proof. intros Hx Hr. rewrite untouchedR by assumption. apply (S_out _ _ _ H x Hx). Qed.

(* inside the fresh region everything is still poisoned before the calls *)
Lemma fresh_poisoned x : in_range r len x = true -> sh x = false.
Proof.
  intros Hx. apply (S_out _ _ _ H). intros rg Hrg. destruct Hfr as (_ & _ & D). specialize (D rg Hrg). apply rdisj_spec in D. cbn in D.
  apply in_range_spec in Hx. destruct (in_range (fst rg) (snd rg) x) eqn:E; [|reflexivity]. apply in_range_spec in E. lia.
Qed.

End FreshRegion.

(* ---------- a large frame ---------- *)
Section LargeShadow.
Variable c : cfg.
Hypothesis F : cfg_facts c.
Hypothesis Hpo : poison c = true.
Variables (k : N) (s : state).
Hypothesis I : Inv c k s.
Variable sh : shadow.
Hypothesis H : Sh c s sh.

Lemma large_shadow n' nreq e : N.max nreq 1 = n' -> env_ret e <> 0 ->
  fresh_region s (env_ret e) (large_map_len c (align_up n' (page c))) -> (aligned c = true -> env_ret e mod sb c = 0) ->
  step_shadow_ok c sh (alloc_large c s n' nreq e).
Proof.
  intros Hn Hr Hfr Hal. destruct (alloc_large_ok c s n' nreq (env_ret e) e eq_refl Hr) as [Hst _].
  set (r := env_ret e) in *. set (fr := lfr c r). set (ar := area c n').
  assert (Hcbs : cbs_of (alloc_large c s n' nreq e) =
                 [map_call c (large_map_len c ar) e; CUnpoison fr (hdr_frame c); CUnpoison (fr + page c) ar; CAccess true fr (hdr_frame c)]).
  { unfold alloc_large. fold r. pose proof Hr as Hr'. apply N.eqb_neq in Hr'. rewrite Hr'. unfold cbs_of. cbn [snd].
    unfold pcb. rewrite Hpo. reflexivity. }
  destruct (lfr_spec c F n' nreq r (eq_sym Hn) Hal) as (A & B & C). fold fr ar in A, B.
  destruct (area_spec c F n') as [A1 _]. fold ar in A1.
  pose proof (cf_hdrf_page c F) as Hhp. pose proof (page_pos c F) as Pp.
  unfold step_shadow_ok. rewrite Hcbs, Hst.
  set (l := [map_call c (large_map_len c ar) e; CUnpoison fr (hdr_frame c); CUnpoison (fr + page c) ar; CAccess true fr (hdr_frame c)]).
  fold ar in Hfr.
  assert (HT : forall cb y, In cb l -> touches cb y = true -> in_range r (large_map_len c ar) y = true).
  { intros cb y [<- |[<- |[<- |[<- |[]]]]] Ht; cbn in Ht; try discriminate; apply in_range_spec in Ht; apply in_range_spec; lia. }
  assert (Hval : forall y, sh_fold sh l y =
                           if in_range (fr + page c) ar y then true else if in_range fr (hdr_frame c) y then true else sh y).
  { intros y. unfold l, sh_fold, map_call. cbn [fold_left apply_cb]. unfold sh_set. reflexivity. }
  split.
  - unfold l, map_call. cbn [acc_ok apply_cb]. repeat split.
    intros y Hy. unfold sh_set. rewrite Hy. destruct (in_range (fr + page c) ar y); reflexivity.
  - constructor; unfold newlarge_state; fold r fr ar; cbn [slabs larges live].
    + intros b y [<- |Hb] Hy; cbn [bk_p bk_req] in *.
      * rewrite Hval. rewrite Hn in Hy.
        assert (in_range (fr + page c) ar y = true) as -> by (apply in_range_spec in Hy; apply in_range_spec; lia). reflexivity.
      * apply (keepR_live c F k s I sh l r _ H Hfr HT b y Hb Hy).
    + intros y z Hy Hz. apply (keepR_hs c F k s I sh l r _ H Hfr HT y z Hy Hz).
    + intros y z [<- |Hy] Hz; cbn [lg_frame] in *.
      * rewrite Hval, Hz. destruct (in_range (fr + page c) ar z); reflexivity.
      * apply (keepR_hl c F k s I sh l r _ H Hfr HT y z Hy Hz).
    + intros y o z Hy Ho Hz. apply (keepR_free c F k s I sh l r _ H Hfr HT y o z Hy Ho Hz).
    + intros z Hz. apply (keepR_out c s sh l r (large_map_len c ar) H HT z).
      * intros rg Hrg. apply Hz. unfold mapped in *. cbn [slabs larges map]. apply in_app_iff in Hrg. apply in_or_app.
        destruct Hrg; [left; assumption|right; right; assumption].
      * specialize (Hz (r, large_map_len c ar)). apply Hz. unfold mapped. cbn [slabs larges map lg_region lg_base lg_res].
        apply in_or_app. right. left. reflexivity.
Qed.

End LargeShadow.

(* ---------- a new slab ---------- *)
Lemma link_exact c y up o2 z : 8 <= sl_item y ->
  (forall a, In a up -> obj_of c y a) -> In o2 up -> in_range o2 (sl_item y) z = true ->
  existsb (fun o3 => in_range o3 8 z) up = in_range o2 8 z.
Proof.
  intros I8 Hobj Ho2 Hz. destruct (in_range o2 8 z) eqn:E.
  - apply existsb_exists. exists o2. auto.
  - destruct (existsb (fun o3 => in_range o3 8 z) up) eqn:Ex; [exfalso|reflexivity].
    apply existsb_exists in Ex. destruct Ex as (o3 & Ho3 & E3).
    destruct (N.eq_dec o3 o2) as [-> |Hne]; [congruence|].
    pose proof (objs_apart c y o3 o2 (Hobj o3 Ho3) (Hobj o2 Ho2) Hne) as D. unfold disjoint in D.
    apply in_range_spec in E3. apply in_range_spec in Hz. lia.
Qed.

Lemma obj_raw_bounds c i a y : cfg_facts c -> sl_idx y = i -> i < nbuckets c -> obj_of c y a ->
  sl_frame y + hdr_slab c <= a /\ a + b2s i <= sl_frame y + slabsz c.
Proof.
  intros F Hi Hidx (j & Hj & ->). unfold sl_addr, sl_item in *. rewrite Hi in *.
  pose proof (b2s_pos i) as Ip.
  pose proof (overhead_spec c (b2s i) Ip) as (O1 & _).
  pose proof (overhead_lt_slabsz c i F Hidx) as Ho.
  pose proof (nobj_spec c (b2s i) Ip) as Nb. unfold payload in Nb.
  assert (M : (j + 1) * b2s i <= nobj c (b2s i) * b2s i) by (apply N.mul_le_mono_r; lia). lia.
Qed.

Section NewSlabShadow.
Variable c : cfg.
Hypothesis F : cfg_facts c.
Hypothesis Hpo : poison c = true.
Variables (k : N) (s : state).
Hypothesis I : Inv c k s.
Variable sh : shadow.
Hypothesis H : Sh c s sh.

Lemma newslab_shadow idx n' nreq e : idx < nbuckets c -> bucket s idx = [] -> N.max nreq 1 = n' -> n' <= b2s idx ->
  env_ret e <> 0 -> fresh_region s (env_ret e) (slab_map_len c) -> (aligned c = true -> env_ret e mod sb c = 0) ->
  step_shadow_ok c sh (alloc_small c s n' nreq idx e).
Proof.
  intros Hidx Hb Hn Hfit Hr Hfr Hal.
  destruct (alloc_small_new c F s idx (env_ret e) Hidx Hb Hal n' nreq e eq_refl Hr) as (o & a2 & av' & Hc & Hst & _).
  set (r := env_ret e) in *. set (fr := frame_of_map c r) in *. set (item := b2s idx) in *.
  set (base := fr + overhead c item) in *. set (up := objs_up base item (N.to_nat (nobj c item))).
  set (len := slab_map_len c) in *.
  set (y0 := mkSlab fr r len idx (carve base item (N.to_nat (nobj c item))) 0).
  set (carvecbs := flat_map (fun o0 => pcb c [CUnpoison o0 8] ++ [CAccess true o0 8]) up).
  set (l1 := map_call c len e :: CUnpoison fr (hdr_slab c) :: CAccess true fr (hdr_slab c) :: carvecbs).
  set (l2 := [CAccess false o 8; CAccess true fr (hdr_slab c); CPoison o 8; CUnpoison o n']).
  assert (Hcbs : cbs_of (alloc_small c s n' nreq idx e) = l1 ++ l2).
  { unfold alloc_small. rewrite Hb. pose proof Hr as Hr'. apply N.eqb_neq in Hr'. unfold r in Hr'. rewrite Hr'.
    pose proof (overhead_lt_slabsz c idx F Hidx) as Ho. apply N.ltb_lt in Ho. rewrite Ho. cbn [negb].
    unfold construct_slab. cbn [sl_avail sl_frame].
    pose proof Hc as Hc'. unfold carve, base, item, fr, r in Hc'. rewrite Hc'. unfold hand_out, cbs_of. cbn [snd].
    unfold pcb at 1 3. rewrite Hpo. unfold l1, l2, carvecbs, up, base, item, fr, r, len. cbn [app]. reflexivity. }
  (* geometry of the new objects *)
  pose proof (fr_spec c F idx r Hidx Hal) as (A & B & _). fold fr len in A, B.
  pose proof (b2s_ge8 idx) as I8. fold item in I8.
  assert (Hup : forall a, In a up <-> In a (o :: a2 :: av')).
  { intros a. rewrite <- Hc. unfold carve. rewrite rev_append_rev, app_nil_r, <- in_rev. reflexivity. }
  assert (Hobj : forall a, In a up -> obj_of c y0 a).
  { intros a Ha. apply Hup in Ha. rewrite <- Hc in Ha. apply (new_objs c F idx r Hidx Hal a Ha). }
  assert (Hbnd : forall a, In a up -> fr + hdr_slab c <= a /\ a + item <= fr + slabsz c).
  { intros a Ha. apply (obj_raw_bounds c idx a y0 F eq_refl Hidx (Hobj a Ha)). }
  assert (Hou : In o up) by (apply Hup; left; reflexivity).
  destruct (Hbnd o Hou) as [Bo1 Bo2].
  pose proof (overhead_spec c item ltac:(lia)) as (O1 & _).
  pose proof (overhead_lt_slabsz c idx F Hidx) as Ovh. fold item in Ovh.
  assert (HT : forall cb z, In cb (l1 ++ l2) -> touches cb z = true -> in_range r len z = true).
  { intros cb z Hin Ht. apply in_app_iff in Hin. destruct Hin as [Hin|Hin].
    - destruct Hin as [<- |[<- |[<- |Hin]]]; cbn in Ht; try discriminate.
      + apply in_range_spec in Ht. apply in_range_spec. lia.
      + unfold carvecbs in Hin. apply in_flat_map in Hin. destruct Hin as (a & Ha & Hin). unfold pcb in Hin. rewrite Hpo in Hin.
        destruct (Hbnd a Ha). destruct Hin as [<- |[<- |[]]]; cbn in Ht; try discriminate.
        apply in_range_spec in Ht. apply in_range_spec. lia.
    - destruct Hin as [<- |[<- |[<- |[<- |[]]]]]; cbn in Ht; try discriminate; apply in_range_spec in Ht; apply in_range_spec; lia. }
  (* the shadow after the carving part, and at the end *)
  assert (Hv1 : forall z, sh_fold sh l1 z =
                          if existsb (fun o3 => in_range o3 8 z) up then true else if in_range fr (hdr_slab c) z then true else sh z).
  { intros z. unfold l1, map_call. unfold sh_fold at 1. cbn [fold_left apply_cb].
    fold (sh_fold (sh_set sh fr (hdr_slab c) true) carvecbs). unfold carvecbs. rewrite fold_carve by assumption. reflexivity. }
  assert (Hv2 : forall z, sh_fold sh (l1 ++ l2) z =
                          if in_range o n' z then true else if in_range o 8 z then false else sh_fold sh l1 z).
  { intros z. rewrite sh_fold_app. unfold l2, sh_fold at 1. cbn [fold_left apply_cb]. unfold sh_set. reflexivity. }
  unfold step_shadow_ok. rewrite Hcbs, Hst. split.
  - apply acc_ok_app. split.
    + unfold l1, map_call. cbn [acc_ok apply_cb]. split; [exact Logic.I|]. split; [exact Logic.I|]. split.
      * intros z Hz. unfold sh_set. rewrite Hz. reflexivity.
      * apply acc_ok_carve. assumption.
    + unfold l2. cbn [acc_ok apply_cb]. repeat split.
      * intros z Hz. rewrite Hv1.
        assert (existsb (fun o3 => in_range o3 8 z) up = true) as -> by (apply existsb_exists; exists o; auto). reflexivity.
      * intros z Hz. rewrite Hv1, Hz. destruct (existsb _ up); reflexivity.
  - set (x' := mkSlab fr r len idx (a2 :: av') 1).
    constructor; unfold newslab_state; fold r fr item len; cbn [slabs larges live].
    + intros b z [<- |Hb0] Hz; cbn [bk_p bk_req] in *.
      * rewrite Hv2. rewrite Hn in Hz. rewrite Hz. reflexivity.
      * apply (keepR_live c F k s I sh (l1 ++ l2) r len H Hfr HT b z Hb0 Hz).
    + intros y z [<- |Hy] Hz; cbn [sl_frame] in *.
      * rewrite Hv2. apply in_range_spec in Hz.
        assert (in_range o n' z = false) as -> by (destruct (in_range o n' z) eqn:E; [apply in_range_spec in E; lia|reflexivity]).
        assert (in_range o 8 z = false) as -> by (destruct (in_range o 8 z) eqn:E; [apply in_range_spec in E; lia|reflexivity]).
        rewrite Hv1. assert (in_range fr (hdr_slab c) z = true) as -> by (apply in_range_spec; lia).
        destruct (existsb _ up); reflexivity.
      * apply (keepR_hs c F k s I sh (l1 ++ l2) r len H Hfr HT y z Hy Hz).
    + intros y z Hy Hz. apply (keepR_hl c F k s I sh (l1 ++ l2) r len H Hfr HT y z Hy Hz).
    + intros y o2 z [<- |Hy] Ho2 Hz.
      * cbn [sl_avail] in Ho2. unfold sl_item in Hz. cbn [sl_idx] in Hz. fold item in Hz.
        assert (Ho2u : In o2 up) by (apply Hup; right; assumption).
        assert (Hne : o2 <> o).
        { intros ->. assert (Nd : NoDup (o :: a2 :: av')) by (rewrite <- Hc; apply NoDup_carve; lia). inversion Nd; contradiction. }
        pose proof (objs_apart c y0 o2 o (Hobj o2 Ho2u) (Hobj o Hou) Hne) as D. unfold disjoint, sl_item, y0 in D. cbn [sl_idx] in D. fold item in D.
        destruct (Hbnd o2 Ho2u) as [B1 B2].
        pose proof Hz as Hz'. apply in_range_spec in Hz'.
        rewrite Hv2.
        assert (in_range o n' z = false) as -> by (destruct (in_range o n' z) eqn:E; [apply in_range_spec in E; lia|reflexivity]).
        assert (in_range o 8 z = false) as -> by (destruct (in_range o 8 z) eqn:E; [apply in_range_spec in E; lia|reflexivity]).
        rewrite Hv1.
        rewrite (link_exact c y0 up o2 z); [|unfold sl_item, y0; cbn [sl_idx]; fold item; lia|exact Hobj|exact Ho2u|unfold sl_item, y0; cbn [sl_idx]; exact Hz].
        destruct (in_range o2 8 z) eqn:E8; [reflexivity|].
        assert (in_range fr (hdr_slab c) z = false) as -> by (destruct (in_range fr (hdr_slab c) z) eqn:E; [apply in_range_spec in E; lia|reflexivity]).
        apply (fresh_poisoned c s sh (l1 ++ l2) r len H Hfr HT z). apply in_range_spec. lia.
      * apply (keepR_free c F k s I sh (l1 ++ l2) r len H Hfr HT y o2 z Hy Ho2 Hz).
    + intros z Hz. apply (keepR_out c s sh (l1 ++ l2) r len H HT z).
      * intros rg Hrg. apply Hz. unfold mapped in *. cbn [slabs larges map]. right. exact Hrg.
      * apply (Hz (r, len)). unfold mapped. cbn [slabs larges map sl_region sl_base sl_res]. left. reflexivity.
Qed.

End NewSlabShadow.

(* ---------- free of a large block ---------- *)
Section FreeLargeShadow.
Variable c : cfg.
Hypothesis F : cfg_facts c.
Hypothesis Hpo : poison c = true.
Variables (k : N) (s : state).
Hypothesis I : Inv c k s.
Variable sh : shadow.
Hypothesis H : Sh c s sh.
Variables (x : large) (p : N) (b : blk).
Hypothesis Hx : In x (larges s).
Hypothesis Hb : In b (live s).
Hypothesis Hbp : bk_p b = p.
Hypothesis Hp : p = lg_addr c x.

Lemma free_large_cbs :
  cbs_of (free_large c s x p) =
  [CAccess false (lg_frame x) (hdr_frame c); CPoison (lg_frame x) (hdr_frame c); CPoison p (lg_len x); CUnmap (lg_base x) (lg_res x)].
Proof.
  unfold free_large. rewrite Hp, N.eqb_refl. cbn [negb]. rewrite <- Hp.
  rewrite (find_blk_in p (live s) b (I_live_nodup _ _ _ I) Hb Hbp). unfold cbs_of. cbn [snd]. unfold pcb. rewrite Hpo. reflexivity.
Qed.

Lemma outside_x f rg a n z : In (f, rg) (frames s) -> f <> lg_frame x -> fst rg <= a -> a + n <= fst rg + snd rg ->
  in_range a n z = true -> in_range (lg_base x) (lg_res x) z = false.
Proof.
  intros Hf Hne A1 A2 Hz.
  pose proof (I_disj _ _ _ I f rg (lg_frame x) (lg_region x) Hf (in_frames_large s x Hx) Hne) as D. apply rdisj_spec in D. cbn in D.
  apply in_range_spec in Hz. destruct (in_range (lg_base x) (lg_res x) z) eqn:E; [|reflexivity]. apply in_range_spec in E. lia.
Qed.

Lemma free_large_shadow :
  acc_ok sh (cbs_of (free_large c s x p)) /\ Sh c (free_large_state c s x p) (sh_fold sh (cbs_of (free_large c s x p))).
Proof.
  rewrite free_large_cbs.
  set (l := [CAccess false (lg_frame x) (hdr_frame c); CPoison (lg_frame x) (hdr_frame c); CPoison p (lg_len x); CUnmap (lg_base x) (lg_res x)]).
  pose proof (I_large _ _ _ I x Hx) as L. pose proof (lo_lo _ _ L). pose proof (lo_hi _ _ L). pose proof (cf_hdrf_page c F).
  assert (Hin_reg : forall z, in_range (lg_base x) (lg_res x) z = true -> sh_fold sh l z = false).
  { intros z Hz. unfold l, sh_fold. cbn [fold_left apply_cb]. unfold sh_set. rewrite Hz. reflexivity. }
  assert (Hout_reg : forall z, in_range (lg_base x) (lg_res x) z = false -> sh_fold sh l z = sh z).
  { intros z Hz. unfold l, sh_fold. cbn [fold_left apply_cb]. unfold sh_set. rewrite Hz.
    assert (in_range p (lg_len x) z = false) as ->.
    { destruct (in_range p (lg_len x) z) eqn:E; [|reflexivity]. apply in_range_spec in E.
      assert (in_range (lg_base x) (lg_res x) z = true) by (apply in_range_spec; unfold lg_addr in *; lia). congruence. }
    assert (in_range (lg_frame x) (hdr_frame c) z = false) as ->.
    { destruct (in_range (lg_frame x) (hdr_frame c) z) eqn:E; [|reflexivity]. apply in_range_spec in E.
      assert (in_range (lg_base x) (lg_res x) z = true) by (apply in_range_spec; lia). congruence. }
    reflexivity. }
  pose proof (large_frames_nodup c k s I) as Hnd.
  pose proof (remove_large_spec (lg_frame x) (larges s) Hnd) as RS.
  split.
  - unfold l. cbn [acc_ok apply_cb]. repeat split. intros z Hz. apply (S_hl _ _ _ H x z Hx Hz).
  - constructor; unfold free_large_state; cbn [slabs larges live].
    + intros b' z Hb' Hz. pose proof (remove_blk_notin p (live s) (I_live_nodup _ _ _ I) b' Hb') as Hne.
      apply in_remove_blk in Hb'. destruct (live_is_cell c k s I b' Hb') as [Cb R].
      destruct (cell_extent c F k s I _ _ Cb) as (f & rg & Hf & A1 & A2 & _ & K).
      assert (Hfx : f <> lg_frame x).
      { intros ->. destruct K as [(x1 & Hx1 & E1 & _)| (x1 & Hx1 & E1 & P & _)].
        - apply (slab_large_frames c k s I x1 x Hx1 Hx). assumption.
        - assert (x1 = x) by (apply (large_by_frame c k s I); assumption). subst x1. congruence. }
      rewrite Hout_reg; [apply (S_live _ _ _ H b' z Hb' Hz)|].
      apply (outside_x f rg (bk_p b') (N.max (bk_req b') 1) z Hf Hfx); [lia|lia|assumption].
    + intros y z Hy Hz. pose proof (I_slab _ _ _ I y Hy) as S. pose proof (so_lo _ _ _ _ S). pose proof (so_hi _ _ _ _ S).
      pose proof (overhead_spec c (b2s (sl_idx y)) (b2s_pos _)) as (O1 & _).
      pose proof (overhead_lt_slabsz c (sl_idx y) F (so_idx _ _ _ _ S)).
      rewrite Hout_reg; [apply (S_hs _ _ _ H y z Hy Hz)|].
      apply (outside_x (sl_frame y) (sl_region y) (sl_frame y) (hdr_slab c) z (in_frames_slab s y Hy)); [|cbn; lia|cbn; lia|assumption].
      apply (slab_large_frames c k s I y x Hy Hx).
    + intros y z Hy Hz. apply RS in Hy. destruct Hy as [Hy Hne].
      pose proof (I_large _ _ _ I y Hy) as Ly. pose proof (lo_lo _ _ Ly). pose proof (lo_hi _ _ Ly).
      rewrite Hout_reg; [apply (S_hl _ _ _ H y z Hy Hz)|].
      apply (outside_x (lg_frame y) (lg_region y) (lg_frame y) (hdr_frame c) z (in_frames_large s y Hy) Hne); [cbn; lia|cbn; lia|assumption].
    + intros y o z Hy Ho Hz.
      destruct (cell_extent c F k s I _ _ (avail_is_cell c k s I y o Hy Ho)) as (f & rg & Hf & A1 & A2 & _ & K).
      assert (Hfx : f <> lg_frame x).
      { intros ->. destruct K as [(x1 & Hx1 & E1 & _)| (x1 & Hx1 & E1 & P & _)].
        - apply (slab_large_frames c k s I x1 x Hx1 Hx). assumption.
        - pose proof (I_slab _ _ _ I y Hy) as Sy. destruct (so_avail _ _ _ _ Sy o Ho) as [Oy _].
          pose proof (lookup_obj c F k s I y o Hy Oy) as L1. pose proof (lookup_large c F k s I x1 Hx1) as L2. rewrite <- P in L2. congruence. }
      rewrite Hout_reg; [apply (S_free _ _ _ H y o z Hy Ho Hz)|].
      apply (outside_x f rg o (sl_item y) z Hf Hfx A1 A2 Hz).
    + intros z Hz. destruct (in_range (lg_base x) (lg_res x) z) eqn:E; [apply Hin_reg; assumption|].
      rewrite Hout_reg by assumption. apply (S_out _ _ _ H). intros rg Hrg.
      unfold mapped in Hrg. apply in_app_iff in Hrg. destruct Hrg as [Hrg|Hrg].
      * apply Hz. unfold mapped. cbn [slabs larges]. apply in_or_app. left. assumption.
      * apply in_map_iff in Hrg. destruct Hrg as (y & <- & Hy).
        destruct (N.eq_dec (lg_frame y) (lg_frame x)) as [Ey|Ey].
        -- assert (y = x) by (apply (large_by_frame c k s I); assumption). subst y. exact E.
        -- apply Hz. unfold mapped. cbn [slabs larges]. apply in_or_app. right. apply in_map. apply RS. auto.
Qed.

End FreeLargeShadow.

(* ---------- realloc in place ---------- *)
Section InPlaceShadow.
Variable c : cfg.
Hypothesis F : cfg_facts c.
Hypothesis Hpo : poison c = true.
Variables (k : N) (s : state).
Hypothesis I : Inv c k s.
Variable sh : shadow.
Hypothesis H : Sh c s sh.

Lemma inplace_shadow b p n hdr fr cur :
  In b (live s) -> bk_p b = p -> bk_size0 b = cur -> n <> 0 -> n <= cur ->
  (forall z, in_range fr hdr z = true -> sh z = true) ->
  let l := CAccess false fr hdr :: inplace_cbs c p cur n in
  acc_ok sh l /\ Sh c (set_req s p n) (sh_fold sh l).
Proof.
  intros Hb Hbp Hcur Hn Hle Hhdr. unfold inplace_cbs, pcb. rewrite Hpo. cbv zeta.
  set (l := [CAccess false fr hdr; CUnpoisonExpand p cur; CPoison p cur; CUnpoison p n]).
  destruct (live_is_cell c k s I b Hb) as [Hcell R]. rewrite Hbp, Hcur in Hcell.
  assert (HT : forall cb y, In cb l -> touches cb y = true -> in_range p cur y = true).
  { intros cb y [<- |[<- |[<- |[<- |[]]]]] Ht; cbn in Ht; try discriminate; try assumption.
    apply in_range_spec in Ht. apply in_range_spec. lia. }
  assert (Hpl : In p (live_ptrs s)) by (rewrite <- Hbp; apply in_map; assumption).
  split.
  - unfold l. cbn [acc_ok apply_cb]. repeat split. exact Hhdr.
  - rewrite set_req_eq. constructor; unfold with_live; cbn [slabs larges live].
    + intros b' z Hb' Hz.
      destruct (in_upd_blk_strong p _ (live s) b' (I_live_nodup _ _ _ I) Hb') as [[Hb0 Hne]| (b0 & Hb0 & Hp0 & ->)].
      * apply (keep_live c F k s I sh l p cur H HT Hcell b' z Hb0 Hne Hz).
      * cbn [bk_p bk_req] in Hz. rewrite Hp0 in Hz. replace (N.max n 1) with n in Hz by lia.
        change l with ([CAccess false fr hdr; CUnpoisonExpand p cur; CPoison p cur] ++ [CUnpoison p n]).
        apply sh_fold_unpoison_last. assumption.
    + intros y z Hy Hz. apply (keep_hs c F k s I sh l p cur H HT Hcell y z Hy Hz).
    + intros y z Hy Hz. apply (keep_hl c F k s I sh l p cur H HT Hcell y z Hy Hz).
    + intros y o z Hy Ho Hz. apply (keep_free c F k s I sh l p cur H HT Hcell y o z Hy Ho); [|assumption].
      intros ->. destruct (so_avail _ _ _ _ (I_slab _ _ _ I y Hy) p Ho) as [_ Hnl]. contradiction.
    + intros z Hz. apply (keep_out c F k s I sh l p cur H HT Hcell z Hz).
Qed.

End InPlaceShadow.

(* ---------- assembling: allocate, free, a whole step ---------- *)
Lemma Sh_same_keys c s s' sh :
  slabs s' = slabs s -> larges s' = larges s ->
  (forall b', In b' (live s') -> exists b, In b (live s) /\ bk_p b = bk_p b' /\ bk_req b = bk_req b') ->
  Sh c s sh -> Sh c s' sh.
Proof.
  intros E1 E2 K [h1 h2 h3 h4 h5]. constructor; unfold mapped in *; rewrite ?E1, ?E2; auto.
  intros b' x Hb' Hx. destruct (K b' Hb') as (b & Hb & P & R). rewrite <- P, <- R in Hx. eapply h1; eauto.
Qed.

Lemma alloc_shadow c k s sh n e :
  cfg_facts c -> poison c = true -> Inv c k s ->
  (forall len, alloc_map_len c s n = Some len -> env_fresh c s len e) ->
  Sh c s sh -> step_shadow_ok c sh (alloc c s n e).
Proof.
  intros F Hpo I Henv H. unfold alloc, alloc_map_len in *. fold (norm_req n) in *.
  pose proof (norm_req_pos n) as Hpos. pose proof (norm_req_max n) as Hmax.
  destruct (norm_req n <=? max_bucket_size c) eqn:Hs.
  - apply N.leb_le in Hs.
    assert (Hidx : s2b (norm_req n) < nbuckets c) by (apply s2b_bound; [apply (cf_nb_pos c F)|assumption|exact Hs]).
    assert (Hle : (s2b (norm_req n) <=? nbuckets c) = true) by (apply N.leb_le; lia).
    rewrite Hle. cbn [negb].
    assert (Hfit : norm_req n <= b2s (s2b (norm_req n))) by (apply s2b_fits; assumption).
    destruct (bucket s (s2b (norm_req n))) as [|h t] eqn:Hb.
    + specialize (Henv _ eq_refl). destruct (N.eq_dec (env_ret e) 0) as [E0|E0].
      * unfold alloc_small. rewrite Hb. apply N.eqb_eq in E0. rewrite E0. unfold step_shadow_ok, map_call. cbn. auto.
      * destruct (Henv E0) as [Hfr Hal]. eapply newslab_shadow; eauto.
    + eapply pop_shadow; eauto.
  - specialize (Henv _ eq_refl). destruct (N.eq_dec (env_ret e) 0) as [E0|E0].
    + unfold alloc_large. apply N.eqb_eq in E0. rewrite E0. unfold step_shadow_ok, map_call. cbn. auto.
    + destruct (Henv E0) as [Hfr Hal]. eapply large_shadow; eauto.
Qed.

Lemma free_shadow c k s sh p sz :
  cfg_facts c -> poison c = true -> Inv c k s ->
  is_live s p = true -> match sz with Some n => n <= cur_size c s p | None => True end ->
  Sh c s sh -> step_shadow_ok c sh (free_ c s p sz).
Proof.
  intros F Hpo I Hl Hsz H. destruct (is_live_in s p Hl) as (b & Hb & Hbp & _).
  assert (Hp0 : p <> 0) by (rewrite <- Hbp; apply (live_nonzero c F k s I b Hb)).
  rewrite (get_size_lookup c s p Hp0) in Hsz.
  unfold free_. apply N.eqb_neq in Hp0. rewrite Hp0.
  destruct (live_lookup c F k s I b Hb) as [(x & Hx & L & O & Z & R)| (x & Hx & L & E & Z & R)];
    rewrite Hbp in *; rewrite L in *.
  - destruct (free_small_ok c F k s I x p b Hx Hb Hbp O) as [E1 _].
    pose proof (free_small_shadow c F Hpo k s I sh H x p b Hx Hb Hbp O) as Q. cbv zeta in Q.
    assert (K : forall t, t = free_small c s x p ->
               step_shadow_ok c sh (let '(s', r, cbs) := t in (s', r, CAccess false (sl_frame x) (hdr_slab c) :: cbs))).
    { intros [[s' r] cbs] Et. rewrite <- Et in E1, Q. unfold step_shadow_ok. cbn in E1, Q |- *. subst s'. exact Q. }
    destruct sz as [n|]; [apply N.leb_le in Hsz; rewrite Hsz|]; apply K; reflexivity.
  - destruct (free_large_ok c k s I x p b Hb Hbp E) as [E1 _].
    pose proof (free_large_shadow c F Hpo k s I sh H x p b Hx Hb Hbp E) as Q.
    assert (K : step_shadow_ok c sh (free_large c s x p)) by (unfold step_shadow_ok; rewrite E1; exact Q).
    destruct sz as [n|]; [apply N.leb_le in Hsz; rewrite Hsz|]; exact K.
Qed.

(* unpoison_expand of a live block keeps the invariant *)
Lemma expand_shadow c k s sh b p cur :
  cfg_facts c -> Inv c k s -> Sh c s sh -> In b (live s) -> bk_p b = p -> bk_size0 b = cur ->
  Sh c s (sh_set sh p cur true).
Proof.
  intros F I H Hb Hbp Hcur.
  destruct (live_is_cell c k s I b Hb) as [Hcell R]. rewrite Hbp, Hcur in Hcell.
  set (l := [CUnpoisonExpand p cur]).
  assert (HT : forall cb y, In cb l -> touches cb y = true -> in_range p cur y = true).
  { intros cb y [<- |[]] Ht. exact Ht. }
  change (sh_set sh p cur true) with (sh_fold sh l).
  constructor.
  - intros b' z Hb' Hz. destruct (N.eq_dec (bk_p b') p) as [E|E].
    + unfold l, sh_fold. cbn [fold_left apply_cb]. unfold sh_set.
      destruct (in_range p cur z); [reflexivity|apply (S_live _ _ _ H b' z Hb' Hz)].
    + apply (keep_live c F k s I sh l p cur H HT Hcell b' z Hb' E Hz).
  - intros y z Hy Hz. apply (keep_hs c F k s I sh l p cur H HT Hcell y z Hy Hz).
  - intros y z Hy Hz. apply (keep_hl c F k s I sh l p cur H HT Hcell y z Hy Hz).
  - intros y o z Hy Ho Hz. apply (keep_free c F k s I sh l p cur H HT Hcell y o z Hy Ho); [|assumption].
    intros ->. destruct (so_avail _ _ _ _ (I_slab _ _ _ I y Hy) p Ho) as [_ Hnl]. apply Hnl. rewrite <- Hbp. apply in_map. assumption.
  - intros z Hz. apply (keep_out c F k s I sh l p cur H HT Hcell z Hz).
Qed.

Section StepShadow.
Variable c : cfg.
Hypothesis F : cfg_facts c.
Hypothesis Hpo : poison c = true.
Variables (k : N) (s : state).
Hypothesis I : Inv c k s.

Lemma step_shadow sh o :
  op_policy_ok c s o = true -> op_api_ok c s o = true -> Sh c s sh -> step_shadow_ok c sh (step c s o).
Proof.
  intros Hpol Hapi H.
  assert (Free_case : forall p sz,
            ((p =? 0) || is_live s p) = true ->
            match sz with Some n => (p =? 0) = true \/ n <= cur_size c s p | None => True end ->
            step_shadow_ok c sh (free_ c s p sz)).
  { intros p sz Hl Hsz. destruct (p =? 0) eqn:Hp.
    - unfold free_. rewrite Hp. unfold step_shadow_ok. cbn. auto.
    - cbn in Hl.
      assert (Hsz' : match sz with Some n => n <= cur_size c s p | None => True end).
      { destruct sz; [destruct Hsz as [Hsz|Hsz]; [discriminate|assumption]|exact Logic.I]. }
      apply (free_shadow c k s sh p sz F Hpo I Hl Hsz' H). }
  destruct o as [n e|p|p n|p n e|p|p off len tag]; cbn [step].
  - apply (alloc_shadow c k s sh n e F Hpo I (policy_env_fresh c s (Alloc n e) e Hpol eq_refl) H).
  - apply Free_case; [exact Hapi|exact Logic.I].
  - cbn in Hapi. apply Free_case.
    + destruct (p =? 0); [reflexivity|]. cbn in *. apply andb_prop in Hapi. tauto.
    + destruct (p =? 0); [left; reflexivity|]. cbn in Hapi. apply andb_prop in Hapi. right. apply N.leb_le. tauto.
  - cbn in Hapi. apply andb_prop in Hapi. destruct Hapi as [Hl _].
    pose proof (policy_env_fresh c s (Realloc p n e) e Hpol eq_refl) as Henv. cbn [map_len] in Henv.
    unfold realloc.
    destruct (p =? 0) eqn:Hp; [apply (alloc_shadow c k s sh n e F Hpo I Henv H)|].
    cbn in Hl.
    destruct (n =? 0) eqn:Hn.
    { pose proof (Free_case p None ltac:(rewrite Hp; exact Hl) Logic.I) as Q.
      destruct (free_ c s p None) as [[s' r] cbs]. unfold step_shadow_ok in *. cbn in *. exact Q. }
    destruct (is_live_in s p Hl) as (b & Hb & Hbp & Hfind). rewrite Hfind.
    apply N.eqb_neq in Hp. apply N.eqb_neq in Hn.
    rewrite (get_size_lookup c s p Hp) in Henv. cbv zeta.
    assert (G : forall hdr fr cur, bk_size0 b = cur ->
               (forall z, in_range fr hdr z = true -> sh z = true) ->
               (forall len, (if n <=? cur then None else alloc_map_len c s n) = Some len -> env_fresh c s len e) ->
               step_shadow_ok c sh
                 (if n <=? cur
                  then (set_req s p n, RPtr p, CAccess false fr hdr :: inplace_cbs c p cur n)
                  else
                    let '(s1, r, cbs) := alloc c s n e in
                    match r with
                    | RPtr q =>
                      let s2 := move_log s1 p q in
                      let '(s3, r3, cbs3) := free_ c s2 p None in
                      (s3, match r3 with RUnit => RPtr q | _ => r3 end,
                       CAccess false fr hdr :: cbs ++ pcb c [CUnpoisonExpand p cur]
                       ++ [CAccess false p cur; CAccess true q cur] ++ cbs3)
                    | _ => (s1, r, CAccess false fr hdr :: cbs)
                    end)).
    { intros hdr fr cur Hcur Hhdr Henv'. destruct (n <=? cur) eqn:Hle.
      - apply N.leb_le in Hle. unfold step_shadow_ok, st_of, cbs_of. cbn [fst snd].
        apply (inplace_shadow c F Hpo k s I sh H b p n hdr fr cur Hb Hbp Hcur Hn Hle Hhdr).
      - apply N.leb_gt in Hle.
        pose proof (alloc_shadow c k s sh n e F Hpo I Henv' H) as [Qa Qs].
        destruct (alloc_inv c k s n e F I Henv') as [I1 [[R [S1 _]]| (q & sz & unp & R & L1)]].
        + destruct (alloc c s n e) as [[s1 r] cbs]. cbn in *. subst r s1. unfold step_shadow_ok. cbn [st_of cbs_of fst snd acc_ok apply_cb].
          split; [split; [exact Hhdr|exact Qa]|exact Qs].
        + destruct (alloc c s n e) as [[s1 r] cbs]. cbn in R, L1, I1, Qa, Qs. subst r. cbv zeta.
          destruct (move_log_inv c (k + 1) s1 p q I1) as [I2 LP].
          assert (Hl2 : is_live (move_log s1 p q) p = true).
          { apply is_live_iff; [apply (I_live_nodup _ _ _ I2)|]. rewrite LP. unfold live_ptrs. rewrite L1. cbn. right.
            rewrite <- Hbp. apply in_map. assumption. }
          set (sh1 := sh_fold sh cbs) in *.
          assert (Hb1 : In b (live s1)) by (rewrite L1; right; assumption).
          pose proof (expand_shadow c (k + 1) s1 sh1 b p cur F I1 Qs Hb1 Hbp Hcur) as Q2.
          assert (Q2' : Sh c (move_log s1 p q) (sh_set sh1 p cur true)).
          { apply (Sh_same_keys c s1); [| | |exact Q2].
            - rewrite move_log_eq. destruct (find_blk p (live s1)); reflexivity.
            - rewrite move_log_eq. destruct (find_blk p (live s1)); reflexivity.
            - intros b' Hb'. rewrite move_log_eq in Hb'. destruct (find_blk p (live s1)) as [bp|]; [|eauto].
              unfold with_live in Hb'. cbn [live] in Hb'. apply in_upd_blk in Hb'.
              destruct Hb' as [Hb'|(b0 & Hb0 & _ & ->)]; eauto. }
          pose proof (free_shadow c (k + 1) (move_log s1 p q) _ p None F Hpo I2 Hl2 Logic.I Q2') as [Qf Qfs].
          destruct (free_ c (move_log s1 p q) p None) as [[s3 r3] cbs3]. unfold step_shadow_ok. cbn [st_of cbs_of fst snd] in Qf, Qfs |- *.
          unfold pcb. rewrite Hpo.
          assert (Hfold : sh_fold sh (CAccess false fr hdr :: cbs ++ [CUnpoisonExpand p cur] ++ [CAccess false p cur; CAccess true q cur] ++ cbs3)
                          = sh_fold (sh_set sh1 p cur true) cbs3).
          { change (sh_fold sh (CAccess false fr hdr :: ?l)) with (sh_fold sh l). rewrite sh_fold_app. fold sh1. reflexivity. }
          split; [|rewrite Hfold; exact Qfs].
          cbn [acc_ok apply_cb]. split; [exact Hhdr|]. apply acc_ok_app. split; [exact Qa|]. fold sh1.
          cbn [app acc_ok apply_cb]. split; [exact Logic.I|]. split.
          * intros z Hz. unfold sh_set. rewrite Hz. reflexivity.
          * split; [|exact Qf].
            intros z Hz. unfold sh_set. destruct (in_range p cur z); [reflexivity|].
            apply (S_live _ _ _ Qs (mkBlk q n sz unp []) z); [rewrite L1; left; reflexivity|].
            cbn [bk_p bk_req]. apply in_range_spec in Hz. apply in_range_spec. lia. }
    destruct (live_lookup c F k s I b Hb) as [(x & Hx & L & O & Z & R)| (x & Hx & L & E & Z & R)];
      rewrite Hbp in *; rewrite L in *.
    + rewrite (obj_contains c F _ _ x p (I_slab _ _ _ I x Hx) O). cbn [negb]. apply G; auto.
      intros z Hz. apply (S_hs _ _ _ H x z Hx Hz).
    + rewrite <- E, N.eqb_refl. cbn [negb]. apply G; auto.
      intros z Hz. apply (S_hl _ _ _ H x z Hx Hz).
  - unfold step_shadow_ok, st_of, cbs_of. cbn [fst snd]. cbn in Hapi.
    destruct (p =? 0) eqn:Hp; [cbn; auto|]. cbn in Hapi.
    destruct (is_live_in s p Hapi) as (b & Hb & Hbp & _).
    destruct (live_lookup c F k s I b Hb) as [(x & Hx & L & _)| (x & Hx & L & _)]; rewrite Hbp in L; rewrite L; cbn [acc_ok apply_cb sh_fold fold_left].
    + split; [split; [|exact Logic.I]|exact H]. intros z Hz. apply (S_hs _ _ _ H x z Hx Hz).
    + split; [split; [|exact Logic.I]|exact H]. intros z Hz. apply (S_hl _ _ _ H x z Hx Hz).
  - cbn in Hapi. unfold write_. destruct (find_blk p (live s)) as [b|] eqn:E; [|discriminate].
    unfold step_shadow_ok. cbn. split; [exact Logic.I|].
    apply (Sh_same_keys c s); [reflexivity|reflexivity| |exact H].
    intros b' Hb'. cbn [live] in Hb'. apply in_upd_blk in Hb'. destruct Hb' as [Hb'|(b0 & Hb0 & _ & ->)]; eauto.
Qed.

End StepShadow.

(* ---------- whole histories ---------- *)
Lemma init_shadow c : Sh c (init c) sh0.
Proof. constructor; cbn; try (intros; contradiction). intros; reflexivity. Qed.

Lemma run_shadow c : cfg_facts c -> poison c = true -> forall ops s sh,
  Inv c 0 s -> hist_ok_both c s ops -> Sh c s sh ->
  acc_ok sh (log_from c s ops) /\ Sh c (run_from c s ops) (sh_fold sh (log_from c s ops)).
Proof.
  intros F Hpo. induction ops as [|o r IH]; intros s sh I [H1 H2] H.
  - cbn. auto.
  - cbn [hist_ok] in H1, H2. apply andb_prop in H1. apply andb_prop in H2.
    destruct H1 as [P1 P2], H2 as [A1 A2].
    destruct (step_inv c F 0 s I ltac:(lia) o P1 A1) as [I' _].
    destruct (step_shadow c F Hpo 0 s I sh o P1 A1 H) as [Qa Qs].
    destruct (IH (st_of (step c s o)) _ (Inv_any c _ 0 _ I') (conj P2 A2) Qs) as [Ra Rs].
    cbn [log_from run_from fold_left]. split.
    + apply acc_ok_app. auto.
    + rewrite sh_fold_app. exact Rs.
Qed.

Theorem C03_poison_protocol_main :
  forall (c : cfg) (ops : list op),
    cfg_ok c = true -> poison c = true -> policy_ok c ops -> api_ok c ops ->
    forall pre, prefix pre ops ->
    let s := run c pre in
    let sh := sh_fold sh0 (log c pre) in
    acc_ok sh0 (log c pre) /\ Sh c s sh.
Proof.
  intros c ops Hc Hpo Hp Ha pre (suf & ->) s sh. pose proof (cfg_ok_facts c Hc) as F.
  unfold policy_ok, api_ok in *. apply hist_ok_app in Hp. apply hist_ok_app in Ha.
  apply (run_shadow c F Hpo pre (init c) sh0 (init_inv c F) (conj Hp Ha) (init_shadow c)).
Qed.

(* (b) for the block that was just freed *)
Theorem C03_freed_small_block_main :
  forall (c : cfg) (ops : list op) (p : N) (x : slab),
    cfg_ok c = true -> poison c = true -> policy_ok c (ops ++ [Free p]) -> api_ok c (ops ++ [Free p]) ->
    p <> 0 -> lookup c (run c ops) p = FSlab x ->
    let sh := sh_fold sh0 (log c (ops ++ [Free p])) in
    forall z, in_range p (sl_item x) z = true -> sh z = in_range p 8 z.
Proof.
  intros c ops p x Hc Hpo Hp Ha Hp0 L sh z Hz. pose proof (cfg_ok_facts c Hc) as F.
  destruct (C03_poison_protocol_main c _ Hc Hpo Hp Ha (ops ++ [Free p]) ltac:(exists []; rewrite app_nil_r; reflexivity)) as [_ S].
  destruct (prefix_inv c _ ops Hc Hp Ha ltac:(eexists; reflexivity)) as [I _].
  set (s := run c ops) in *.
  assert (Hrun : run c (ops ++ [Free p]) = st_of (step c s (Free p))).
  { unfold run, run_from. rewrite fold_left_app. reflexivity. }
  rewrite Hrun in S.
  (* p is live (api_ok) and an object of x *)
  assert (Hapi : op_api_ok c s (Free p) = true).
  { unfold api_ok in Ha. clear - Ha. unfold s, run, run_from. revert Ha. generalize (init c). induction ops as [|o l IH]; intros s0; cbn.
    - rewrite andb_true_r. auto.
    - intros H. apply andb_prop in H. apply IH. tauto. }
  cbn in Hapi. apply N.eqb_neq in Hp0. rewrite Hp0 in Hapi. cbn in Hapi.
  destruct (is_live_in s p Hapi) as (b & Hb & Hbp & _).
  destruct (live_lookup c F 0 s I b Hb) as [(y & Hy & L' & O & _)| (y & Hy & L' & _)]; rewrite Hbp in *; [|congruence].
  assert (y = x) by congruence. subst y.
  destruct (free_small_ok c F 0 s I x p b Hy Hb Hbp O) as [E1 _].
  assert (Hst : st_of (step c s (Free p)) = free_small_state s x p).
  { cbn [step]. unfold free_. rewrite Hp0, L. destruct (free_small c s x p) as [[s' r] cbs]. cbn in *. exact E1. }
  rewrite Hst in S.
  set (x' := set_avail x (p :: sl_avail x) (sl_nres x - 1)).
  apply (S_free _ _ _ S x' p z).
  - unfold free_small_state. cbn [slabs]. apply (in_upd_slab_const (sl_frame x) x x' (slabs s) x' (slab_frames_nodup c 0 s I) Hy eq_refl). right. reflexivity.
  - left. reflexivity.
  - exact Hz.
Qed.
