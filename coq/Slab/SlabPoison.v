(* C03 (poison, part a): folding the poison calls of the log over a byte shadow, the requested bytes of every live block
   are unpoisoned after every prefix of an admissible history (policy with poison hooks). *)
From Coq Require Import List NArith Bool Lia ZifyBool ZifyNat ZifyN.
From FV Require Import Slab.SlabModel Slab.SlabArith Slab.SlabBasics Slab.SlabFail Slab.SlabInv
  Slab.SlabInvAlloc Slab.SlabInvFree Slab.SlabInvStep Slab.SlabC01 Slab.SlabLog.
Import ListNotations.
Local Open Scope N_scope.

(* ---------- the shadow ---------- *)
Definition shadow := N -> bool.                  (* true = unpoisoned *)
Definition in_range (a n x : N) : bool := (a <=? x) && (x <? a + n).
Definition sh_set (sh : shadow) (a n : N) (v : bool) : shadow := fun x => if in_range a n x then v else sh x.
Definition apply_cb (sh : shadow) (cb : callback) : shadow :=
  match cb with
  | CPoison a n => sh_set sh a n false
  | CUnpoison a n => sh_set sh a n true
  | CUnpoisonExpand a n => sh_set sh a n true
  | CUnmap b l => sh_set sh b l false            (* what is given back is gone *)
  | _ => sh                                      (* map: fresh mappings arrive poisoned (sh0 is all-poisoned) *)
  end.
Definition sh_fold (sh : shadow) (l : list callback) : shadow := fold_left apply_cb l sh.
Definition sh0 : shadow := fun _ => false.

Lemma sh_fold_app sh l1 l2 : sh_fold sh (l1 ++ l2) = sh_fold (sh_fold sh l1) l2.
Proof. apply fold_left_app. Qed.

Lemma in_range_spec a n x : in_range a n x = true <-> a <= x /\ x < a + n.
Proof. unfold in_range. rewrite andb_true_iff, N.leb_le, N.ltb_lt. tauto. Qed.

(* ranges a callback poisons *)
Definition poisons (cb : callback) (x : N) : bool :=
  match cb with CPoison a n => in_range a n x | CUnmap b l => in_range b l x | _ => false end.

Lemma sh_fold_keep l : forall sh x, sh x = true -> (forall cb, In cb l -> poisons cb x = false) -> sh_fold sh l x = true.
Proof.
  induction l as [|cb t IH]; intros sh x Hx Hp; [exact Hx|]. cbn [sh_fold fold_left]. apply IH.
  - specialize (Hp cb (or_introl eq_refl)). destruct cb; cbn in *; auto; unfold sh_set; try rewrite Hp; auto;
      destruct (in_range _ _ x); auto.
  - intros cb' H. apply Hp. right. assumption.
Qed.

(* a list ending in "... ; unpoison p n" with harmless calls before leaves [p,p+n) unpoisoned *)
Lemma sh_fold_unpoison_last pre p n sh x :
  in_range p n x = true -> sh_fold sh (pre ++ [CUnpoison p n]) x = true.
Proof. intros H. rewrite sh_fold_app. cbn. unfold sh_set. rewrite H. reflexivity. Qed.

Definition live_unpoisoned (s : state) (sh : shadow) : Prop :=
  forall b x, In b (live s) -> bk_p b <= x -> x < bk_p b + N.max (bk_req b) 1 -> sh x = true.

Lemma live_unpoisoned_keep s sh l :
  live_unpoisoned s sh ->
  (forall b x cb, In b (live s) -> bk_p b <= x -> x < bk_p b + N.max (bk_req b) 1 -> In cb l -> poisons cb x = false) ->
  live_unpoisoned s (sh_fold sh l).
Proof.
  intros H Hp b x Hb H1 H2. apply sh_fold_keep; [eapply H; eauto|]. intros cb Hcb. eapply Hp; eauto.
Qed.

Lemma poisons_pcb c l cb x : In cb (pcb c l) -> poisons cb x = true -> In cb l.
Proof. unfold pcb. destruct (poison c); [auto|intros []]. Qed.

Lemma carve_no_poison c up cb x :
  In cb (flat_map (fun o => pcb c [CUnpoison o 8] ++ [CAccess true o 8]) up) -> poisons cb x = false.
Proof.
  induction up as [|o r IH]; [intros []|]. cbn [flat_map]. rewrite !in_app_iff. intros [[H|H]|H]; [| |auto].
  - unfold pcb in H. destruct (poison c); [|destruct H]. destruct H as [<- |[]]. reflexivity.
  - destruct H as [<- |[]]. reflexivity.
Qed.

(* ---------- generic: a small allocation that hands out o ---------- *)
Lemma hand_out_sh c (s s' : state) sh pre o n' nb :
  poison c = true ->
  live s' = nb :: live s -> bk_p nb = o -> N.max (bk_req nb) 1 = n' ->
  (forall cb x, In cb pre -> poisons cb x = false) ->
  (forall b x, In b (live s) -> bk_p b <= x -> x < bk_p b + N.max (bk_req b) 1 -> in_range o 8 x = false) ->
  live_unpoisoned s sh ->
  live_unpoisoned s' (sh_fold sh (pre ++ pcb c [CPoison o 8; CUnpoison o n'])).
Proof.
  intros Hpo Hl Ho Hn Hpre Hold H b x Hb H1 H2. unfold pcb. rewrite Hpo. rewrite Hl in Hb. destruct Hb as [<- |Hb].
  - replace (pre ++ [CPoison o 8; CUnpoison o n']) with ((pre ++ [CPoison o 8]) ++ [CUnpoison o n']) by (rewrite <- app_assoc; reflexivity).
    apply sh_fold_unpoison_last. apply in_range_spec. rewrite Ho in *. lia.
  - apply sh_fold_keep; [eapply H; eauto|]. intros cb Hcb. apply in_app_iff in Hcb. destruct Hcb as [Hcb|Hcb]; [auto|].
    destruct Hcb as [<- |[<- |[]]]; [cbn; eapply Hold; eauto|reflexivity].
Qed.

Section Paths.
Variable c : cfg.
Hypothesis F : cfg_facts c.
Hypothesis Hpo : poison c = true.
Variables (k : N) (s : state).
Hypothesis I : Inv c k s.
Variable sh : shadow.
Hypothesis H : live_unpoisoned s sh.

Lemma req_in_block b x : In b (live s) -> bk_p b <= x -> x < bk_p b + N.max (bk_req b) 1 -> x < bk_p b + bk_size0 b.
Proof. intros Hb H1 H2. destruct (live_size c F k s I b Hb) as [_ R]. lia. Qed.

Lemma pop_sh idx h t n' nreq e : idx < nbuckets c -> bucket s idx = h :: t -> N.max nreq 1 = n' ->
  live_unpoisoned (st_of (alloc_small c s n' nreq idx e)) (sh_fold sh (cbs_of (alloc_small c s n' nreq idx e))).
Proof.
  intros Hidx Hb Hn.
  destruct (alloc_small_pop c F k s I idx h t Hidx Hb n' nreq e) as (x & o & av & Hx & Hf & Hi & Ha & Hst & _).
  destruct (head_slab c k s I idx h t Hidx Hb) as (x2 & o2 & av2 & Hx2 & Hf2 & Hi2 & Ha2 & Hfind).
  assert (x2 = x) by (apply (slab_by_frame c k s I); congruence). subst x2.
  assert (o2 = o /\ av2 = av) as [-> ->] by (split; congruence).
  pose proof (I_slab _ _ _ I x Hx) as Sx.
  assert (Oo : obj_of c x o) by (apply (so_avail _ _ _ _ Sx); rewrite Ha; left; reflexivity).
  assert (Hcbs : cbs_of (alloc_small c s n' nreq idx e) =
                 [CAccess false h (hdr_slab c); CAccess false o 8; CAccess true h (hdr_slab c)]
                 ++ pcb c [CPoison o 8; CUnpoison o n']).
  { unfold alloc_small. rewrite Hb. unfold pop_head. rewrite Hfind, Ha.
    rewrite (obj_contains c F _ _ x o Sx Oo). cbn [negb]. unfold hand_out, cbs_of. cbn [snd]. reflexivity. }
  rewrite Hcbs, Hst.
  apply (hand_out_sh c s (pop_state s idx h x av (mkBlk o nreq (b2s idx) n' [])) sh _ o n' (mkBlk o nreq (b2s idx) n' []) Hpo eq_refl eq_refl Hn); [| |exact H].
  - intros cb x0 [<- |[<- |[<- |[]]]]; reflexivity.
  - intros b x0 Hb0 H1 H2. pose proof (req_in_block b x0 Hb0 H1 H2) as H3.
    destruct (live_bookkeeping c F k s I b Hb0) as (_ & _ & B3).
    specialize (B3 x o Hx ltac:(rewrite Ha; left; reflexivity)). unfold disjoint in B3.
    pose proof (b2s_ge8 (sl_idx x)). unfold sl_item in B3.
    destruct (in_range o 8 x0) eqn:E; [|reflexivity]. apply in_range_spec in E. lia.
Qed.

Lemma newslab_sh idx n' nreq e : idx < nbuckets c -> bucket s idx = [] -> N.max nreq 1 = n' -> env_ret e <> 0 ->
  fresh_region s (env_ret e) (slab_map_len c) -> (aligned c = true -> env_ret e mod sb c = 0) ->
  live_unpoisoned (st_of (alloc_small c s n' nreq idx e)) (sh_fold sh (cbs_of (alloc_small c s n' nreq idx e))).
Proof.
  intros Hidx Hb Hn Hr Hfr Hal.
  destruct (alloc_small_new c F s idx (env_ret e) Hidx Hb Hal n' nreq e eq_refl Hr) as (o & a2 & av' & Hc & Hst & _).
  assert (Hcbs : exists pre, cbs_of (alloc_small c s n' nreq idx e) = pre ++ pcb c [CPoison o 8; CUnpoison o n']
                             /\ forall cb x, In cb pre -> poisons cb x = false).
  { unfold alloc_small. rewrite Hb. pose proof Hr as Hr'. apply N.eqb_neq in Hr'. rewrite Hr'.
    pose proof (overhead_lt_slabsz c idx F Hidx) as Ho. apply N.ltb_lt in Ho. rewrite Ho. cbn [negb].
    unfold construct_slab. cbn [sl_avail]. unfold carve in Hc. rewrite Hc. unfold hand_out. unfold cbs_of. cbn [snd].
    eexists. split.
    - rewrite app_comm_cons. rewrite app_assoc. reflexivity.
    - intros cb x Hin. repeat (rewrite in_app_iff in Hin || cbn [In] in Hin).
      repeat match goal with
             | Hd : _ \/ _ |- _ => destruct Hd
             | Hp : In _ (pcb _ _) |- _ => unfold pcb in Hp; rewrite Hpo in Hp; cbn [In] in Hp
             | Hf : In _ (flat_map _ _) |- _ => eapply carve_no_poison; exact Hf
             | Hf : False |- _ => destruct Hf
             | He : _ = cb |- _ => rewrite <- He; reflexivity
             end. }
  destruct Hcbs as (pre & Hcbs & Hpre). rewrite Hcbs, Hst.
  apply (hand_out_sh c s (newslab_state c s idx (env_ret e) (a2 :: av') (mkBlk o nreq (b2s idx) n' [])) sh pre o n' (mkBlk o nreq (b2s idx) n' []) Hpo eq_refl eq_refl Hn Hpre); [|exact H].
  - (* old blocks live in old regions, o in the fresh one *)
    intros b x Hb0 H1 H2. pose proof (req_in_block b x Hb0 H1 H2) as H3.
    destruct (live_in_frames c k s b F I Hb0) as (f & rg & Hf & L1 & L2 & _).
    assert (Hm : In rg (mapped s)) by (apply (mapped_frames s); eauto).
    destruct (new_objs c F idx (env_ret e) Hidx Hal o) as (_ & O1 & O2).
    { rewrite Hc. left. reflexivity. }
    destruct Hfr as (_ & _ & D). specialize (D rg Hm). apply rdisj_spec in D. cbn in D.
    (* the whole object [o, o+item) is inside the fresh region *)
    assert (O3 : o + 8 <= env_ret e + slab_map_len c).
    { assert (Oin : In o (carve (frame_of_map c (env_ret e) + overhead c (b2s idx)) (b2s idx) (N.to_nat (nobj c (b2s idx)))))
        by (rewrite Hc; left; reflexivity).
      apply in_carve in Oin. destruct Oin as (i & Hi & ->).
      pose proof (fr_spec c F idx (env_ret e) Hidx Hal) as (A & B & _).
      pose proof (b2s_pos idx) as Ip. pose proof (b2s_ge8 idx) as I8.
      pose proof (overhead_lt_slabsz c idx F Hidx) as Ho.
      pose proof (nobj_spec c (b2s idx) Ip) as Nb. unfold payload in Nb.
      assert (M : (N.of_nat i + 1) * b2s idx <= nobj c (b2s idx) * b2s idx) by (apply N.mul_le_mono_r; lia).
      lia. }
    destruct (in_range o 8 x) eqn:E; [|reflexivity]. apply in_range_spec in E. lia.
Qed.

Lemma large_sh n' nreq e : N.max nreq 1 = n' -> env_ret e <> 0 ->
  fresh_region s (env_ret e) (large_map_len c (align_up n' (page c))) ->
  live_unpoisoned (st_of (alloc_large c s n' nreq e)) (sh_fold sh (cbs_of (alloc_large c s n' nreq e))).
Proof.
  intros Hn Hr Hfr. destruct (alloc_large_ok c s n' nreq (env_ret e) e eq_refl Hr) as [Hst _]. rewrite Hst.
  unfold alloc_large. pose proof Hr as Hr'. apply N.eqb_neq in Hr'. rewrite Hr'. unfold cbs_of. cbn [snd].
  unfold pcb. rewrite Hpo.
  intros b x Hb H1 H2. unfold newlarge_state in Hb. cbn [live] in Hb. destruct Hb as [<- |Hb].
  - cbn [bk_p bk_req] in *. cbn [app sh_fold fold_left apply_cb]. unfold map_call. cbn [apply_cb]. unfold sh_set.
    assert (E : in_range (frame_of_map c (env_ret e) + page c) (align_up n' (page c)) x = true).
    { apply in_range_spec. destruct (area_spec c F n') as [A1 _]. unfold area in A1. unfold lfr in *. lia. }
    rewrite E. reflexivity.
  - apply sh_fold_keep; [eapply H; eauto|].
    intros cb [<- |[<- |[<- |[<- |[]]]]]; reflexivity.
Qed.

End Paths.

(* ---------- allocate, all paths ---------- *)
Lemma alloc_sh c k s sh n e :
  cfg_facts c -> poison c = true -> Inv c k s ->
  (forall len, alloc_map_len c s n = Some len -> env_fresh c s len e) ->
  live_unpoisoned s sh ->
  live_unpoisoned (st_of (alloc c s n e)) (sh_fold sh (cbs_of (alloc c s n e))).
Proof.
  intros F Hpo I Henv H. unfold alloc, alloc_map_len in *. fold (norm_req n) in *.
  pose proof (norm_req_pos n) as Hpos. pose proof (norm_req_max n) as Hmax.
  destruct (norm_req n <=? max_bucket_size c) eqn:Hs.
  - apply N.leb_le in Hs.
    assert (Hidx : s2b (norm_req n) < nbuckets c) by (apply s2b_bound; [apply (cf_nb_pos c F)|assumption|exact Hs]).
    assert (Hle : (s2b (norm_req n) <=? nbuckets c) = true) by (apply N.leb_le; lia).
    rewrite Hle. cbn [negb].
    destruct (bucket s (s2b (norm_req n))) as [|h t] eqn:Hb.
    + specialize (Henv _ eq_refl). destruct (N.eq_dec (env_ret e) 0) as [E0|E0].
      * unfold alloc_small. rewrite Hb. apply N.eqb_eq in E0. rewrite E0. cbn. exact H.
      * destruct (Henv E0) as [Hfr Hal]. eapply newslab_sh; eauto.
    + eapply pop_sh; eauto.
  - specialize (Henv _ eq_refl). destruct (N.eq_dec (env_ret e) 0) as [E0|E0].
    + unfold alloc_large. apply N.eqb_eq in E0. rewrite E0. cbn. exact H.
    + destruct (Henv E0) as [Hfr Hal]. eapply large_sh; eauto.
Qed.

(* ---------- free ---------- *)
Lemma in_upd_blk_strong p f l b :
  NoDup (map bk_p l) -> In b (upd_blk p f l) ->
  (In b l /\ bk_p b <> p) \/ (exists b0, In b0 l /\ bk_p b0 = p /\ b = f b0).
Proof.
  induction l as [|y r IH]; cbn; [intros _ []|]. intros Hnd. inversion Hnd as [|? ? Hni Hnd']; subst.
  destruct (bk_p y =? p) eqn:E.
  - apply N.eqb_eq in E. intros [<- |Hb]; [right; exists y; auto|].
    left. split; [right; assumption|]. intros Eb. apply Hni. rewrite E, <- Eb. apply in_map. assumption.
  - apply N.eqb_neq in E. intros [<- |Hb]; [left; auto|].
    destruct (IH Hnd' Hb) as [[H1 H2]| (b0 & H1 & H2 & H3)]; [left; auto|right; exists b0; auto].
Qed.

Section Free.
Variable c : cfg.
Hypothesis F : cfg_facts c.
Hypothesis Hpo : poison c = true.
Variables (k : N) (s : state).
Hypothesis I : Inv c k s.

(* the bytes a free of p may poison: the dying block (small) or its whole region (large) *)
Definition dying (p x : N) : Prop :=
  match lookup c s p with
  | FSlab y => p <= x /\ x < p + sl_item y
  | FLarge y => lg_base y <= x /\ x < lg_base y + lg_res y
  | FNone => False
  end.

Lemma free_poisons_dying p sz b cb x :
  In b (live s) -> bk_p b = p ->
  In cb (cbs_of (free_ c s p sz)) -> poisons cb x = true -> dying p x.
Proof.
  intros Hb Hbp Hin Hp. assert (Hp0 : p <> 0) by (rewrite <- Hbp; apply (live_nonzero c F k s I b Hb)).
  unfold dying. unfold free_ in Hin. pose proof Hp0 as Hp0'. apply N.eqb_neq in Hp0'. rewrite Hp0' in Hin.
  destruct (live_lookup c F k s I b Hb) as [(y & Hy & L & O & Z & R)| (y & Hy & L & E & Z & R)];
    rewrite Hbp in *; rewrite L in *.
  - assert (K : In cb (CAccess false (sl_frame y) (hdr_slab c) :: cbs_of (free_small c s y p)) -> p <= x /\ x < p + sl_item y).
    { intros [<- |Hc]; [discriminate|]. pose proof (I_slab _ _ _ I y Hy) as S.
      unfold free_small in Hc. rewrite (obj_contains c F _ _ y p S O) in Hc. cbn [negb] in Hc.
      rewrite (find_blk_in p (live s) b (I_live_nodup _ _ _ I) Hb Hbp) in Hc.
      assert (E : (sl_nres y =? 0) = false) by (apply N.eqb_neq; pose proof (nres_pos c k s I y p b Hy Hb Hbp O); lia).
      rewrite E in Hc.
      assert (E2 : match sl_avail y with [] => false | a :: _ => negb (sl_contains c y a) end = false).
      { destruct (sl_avail y) as [|a r] eqn:Ea; [reflexivity|].
        rewrite (obj_contains c F _ _ y a S); [reflexivity|]. apply (so_avail _ _ _ _ S). rewrite Ea. left. reflexivity. }
      rewrite E2 in Hc. unfold cbs_of in Hc. cbn [snd] in Hc. unfold pcb in Hc. rewrite Hpo in Hc. cbn in Hc.
      destruct Hc as [<- |[<- |[<- |[<- |[<- |[]]]]]]; cbn in Hp; try discriminate. apply in_range_spec in Hp. exact Hp. }
    destruct sz as [n|]; [destruct (n <=? sl_item y)|]; try (destruct (free_small c s y p) as [[s' r] cbs]; cbn in *; apply K; exact Hin).
    cbn in Hin. destruct Hin.
  - pose proof (I_large _ _ _ I y Hy) as Ly.
    assert (K : In cb (cbs_of (free_large c s y p)) -> lg_base y <= x /\ x < lg_base y + lg_res y).
    { intros Hc. unfold free_large in Hc. rewrite E, N.eqb_refl in Hc. cbn [negb] in Hc. rewrite <- E in Hc.
      rewrite (find_blk_in p (live s) b (I_live_nodup _ _ _ I) Hb Hbp) in Hc. unfold cbs_of in Hc. cbn [snd] in Hc.
      unfold pcb in Hc. rewrite Hpo in Hc. cbn in Hc.
      pose proof (lo_lo _ _ Ly). pose proof (lo_hi _ _ Ly). pose proof (cf_hdrf_page c F).
      destruct Hc as [<- |[<- |[<- |[<- |[]]]]]; cbn in Hp; try discriminate; apply in_range_spec in Hp; unfold lg_addr in *; lia. }
    destruct sz as [n|]; [destruct (n <=? lg_len y)|]; try (apply K; exact Hin). cbn in Hin. destruct Hin.
Qed.

Lemma others_not_dying p b b' x :
  In b (live s) -> bk_p b = p -> In b' (live s) -> bk_p b' <> p ->
  bk_p b' <= x -> x < bk_p b' + N.max (bk_req b') 1 -> ~ dying p x.
Proof.
  intros Hb Hbp Hb' Hne H1 H2 D. unfold dying in D.
  pose proof (live_size c F k s I b' Hb') as [_ R'].
  destruct (live_lookup c F k s I b Hb) as [(y & Hy & L & O & Z & R)| (y & Hy & L & E & Z & R)];
    rewrite Hbp in *; rewrite L in *.
  - pose proof (live_disjoint c F k s I b' b Hb' Hb ltac:(congruence)) as Dj. unfold disjoint in Dj. rewrite Hbp, Z in Dj. lia.
  - (* b' lies in another frame's region *)
    destruct (live_extent c F k s I b' Hb') as (f & rg & Hf & A1 & A2 & K).
    assert (Hfx : f <> lg_frame y).
    { intros ->. destruct K as [(x1 & Hx1 & E1 & _)| (x1 & Hx1 & E1 & P & _)].
      - apply (slab_large_frames c k s I x1 y Hx1 Hy). assumption.
      - assert (x1 = y) by (apply (large_by_frame c k s I); assumption). subst x1. congruence. }
    pose proof (frames_apart c k s I f rg (lg_frame y) (lg_region y) (bk_p b') (bk_size0 b') (lg_base y) (lg_res y)
                  Hf (in_frames_large s y Hy) Hfx A1 A2) as Dj.
    cbn in Dj. specialize (Dj ltac:(lia) ltac:(lia)). unfold disjoint in Dj. lia.
Qed.

Lemma free_sh sh p sz :
  is_live s p = true -> match sz with Some n => n <= cur_size c s p | None => True end ->
  live_unpoisoned s sh ->
  live_unpoisoned (st_of (free_ c s p sz)) (sh_fold sh (cbs_of (free_ c s p sz))).
Proof.
  intros Hl Hsz H. destruct (is_live_in s p Hl) as (b & Hb & Hbp & _).
  destruct (free_inv c k s p sz F I Hl Hsz) as (_ & _ & L).
  intros b' x Hb' H1 H2. rewrite L in Hb'.
  pose proof (remove_blk_notin p (live s) (I_live_nodup _ _ _ I) b' Hb') as Hne.
  apply in_remove_blk in Hb'.
  apply sh_fold_keep; [eapply H; eauto|].
  intros cb Hcb. destruct (poisons cb x) eqn:Ep; [exfalso|reflexivity].
  apply (others_not_dying p b b' x Hb Hbp Hb' Hne H1 H2).
  apply (free_poisons_dying p sz b cb x Hb Hbp Hcb Ep).
Qed.

End Free.

(* ---------- a whole step ---------- *)
Lemma live_unpoisoned_same_keys s s' sh :
  (forall b', In b' (live s') -> exists b, In b (live s) /\ bk_p b = bk_p b' /\ bk_req b = bk_req b') ->
  live_unpoisoned s sh -> live_unpoisoned s' sh.
Proof. intros K H b' x Hb' H1 H2. destruct (K b' Hb') as (b & Hb & E1 & E2). rewrite <- E1, <- E2 in *. eapply H; eauto. Qed.

Section StepSh.
Variable c : cfg.
Hypothesis F : cfg_facts c.
Hypothesis Hpo : poison c = true.
Variables (k : N) (s : state).
Hypothesis I : Inv c k s.
Hypothesis Hk : k + 1 < 4294967296.

Lemma step_sh sh o :
  op_policy_ok c s o = true -> op_api_ok c s o = true -> live_unpoisoned s sh ->
  live_unpoisoned (st_of (step c s o)) (sh_fold sh (cbs_of (step c s o))).
Proof.
  intros Hpol Hapi H.
  assert (Free_case : forall p sz,
            ((p =? 0) || is_live s p) = true ->
            match sz with Some n => (p =? 0) = true \/ n <= cur_size c s p | None => True end ->
            live_unpoisoned (st_of (free_ c s p sz)) (sh_fold sh (cbs_of (free_ c s p sz)))).
  { intros p sz Hl Hsz. destruct (p =? 0) eqn:Hp.
    - unfold free_. rewrite Hp. cbn. exact H.
    - cbn in Hl.
      assert (Hsz' : match sz with Some n => n <= cur_size c s p | None => True end).
      { destruct sz; [destruct Hsz as [Hsz|Hsz]; [discriminate|assumption]|exact Logic.I]. }
      apply (free_sh c F Hpo k s I sh p sz Hl Hsz' H). }
  destruct o as [n e|p|p n|p n e|p|p off len tag]; cbn [step].
  - apply (alloc_sh c k s sh n e F Hpo I (policy_env_fresh c s (Alloc n e) e Hpol eq_refl) H).
  - apply Free_case; [exact Hapi|exact Logic.I].
  - cbn in Hapi. apply Free_case.
    + destruct (p =? 0); [reflexivity|]. cbn in *. apply andb_prop in Hapi. tauto.
    + destruct (p =? 0); [left; reflexivity|]. cbn in Hapi. apply andb_prop in Hapi. right. apply N.leb_le. tauto.
  - cbn in Hapi. apply andb_prop in Hapi. destruct Hapi as [Hl _].
    pose proof (policy_env_fresh c s (Realloc p n e) e Hpol eq_refl) as Henv. cbn [map_len] in Henv.
    unfold realloc.
    destruct (p =? 0) eqn:Hp; [apply (alloc_sh c k s sh n e F Hpo I Henv H)|].
    cbn in Hl.
    destruct (n =? 0) eqn:Hn.
    { pose proof (Free_case p None ltac:(rewrite Hp; exact Hl) Logic.I) as Q.
      destruct (free_ c s p None) as [[s' r] cbs]. cbn in *. exact Q. }
    destruct (is_live_in s p Hl) as (b & Hb & Hbp & Hfind). rewrite Hfind.
    apply N.eqb_neq in Hp. apply N.eqb_neq in Hn.
    rewrite (get_size_lookup c s p Hp) in Henv. cbv zeta.
    assert (G : forall hdr fr cur, bk_size0 b = cur ->
               (forall len, (if n <=? cur then None else alloc_map_len c s n) = Some len -> env_fresh c s len e) ->
               let x := (if n <=? cur
                         then (set_req s p n, RPtr p, CAccess false fr hdr :: inplace_cbs c p cur n)
                         else
                           let '(s1, r, cbs) := alloc c s n e in
                           match r with
                           | RPtr q =>
                             let s2 := move_log s1 p q in
                             let '(s3, r3, cbs3) := free_ c s2 p None in
                             (s3, match r3 with RUnit => RPtr q | _ => r3 end,
                              CAccess false fr hdr :: cbs ++ pcb c [CUnpoisonExpand p cur]
                              ++ [CAccess false p cur; CAccess true q cur] ++ cbs3)
                           | _ => (s1, r, CAccess false fr hdr :: cbs)
                           end) in
               live_unpoisoned (st_of x) (sh_fold sh (cbs_of x))).
    { intros hdr fr cur Hcur Henv'. destruct (n <=? cur) eqn:Hle.
      - (* in place *)
        unfold st_of, cbs_of. cbn [fst snd]. unfold inplace_cbs, pcb. rewrite Hpo. rewrite set_req_eq. unfold with_live.
        intros b' x Hb' H1 H2. cbn [live] in Hb'.
        destruct (in_upd_blk_strong p _ (live s) b' (I_live_nodup _ _ _ I) Hb') as [[Hb0 Hne]| (b0 & Hb0 & Hp0 & ->)].
        + apply sh_fold_keep; [eapply H; eauto|].
          intros cb [<- |[<- |[<- |[<- |[]]]]]; try reflexivity. cbn.
          destruct (in_range p cur x) eqn:E; [exfalso|reflexivity]. apply in_range_spec in E.
          pose proof (live_size c F k s I b' Hb0) as [_ R'].
          pose proof (live_disjoint c F k s I b' b Hb0 Hb ltac:(congruence)) as Dj. unfold disjoint in Dj.
          rewrite Hbp, Hcur in Dj. lia.
        + cbn [bk_p bk_req] in *.
          change [CAccess false fr hdr; CUnpoisonExpand p cur; CPoison p cur; CUnpoison p n]
            with ([CAccess false fr hdr; CUnpoisonExpand p cur; CPoison p cur] ++ [CUnpoison p n]).
          apply sh_fold_unpoison_last. apply in_range_spec. lia.
      - destruct (alloc_inv c k s n e F I Henv') as [I1 [[R [S1 _]]| (q & sz & unp & R & L1)]].
        + pose proof (alloc_sh c k s sh n e F Hpo I Henv' H) as Q.
          destruct (alloc c s n e) as [[s1 r] cbs]. cbn in *. subst r s1. cbn. exact Q.
        + pose proof (alloc_sh c k s sh n e F Hpo I Henv' H) as Q.
          destruct (alloc c s n e) as [[s1 r] cbs]. cbn in R, L1, I1, Q. subst r. cbv zeta.
          destruct (move_log_inv c (k + 1) s1 p q I1) as [I2 LP].
          assert (Hl2 : is_live (move_log s1 p q) p = true).
          { apply is_live_iff; [apply (I_live_nodup _ _ _ I2)|]. rewrite LP. unfold live_ptrs. rewrite L1. cbn. right.
            rewrite <- Hbp. apply in_map. assumption. }
          (* after the allocation and the unpoison_expand of the source, on the state with the log moved *)
          assert (Q2 : live_unpoisoned (move_log s1 p q)
                         (sh_fold sh ((CAccess false fr hdr :: cbs ++ pcb c [CUnpoisonExpand p cur]) ++ [CAccess false p cur; CAccess true q cur]))).
          { apply (live_unpoisoned_same_keys s1).
            - intros b' Hb'. rewrite move_log_eq in Hb'. destruct (find_blk p (live s1)) as [bp|]; [|eauto].
              unfold with_live in Hb'. cbn [live] in Hb'. apply in_upd_blk in Hb'.
              destruct Hb' as [Hb'|(b0 & Hb0 & _ & ->)]; eauto.
            - rewrite sh_fold_app. apply live_unpoisoned_keep.
              + cbn [app]. change (sh_fold sh (CAccess false fr hdr :: cbs ++ pcb c [CUnpoisonExpand p cur]))
                  with (sh_fold sh (cbs ++ pcb c [CUnpoisonExpand p cur])).
                rewrite sh_fold_app. apply live_unpoisoned_keep; [exact Q|].
                intros b' x cb _ _ _ Hcb. unfold pcb in Hcb. rewrite Hpo in Hcb. destruct Hcb as [<- |[]]. reflexivity.
              + intros b' x cb _ _ _ [<- |[<- |[]]]; reflexivity. }
          pose proof (free_sh c F Hpo (k + 1) (move_log s1 p q) I2 _ p None Hl2 Logic.I Q2) as Q3.
          destruct (free_ c (move_log s1 p q) p None) as [[s3 r3] cbs3]. cbn in Q3 |- *.
          unfold sh_fold in *. rewrite <- fold_left_app in Q3. rewrite <- !app_assoc in Q3. cbn [app] in Q3. exact Q3. }
    destruct (live_lookup c F k s I b Hb) as [(x & Hx & L & O & Z & R)| (x & Hx & L & E & Z & R)];
      rewrite Hbp in *; rewrite L in *.
    + rewrite (obj_contains c F _ _ x p (I_slab _ _ _ I x Hx) O). cbn [negb]. apply G; auto.
    + rewrite <- E, N.eqb_refl. cbn [negb]. apply G; auto.
  - unfold st_of, cbs_of. cbn [fst snd].
    assert (E : forall l, (forall cb, In cb l -> exists w a m, cb = CAccess w a m) -> sh_fold sh l = sh).
    { induction l as [|cb t IHl]; [reflexivity|]. intros Hl. destruct (Hl cb (or_introl eq_refl)) as (w & a & m & ->).
      cbn. apply IHl. intros cb' Hc. apply Hl. right. assumption. }
    rewrite E; [exact H|]. intros cb Hcb. destruct (p =? 0); [destruct Hcb|].
    destruct (lookup c s p); cbn in Hcb; [destruct Hcb as [<- |[]]; eauto|destruct Hcb as [<- |[]]; eauto|destruct Hcb].
  - cbn in Hapi. unfold write_. destruct (find_blk p (live s)) as [b|] eqn:E; [|discriminate].
    cbn. apply (live_unpoisoned_same_keys s); [|exact H].
    intros b' Hb'. cbn [live] in Hb'. apply in_upd_blk in Hb'. destruct Hb' as [Hb'|(b0 & Hb0 & _ & ->)]; eauto.
Qed.

End StepSh.

(* ---------- whole histories ---------- *)
Lemma run_sh c : cfg_facts c -> poison c = true -> forall ops s sh,
  Inv c 0 s -> hist_ok_both c s ops -> live_unpoisoned s sh ->
  live_unpoisoned (run_from c s ops) (sh_fold sh (log_from c s ops)).
Proof.
  intros F Hpo. induction ops as [|o r IH]; intros s sh I [H1 H2] H.
  - cbn. exact H.
  - cbn [hist_ok] in H1, H2. apply andb_prop in H1. apply andb_prop in H2.
    destruct H1 as [P1 P2], H2 as [A1 A2].
    destruct (step_inv c F 0 s I ltac:(lia) o P1 A1) as [I' _].
    pose proof (step_sh c F Hpo 0 s I ltac:(lia) sh o P1 A1 H) as H'.
    cbn [log_from run_from fold_left]. rewrite sh_fold_app.
    apply (IH (st_of (step c s o)) _ (Inv_any c _ 0 _ I') (conj P2 A2) H').
Qed.

Theorem C03_poison_live_main :
  forall (c : cfg) (ops : list op),
    cfg_ok c = true -> poison c = true -> policy_ok c ops -> api_ok c ops ->
    forall pre, prefix pre ops ->
    let s := run c pre in
    let sh := sh_fold sh0 (log c pre) in
    forall b x, In b (live s) -> bk_p b <= x -> x < bk_p b + N.max (bk_req b) 1 -> sh x = true.
Proof.
  intros c ops Hc Hpo Hp Ha pre (suf & ->) s sh. pose proof (cfg_ok_facts c Hc) as F.
  unfold policy_ok, api_ok in *. apply hist_ok_app in Hp. apply hist_ok_app in Ha.
  apply (run_sh c F Hpo pre (init c) sh0 (init_inv c F) (conj Hp Ha)).
  intros b x [].
Qed.
