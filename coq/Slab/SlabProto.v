(* C03 (state-independent part): which policy calls a step can make. *)
From Coq Require Import List NArith Bool Lia ZifyBool ZifyNat ZifyN.
From FV Require Import Slab.SlabModel Slab.SlabArith Slab.SlabBasics.
Import ListNotations.
Local Open Scope N_scope.

Lemma lookup_large_in c s p x : lookup c s p = FLarge x -> In x (larges s).
Proof.
  unfold lookup. destruct (find_slab _ _); [discriminate|].
  destruct (find_large _ _) eqn:E; [|discriminate]. intros [= <-]. apply find_large_some in E. tauto.
Qed.

Lemma lookup_slab_in c s p x : lookup c s p = FSlab x -> In x (slabs s).
Proof.
  unfold lookup. destruct (find_slab _ _) eqn:E; [|destruct (find_large _ _); discriminate].
  intros [= <-]. apply find_slab_some in E. tauto.
Qed.

Lemma in_mapped_large s x : In x (larges s) -> In (lg_base x, lg_res x) (mapped s).
Proof. intros H. unfold mapped. apply in_or_app. right. apply (in_map lg_region) in H. exact H. Qed.

Lemma in_mapped_slab s x : In x (slabs s) -> In (sl_base x, sl_res x) (mapped s).
Proof. intros H. unfold mapped. apply in_or_app. left. apply (in_map sl_region) in H. exact H. Qed.

Lemma free_small_no_unmap c s x p b l : ~ In (CUnmap b l) (cbs_of (free_small c s x p)).
Proof.
  unfold free_small.
  destruct (negb (sl_contains c x p)); [cbn; tauto|].
  destruct (find_blk p (live s)); [|cbn; tauto].
  destruct (sl_nres x =? 0); [cbn; tauto|].
  destruct (match sl_avail x with [] => false | a :: _ => negb (sl_contains c x a) end); [cbn; tauto|].
  unfold cbs_of, pcb. cbn [snd]. destruct (poison c); cbn; intuition discriminate.
Qed.

Lemma free_large_unmap c s x p b l :
  In (CUnmap b l) (cbs_of (free_large c s x p)) -> (b, l) = (lg_base x, lg_res x).
Proof.
  unfold free_large.
  destruct (negb (lg_addr c x =? p)); [cbn; tauto|].
  destruct (find_blk p (live s)); [|cbn; tauto].
  unfold cbs_of, pcb. cbn [snd]. destruct (poison c); cbn; intuition congruence.
Qed.

(* free / deallocate hand back only a region that is currently mapped, with exactly the base and length of the
   map() call that produced it (the frame remembers sb_base / sb_reservation) *)
Lemma free_unmaps_mapped c s p sz b l :
  In (CUnmap b l) (cbs_of (free_ c s p sz)) -> In (b, l) (mapped s).
Proof.
  unfold free_. destruct (p =? 0); [cbn; tauto|].
  destruct (lookup c s p) as [x|x|] eqn:L; [| |cbn; tauto].
  - assert (In (CUnmap b l) (cbs_of (let '(s', r0, cbs) := free_small c s x p in
                                              (s', r0, CAccess false (sl_frame x) (hdr_slab c) :: cbs))) -> False) as K.
    { pose proof (free_small_no_unmap c s x p b l) as Hn.
      destruct (free_small c s x p) as [[s' r0] cbs]. cbn in *. intros [H|H]; [discriminate|tauto]. }
    destruct sz as [n|]; [destruct (n <=? sl_item x)|]; intros H; try (exfalso; exact (K H)).
    cbn in H. tauto.
  - assert (In (CUnmap b l) (cbs_of (free_large c s x p)) -> In (b, l) (mapped s)) as K.
    { intros H. apply free_large_unmap in H. rewrite H. apply in_mapped_large. eapply lookup_large_in; eauto. }
    destruct sz as [n|]; [destruct (n <=? lg_len x)|]; intros H; auto. cbn in H. tauto.
Qed.

Lemma step_free_unmaps_mapped c s o b l :
  (exists p, o = Free p) \/ (exists p n, o = Dealloc p n) ->
  In (CUnmap b l) (cbs_of (step c s o)) -> In (b, l) (mapped s).
Proof. intros [(p & ->)|(p & n & ->)]; cbn [step]; apply free_unmaps_mapped. Qed.
