(* C02_owner_only_writes: the pool's own write accesses (frame headers, link words of free objects, the memcpy
   destination) never land in a block that is live throughout the call. *)
From Coq Require Import List NArith Bool Lia ZifyBool ZifyNat ZifyN.
From FV Require Import Slab.SlabModel Slab.SlabArith Slab.SlabBasics Slab.SlabFail Slab.SlabInv
  Slab.SlabInvAlloc Slab.SlabInvFree Slab.SlabInvStep Slab.SlabC01 Slab.SlabC02.
Import ListNotations.
Local Open Scope N_scope.

Definition is_write (cb : callback) (a n : N) : Prop := cb = CAccess true a n.

Lemma write_in_pcb c l a n : In (CAccess true a n) (pcb c l) -> In (CAccess true a n) l.
Proof. unfold pcb. destruct (poison c); [auto|intros []]. Qed.

Lemma write_in_carve c up a n :
  In (CAccess true a n) (flat_map (fun o => pcb c [CUnpoison o 8] ++ [CAccess true o 8]) up) -> In a up /\ n = 8.
Proof.
  intros H. apply in_flat_map in H. destruct H as (o & Ho & H). apply in_app_iff in H. destruct H as [H|H].
  - apply write_in_pcb in H. destruct H as [H|[]]. discriminate.
  - destruct H as [[= <- <-]|[]]. auto.
Qed.

(* the blocks that are live after the call and were live before it *)
Definition survivors_untouched (s s' : state) (cbs : list callback) : Prop :=
  forall a n, In (CAccess true a n) cbs ->
  forall b', In b' (live s') -> In (bk_p b') (live_ptrs s) -> disjoint (bk_p b') (bk_size0 b') a n.

Lemma disjoint_sub p sz a n a' n' : disjoint p sz a n -> a <= a' -> a' + n' <= a + n -> disjoint p sz a' n'.
Proof. unfold disjoint. lia. Qed.

Section Writes.
Variable c : cfg.
Hypothesis F : cfg_facts c.
Variables (k : N) (s : state).
Hypothesis I : Inv c k s.

Lemma alloc_writes n e :
  (forall len, alloc_map_len c s n = Some len -> env_fresh c s len e) ->
  survivors_untouched s (st_of (alloc c s n e)) (cbs_of (alloc c s n e)).
Proof.
  intros Henv.
  destruct (alloc_inv c k s n e F I Henv) as [I' _].
  unfold alloc, alloc_map_len in *. fold (norm_req n) in *.
  pose proof (norm_req_pos n) as Hpos.
  destruct (norm_req n <=? max_bucket_size c) eqn:Hs.
  - apply N.leb_le in Hs.
    assert (Hidx : s2b (norm_req n) < nbuckets c) by (apply s2b_bound; [apply (cf_nb_pos c F)|assumption|exact Hs]).
    assert (Hle : (s2b (norm_req n) <=? nbuckets c) = true) by (apply N.leb_le; lia).
    rewrite Hle in *. cbn [negb] in *. set (idx := s2b (norm_req n)) in *.
    destruct (bucket s idx) as [|h t] eqn:Hb.
    + specialize (Henv _ eq_refl). destruct (N.eq_dec (env_ret e) 0) as [E0|E0].
      * unfold alloc_small. rewrite Hb. apply N.eqb_eq in E0. rewrite E0. cbn. intros a m [H|[]]. discriminate.
      * destruct (Henv E0) as [Hfr Hal].
        destruct (alloc_small_new c F s idx (env_ret e) Hidx Hb Hal (norm_req n) n e eq_refl E0) as (o & a2 & av' & Hc & Hst & _).
        rewrite Hst in I' |- *.
        set (x' := mkSlab (frame_of_map c (env_ret e)) (env_ret e) (slab_map_len c) idx (a2 :: av') 1).
        assert (Hx' : In x' (slabs (newslab_state c s idx (env_ret e) (a2 :: av') (mkBlk o n (b2s idx) (norm_req n) [])))) by (left; reflexivity).
        assert (Hcbs : forall a m, In (CAccess true a m) (cbs_of (alloc_small c s (norm_req n) n idx e)) ->
                       (a = sl_frame x' /\ m = hdr_slab c) \/ (In a (o :: a2 :: av') /\ m = 8)).
        { intros a m. unfold alloc_small. rewrite Hb. pose proof E0 as E0'. apply N.eqb_neq in E0'. rewrite E0'.
          pose proof (overhead_lt_slabsz c idx F Hidx) as Ho. apply N.ltb_lt in Ho. rewrite Ho. cbn [negb].
          unfold construct_slab. cbn [sl_avail sl_frame]. pose proof Hc as Hc'. unfold carve in Hc'. rewrite Hc'.
          unfold hand_out, cbs_of. cbn [snd]. intros [H|H]; [discriminate|].
          repeat (apply in_app_iff in H; destruct H as [H|H]).
          - apply write_in_pcb in H. destruct H as [H|[]]. discriminate.
          - destruct H as [[= <- <-]|[]]. left. auto.
          - apply write_in_carve in H. destruct H as [H ->]. right. split; [|reflexivity].
            rewrite <- Hc. unfold carve. rewrite rev_append_rev, app_nil_r, <- in_rev. exact H.
          - destruct H as [H|[[= <- <-]|[]]]; [discriminate|]. left. auto.
          - apply write_in_pcb in H. destruct H as [H|[H|[]]]; discriminate. }
        intros a m Hw b' Hb' Hold. destruct (Hcbs a m Hw) as [[-> ->]|[Ha ->]].
        -- destruct (live_bookkeeping c F _ _ I' b' Hb') as (B1 & _ & _). apply (B1 x' Hx').
        -- destruct Ha as [<- |Ha].
           ++ (* the link word of the block that is handed out: not a survivor *)
              set (nb := mkBlk o n (b2s idx) (norm_req n) []).
              assert (Hnb : In nb (live (newslab_state c s idx (env_ret e) (a2 :: av') nb))) by (left; reflexivity).
              assert (Hne : bk_p b' <> o).
              { intros E. pose proof (I_live_nodup _ _ _ I') as Nd. unfold live_ptrs, newslab_state in Nd. cbn [live map bk_p] in Nd.
                apply NoDup_cons_iff in Nd. destruct Nd as [Hni _]. apply Hni. rewrite <- E. exact Hold. }
              pose proof (live_disjoint c F _ _ I' b' nb Hb' Hnb Hne) as D. cbn [bk_p bk_size0 nb] in D.
              pose proof (b2s_ge8 idx). apply (disjoint_sub _ _ o (b2s idx)); [exact D|lia|lia].
           ++ destruct (live_bookkeeping c F _ _ I' b' Hb') as (_ & _ & B3).
              pose proof (B3 x' a Hx' Ha) as D. unfold sl_item, x' in D. cbn [sl_idx] in D.
              pose proof (b2s_ge8 idx). apply (disjoint_sub _ _ a (b2s idx)); [exact D|lia|lia].
    + destruct (alloc_small_pop c F k s I idx h t Hidx Hb (norm_req n) n e) as (x & o & av & Hx & Hf & Hi & Ha & Hst & _).
      rewrite Hst in I' |- *.
      pose proof (find_slab_in h (slabs s) x (slab_frames_nodup c k s I) Hx Hf) as Hfind.
      pose proof (I_slab _ _ _ I x Hx) as Sx.
      assert (Oo : obj_of c x o) by (apply (so_avail _ _ _ _ Sx); rewrite Ha; left; reflexivity).
      set (x' := set_avail x av (wrap32 (sl_nres x + 1))).
      assert (Hx' : In x' (slabs (pop_state s idx h x av (mkBlk o n (b2s idx) (norm_req n) [])))).
      { unfold pop_state. cbn [slabs]. apply (in_upd_slab_const h x x' (slabs s) x' (slab_frames_nodup c k s I) Hx Hf). right. reflexivity. }
      intros a m Hw b' Hb' _.
      assert (Hcbs : a = sl_frame x' /\ m = hdr_slab c).
      { revert Hw. unfold alloc_small. rewrite Hb. unfold pop_head. rewrite Hfind, Ha.
        rewrite (obj_contains c F _ _ x o Sx Oo). cbn [negb]. unfold hand_out, cbs_of. cbn [snd].
        intros H. apply in_app_iff in H. destruct H as [H|H].
        - destruct H as [H|[H|[[= <- <-]|[]]]]; try discriminate. cbn. auto.
        - apply write_in_pcb in H. destruct H as [H|[H|[]]]; discriminate. }
      destruct Hcbs as [-> ->].
      destruct (live_bookkeeping c F _ _ I' b' Hb') as (B1 & _ & _). apply (B1 x' Hx').
  - specialize (Henv _ eq_refl). destruct (N.eq_dec (env_ret e) 0) as [E0|E0].
    + unfold alloc_large. apply N.eqb_eq in E0. rewrite E0. cbn. intros a m [H|[]]. discriminate.
    + destruct (alloc_large_ok c s (norm_req n) n (env_ret e) e eq_refl E0) as [Hst _]. rewrite Hst in I' |- *.
      set (x := mkLarge (lfr c (env_ret e)) (env_ret e) (large_map_len c (area c (norm_req n))) (area c (norm_req n))).
      assert (Hx : In x (larges (newlarge_state c s (norm_req n) n (env_ret e)))) by (left; reflexivity).
      intros a m Hw b' Hb' _.
      assert (Hcbs : a = lg_frame x /\ m = hdr_frame c).
      { revert Hw. unfold alloc_large. pose proof E0 as E0'. apply N.eqb_neq in E0'. rewrite E0'. unfold cbs_of. cbn [snd].
        intros [H|H]; [discriminate|]. apply in_app_iff in H. destruct H as [H|H].
        - apply write_in_pcb in H. destruct H as [H|[H|[]]]; discriminate.
        - destruct H as [[= <- <-]|[]]. auto. }
      destruct Hcbs as [-> ->].
      destruct (live_bookkeeping c F _ _ I' b' Hb') as (_ & B2 & _). apply (B2 x Hx).
Qed.

Lemma free_writes p sz :
  is_live s p = true -> match sz with Some n => n <= cur_size c s p | None => True end ->
  forall a n, In (CAccess true a n) (cbs_of (free_ c s p sz)) ->
  forall b', In b' (live (st_of (free_ c s p sz))) -> disjoint (bk_p b') (bk_size0 b') a n.
Proof.
  intros Hl Hsz. destruct (free_inv c k s p sz F I Hl Hsz) as (I' & _ & _).
  destruct (is_live_in s p Hl) as (b & Hb & Hbp & _).
  assert (Hp0 : p <> 0) by (rewrite <- Hbp; apply (live_nonzero c F k s I b Hb)).
  rewrite (get_size_lookup c s p Hp0) in Hsz. revert I'.
  unfold free_. apply N.eqb_neq in Hp0. rewrite Hp0.
  destruct (live_lookup c F k s I b Hb) as [(x & Hx & L & O & Z & R)| (x & Hx & L & E & Z & R)];
    rewrite Hbp in *; rewrite L in *.
  - destruct (free_small_ok c F k s I x p b Hx Hb Hbp O) as [E1 _].
    set (x' := set_avail x (p :: sl_avail x) (sl_nres x - 1)).
    assert (K : forall t, t = free_small c s x p ->
               let y := (let '(s', r, cbs) := t in (s', r, CAccess false (sl_frame x) (hdr_slab c) :: cbs)) in
               Inv c k (st_of y) ->
               forall a n, In (CAccess true a n) (cbs_of y) -> forall b', In b' (live (st_of y)) -> disjoint (bk_p b') (bk_size0 b') a n).
    { intros [[s' r] cbs] Et y I' a m Hw b' Hb'. subst y. cbn [st_of cbs_of fst snd] in *. rewrite <- Et in E1. cbn in E1. subst s'.
      assert (Hx' : In x' (slabs (free_small_state s x p))).
      { unfold free_small_state. cbn [slabs]. apply (in_upd_slab_const (sl_frame x) x x' (slabs s) x' (slab_frames_nodup c k s I) Hx eq_refl). right. reflexivity. }
      destruct Hw as [Hw|Hw]; [discriminate|].
      assert (Hcl : (a = p /\ m = 8) \/ (a = sl_frame x' /\ m = hdr_slab c)).
      { assert (Ecbs : cbs = cbs_of (free_small c s x p)) by (rewrite <- Et; reflexivity). rewrite Ecbs in Hw. revert Hw.
        pose proof (I_slab _ _ _ I x Hx) as S.
        unfold free_small. rewrite (obj_contains c F _ _ x p S O). cbn [negb].
        rewrite (find_blk_in p (live s) b (I_live_nodup _ _ _ I) Hb Hbp).
        assert (En : (sl_nres x =? 0) = false) by (apply N.eqb_neq; pose proof (nres_pos c k s I x p b Hx Hb Hbp O); lia).
        rewrite En.
        assert (E2 : match sl_avail x with [] => false | a0 :: _ => negb (sl_contains c x a0) end = false).
        { destruct (sl_avail x) as [|a0 r0] eqn:Ea; [reflexivity|].
          rewrite (obj_contains c F _ _ x a0 S); [reflexivity|]. apply (so_avail _ _ _ _ S). rewrite Ea. left. reflexivity. }
        rewrite E2. unfold cbs_of. cbn [snd]. intros H. apply in_app_iff in H. destruct H as [H|H].
        - apply write_in_pcb in H. destruct H as [H|[H|[H|[]]]]; discriminate.
        - destruct H as [[= <- <-]|[[= <- <-]|[]]]; auto. }
      destruct (live_bookkeeping c F _ _ I' b' Hb') as (B1 & _ & B3).
      destruct Hcl as [[-> ->]|[-> ->]]; [|apply (B1 x' Hx')].
      pose proof (B3 x' p Hx' ltac:(left; reflexivity)) as D. change (sl_item x') with (sl_item x) in D.
      pose proof (b2s_ge8 (sl_idx x)). unfold sl_item in D. apply (disjoint_sub _ _ p (b2s (sl_idx x))); [exact D|lia|lia]. }
    destruct sz as [n0|]; [apply N.leb_le in Hsz; rewrite Hsz|]; intros I'; apply K; auto.
  - assert (K : forall a n, ~ In (CAccess true a n) (cbs_of (free_large c s x p))).
    { intros a m. unfold free_large. rewrite E, N.eqb_refl. cbn [negb]. rewrite <- E.
      rewrite (find_blk_in p (live s) b (I_live_nodup _ _ _ I) Hb Hbp). unfold cbs_of. cbn [snd].
      intros H. repeat (apply in_app_iff in H; destruct H as [H|H]).
      - destruct H as [H|[]]. discriminate.
      - apply write_in_pcb in H. destruct H as [H|[H|[]]]; discriminate.
      - destruct H as [H|[]]. discriminate. }
    destruct sz as [n0|]; [apply N.leb_le in Hsz; rewrite Hsz|]; intros _ a m Hw; exfalso; apply (K a m Hw).
Qed.

End Writes.

Section StepWrites.
Variable c : cfg.
Hypothesis F : cfg_facts c.
Variables (k : N) (s : state).
Hypothesis I : Inv c k s.

Lemma step_writes o :
  op_policy_ok c s o = true -> op_api_ok c s o = true ->
  survivors_untouched s (st_of (step c s o)) (cbs_of (step c s o)).
Proof.
  intros Hpol Hapi.
  assert (Free_case : forall p sz,
            ((p =? 0) || is_live s p) = true ->
            match sz with Some n => (p =? 0) = true \/ n <= cur_size c s p | None => True end ->
            survivors_untouched s (st_of (free_ c s p sz)) (cbs_of (free_ c s p sz))).
  { intros p sz Hl Hsz. destruct (p =? 0) eqn:Hp.
    - unfold free_. rewrite Hp. cbn. intros a n [].
    - cbn in Hl.
      assert (Hsz' : match sz with Some n => n <= cur_size c s p | None => True end).
      { destruct sz; [destruct Hsz as [Hsz|Hsz]; [discriminate|assumption]|exact Logic.I]. }
      intros a n Hw b' Hb' _. apply (free_writes c F k s I p sz Hl Hsz' a n Hw b' Hb'). }
  destruct o as [n e|p|p n|p n e|p|p off len tag]; cbn [step].
  - apply (alloc_writes c F k s I n e (policy_env_fresh c s (Alloc n e) e Hpol eq_refl)).
  - apply Free_case; [exact Hapi|exact Logic.I].
  - cbn in Hapi. apply Free_case.
    + destruct (p =? 0); [reflexivity|]. cbn in *. apply andb_prop in Hapi. tauto.
    + destruct (p =? 0); [left; reflexivity|]. cbn in Hapi. apply andb_prop in Hapi. right. apply N.leb_le. tauto.
  - cbn in Hapi. apply andb_prop in Hapi. destruct Hapi as [Hl _].
    pose proof (policy_env_fresh c s (Realloc p n e) e Hpol eq_refl) as Henv. cbn [map_len] in Henv.
    unfold realloc.
    destruct (p =? 0) eqn:Hp; [apply (alloc_writes c F k s I n e Henv)|].
    cbn in Hl.
    destruct (n =? 0) eqn:Hn.
    { pose proof (Free_case p None ltac:(rewrite Hp; exact Hl) Logic.I) as Q.
      destruct (free_ c s p None) as [[s' r] cbs]. cbn in *. exact Q. }
    destruct (is_live_in s p Hl) as (b & Hb & Hbp & Hfind). rewrite Hfind.
    apply N.eqb_neq in Hp. apply N.eqb_neq in Hn.
    rewrite (get_size_lookup c s p Hp) in Henv. cbv zeta.
    assert (G : forall hdr fr cur, bk_size0 b = cur ->
               (forall len, (if n <=? cur then None else alloc_map_len c s n) = Some len -> env_fresh c s len e) ->
               let x := (if n <=? cur
                         then (set_req s p n, RPtr p, CAccess false fr hdr :: inplace_cbs c p cur n)
                         else
                           let '(s1, r, cbs) := alloc c s n e in
                           match r with
                           | RPtr q =>
                             let s2 := move_log s1 p q in
                             let '(s3, r3, cbs3) := free_ c s2 p None in
                             (s3, match r3 with RUnit => RPtr q | _ => r3 end,
                              CAccess false fr hdr :: cbs ++ pcb c [CUnpoisonExpand p cur]
                              ++ [CAccess false p cur; CAccess true q cur] ++ cbs3)
                           | _ => (s1, r, CAccess false fr hdr :: cbs)
                           end) in
               survivors_untouched s (st_of x) (cbs_of x)).
    { intros hdr fr cur Hcur Henv'. destruct (n <=? cur) eqn:Hle.
      - cbn. intros a m [H|H]; [discriminate|]. unfold inplace_cbs in H. apply write_in_pcb in H.
        destruct H as [H|[H|[H|[]]]]; discriminate.
      - apply N.leb_gt in Hle.
        pose proof (alloc_writes c F k s I n e Henv') as Wa.
        destruct (alloc_inv c k s n e F I Henv') as [I1 [[R [S1 _]]| (q & sz & unp & R & L1)]].
        + destruct (alloc c s n e) as [[s1 r] cbs]. cbn in *. subst r s1. cbn.
          intros a m [H|H]; [discriminate|]. apply (Wa a m H).
        + destruct (alloc c s n e) as [[s1 r] cbs]. cbn in R, L1, I1, Wa. subst r. cbv zeta.
          assert (Hq : ~ In q (live_ptrs s)).
          { pose proof (I_live_nodup _ _ _ I1) as Nd. unfold live_ptrs in Nd. rewrite L1 in Nd. cbn in Nd.
            apply NoDup_cons_iff in Nd. tauto. }
          assert (Hqp : q <> p) by (intros ->; apply Hq; rewrite <- Hbp; apply in_map; assumption).
          assert (Hfind1 : find_blk p (live s1) = Some b).
          { rewrite L1. cbn. assert (Q : (q =? p) = false) by (apply N.eqb_neq; assumption). rewrite Q. exact Hfind. }
          assert (L2 : live (move_log s1 p q) = mkBlk q n sz unp (bk_log b) :: live s).
          { rewrite move_log_eq, Hfind1. unfold with_live. cbn [live]. rewrite L1. rewrite upd_blk_head by reflexivity. reflexivity. }
          destruct (move_log_inv c (k + 1) s1 p q I1) as [I2 LP].
          assert (Hl2 : is_live (move_log s1 p q) p = true).
          { apply is_live_iff; [apply (I_live_nodup _ _ _ I2)|]. rewrite LP. unfold live_ptrs. rewrite L1. cbn. right.
            rewrite <- Hbp. apply in_map. assumption. }
          pose proof (free_writes c F (k + 1) (move_log s1 p q) I2 p None Hl2 Logic.I) as Wf.
          destruct (free_inv c (k + 1) (move_log s1 p q) p None F I2 Hl2 Logic.I) as (I3 & _ & L3).
          destruct (free_ c (move_log s1 p q) p None) as [[s3 r3] cbs3]. cbn [st_of cbs_of fst snd] in Wf, L3, I3 |- *.
          intros a m Hw b' Hb' Hold.
          (* a survivor is a block of s *)
          assert (Hbs : In b' (live s)).
          { rewrite L3, L2 in Hb'. apply in_remove_blk in Hb'. destruct Hb' as [<- |Hb']; [|assumption].
            exfalso. apply Hq. exact Hold. }
          destruct Hw as [Hw|Hw]; [discriminate|].
          apply in_app_iff in Hw. destruct Hw as [Hw|Hw].
          { apply (Wa a m Hw b'); [rewrite L1; right; assumption|assumption]. }
          apply in_app_iff in Hw. destruct Hw as [Hw|Hw].
          { apply write_in_pcb in Hw. destruct Hw as [Hw|[]]. discriminate. }
          apply in_app_iff in Hw. destruct Hw as [Hw|Hw]; [|apply (Wf a m Hw b' Hb')].
          destruct Hw as [Hw|[[= <- <-]|[]]]; [discriminate|].
          (* the memcpy destination is the block being returned *)
          set (nb := mkBlk q n sz unp []).
          assert (Hnb : In nb (live s1)) by (rewrite L1; left; reflexivity).
          assert (Hb1 : In b' (live s1)) by (rewrite L1; right; assumption).
          assert (Hne : bk_p b' <> q) by (intros E; apply Hq; rewrite <- E; apply in_map; assumption).
          pose proof (live_disjoint c F _ s1 I1 b' nb Hb1 Hnb Hne) as D. cbn [bk_p bk_size0 nb] in D.
          destruct (live_size c F _ s1 I1 nb Hnb) as [_ R1]. cbn [bk_req bk_size0 nb] in R1.
          apply (disjoint_sub _ _ q sz); [exact D|lia|lia]. }
    destruct (live_lookup c F k s I b Hb) as [(x & Hx & L & O & Z & R)| (x & Hx & L & E & Z & R)];
      rewrite Hbp in *; rewrite L in *.
    + rewrite (obj_contains c F _ _ x p (I_slab _ _ _ I x Hx) O). cbn [negb]. apply G; auto.
    + rewrite <- E, N.eqb_refl. cbn [negb]. apply G; auto.
  - cbn. intros a m H. destruct (p =? 0); [destruct H|]. destruct (lookup c s p); cbn in H; intuition discriminate.
  - cbn in Hapi. unfold write_. destruct (find_blk p (live s)) as [b|] eqn:E; [|discriminate]. cbn. intros a m [].
Qed.

End StepWrites.

Theorem C02_owner_only_writes_main :
  forall (c : cfg) (ops : list op) (o : op),
    cfg_ok c = true -> policy_ok c (ops ++ [o]) -> api_ok c (ops ++ [o]) ->
    let s := run c ops in
    let s' := st_of (step c s o) in
    forall a n, In (CAccess true a n) (cbs_of (step c s o)) ->
    forall b', In b' (live s') -> In (bk_p b') (live_ptrs s) -> disjoint (bk_p b') (bk_size0 b') a n.
Proof.
  intros c ops o Hc Hp Ha s s'. pose proof (cfg_ok_facts c Hc) as F.
  destruct (prefix_inv c _ ops Hc Hp Ha ltac:(eexists; reflexivity)) as [I _]. fold s in I.
  apply (step_writes c F 0 s I o (hist_ok_last _ c ops o Hp) (hist_ok_last _ c ops o Ha)).
Qed.
