(* C03: the map/unmap protocol read off the callback log, used-page accounting, "only slabs stay mapped". *)
From Coq Require Import List NArith Bool Lia ZifyBool ZifyNat ZifyN Permutation.
From FV Require Import Slab.SlabModel Slab.SlabArith Slab.SlabBasics Slab.SlabFail Slab.SlabInv
  Slab.SlabInvAlloc Slab.SlabInvFree Slab.SlabInvStep Slab.SlabC01.
Import ListNotations.
Local Open Scope N_scope.

(* ---------- the map/unmap sub-log ---------- *)
Definition is_mu (cb : callback) : bool := match cb with CMap _ _ _ | CUnmap _ _ => true | _ => false end.
Definition mu (l : list callback) : list callback := filter is_mu l.

Lemma mu_app l1 l2 : mu (l1 ++ l2) = mu l1 ++ mu l2.
Proof. apply filter_app. Qed.

Lemma mu_pcb c l : mu l = [] -> mu (pcb c l) = [].
Proof. unfold pcb. destruct (poison c); auto. Qed.

Lemma mu_carve c up : mu (flat_map (fun o => pcb c [CUnpoison o 8] ++ [CAccess true o 8]) up) = [].
Proof.
  induction up as [|o r IH]; [reflexivity|]. cbn [flat_map]. rewrite !mu_app, IH.
  rewrite mu_pcb by reflexivity. reflexivity.
Qed.

Lemma mu_hand_out c s o n' nreq idx : mu (snd (hand_out c s o n' nreq idx)) = [].
Proof. unfold hand_out. cbn [snd]. apply mu_pcb. reflexivity. Qed.

(* ---------- which map/unmap calls each path makes ---------- *)
Section Paths.
Variable c : cfg.
Hypothesis F : cfg_facts c.
Variables (k : N) (s : state).
Hypothesis I : Inv c k s.

Lemma mu_alloc_small_pop idx h t n' nreq e : idx < nbuckets c -> bucket s idx = h :: t ->
  mu (cbs_of (alloc_small c s n' nreq idx e)) = [].
Proof.
  intros Hidx Hb. destruct (head_slab c k s I idx h t Hidx Hb) as (x & o & av & Hx & Hf & Hi & Ha & Hfind).
  unfold alloc_small. rewrite Hb. unfold pop_head. rewrite Hfind, Ha.
  assert (C : sl_contains c x o = true).
  { eapply obj_contains; eauto. apply (I_slab _ _ _ I x Hx).
    apply (so_avail _ _ _ _ (I_slab _ _ _ I x Hx)). rewrite Ha. left. reflexivity. }
  rewrite C. cbn [negb].
  match goal with |- context [hand_out ?a ?b ?c0 ?d ?e0 ?f] => pose proof (mu_hand_out a b c0 d e0 f) as M; destruct (hand_out a b c0 d e0 f) as [s2 cbs] end.
  cbn [snd] in M. unfold cbs_of. cbn [snd]. rewrite mu_app, M. reflexivity.
Qed.

Lemma mu_alloc_small_new idx n' nreq e : idx < nbuckets c -> bucket s idx = [] -> env_ret e <> 0 ->
  (aligned c = true -> env_ret e mod sb c = 0) ->
  mu (cbs_of (alloc_small c s n' nreq idx e)) = [map_call c (slab_map_len c) e].
Proof.
  intros Hidx Hb Hr Hal. destruct (carve_two c F idx (env_ret e) Hidx Hal) as (o & a2 & av' & Hc).
  unfold alloc_small. rewrite Hb. apply N.eqb_neq in Hr. rewrite Hr.
  pose proof (overhead_lt_slabsz c idx F Hidx) as Ho. apply N.ltb_lt in Ho. rewrite Ho. cbn [negb].
  unfold construct_slab. cbn [sl_avail]. unfold carve in Hc. rewrite Hc.
  match goal with |- context [hand_out ?a ?b ?c0 ?d ?e0 ?f] => pose proof (mu_hand_out a b c0 d e0 f) as M; destruct (hand_out a b c0 d e0 f) as [s2 cbs] end.
  cbn [snd] in M. unfold cbs_of. cbn [snd].
  change (mu (map_call c (slab_map_len c) e :: ?l)) with (map_call c (slab_map_len c) e :: mu l).
  unfold map_call at 1. cbn [mu filter is_mu]. f_equal.
  rewrite !mu_app, mu_carve, M. rewrite mu_pcb by reflexivity. reflexivity.
Qed.

Lemma mu_alloc_fail n e len : alloc_map_len c s n = Some len -> env_ret e = 0 ->
  mu (cbs_of (alloc c s n e)) = [map_call c len e].
Proof.
  intros Hm He.
  assert (A : alloc c s n e = (s, RNull, [map_call c len e])).
  { unfold alloc, alloc_map_len in *. fold (norm_req n) in *.
    destruct (norm_req n <=? max_bucket_size c) eqn:Hs.
    - apply N.leb_le in Hs.
      assert (Hidx : s2b (norm_req n) < nbuckets c) by (apply s2b_bound; [apply (cf_nb_pos c F)|apply norm_req_pos|exact Hs]).
      assert (Hle : (s2b (norm_req n) <=? nbuckets c) = true) by (apply N.leb_le; lia).
      rewrite Hle. cbn [negb]. unfold alloc_small.
      destruct (bucket s (s2b (norm_req n))); [|discriminate]. injection Hm as <-. apply N.eqb_eq in He. rewrite He. reflexivity.
    - injection Hm as <-. unfold alloc_large. apply N.eqb_eq in He. rewrite He. reflexivity. }
  rewrite A. reflexivity.
Qed.

Lemma mu_alloc_large n' nreq e : env_ret e <> 0 ->
  mu (cbs_of (alloc_large c s n' nreq e)) = [map_call c (large_map_len c (align_up n' (page c))) e].
Proof.
  intros Hr. unfold alloc_large. apply N.eqb_neq in Hr. rewrite Hr. unfold cbs_of. cbn [snd].
  unfold map_call at 1. cbn [mu filter is_mu]. f_equal. rewrite mu_app. rewrite mu_pcb by reflexivity. reflexivity.
Qed.

Lemma mu_free_small x p b : In x (slabs s) -> In b (live s) -> bk_p b = p -> obj_of c x p ->
  mu (cbs_of (free_small c s x p)) = [].
Proof.
  intros Hx Hb Hbp Ho. pose proof (I_slab _ _ _ I x Hx) as S.
  unfold free_small. rewrite (obj_contains c F _ _ x p S Ho). cbn [negb].
  rewrite (find_blk_in p (live s) b (I_live_nodup _ _ _ I) Hb Hbp).
  assert (E : (sl_nres x =? 0) = false) by (apply N.eqb_neq; pose proof (nres_pos c k s I x p b Hx Hb Hbp Ho); lia).
  rewrite E.
  assert (E2 : match sl_avail x with [] => false | a :: _ => negb (sl_contains c x a) end = false).
  { destruct (sl_avail x) as [|a r] eqn:Ea; [reflexivity|].
    rewrite (obj_contains c F _ _ x a S); [reflexivity|]. apply (so_avail _ _ _ _ S). rewrite Ea. left. reflexivity. }
  rewrite E2. unfold cbs_of. cbn [snd]. rewrite mu_app. rewrite mu_pcb by reflexivity. reflexivity.
Qed.

Lemma mu_free_large x p b : In b (live s) -> bk_p b = p -> p = lg_addr c x ->
  mu (cbs_of (free_large c s x p)) = [CUnmap (lg_base x) (lg_res x)].
Proof.
  intros Hb Hbp Hp. unfold free_large. rewrite Hp, N.eqb_refl. cbn [negb]. rewrite <- Hp.
  rewrite (find_blk_in p (live s) b (I_live_nodup _ _ _ I) Hb Hbp). unfold cbs_of. cbn [snd].
  rewrite !mu_app. rewrite mu_pcb by reflexivity. reflexivity.
Qed.

End Paths.

(* ---------- the protocol checker over the map/unmap log ---------- *)
Definition reg_eqb (a b : N * N) : bool := (fst a =? fst b) && (snd a =? snd b).
Fixpoint remove_reg (r : N * N) (m : list (N * N)) : list (N * N) :=
  match m with [] => [] | x :: t => if reg_eqb r x then t else x :: remove_reg r t end.

(* None = protocol violated: an unmap that is not exactly an outstanding map answer *)
Fixpoint proto (m : list (N * N)) (l : list callback) : option (list (N * N)) :=
  match l with
  | [] => Some m
  | CMap len _ r :: t => if r =? 0 then proto m t else proto ((r, len) :: m) t
  | CUnmap b len :: t => if existsb (reg_eqb (b, len)) m then proto (remove_reg (b, len) m) t else None
  | _ :: t => proto m t
  end.

Lemma reg_eqb_eq a b : reg_eqb a b = true <-> a = b.
Proof.
  unfold reg_eqb. rewrite andb_true_iff, !N.eqb_eq. destruct a, b; cbn. split; [intros [-> ->]; reflexivity|intros [= -> ->]; auto].
Qed.

Lemma proto_mu m l : proto m l = proto m (mu l).
Proof.
  revert m; induction l as [|cb t IH]; intros m; [reflexivity|].
  destruct cb; cbn [mu filter is_mu proto]; auto.
  - destruct (r =? 0); apply IH.
  - destruct (existsb _ m); [apply IH|reflexivity].
Qed.

Lemma proto_app m l1 l2 : proto m (l1 ++ l2) = match proto m l1 with Some m' => proto m' l2 | None => None end.
Proof.
  revert m; induction l1 as [|cb t IH]; intros m; [reflexivity|].
  destruct cb; cbn [app proto]; auto.
  - destruct (r =? 0); apply IH.
  - destruct (existsb _ m); [apply IH|reflexivity].
Qed.

Lemma remove_reg_perm r m : In r m -> Permutation m (r :: remove_reg r m).
Proof.
  induction m as [|x t IH]; [intros []|]. intros H. cbn. destruct (reg_eqb r x) eqn:E.
  - apply reg_eqb_eq in E. subst x. reflexivity.
  - destruct H as [-> |H]; [assert (reg_eqb r r = true) by (apply reg_eqb_eq; reflexivity); congruence|].
    rewrite perm_swap. constructor. apply IH. assumption.
Qed.

Lemma existsb_reg r m : existsb (reg_eqb r) m = true <-> In r m.
Proof.
  rewrite existsb_exists. split.
  - intros (x & Hx & E). apply reg_eqb_eq in E. subst x. assumption.
  - intros H. exists r. split; [assumption|apply reg_eqb_eq; reflexivity].
Qed.

Lemma remove_large_perm x l : NoDup (map lg_frame l) -> In x l ->
  Permutation (map lg_region l) (lg_region x :: map lg_region (remove_large (lg_frame x) l)).
Proof.
  induction l as [|y r IH]; [intros _ []|]. cbn. intros Hnd [-> |Hx].
  - rewrite N.eqb_refl. reflexivity.
  - inversion Hnd as [|? ? Hni Hnd']; subst. destruct (lg_frame y =? lg_frame x) eqn:Ey.
    + apply N.eqb_eq in Ey. exfalso. apply Hni. rewrite Ey. apply in_map. assumption.
    + cbn. rewrite perm_swap. constructor. apply IH; assumption.
Qed.

(* ---------- one step transforms the set of outstanding regions as the log says ---------- *)
Definition tracks (m : list (N * N)) (s : state) : Prop := Permutation m (mapped s).

Section StepLog.
Variable c : cfg.
Hypothesis F : cfg_facts c.
Variables (k : N) (s : state).
Hypothesis I : Inv c k s.
Hypothesis Hk : k + 1 < 4294967296.

Lemma alloc_log n e m :
  (forall len, alloc_map_len c s n = Some len -> env_fresh c s len e) -> tracks m s ->
  exists m', proto m (cbs_of (alloc c s n e)) = Some m' /\ tracks m' (st_of (alloc c s n e)).
Proof.
  intros Henv T. rewrite proto_mu.
  unfold alloc, alloc_map_len in *. fold (norm_req n) in *.
  pose proof (norm_req_pos n) as Hpos.
  destruct (norm_req n <=? max_bucket_size c) eqn:Hs.
  - apply N.leb_le in Hs.
    assert (Hidx : s2b (norm_req n) < nbuckets c) by (apply s2b_bound; [apply (cf_nb_pos c F)|assumption|exact Hs]).
    assert (Hle : (s2b (norm_req n) <=? nbuckets c) = true) by (apply N.leb_le; lia).
    rewrite Hle. cbn [negb].
    destruct (bucket s (s2b (norm_req n))) as [|h t] eqn:Hb.
    + specialize (Henv _ eq_refl). destruct (N.eq_dec (env_ret e) 0) as [E0|E0].
      * unfold alloc_small. rewrite Hb. pose proof E0 as E0'. apply N.eqb_eq in E0. rewrite E0. cbn.
        unfold map_call. rewrite E0'. cbn. exists m. auto.
      * destruct (Henv E0) as [Hfr Hal].
        rewrite (mu_alloc_small_new c F s _ (norm_req n) n e Hidx Hb E0 Hal).
        destruct (alloc_small_new c F s _ (env_ret e) Hidx Hb Hal (norm_req n) n e eq_refl E0) as (o & a2 & av' & _ & Hst & _).
        rewrite Hst. unfold map_call. cbn [proto]. apply N.eqb_neq in E0. rewrite E0.
        eexists. split; [reflexivity|]. unfold tracks, mapped, newslab_state in *. cbn [slabs larges map app sl_region sl_base sl_res].
        constructor. exact T.
    + rewrite (mu_alloc_small_pop c F k s I _ h t (norm_req n) n e Hidx Hb). cbn [proto]. exists m. split; [reflexivity|].
      destruct (alloc_small_pop c F k s I _ h t Hidx Hb (norm_req n) n e) as (x & o & av & Hx & Hf & Hi & Ha & Hst & _).
      rewrite Hst. unfold tracks, mapped, pop_state in *. cbn [slabs larges].
      rewrite map_upd_slab_const; [exact T|].
      intros z Hz Hzf. rewrite (slab_by_frame c k s I z x Hz Hx) by congruence. reflexivity.
  - specialize (Henv _ eq_refl). destruct (N.eq_dec (env_ret e) 0) as [E0|E0].
    + unfold alloc_large. pose proof E0 as E0'. apply N.eqb_eq in E0. rewrite E0. cbn.
      unfold map_call. rewrite E0'. cbn. exists m. auto.
    + rewrite (mu_alloc_large c s (norm_req n) n e E0).
      destruct (alloc_large_ok c s (norm_req n) n (env_ret e) e eq_refl E0) as [Hst _]. rewrite Hst.
      unfold map_call. cbn [proto]. apply N.eqb_neq in E0. rewrite E0.
      eexists. split; [reflexivity|]. unfold tracks, mapped, newlarge_state in *. cbn [slabs larges map lg_region lg_base lg_res].
      apply Permutation_cons_app. exact T.
Qed.

Lemma free_log p sz m :
  is_live s p = true -> match sz with Some n => n <= cur_size c s p | None => True end -> tracks m s ->
  exists m', proto m (cbs_of (free_ c s p sz)) = Some m' /\ tracks m' (st_of (free_ c s p sz))
    /\ (* an unmap names a mapped region no block that stays live touches *)
       forall b0 l0, In (CUnmap b0 l0) (cbs_of (free_ c s p sz)) ->
         In (b0, l0) (mapped s) /\
         forall b', In b' (live (st_of (free_ c s p sz))) -> disjoint (bk_p b') (bk_size0 b') b0 l0.
Proof.
  clear Hk. intros Hl Hsz T. destruct (is_live_in s p Hl) as (b & Hb & Hbp & _).
  assert (Hp0 : p <> 0) by (rewrite <- Hbp; apply (live_nonzero c F k s I b Hb)).
  rewrite (get_size_lookup c s p Hp0) in Hsz.
  destruct (free_inv c k s p sz F I Hl) as (I' & _ & Hlive').
  { rewrite (get_size_lookup c s p Hp0). exact Hsz. }
  revert I' Hlive'. rewrite proto_mu.
  unfold free_. apply N.eqb_neq in Hp0. rewrite Hp0.
  destruct (live_lookup c F k s I b Hb) as [(x & Hx & L & O & Z & R)| (x & Hx & L & E & Z & R)];
    rewrite Hbp in *; rewrite L in *.
  - pose proof (mu_free_small c F k s I x p b Hx Hb Hbp O) as M.
    destruct (free_small_ok c F k s I x p b Hx Hb Hbp O) as [E1 _].
    assert (K : forall t, t = free_small c s x p ->
               let y := (let '(s', r, cbs) := t in (s', r, CAccess false (sl_frame x) (hdr_slab c) :: cbs)) in
               Inv c k (st_of y) -> live (st_of y) = remove_blk p (live s) ->
               exists m', proto m (mu (cbs_of y)) = Some m' /\ tracks m' (st_of y)
                 /\ forall b0 l0, In (CUnmap b0 l0) (cbs_of y) -> In (b0, l0) (mapped s) /\
                     forall b', In b' (live (st_of y)) -> disjoint (bk_p b') (bk_size0 b') b0 l0).
    { intros [[s' r] cbs] Et y _ _. subst y. rewrite <- Et in M, E1. cbn in M, E1 |- *. rewrite M. exists m.
      split; [reflexivity|]. split.
      - subst s'. unfold tracks, mapped, free_small_state in *. cbn [slabs larges].
        rewrite map_upd_slab_const; [exact T|].
        intros z Hz Hzf. rewrite (slab_by_frame c k s I z x Hz Hx) by congruence. reflexivity.
      - intros b0 l0 [H|H]; [discriminate|]. exfalso.
        assert (In (CUnmap b0 l0) (mu cbs)) as Hin by (apply filter_In; split; [assumption|reflexivity]).
        unfold mu in *. rewrite M in Hin. exact Hin. }
    destruct sz as [n|]; [apply N.leb_le in Hsz; rewrite Hsz|]; apply K; reflexivity.
  - pose proof (mu_free_large c k s I x p b Hb Hbp E) as M.
    destruct (free_large_ok c k s I x p b Hb Hbp E) as [E1 _].
    assert (K : Inv c k (st_of (free_large c s x p)) -> live (st_of (free_large c s x p)) = remove_blk p (live s) ->
               exists m', proto m (mu (cbs_of (free_large c s x p))) = Some m' /\ tracks m' (st_of (free_large c s x p))
                 /\ forall b0 l0, In (CUnmap b0 l0) (cbs_of (free_large c s x p)) -> In (b0, l0) (mapped s) /\
                     forall b', In b' (live (st_of (free_large c s x p))) -> disjoint (bk_p b') (bk_size0 b') b0 l0).
    { intros I' Hlive'. rewrite M, E1. cbn [proto].
      assert (Hin : In (lg_base x, lg_res x) m).
      { eapply Permutation_in; [symmetry; exact T|]. unfold mapped. apply in_or_app. right.
        apply (in_map lg_region) in Hx. exact Hx. }
      rewrite (proj2 (existsb_reg _ _) Hin). eexists. split; [reflexivity|]. split.
      - unfold tracks, mapped, free_large_state in *. cbn [slabs larges].
        apply (Permutation_cons_inv (a := (lg_base x, lg_res x))).
        eapply Permutation_trans; [symmetry; apply remove_reg_perm; assumption|].
        eapply Permutation_trans; [exact T|].
        apply Permutation_sym.
        eapply Permutation_trans; [apply Permutation_middle|].
        apply Permutation_app_head. apply Permutation_sym.
        apply (remove_large_perm x (larges s) (large_frames_nodup c k s I) Hx).
      - intros b0 l0 Hc. assert (In (CUnmap b0 l0) (mu (cbs_of (free_large c s x p)))) as Hm by (apply filter_In; split; [assumption|reflexivity]).
        rewrite M in Hm. destruct Hm as [[= <- <-]|[]].
        split; [unfold mapped; apply in_or_app; right; apply (in_map lg_region) in Hx; exact Hx|].
        intros b' Hb'. rewrite E1 in I'.
        destruct (live_extent c F k _ I' b' Hb') as (f & rg & Hf & A1 & A2 & _).
        (* the frame of b' is a frame of s other than x *)
        assert (Hfs : In (f, rg) (frames s) /\ f <> lg_frame x).
        { unfold frames, free_large_state in Hf. cbn [slabs larges] in Hf. apply in_app_iff in Hf.
          destruct Hf as [Hf|Hf].
          - split; [unfold frames; apply in_or_app; left; exact Hf|].
            apply in_map_iff in Hf. destruct Hf as (y & [= <- <-] & Hy). apply (slab_large_frames c k s I y x Hy Hx).
          - apply in_map_iff in Hf. destruct Hf as (y & [= <- <-] & Hy).
            apply (remove_large_spec _ _ (large_frames_nodup c k s I)) in Hy. destruct Hy as [Hy Hne].
            split; [apply in_frames_large; assumption|assumption]. }
        destruct Hfs as [Hfs Hne]. pose proof (I_large _ _ _ I x Hx) as Lx.
        apply (frames_apart c k s I f rg (lg_frame x) (lg_region x)); auto.
        + apply in_frames_large. assumption.
        + cbn. lia.
        + cbn. lia. }
    destruct sz as [n|]; [apply N.leb_le in Hsz; rewrite Hsz|]; apply K.
Qed.

End StepLog.

(* ---------- a whole step ---------- *)
Section StepLog2.
Variable c : cfg.
Hypothesis F : cfg_facts c.
Variables (k : N) (s : state).
Hypothesis I : Inv c k s.
Hypothesis Hk : k + 1 < 4294967296.

Definition unmaps_safe (cbs : list callback) (s' : state) : Prop :=
  forall b0 l0, In (CUnmap b0 l0) cbs ->
    forall b', In b' (live s') -> disjoint (bk_p b') (bk_size0 b') b0 l0.

Lemma alloc_no_unmap n e :
  (forall len, alloc_map_len c s n = Some len -> env_fresh c s len e) ->
  forall b0 l0, ~ In (CUnmap b0 l0) (cbs_of (alloc c s n e)).
Proof.
  intros Henv b0 l0 Hin.
  assert (Hm : In (CUnmap b0 l0) (mu (cbs_of (alloc c s n e)))) by (apply filter_In; split; [assumption|reflexivity]).
  clear Hin. revert Hm.
  unfold alloc, alloc_map_len in *. fold (norm_req n) in *.
  pose proof (norm_req_pos n) as Hpos.
  destruct (norm_req n <=? max_bucket_size c) eqn:Hs.
  - apply N.leb_le in Hs.
    assert (Hidx : s2b (norm_req n) < nbuckets c) by (apply s2b_bound; [apply (cf_nb_pos c F)|assumption|exact Hs]).
    assert (Hle : (s2b (norm_req n) <=? nbuckets c) = true) by (apply N.leb_le; lia).
    rewrite Hle. cbn [negb].
    destruct (bucket s (s2b (norm_req n))) as [|h t] eqn:Hb.
    + specialize (Henv _ eq_refl). destruct (N.eq_dec (env_ret e) 0) as [E0|E0].
      * unfold alloc_small. rewrite Hb. apply N.eqb_eq in E0. rewrite E0. cbn. intros [H|[]]. discriminate.
      * destruct (Henv E0) as [Hfr Hal].
        rewrite (mu_alloc_small_new c F s _ (norm_req n) n e Hidx Hb E0 Hal). intros [H|[]]. discriminate.
    + rewrite (mu_alloc_small_pop c F k s I _ h t (norm_req n) n e Hidx Hb). intros [].
  - specialize (Henv _ eq_refl). destruct (N.eq_dec (env_ret e) 0) as [E0|E0].
    + unfold alloc_large. apply N.eqb_eq in E0. rewrite E0. cbn. intros [H|[]]. discriminate.
    + rewrite (mu_alloc_large c s (norm_req n) n e E0). intros [H|[]]. discriminate.
Qed.

Lemma step_log o m :
  op_policy_ok c s o = true -> op_api_ok c s o = true -> tracks m s ->
  exists m', proto m (cbs_of (step c s o)) = Some m' /\ tracks m' (st_of (step c s o))
             /\ unmaps_safe (cbs_of (step c s o)) (st_of (step c s o)).
Proof.
  intros Hpol Hapi T.
  assert (Free_case : forall p sz,
            ((p =? 0) || is_live s p) = true ->
            match sz with Some n => (p =? 0) = true \/ n <= cur_size c s p | None => True end ->
            exists m', proto m (cbs_of (free_ c s p sz)) = Some m' /\ tracks m' (st_of (free_ c s p sz))
                       /\ unmaps_safe (cbs_of (free_ c s p sz)) (st_of (free_ c s p sz))).
  { intros p sz Hl Hsz. destruct (p =? 0) eqn:Hp.
    - unfold free_. rewrite Hp. cbn. exists m. split; [reflexivity|]. split; [exact T|]. intros ? ? [].
    - cbn in Hl.
      assert (Hsz' : match sz with Some n => n <= cur_size c s p | None => True end).
      { destruct sz; [destruct Hsz as [Hsz|Hsz]; [discriminate|assumption]|exact Logic.I]. }
      destruct (free_log c F k s I p sz m Hl Hsz' T) as (m' & P & T' & U).
      exists m'. split; [assumption|]. split; [assumption|]. intros b0 l0 Hin. apply (U b0 l0 Hin). }
  destruct o as [n e|p|p n|p n e|p|p off len tag]; cbn [step].
  - destruct (alloc_log c F k s I Hk n e m (policy_env_fresh c s (Alloc n e) e Hpol eq_refl) T) as (m' & P & T').
    exists m'. split; [assumption|]. split; [assumption|].
    intros b0 l0 Hin. exfalso. apply (alloc_no_unmap n e (policy_env_fresh c s (Alloc n e) e Hpol eq_refl) b0 l0 Hin).
  - apply Free_case; [exact Hapi|exact Logic.I].
  - cbn in Hapi. apply Free_case.
    + destruct (p =? 0); [reflexivity|]. cbn in *. apply andb_prop in Hapi. tauto.
    + destruct (p =? 0); [left; reflexivity|]. cbn in Hapi. apply andb_prop in Hapi. right. apply N.leb_le. tauto.
  - cbn in Hapi. apply andb_prop in Hapi. destruct Hapi as [Hl _].
    pose proof (policy_env_fresh c s (Realloc p n e) e Hpol eq_refl) as Henv. cbn [map_len] in Henv.
    unfold realloc.
    destruct (p =? 0) eqn:Hp.
    { destruct (alloc_log c F k s I Hk n e m Henv T) as (m' & P & T').
      exists m'. split; [assumption|]. split; [assumption|].
      intros b0 l0 Hin. exfalso. apply (alloc_no_unmap n e Henv b0 l0 Hin). }
    cbn in Hl.
    destruct (n =? 0) eqn:Hn.
    { destruct (Free_case p None) as (m' & P & T' & U); [rewrite Hp; exact Hl|exact Logic.I|].
      destruct (free_ c s p None) as [[s' r] cbs]. cbn in *. exists m'. auto. }
    destruct (is_live_in s p Hl) as (b & Hb & Hbp & Hfind). rewrite Hfind.
    apply N.eqb_neq in Hp. apply N.eqb_neq in Hn.
    rewrite (get_size_lookup c s p Hp) in Henv. cbv zeta.
    assert (G : forall hdr fr cur,
               (forall len, (if n <=? cur then None else alloc_map_len c s n) = Some len -> env_fresh c s len e) ->
               let x := (if n <=? cur
                         then (set_req s p n, RPtr p, CAccess false fr hdr :: inplace_cbs c p cur n)
                         else
                           let '(s1, r, cbs) := alloc c s n e in
                           match r with
                           | RPtr q =>
                             let s2 := move_log s1 p q in
                             let '(s3, r3, cbs3) := free_ c s2 p None in
                             (s3, match r3 with RUnit => RPtr q | _ => r3 end,
                              CAccess false fr hdr :: cbs ++ pcb c [CUnpoisonExpand p cur]
                              ++ [CAccess false p cur; CAccess true q cur] ++ cbs3)
                           | _ => (s1, r, CAccess false fr hdr :: cbs)
                           end) in
               exists m', proto m (cbs_of x) = Some m' /\ tracks m' (st_of x) /\ unmaps_safe (cbs_of x) (st_of x)).
    { intros hdr fr cur Henv'. destruct (n <=? cur) eqn:Hle.
      - cbn. exists m. split.
        + rewrite proto_mu. unfold inplace_cbs. rewrite mu_pcb by reflexivity. reflexivity.
        + split; [exact T|]. intros b0 l0 [H|H]; [discriminate|].
          unfold inplace_cbs, pcb in H. destruct (poison c); cbn in H; intuition discriminate.
      - destruct (alloc_log c F k s I Hk n e m Henv' T) as (m1 & P1 & T1).
        pose proof (alloc_no_unmap n e Henv') as NU.
        destruct (alloc_inv c k s n e F I Henv') as [I1 [[R [S1 _]]| (q & sz & unp & R & L1)]].
        + destruct (alloc c s n e) as [[s1 r] cbs]. cbn in *. subst r s1. cbn. exists m1.
          split; [assumption|]. split; [assumption|]. intros b0 l0 [H|H]; [discriminate|]. exfalso. apply (NU b0 l0 H).
        + destruct (alloc c s n e) as [[s1 r] cbs]. cbn in R, L1, I1, P1, T1, NU. subst r. cbv zeta.
          destruct (move_log_inv c (k + 1) s1 p q I1) as [I2 LP].
          assert (Hl2 : is_live (move_log s1 p q) p = true).
          { apply is_live_iff; [apply (I_live_nodup _ _ _ I2)|]. rewrite LP. unfold live_ptrs. rewrite L1. cbn. right.
            rewrite <- Hbp. apply in_map. assumption. }
          assert (T2 : tracks m1 (move_log s1 p q)).
          { unfold tracks in *. rewrite move_log_eq. destruct (find_blk p (live s1)); exact T1. }
          destruct (free_log c F (k + 1) (move_log s1 p q) I2 p None m1 Hl2 Logic.I T2) as (m3 & P3 & T3 & U3).
          destruct (free_ c (move_log s1 p q) p None) as [[s3 r3] cbs3]. cbn in P3, T3, U3 |- *.
          exists m3. split.
          * rewrite proto_app. rewrite P1. rewrite proto_app.
            assert (Q : proto m1 (pcb c [CUnpoisonExpand p cur]) = Some m1).
            { unfold pcb. destruct (poison c); reflexivity. }
            rewrite Q. cbn [app proto]. exact P3.
          * split; [exact T3|]. intros b0 l0 [H|H]; [discriminate|].
            apply in_app_iff in H. destruct H as [H|H]; [exfalso; apply (NU b0 l0 H)|].
            apply in_app_iff in H. destruct H as [H|H].
            { unfold pcb in H. destruct (poison c); cbn in H; intuition discriminate. }
            cbn in H. destruct H as [H|[H|H]]; try discriminate. apply (U3 b0 l0 H). }
    destruct (live_lookup c F k s I b Hb) as [(x & Hx & L & O & Z & R)| (x & Hx & L & E & Z & R)];
      rewrite Hbp in *; rewrite L in *.
    + rewrite (obj_contains c F _ _ x p (I_slab _ _ _ I x Hx) O). cbn [negb]. apply G. exact Henv.
    + rewrite <- E, N.eqb_refl. cbn [negb]. apply G. exact Henv.
  - cbn. exists m. split.
    + rewrite proto_mu. destruct (p =? 0); [reflexivity|]. destruct (lookup c s p); reflexivity.
    + split; [exact T|]. intros b0 l0 H. destruct (p =? 0); [destruct H|].
      destruct (lookup c s p); cbn in H; intuition discriminate.
  - cbn in Hapi. unfold write_. destruct (find_blk p (live s)) as [b|] eqn:E; [|discriminate].
    cbn. exists m. split; [reflexivity|]. split; [exact T|]. intros ? ? [].
Qed.

End StepLog2.

(* ---------- whole histories ---------- *)
Fixpoint log_from (c : cfg) (s : state) (ops : list op) : list callback :=
  match ops with
  | [] => []
  | o :: r => cbs_of (step c s o) ++ log_from c (st_of (step c s o)) r
  end.

Lemma run_log c : cfg_facts c -> forall ops s m,
  Inv c 0 s -> hist_ok_both c s ops -> tracks m s ->
  exists m', proto m (log_from c s ops) = Some m' /\ tracks m' (run_from c s ops).
Proof.
  intros F. induction ops as [|o r IH]; intros s m I [H1 H2] T.
  - cbn. exists m. auto.
  - cbn [hist_ok] in H1, H2. apply andb_prop in H1. apply andb_prop in H2.
    destruct H1 as [P1 P2], H2 as [A1 A2].
    destruct (step_inv c F 0 s I ltac:(lia) o P1 A1) as [I' R].
    destruct (step_log c F 0 s I ltac:(lia) o m P1 A1 T) as (m1 & Q1 & T1 & _).
    destruct (IH (st_of (step c s o)) m1 (Inv_any c _ 0 _ I') (conj P2 A2) T1) as (m2 & Q2 & T2).
    exists m2. cbn [log_from run_from fold_left]. rewrite proto_app, Q1. auto.
Qed.

Definition log (c : cfg) (ops : list op) : list callback := log_from c (init c) ops.

Theorem C03_protocol_main :
  forall (c : cfg) (ops : list op),
    cfg_ok c = true -> policy_ok c ops -> api_ok c ops ->
    forall pre, prefix pre ops ->
    let s := run c pre in
    (exists m, proto [] (log c pre) = Some m /\ Permutation m (mapped s))
    /\ used s = pages c s
    /\ (forall x, In x (larges s) -> large_pages c x <= used s)
    /\ ((forall b x, In b (live s) -> In x (larges s) -> bk_p b <> lg_addr c x) ->
        larges s = [] /\ mapped s = map sl_region (slabs s)).
Proof.
  intros c ops Hc Hp Ha pre (suf & ->) s. pose proof (cfg_ok_facts c Hc) as F.
  unfold policy_ok, api_ok in *. apply hist_ok_app in Hp. apply hist_ok_app in Ha.
  pose proof (run_inv c F pre (init c) (init_inv c F) (conj Hp Ha)) as [I _].
  fold (run c pre) in I. fold s in I.
  split; [|split; [|split]].
  - destruct (run_log c F pre (init c) [] (init_inv c F) (conj Hp Ha)) as (m & P & T).
    { unfold tracks, mapped, init. cbn. constructor. }
    exists m. split; [exact P|exact T].
  - apply (I_used _ _ _ I).
  - intros x Hx. rewrite (I_used _ _ _ I). unfold pages.
    pose proof (sumN_remove_large (large_pages c) x (larges s) (large_frames_nodup c _ s I) Hx). lia.
  - intros Hno. assert (E : larges s = []).
    { destruct (larges s) as [|x r] eqn:El; [reflexivity|exfalso].
      assert (Hx : In x (larges s)) by (rewrite El; left; reflexivity).
      pose proof (I_large_live _ _ _ I x Hx) as Hl. unfold live_ptrs in Hl. apply in_map_iff in Hl.
      destruct Hl as (b & Eb & Hb). apply (Hno b x Hb (or_introl eq_refl) Eb). }
    split; [exact E|]. unfold mapped. rewrite E. cbn. apply app_nil_r.
Qed.

(* at every unmap of an admissible history no block that remains live intersects the region *)
Theorem C03_unmap_safe_main :
  forall (c : cfg) (ops : list op) (o : op),
    cfg_ok c = true -> policy_ok c (ops ++ [o]) -> api_ok c (ops ++ [o]) ->
    let s := run c ops in
    forall b0 l0, In (CUnmap b0 l0) (cbs_of (step c s o)) ->
      forall b', In b' (live (st_of (step c s o))) -> disjoint (bk_p b') (bk_size0 b') b0 l0.
Proof.
  intros c ops o Hc Hp Ha s. pose proof (cfg_ok_facts c Hc) as F.
  destruct (prefix_inv c _ ops Hc Hp Ha ltac:(eexists; reflexivity)) as [I _]. fold s in I.
  assert (Hs' : 0 + 1 < 4294967296) by lia.
  assert (Hlast : forall P, hist_ok P c (init c) (ops ++ [o]) = true -> P c s o = true).
  { intros P. unfold s, run. generalize (init c). clear. induction ops as [|o' l IH]; intros s0; cbn.
    - rewrite andb_true_r. auto.
    - intros H. apply andb_prop in H. apply IH. tauto. }
  destruct (step_log c F _ s I Hs' o (mapped s) (Hlast _ Hp) (Hlast _ Ha)) as (m' & _ & _ & U).
  { unfold tracks. reflexivity. }
  exact U.
Qed.
