(* C01: consequences of the invariant for every live block, and the history-level theorem. *)
From Coq Require Import List NArith Bool Lia ZifyBool ZifyNat ZifyN.
From FV Require Import Slab.SlabModel Slab.SlabArith Slab.SlabBasics Slab.SlabFail Slab.SlabInv
  Slab.SlabInvAlloc Slab.SlabInvFree Slab.SlabInvStep.
Import ListNotations.
Local Open Scope N_scope.

(* ---------- the vocabulary of the statement ---------- *)
Definition size_of (c : cfg) (s : state) (p : N) : N := cur_size c s p.           (* get_size(p) *)
Definition inside_mapped (s : state) (p n : N) : Prop :=
  exists r, In r (mapped s) /\ fst r <= p /\ p + n <= fst r + snd r.
Definition disjoint (p n q m : N) : Prop := p + n <= q \/ q + m <= p.
(* the allocator's own bookkeeping: every frame header, and every free object (its first word is the link) *)
Definition disjoint_from_bookkeeping (c : cfg) (s : state) (p n : N) : Prop :=
  (forall x, In x (slabs s) -> disjoint p n (sl_frame x) (hdr_slab c))
  /\ (forall x, In x (larges s) -> disjoint p n (lg_frame x) (hdr_frame c))
  /\ (forall x a, In x (slabs s) -> In a (sl_avail x) -> disjoint p n a (sl_item x)).
(* the request rounded up to a power of two, at least 8, capped at the page size *)
Definition align_of (c : cfg) (n : N) : N := N.min (page c) (N.max 8 (2 ^ N.log2_up n)).
Definition prefix {A} (pre l : list A) : Prop := exists suf, l = pre ++ suf.

(* ---------- alignment arithmetic ---------- *)
Lemma pow2_divide a b : 2 ^ a <= 2 ^ b -> N.divide (2 ^ a) (2 ^ b).
Proof. intros H. apply N.mod_divide; [apply N.pow_nonzero; discriminate|]. apply pow2_le_divide. assumption. Qed.

Lemma align_of_divides c m K : cfg_facts c -> 0 < m ->
  8 <= 2 ^ K -> m <= 2 ^ K -> N.divide (align_of c m) (2 ^ K) /\ N.divide (align_of c m) (page c).
Proof.
  intros F Hm H8 HmK. destruct (cf_page c F) as [kp Ep]. unfold align_of. rewrite Ep.
  assert (Hu : 2 ^ N.log2_up m <= 2 ^ K).
  { apply N.pow_le_mono_r; [lia|]. apply N.log2_up_le_pow2; assumption. }
  change 8 with (2 ^ 3) in *.
  assert (HB : exists j, N.max (2 ^ 3) (2 ^ N.log2_up m) = 2 ^ j /\ 2 ^ j <= 2 ^ K).
  { destruct (N.max_spec (2 ^ 3) (2 ^ N.log2_up m)) as [[_ ->]|[_ ->]]; eauto. }
  destruct HB as (j & -> & Hj).
  destruct (N.min_spec (2 ^ kp) (2 ^ j)) as [[Hlt ->]|[Hle ->]].
  - split; [apply pow2_divide; lia|apply N.divide_refl].
  - split; [apply pow2_divide; assumption|apply pow2_divide; assumption].
Qed.

(* ---------- per-block facts ---------- *)
Section Blocks.
Variable c : cfg.
Hypothesis F : cfg_facts c.
Variables (k : N) (s : state).
Hypothesis I : Inv c k s.

(* where a live block lives *)
Lemma live_extent b : In b (live s) ->
  exists f rg, In (f, rg) (frames s) /\ fst rg <= bk_p b /\ bk_p b + bk_size0 b <= fst rg + snd rg /\
    ((exists x, In x (slabs s) /\ sl_frame x = f /\ obj_of c x (bk_p b) /\ bk_size0 b = sl_item x)
     \/ (exists x, In x (larges s) /\ lg_frame x = f /\ bk_p b = lg_addr c x /\ bk_size0 b = lg_len x)).
Proof.
  intros Hb. destruct (I_live _ _ _ I b Hb) as [(x & Hx & O & Z & R)| (x & Hx & E & Z & R)].
  - exists (sl_frame x), (sl_region x). split; [apply in_frames_slab; assumption|].
    pose proof (obj_in_region c F _ _ x _ (I_slab _ _ _ I x Hx) O) as (B1 & B2 & B3). cbn. rewrite Z.
    split; [lia|]. split; [lia|]. left. exists x. auto.
  - exists (lg_frame x), (lg_region x). split; [apply in_frames_large; assumption|].
    pose proof (I_large _ _ _ I x Hx) as L. pose proof (lo_lo _ _ L). pose proof (lo_hi _ _ L).
    cbn. rewrite Z, E. unfold lg_addr. split; [lia|]. split; [lia|]. right. exists x. auto.
Qed.

Lemma frames_apart f1 r1 f2 r2 a1 n1 a2 n2 :
  In (f1, r1) (frames s) -> In (f2, r2) (frames s) -> f1 <> f2 ->
  fst r1 <= a1 -> a1 + n1 <= fst r1 + snd r1 -> fst r2 <= a2 -> a2 + n2 <= fst r2 + snd r2 ->
  disjoint a1 n1 a2 n2.
Proof.
  intros H1 H2 Hne A1 A2 B1 B2. pose proof (I_disj _ _ _ I f1 r1 f2 r2 H1 H2 Hne) as D.
  apply rdisj_spec in D. unfold disjoint. lia.
Qed.

Lemma objs_apart x p q : obj_of c x p -> obj_of c x q -> p <> q -> disjoint p (sl_item x) q (sl_item x).
Proof.
  intros (i & Hi & ->) (j & Hj & ->) Hne. unfold disjoint.
  destruct (N.lt_trichotomy i j) as [H|[->|H]]; [left| contradiction |right].
  - assert ((i + 1) * sl_item x <= j * sl_item x) by (apply N.mul_le_mono_r; lia). lia.
  - assert ((j + 1) * sl_item x <= i * sl_item x) by (apply N.mul_le_mono_r; lia). lia.
Qed.

Lemma live_size b : In b (live s) ->
  size_of c s (bk_p b) = bk_size0 b /\ N.max (bk_req b) 1 <= bk_size0 b.
Proof.
  intros Hb. pose proof (live_nonzero c F k s I b Hb) as Hp.
  unfold size_of. rewrite (get_size_lookup c s _ Hp).
  destruct (live_lookup c F k s I b Hb) as [(x & Hx & L & O & Z & R)| (x & Hx & L & E & Z & R)]; rewrite L; split; congruence.
Qed.

Lemma live_inside b : In b (live s) -> inside_mapped s (bk_p b) (bk_size0 b).
Proof.
  intros Hb. destruct (live_extent b Hb) as (f & rg & Hf & A1 & A2 & _).
  exists rg. split; [apply (mapped_frames s); eauto|auto].
Qed.

Lemma live_disjoint b1 b2 : In b1 (live s) -> In b2 (live s) -> bk_p b1 <> bk_p b2 ->
  disjoint (bk_p b1) (bk_size0 b1) (bk_p b2) (bk_size0 b2).
Proof.
  intros H1 H2 Hne.
  destruct (live_extent b1 H1) as (f1 & r1 & Hf1 & A1 & A2 & K1).
  destruct (live_extent b2 H2) as (f2 & r2 & Hf2 & B1 & B2 & K2).
  destruct (N.eq_dec f1 f2) as [<- |Hf]; [|exact (frames_apart f1 r1 f2 r2 _ _ _ _ Hf1 Hf2 Hf A1 A2 B1 B2)].
  destruct K1 as [(x1 & Hx1 & E1 & O1 & Z1)| (x1 & Hx1 & E1 & P1 & Z1)],
           K2 as [(x2 & Hx2 & E2 & O2 & Z2)| (x2 & Hx2 & E2 & P2 & Z2)].
  - assert (x1 = x2) by (apply (slab_by_frame c k s I); congruence). subst x2.
    rewrite Z1, Z2. apply objs_apart; assumption.
  - exfalso. apply (slab_large_frames c k s I x1 x2 Hx1 Hx2). congruence.
  - exfalso. apply (slab_large_frames c k s I x2 x1 Hx2 Hx1). congruence.
  - assert (x1 = x2) by (apply (large_by_frame c k s I); congruence). subst x2. congruence.
Qed.

Lemma live_bookkeeping b : In b (live s) -> disjoint_from_bookkeeping c s (bk_p b) (bk_size0 b).
Proof.
  intros Hb. destruct (live_extent b Hb) as (f & rg & Hf & A1 & A2 & K).
  split; [|split].
  - intros x Hx. pose proof (I_slab _ _ _ I x Hx) as S.
    pose proof (so_lo _ _ _ _ S). pose proof (so_hi _ _ _ _ S).
    pose proof (overhead_spec c (b2s (sl_idx x)) (b2s_pos _)) as (O1 & _).
    pose proof (overhead_lt_slabsz c (sl_idx x) F (so_idx _ _ _ _ S)).
    destruct (N.eq_dec f (sl_frame x)) as [-> |Hne].
    + destruct K as [(x1 & Hx1 & E1 & O & Z)| (x1 & Hx1 & E1 & _)].
      * assert (x1 = x) by (apply (slab_by_frame c k s I); congruence). subst x1.
        pose proof (obj_in_region c F _ _ x _ S O) as (_ & _ & B3). right. lia.
      * exfalso. apply (slab_large_frames c k s I x x1 Hx Hx1). congruence.
    + eapply frames_apart; [exact Hf|apply (in_frames_slab s x Hx)|exact Hne|auto|auto|cbn; lia|cbn; lia].
  - intros x Hx. pose proof (I_large _ _ _ I x Hx) as L.
    pose proof (lo_lo _ _ L). pose proof (lo_hi _ _ L). pose proof (cf_hdrf_page c F).
    destruct (N.eq_dec f (lg_frame x)) as [-> |Hne].
    + destruct K as [(x1 & Hx1 & E1 & _)| (x1 & Hx1 & E1 & P & Z)].
      * exfalso. apply (slab_large_frames c k s I x1 x Hx1 Hx). congruence.
      * assert (x1 = x) by (apply (large_by_frame c k s I); congruence). subst x1.
        right. rewrite P. unfold lg_addr. lia.
    + eapply frames_apart; [exact Hf|apply (in_frames_large s x Hx)|exact Hne|auto|auto|cbn; lia|cbn; lia].
  - intros x a Hx Ha. pose proof (I_slab _ _ _ I x Hx) as S.
    destruct (so_avail _ _ _ _ S a Ha) as [Oa Hnl].
    pose proof (obj_in_region c F _ _ x _ S Oa) as (B1 & B2 & B3).
    destruct (N.eq_dec f (sl_frame x)) as [-> |Hne].
    + destruct K as [(x1 & Hx1 & E1 & O & Z)| (x1 & Hx1 & E1 & _)].
      * assert (x1 = x) by (apply (slab_by_frame c k s I); congruence). subst x1.
        rewrite Z. apply objs_apart; auto. intros E. apply Hnl. rewrite <- E. unfold live_ptrs. apply in_map. assumption.
      * exfalso. apply (slab_large_frames c k s I x x1 Hx Hx1). congruence.
    + eapply frames_apart; [exact Hf|apply (in_frames_slab s x Hx)|exact Hne|auto|auto|cbn; lia|cbn; lia].
Qed.

Lemma live_aligned b : In b (live s) -> N.divide (align_of c (N.max (bk_req b) 1)) (bk_p b).
Proof.
  intros Hb. destruct (I_live _ _ _ I b Hb) as [(x & Hx & O & Z & R)| (x & Hx & E & Z & R)].
  - pose proof (obj_bounds c F _ _ x _ (I_slab _ _ _ I x Hx) O) as (_ & _ & _ & M).
    unfold sl_item in *. rewrite b2s_pow in *.
    destruct (align_of_divides c (N.max (bk_req b) 1) (sl_idx x + 3) F ltac:(lia)) as [D _].
    + change 8 with (2 ^ 3). apply N.pow_le_mono_r; lia.
    + assumption.
    + eapply N.divide_trans; [exact D|]. apply N.mod_divide; [apply N.pow_nonzero; discriminate|assumption].
  - pose proof (I_large _ _ _ I x Hx) as L.
    (* any K large enough gives divisibility by the page size *)
    set (m := N.max (bk_req b) 1).
    destruct (align_of_divides c m (N.max 3 (N.log2_up m)) F ltac:(lia)) as [_ D].
    + change 8 with (2 ^ 3). apply N.pow_le_mono_r; lia.
    + eapply N.le_trans; [apply (proj2 (N.log2_up_le_pow2 m (N.log2_up m) ltac:(lia))); lia|].
      apply N.pow_le_mono_r; lia.
    + eapply N.divide_trans; [exact D|]. rewrite E. unfold lg_addr.
      apply N.divide_add_r; [|apply N.divide_refl].
      apply N.mod_divide; [pose proof (page_pos c F); lia|].
      apply (mod_trans _ (sb c)); [apply (page_pos c F)|apply (sb_pos c F)|apply (page_divides_sb c F)|apply (lo_al _ _ L)].
Qed.

End Blocks.

(* ---------- histories ---------- *)
Lemma hist_ok_app P c s l1 l2 :
  hist_ok P c s (l1 ++ l2) = true -> hist_ok P c s l1 = true.
Proof.
  revert s; induction l1 as [|o r IH]; intros s; cbn; [reflexivity|].
  intros H. apply andb_prop in H. destruct H as [H1 H2]. rewrite H1. cbn. apply IH. assumption.
Qed.

Lemma prefix_inv c ops pre :
  cfg_ok c = true -> policy_ok c ops -> api_ok c ops -> prefix pre ops ->
  Inv c 0 (run c pre)
  /\ Forall (fun x => is_stop (fst x) = false) (trace_from c (init c) pre).
Proof.
  intros Hc Hp Ha (suf & ->). pose proof (cfg_ok_facts c Hc) as F.
  unfold policy_ok, api_ok in *. apply hist_ok_app in Hp. apply hist_ok_app in Ha.
  pose proof (run_inv c F pre (init c) (init_inv c F) (conj Hp Ha)) as [I T].
  split; assumption.
Qed.

(* ---------- the statement of DESIGN Appendix A ---------- *)
Definition live_req (s : state) (p : N) : option N :=
  match find_blk p (live s) with Some b => Some (bk_req b) | None => None end.
Definition size_when_allocated (s : state) (p : N) : N :=
  match find_blk p (live s) with Some b => bk_size0 b | None => 0 end.

Lemma live_req_some s p n : live_req s p = Some n ->
  exists b, In b (live s) /\ bk_p b = p /\ bk_req b = n /\ find_blk p (live s) = Some b.
Proof.
  unfold live_req. destruct (find_blk p (live s)) as [b|] eqn:E; [|discriminate].
  intros [= <-]. exists b. destruct (find_blk_some _ _ _ E). auto.
Qed.

Theorem C01_main :
  forall (c : cfg) (ops : list op),
    cfg_ok c = true -> policy_ok c ops -> api_ok c ops ->
    forall pre, prefix pre ops ->
    let s := run c pre in
    Forall (fun x => is_stop (fst x) = false) (trace_from c (init c) pre)
    /\ forall p n, live_req s p = Some n ->
       N.max n 1 <= size_of c s p
       /\ inside_mapped s p (size_of c s p)
       /\ (forall q m, live_req s q = Some m -> q <> p -> disjoint p (size_of c s p) q (size_of c s q))
       /\ disjoint_from_bookkeeping c s p (size_of c s p)
       /\ N.divide (align_of c (N.max n 1)) p
       /\ size_of c s p = size_when_allocated s p.
Proof.
  intros c ops Hc Hp Ha pre Hpre s.
  destruct (prefix_inv c ops pre Hc Hp Ha Hpre) as [I T]. fold s in I.
  pose proof (cfg_ok_facts c Hc) as F.
  split; [exact T|].
  intros p n Hl. destruct (live_req_some s p n Hl) as (b & Hb & <- & <- & Hfind).
  destruct (live_size c F _ s I b Hb) as [Z R]. rewrite Z.
  split; [exact R|].
  split; [apply (live_inside c F _ s I b Hb)|].
  split.
  { intros q m Hq Hne. destruct (live_req_some s q m Hq) as (b2 & Hb2 & <- & <- & _).
    destruct (live_size c F _ s I b2 Hb2) as [Z2 _]. rewrite Z2.
    apply (live_disjoint c F _ s I b b2 Hb Hb2). congruence. }
  split; [apply (live_bookkeeping c F _ s I b Hb)|].
  split; [apply (live_aligned c F _ s I b Hb)|].
  unfold size_when_allocated. rewrite Hfind. reflexivity.
Qed.

(* allocate / realloc succeed whenever the policy does ("later requests succeed as soon as mapping succeeds again") *)
Theorem alloc_succeeds c ops n r :
  cfg_ok c = true -> policy_ok c (ops ++ [Alloc n (MapRet r)]) -> api_ok c (ops ++ [Alloc n (MapRet r)]) ->
  r <> 0 ->
  exists p, res_of (step c (run c ops) (Alloc n (MapRet r))) = RPtr p /\ p <> 0.
Proof.
  intros Hc Hp Ha Hr. pose proof (cfg_ok_facts c Hc) as F.
  destruct (prefix_inv c _ ops Hc Hp Ha ltac:(eexists; reflexivity)) as [I _].
  assert (Hs' : 0 + 1 < 4294967296) by lia.
  assert (Hpol : op_policy_ok c (run c ops) (Alloc n (MapRet r)) = true).
  { unfold policy_ok in Hp. clear - Hp. unfold run. revert Hp. generalize (init c). induction ops as [|o l IH]; intros s0; cbn.
    - rewrite andb_true_r. auto.
    - intros H. apply andb_prop in H. apply IH. tauto. }
  pose proof (alloc_inv c _ (run c ops) n (MapRet r) F I
               (policy_env_fresh c (run c ops) (Alloc n (MapRet r)) (MapRet r) Hpol eq_refl)) as [I' P].
  cbn [step]. destruct P as [[R [S E0]]| (o & sz & unp & R & L)].
  - cbn in E0. contradiction.
  - exists o. split; [assumption|].
    assert (In (mkBlk o n sz unp []) (live (st_of (alloc c (run c ops) n (MapRet r))))) as Hin by (rewrite L; left; reflexivity).
    apply (live_nonzero c F _ _ I' _ Hin).
Qed.
