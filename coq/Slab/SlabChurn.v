(* D42 / C02 "arbitrarily long alloc/free churn": any number of allocate(n); free pairs of a small size whose class has a
   partial slab returns to the same state (only the ghost peak counter is raised), so the state after 2^32 pairs is
   the state after one.  [churn_fast] is what the driver executes for the long replays. *)
From Coq Require Import List NArith Bool Lia ZifyBool ZifyNat ZifyN.
From FV Require Import Slab.SlabModel Slab.SlabArith Slab.SlabBasics Slab.SlabFail Slab.SlabInv
  Slab.SlabInvAlloc Slab.SlabInvFree Slab.SlabInvStep Slab.SlabC01.
Import ListNotations.
Local Open Scope N_scope.

Lemma upd_slab_twice a y z l : upd_slab a (fun _ => y) (upd_slab a (fun _ => z) l) = upd_slab a (fun _ => y) l
  \/ sl_frame z <> a.
Proof.
  destruct (N.eq_dec (sl_frame z) a) as [E|E]; [left|right; assumption].
  induction l as [|w r IH]; cbn; [reflexivity|]. destruct (sl_frame w =? a) eqn:Ew.
  - cbn. apply N.eqb_eq in E. rewrite E. reflexivity.
  - cbn. rewrite Ew. rewrite IH. reflexivity.
Qed.

Lemma upd_slab_same a x l : NoDup (map sl_frame l) -> In x l -> sl_frame x = a -> upd_slab a (fun _ => x) l = l.
Proof.
  induction l as [|w r IH]; cbn; [intros _ []|]. intros Hnd [-> |Hx] Ha.
  - apply N.eqb_eq in Ha. rewrite Ha. reflexivity.
  - inversion Hnd as [|? ? Hni Hnd']; subst. destruct (sl_frame w =? sl_frame x) eqn:E.
    + apply N.eqb_eq in E. exfalso. apply Hni. rewrite E. apply in_map. assumption.
    + rewrite IH; auto.
Qed.

Lemma upd_nth_twice {A} (l : list A) i f g : upd_nth (upd_nth l i f) i g = upd_nth l i (fun x => g (f x)).
Proof. revert i; induction l as [|x r IH]; intros [|i]; cbn; auto. rewrite IH. reflexivity. Qed.

Lemma upd_nth_id {A} (l : list A) i f d : (i < length l)%nat -> f (nth i l d) = nth i l d -> upd_nth l i f = l.
Proof. revert i; induction l as [|x r IH]; intros [|i] H E; cbn in *; try lia; [rewrite E; reflexivity|]. rewrite IH; auto. lia. Qed.

Lemma upd_nth_ext {A} (l : list A) i f g d : f (nth i l d) = g (nth i l d) -> upd_nth l i f = upd_nth l i g.
Proof. revert i; induction l as [|x r IH]; intros [|i] E; cbn in *; auto; [rewrite E; reflexivity|]. rewrite (IH i); auto. Qed.

Section Churn.
Variable c : cfg.
Hypothesis F : cfg_facts c.
Variables (k : N) (s : state).
Hypothesis I : Inv c k s.

Definition churn_ptr (s0 : state) (idx : N) : N :=
  match bucket s0 idx with
  | h :: _ => match find_slab h (slabs s0) with Some x => hd 0 (sl_avail x) | None => 0 end
  | [] => 0
  end.

Theorem churn_pair n e idx : churn_class c s n = Some idx ->
  let o := churn_ptr s idx in
  res_of (step c s (Alloc n e)) = RPtr o /\
  st_of (step c (st_of (step c s (Alloc n e))) (Free o)) = churn_fast s idx /\
  res_of (step c (st_of (step c s (Alloc n e))) (Free o)) = RUnit /\
  Inv c k (churn_fast s idx).
Proof.
  unfold churn_class. fold (norm_req n). intros Hcc.
  destruct (norm_req n <=? max_bucket_size c) eqn:Hs; [|discriminate].
  destruct (bucket s (s2b (norm_req n))) as [|h t] eqn:Hb; [discriminate|]. injection Hcc as <-.
  apply N.leb_le in Hs. pose proof (norm_req_pos n) as Hpos. pose proof (norm_req_max n) as Hmax.
  set (idx := s2b (norm_req n)) in *.
  assert (Hidx : idx < nbuckets c) by (apply s2b_bound; [apply (cf_nb_pos c F)|assumption|exact Hs]).
  assert (Hfit : N.max n 1 <= b2s idx) by (rewrite <- Hmax; apply s2b_fits; assumption).
  destruct (alloc_small_pop c F k s I idx h t Hidx Hb (norm_req n) n e) as (x & o & av & Hx & Hf & Hi & Ha & Hst & Hres).
  assert (Hptr : churn_ptr s idx = o).
  { unfold churn_ptr. rewrite Hb. rewrite (find_slab_in h (slabs s) x (slab_frames_nodup c k s I) Hx Hf). rewrite Ha. reflexivity. }
  rewrite Hptr. cbv zeta.
  assert (Halloc : step c s (Alloc n e) = alloc_small c s (norm_req n) n idx e).
  { cbn [step]. unfold alloc. fold (norm_req n). apply N.leb_le in Hs. rewrite Hs. fold idx.
    assert (Hle : (idx <=? nbuckets c) = true) by (apply N.leb_le; lia). rewrite Hle. reflexivity. }
  rewrite Halloc, Hres, Hst. split; [reflexivity|].
  set (nb := mkBlk o n (b2s idx) (norm_req n) []).
  set (s1 := pop_state s idx h x av nb).
  pose proof (pop_state_inv c F k s I idx h Hidx x o av n (norm_req n) Hx Hf Hi Ha Hfit) as I1. fold nb s1 in I1.
  pose proof (I_slab _ _ _ I x Hx) as Sx.
  pose proof (slab_frames_nodup c k s I) as Hnd.
  set (x' := set_avail x av (wrap32 (sl_nres x + 1))).
  assert (Hx' : In x' (slabs s1)).
  { unfold s1, pop_state. cbn [slabs]. apply (in_upd_slab_const h x x' (slabs s) x' Hnd Hx Hf). right. reflexivity. }
  assert (Oo : obj_of c x' o).
  { apply obj_of_set_avail. apply (so_avail _ _ _ _ Sx). rewrite Ha. left. reflexivity. }
  assert (Hnb : In nb (live s1)) by (left; reflexivity).
  destruct (free_small_ok c F _ s1 I1 x' o nb Hx' Hnb eq_refl Oo) as [E1 E2].
  pose proof (free_small_state_inv c F _ s1 I1 x' o nb Hx' Hnb eq_refl Oo) as I2.
  assert (Hp0 : (o =? 0) = false) by (apply N.eqb_neq; apply (live_nonzero c F _ s1 I1 nb Hnb)).
  assert (Hfree : free_ c s1 o None = (let '(s', r, cbs) := free_small c s1 x' o in (s', r, CAccess false (sl_frame x') (hdr_slab c) :: cbs))).
  { unfold free_. rewrite Hp0. rewrite (lookup_obj c F _ s1 I1 x' o Hx' Oo). reflexivity. }
  cbn [step]. rewrite Hfree. destruct (free_small c s1 x' o) as [[s2 r2] cbs2]. cbn in E1, E2 |- *. subst s2 r2.
  assert (Hnres : wrap32 (sl_nres x + 1) - 1 = sl_nres x).
  { pose proof (so_nres _ _ _ _ Sx) as Q. rewrite Ha in Q. cbn [length] in Q.
    pose proof (nobj_lt32 c (sl_idx x) F). unfold sl_item in Q. unfold wrap32. rewrite N.mod_small by lia. lia. }
  assert (Hxx : set_avail x' (o :: sl_avail x') (sl_nres x' - 1) = x).
  { unfold x', set_avail. cbn [sl_frame sl_base sl_res sl_idx sl_avail sl_nres]. rewrite Hnres, <- Ha. destruct x; reflexivity. }
  destruct (I_cnt_len _ _ _ I) as [L1 L2].
  assert (Heq : free_small_state s1 x' o = churn_fast s idx).
  { unfold free_small_state, churn_fast. rewrite Hxx.
    unfold s1, pop_state. subst x'. cbn [slabs larges partial used live nlive peak sl_frame sl_idx sl_avail set_avail].
    f_equal.
    - rewrite Hf. destruct (upd_slab_twice h x (set_avail x av (wrap32 (sl_nres x + 1))) (slabs s)) as [E|E]; [|exfalso; apply E; cbn; exact Hf].
      first [rewrite E | (unfold set_avail in E; rewrite E) | (unfold set_avail; unfold set_avail in E; rewrite E)]. apply upd_slab_same; assumption.
    - rewrite Hi. destruct av as [|a2 av'].
      + rewrite upd_nth_twice. apply (upd_nth_id (partial s) (N.to_nat idx) _ []); [rewrite (I_len _ _ _ I); lia|].
        fold (bucket s idx). rewrite Hb, Hf. cbn [remove_addr]. rewrite N.eqb_refl.
        destruct (I_partial _ _ _ I idx Hidx) as [Bs _]. rewrite Hb in Bs.
        assert (Hlt : forall y, In y t -> h < y) by (inversion Bs; assumption).
        destruct t as [|t0 t']; [reflexivity|]. cbn [ins_sorted].
        assert (Q : (h <? t0) = true) by (apply N.ltb_lt; apply Hlt; left; reflexivity). rewrite Q. reflexivity.
      + reflexivity.
    - unfold nb. cbn [remove_blk bk_p]. rewrite N.eqb_refl. reflexivity.
    - rewrite Hi, upd_nth_twice. apply (upd_nth_id (nlive s) (N.to_nat idx) _ 0); [rewrite L1; lia|]. lia. }
  rewrite Heq in *. split; [reflexivity|]. split; [reflexivity|]. apply (Inv_any c (k + 1) k). exact I2.
Qed.

(* after a pair the class still has the same partial slabs: the next pair behaves the same *)
Lemma churn_class_fast n idx : churn_class c s n = Some idx -> churn_class c (churn_fast s idx) n = Some idx.
Proof. unfold churn_class, churn_fast, bucket. cbn [partial]. auto. Qed.

Lemma churn_fast_idem idx : churn_fast (churn_fast s idx) idx = churn_fast s idx.
Proof.
  unfold churn_fast. cbn [slabs larges partial used live nlive peak]. f_equal.
  rewrite upd_nth_twice. apply (upd_nth_ext _ _ _ _ 0). lia.
Qed.

End Churn.

(* count >= 1 pairs: the state after them is the state after one *)
Theorem churn_iter c : cfg_facts c -> forall cnt k s n e idx,
  Inv c k s -> churn_class c s n = Some idx ->
  let ops := concat (repeat [Alloc n e; Free (churn_ptr s idx)] (S cnt)) in
  run_from c s ops = churn_fast s idx
  /\ Forall (fun x => is_stop (fst x) = false) (trace_from c s ops).
Proof.
  intros F. induction cnt as [|cnt IH]; intros k s n e idx I Hc; cbv zeta.
  - destruct (churn_pair c F k s I n e idx Hc) as (R & St & Rf & _).
    cbn [repeat concat app run_from fold_left trace_from]. split; [exact St|].
    constructor; [cbn [fst]; rewrite R; reflexivity|]. constructor; [cbn [fst]; rewrite Rf; reflexivity|constructor].
  - destruct (churn_pair c F k s I n e idx Hc) as (R & St & Rf & I1).
    destruct (IH k (churn_fast s idx) n e idx I1 (churn_class_fast c s n idx Hc)) as (St2 & Tr2).
    change (churn_ptr (churn_fast s idx) idx) with (churn_ptr s idx) in St2, Tr2.
    change (concat (repeat [Alloc n e; Free (churn_ptr s idx)] (S (S cnt))))
      with (Alloc n e :: Free (churn_ptr s idx) :: concat (repeat [Alloc n e; Free (churn_ptr s idx)] (S cnt))).
    cbn [run_from fold_left trace_from]. fold (run_from c (st_of (step c (st_of (step c s (Alloc n e))) (Free (churn_ptr s idx))))
                                                      (concat (repeat [Alloc n e; Free (churn_ptr s idx)] (S cnt)))).
    rewrite St. split.
    + rewrite St2. apply churn_fast_idem.
    + constructor; [cbn [fst]; rewrite R; reflexivity|]. constructor; [cbn [fst]; rewrite Rf; reflexivity|exact Tr2].
Qed.

(* history level: after ANY admissible history, ANY number cnt+1 of allocate(n)/free pairs on a class with a partial slab
   runs without stopping and ends in the state [churn_fast] -- the same as after one pair, whatever cnt is (2^32 included) *)
Theorem C02_churn_main :
  forall (c : cfg) (ops : list op) (n : N) (e : env) (idx : N) (cnt : nat),
    cfg_ok c = true -> policy_ok c ops -> api_ok c ops ->
    let s := run c ops in
    churn_class c s n = Some idx ->
    let pairs := concat (repeat [Alloc n e; Free (churn_ptr s idx)] (S cnt)) in
    run_from c s pairs = churn_fast s idx
    /\ Forall (fun x => is_stop (fst x) = false) (trace_from c s pairs)
    /\ slabs (churn_fast s idx) = slabs s /\ larges (churn_fast s idx) = larges s /\ partial (churn_fast s idx) = partial s
    /\ used (churn_fast s idx) = used s /\ live (churn_fast s idx) = live s.
Proof.
  intros c ops n e idx cnt Hc Hp Ha s Hcc pairs. pose proof (cfg_ok_facts c Hc) as F.
  destruct (prefix_inv c ops ops Hc Hp Ha ltac:(exists []; rewrite app_nil_r; reflexivity)) as [I _]. fold s in I.
  destruct (churn_iter c F cnt 0 s n e idx I Hcc) as [A B]. repeat split; assumption.
Qed.
