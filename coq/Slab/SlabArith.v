(* Arithmetic facts used by the slab proofs: masks as div/mod, size classes. *)
From Coq Require Import List NArith Bool Lia ZArith ZifyBool ZifyNat ZifyN.
From FV Require Import Slab.SlabModel.
Import ListNotations.
Local Open Scope N_scope.

(* ---------- powers of two and masks ---------- *)
Lemma is_pow2_spec x : is_pow2 x = true -> exists k, x = 2 ^ k.
Proof.
  unfold is_pow2. intros H. apply andb_prop in H. destruct H as [_ H].
  apply N.eqb_eq in H. exists (N.log2 x). rewrite H at 1. now rewrite N.shiftl_1_l.
Qed.

Lemma pow2_pos k : 0 < 2 ^ k.
Proof. apply N.neq_0_lt_0. apply N.pow_nonzero. discriminate. Qed.

Lemma align_down_pow2 a k : align_down a (2 ^ k) = a / 2 ^ k * 2 ^ k.
Proof.
  unfold align_down.
  replace (2 ^ k - 1) with (N.ones k) by (rewrite N.ones_equiv, N.pred_sub; reflexivity).
  rewrite N.ldiff_ones_r, N.shiftl_mul_pow2, N.shiftr_div_pow2. reflexivity.
Qed.

Lemma align_up_pow2 a k : align_up a (2 ^ k) = (a + 2 ^ k - 1) / 2 ^ k * 2 ^ k.
Proof. unfold align_up. apply (align_down_pow2 (a + 2 ^ k - 1) k). Qed.

Lemma align_down_spec a m : 0 < m -> let r := a / m * m in r <= a /\ a < r + m /\ r mod m = 0.
Proof.
  intros Hm r. subst r. pose proof (N.div_mod a m ltac:(lia)) as E.
  pose proof (N.mod_upper_bound a m ltac:(lia)) as U.
  split; [|split]; [nia|nia|apply N.mod_mul; lia].
Qed.

Lemma align_up_spec a m : 0 < m -> let r := (a + m - 1) / m * m in a <= r /\ r < a + m /\ r mod m = 0.
Proof.
  intros Hm r. subst r. pose proof (N.div_mod (a + m - 1) m ltac:(lia)) as E.
  pose proof (N.mod_upper_bound (a + m - 1) m ltac:(lia)) as U.
  split; [|split]; [nia|nia|apply N.mod_mul; lia].
Qed.

Lemma mul_div_id_of_mod0 a m : 0 < m -> a mod m = 0 -> a / m * m = a.
Proof. intros Hm H. pose proof (N.div_mod a m ltac:(lia)). nia. Qed.

(* q*m <= x < q*m + m  ->  x / m = q *)
Lemma div_unique_range x m q : 0 < m -> q * m <= x -> x < q * m + m -> x / m = q.
Proof.
  intros Hm H1 H2. symmetry. apply (N.div_unique x m q (x - q * m)); nia.
Qed.

(* the frame lookup: every address in (f, f+m] rounds (after -1) down to f when f is m-aligned *)
Lemma lookup_arith f m p : 0 < m -> f mod m = 0 -> f < p -> p <= f + m -> (p - 1) / m * m = f.
Proof.
  intros Hm Hf H1 H2.
  pose proof (mul_div_id_of_mod0 f m Hm Hf) as E.
  rewrite (div_unique_range (p - 1) m (f / m)); nia.
Qed.

(* ---------- size classes ---------- *)
Lemma b2s_pow i : b2s i = 2 ^ (i + 3).
Proof.
  unfold b2s. destruct (i <? 4) eqn:E.
  - rewrite N.shiftl_mul_pow2. change 8 with (2 ^ 3). rewrite <- N.pow_add_r. f_equal. lia.
  - apply N.ltb_ge in E. rewrite N.shiftl_1_l. f_equal. lia.
Qed.

Lemma b2s_pos i : 0 < b2s i.
Proof. rewrite b2s_pow. apply pow2_pos. Qed.

Lemma b2s_ge8 i : 8 <= b2s i.
Proof.
  rewrite b2s_pow. change 8 with (2 ^ 3). apply N.pow_le_mono_r; lia.
Qed.

Lemma b2s_mono i j : i <= j -> b2s i <= b2s j.
Proof. intros. rewrite !b2s_pow. apply N.pow_le_mono_r; lia. Qed.

Lemma b2s_lt i j : i < j -> b2s i < b2s j.
Proof. intros. rewrite !b2s_pow. apply N.pow_lt_mono_r; lia. Qed.

Lemma b2s_mul8 i : b2s i mod 8 = 0.
Proof.
  rewrite b2s_pow. replace (i + 3) with (3 + i) by lia. rewrite N.pow_add_r.
  change (2 ^ 3) with 8. rewrite N.mul_comm. apply N.mod_mul. lia.
Qed.

(* s2b on the non-tiny range *)
Lemma s2b_big n : 64 < n ->
  let e := N.log2 n in
  6 <= e /\ 2 ^ e <= n < 2 ^ (e + 1) /\
  s2b n = e - 3 + (if n =? 2 ^ e then 0 else 1).
Proof.
  intros Hn e.
  assert (He : 6 <= e).
  { subst e. change 6 with (N.log2 64). apply N.log2_le_mono. lia. }
  pose proof (N.log2_spec n ltac:(lia)) as [L U]. fold e in L, U.
  rewrite <- N.add_1_r in U.
  split; [exact He|]. split; [split; assumption|].
  unfold s2b. destruct (n <=? 64) eqn:E; [apply N.leb_le in E; lia|].
  fold e. rewrite N.shiftl_1_l, N.shiftr_div_pow2.
  replace (n - 2 ^ e + 2 ^ e - 1) with (n - 1) by lia.
  assert (P : 0 < 2 ^ e) by apply pow2_pos.
  destruct (n =? 2 ^ e) eqn:Q.
  - apply N.eqb_eq in Q. rewrite (N.div_small (n - 1) (2 ^ e)) by lia. lia.
  - apply N.eqb_neq in Q.
    rewrite (div_unique_range (n - 1) (2 ^ e) 1) by (rewrite ?N.pow_add_r in U; change (2 ^ 1) with 2 in U; lia).
    lia.
Qed.

Lemma s2b_small n : n <= 64 ->
  s2b n = if n <=? 8 then 0 else if n <=? 16 then 1 else if n <=? 32 then 2 else 3.
Proof. intros H. unfold s2b. apply N.leb_le in H. rewrite H. reflexivity. Qed.

(* the class chosen for n is the smallest class that fits *)
Lemma s2b_fits n : 1 <= n -> n <= b2s (s2b n).
Proof.
  intros Hn. destruct (N.le_gt_cases n 64) as [H|H].
  - rewrite s2b_small by exact H.
    destruct (n <=? 8) eqn:E1; [apply N.leb_le in E1; exact E1|].
    destruct (n <=? 16) eqn:E2; [apply N.leb_le in E2; exact E2|].
    destruct (n <=? 32) eqn:E3; [apply N.leb_le in E3; exact E3|]. exact H.
  - destruct (s2b_big n H) as (He & [L U] & E). rewrite E, b2s_pow.
    destruct (n =? 2 ^ N.log2 n) eqn:Q.
    + apply N.eqb_eq in Q. replace (N.log2 n - 3 + 0 + 3) with (N.log2 n) by lia. lia.
    + replace (N.log2 n - 3 + 1 + 3) with (N.log2 n + 1) by lia. lia.
Qed.

Lemma s2b_least n : 1 <= n -> s2b n = 0 \/ b2s (s2b n - 1) < n.
Proof.
  intros Hn. destruct (N.le_gt_cases n 64) as [H|H].
  - rewrite s2b_small by exact H.
    destruct (n <=? 8) eqn:E1; [left; reflexivity|right]. apply N.leb_gt in E1.
    destruct (n <=? 16) eqn:E2; [exact E1|]. apply N.leb_gt in E2.
    destruct (n <=? 32) eqn:E3; [exact E2|]. apply N.leb_gt in E3. exact E3.
  - right. destruct (s2b_big n H) as (He & [L U] & E). rewrite E, b2s_pow.
    destruct (n =? 2 ^ N.log2 n) eqn:Q.
    + apply N.eqb_eq in Q. replace (N.log2 n - 3 + 0 - 1 + 3) with (N.log2 n - 1) by lia.
      rewrite Q at 2. apply N.pow_lt_mono_r; lia.
    + apply N.eqb_neq in Q. replace (N.log2 n - 3 + 1 - 1 + 3) with (N.log2 n) by lia. lia.
Qed.

Lemma s2b_bound n nb : 1 <= nb -> 1 <= n -> n <= b2s (nb - 1) -> s2b n < nb.
Proof.
  intros Hnb Hn Hmax.
  destruct (N.lt_ge_cases (s2b n) nb) as [|Hge]; [assumption|exfalso].
  destruct (s2b_least n Hn) as [Z|L]; [lia|].
  assert (b2s (nb - 1) <= b2s (s2b n - 1)) by (apply b2s_mono; lia). lia.
Qed.

Lemma s2b_mono_class n i : 1 <= n -> n <= b2s i -> s2b n <= i.
Proof.
  intros Hn H. destruct (N.le_gt_cases (s2b n) i) as [|G]; [assumption|exfalso].
  destruct (s2b_least n Hn) as [Z|L]; [lia|].
  assert (b2s i <= b2s (s2b n - 1)) by (apply b2s_mono; lia). lia.
Qed.

(* ---------- overhead / payload / objects ---------- *)
Lemma overhead_spec c item : 0 < item ->
  hdr_slab c <= overhead c item /\ overhead c item < hdr_slab c + item /\ overhead c item mod item = 0.
Proof. intros H. unfold overhead. apply (align_up_spec (hdr_slab c) item H). Qed.

Lemma nobj_spec c item : 0 < item -> nobj c item * item <= payload c item.
Proof. intros H. unfold nobj. pose proof (N.div_mod (payload c item) item ltac:(lia)). nia. Qed.
