From FV Require Import Common.ExtractTypes Slab.SlabModel.
From Coq Require Extraction.
From Coq Require Import ExtrOcamlBasic.
Extraction "../build/extract/slab_model.ml" types_witness init step get_size_of map_len digest b2s s2b
  max_bucket_size mapped cfg_ok op_policy_ok op_api_ok churn_fast churn_class.
