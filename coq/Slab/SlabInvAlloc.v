(* allocate preserves the invariant (pop from the head slab, new slab, large frame). *)
From Coq Require Import List NArith Bool Lia ZifyBool ZifyNat ZifyN.
From FV Require Import Slab.SlabModel Slab.SlabArith Slab.SlabBasics Slab.SlabFail Slab.SlabInv.
Import ListNotations.
Local Open Scope N_scope.

(* ---------- small helpers ---------- *)
Lemma in_upd_slab_const a x x' l y :
  NoDup (map sl_frame l) -> In x l -> sl_frame x = a ->
  (In y (upd_slab a (fun _ => x') l) <-> (In y l /\ sl_frame y <> a) \/ y = x').
Proof.
  intros Hnd Hx Ha. rewrite (in_upd_slab a (fun _ => x') l y Hnd). split.
  - intros [H| (x0 & _ & _ & ->)]; auto.
  - intros [H| ->]; [left; assumption|right; exists x; auto].
Qed.

Lemma map_upd_slab_const {B} (g : slab -> B) a x' l :
  (forall z, In z l -> sl_frame z = a -> g x' = g z) ->
  map g (upd_slab a (fun _ => x') l) = map g l.
Proof.
  induction l as [|y r IH]; cbn; [reflexivity|]. intros H.
  destruct (sl_frame y =? a) eqn:E.
  - apply N.eqb_eq in E. cbn. rewrite (H y (or_introl eq_refl) E). reflexivity.
  - cbn. rewrite IH; [reflexivity|]. intros z Hz. apply H. right. assumption.
Qed.

Lemma obj_of_set_avail c x av n p : obj_of c (set_avail x av n) p <-> obj_of c x p.
Proof. unfold obj_of, sl_addr, sl_item, set_avail. cbn. tauto. Qed.

Lemma slab_ok_mono c k k' lv x : k <= k' -> slab_ok c k lv x -> slab_ok c k' lv x.
Proof. intros Hk [? ? ? ? ? ? ? ?]. constructor; auto. Qed.

Lemma slab_ok_any c k k' lv x : slab_ok c k lv x -> slab_ok c k' lv x.
Proof. intros [? ? ? ? ? ? ? ?]. constructor; auto. Qed.

Lemma slab_ok_lv c k lv lv' x :
  (forall a, In a (sl_avail x) -> ~ In a lv -> ~ In a lv') -> slab_ok c k lv x -> slab_ok c k lv' x.
Proof.
  intros H [? ? ? ? ? ? A ?]. constructor; auto. intros a Ha. destruct (A a Ha). split; auto.
Qed.

Lemma Inv_mono c k k' s : k <= k' -> Inv c k s -> Inv c k' s.
Proof.
  intros Hk [? ? S ? ? ? ? ? ? ? ? ?]. constructor; auto. intros x Hx. eapply slab_ok_mono; eauto.
Qed.

Lemma Inv_any c k k' s : Inv c k s -> Inv c k' s.
Proof.
  intros [? ? S ? ? ? ? ? ? ? ? ?]. constructor; auto. intros x Hx. eapply slab_ok_any; eauto.
Qed.

Lemma rdisj_spec a b : rdisj a b = true <-> fst a + snd a <= fst b \/ fst b + snd b <= fst a.
Proof. unfold rdisj. rewrite orb_true_iff, !N.leb_le. tauto. Qed.

Lemma rdisj_sym a b : rdisj a b = rdisj b a.
Proof. unfold rdisj. apply orb_comm. Qed.

Lemma norm_req_max n : norm_req n = N.max n 1.
Proof. unfold norm_req. destruct (n =? 0) eqn:E; [apply N.eqb_eq in E|apply N.eqb_neq in E]; lia. Qed.

Lemma bucket_hand_out c s o n' nreq idx i : bucket (fst (hand_out c s o n' nreq idx)) i = bucket s i.
Proof. reflexivity. Qed.

(* ---------- counting helpers (page accounting, footprint) ---------- *)
Lemma obj_list_len c x l : NoDup l -> (forall a, In a l -> obj_of c x a) -> N.of_nat (length l) <= nobj c (sl_item x).
Proof.
  intros Hnd Hobj.
  assert (Hincl : incl l (objs_up (sl_addr c x) (sl_item x) (N.to_nat (nobj c (sl_item x))))).
  { intros a Ha. destruct (Hobj a Ha) as (i & Hi & ->).
    apply in_objs_up. exists (N.to_nat i). split; [lia|]. rewrite N2Nat.id. reflexivity. }
  pose proof (NoDup_incl_length Hnd Hincl) as L. rewrite length_objs_up in L. lia.
Qed.

Lemma avail_len_le c k lv x : slab_ok c k lv x -> N.of_nat (length (sl_avail x)) <= nobj c (sl_item x).
Proof.
  intros S. apply obj_list_len; [apply (so_nodup _ _ _ _ S)|]. intros a Ha. apply (so_avail _ _ _ _ S a Ha).
Qed.

Lemma cfree_le c k lv l i :
  (forall x, In x l -> slab_ok c k lv x) ->
  sumN (map (g_free i) l) <= sumN (map (g_cnt i) l) * nobj c (b2s i).
Proof.
  intros H. rewrite <- sumN_scale. apply sumN_pointwise. intros y Hy. unfold g_free, g_cnt.
  destruct (sl_idx y =? i) eqn:E; [|lia]. apply N.eqb_eq in E.
  pose proof (avail_len_le c k lv y (H y Hy)) as L. unfold sl_item in L. rewrite E in L. lia.
Qed.

Lemma sumN_zero {A} (l : list A) : sumN (map (fun _ => 0) l) = 0.
Proof. induction l as [|a l IH]; cbn; [reflexivity|exact IH]. Qed.

Lemma g_cnt_same i x x' : sl_idx x' = sl_idx x -> g_cnt i x' = g_cnt i x.
Proof. unfold g_cnt. intros ->. reflexivity. Qed.

Lemma slab_pages_same c x x' : sl_idx x' = sl_idx x -> slab_pages c x' = slab_pages c x.
Proof. unfold slab_pages, sl_len, sl_item. intros ->. reflexivity. Qed.

Lemma nth_upd_same_N {A} (l : list A) (i : N) f d n :
  length l = N.to_nat n -> i < n -> nth (N.to_nat i) (upd_nth l (N.to_nat i) f) d = f (nth (N.to_nat i) l d).
Proof. intros L H. apply nth_upd_nth_same. lia. Qed.

Lemma nth_upd_other_N {A} (l : list A) (i j : N) f d :
  i <> j -> nth (N.to_nat j) (upd_nth l (N.to_nat i) f) d = nth (N.to_nat j) l d.
Proof. intros H. apply nth_upd_nth_other. lia. Qed.

(* ---------- pop from the head slab ---------- *)
Section Pop.
Variable c : cfg.
Hypothesis F : cfg_facts c.
Variables (k : N) (s : state).
Hypothesis I : Inv c k s.
Variables (idx h : N) (t : list N).
Hypothesis Hidx : idx < nbuckets c.
Hypothesis Hb : bucket s idx = h :: t.

Lemma head_slab : exists x o av,
  In x (slabs s) /\ sl_frame x = h /\ sl_idx x = idx /\ sl_avail x = o :: av /\ find_slab h (slabs s) = Some x.
Proof.
  destruct (I_partial _ _ _ I idx Hidx) as [_ M]. rewrite Hb in M.
  destruct (proj1 (M h) (or_introl eq_refl)) as (x & Hx & Hf & Hi & Ha).
  destruct (sl_avail x) as [|o av] eqn:E; [contradiction|].
  exists x, o, av. repeat split; auto. apply find_slab_in; auto. apply (slab_frames_nodup c k s I).
Qed.

Definition pop_state (x : slab) (av : list N) (b : blk) : state :=
  mkState (upd_slab h (fun _ => set_avail x av (wrap32 (sl_nres x + 1))) (slabs s)) (larges s)
          (match av with [] => upd_nth (partial s) (N.to_nat idx) (remove_addr h) | _ => partial s end)
          (used s) (b :: live s)
          (upd_nth (nlive s) (N.to_nat idx) (fun _ => N.succ (nth (N.to_nat idx) (nlive s) 0)))
          (upd_nth (peak s) (N.to_nat idx) (fun m => N.max m (N.succ (nth (N.to_nat idx) (nlive s) 0)))).

Lemma alloc_small_pop n' nreq e :
  exists x o av,
    In x (slabs s) /\ sl_frame x = h /\ sl_idx x = idx /\ sl_avail x = o :: av /\
    st_of (alloc_small c s n' nreq idx e) = pop_state x av (mkBlk o nreq (b2s idx) n' []) /\
    res_of (alloc_small c s n' nreq idx e) = RPtr o.
Proof.
  destruct head_slab as (x & o & av & Hx & Hf & Hi & Ha & Hfind).
  exists x, o, av. repeat split; auto.
  - unfold alloc_small. rewrite Hb. unfold pop_head. rewrite Hfind, Ha.
    assert (C : sl_contains c x o = true).
    { eapply obj_contains; eauto. apply (I_slab _ _ _ I x Hx).
      apply (so_avail _ _ _ _ (I_slab _ _ _ I x Hx)). rewrite Ha. left. reflexivity. }
    rewrite C. cbn [negb]. unfold hand_out. cbn. unfold pop_state. reflexivity.
  - unfold alloc_small. rewrite Hb. unfold pop_head. rewrite Hfind, Ha.
    assert (C : sl_contains c x o = true).
    { eapply obj_contains; eauto. apply (I_slab _ _ _ I x Hx).
      apply (so_avail _ _ _ _ (I_slab _ _ _ I x Hx)). rewrite Ha. left. reflexivity. }
    rewrite C. cbn [negb]. unfold hand_out. cbn. reflexivity.
Qed.

Lemma pop_state_inv x o av nreq n' :
  In x (slabs s) -> sl_frame x = h -> sl_idx x = idx -> sl_avail x = o :: av ->
  N.max nreq 1 <= b2s idx ->
  Inv c (k + 1) (pop_state x av (mkBlk o nreq (b2s idx) n' [])).
Proof.
  intros Hx Hf Hi Ha Hreq.
  pose proof (I_slab _ _ _ I x Hx) as Sx.
  pose proof (slab_frames_nodup c k s I) as Hnd.
  set (x' := set_avail x av (wrap32 (sl_nres x + 1))).
  assert (Ho : obj_of c x o /\ ~ In o (live_ptrs s)).
  { apply (so_avail _ _ _ _ Sx). rewrite Ha. left. reflexivity. }
  destruct Ho as [Oo Ol].
  assert (Hnd_av : NoDup (o :: av)) by (rewrite <- Ha; apply (so_nodup _ _ _ _ Sx)).
  assert (Hin : forall y, In y (upd_slab h (fun _ => x') (slabs s)) <-> (In y (slabs s) /\ sl_frame y <> h) \/ y = x').
  { intros y. apply (in_upd_slab_const h x x' (slabs s) y Hnd Hx Hf). }
  assert (Sx' : slab_ok c (k + 1) (o :: live_ptrs s) x').
  { destruct Sx as [s1 s2 s3 s4 s5 s6 s7 s8]. constructor; auto.
    - inversion Hnd_av; assumption.
    - intros a Ha'. cbn in Ha'. assert (In a (sl_avail x)) as Hax by (rewrite Ha; right; assumption).
      destruct (s7 a Hax) as [O1 O2]. split; [apply obj_of_set_avail; assumption|].
      intros [<-|Hl]; [inversion Hnd_av; contradiction|contradiction].
    - unfold x', set_avail, sl_item. cbn [sl_nres sl_avail sl_idx].
      rewrite Ha in s8. cbn [length] in s8. pose proof (nobj_lt32 c (sl_idx x) F) as B32. unfold sl_item in *.
      unfold wrap32. rewrite N.mod_small by lia. lia. }
  constructor; cbn [slabs larges partial live used nlive peak pop_state].
  - destruct av; [rewrite upd_nth_length|]; apply (I_len _ _ _ I).
  - rewrite map_upd_slab_const; [apply (I_frames _ _ _ I)|]. intros z _ Hz. cbn. congruence.
  - intros y Hy. apply Hin in Hy. destruct Hy as [[Hy Hne]| ->]; [|exact Sx'].
    unfold live_ptrs. cbn [live map bk_p].
    apply (slab_ok_mono c k (k + 1)); [lia|].
    apply (slab_ok_lv c k (live_ptrs s)); [|apply (I_slab _ _ _ I y Hy)].
    intros a Hay Hnl [<-|Hl]; [|contradiction].
    pose proof (I_slab _ _ _ I y Hy) as Sy.
    destruct (so_avail _ _ _ _ Sy o Hay) as [Oy _].
    pose proof (obj_frame c F _ _ y o Sy Oy) as E1. pose proof (obj_frame c F _ _ x o Sx Oo) as E2. congruence.
  - apply (I_large _ _ _ I).
  - intros f1 r1 f2 r2 H1 H2. apply (I_disj _ _ _ I f1 r1 f2 r2).
    + unfold frames, pop_state in *. cbn [slabs larges] in H1. rewrite map_upd_slab_const in H1; [exact H1|].
      intros z Hz Hzf. rewrite (slab_by_frame c k s I z x Hz Hx) by congruence. reflexivity.
    + unfold frames, pop_state in *. cbn [slabs larges] in H2. rewrite map_upd_slab_const in H2; [exact H2|].
      intros z Hz Hzf. rewrite (slab_by_frame c k s I z x Hz Hx) by congruence. reflexivity.
  - unfold live_ptrs. cbn. constructor; [exact Ol|apply (I_live_nodup _ _ _ I)].
  - intros b [<-|Hb'].
    + left. exists x'. split; [apply Hin; right; reflexivity|]. cbn [bk_p bk_size0 bk_req].
      split; [apply obj_of_set_avail; exact Oo|]. unfold sl_item, x', set_avail. cbn [sl_idx]. rewrite Hi. auto.
    + destruct (I_live _ _ _ I b Hb') as [(y & Hy & O & Z & R)| (y & Hy & E & Z & R)].
      * left. destruct (N.eq_dec (sl_frame y) h) as [Ey|Ey].
        -- assert (y = x) by (apply (slab_by_frame c k s I); congruence). subst y.
           exists x'. split; [apply Hin; right; reflexivity|]. split; [apply obj_of_set_avail; assumption|]. auto.
        -- exists y. split; [apply Hin; left; auto|auto].
      * right. exists y. auto.
  - intros i Hi'. destruct (I_partial _ _ _ I i Hi') as [Bs Bm].
    assert (Hbi : bucket (pop_state x av (mkBlk o nreq (b2s idx) n' [])) i =
                  match av with [] => if N.eq_dec i idx then remove_addr h (bucket s i) else bucket s i | _ => bucket s i end).
    { unfold bucket, pop_state. cbn [partial]. destruct av; [|reflexivity].
      destruct (N.eq_dec i idx) as [->|Hne].
      - rewrite nth_upd_nth_same; [reflexivity|]. rewrite (I_len _ _ _ I). lia.
      - rewrite nth_upd_nth_other; [reflexivity|]. lia. }
    unfold bucket_ok. rewrite Hbi. cbn [slabs pop_state].
    destruct av as [|a2 av'].
    + (* the slab is exhausted: it leaves the tree *)
      destruct (N.eq_dec i idx) as [->|Hne].
      * destruct (sorted_remove h _ Bs) as [R1 R2]. split; [assumption|].
        intros a. rewrite R2, Bm. split.
        -- intros [(y & Hy & Hyf & Hyi & Hya) Hne]. exists y. split; [apply Hin; left; split; [assumption|congruence]|auto].
        -- intros (y & Hy & Hyf & Hyi & Hya). apply Hin in Hy. destruct Hy as [[Hy Hne]| ->].
           ++ split; [exists y; auto|congruence].
           ++ cbn in Hya. contradiction.
      * split; [assumption|]. intros a. rewrite Bm. split.
        -- intros (y & Hy & Hyf & Hyi & Hya). exists y. split; [|auto]. apply Hin. left. split; [assumption|].
           intros E. assert (y = x) by (apply (slab_by_frame c k s I); congruence). subst y. congruence.
        -- intros (y & Hy & Hyf & Hyi & Hya). apply Hin in Hy. destruct Hy as [[Hy Hne']| ->].
           ++ exists y; auto.
           ++ cbn in Hyi. congruence.
    + split; [assumption|]. intros a. rewrite Bm. split.
      * intros (y & Hy & Hyf & Hyi & Hya). destruct (N.eq_dec (sl_frame y) h) as [Ey|Ey].
        -- assert (y = x) by (apply (slab_by_frame c k s I); congruence). subst y.
           exists x'. split; [apply Hin; right; reflexivity|]. cbn. repeat split; auto. discriminate.
        -- exists y. split; [apply Hin; left; auto|auto].
      * intros (y & Hy & Hyf & Hyi & Hya). apply Hin in Hy. destruct Hy as [[Hy Hne']| ->].
        -- exists y; auto.
        -- exists x. cbn in Hyf, Hyi. repeat split; auto. rewrite Ha. discriminate.
  - intros y Hy. unfold live_ptrs. cbn. right. apply (I_large_live _ _ _ I y Hy).
  - unfold pages, pop_state. cbn [slabs larges]. rewrite map_upd_slab_const; [apply (I_used _ _ _ I)|].
    intros z Hz Hzf. rewrite (slab_by_frame c k s I z x Hz Hx) by congruence. apply slab_pages_same. reflexivity.
  - rewrite !upd_nth_length. apply (I_cnt_len _ _ _ I).
  - intros i Hi'. destruct (I_foot _ _ _ I i Hi') as (E1 & E2 & E3). destruct (I_cnt_len _ _ _ I) as [L1 L2].
    pose proof (sumN_upd_slab (g_free i) h x x' (slabs s) Hnd Hx Hf) as U1.
    pose proof (sumN_upd_slab (g_cnt i) h x x' (slabs s) Hnd Hx Hf) as U2.
    rewrite (g_cnt_same i x x') in U2 by reflexivity.
    assert (G1 : g_free i x = if idx =? i then N.of_nat (S (length av)) else 0).
    { unfold g_free. rewrite Hi, Ha. reflexivity. }
    assert (G2 : g_free i x' = if idx =? i then N.of_nat (length av) else 0).
    { unfold g_free, x', set_avail. cbn [sl_idx sl_avail]. rewrite Hi. reflexivity. }
    unfold foot_ok, nlive_of, peak_of, cfree, cnum, pop_state in *. cbn [slabs nlive peak]. fold x'.
    destruct (N.eq_dec i idx) as [-> |Hne].
    + rewrite (nth_upd_same_N (nlive s) idx _ 0 (nbuckets c) L1 Hidx).
      rewrite (nth_upd_same_N (peak s) idx _ 0 (nbuckets c) L2 Hidx).
      rewrite N.eqb_refl in G1, G2. lia.
    + rewrite !nth_upd_other_N by congruence.
      assert (Q : (idx =? i) = false) by (apply N.eqb_neq; congruence). rewrite Q in G1, G2. lia.
Qed.

End Pop.

(* ---------- what policy_ok gives for a fresh mapping ---------- *)
Definition fresh_region (s : state) (r len : N) : Prop :=
  0 < r /\ r + len <= two64 /\ forall rg, In rg (mapped s) -> rdisj (r, len) rg = true.

Lemma live_in_frames c k s b : cfg_facts c -> Inv c k s -> In b (live s) ->
  exists f rg, In (f, rg) (frames s) /\ fst rg <= bk_p b /\ bk_p b + bk_size0 b <= fst rg + snd rg /\ 0 < bk_size0 b.
Proof.
  intros F I Hb. destruct (I_live _ _ _ I b Hb) as [(x & Hx & O & Z & R)| (x & Hx & E & Z & R)].
  - exists (sl_frame x), (sl_region x). split; [apply in_frames_slab; assumption|].
    pose proof (obj_in_region c F _ _ x _ (I_slab _ _ _ I x Hx) O) as (B1 & B2 & B3). cbn. rewrite Z.
    pose proof (b2s_pos (sl_idx x)). unfold sl_item in *. lia.
  - exists (lg_frame x), (lg_region x). split; [apply in_frames_large; assumption|].
    pose proof (I_large _ _ _ I x Hx) as L. pose proof (lo_lo _ _ L). pose proof (lo_hi _ _ L). pose proof (lo_len _ _ L).
    cbn. rewrite Z, E. unfold lg_addr. lia.
Qed.

Lemma avail_in_frames c k s x a : cfg_facts c -> Inv c k s -> In x (slabs s) -> In a (sl_avail x) ->
  fst (sl_region x) <= a /\ a < fst (sl_region x) + snd (sl_region x).
Proof.
  intros F I Hx Ha. pose proof (I_slab _ _ _ I x Hx) as S. destruct (so_avail _ _ _ _ S a Ha) as [O _].
  pose proof (obj_in_region c F _ _ x _ S O) as (B1 & B2 & B3). pose proof (b2s_pos (sl_idx x)).
  unfold sl_item in *. cbn. lia.
Qed.

Lemma fresh_not_in_old s r len rg a o :
  fresh_region s r len -> In rg (mapped s) -> fst rg <= a -> a < fst rg + snd rg -> r <= o -> o < r + len -> a <> o.
Proof.
  intros (_ & _ & D) Hrg A1 A2 O1 O2 ->. specialize (D rg Hrg). apply rdisj_spec in D. cbn in D. lia.
Qed.

Lemma frame_of_map_spec c r len : cfg_facts c ->
  (aligned c = true -> r mod sb c = 0) ->
  (len = if aligned c then 0 else sb c) ->
  let fr := frame_of_map c r in r <= fr /\ fr <= r + len /\ fr mod sb c = 0.
Proof.
  intros F Hal Hlen fr. subst fr. unfold frame_of_map. destruct (aligned c).
  - split; [lia|]. split; [lia|auto].
  - rewrite (align_up_sb c r F). pose proof (align_up_spec r (sb c) (sb_pos c F)) as (A1 & A2 & A3). cbn in *.
    split; [assumption|]. split; [lia|assumption].
Qed.

Definition env_fresh (c : cfg) (s : state) (len : N) (e : env) : Prop :=
  env_ret e <> 0 -> fresh_region s (env_ret e) len /\ (aligned c = true -> env_ret e mod sb c = 0).

(* ---------- a new slab ---------- *)
Section NewSlab.
Variable c : cfg.
Hypothesis F : cfg_facts c.
Variables (k : N) (s : state).
Hypothesis I : Inv c k s.
Variables (idx r : N).
Hypothesis Hidx : idx < nbuckets c.
Hypothesis Hb : bucket s idx = [].
Hypothesis Hfresh : fresh_region s r (slab_map_len c).
Hypothesis Hal : aligned c = true -> r mod sb c = 0.

Let item := b2s idx.
Let fr := frame_of_map c r.
Let base := fr + overhead c item.
Let cnt := N.to_nat (nobj c item).

Lemma fr_spec : r <= fr /\ fr + slabsz c <= r + slab_map_len c /\ fr mod sb c = 0.
Proof.
  pose proof (frame_of_map_spec c r (if aligned c then 0 else sb c) F Hal eq_refl) as (A & B & C).
  fold fr in A, B, C. unfold slab_map_len. destruct (aligned c); repeat split; auto; lia.
Qed.

Lemma cnt_ge2 : (2 <= cnt)%nat.
Proof. unfold cnt, item. pose proof (nobj_ge2 c idx F Hidx). lia. Qed.

Lemma carve_two : exists o a2 av',
  carve base item cnt = o :: a2 :: av'.
Proof.
  pose proof cnt_ge2 as H. destruct cnt as [|[|n]] eqn:E; try lia.
  rewrite (carve_head base item (S n)), (carve_head base item n). eauto.
Qed.

Definition newslab_state (av : list N) (b : blk) : state :=
  mkState (mkSlab fr r (slab_map_len c) idx av 1 :: slabs s) (larges s)
          (upd_nth (partial s) (N.to_nat idx) (ins_sorted fr))
          (used s + (payload c item + page c) / page c) (b :: live s)
          (upd_nth (nlive s) (N.to_nat idx) (fun _ => N.succ (nth (N.to_nat idx) (nlive s) 0)))
          (upd_nth (peak s) (N.to_nat idx) (fun m => N.max m (N.succ (nth (N.to_nat idx) (nlive s) 0)))).

Lemma alloc_small_new n' nreq e : env_ret e = r -> r <> 0 ->
  exists o a2 av',
    carve base item cnt = o :: a2 :: av' /\
    st_of (alloc_small c s n' nreq idx e) = newslab_state (a2 :: av') (mkBlk o nreq item n' []) /\
    res_of (alloc_small c s n' nreq idx e) = RPtr o.
Proof.
  intros He Hr. destruct carve_two as (o & a2 & av' & Hc). exists o, a2, av'. split; [assumption|].
  unfold alloc_small. rewrite Hb, He. apply N.eqb_neq in Hr. rewrite Hr.
  pose proof (overhead_lt_slabsz c idx F Hidx) as Ho. apply N.ltb_lt in Ho. rewrite Ho. cbn [negb].
  unfold construct_slab. cbn [sl_avail].
  unfold carve, base, cnt, fr, item in Hc. rewrite Hc.
  unfold hand_out, attach_slab, account_add, set_avail, sl_len, sl_item. cbn.
  split; reflexivity.
Qed.

Lemma new_objs a : In a (carve base item cnt) ->
  obj_of c (mkSlab fr r (slab_map_len c) idx (carve base item cnt) 0) a /\ r <= a /\ a < r + slab_map_len c.
Proof.
  intros Ha. apply in_carve in Ha. destruct Ha as (i & Hi & ->).
  assert (O : obj_of c (mkSlab fr r (slab_map_len c) idx (carve base item cnt) 0) (base + N.of_nat i * item)).
  { exists (N.of_nat i). unfold sl_addr, sl_item. cbn [sl_idx sl_frame]. fold item. split; [unfold cnt in Hi; lia|reflexivity]. }
  split; [exact O|].
  destruct O as (j & Hj & E). unfold sl_addr, sl_item in *. cbn [sl_idx sl_frame] in *.
  pose proof fr_spec as (A & B & C).
  unfold base, item, fr in *.
  pose proof (b2s_pos idx) as Ip.
  pose proof (overhead_lt_slabsz c idx F Hidx) as Ho.
  pose proof (nobj_spec c (b2s idx) Ip) as Nb. unfold payload in Nb.
  assert (M : (j + 1) * b2s idx <= nobj c (b2s idx) * b2s idx) by (apply N.mul_le_mono_r; lia).
  rewrite E. lia.
Qed.

Lemma newslab_state_inv o av nreq n' :
  carve base item cnt = o :: av -> av <> [] -> N.max nreq 1 <= item ->
  Inv c (k + 1) (newslab_state av (mkBlk o nreq item n' [])).
Proof.
  intros Hc Hav Hreq.
  pose proof fr_spec as (A & B & C).
  pose proof Hfresh as (R0 & R1 & R2).
  set (x0 := mkSlab fr r (slab_map_len c) idx (carve base item cnt) 0).
  set (x' := mkSlab fr r (slab_map_len c) idx av 1).
  assert (Hnd : NoDup (o :: av)) by (rewrite <- Hc; apply NoDup_carve; apply b2s_pos).
  assert (Hobj : forall a, In a (o :: av) -> obj_of c x' a /\ r <= a /\ a < r + slab_map_len c).
  { intros a Ha. rewrite <- Hc in Ha. destruct (new_objs a Ha) as (O & Q). split; [exact O|exact Q]. }
  (* nothing old lives at an address of the new region *)
  assert (Hold_live : forall a, r <= a -> a < r + slab_map_len c -> ~ In a (live_ptrs s)).
  { intros a A1 A2 Hin. unfold live_ptrs in Hin. apply in_map_iff in Hin. destruct Hin as (b & <- & Hb').
    destruct (live_in_frames c k s b F I Hb') as (f & rg & Hf & L1 & L2 & L3).
    assert (In rg (mapped s)) as Hm by (apply (mapped_frames s); eauto).
    apply (fresh_not_in_old s r (slab_map_len c) rg (bk_p b) (bk_p b) Hfresh Hm); auto; lia. }
  assert (Hold_avail : forall y a, In y (slabs s) -> In a (sl_avail y) -> r <= a -> a < r + slab_map_len c -> False).
  { intros y a Hy Ha A1 A2. destruct (avail_in_frames c k s y a F I Hy Ha) as (L1 & L2).
    apply (fresh_not_in_old s r (slab_map_len c) (sl_region y) a a Hfresh); auto.
    apply (mapped_frames s). exists (sl_frame y). apply in_frames_slab. assumption. }
  assert (Hfr_new : forall f rg, In (f, rg) (frames s) -> f <> fr).
  { intros f rg Hf ->. destruct (frame_in_region c F k s I fr rg Hf) as (L1 & L2 & _).
    assert (In rg (mapped s)) as Hm by (apply (mapped_frames s); eauto).
    specialize (R2 rg Hm). apply rdisj_spec in R2. cbn in R2. pose proof (cf_slabsz_pos c F). lia. }
  assert (Hlen0 : N.of_nat (S (length av)) = nobj c item).
  { pose proof (length_carve base item cnt) as L. rewrite Hc in L. cbn [length] in L. unfold cnt in L. lia. }
  assert (Sx' : slab_ok c (k + 1) (o :: live_ptrs s) x').
  { constructor; unfold x', sl_item; cbn [sl_idx sl_base sl_frame sl_res sl_avail sl_nres]; auto; try (fold item; lia).
    - inversion Hnd; assumption.
    - intros a Ha. destruct (Hobj a (or_intror Ha)) as (O & A1 & A2). split; [exact O|].
      intros [<- |Hl]; [inversion Hnd; contradiction|]. apply (Hold_live a A1 A2 Hl). }
  destruct (Hobj o (or_introl eq_refl)) as (Oo & O1 & O2).
  constructor; cbn [slabs larges partial live used nlive peak newslab_state].
  - rewrite upd_nth_length. apply (I_len _ _ _ I).
  - cbn [map app sl_frame]. constructor; [|apply (I_frames _ _ _ I)].
    intros Hin. apply in_app_iff in Hin. rewrite !in_map_iff in Hin.
    destruct Hin as [(y & E & Hy)| (y & E & Hy)].
    + apply (Hfr_new (sl_frame y) (sl_region y)); [apply in_frames_slab; assumption|assumption].
    + apply (Hfr_new (lg_frame y) (lg_region y)); [apply in_frames_large; assumption|assumption].
  - intros y [<- |Hy]; [exact Sx'|].
    unfold live_ptrs. cbn [live map bk_p].
    apply (slab_ok_mono c k (k + 1)); [lia|].
    apply (slab_ok_lv c k (live_ptrs s)); [|apply (I_slab _ _ _ I y Hy)].
    intros a Hay Hnl [<- |Hl]; [|contradiction]. apply (Hold_avail y o Hy Hay O1 O2).
  - apply (I_large _ _ _ I).
  - intros f1 r1 f2 r2 H1 H2 Hne. unfold frames in H1, H2. cbn [slabs larges map app] in H1, H2.
    destruct H1 as [E1|H1], H2 as [E2|H2].
    + injection E1 as <- <-. injection E2 as <- <-. contradiction.
    + injection E1 as <- <-. apply R2. apply (mapped_frames s). exists f2. exact H2.
    + injection E2 as <- <-. rewrite rdisj_sym. apply R2. apply (mapped_frames s). exists f1. exact H1.
    + apply (I_disj _ _ _ I f1 r1 f2 r2); assumption.
  - unfold live_ptrs. cbn. constructor; [apply (Hold_live o O1 O2)|apply (I_live_nodup _ _ _ I)].
  - intros b [<- |Hb'].
    + left. exists x'. split; [left; reflexivity|]. cbn [bk_p bk_size0 bk_req]. split; [exact Oo|]. split; [reflexivity|exact Hreq].
    + destruct (I_live _ _ _ I b Hb') as [(y & Hy & O & Z & R)| (y & Hy & E & Z & R)].
      * left. exists y. split; [right; assumption|auto].
      * right. exists y. auto.
  - intros i Hi'. destruct (I_partial _ _ _ I i Hi') as [Bs Bm].
    unfold bucket_ok, bucket, newslab_state. cbn [partial slabs].
    destruct (N.eq_dec i idx) as [-> |Hne].
    + rewrite nth_upd_nth_same by (rewrite (I_len _ _ _ I); lia). fold (bucket s idx). rewrite Hb.
      cbn [ins_sorted]. split; [constructor; [intros ? []|constructor]|].
      intros a. split.
      * intros [<- |[]]. exists x'. split; [left; reflexivity|]. cbn. repeat split; auto.
      * intros (y & [<- |Hy] & Hyf & Hyi & Hya); [left; exact Hyf|].
        exfalso. assert (In a (bucket s idx)) as Hin by (apply Bm; exists y; auto). rewrite Hb in Hin. exact Hin.
    + rewrite nth_upd_nth_other by lia. fold (bucket s i). split; [assumption|].
      intros a. rewrite Bm. split.
      * intros (y & Hy & Q). exists y. split; [right; assumption|exact Q].
      * intros (y & [<- |Hy] & Hyf & Hyi & Hya); [cbn in Hyi; congruence|exists y; auto].
  - intros y Hy. unfold live_ptrs. cbn. right. apply (I_large_live _ _ _ I y Hy).
  - unfold pages, newslab_state. cbn [slabs larges map sumN]. rewrite (I_used _ _ _ I). unfold pages, slab_pages, sl_len, sl_item.
    cbn [sl_idx]. fold item. lia.
  - rewrite !upd_nth_length. apply (I_cnt_len _ _ _ I).
  - intros i Hi'. destruct (I_foot _ _ _ I i Hi') as (E1 & E2 & E3). destruct (I_cnt_len _ _ _ I) as [L1 L2].
    assert (Hlen : N.of_nat (S (length av)) = nobj c item).
    { pose proof (length_carve base item cnt) as L. rewrite Hc in L. cbn [length] in L. unfold cnt in L. lia. }
    assert (Hzero : i = idx -> sumN (map (g_free i) (slabs s)) = 0).
    { intros ->. assert (Z : sumN (map (g_free idx) (slabs s)) <= sumN (map (fun _ => 0) (slabs s))).
      { apply sumN_pointwise. intros y Hy. unfold g_free. destruct (sl_idx y =? idx) eqn:E; [|lia].
        apply N.eqb_eq in E. destruct (sl_avail y) eqn:Ey; [cbn; lia|exfalso].
        destruct (I_partial _ _ _ I idx Hidx) as [_ M].
        assert (In (sl_frame y) (bucket s idx)) as Hin by (apply M; exists y; repeat split; auto; congruence).
        rewrite Hb in Hin. exact Hin. }
      assert (Z0 : sumN (map (fun _ : slab => 0) (slabs s)) = 0) by apply sumN_zero.
      lia. }
    unfold foot_ok, nlive_of, peak_of, cfree, cnum, newslab_state in *. cbn [slabs nlive peak map sumN].
    fold x'.
    assert (G3 : g_free i x' = if idx =? i then N.of_nat (length av) else 0) by reflexivity.
    assert (G4 : g_cnt i x' = if idx =? i then 1 else 0) by reflexivity.
    rewrite G3, G4.
    destruct (N.eq_dec i idx) as [-> |Hne].
    + rewrite (nth_upd_same_N (nlive s) idx _ 0 (nbuckets c) L1 Hidx).
      rewrite (nth_upd_same_N (peak s) idx _ 0 (nbuckets c) L2 Hidx).
      rewrite N.eqb_refl. specialize (Hzero eq_refl). fold item in E1, E3 |- *. lia.
    + rewrite !nth_upd_other_N by congruence.
      assert (Q : (idx =? i) = false) by (apply N.eqb_neq; congruence). rewrite Q. lia.
Qed.

End NewSlab.

(* ---------- a large frame ---------- *)
Lemma NoDup_insert {A} (l1 l2 : list A) a : NoDup (l1 ++ l2) -> ~ In a (l1 ++ l2) -> NoDup (l1 ++ a :: l2).
Proof.
  induction l1 as [|b l1 IH]; cbn; intros H Hn; [constructor; assumption|].
  inversion H; subst. constructor.
  - rewrite in_app_iff in *. cbn. intros [H1|[->|H1]]; tauto.
  - apply IH; [assumption|tauto].
Qed.

Section NewLarge.
Variable c : cfg.
Hypothesis F : cfg_facts c.
Variables (k : N) (s : state).
Hypothesis I : Inv c k s.
Variables (n' nreq r : N).
Hypothesis Hn' : n' = N.max nreq 1.
Hypothesis Hfresh : fresh_region s r (large_map_len c (align_up n' (page c))).
Hypothesis Hal : aligned c = true -> r mod sb c = 0.

Definition area := align_up n' (page c).
Definition lfr := frame_of_map c r.

Lemma area_spec : n' <= area /\ area mod page c = 0.
Proof.
  unfold area. rewrite (align_up_page c n' F).
  pose proof (align_up_spec n' (page c) (page_pos c F)) as (A1 & A2 & A3). cbn in *. auto.
Qed.

Lemma lfr_spec : r <= lfr /\ lfr + page c + area <= r + large_map_len c area /\ lfr mod sb c = 0.
Proof.
  pose proof (frame_of_map_spec c r (if aligned c then 0 else sb c) F Hal eq_refl) as (A & B & C).
  unfold lfr, large_map_len. destruct (aligned c); repeat split; auto; lia.
Qed.

Definition newlarge_state : state :=
  mkState (slabs s) (mkLarge lfr r (large_map_len c area) area :: larges s) (partial s)
          (used s + (area + page c) / page c)
          (mkBlk (lfr + page c) nreq area area [] :: live s) (nlive s) (peak s).

Lemma alloc_large_ok e : env_ret e = r -> r <> 0 ->
  st_of (alloc_large c s n' nreq e) = newlarge_state /\ res_of (alloc_large c s n' nreq e) = RPtr (lfr + page c).
Proof.
  intros He Hr. unfold alloc_large. rewrite He. apply N.eqb_neq in Hr. rewrite Hr. split; reflexivity.
Qed.

Lemma newlarge_state_inv : Inv c k newlarge_state.
Proof.
  pose proof lfr_spec as (A & B & C). pose proof area_spec as (A1 & A2).
  pose proof Hfresh as (R0 & R1 & R2). fold area in R1, R2, Hfresh.
  set (x := mkLarge lfr r (large_map_len c area) area).
  set (p := lfr + page c).
  pose proof (page_pos c F) as Pp.
  assert (P1 : r <= p /\ p < r + large_map_len c area) by (unfold p; lia).
  assert (Hold_live : forall a, r <= a -> a < r + large_map_len c area -> ~ In a (live_ptrs s)).
  { intros a Q1 Q2 Hin. unfold live_ptrs in Hin. apply in_map_iff in Hin. destruct Hin as (b & <- & Hb').
    destruct (live_in_frames c k s b F I Hb') as (f & rg & Hf & L1 & L2 & L3).
    assert (In rg (mapped s)) as Hm by (apply (mapped_frames s); eauto).
    apply (fresh_not_in_old s r _ rg (bk_p b) (bk_p b) Hfresh Hm); auto; lia. }
  assert (Hold_avail : forall y a, In y (slabs s) -> In a (sl_avail y) -> r <= a -> a < r + large_map_len c area -> False).
  { intros y a Hy Ha Q1 Q2. destruct (avail_in_frames c k s y a F I Hy Ha) as (L1 & L2).
    apply (fresh_not_in_old s r _ (sl_region y) a a Hfresh); auto.
    apply (mapped_frames s). exists (sl_frame y). apply in_frames_slab. assumption. }
  assert (Hfr_new : forall f rg, In (f, rg) (frames s) -> f <> lfr).
  { intros f rg Hf ->. destruct (frame_in_region c F k s I lfr rg Hf) as (L1 & L2 & _).
    assert (In rg (mapped s)) as Hm by (apply (mapped_frames s); eauto).
    specialize (R2 rg Hm). apply rdisj_spec in R2. cbn in R2. lia. }
  constructor; unfold newlarge_state; cbn [slabs larges partial live used nlive peak].
  - apply (I_len _ _ _ I).
  - cbn [map lg_frame]. apply NoDup_insert; [apply (I_frames _ _ _ I)|].
    intros Hin. apply in_app_iff in Hin. rewrite !in_map_iff in Hin.
    destruct Hin as [(y & E & Hy)| (y & E & Hy)].
    + apply (Hfr_new (sl_frame y) (sl_region y)); [apply in_frames_slab; assumption|assumption].
    + apply (Hfr_new (lg_frame y) (lg_region y)); [apply in_frames_large; assumption|assumption].
  - intros y Hy. unfold live_ptrs. cbn [live map bk_p].
    apply (slab_ok_lv c k (live_ptrs s)); [|apply (I_slab _ _ _ I y Hy)].
    intros a Hay Hnl [<- |Hl]; [|contradiction]. apply (Hold_avail y p Hy Hay); apply P1.
  - intros y [<- |Hy]; [|apply (I_large _ _ _ I y Hy)].
    constructor; cbn; auto; lia.
  - intros f1 r1 f2 r2 H1 H2 Hne. unfold frames in H1, H2. cbn [slabs larges map] in H1, H2.
    apply in_app_iff in H1. apply in_app_iff in H2. cbn [In] in H1, H2.
    assert (Hold : forall f rg, In (f, rg) (map sl_key (slabs s)) \/ In (f, rg) (map lg_key (larges s)) -> In (f, rg) (frames s)).
    { intros f rg H. unfold frames. apply in_or_app. exact H. }
    destruct H1 as [H1|[E1|H1]], H2 as [H2|[E2|H2]];
      try (injection E1 as <- <-); try (injection E2 as <- <-); try contradiction;
      try (apply (I_disj _ _ _ I f1 r1 f2 r2); auto; fail);
      unfold lg_region; cbn [lg_base lg_res];
      first [ apply R2; apply (mapped_frames s); eexists; apply Hold; eauto; fail
            | rewrite rdisj_sym; apply R2; apply (mapped_frames s); eexists; apply Hold; eauto ].
  - unfold live_ptrs. cbn. constructor; [apply Hold_live; apply P1|apply (I_live_nodup _ _ _ I)].
  - intros b [<- |Hb'].
    + right. exists x. split; [left; reflexivity|]. cbn. unfold lg_addr. cbn. repeat split; auto. lia.
    + destruct (I_live _ _ _ I b Hb') as [(y & Hy & O & Z & R)| (y & Hy & E & Z & R)].
      * left. exists y. auto.
      * right. exists y. split; [right; assumption|auto].
  - intros i Hi'. apply (I_partial _ _ _ I i Hi').
  - intros y [<- |Hy]; unfold live_ptrs; cbn; [left; reflexivity|right; apply (I_large_live _ _ _ I y Hy)].
  - unfold pages. cbn [slabs larges map sumN]. rewrite (I_used _ _ _ I). unfold pages, large_pages. cbn [lg_len]. lia.
  - apply (I_cnt_len _ _ _ I).
  - intros i Hi'. apply (I_foot _ _ _ I i Hi').
Qed.

End NewLarge.

(* ---------- allocate, all paths ---------- *)
Definition alloc_post (c : cfg) (k : N) (s : state) (n : N) (e : env) (x : state * result * list callback) : Prop :=
  Inv c (k + 1) (st_of x) /\
  ((res_of x = RNull /\ st_of x = s /\ env_ret e = 0) \/
   exists o sz unp, res_of x = RPtr o /\ live (st_of x) = mkBlk o n sz unp [] :: live s).

Lemma alloc_inv c k s n e :
  cfg_facts c -> Inv c k s ->
  (forall len, alloc_map_len c s n = Some len -> env_fresh c s len e) ->
  alloc_post c k s n e (alloc c s n e).
Proof.
  intros F I Henv. unfold alloc, alloc_map_len in *. fold (norm_req n) in *.
  pose proof (norm_req_pos n) as Hpos. pose proof (norm_req_max n) as Hmax.
  destruct (norm_req n <=? max_bucket_size c) eqn:Hs.
  - apply N.leb_le in Hs.
    assert (Hidx : s2b (norm_req n) < nbuckets c) by (apply s2b_bound; [apply (cf_nb_pos c F)|assumption|exact Hs]).
    assert (Hle : (s2b (norm_req n) <=? nbuckets c) = true) by (apply N.leb_le; lia).
    rewrite Hle. cbn [negb].
    assert (Hfit : N.max n 1 <= b2s (s2b (norm_req n))) by (rewrite <- Hmax; apply s2b_fits; assumption).
    destruct (bucket s (s2b (norm_req n))) as [|h t] eqn:Hb.
    + specialize (Henv _ eq_refl).
      destruct (N.eq_dec (env_ret e) 0) as [E0|E0].
      * unfold alloc_small. rewrite Hb. pose proof E0 as E0'. apply N.eqb_eq in E0. rewrite E0. split; cbn.
        -- apply (Inv_mono c k); [lia|assumption].
        -- left. auto.
      * destruct (Henv E0) as [Hfr Hal].
        destruct (alloc_small_new c F s (s2b (norm_req n)) (env_ret e) Hidx Hb Hal (norm_req n) n e eq_refl E0)
          as (o & a2 & av' & Hc & Hst & Hres).
        split.
        -- rewrite Hst. apply (newslab_state_inv c F k s I _ _ Hidx Hb Hfr Hal o (a2 :: av')); auto. discriminate.
        -- right. exists o, (b2s (s2b (norm_req n))), (norm_req n). rewrite Hst, Hres. split; reflexivity.
    + destruct (alloc_small_pop c F k s I (s2b (norm_req n)) h t Hidx Hb (norm_req n) n e)
        as (x & o & av & Hx & Hf & Hi & Ha & Hst & Hres).
      split.
      * rewrite Hst. apply (pop_state_inv c F k s I _ h Hidx x o av); auto.
      * right. exists o, (b2s (s2b (norm_req n))), (norm_req n). rewrite Hst, Hres. split; reflexivity.
  - specialize (Henv _ eq_refl).
    destruct (N.eq_dec (env_ret e) 0) as [E0|E0].
    + unfold alloc_large. pose proof E0 as E0'. apply N.eqb_eq in E0. rewrite E0. split; cbn.
      * apply (Inv_mono c k); [lia|assumption].
      * left. auto.
    + destruct (Henv E0) as [Hfr Hal].
      destruct (alloc_large_ok c s (norm_req n) n (env_ret e) e eq_refl E0) as [Hst Hres].
      split.
      * rewrite Hst. apply (Inv_mono c k); [lia|]. apply (newlarge_state_inv c F k s I (norm_req n) n (env_ret e)); auto.
      * right. eexists _, _, _. rewrite Hst, Hres. split; reflexivity.
Qed.
