(* Every step of an admissible history preserves the invariant and does not stop. *)
From Coq Require Import List NArith Bool Lia ZifyBool ZifyNat ZifyN.
From FV Require Import Slab.SlabModel Slab.SlabArith Slab.SlabBasics Slab.SlabFail Slab.SlabInv
  Slab.SlabInvAlloc Slab.SlabInvFree.
Import ListNotations.
Local Open Scope N_scope.

Lemma is_live_iff s p : NoDup (live_ptrs s) -> (is_live s p = true <-> In p (live_ptrs s)).
Proof.
  intros Hnd. unfold is_live, live_ptrs. split.
  - destruct (find_blk p (live s)) as [b|] eqn:E; [|discriminate]. intros _.
    destruct (find_blk_some _ _ _ E) as [Hb <-]. apply in_map. assumption.
  - intros H. apply in_map_iff in H. destruct H as (b & E & Hb).
    rewrite (find_blk_in p (live s) b Hnd Hb E). reflexivity.
Qed.

(* a change of the ghost fields of one live block (requested size, unpoisoned extent, contents log) *)
Definition with_live (s : state) (l : list blk) : state :=
  mkState (slabs s) (larges s) (partial s) (used s) l (nlive s) (peak s).

Lemma blk_ok_with_live c s l b : blk_ok c (with_live s l) b <-> blk_ok c s b.
Proof. unfold blk_ok, with_live. cbn. tauto. Qed.

Lemma Inv_upd_blk c k s p f :
  (forall b, bk_p (f b) = bk_p b) ->
  (forall b, In b (live s) -> bk_p b = p -> blk_ok c s (f b)) ->
  Inv c k s -> Inv c k (with_live s (upd_blk p f (live s))).
Proof.
  intros Hf Hok I.
  assert (E : live_ptrs (with_live s (upd_blk p f (live s))) = live_ptrs s).
  { unfold live_ptrs, with_live. cbn. apply map_bk_p_upd_blk. assumption. }
  destruct I as [i1 i2 i3 i4 i5 i6 i7 i8 i9 i10 i11 i12].
  constructor; rewrite ?E; unfold with_live; cbn [slabs larges partial live]; auto.
  intros b Hb. apply in_upd_blk in Hb. destruct Hb as [Hb| (b0 & Hb0 & Hp & ->)].
  - apply (blk_ok_with_live c s (upd_blk p f (live s))). apply i7. assumption.
  - apply (blk_ok_with_live c s (upd_blk p f (live s))). apply Hok; assumption.
Qed.

Lemma set_req_eq s p n :
  set_req s p n = with_live s (upd_blk p (fun b => mkBlk (bk_p b) n (bk_size0 b) n (clip_log n (bk_log b))) (live s)).
Proof. reflexivity. Qed.

Lemma move_log_eq s p q :
  move_log s p q = match find_blk p (live s) with
                   | None => s
                   | Some b => with_live s (upd_blk q (fun b' => mkBlk (bk_p b') (bk_req b') (bk_size0 b') (bk_unp b') (bk_log b)) (live s))
                   end.
Proof. unfold move_log. destruct (find_blk p (live s)); reflexivity. Qed.

Lemma blk_ok_same c s b b' :
  bk_p b' = bk_p b -> bk_req b' = bk_req b -> bk_size0 b' = bk_size0 b -> blk_ok c s b -> blk_ok c s b'.
Proof. unfold blk_ok. intros -> -> ->. tauto. Qed.

Lemma move_log_inv c k s p q : Inv c k s -> Inv c k (move_log s p q) /\ live_ptrs (move_log s p q) = live_ptrs s.
Proof.
  intros I. rewrite move_log_eq. destruct (find_blk p (live s)) as [b|]; [|auto].
  split.
  - apply Inv_upd_blk; auto. intros b0 Hb0 _. eapply blk_ok_same; [| | |apply (I_live _ _ _ I b0 Hb0)]; reflexivity.
  - unfold live_ptrs, with_live. cbn. apply map_bk_p_upd_blk. reflexivity.
Qed.

(* the policy hypothesis, in the form the allocation lemmas use *)
Lemma policy_env_fresh c s o e :
  op_policy_ok c s o = true -> op_env o = Some e ->
  forall len, map_len c s o = Some len -> env_fresh c s len e.
Proof.
  unfold op_policy_ok. intros H He len Hl. rewrite Hl, He in H. intros Hne.
  destruct e as [r|]; [|cbn in Hne; contradiction]. cbn in *.
  repeat (apply andb_prop in H; let H2 := fresh "H" in destruct H as [H H2]).
  apply N.ltb_lt in H. apply N.leb_le in H2.
  split.
  - split; [assumption|]. split; [assumption|]. intros rg Hrg. rewrite forallb_forall in H1. apply H1. assumption.
  - intros Ha. rewrite Ha in H0. apply N.eqb_eq in H0. assumption.
Qed.

Section Step.
Variable c : cfg.
Hypothesis F : cfg_facts c.
Variables (k : N) (s : state).
Hypothesis I : Inv c k s.
Hypothesis Hk : k + 1 < 4294967296.

Lemma Inv_up : Inv c (k + 1) s.
Proof. apply (Inv_mono c k); [lia|assumption]. Qed.

Lemma alloc_step n e :
  (forall len, alloc_map_len c s n = Some len -> env_fresh c s len e) ->
  Inv c (k + 1) (st_of (alloc c s n e)) /\ is_stop (res_of (alloc c s n e)) = false.
Proof.
  intros H. destruct (alloc_inv c k s n e F I H) as [I' [[R _]| (o & sz & unp & R & _)]]; rewrite R; auto.
Qed.

Lemma free_step p sz :
  (p =? 0) || is_live s p = true ->
  match sz with Some n => (p =? 0) = true \/ n <= cur_size c s p | None => True end ->
  Inv c (k + 1) (st_of (free_ c s p sz)) /\ is_stop (res_of (free_ c s p sz)) = false.
Proof.
  intros Hl Hsz. destruct (p =? 0) eqn:Hp.
  - unfold free_. rewrite Hp. cbn. split; [apply Inv_up|reflexivity].
  - cbn in Hl.
    assert (Hsz' : match sz with Some n => n <= cur_size c s p | None => True end).
    { destruct sz; [destruct Hsz as [Hsz|Hsz]; [discriminate|assumption]|exact Logic.I]. }
    destruct (free_inv c k s p sz F I Hl Hsz') as (I' & R & _). rewrite R.
    split; [apply (Inv_mono c k); [lia|assumption]|reflexivity].
Qed.

Lemma realloc_step p n e :
  ((p =? 0) || is_live s p) = true ->
  (forall len, map_len c s (Realloc p n e) = Some len -> env_fresh c s len e) ->
  Inv c (k + 1) (st_of (realloc c s p n e)) /\ is_stop (res_of (realloc c s p n e)) = false.
Proof.
  intros Hl Henv. unfold realloc. cbn [map_len] in Henv.
  destruct (p =? 0) eqn:Hp; [apply alloc_step; assumption|].
  cbn in Hl.
  destruct (n =? 0) eqn:Hn.
  - destruct (free_step p None) as [I' R]; [rewrite Hp; exact Hl|exact Logic.I|].
    destruct (free_ c s p None) as [[s' r] cbs]. cbn in *. split; [assumption|]. destruct r; auto.
  - destruct (is_live_in s p Hl) as (b & Hb & Hbp & Hfind). rewrite Hfind.
    apply N.eqb_neq in Hp. apply N.eqb_neq in Hn.
    rewrite (get_size_lookup c s p Hp) in Henv.
    cbv zeta.
    (* the common part, for a block of current size cur with header hdr at fr *)
    assert (G : forall hdr fr cur,
               cur_size c s p = cur -> bk_size0 b = cur ->
               (forall len, (if n <=? cur then None else alloc_map_len c s n) = Some len -> env_fresh c s len e) ->
               (forall n', n' <> 0 -> n' <= cur -> blk_ok c s (mkBlk (bk_p b) n' (bk_size0 b) n' (clip_log n' (bk_log b)))) ->
               let x := (if n <=? cur
                         then (set_req s p n, RPtr p, CAccess false fr hdr :: inplace_cbs c p cur n)
                         else
                           let '(s1, r, cbs) := alloc c s n e in
                           match r with
                           | RPtr q =>
                             let s2 := move_log s1 p q in
                             let '(s3, r3, cbs3) := free_ c s2 p None in
                             (s3, match r3 with RUnit => RPtr q | _ => r3 end,
                              CAccess false fr hdr :: cbs ++ pcb c [CUnpoisonExpand p cur]
                              ++ [CAccess false p cur; CAccess true q cur] ++ cbs3)
                           | _ => (s1, r, CAccess false fr hdr :: cbs)
                           end) in
               Inv c (k + 1) (st_of x) /\ is_stop (res_of x) = false).
    { intros hdr fr cur Hcur Hsz0 Henv' Hblk. destruct (n <=? cur) eqn:Hle.
      - apply N.leb_le in Hle. cbn. split; [|reflexivity]. rewrite set_req_eq.
        apply Inv_upd_blk; [reflexivity| |apply Inv_up].
        intros b0 Hb0 Hb0p.
        assert (b0 = b).
        { pose proof (find_blk_in p (live s) b0 (I_live_nodup _ _ _ I) Hb0 Hb0p). congruence. }
        subst b0. apply Hblk; assumption.
      - destruct (alloc_inv c k s n e F I Henv') as [I1 [[R [S1 _]]| (q & sz & unp & R & L1)]].
        + destruct (alloc c s n e) as [[s1 r] cbs]. cbn in *. subst r s1. cbn. split; [apply Inv_up|reflexivity].
        + destruct (alloc c s n e) as [[s1 r] cbs]. cbn in R, L1, I1. subst r. cbv zeta.
          destruct (move_log_inv c (k + 1) s1 p q I1) as [I2 LP].
          assert (Hl2 : is_live (move_log s1 p q) p = true).
          { apply is_live_iff; [apply (I_live_nodup _ _ _ I2)|]. rewrite LP. unfold live_ptrs. rewrite L1. cbn. right.
            rewrite <- Hbp. apply in_map. assumption. }
          destruct (free_inv c (k + 1) (move_log s1 p q) p None F I2 Hl2 Logic.I) as (I3 & R3 & _).
          destruct (free_ c (move_log s1 p q) p None) as [[s3 r3] cbs3]. cbn in *. subst r3. split; [assumption|reflexivity]. }
    destruct (live_lookup c F k s I b Hb) as [(x & Hx & L & O & Z & R)| (x & Hx & L & E & Z & R)];
      rewrite Hbp in *; rewrite L in *.
    + rewrite (obj_contains c F _ _ x p (I_slab _ _ _ I x Hx) O). cbn [negb].
      apply (G (hdr_slab c) (sl_frame x) (sl_item x)); auto.
      * rewrite (get_size_lookup c s p Hp), L. reflexivity.
      * intros n' Hn' Hle. left. exists x. cbn. try rewrite Hbp. repeat split; auto. lia.
    + rewrite <- E, N.eqb_refl. cbn [negb].
      apply (G (hdr_frame c) (lg_frame x) (lg_len x)); auto.
      * rewrite (get_size_lookup c s p Hp), L. reflexivity.
      * intros n' Hn' Hle. right. exists x. cbn. try rewrite Hbp. repeat split; auto. lia.
Qed.

Lemma step_inv o :
  op_policy_ok c s o = true -> op_api_ok c s o = true ->
  Inv c (k + 1) (st_of (step c s o)) /\ is_stop (res_of (step c s o)) = false.
Proof.
  intros Hpol Hapi. destruct o as [n e|p|p n|p n e|p|p off len tag]; cbn [step].
  - apply alloc_step. apply (policy_env_fresh c s (Alloc n e) e Hpol eq_refl).
  - apply free_step; [exact Hapi|exact Logic.I].
  - cbn in Hapi. apply free_step.
    + destruct (p =? 0); [reflexivity|]. cbn in *. apply andb_prop in Hapi. tauto.
    + destruct (p =? 0); [left; reflexivity|]. cbn in Hapi. apply andb_prop in Hapi. right. apply N.leb_le. tauto.
  - cbn in Hapi. apply andb_prop in Hapi. apply realloc_step; [tauto|].
    apply (policy_env_fresh c s (Realloc p n e) e Hpol eq_refl).
  - cbn. split; [apply Inv_up|]. unfold get_size_of. cbn in Hapi.
    destruct (p =? 0) eqn:Hp; [reflexivity|]. cbn in Hapi.
    destruct (is_live_in s p Hapi) as (b & Hb & Hbp & _).
    destruct (live_lookup c F k s I b Hb) as [(x & Hx & L & _)| (x & Hx & L & _)]; rewrite Hbp in L; rewrite L; reflexivity.
  - cbn in Hapi. unfold write_. destruct (find_blk p (live s)) as [b|] eqn:E; [|discriminate].
    cbn. split; [|reflexivity].
    change (Inv c (k + 1) (with_live s (upd_blk p (fun b0 => mkBlk (bk_p b0) (bk_req b0) (bk_size0 b0) (bk_unp b0) ((off, len, tag) :: bk_log b0)) (live s)))).
    apply Inv_upd_blk; [reflexivity| |apply Inv_up].
    intros b0 Hb0 _. eapply blk_ok_same; [| | |apply (I_live _ _ _ I b0 Hb0)]; reflexivity.
Qed.

End Step.

(* ---------- whole histories ---------- *)
Lemma init_inv c : cfg_facts c -> Inv c 0 (init c).
Proof.
  intros F. constructor.
  - cbn. apply repeat_length.
  - cbn. constructor.
  - intros x [].
  - intros x [].
  - intros f1 r1 f2 r2 [].
  - cbn. constructor.
  - intros b [].
  - intros i Hi. unfold bucket_ok, bucket, init. cbn [partial slabs].
    assert (E : nth (N.to_nat i) (repeat (@nil N) (N.to_nat (nbuckets c))) [] = []).
    { generalize (N.to_nat i) as a, (N.to_nat (nbuckets c)) as b. intros a b; revert a; induction b; destruct a; cbn; auto. }
    rewrite E. split; [constructor|]. intros a. split; [intros []|intros (x & [] & _)].
  - intros x [].
  - reflexivity.
  - cbn. rewrite !repeat_length. auto.
  - intros i Hi. unfold foot_ok, nlive_of, peak_of, cfree, cnum, init. cbn [slabs nlive peak map sumN].
    assert (E : nth (N.to_nat i) (repeat 0 (N.to_nat (nbuckets c))) 0 = 0).
    { generalize (N.to_nat i) as a, (N.to_nat (nbuckets c)) as b. intros a b; revert a; induction b; destruct a; cbn; auto. }
    rewrite E. pose proof (nobj_ge2 c i F Hi). lia.
Qed.

Definition hist_ok_both (c : cfg) (s : state) (ops : list op) : Prop :=
  hist_ok op_policy_ok c s ops = true /\ hist_ok op_api_ok c s ops = true.

Lemma run_inv c : cfg_facts c -> forall ops s,
  Inv c 0 s -> hist_ok_both c s ops ->
  Inv c 0 (run_from c s ops)
  /\ Forall (fun x => is_stop (fst x) = false) (trace_from c s ops).
Proof.
  intros F. induction ops as [|o r IH]; intros s I [H1 H2].
  - cbn. split; [assumption|constructor].
  - cbn [hist_ok] in H1, H2. apply andb_prop in H1. apply andb_prop in H2.
    destruct H1 as [P1 P2], H2 as [A1 A2].
    destruct (step_inv c F 0 s I ltac:(lia) o P1 A1) as [I' R].
    destruct (IH (st_of (step c s o)) (Inv_any c _ 0 _ I') (conj P2 A2)) as [I'' T].
    cbn [run_from fold_left trace_from].
    split; [exact I''|]. constructor; [exact R|exact T].
Qed.
