(* free / deallocate preserve the invariant. *)
From Coq Require Import List NArith Bool Lia ZifyBool ZifyNat ZifyN.
From FV Require Import Slab.SlabModel Slab.SlabArith Slab.SlabBasics Slab.SlabFail Slab.SlabInv Slab.SlabInvAlloc.
Import ListNotations.
Local Open Scope N_scope.

Lemma NoDup_app_sub {A} (l1 l2 l2' : list A) :
  NoDup (l1 ++ l2) -> NoDup l2' -> (forall a, In a l2' -> In a l2) -> NoDup (l1 ++ l2').
Proof.
  induction l1 as [|b l1 IH]; cbn; intros H H' Hs; [assumption|].
  inversion H; subst. constructor; [|apply IH; assumption].
  rewrite in_app_iff in *. intros [H1|H1]; [tauto|]. apply H2. right. apply Hs. assumption.
Qed.

Lemma live_ptrs_remove_sub s p a : In a (map bk_p (remove_blk p (live s))) -> In a (live_ptrs s).
Proof. apply map_remove_blk_sub. Qed.

Lemma is_live_in s p : is_live s p = true -> exists b, In b (live s) /\ bk_p b = p /\ find_blk p (live s) = Some b.
Proof.
  unfold is_live. destruct (find_blk p (live s)) as [b|] eqn:E; [|discriminate].
  intros _. exists b. destruct (find_blk_some _ _ _ E). auto.
Qed.

Section FreeSmall.
Variable c : cfg.
Hypothesis F : cfg_facts c.
Variables (k : N) (s : state).
Hypothesis I : Inv c k s.
Variables (x : slab) (p : N) (b : blk).
Hypothesis Hx : In x (slabs s).
Hypothesis Hb : In b (live s).
Hypothesis Hbp : bk_p b = p.
Hypothesis Ho : obj_of c x p.

(* p is handed out: it is not on the free list, so at least one object of the slab is reserved *)
Lemma nres_pos : 1 <= sl_nres x /\ N.of_nat (length (sl_avail x)) + 1 <= nobj c (sl_item x).
Proof.
  pose proof (I_slab _ _ _ I x Hx) as S.
  assert (Hp_not_avail : ~ In p (sl_avail x)).
  { intros H. destruct (so_avail _ _ _ _ S p H) as [_ Hn]. apply Hn. rewrite <- Hbp. apply in_map. assumption. }
  assert (L : N.of_nat (length (p :: sl_avail x)) <= nobj c (sl_item x)).
  { apply obj_list_len.
    - constructor; [assumption|apply (so_nodup _ _ _ _ S)].
    - intros a [<- |Ha]; [assumption|apply (so_avail _ _ _ _ S a Ha)]. }
  cbn [length] in L. pose proof (so_nres _ _ _ _ S). lia.
Qed.

Definition free_small_state : state :=
  mkState (upd_slab (sl_frame x) (fun _ => set_avail x (p :: sl_avail x) (sl_nres x - 1)) (slabs s)) (larges s)
          (match sl_avail x with
           | [] => upd_nth (partial s) (N.to_nat (sl_idx x)) (ins_sorted (sl_frame x))
           | _ => partial s end)
          (used s) (remove_blk p (live s)) (upd_nth (nlive s) (N.to_nat (sl_idx x)) N.pred) (peak s).

Lemma free_small_ok :
  st_of (free_small c s x p) = free_small_state /\ res_of (free_small c s x p) = RUnit.
Proof.
  pose proof (I_slab _ _ _ I x Hx) as S.
  unfold free_small. rewrite (obj_contains c F _ _ x p S Ho). cbn [negb].
  rewrite (find_blk_in p (live s) b (I_live_nodup _ _ _ I) Hb Hbp).
  assert (E : (sl_nres x =? 0) = false) by (apply N.eqb_neq; pose proof nres_pos; lia).
  rewrite E.
  assert (E2 : match sl_avail x with [] => false | a :: _ => negb (sl_contains c x a) end = false).
  { destruct (sl_avail x) as [|a r] eqn:Ea; [reflexivity|].
    rewrite (obj_contains c F _ _ x a S); [reflexivity|]. apply (so_avail _ _ _ _ S). rewrite Ea. left. reflexivity. }
  rewrite E2. split; reflexivity.
Qed.

Lemma free_small_state_inv : Inv c k free_small_state.
Proof.
  pose proof (I_slab _ _ _ I x Hx) as Sx.
  pose proof (slab_frames_nodup c k s I) as Hnd.
  set (x' := set_avail x (p :: sl_avail x) (sl_nres x - 1)).
  assert (Hin : forall y, In y (upd_slab (sl_frame x) (fun _ => x') (slabs s)) <->
                          (In y (slabs s) /\ sl_frame y <> sl_frame x) \/ y = x').
  { intros y. apply (in_upd_slab_const (sl_frame x) x x' (slabs s) y Hnd Hx eq_refl). }
  assert (Hpl : In p (live_ptrs s)) by (rewrite <- Hbp; apply in_map; assumption).
  assert (Hp_not_avail : ~ In p (sl_avail x)).
  { intros H. destruct (so_avail _ _ _ _ Sx p H) as [_ Hn]. contradiction. }
  assert (Hp_gone : ~ In p (map bk_p (remove_blk p (live s)))).
  { intros H. apply in_map_iff in H. destruct H as (b0 & E & H0).
    apply (remove_blk_notin p (live s) (I_live_nodup _ _ _ I) b0 H0 E). }
  assert (Sx' : slab_ok c k (map bk_p (remove_blk p (live s))) x').
  { destruct Sx as [s1 s2 s3 s4 s5 s6 s7 s8]. constructor; auto.
    - cbn. constructor; assumption.
    - intros a [<- |Ha]; [split; [apply obj_of_set_avail; exact Ho|exact Hp_gone]|].
      destruct (s7 a Ha) as [O1 O2]. split; [apply obj_of_set_avail; assumption|].
      intros H. apply O2. eapply live_ptrs_remove_sub; eauto.
    - unfold x', set_avail, sl_item. cbn [sl_nres sl_avail sl_idx length]. pose proof nres_pos as NP. unfold sl_item in *. lia. }
  assert (Hall : forall y, In y (upd_slab (sl_frame x) (fun _ => x') (slabs s)) ->
                           slab_ok c k (map bk_p (remove_blk p (live s))) y).
  { intros y Hy. apply Hin in Hy. destruct Hy as [[Hy Hne]| ->]; [|exact Sx'].
    apply (slab_ok_lv c k (live_ptrs s)); [|apply (I_slab _ _ _ I y Hy)].
    intros a _ Hn H. apply Hn. eapply live_ptrs_remove_sub; eauto. }
  constructor; cbn [slabs larges partial live used nlive peak free_small_state].
  - destruct (sl_avail x); [rewrite upd_nth_length|]; apply (I_len _ _ _ I).
  - rewrite map_upd_slab_const; [apply (I_frames _ _ _ I)|]. intros z _ Hz. cbn. congruence.
  - intros y Hy. apply Hin in Hy. destruct Hy as [[Hy Hne]| ->]; [|exact Sx'].
    unfold live_ptrs. cbn [live free_small_state].
    apply (slab_ok_lv c k (live_ptrs s)); [|apply (I_slab _ _ _ I y Hy)].
    intros a _ Hn H. apply Hn. eapply live_ptrs_remove_sub; eauto.
  - apply (I_large _ _ _ I).
  - intros f1 r1 f2 r2 H1 H2. apply (I_disj _ _ _ I f1 r1 f2 r2).
    + unfold frames, free_small_state in *. cbn [slabs larges] in H1. rewrite map_upd_slab_const in H1; [exact H1|].
      intros z Hz Hzf. rewrite (slab_by_frame c k s I z x Hz Hx) by congruence. reflexivity.
    + unfold frames, free_small_state in *. cbn [slabs larges] in H2. rewrite map_upd_slab_const in H2; [exact H2|].
      intros z Hz Hzf. rewrite (slab_by_frame c k s I z x Hz Hx) by congruence. reflexivity.
  - unfold live_ptrs. cbn [live free_small_state]. apply NoDup_remove_blk. apply (I_live_nodup _ _ _ I).
  - intros b' Hb'. apply in_remove_blk in Hb'.
    destruct (I_live _ _ _ I b' Hb') as [(y & Hy & O & Z & R)| (y & Hy & E & Z & R)].
    + left. destruct (N.eq_dec (sl_frame y) (sl_frame x)) as [Ey|Ey].
      * assert (y = x) by (apply (slab_by_frame c k s I); congruence). subst y.
        exists x'. split; [apply Hin; right; reflexivity|]. split; [apply obj_of_set_avail; assumption|]. auto.
      * exists y. split; [apply Hin; left; auto|auto].
    + right. exists y. auto.
  - intros i Hi'. destruct (I_partial _ _ _ I i Hi') as [Bs Bm].
    assert (Hbi : bucket free_small_state i =
                  match sl_avail x with
                  | [] => if N.eq_dec i (sl_idx x) then ins_sorted (sl_frame x) (bucket s i) else bucket s i
                  | _ => bucket s i end).
    { unfold bucket, free_small_state. cbn [partial]. destruct (sl_avail x); [|reflexivity].
      destruct (N.eq_dec i (sl_idx x)) as [-> |Hne].
      - rewrite nth_upd_nth_same; [reflexivity|]. rewrite (I_len _ _ _ I). pose proof (so_idx _ _ _ _ Sx). lia.
      - rewrite nth_upd_nth_other; [reflexivity|]. lia. }
    unfold bucket_ok. rewrite Hbi. unfold free_small_state. cbn [slabs].
    destruct (sl_avail x) as [|a0 av0] eqn:Eav.
    + (* the slab was full: it re-enters the tree *)
      destruct (N.eq_dec i (sl_idx x)) as [-> |Hne].
      * assert (Hnotin : ~ In (sl_frame x) (bucket s (sl_idx x))).
        { intros H. apply Bm in H. destruct H as (y & Hy & Hyf & _ & Hya).
          assert (y = x) by (apply (slab_by_frame c k s I); congruence). subst y. congruence. }
        split; [apply sorted_ins; assumption|].
        intros a. rewrite in_ins_sorted, Bm. split.
        -- intros [-> | (y & Hy & Hyf & Hyi & Hya)].
           ++ exists x'. split; [apply Hin; right; reflexivity|]. cbn. repeat split; auto. discriminate.
           ++ exists y. split; [|auto]. apply Hin. left. split; [assumption|].
              intros E. assert (y = x) by (apply (slab_by_frame c k s I); congruence). subst y. congruence.
        -- intros (y & Hy & Hyf & Hyi & Hya). apply Hin in Hy. destruct Hy as [[Hy Hne]| ->].
           ++ right. exists y. auto.
           ++ left. cbn in Hyf. congruence.
      * split; [assumption|]. intros a. rewrite Bm. split.
        -- intros (y & Hy & Hyf & Hyi & Hya). exists y. split; [|auto]. apply Hin. left. split; [assumption|].
           intros E. assert (y = x) by (apply (slab_by_frame c k s I); congruence). subst y. congruence.
        -- intros (y & Hy & Hyf & Hyi & Hya). apply Hin in Hy. destruct Hy as [[Hy Hne']| ->].
           ++ exists y; auto.
           ++ cbn in Hyi. congruence.
    + split; [assumption|]. intros a. rewrite Bm. split.
      * intros (y & Hy & Hyf & Hyi & Hya). destruct (N.eq_dec (sl_frame y) (sl_frame x)) as [Ey|Ey].
        -- assert (y = x) by (apply (slab_by_frame c k s I); congruence). subst y.
           exists x'. split; [apply Hin; right; reflexivity|]. cbn. repeat split; auto. discriminate.
        -- exists y. split; [apply Hin; left; auto|auto].
      * intros (y & Hy & Hyf & Hyi & Hya). apply Hin in Hy. destruct Hy as [[Hy Hne']| ->].
        -- exists y; auto.
        -- exists x. cbn in Hyf, Hyi. repeat split; auto. rewrite Eav. discriminate.
  - intros y Hy. unfold live_ptrs. cbn [live free_small_state].
    pose proof (I_large_live _ _ _ I y Hy) as H. unfold live_ptrs in H. apply in_map_iff in H.
    destruct H as (b0 & E0 & H0). apply in_map_iff. exists b0. split; [assumption|].
    apply remove_blk_keeps; [assumption|]. rewrite E0. intros E.
    pose proof (lookup_large c F k s I y Hy) as L1. pose proof (lookup_obj c F k s I x p Hx Ho) as L2.
    rewrite E in L1. congruence.
  - unfold pages, free_small_state. cbn [slabs larges]. rewrite map_upd_slab_const; [apply (I_used _ _ _ I)|].
    intros z Hz Hzf. rewrite (slab_by_frame c k s I z x Hz Hx) by congruence. apply slab_pages_same. reflexivity.
  - rewrite !upd_nth_length. apply (I_cnt_len _ _ _ I).
  - intros i Hi'. destruct (I_foot _ _ _ I i Hi') as (E1 & E2 & E3). destruct (I_cnt_len _ _ _ I) as [L1 L2].
    pose proof (sumN_upd_slab (g_free i) (sl_frame x) x x' (slabs s) Hnd Hx eq_refl) as U1.
    pose proof (sumN_upd_slab (g_cnt i) (sl_frame x) x x' (slabs s) Hnd Hx eq_refl) as U2.
    rewrite (g_cnt_same i x x') in U2 by reflexivity.
    pose proof (cfree_le c k _ _ i Hall) as Q.
    assert (G1 : g_free i x = if sl_idx x =? i then N.of_nat (length (sl_avail x)) else 0) by reflexivity.
    assert (G2 : g_free i x' = if sl_idx x =? i then N.of_nat (S (length (sl_avail x))) else 0) by reflexivity.
    pose proof (so_idx _ _ _ _ Sx) as Hidx.
    unfold foot_ok, nlive_of, peak_of, cfree, cnum, free_small_state in *. cbn [slabs nlive peak]. fold x'.
    destruct (N.eq_dec i (sl_idx x)) as [-> |Hne].
    + rewrite (nth_upd_same_N (nlive s) (sl_idx x) _ 0 (nbuckets c) L1 Hidx).
      rewrite N.eqb_refl in G1, G2. lia.
    + rewrite !nth_upd_other_N by congruence.
      assert (Q2 : (sl_idx x =? i) = false) by (apply N.eqb_neq; congruence). rewrite Q2 in G1, G2. lia.
Qed.

End FreeSmall.

Section FreeLarge.
Variable c : cfg.
Hypothesis F : cfg_facts c.
Variables (k : N) (s : state).
Hypothesis I : Inv c k s.
Variables (x : large) (p : N) (b : blk).
Hypothesis Hx : In x (larges s).
Hypothesis Hb : In b (live s).
Hypothesis Hbp : bk_p b = p.
Hypothesis Hp : p = lg_addr c x.

Definition free_large_state : state :=
  mkState (slabs s) (remove_large (lg_frame x) (larges s)) (partial s)
          (used s - (lg_len x + page c) / page c) (remove_blk p (live s)) (nlive s) (peak s).

Lemma free_large_ok :
  st_of (free_large c s x p) = free_large_state /\ res_of (free_large c s x p) = RUnit.
Proof.
  unfold free_large. rewrite Hp, N.eqb_refl. cbn [negb]. rewrite <- Hp.
  rewrite (find_blk_in p (live s) b (I_live_nodup _ _ _ I) Hb Hbp). split; reflexivity.
Qed.

Lemma free_large_state_inv : Inv c k free_large_state.
Proof.
  pose proof (large_frames_nodup c k s I) as Hnd.
  pose proof (remove_large_spec (lg_frame x) (larges s) Hnd) as RS.
  constructor; unfold free_large_state; cbn [slabs larges partial live used nlive peak].
  - apply (I_len _ _ _ I).
  - apply (NoDup_app_sub _ (map lg_frame (larges s))); [apply (I_frames _ _ _ I)|apply NoDup_remove_large; assumption|].
    apply map_lg_frame_remove_sub.
  - intros y Hy. unfold live_ptrs. cbn [live].
    apply (slab_ok_lv c k (live_ptrs s)); [|apply (I_slab _ _ _ I y Hy)].
    intros a _ Hn H. apply Hn. eapply live_ptrs_remove_sub; eauto.
  - intros y Hy. apply (I_large _ _ _ I). eapply in_remove_large; eauto.
  - assert (Hsub : forall f r, In (f, r) (frames free_large_state) -> In (f, r) (frames s)).
    { intros f r H. unfold frames, free_large_state in *. cbn [slabs larges] in H. apply in_app_iff in H. apply in_or_app.
      destruct H as [H|H]; [left; assumption|right]. apply in_map_iff in H. destruct H as (y & E & Hy).
      apply in_map_iff. exists y. split; [assumption|eapply in_remove_large; eauto]. }
    intros f1 r1 f2 r2 H1 H2. apply (I_disj _ _ _ I f1 r1 f2 r2); apply Hsub; assumption.
  - unfold live_ptrs. cbn [live]. apply NoDup_remove_blk. apply (I_live_nodup _ _ _ I).
  - intros b' Hb'. pose proof (remove_blk_notin p (live s) (I_live_nodup _ _ _ I) b' Hb') as Hne.
    apply in_remove_blk in Hb'.
    destruct (I_live _ _ _ I b' Hb') as [(y & Hy & O & Z & R)| (y & Hy & E & Z & R)].
    + left. exists y. auto.
    + right. exists y. split; [|auto]. apply RS. split; [assumption|]. intros Ef.
      assert (y = x) by (apply (large_by_frame c k s I); assumption). subst y. congruence.
  - intros i Hi'. apply (I_partial _ _ _ I i Hi').
  - intros y Hy. apply RS in Hy. destruct Hy as [Hy Hne]. unfold live_ptrs. cbn [live].
    pose proof (I_large_live _ _ _ I y Hy) as H. unfold live_ptrs in H. apply in_map_iff in H.
    destruct H as (b0 & E0 & H0). apply in_map_iff. exists b0. split; [assumption|].
    apply remove_blk_keeps; [assumption|]. rewrite E0, Hp. unfold lg_addr. lia.
  - pose proof (sumN_remove_large (large_pages c) x (larges s) Hnd Hx) as U.
    rewrite (I_used _ _ _ I). unfold pages. cbn [slabs larges]. unfold large_pages at 2 in U. lia.
  - apply (I_cnt_len _ _ _ I).
  - intros i Hi'. apply (I_foot _ _ _ I i Hi').
Qed.

End FreeLarge.

(* ---------- free_ ---------- *)
Lemma free_inv c k s p sz :
  cfg_facts c -> Inv c k s -> is_live s p = true ->
  match sz with Some n => n <= cur_size c s p | None => True end ->
  Inv c k (st_of (free_ c s p sz)) /\ res_of (free_ c s p sz) = RUnit
  /\ live (st_of (free_ c s p sz)) = remove_blk p (live s).
Proof.
  intros F I Hl Hsz. destruct (is_live_in s p Hl) as (b & Hb & Hbp & _).
  assert (Hp0 : p <> 0) by (rewrite <- Hbp; apply (live_nonzero c F k s I b Hb)).
  rewrite (get_size_lookup c s p Hp0) in Hsz.
  unfold free_. apply N.eqb_neq in Hp0. rewrite Hp0.
  destruct (live_lookup c F k s I b Hb) as [(x & Hx & L & O & Z & R)| (x & Hx & L & E & Z & R)];
    rewrite Hbp in *; rewrite L in *.
  - destruct (free_small_ok c F k s I x p b Hx Hb Hbp O) as [E1 E2].
    pose proof (free_small_state_inv c F k s I x p b Hx Hb Hbp O) as I'.
    assert (K : forall t, t = free_small c s x p ->
                Inv c k (st_of (let '(s', r, cbs) := t in (s', r, CAccess false (sl_frame x) (hdr_slab c) :: cbs)))
                /\ res_of (let '(s', r, cbs) := t in (s', r, CAccess false (sl_frame x) (hdr_slab c) :: cbs)) = RUnit
                /\ live (st_of (let '(s', r, cbs) := t in (s', r, CAccess false (sl_frame x) (hdr_slab c) :: cbs)))
                   = remove_blk p (live s)).
    { intros [[s' r] cbs] Et. rewrite <- Et in E1, E2. cbn in *. subst s' r. split; [exact I'|split; reflexivity]. }
    destruct sz as [n|]; [|apply K; reflexivity].
    apply N.leb_le in Hsz. rewrite Hsz. apply K; reflexivity.
  - destruct (free_large_ok c k s I x p b Hb Hbp E) as [E1 E2].
    pose proof (free_large_state_inv c k s I x p b Hx Hbp E) as I'.
    assert (K : Inv c k (st_of (free_large c s x p)) /\ res_of (free_large c s x p) = RUnit
                /\ live (st_of (free_large c s x p)) = remove_blk p (live s)).
    { rewrite E1, E2. split; [exact I'|split; reflexivity]. }
    destruct sz as [n|]; [|exact K].
    apply N.leb_le in Hsz. rewrite Hsz. exact K.
Qed.
