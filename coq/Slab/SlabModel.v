(* Executable model of frg::slab_pool (include/frg/slab.hpp), sequential core (C01-C04).
   Definitions only -- proofs live in Slab*Proofs.v so the model still runs if a proof breaks.

   The model describes the code AS IT IS in /repo after the fix commits for D01 (copying realloc
   unpoisons the whole source block before memcpy), D02 (carving loop [off + item <= length]) and
   D42 (free_in_slab_ decrements num_reserved).

   Environment = op input: the policy's answer to map() is part of the op ([MapRet r] / [MapFail]).
   The partial-slab red-black tree of every bucket is modelled as the sorted list of its keys
   (C06 is the refinement statement for frg::rbtree); head_slb = head of that list.
   The functions are cut at the places where the C++ takes/drops a lock (pop_head / construct_slab /
   account / attach_slab / push_free / release_large) so that the concurrent layer (C05) can reuse
   them as the bodies of its micro-op programs. *)
From Coq Require Import List NArith Bool.
Import ListNotations.
Local Open Scope N_scope.

(* ---------------------------------------------------------------------------------------- *)
(* configuration (template parameters of the Policy + ABI sizes read from the build)         *)
(* ---------------------------------------------------------------------------------------- *)
Record cfg := mkCfg {
  page : N;            (* Policy::pagesize (default 0x1000); huge_padding = page *)
  sb : N;              (* Policy::sb_size (default 1<<18) *)
  slabsz : N;          (* Policy::slabsize (default 1<<18) *)
  nbuckets : N;        (* Policy::num_buckets (default 13) *)
  aligned : bool;      (* Policy has map(size_t, size_t) *)
  poison : bool;       (* Policy has poison/unpoison/unpoison_expand *)
  hdr_frame : N;       (* sizeof(slab_pool::frame) *)
  hdr_slab : N         (* sizeof(slab_pool::slab_frame) *)
}.

(* ---------------------------------------------------------------------------------------- *)
(* size classes: bucket_to_size / size_to_bucket (tiny_sizes = 8,16,32,64; small_base_exp = 6; *)
(* small_step_exp = 0)                                                                        *)
(* ---------------------------------------------------------------------------------------- *)
Definition b2s (i : N) : N :=
  if i <? 4 then N.shiftl 8 i                       (* tiny_sizes[idx] *)
  else N.shiftl 1 (6 + (i - 4 + 1)).                (* (s + is) << (small_base_exp + ip), s = 1, is = 0 *)

Definition s2b (n : N) : N :=
  if n <=? 64 then
    (if n <=? 8 then 0 else if n <=? 16 then 1 else if n <=? 32 then 2 else 3)
  else
    let e := N.log2 n in                              (* 63 - clz(size) *)
    3 + (e - 6) + N.shiftr ((n - N.shiftl 1 e) + N.shiftl 1 e - 1) e.

Definition max_bucket_size (c : cfg) : N := b2s (nbuckets c - 1).

(* x & ~(m-1)  and  (x + m - 1) & ~(m-1) *)
Definition align_down (a m : N) : N := N.ldiff a (m - 1).
Definition align_up (a m : N) : N := N.ldiff (a + m - 1) (m - 1).

(* while(overhead < sizeof(slab_frame)) overhead += item_size; *)
Definition overhead (c : cfg) (item : N) : N := (hdr_slab c + item - 1) / item * item.
Definition payload (c : cfg) (item : N) : N := slabsz c - overhead c item.
(* for(off = 0; off + item_size <= length; off += item_size)   [D02 fix] *)
Definition nobj (c : cfg) (item : N) : N := payload c item / item.

(* ---------------------------------------------------------------------------------------- *)
(* ops, results, callbacks                                                                   *)
(* ---------------------------------------------------------------------------------------- *)
Inductive env := MapRet (r : N) | MapFail.

Inductive op :=
| Alloc (n : N) (e : env)
| Free (p : N)
| Dealloc (p n : N)
| Realloc (p n : N) (e : env)
| GetSize (p : N)
| Write (p off len tag : N).       (* the user writes len pattern bytes at p+off (ghost: contents) *)

Inductive result :=
| RPtr (p : N) | RNull | RUnit | RSize (n : N)
| RAssert (w : N)                  (* FRG_ASSERT fired; w names the assertion *)
| RUB (w : N).                     (* the C++ would have undefined behaviour *)

Inductive callback :=
| CMap (len al r : N)              (* map(len, al) -> r ; al = 0: one-argument map ; r = 0: failure *)
| CUnmap (b len : N)
| CPoison (a n : N)
| CUnpoison (a n : N)
| CUnpoisonExpand (a n : N)
| CAccess (w : bool) (a n : N).    (* not a policy call: the pool itself reads (false) / writes (true) [a,a+n) *)

(* ---------------------------------------------------------------------------------------- *)
(* state                                                                                     *)
(* ---------------------------------------------------------------------------------------- *)
Record slab := mkSlab {
  sl_frame : N;          (* address of the slab_frame header = (sb_base rounded up to sb) *)
  sl_base : N;           (* frame::sb_base *)
  sl_res : N;            (* frame::sb_reservation *)
  sl_idx : N;            (* slab_frame::index *)
  sl_avail : list N;     (* slab_frame::available, exact LIFO order, head first *)
  sl_nres : N            (* slab_frame::num_reserved (unsigned int): objects handed out and not yet freed *)
}.
Record large := mkLarge { lg_frame : N; lg_base : N; lg_res : N; lg_len : N }.

Definition seg := (N * N * N)%type.         (* off, len, tag of a user write; newest first *)
Record blk := mkBlk {                       (* ghost: a live block *)
  bk_p : N; bk_req : N;                     (* pointer, requested size *)
  bk_size0 : N;                             (* get_size when it became live *)
  bk_unp : N;                               (* bytes currently unpoisoned from p *)
  bk_log : list seg                         (* contents, as the log of the owner's writes *)
}.

Record state := mkState {
  slabs : list slab;                  (* every slab frame ever built (slabs are never unmapped) *)
  larges : list large;                (* live large frames *)
  partial : list (list N);            (* per bucket: partial_tree as sorted list of frames; head_slb = hd *)
  used : N;                           (* _usedPages *)
  live : list blk;                    (* ghost *)
  nlive : list N;                     (* ghost: live small blocks per class *)
  peak : list N                       (* ghost: maximum of nlive so far, per class *)
}.

Definition init (c : cfg) : state :=
  mkState [] [] (repeat [] (N.to_nat (nbuckets c))) 0 [] (repeat 0 (N.to_nat (nbuckets c)))
          (repeat 0 (N.to_nat (nbuckets c))).

(* regions obtained from the policy and not given back *)
Definition sl_region (x : slab) : N * N := (sl_base x, sl_res x).
Definition lg_region (x : large) : N * N := (lg_base x, lg_res x).
Definition mapped (s : state) : list (N * N) := map sl_region (slabs s) ++ map lg_region (larges s).

(* ---------------------------------------------------------------------------------------- *)
(* list helpers                                                                              *)
(* ---------------------------------------------------------------------------------------- *)
Fixpoint upd_nth {A} (l : list A) (i : nat) (f : A -> A) : list A :=
  match l, i with
  | [], _ => []
  | x :: r, O => f x :: r
  | x :: r, S j => x :: upd_nth r j f
  end.

Fixpoint find_slab (a : N) (l : list slab) : option slab :=
  match l with [] => None | x :: r => if sl_frame x =? a then Some x else find_slab a r end.
Fixpoint find_large (a : N) (l : list large) : option large :=
  match l with [] => None | x :: r => if lg_frame x =? a then Some x else find_large a r end.
Fixpoint find_blk (p : N) (l : list blk) : option blk :=
  match l with [] => None | x :: r => if bk_p x =? p then Some x else find_blk p r end.
Fixpoint remove_blk (p : N) (l : list blk) : list blk :=
  match l with [] => [] | x :: r => if bk_p x =? p then r else x :: remove_blk p r end.
Fixpoint upd_blk (p : N) (f : blk -> blk) (l : list blk) : list blk :=
  match l with [] => [] | x :: r => if bk_p x =? p then f x :: r else x :: upd_blk p f r end.
Fixpoint upd_slab (a : N) (f : slab -> slab) (l : list slab) : list slab :=
  match l with [] => [] | x :: r => if sl_frame x =? a then f x :: r else x :: upd_slab a f r end.
Fixpoint remove_large (a : N) (l : list large) : list large :=
  match l with [] => [] | x :: r => if lg_frame x =? a then r else x :: remove_large a r end.

(* partial_tree.insert / remove on the sorted key list *)
Fixpoint ins_sorted (a : N) (l : list N) : list N :=
  match l with [] => [a] | x :: r => if a <? x then a :: l else x :: ins_sorted a r end.
Fixpoint remove_addr (a : N) (l : list N) : list N :=
  match l with [] => [] | x :: r => if a =? x then r else x :: remove_addr a r end.

Definition bucket (s : state) (idx : N) : list N := nth (N.to_nat idx) (partial s) [].

(* the k objects of a slab in hand-out order: the LAST carved object is the head of the list *)
Fixpoint objs_up (a item : N) (k : nat) : list N :=       (* carving order: ascending addresses *)
  match k with O => [] | S k' => a :: objs_up (a + item) item k' end.
Definition carve (base item : N) (k : nat) : list N := rev_append (objs_up base item k) [].

Definition pcb (c : cfg) (l : list callback) : list callback := if poison c then l else [].

(* ---------------------------------------------------------------------------------------- *)
(* frame lookup: (address - 1) & ~(sb_size - 1), then the header AT that address              *)
(* ---------------------------------------------------------------------------------------- *)
Inductive frame_ref := FSlab (x : slab) | FLarge (x : large) | FNone.

Definition lookup (c : cfg) (s : state) (p : N) : frame_ref :=
  let a := align_down (p - 1) (sb c) in
  match find_slab a (slabs s) with
  | Some x => FSlab x
  | None => match find_large a (larges s) with Some x => FLarge x | None => FNone end
  end.

Definition sl_item (x : slab) : N := b2s (sl_idx x).
Definition sl_addr (c : cfg) (x : slab) : N := sl_frame x + overhead c (sl_item x).    (* frame::address *)
Definition sl_len (c : cfg) (x : slab) : N := payload c (sl_item x).                  (* frame::length *)
Definition sl_contains (c : cfg) (x : slab) (p : N) : bool :=
  (sl_addr c x <=? p) && (p <? sl_addr c x + sl_len c x).
Definition lg_addr (c : cfg) (x : large) : N := lg_frame x + page c.

Definition set_avail (x : slab) (av : list N) (nres : N) : slab :=
  mkSlab (sl_frame x) (sl_base x) (sl_res x) (sl_idx x) av nres.

Definition get_size_of (c : cfg) (s : state) (p : N) : result :=
  if p =? 0 then RSize 0 else
  match lookup c s p with
  | FSlab x => RSize (sl_item x)
  | FLarge x => RSize (lg_len x)
  | FNone => RUB 10
  end.

(* ---------------------------------------------------------------------------------------- *)
(* allocate                                                                                  *)
(* ---------------------------------------------------------------------------------------- *)
Definition env_ret (e : env) : N := match e with MapRet r => r | MapFail => 0 end.
Definition map_call (c : cfg) (len : N) (e : env) : callback :=
  CMap len (if aligned c then sb c else 0) (env_ret e).
Definition frame_of_map (c : cfg) (r : N) : N := if aligned c then r else align_up r (sb c).
Definition slab_map_len (c : cfg) : N := if aligned c then slabsz c else slabsz c + sb c.
Definition large_map_len (c : cfg) (area : N) : N :=
  if aligned c then area + page c else area + page c + sb c.

Definition wrap32 (x : N) : N := x mod 4294967296.

(* ghost bookkeeping + the poison calls at the end of a small allocate *)
Definition hand_out (c : cfg) (s : state) (o n' nreq idx : N) : state * list callback :=
  let cnt := N.succ (nth (N.to_nat idx) (nlive s) 0) in
  (mkState (slabs s) (larges s) (partial s) (used s)
           (mkBlk o nreq (b2s idx) n' [] :: live s)
           (upd_nth (nlive s) (N.to_nat idx) (fun _ => cnt))
           (upd_nth (peak s) (N.to_nat idx) (fun m => N.max m cnt)),
   pcb c [CPoison o 8; CUnpoison o n']).

(* body under the bucket lock: pop the head object of head_slb *)
Definition pop_head (c : cfg) (s : state) (idx h : N) : (state * N) + result :=
  match find_slab h (slabs s) with
  | None => inr (RUB 1)
  | Some x =>
    match sl_avail x with
    | [] => inr (RAssert 1)                                  (* FRG_ASSERT(object) *)
    | o :: av =>
      if negb (sl_contains c x o) then inr (RAssert 2) else   (* FRG_ASSERT(slb->contains(object)) *)
      let x' := set_avail x av (wrap32 (sl_nres x + 1)) in
      let part' := match av with
                   | [] => upd_nth (partial s) (N.to_nat idx) (remove_addr h)
                   | _ => partial s end in
      inl (mkState (upd_slab h (fun _ => x') (slabs s)) (larges s) part' (used s)
                   (live s) (nlive s) (peak s), o)
    end
  end.

(* _construct_slab on a successful map answer r: the new frame and its callbacks (no shared state) *)
Definition construct_slab (c : cfg) (idx r : N) : slab * list callback :=
  let item := b2s idx in
  let fr := frame_of_map c r in
  let base := fr + overhead c item in
  let up := objs_up base item (N.to_nat (nobj c item)) in
  (mkSlab fr r (slab_map_len c) idx (rev_append up []) 0,
   pcb c [CUnpoison fr (hdr_slab c)] ++ [CAccess true fr (hdr_slab c)]
   ++ flat_map (fun o => pcb c [CUnpoison o 8] ++ [CAccess true o 8]) up).

(* body under _tree_mutex *)
Definition account_add (s : state) (d : N) : state :=
  mkState (slabs s) (larges s) (partial s) (used s + d) (live s) (nlive s) (peak s).

(* body under the bucket lock: attach the new slab *)
Definition attach_slab (s : state) (idx : N) (x : slab) : state :=
  mkState (x :: slabs s) (larges s) (upd_nth (partial s) (N.to_nat idx) (ins_sorted (sl_frame x)))
          (used s) (live s) (nlive s) (peak s).

Definition alloc_small (c : cfg) (s : state) (n' nreq idx : N) (e : env)
  : state * result * list callback :=
  match bucket s idx with
  | h :: _ =>
    match pop_head c s idx h with
    | inr r => (s, r, [])
    | inl (s1, o) =>
      let '(s2, cbs) := hand_out c s1 o n' nreq idx in
      (s2, RPtr o, [CAccess false h (hdr_slab c); CAccess false o 8; CAccess true h (hdr_slab c)] ++ cbs)
    end
  | [] =>
    let mc := map_call c (slab_map_len c) e in
    if env_ret e =? 0 then (s, RNull, [mc]) else
    let item := b2s idx in
    if negb (overhead c item <? slabsz c) then (s, RAssert 3, [mc]) else   (* FRG_ASSERT(overhead < slabsize) *)
    let '(x, ccbs) := construct_slab c idx (env_ret e) in
    match sl_avail x with
    | [] => (s, RAssert 1, mc :: ccbs)
    | o :: av =>
      match av with
      | [] => (s, RAssert 4, mc :: ccbs)                       (* FRG_ASSERT(slb->available) *)
      | _ =>
        let x' := set_avail x av 1 in
        let s1 := account_add s ((sl_len c x + page c) / page c) in
        let s2 := attach_slab s1 idx x' in
        let '(s3, cbs) := hand_out c s2 o n' nreq idx in
        (s3, RPtr o, mc :: ccbs ++ [CAccess false o 8; CAccess true (sl_frame x) (hdr_slab c)] ++ cbs)
      end
    end
  end.

Definition alloc_large (c : cfg) (s : state) (n' nreq : N) (e : env) : state * result * list callback :=
  let area := align_up n' (page c) in
  let len := large_map_len c area in
  let mc := map_call c len e in
  if env_ret e =? 0 then (s, RNull, [mc]) else
  let fr := frame_of_map c (env_ret e) in
  let x := mkLarge fr (env_ret e) len area in
  (mkState (slabs s) (x :: larges s) (partial s) (used s + (area + page c) / page c)
           (mkBlk (fr + page c) nreq area area [] :: live s) (nlive s) (peak s),
   RPtr (fr + page c),
   mc :: pcb c [CUnpoison fr (hdr_frame c); CUnpoison (fr + page c) area]
      ++ [CAccess true fr (hdr_frame c)]).

Definition alloc (c : cfg) (s : state) (n : N) (e : env) : state * result * list callback :=
  let n' := if n =? 0 then 1 else n in
  if n' <=? max_bucket_size c then
    let idx := s2b n' in
    if negb (idx <=? nbuckets c) then (s, RAssert 5, [])       (* FRG_ASSERT(index <= num_buckets) *)
    else alloc_small c s n' n idx e
  else alloc_large c s n' n e.

(* ---------------------------------------------------------------------------------------- *)
(* free / deallocate                                                                         *)
(* ---------------------------------------------------------------------------------------- *)
Definition drop_live (s : state) (p : N) (idx : option N) : state :=
  mkState (slabs s) (larges s) (partial s) (used s) (remove_blk p (live s))
          (match idx with
           | Some i => upd_nth (nlive s) (N.to_nat i) N.pred
           | None => nlive s end)
          (peak s).

(* free_in_slab_ *)
Definition free_small (c : cfg) (s : state) (x : slab) (p : N) : state * result * list callback :=
  let item := sl_item x in
  if negb (sl_contains c x p) then (s, RAssert 6, []) else     (* FRG_ASSERT(slb->contains(p)) *)
  match find_blk p (live s) with
  | None => (s, RUB 2, [])                                    (* double free / interior pointer *)
  | Some _ =>
    if sl_nres x =? 0 then (s, RAssert 7, []) else             (* FRG_ASSERT(slb->num_reserved) *)
    if match sl_avail x with [] => false | a :: _ => negb (sl_contains c x a) end
    then (s, RAssert 8, []) else
    let x' := set_avail x (p :: sl_avail x) (sl_nres x - 1) in     (* D42 fix: num_reserved-- *)
    let part' := match sl_avail x with
                 | [] => upd_nth (partial s) (N.to_nat (sl_idx x)) (ins_sorted (sl_frame x))
                 | _ => partial s end in
    let s1 := mkState (upd_slab (sl_frame x) (fun _ => x') (slabs s)) (larges s) part' (used s)
                      (live s) (nlive s) (peak s) in
    (drop_live s1 p (Some (sl_idx x)), RUnit,
     pcb c [CUnpoisonExpand p item; CPoison p item; CUnpoison p 8]
     ++ [CAccess true p 8; CAccess true (sl_frame x) (hdr_slab c)])
  end.

(* free_huge_ *)
Definition free_large (c : cfg) (s : state) (x : large) (p : N) : state * result * list callback :=
  if negb (lg_addr c x =? p) then (s, RAssert 9, []) else      (* FRG_ASSERT(sup->address == p) *)
  match find_blk p (live s) with
  | None => (s, RUB 2, [])
  | Some _ =>
    let s1 := mkState (slabs s) (remove_large (lg_frame x) (larges s)) (partial s)
                      (used s - (lg_len x + page c) / page c) (live s) (nlive s) (peak s) in
    (drop_live s1 p None, RUnit,
     [CAccess false (lg_frame x) (hdr_frame c)]
     ++ pcb c [CPoison (lg_frame x) (hdr_frame c); CPoison p (lg_len x)]
     ++ [CUnmap (lg_base x) (lg_res x)])
  end.

Definition free_ (c : cfg) (s : state) (p : N) (szchk : option N) : state * result * list callback :=
  if p =? 0 then (s, RUnit, []) else
  match lookup c s p with
  | FSlab x =>
    match szchk with
    | Some n => if n <=? sl_item x
                then let '(s', r, cbs) := free_small c s x p in
                     (s', r, CAccess false (sl_frame x) (hdr_slab c) :: cbs)
                else (s, RAssert 11, [])
    | None => let '(s', r, cbs) := free_small c s x p in
              (s', r, CAccess false (sl_frame x) (hdr_slab c) :: cbs)
    end
  | FLarge x =>
    match szchk with
    | Some n => if n <=? lg_len x then free_large c s x p else (s, RAssert 12, [])
    | None => free_large c s x p
    end
  | FNone => (s, RUB 10, [])
  end.

(* ---------------------------------------------------------------------------------------- *)
(* realloc                                                                                   *)
(* ---------------------------------------------------------------------------------------- *)
(* bytes at offsets >= n stop being the owner's (in-place shrink) *)
Fixpoint clip_log (n : N) (log : list seg) : list seg :=
  match log with
  | [] => []
  | (off, len, tag) :: r =>
    if off <? n then (off, N.min len (n - off), tag) :: clip_log n r else clip_log n r
  end.

Definition set_req (s : state) (p n : N) : state :=
  mkState (slabs s) (larges s) (partial s) (used s)
          (upd_blk p (fun b => mkBlk (bk_p b) n (bk_size0 b) n (clip_log n (bk_log b))) (live s)) (nlive s) (peak s).

Definition move_log (s : state) (p q : N) : state :=
  match find_blk p (live s) with
  | None => s
  | Some b =>
    mkState (slabs s) (larges s) (partial s) (used s)
            (upd_blk q (fun b' => mkBlk (bk_p b') (bk_req b') (bk_size0 b') (bk_unp b') (bk_log b)) (live s))
            (nlive s) (peak s)
  end.

Definition inplace_cbs (c : cfg) (p cur n : N) : list callback :=
  pcb c [CUnpoisonExpand p cur; CPoison p cur; CUnpoison p n].

Definition realloc (c : cfg) (s : state) (p n : N) (e : env) : state * result * list callback :=
  if p =? 0 then alloc c s n e else
  if n =? 0 then
    let '(s', r, cbs) := free_ c s p None in
    (s', match r with RUnit => RNull | _ => r end, cbs)
  else
  match find_blk p (live s) with
  | None => (s, RUB 2, [])
  | Some _ =>
  let go (hdr fr cur : N) :=
    if n <=? cur then (set_req s p n, RPtr p, CAccess false fr hdr :: inplace_cbs c p cur n)
    else
      let '(s1, r, cbs) := alloc c s n e in
      match r with
      | RPtr q =>
        let s2 := move_log s1 p q in
        let '(s3, r3, cbs3) := free_ c s2 p None in
        (s3, match r3 with RUnit => RPtr q | _ => r3 end,
         CAccess false fr hdr :: cbs
         ++ pcb c [CUnpoisonExpand p cur]                       (* D01 fix *)
         ++ [CAccess false p cur; CAccess true q cur] ++ cbs3)
      | _ => (s1, r, CAccess false fr hdr :: cbs)
      end in
  match lookup c s p with
  | FSlab x =>
    if negb (sl_contains c x p) then (s, RAssert 6, []) else
    go (hdr_slab c) (sl_frame x) (sl_item x)
  | FLarge x =>
    if negb (lg_addr c x =? p) then (s, RAssert 9, []) else
    go (hdr_frame c) (lg_frame x) (lg_len x)
  | FNone => (s, RUB 10, [])
  end
  end.

(* ---------------------------------------------------------------------------------------- *)
(* step / run                                                                                *)
(* ---------------------------------------------------------------------------------------- *)
Definition write_ (s : state) (p off len tag : N) : state * result * list callback :=
  match find_blk p (live s) with
  | None => (s, RUB 2, [])
  | Some _ =>
    (mkState (slabs s) (larges s) (partial s) (used s)
             (upd_blk p (fun b => mkBlk (bk_p b) (bk_req b) (bk_size0 b) (bk_unp b) ((off, len, tag) :: bk_log b))
                      (live s)) (nlive s) (peak s), RUnit, [])
  end.

Definition step (c : cfg) (s : state) (o : op) : state * result * list callback :=
  match o with
  | Alloc n e => alloc c s n e
  | Free p => free_ c s p None
  | Dealloc p n => free_ c s p (Some n)
  | Realloc p n e => realloc c s p n e
  | GetSize p =>
    (s, get_size_of c s p,
     if p =? 0 then [] else
     match lookup c s p with
     | FSlab x => [CAccess false (sl_frame x) (hdr_slab c)]
     | FLarge x => [CAccess false (lg_frame x) (hdr_frame c)]
     | FNone => [] end)
  | Write p off len tag => write_ s p off len tag
  end.

Definition st_of (x : state * result * list callback) : state := fst (fst x).
Definition res_of (x : state * result * list callback) : result := snd (fst x).
Definition cbs_of (x : state * result * list callback) : list callback := snd x.

Definition run_from (c : cfg) (s : state) (ops : list op) : state :=
  fold_left (fun s o => st_of (step c s o)) ops s.
Definition run (c : cfg) (ops : list op) : state := run_from c (init c) ops.

(* results and callback log of a whole history *)
Fixpoint trace_from (c : cfg) (s : state) (ops : list op) : list (result * list callback) :=
  match ops with
  | [] => []
  | o :: r => let x := step c s o in (res_of x, cbs_of x) :: trace_from c (st_of x) r
  end.

(* ---------------------------------------------------------------------------------------- *)
(* churn: any number >= 1 of allocate(n)/free pairs of a small size whose class has a partial  *)
(* slab leaves everything as it was except the ghost peak counter (SlabChurn.v proves this    *)
(* equal to iterating step); the driver uses it for the long replays                           *)
(* ---------------------------------------------------------------------------------------- *)
Definition churn_fast (s : state) (idx : N) : state :=
  mkState (slabs s) (larges s) (partial s) (used s) (live s) (nlive s)
          (upd_nth (peak s) (N.to_nat idx) (fun m => N.max m (N.succ (nth (N.to_nat idx) (nlive s) 0)))).
Definition churn_class (c : cfg) (s : state) (n : N) : option N :=
  let n' := if n =? 0 then 1 else n in
  if n' <=? max_bucket_size c then
    match bucket s (s2b n') with [] => None | _ => Some (s2b n') end
  else None.

(* ---------------------------------------------------------------------------------------- *)
(* contents of a live block as seen through its write log (for the driver's digests)          *)
(* ---------------------------------------------------------------------------------------- *)
Definition pat (tag j : N) : N := (tag + j * 7 + j / 251) mod 256.
Fixpoint byte_at (log : list seg) (i : N) : option N :=
  match log with
  | [] => None
  | (off, len, tag) :: r => if (off <=? i) && (i <? off + len) then Some (pat tag (i - off)) else byte_at r i
  end.
Fixpoint digest_from (log : list seg) (i : N) (k : nat) (acc : N) : option N :=
  match k with
  | O => Some acc
  | S k' => match byte_at log i with
            | None => None
            | Some b => digest_from log (i + 1) k' ((acc * 31 + b) mod 4294967296)
            end
  end.
Definition digest (s : state) (p off len : N) : option N :=
  match find_blk p (live s) with
  | None => None
  | Some b => digest_from (bk_log b) off (N.to_nat len) 0
  end.

(* ---------------------------------------------------------------------------------------- *)
(* hypotheses of the theorems (all decidable)                                                *)
(* ---------------------------------------------------------------------------------------- *)
Definition is_pow2 (x : N) : bool := (0 <? x) && (x =? N.shiftl 1 (N.log2 x)).

Definition cfg_ok (c : cfg) : bool :=
  is_pow2 (page c) && is_pow2 (sb c)
  && (0 <? slabsz c) && (slabsz c mod page c =? 0) && (slabsz c <=? sb c)
  && (0 <? hdr_frame c) && (hdr_frame c <=? page c) && (0 <? hdr_slab c)
  && (1 <=? nbuckets c) && (nbuckets c <=? 56)
  && (overhead c (max_bucket_size c) + 2 * max_bucket_size c <=? slabsz c)
  && (sb c <=? 4611686018427387904)
  && (slabsz c <=? 17179869184).      (* < 2^32 objects per slab: num_reserved is an unsigned int *)

(* the length map() is asked for, when the op calls map in state s *)
Definition alloc_map_len (c : cfg) (s : state) (n : N) : option N :=
  let n' := if n =? 0 then 1 else n in
  if n' <=? max_bucket_size c then
    match bucket s (s2b n') with [] => Some (slab_map_len c) | _ => None end
  else Some (large_map_len c (align_up n' (page c))).

Definition cur_size (c : cfg) (s : state) (p : N) : N :=
  match get_size_of c s p with RSize n => n | _ => 0 end.

Definition map_len (c : cfg) (s : state) (o : op) : option N :=
  match o with
  | Alloc n _ => alloc_map_len c s n
  | Realloc p n _ =>
    if p =? 0 then alloc_map_len c s n
    else if n =? 0 then None
    else if n <=? cur_size c s p then None else alloc_map_len c s n
  | _ => None
  end.

Definition op_env (o : op) : option env :=
  match o with Alloc _ e => Some e | Realloc _ _ e => Some e | _ => None end.

Definition rdisj (a b : N * N) : bool :=
  (fst a + snd a <=? fst b) || (fst b + snd b <=? fst a).

Definition two64 : N := 18446744073709551616.

Definition op_policy_ok (c : cfg) (s : state) (o : op) : bool :=
  match map_len c s o, op_env o with
  | Some len, Some (MapRet r) =>
    (0 <? r) && (r + len <=? two64)
    && forallb (rdisj (r, len)) (mapped s)
    && (if aligned c then r mod sb c =? 0 else true)
  | _, _ => true
  end.

Definition is_live (s : state) (p : N) : bool :=
  match find_blk p (live s) with Some _ => true | None => false end.

Definition req_bound : N := 4611686018427387904.   (* 2^62 *)

Definition op_api_ok (c : cfg) (s : state) (o : op) : bool :=
  match o with
  | Alloc n _ => n <? req_bound
  | Free p => (p =? 0) || is_live s p
  | Dealloc p n => (p =? 0) || (is_live s p && (n <=? cur_size c s p))
  | Realloc p n _ => ((p =? 0) || is_live s p) && (n <? req_bound)
  | GetSize p => (p =? 0) || is_live s p
  | Write p off len _ =>
    match find_blk p (live s) with Some b => off + len <=? N.max (bk_req b) 1 | None => false end
  end.

Fixpoint hist_ok (P : cfg -> state -> op -> bool) (c : cfg) (s : state) (ops : list op) : bool :=
  match ops with
  | [] => true
  | o :: r => P c s o && hist_ok P c (st_of (step c s o)) r
  end.

Definition policy_ok (c : cfg) (ops : list op) : Prop := hist_ok op_policy_ok c (init c) ops = true.
Definition api_ok (c : cfg) (ops : list op) : Prop := hist_ok op_api_ok c (init c) ops = true.

Definition default_cfg : cfg := mkCfg 4096 262144 262144 13 true true 40 104.
