(* Basic facts about the list helpers of the model and state-independent facts about step. *)
From Coq Require Import List NArith Bool Lia ZifyBool ZifyNat ZifyN.
From FV Require Import Slab.SlabModel Slab.SlabArith.
Import ListNotations.
Local Open Scope N_scope.

(* ---------- find / update helpers ---------- *)
Lemma find_slab_some a l x : find_slab a l = Some x -> In x l /\ sl_frame x = a.
Proof.
  induction l as [|y r IH]; cbn; [discriminate|].
  destruct (sl_frame y =? a) eqn:E.
  - intros [= ->]. apply N.eqb_eq in E. auto.
  - intros H. destruct (IH H). auto.
Qed.

Lemma find_slab_none a l : find_slab a l = None -> forall x, In x l -> sl_frame x <> a.
Proof.
  induction l as [|y r IH]; cbn; [intros _ x []|].
  destruct (sl_frame y =? a) eqn:E; [discriminate|]. apply N.eqb_neq in E.
  intros H x [<-|Hx]; auto.
Qed.

Lemma find_slab_in a l x :
  NoDup (map sl_frame l) -> In x l -> sl_frame x = a -> find_slab a l = Some x.
Proof.
  induction l as [|y r IH]; cbn; [intros _ []|].
  intros Hnd [->|Hx] Ha.
  - apply N.eqb_eq in Ha. rewrite Ha. reflexivity.
  - inversion Hnd as [|? ? Hni Hnd']; subst.
    destruct (sl_frame y =? sl_frame x) eqn:E.
    + apply N.eqb_eq in E. exfalso. apply Hni. rewrite E. apply in_map. assumption.
    + apply IH; auto.
Qed.

Lemma find_large_some a l x : find_large a l = Some x -> In x l /\ lg_frame x = a.
Proof.
  induction l as [|y r IH]; cbn; [discriminate|].
  destruct (lg_frame y =? a) eqn:E.
  - intros [= ->]. apply N.eqb_eq in E. auto.
  - intros H. destruct (IH H). auto.
Qed.

Lemma find_large_none a l : find_large a l = None -> forall x, In x l -> lg_frame x <> a.
Proof.
  induction l as [|y r IH]; cbn; [intros _ x []|].
  destruct (lg_frame y =? a) eqn:E; [discriminate|]. apply N.eqb_neq in E.
  intros H x [<-|Hx]; auto.
Qed.

Lemma find_large_in a l x :
  NoDup (map lg_frame l) -> In x l -> lg_frame x = a -> find_large a l = Some x.
Proof.
  induction l as [|y r IH]; cbn; [intros _ []|].
  intros Hnd [->|Hx] Ha.
  - apply N.eqb_eq in Ha. rewrite Ha. reflexivity.
  - inversion Hnd as [|? ? Hni Hnd']; subst.
    destruct (lg_frame y =? lg_frame x) eqn:E.
    + apply N.eqb_eq in E. exfalso. apply Hni. rewrite E. apply in_map. assumption.
    + apply IH; auto.
Qed.

Lemma find_blk_some p l b : find_blk p l = Some b -> In b l /\ bk_p b = p.
Proof.
  induction l as [|y r IH]; cbn; [discriminate|].
  destruct (bk_p y =? p) eqn:E.
  - intros [= ->]. apply N.eqb_eq in E. auto.
  - intros H. destruct (IH H). auto.
Qed.

Lemma find_blk_none p l : find_blk p l = None -> forall b, In b l -> bk_p b <> p.
Proof.
  induction l as [|y r IH]; cbn; [intros _ x []|].
  destruct (bk_p y =? p) eqn:E; [discriminate|]. apply N.eqb_neq in E.
  intros H x [<-|Hx]; auto.
Qed.

Lemma find_blk_in p l b :
  NoDup (map bk_p l) -> In b l -> bk_p b = p -> find_blk p l = Some b.
Proof.
  induction l as [|y r IH]; cbn; [intros _ []|].
  intros Hnd [->|Hx] Ha.
  - apply N.eqb_eq in Ha. rewrite Ha. reflexivity.
  - inversion Hnd as [|? ? Hni Hnd']; subst.
    destruct (bk_p y =? bk_p b) eqn:E.
    + apply N.eqb_eq in E. exfalso. apply Hni. rewrite E. apply in_map. assumption.
    + apply IH; auto.
Qed.

Lemma in_remove_blk p l b : In b (remove_blk p l) -> In b l.
Proof.
  induction l as [|y r IH]; cbn; [auto|].
  destruct (bk_p y =? p); [auto|]. intros [->|H]; auto.
Qed.

Lemma remove_blk_notin p l :
  NoDup (map bk_p l) -> forall b, In b (remove_blk p l) -> bk_p b <> p.
Proof.
  induction l as [|y r IH]; cbn; [intros _ b []|].
  intros Hnd. inversion Hnd as [|? ? Hni Hnd']; subst.
  destruct (bk_p y =? p) eqn:E.
  - apply N.eqb_eq in E. subst p. intros b Hb Heq. apply Hni. rewrite <- Heq. apply in_map. assumption.
  - apply N.eqb_neq in E. intros b [<-|Hb]; auto.
Qed.

Lemma remove_blk_keeps p l b : In b l -> bk_p b <> p -> In b (remove_blk p l).
Proof.
  induction l as [|y r IH]; cbn; [auto|].
  intros [->|H] Hne.
  - destruct (bk_p b =? p) eqn:E; [apply N.eqb_eq in E; contradiction|left; reflexivity].
  - destruct (bk_p y =? p); [assumption|right; auto].
Qed.

Lemma map_remove_blk_sub p l : forall a, In a (map bk_p (remove_blk p l)) -> In a (map bk_p l).
Proof.
  intros a H. apply in_map_iff in H. destruct H as (b & <- & Hb). apply in_map. eapply in_remove_blk; eauto.
Qed.

Lemma NoDup_remove_blk p l : NoDup (map bk_p l) -> NoDup (map bk_p (remove_blk p l)).
Proof.
  induction l as [|y r IH]; cbn; [auto|].
  intros Hnd. inversion Hnd as [|? ? Hni Hnd']; subst.
  destruct (bk_p y =? p); [assumption|]. cbn. constructor; auto.
  intros H. apply Hni. eapply map_remove_blk_sub; eauto.
Qed.

Lemma map_bk_p_upd_blk p f l :
  (forall b, bk_p (f b) = bk_p b) -> map bk_p (upd_blk p f l) = map bk_p l.
Proof.
  intros Hf. induction l as [|y r IH]; cbn; [reflexivity|].
  destruct (bk_p y =? p); cbn; [rewrite Hf; reflexivity|rewrite IH; reflexivity].
Qed.

Lemma in_upd_blk p f l b :
  In b (upd_blk p f l) -> In b l \/ exists b0, In b0 l /\ bk_p b0 = p /\ b = f b0.
Proof.
  induction l as [|y r IH]; cbn; [auto|].
  destruct (bk_p y =? p) eqn:E.
  - apply N.eqb_eq in E. intros [<-|H]; [right; exists y; auto|left; auto].
  - intros [->|H]; [left; auto|]. destruct (IH H) as [|(b0 & ? & ? & ?)]; [left; auto|right; exists b0; auto].
Qed.

Lemma map_sl_frame_upd_slab a f l :
  (forall x, sl_frame (f x) = sl_frame x) -> map sl_frame (upd_slab a f l) = map sl_frame l.
Proof.
  intros Hf. induction l as [|y r IH]; cbn; [reflexivity|].
  destruct (sl_frame y =? a); cbn; [rewrite Hf; reflexivity|rewrite IH; reflexivity].
Qed.

Lemma map_sl_region_upd_slab a f l :
  (forall x, sl_region (f x) = sl_region x) -> map sl_region (upd_slab a f l) = map sl_region l.
Proof.
  intros Hf. induction l as [|y r IH]; cbn; [reflexivity|].
  destruct (sl_frame y =? a); cbn; [rewrite Hf; reflexivity|rewrite IH; reflexivity].
Qed.

(* with distinct frames, upd_slab replaces exactly the slab x by f x *)
Lemma in_upd_slab a f l y :
  NoDup (map sl_frame l) ->
  In y (upd_slab a f l) <->
  (In y l /\ sl_frame y <> a) \/ (exists x, In x l /\ sl_frame x = a /\ y = f x) .
Proof.
  induction l as [|z r IH]; cbn.
  - intros _. split; [intros []|intros [[[] _]|(x & [] & _)]].
  - intros Hnd. inversion Hnd as [|? ? Hni Hnd']; subst.
    destruct (sl_frame z =? a) eqn:E.
    + apply N.eqb_eq in E. cbn. split.
      * intros [<-|H]; [right; exists z; auto|].
        left. split; [auto|]. intros Heq. apply Hni. rewrite E, <- Heq. apply in_map. assumption.
      * intros [[[->|H] Hne]|(x & [->|Hx] & Hxa & ->)]; auto.
        -- contradiction.
        -- exfalso. apply Hni. rewrite E, <- Hxa. apply in_map. assumption.
    + apply N.eqb_neq in E. cbn. rewrite (IH Hnd'). split.
      * intros [->|[[H Hne]|(x & Hx & Hxa & ->)]]; [left; auto|left; auto|right; exists x; auto].
      * intros [[[->|H] Hne]|(x & [->|Hx] & Hxa & ->)]; auto.
        -- contradiction.
        -- right. right. exists x. auto.
Qed.

Lemma in_remove_large a l x : In x (remove_large a l) -> In x l.
Proof.
  induction l as [|y r IH]; cbn; [auto|].
  destruct (lg_frame y =? a); [auto|]. intros [->|H]; auto.
Qed.

Lemma remove_large_spec a l :
  NoDup (map lg_frame l) ->
  forall x, In x (remove_large a l) <-> In x l /\ lg_frame x <> a.
Proof.
  induction l as [|y r IH]; cbn; [intros _ x; split; [intros []|intros [[] _]]|].
  intros Hnd x. inversion Hnd as [|? ? Hni Hnd']; subst.
  destruct (lg_frame y =? a) eqn:E.
  - apply N.eqb_eq in E. split.
    + intros H. split; [auto|]. intros Heq. apply Hni. rewrite E, <- Heq. apply in_map. assumption.
    + intros [[->|H] Hne]; [contradiction|assumption].
  - apply N.eqb_neq in E. cbn. rewrite (IH Hnd' x). split.
    + intros [->|[H Hne]]; auto.
    + intros [[->|H] Hne]; auto.
Qed.

Lemma map_lg_frame_remove_sub a l : forall f, In f (map lg_frame (remove_large a l)) -> In f (map lg_frame l).
Proof.
  intros f H. apply in_map_iff in H. destruct H as (x & <- & Hx). apply in_map. eapply in_remove_large; eauto.
Qed.

Lemma NoDup_remove_large a l : NoDup (map lg_frame l) -> NoDup (map lg_frame (remove_large a l)).
Proof.
  induction l as [|y r IH]; cbn; [auto|].
  intros Hnd. inversion Hnd as [|? ? Hni Hnd']; subst.
  destruct (lg_frame y =? a); [assumption|]. cbn. constructor; auto.
  intros H. apply Hni. eapply map_lg_frame_remove_sub; eauto.
Qed.

(* ---------- upd_nth ---------- *)
Lemma upd_nth_length {A} (l : list A) i f : length (upd_nth l i f) = length l.
Proof. revert i; induction l as [|x r IH]; intros [|i]; cbn; auto. Qed.

Lemma nth_upd_nth_same {A} (l : list A) i f d : (i < length l)%nat -> nth i (upd_nth l i f) d = f (nth i l d).
Proof. revert i; induction l as [|x r IH]; intros [|i] H; cbn in *; try lia; auto. apply IH. lia. Qed.

Lemma nth_upd_nth_other {A} (l : list A) i j f d : i <> j -> nth j (upd_nth l i f) d = nth j l d.
Proof. revert i j; induction l as [|x r IH]; intros [|i] [|j] H; cbn; auto; try contradiction. Qed.

(* ---------- sorted key lists (the partial tree) ---------- *)
Lemma in_ins_sorted a l x : In x (ins_sorted a l) <-> x = a \/ In x l.
Proof.
  induction l as [|y r IH]; cbn; [intuition|].
  destruct (a <? y); cbn; [intuition|]. rewrite IH. intuition.
Qed.

Lemma in_remove_addr a l x : In x (remove_addr a l) -> In x l.
Proof.
  induction l as [|y r IH]; cbn; [auto|]. destruct (a =? y); [auto|]. intros [->|H]; auto.
Qed.

Inductive sorted : list N -> Prop :=
| sorted_nil : sorted []
| sorted_cons a l : (forall x, In x l -> a < x) -> sorted l -> sorted (a :: l).

Lemma sorted_ins a l : sorted l -> ~ In a l -> sorted (ins_sorted a l).
Proof.
  induction 1 as [|y r Hlt Hs IH]; cbn; intros Hni.
  - constructor; [intros x []|constructor].
  - destruct (a <? y) eqn:E.
    + apply N.ltb_lt in E. constructor; [|constructor; assumption].
      intros x [<-|Hx]; [assumption|]. specialize (Hlt x Hx). lia.
    + apply N.ltb_ge in E. constructor.
      * intros x Hx. apply in_ins_sorted in Hx. destruct Hx as [->|Hx]; [|auto].
        assert (a <> y) by (intros ->; apply Hni; left; reflexivity). lia.
      * apply IH. intros H. apply Hni. right. assumption.
Qed.

Lemma sorted_remove a l : sorted l -> sorted (remove_addr a l) /\ (forall x, In x (remove_addr a l) <-> In x l /\ x <> a).
Proof.
  induction 1 as [|y r Hlt Hs IH]; cbn.
  - split; [constructor|]. intros x. intuition.
  - destruct IH as [IH1 IH2]. destruct (a =? y) eqn:E.
    + apply N.eqb_eq in E. subst y. split; [assumption|]. intros x. split.
      * intros Hx. split; [right; assumption|]. specialize (Hlt x Hx). lia.
      * intros [[<-|Hx] Hne]; [contradiction|assumption].
    + apply N.eqb_neq in E. split.
      * constructor; [|assumption]. intros x Hx. apply Hlt. apply IH2 in Hx. tauto.
      * intros x. cbn. rewrite IH2. split.
        -- intros [<-|[Hx Hne]]; auto.
        -- intros [[<-|Hx] Hne]; auto.
Qed.

Lemma sorted_NoDup l : sorted l -> NoDup l.
Proof.
  induction 1 as [|y r Hlt Hs IH]; constructor; [|assumption].
  intros H. specialize (Hlt y H). lia.
Qed.

Lemma sorted_hd_min a l : sorted (a :: l) -> forall x, In x (a :: l) -> a <= x.
Proof. intros H x [<-|Hx]; [lia|]. inversion H; subst. specialize (H2 x Hx). lia. Qed.

(* ---------- carving ---------- *)
Lemma in_objs_up a item k x :
  In x (objs_up a item k) <-> exists i, (i < k)%nat /\ x = a + N.of_nat i * item.
Proof.
  revert a; induction k as [|k IH]; intros a; cbn.
  - split; [intros []|intros (i & Hi & _); lia].
  - rewrite IH. split.
    + intros [<-|(i & Hi & ->)]; [exists 0%nat; split; [lia|cbn; lia]|exists (S i); split; [lia|lia]].
    + intros ([|i] & Hi & ->); [left; cbn; lia|right; exists i; split; [lia|lia]].
Qed.

Lemma NoDup_objs_up a item k : 0 < item -> NoDup (objs_up a item k).
Proof.
  intros Hi. revert a; induction k as [|k IH]; intros a; cbn; constructor; [|apply IH].
  intros H. apply in_objs_up in H. destruct H as (i & _ & E). nia.
Qed.

Lemma in_carve base item k x :
  In x (carve base item k) <-> exists i, (i < k)%nat /\ x = base + N.of_nat i * item.
Proof. unfold carve. rewrite rev_append_rev, app_nil_r, <- in_rev. apply in_objs_up. Qed.

Lemma NoDup_carve base item k : 0 < item -> NoDup (carve base item k).
Proof.
  intros H. unfold carve. rewrite rev_append_rev, app_nil_r. apply NoDup_rev. apply NoDup_objs_up. assumption.
Qed.

Lemma length_objs_up a item k : length (objs_up a item k) = k.
Proof. revert a; induction k; intros; cbn; auto. Qed.

Lemma length_carve base item k : length (carve base item k) = k.
Proof. unfold carve. rewrite rev_append_rev, app_nil_r, rev_length. apply length_objs_up. Qed.

(* the first object handed out is the last one carved *)
Lemma carve_head base item k : carve base item (S k) = (base + N.of_nat k * item) :: carve base item k.
Proof.
  unfold carve. rewrite !rev_append_rev, !app_nil_r.
  revert base; induction k as [|k IH]; intros base.
  - cbn. f_equal. lia.
  - change (objs_up base item (S (S k))) with (base :: objs_up (base + item) item (S k)).
    cbn [rev]. rewrite IH. cbn [objs_up rev]. cbn [app]. f_equal. lia.
Qed.

(* ---------- state-independent facts about step (C02, C03 quick facts) ---------- *)
Lemma realloc_null_is_alloc c s n e : step c s (Realloc 0 n e) = step c s (Alloc n e).
Proof. reflexivity. Qed.

Lemma free_null_identity c s : step c s (Free 0) = (s, RUnit, []).
Proof. reflexivity. Qed.

Lemma dealloc_null_identity c s n : step c s (Dealloc 0 n) = (s, RUnit, []).
Proof. reflexivity. Qed.

Lemma realloc_zero_is_free c s p e : p <> 0 ->
  st_of (step c s (Realloc p 0 e)) = st_of (step c s (Free p))
  /\ cbs_of (step c s (Realloc p 0 e)) = cbs_of (step c s (Free p))
  /\ (res_of (step c s (Free p)) = RUnit -> res_of (step c s (Realloc p 0 e)) = RNull).
Proof.
  intros Hp. cbn [step]. unfold realloc. apply N.eqb_neq in Hp. rewrite Hp. cbn [N.eqb].
  destruct (free_ c s p None) as [[s' r] cbs]. cbn. repeat split. intros ->. reflexivity.
Qed.
