(* C02: realloc semantics on the contents log, and the per-class footprint bound. *)
From Coq Require Import List NArith Bool Lia ZifyBool ZifyNat ZifyN.
From FV Require Import Slab.SlabModel Slab.SlabArith Slab.SlabBasics Slab.SlabFail Slab.SlabInv
  Slab.SlabInvAlloc Slab.SlabInvFree Slab.SlabInvStep Slab.SlabC01.
Import ListNotations.
Local Open Scope N_scope.

(* ---------- contents ---------- *)
Lemma byte_at_clip n log i : byte_at (clip_log n log) i = if i <? n then byte_at log i else None.
Proof.
  induction log as [|[[off len] tag] r IH]; cbn [clip_log byte_at]; [destruct (i <? n); reflexivity|].
  destruct (off <? n) eqn:E.
  - cbn [byte_at]. rewrite IH. apply N.ltb_lt in E.
    destruct (i <? n) eqn:Hi.
    + apply N.ltb_lt in Hi.
      assert (Q : ((off <=? i) && (i <? off + N.min len (n - off))) = ((off <=? i) && (i <? off + len))).
      { destruct (off <=? i) eqn:A; [|reflexivity]. cbn. apply N.leb_le in A.
        destruct (i <? off + len) eqn:B; [apply N.ltb_lt in B; apply N.ltb_lt; lia|apply N.ltb_ge in B; apply N.ltb_ge; lia]. }
      rewrite Q. reflexivity.
    + apply N.ltb_ge in Hi.
      assert (Q : ((off <=? i) && (i <? off + N.min len (n - off))) = false).
      { destruct (off <=? i) eqn:A; [|reflexivity]. cbn. apply N.ltb_ge. lia. }
      rewrite Q. reflexivity.
  - rewrite IH. apply N.ltb_ge in E. destruct (i <? n) eqn:Hi; [|reflexivity].
    apply N.ltb_lt in Hi. assert (Q : (off <=? i) = false) by (apply N.leb_gt; lia). rewrite Q. reflexivity.
Qed.

Lemma upd_blk_head p f b l : bk_p b = p -> upd_blk p f (b :: l) = f b :: l.
Proof. intros H. cbn. apply N.eqb_eq in H. rewrite H. reflexivity. Qed.

Lemma remove_blk_head_ne p b l : bk_p b <> p -> remove_blk p (b :: l) = b :: remove_blk p l.
Proof. intros H. cbn. apply N.eqb_neq in H. rewrite H. reflexivity. Qed.

(* ---------- realloc ---------- *)
Section Realloc.
Variable c : cfg.
Hypothesis F : cfg_facts c.
Variables (k : N) (s : state).
Hypothesis I : Inv c k s.
Hypothesis Hk : k + 1 < 4294967296.

Lemma realloc_spec p n e b :
  find_blk p (live s) = Some b -> n <> 0 ->
  (forall len, map_len c s (Realloc p n e) = Some len -> env_fresh c s len e) ->
  let x := realloc c s p n e in
  (n <= bk_size0 b ->
     res_of x = RPtr p /\
     live (st_of x) = upd_blk p (fun b0 => mkBlk (bk_p b0) n (bk_size0 b0) n (clip_log n (bk_log b0))) (live s)
     /\ slabs (st_of x) = slabs s /\ larges (st_of x) = larges s /\ partial (st_of x) = partial s /\ used (st_of x) = used s)
  /\ (bk_size0 b < n ->
      (res_of x = RNull /\ st_of x = s /\ env_ret e = 0)
      \/ exists q sz unp, res_of x = RPtr q /\ q <> p /\
           live (st_of x) = mkBlk q n sz unp (bk_log b) :: remove_blk p (live s)).
Proof.
  intros Hfind Hn Henv. destruct (find_blk_some _ _ _ Hfind) as [Hb Hbp].
  assert (Hp : p <> 0) by (rewrite <- Hbp; apply (live_nonzero c F k s I b Hb)).
  cbn [map_len] in Henv. unfold realloc.
  pose proof Hp as Hp'. apply N.eqb_neq in Hp'. rewrite Hp' in *.
  pose proof Hn as Hn'. apply N.eqb_neq in Hn'. rewrite Hn' in *. rewrite Hfind.
  rewrite (get_size_lookup c s p Hp) in Henv. cbv zeta.
  assert (G : forall hdr fr cur, bk_size0 b = cur ->
             (forall len, (if n <=? cur then None else alloc_map_len c s n) = Some len -> env_fresh c s len e) ->
             let x := (if n <=? cur
                       then (set_req s p n, RPtr p, CAccess false fr hdr :: inplace_cbs c p cur n)
                       else
                         let '(s1, r, cbs) := alloc c s n e in
                         match r with
                         | RPtr q =>
                           let s2 := move_log s1 p q in
                           let '(s3, r3, cbs3) := free_ c s2 p None in
                           (s3, match r3 with RUnit => RPtr q | _ => r3 end,
                            CAccess false fr hdr :: cbs ++ pcb c [CUnpoisonExpand p cur]
                            ++ [CAccess false p cur; CAccess true q cur] ++ cbs3)
                         | _ => (s1, r, CAccess false fr hdr :: cbs)
                         end) in
             (n <= bk_size0 b ->
                res_of x = RPtr p /\
                live (st_of x) = upd_blk p (fun b0 => mkBlk (bk_p b0) n (bk_size0 b0) n (clip_log n (bk_log b0))) (live s)
                /\ slabs (st_of x) = slabs s /\ larges (st_of x) = larges s /\ partial (st_of x) = partial s /\ used (st_of x) = used s)
             /\ (bk_size0 b < n ->
                 (res_of x = RNull /\ st_of x = s /\ env_ret e = 0)
                 \/ exists q sz unp, res_of x = RPtr q /\ q <> p /\
                      live (st_of x) = mkBlk q n sz unp (bk_log b) :: remove_blk p (live s))).
  { intros hdr fr cur Hcur Henv'. rewrite Hcur. destruct (n <=? cur) eqn:Hle.
    - apply N.leb_le in Hle. cbn. split; [intros _; repeat split; reflexivity|intros; lia].
    - apply N.leb_gt in Hle. split; [intros; lia|]. intros _.
      destruct (alloc_inv c k s n e F I Henv') as [I1 [[R [S1 E0]]| (q & sz & unp & R & L1)]].
      + left. destruct (alloc c s n e) as [[s1 r] cbs]. cbn in *. subst r s1. cbn. auto.
      + right. destruct (alloc c s n e) as [[s1 r] cbs]. cbn in R, L1, I1. subst r. cbv zeta.
        assert (Hq : q <> p).
        { pose proof (I_live_nodup _ _ _ I1) as Hnd. unfold live_ptrs in Hnd. rewrite L1 in Hnd. cbn in Hnd.
          apply NoDup_cons_iff in Hnd. destruct Hnd as [Hni _]. intros Eq. apply Hni. rewrite Eq, <- Hbp. apply in_map. assumption. }
        assert (Hfind1 : find_blk p (live s1) = Some b).
        { rewrite L1. cbn. assert (Q : (q =? p) = false) by (apply N.eqb_neq; assumption). rewrite Q. exact Hfind. }
        assert (L2 : live (move_log s1 p q) = mkBlk q n sz unp (bk_log b) :: live s).
        { rewrite move_log_eq, Hfind1. unfold with_live. cbn [live]. rewrite L1. rewrite upd_blk_head by reflexivity. reflexivity. }
        destruct (move_log_inv c (k + 1) s1 p q I1) as [I2 LP].
        assert (Hl2 : is_live (move_log s1 p q) p = true).
        { apply is_live_iff; [apply (I_live_nodup _ _ _ I2)|]. rewrite LP. unfold live_ptrs. rewrite L1. cbn. right.
          rewrite <- Hbp. apply in_map. assumption. }
        destruct (free_inv c (k + 1) (move_log s1 p q) p None F I2 Hl2 Logic.I) as (I3 & R3 & L3).
        destruct (free_ c (move_log s1 p q) p None) as [[s3 r3] cbs3]. cbn in R3, L3 |- *. subst r3.
        exists q, sz, unp. split; [reflexivity|]. split; [assumption|].
        rewrite L3, L2. apply remove_blk_head_ne. cbn. assumption. }
  destruct (live_lookup c F k s I b Hb) as [(x & Hx & L & O & Z & R)| (x & Hx & L & E & Z & R)];
    rewrite Hbp in *; rewrite L in *.
  - rewrite (obj_contains c F _ _ x p (I_slab _ _ _ I x Hx) O). cbn [negb]. apply G; auto.
  - rewrite <- E, N.eqb_refl. cbn [negb]. apply G; auto.
Qed.

End Realloc.

(* ---------- footprint ---------- *)
Lemma footprint_of_inv c k s i : cfg_facts c -> Inv c k s -> i < nbuckets c ->
  cnum s i <= (peak_of s i + nobj c (b2s i) - 1) / nobj c (b2s i)
  /\ nlive_of s i <= peak_of s i
  /\ nlive_of s i + cfree s i = cnum s i * nobj c (b2s i).
Proof.
  intros F I Hi. destruct (I_foot _ _ _ I i Hi) as (E1 & E2 & E3).
  pose proof (nobj_ge2 c i F Hi) as P.
  split; [|split; assumption].
  apply N.div_le_lower_bound; [lia|]. lia.
Qed.

(* a new slab of class i is mapped only when every object of every slab of the class is handed out *)
Lemma map_only_when_full c k s i : Inv c k s -> i < nbuckets c -> bucket s i = [] -> cfree s i = 0.
Proof.
  intros I Hi Hb. unfold cfree.
  assert (Z : sumN (map (g_free i) (slabs s)) <= sumN (map (fun _ => 0) (slabs s))).
  { apply sumN_pointwise. intros y Hy. unfold g_free. destruct (sl_idx y =? i) eqn:E; [|lia].
    apply N.eqb_eq in E. destruct (sl_avail y) eqn:Ey; [cbn; lia|exfalso].
    destruct (I_partial _ _ _ I i Hi) as [_ M].
    assert (In (sl_frame y) (bucket s i)) as Hin by (apply M; exists y; repeat split; auto; congruence).
    rewrite Hb in Hin. exact Hin. }
  rewrite sumN_zero in Z. lia.
Qed.

(* ---------- history-level statements ---------- *)
Lemma hist_ok_last P c ops o : hist_ok P c (init c) (ops ++ [o]) = true -> P c (run c ops) o = true.
Proof.
  unfold run, run_from. generalize (init c). induction ops as [|o' l IH]; intros s0; cbn.
  - rewrite andb_true_r. auto.
  - intros H. apply andb_prop in H. apply IH. tauto.
Qed.

Definition contents (s : state) (p i : N) : option N :=
  match find_blk p (live s) with Some b => byte_at (bk_log b) i | None => None end.

Theorem C02_realloc_main :
  forall (c : cfg) (ops : list op) (p n : N) (e : env) (b : blk),
    cfg_ok c = true ->
    policy_ok c (ops ++ [Realloc p n e]) -> api_ok c (ops ++ [Realloc p n e]) ->
    let s := run c ops in
    let x := step c s (Realloc p n e) in
    find_blk p (live s) = Some b -> n <> 0 ->
    (n <= size_of c s p ->
       res_of x = RPtr p
       /\ (forall i, i < n -> contents (st_of x) p i = contents s p i)
       /\ (forall q, q <> p -> find_blk q (live (st_of x)) = find_blk q (live s))
       /\ mapped (st_of x) = mapped s /\ used (st_of x) = used s)
    /\ (size_of c s p < n ->
        (res_of x = RNull /\ st_of x = s /\ env_ret e = 0)
        \/ exists q, res_of x = RPtr q /\ q <> p
             /\ find_blk p (live (st_of x)) = None
             /\ (forall i, contents (st_of x) q i = contents s p i)
             /\ (forall q', q' <> p -> q' <> q -> find_blk q' (live (st_of x)) = find_blk q' (live s))).
Proof.
  intros c ops p n e b Hc Hp Ha s x Hfind Hn. pose proof (cfg_ok_facts c Hc) as F.
  destruct (prefix_inv c _ ops Hc Hp Ha ltac:(eexists; reflexivity)) as [I _]. fold s in I.
  assert (Hs' : 0 + 1 < 4294967296) by lia.
  pose proof (hist_ok_last _ c ops _ Hp) as Hpol. fold s in Hpol.
  destruct (find_blk_some _ _ _ Hfind) as [Hb Hbp].
  destruct (live_size c F _ s I b Hb) as [Z _]. rewrite Hbp in Z.
  destruct (realloc_spec c F _ s I Hs' p n e b Hfind Hn (policy_env_fresh c s _ e Hpol eq_refl)) as [A B].
  unfold x. cbn [step]. rewrite Z. split.
  - intros Hle. destruct (A Hle) as (R & L & S1 & S2 & S3 & S4). split; [exact R|].
    split; [|split; [|split]].
    + intros i Hi. unfold contents. rewrite L, Hfind.
      assert (Q : find_blk p (upd_blk p (fun b0 => mkBlk (bk_p b0) n (bk_size0 b0) n (clip_log n (bk_log b0))) (live s))
                  = Some (mkBlk (bk_p b) n (bk_size0 b) n (clip_log n (bk_log b)))).
      { clear - Hfind. induction (live s) as [|y r IH]; [discriminate|]. cbn in *.
        destruct (bk_p y =? p) eqn:E; [injection Hfind as ->; cbn; rewrite E; reflexivity|].
        cbn. rewrite E. apply IH. assumption. }
      rewrite Q. cbn [bk_log]. rewrite byte_at_clip. apply N.ltb_lt in Hi. rewrite Hi. reflexivity.
    + intros q Hq. rewrite L. clear - Hq. induction (live s) as [|y r IH]; [reflexivity|]. cbn.
      destruct (bk_p y =? p) eqn:E.
      * apply N.eqb_eq in E. cbn. rewrite E. assert (Q : (p =? q) = false) by (apply N.eqb_neq; congruence). rewrite Q. reflexivity.
      * cbn. destruct (bk_p y =? q); [reflexivity|apply IH].
    + unfold mapped. rewrite S1, S2. reflexivity.
    + exact S4.
  - intros Hlt. destruct (B Hlt) as [(R & S1 & E0)| (q & sz & unp & R & Hq & L)]; [left; auto|right].
    exists q. split; [exact R|]. split; [exact Hq|].
    assert (Hrm : forall q', q' <> p -> find_blk q' (remove_blk p (live s)) = find_blk q' (live s)).
    { intros q' Hq'. clear - Hq'. induction (live s) as [|y r IH]; [reflexivity|]. cbn.
      destruct (bk_p y =? p) eqn:E.
      - apply N.eqb_eq in E. assert (Q : (bk_p y =? q') = false) by (apply N.eqb_neq; congruence). rewrite Q. reflexivity.
      - cbn. destruct (bk_p y =? q'); [reflexivity|apply IH]. }
    split; [|split].
    + rewrite L. cbn. assert (Q : (q =? p) = false) by (apply N.eqb_neq; assumption). rewrite Q.
      destruct (find_blk p (remove_blk p (live s))) as [b1|] eqn:E1; [|reflexivity]. exfalso.
      destruct (find_blk_some _ _ _ E1) as [H1 H2].
      apply (remove_blk_notin p (live s) (I_live_nodup _ _ _ I) b1 H1 H2).
    + intros i. unfold contents. rewrite L, Hfind. cbn. rewrite N.eqb_refl. reflexivity.
    + intros q' H1 H2. rewrite L. cbn. assert (Q : (q =? q') = false) by (apply N.eqb_neq; congruence). rewrite Q.
      apply Hrm. assumption.
Qed.

Theorem C02_footprint_main :
  forall (c : cfg) (ops : list op),
    cfg_ok c = true -> policy_ok c ops -> api_ok c ops ->
    forall pre, prefix pre ops ->
    let s := run c pre in
    forall i, i < nbuckets c ->
      cnum s i <= (peak_of s i + nobj c (b2s i) - 1) / nobj c (b2s i)
      /\ nlive_of s i <= peak_of s i
      /\ nlive_of s i + cfree s i = cnum s i * nobj c (b2s i)
      /\ (bucket s i = [] -> cfree s i = 0).
Proof.
  intros c ops Hc Hp Ha pre Hpre s i Hi. pose proof (cfg_ok_facts c Hc) as F.
  destruct (prefix_inv c ops pre Hc Hp Ha Hpre) as [I _]. fold s in I.
  destruct (footprint_of_inv c _ s i F I Hi) as (A & B & C).
  repeat split; auto. intros Hb. apply (map_only_when_full c _ s i I Hi Hb).
Qed.

(* ---------- C04 in admissible histories: the failed call returns null (it cannot stop) ---------- *)
Theorem C04_null_main :
  forall (c : cfg) (ops : list op) (o : op) (len : N) (e : env),
    cfg_ok c = true -> policy_ok c (ops ++ [o]) -> api_ok c (ops ++ [o]) ->
    let s := run c ops in
    map_len c s o = Some len -> op_env o = Some e -> env_ret e = 0 ->
    st_of (step c s o) = s /\ res_of (step c s o) = RNull
    /\ policy_calls (cbs_of (step c s o)) = [CMap len (if aligned c then sb c else 0) 0].
Proof.
  intros c ops o len e Hc Hp Ha s Hm He E0. pose proof (cfg_ok_facts c Hc) as F.
  destruct (prefix_inv c _ ops Hc Hp Ha ltac:(eexists; reflexivity)) as [I _]. fold s in I.
  assert (Hs' : 0 + 1 < 4294967296) by lia.
  destruct (map_failure_transparent c s o len e Hc Hm He E0) as (A & B & C).
  destruct (step_inv c F _ s I Hs' o (hist_ok_last _ c ops o Hp) (hist_ok_last _ c ops o Ha)) as [_ NS].
  destruct B as [B|B]; [|congruence]. auto.
Qed.
