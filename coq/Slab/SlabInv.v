(* The representation invariant of the sequential slab pool and its geometric consequences. *)
From Coq Require Import List NArith Bool Lia ZifyBool ZifyNat ZifyN.
From FV Require Import Slab.SlabModel Slab.SlabArith Slab.SlabBasics.
Import ListNotations.
Local Open Scope N_scope.

(* ---------- what cfg_ok gives ---------- *)
Record cfg_facts (c : cfg) : Prop := {
  cf_page : exists k, page c = 2 ^ k;
  cf_sb : exists k, sb c = 2 ^ k;
  cf_slabsz_pos : 0 < slabsz c;
  cf_slabsz_page : slabsz c mod page c = 0;
  cf_slabsz_sb : slabsz c <= sb c;
  cf_hdrf_pos : 0 < hdr_frame c;
  cf_hdrf_page : hdr_frame c <= page c;
  cf_hdrs_pos : 0 < hdr_slab c;
  cf_nb_pos : 1 <= nbuckets c;
  cf_two : overhead c (max_bucket_size c) + 2 * max_bucket_size c <= slabsz c;
  cf_sb_bound : sb c <= 4611686018427387904;
  cf_slabsz_bound : slabsz c <= 17179869184
}.

Lemma cfg_ok_facts c : cfg_ok c = true -> cfg_facts c.
Proof.
  unfold cfg_ok. intros H.
  remember (is_pow2 (page c)) as pp eqn:Epp. remember (is_pow2 (sb c)) as ps eqn:Eps.
  repeat (apply andb_prop in H; let H2 := fresh "H" in destruct H as [H H2]).
  repeat match goal with
         | H : (_ <=? _) = true |- _ => apply N.leb_le in H
         | H : (_ <? _) = true |- _ => apply N.ltb_lt in H
         | H : (_ =? _) = true |- _ => apply N.eqb_eq in H
         end.
  subst pp ps. constructor; try assumption; apply is_pow2_spec; assumption.
Qed.

Lemma page_pos c : cfg_facts c -> 0 < page c.
Proof. intros F. destruct (cf_page c F) as [k ->]. apply pow2_pos. Qed.
Lemma sb_pos c : cfg_facts c -> 0 < sb c.
Proof. intros F. destruct (cf_sb c F) as [k ->]. apply pow2_pos. Qed.

Lemma page_le_slabsz c : cfg_facts c -> page c <= slabsz c.
Proof.
  intros F. pose proof (page_pos c F). pose proof (cf_slabsz_pos c F). pose proof (cf_slabsz_page c F) as M.
  pose proof (N.div_mod (slabsz c) (page c) ltac:(lia)) as E. rewrite M in E.
  remember (slabsz c / page c) as q. destruct (N.eq_dec q 0) as [->|Hq]; [lia|]. nia.
Qed.

Lemma pow2_le_divide a b : 2 ^ a <= 2 ^ b -> 2 ^ b mod 2 ^ a = 0.
Proof.
  intros H. assert (a <= b) by (apply (N.pow_le_mono_r_iff 2); [lia|assumption]).
  replace b with ((b - a) + a) by lia. rewrite N.pow_add_r. apply N.mod_mul. apply N.pow_nonzero. discriminate.
Qed.

Lemma mod_trans a m k : 0 < k -> 0 < m -> m mod k = 0 -> a mod m = 0 -> a mod k = 0.
Proof.
  intros Hk Hm H1 H2.
  apply N.mod_divide in H1; [|lia]. apply N.mod_divide in H2; [|lia]. apply N.mod_divide; [lia|].
  eapply N.divide_trans; eauto.
Qed.

Lemma page_divides_sb c : cfg_facts c -> sb c mod page c = 0.
Proof.
  intros F. pose proof (page_le_slabsz c F). pose proof (cf_slabsz_sb c F).
  destruct (cf_page c F) as [kp Ep], (cf_sb c F) as [ks Es]. rewrite Ep, Es in *. apply pow2_le_divide. lia.
Qed.

Lemma align_down_sb c a : cfg_facts c -> align_down a (sb c) = a / sb c * sb c.
Proof. intros F. destruct (cf_sb c F) as [k ->]. apply align_down_pow2. Qed.
Lemma align_up_sb c a : cfg_facts c -> align_up a (sb c) = (a + sb c - 1) / sb c * sb c.
Proof. intros F. destruct (cf_sb c F) as [k ->]. apply align_up_pow2. Qed.
Lemma align_up_page c a : cfg_facts c -> align_up a (page c) = (a + page c - 1) / page c * page c.
Proof. intros F. destruct (cf_page c F) as [k ->]. apply align_up_pow2. Qed.

(* every class has room for two objects *)
Lemma class_two_fit c i : cfg_facts c -> i < nbuckets c ->
  overhead c (b2s i) + 2 * b2s i <= slabsz c.
Proof.
  intros F Hi. pose proof (cf_two c F) as T. unfold max_bucket_size in T.
  destruct (N.eq_dec i (nbuckets c - 1)) as [->|Hne]; [exact T|].
  assert (Hlt : i + 1 <= nbuckets c - 1) by lia.
  pose proof (b2s_mono _ _ Hlt) as M. rewrite (b2s_pow (i + 1)) in M.
  replace (i + 1 + 3) with (1 + (i + 3)) in M by lia. rewrite N.pow_add_r in M. change (2 ^ 1) with 2 in M.
  rewrite <- b2s_pow in M.
  pose proof (overhead_spec c (b2s i) (b2s_pos i)) as (_ & O2 & _).
  pose proof (overhead_spec c (b2s (nbuckets c - 1)) (b2s_pos _)) as (O1 & _ & _).
  lia.
Qed.

Lemma nobj_ge2 c i : cfg_facts c -> i < nbuckets c -> 2 <= nobj c (b2s i).
Proof.
  intros F Hi. pose proof (class_two_fit c i F Hi). unfold nobj, payload.
  apply N.div_le_lower_bound; [pose proof (b2s_pos i); lia|]. lia.
Qed.

Lemma overhead_lt_slabsz c i : cfg_facts c -> i < nbuckets c -> overhead c (b2s i) < slabsz c.
Proof. intros F Hi. pose proof (class_two_fit c i F Hi). pose proof (b2s_pos i). lia. Qed.

Lemma nobj_lt32 c i : cfg_facts c -> nobj c (b2s i) < 4294967296.
Proof.
  intros F. pose proof (cf_slabsz_bound c F) as B. pose proof (b2s_ge8 i) as G. unfold nobj, payload.
  apply N.div_lt_upper_bound; [lia|]. nia.
Qed.

(* ---------- the invariant ---------- *)
Definition sl_key (x : slab) : N * (N * N) := (sl_frame x, sl_region x).
Definition lg_key (x : large) : N * (N * N) := (lg_frame x, lg_region x).
Definition frames (s : state) : list (N * (N * N)) := map sl_key (slabs s) ++ map lg_key (larges s).
Definition live_ptrs (s : state) : list N := map bk_p (live s).

(* p is the i-th object of slab x *)
Definition obj_of (c : cfg) (x : slab) (p : N) : Prop :=
  exists i, i < nobj c (sl_item x) /\ p = sl_addr c x + i * sl_item x.

Record slab_ok (c : cfg) (k : N) (lv : list N) (x : slab) : Prop := {
  so_idx : sl_idx x < nbuckets c;
  so_pos : 0 < sl_base x;
  so_al : sl_frame x mod sb c = 0;
  so_lo : sl_base x <= sl_frame x;
  so_hi : sl_frame x + slabsz c <= sl_base x + sl_res x;
  so_nodup : NoDup (sl_avail x);
  so_avail : forall a, In a (sl_avail x) -> obj_of c x a /\ ~ In a lv;
  so_nres : sl_nres x + N.of_nat (length (sl_avail x)) = nobj c (sl_item x)     (* [k] is not used any more *)
}.

Record large_ok (c : cfg) (x : large) : Prop := {
  lo_pos : 0 < lg_base x;
  lo_al : lg_frame x mod sb c = 0;
  lo_lo : lg_base x <= lg_frame x;
  lo_hi : lg_frame x + page c + lg_len x <= lg_base x + lg_res x;
  lo_len : 0 < lg_len x
}.

Definition blk_ok (c : cfg) (s : state) (b : blk) : Prop :=
  (exists x, In x (slabs s) /\ obj_of c x (bk_p b) /\ bk_size0 b = sl_item x /\ N.max (bk_req b) 1 <= sl_item x)
  \/ (exists x, In x (larges s) /\ bk_p b = lg_addr c x /\ bk_size0 b = lg_len x /\ N.max (bk_req b) 1 <= lg_len x).

Definition bucket_ok (s : state) (i : N) : Prop :=
  sorted (bucket s i) /\
  forall a, In a (bucket s i) <->
            exists x, In x (slabs s) /\ sl_frame x = a /\ sl_idx x = i /\ sl_avail x <> [].

(* page accounting and per-class footprint bookkeeping *)
Fixpoint sumN (l : list N) : N := match l with [] => 0 | a :: r => a + sumN r end.
Definition slab_pages (c : cfg) (x : slab) : N := (sl_len c x + page c) / page c.
Definition large_pages (c : cfg) (x : large) : N := (lg_len x + page c) / page c.
Definition pages (c : cfg) (s : state) : N :=
  sumN (map (slab_pages c) (slabs s)) + sumN (map (large_pages c) (larges s)).
Definition g_free (i : N) (x : slab) : N := if sl_idx x =? i then N.of_nat (length (sl_avail x)) else 0.
Definition g_cnt (i : N) (x : slab) : N := if sl_idx x =? i then 1 else 0.
Definition cfree (s : state) (i : N) : N := sumN (map (g_free i) (slabs s)).    (* free objects of class i *)
Definition cnum (s : state) (i : N) : N := sumN (map (g_cnt i) (slabs s)).      (* slabs ever mapped for class i *)
Definition nlive_of (s : state) (i : N) : N := nth (N.to_nat i) (nlive s) 0.
Definition peak_of (s : state) (i : N) : N := nth (N.to_nat i) (peak s) 0.
Definition foot_ok (c : cfg) (s : state) (i : N) : Prop :=
  nlive_of s i + cfree s i = cnum s i * nobj c (b2s i)
  /\ nlive_of s i <= peak_of s i
  /\ cnum s i * nobj c (b2s i) < peak_of s i + nobj c (b2s i).

Record Inv (c : cfg) (k : N) (s : state) : Prop := {
  I_len : length (partial s) = N.to_nat (nbuckets c);
  I_frames : NoDup (map sl_frame (slabs s) ++ map lg_frame (larges s));
  I_slab : forall x, In x (slabs s) -> slab_ok c k (live_ptrs s) x;
  I_large : forall x, In x (larges s) -> large_ok c x;
  I_disj : forall f1 r1 f2 r2, In (f1, r1) (frames s) -> In (f2, r2) (frames s) -> f1 <> f2 -> rdisj r1 r2 = true;
  I_live_nodup : NoDup (live_ptrs s);
  I_live : forall b, In b (live s) -> blk_ok c s b;
  I_partial : forall i, i < nbuckets c -> bucket_ok s i;
  I_large_live : forall x, In x (larges s) -> In (lg_addr c x) (live_ptrs s);
  I_used : used s = pages c s;
  I_cnt_len : length (nlive s) = N.to_nat (nbuckets c) /\ length (peak s) = N.to_nat (nbuckets c);
  I_foot : forall i, i < nbuckets c -> foot_ok c s i
}.

(* ---------- sums over the slab list ---------- *)
Lemma sumN_app l1 l2 : sumN (l1 ++ l2) = sumN l1 + sumN l2.
Proof. induction l1 as [|a l1 IH]; cbn; [reflexivity|]. rewrite IH. lia. Qed.

Lemma sumN_upd_slab (g : slab -> N) a x x' l :
  NoDup (map sl_frame l) -> In x l -> sl_frame x = a ->
  sumN (map g (upd_slab a (fun _ => x') l)) + g x = sumN (map g l) + g x'.
Proof.
  induction l as [|y r IH]; cbn; [intros _ []|].
  intros Hnd [-> |Hx] Ha.
  - apply N.eqb_eq in Ha. rewrite Ha. cbn. lia.
  - inversion Hnd as [|? ? Hni Hnd']; subst.
    destruct (sl_frame y =? sl_frame x) eqn:E.
    + apply N.eqb_eq in E. exfalso. apply Hni. rewrite E. apply in_map. assumption.
    + cbn. specialize (IH Hnd' Hx eq_refl). lia.
Qed.

Lemma sumN_remove_large (g : large -> N) x l :
  NoDup (map lg_frame l) -> In x l ->
  sumN (map g (remove_large (lg_frame x) l)) + g x = sumN (map g l).
Proof.
  induction l as [|y r IH]; cbn; [intros _ []|].
  intros Hnd [-> |Hx].
  - rewrite N.eqb_refl. lia.
  - inversion Hnd as [|? ? Hni Hnd']; subst.
    destruct (lg_frame y =? lg_frame x) eqn:E.
    + apply N.eqb_eq in E. exfalso. apply Hni. rewrite E. apply in_map. assumption.
    + cbn. specialize (IH Hnd' Hx). lia.
Qed.

Lemma sumN_pointwise {A} (g h : A -> N) l : (forall y, In y l -> g y <= h y) -> sumN (map g l) <= sumN (map h l).
Proof.
  induction l as [|y r IH]; cbn; [lia|]. intros H. specialize (IH (fun z Hz => H z (or_intror Hz))).
  specialize (H y (or_introl eq_refl)). lia.
Qed.

Lemma sumN_scale {A} (g : A -> N) m l : sumN (map (fun y => g y * m) l) = sumN (map g l) * m.
Proof. induction l as [|y r IH]; cbn; [reflexivity|]. rewrite IH. lia. Qed.

Lemma sumN_ext {A} (g h : A -> N) l : (forall y, In y l -> g y = h y) -> sumN (map g l) = sumN (map h l).
Proof.
  induction l as [|y r IH]; cbn; [reflexivity|]. intros H. rewrite IH, (H y); auto.
Qed.

(* ---------- geometry of one slab / one large frame ---------- *)
Section Geometry.
Variable c : cfg.
Hypothesis F : cfg_facts c.

Lemma obj_bounds k lv x p : slab_ok c k lv x -> obj_of c x p ->
  sl_frame x + hdr_slab c <= sl_addr c x /\ sl_addr c x <= p /\ p + sl_item x <= sl_frame x + slabsz c
  /\ p mod sl_item x = 0.
Proof.
  intros S (i & Hi & ->). unfold sl_addr, sl_item in *.
  pose proof (b2s_pos (sl_idx x)) as Ip.
  pose proof (overhead_spec c (b2s (sl_idx x)) Ip) as (O1 & O2 & O3).
  pose proof (overhead_lt_slabsz c (sl_idx x) F (so_idx _ _ _ _ S)) as O4.
  pose proof (nobj_spec c (b2s (sl_idx x)) Ip) as Nb. unfold payload in *.
  assert (M : (i + 1) * b2s (sl_idx x) <= nobj c (b2s (sl_idx x)) * b2s (sl_idx x)) by (apply N.mul_le_mono_r; lia).
  split; [lia|]. split; [lia|]. split; [lia|].
  (* alignment: frame is a multiple of sb, sb a multiple of item, ovh a multiple of item *)
  assert (Hsb : sb c mod b2s (sl_idx x) = 0).
  { destruct (cf_sb c F) as [ks Es]. rewrite Es, b2s_pow. apply pow2_le_divide. rewrite <- Es, <- b2s_pow.
    pose proof (cf_slabsz_sb c F). lia. }
  assert (Hfr : sl_frame x mod b2s (sl_idx x) = 0).
  { apply (mod_trans _ (sb c)); [assumption|apply (sb_pos c F)|assumption|apply (so_al _ _ _ _ S)]. }
  apply N.mod_divide; [lia|]. apply N.mod_divide in Hfr; [|lia]. apply N.mod_divide in O3; [|lia].
  apply N.divide_add_r; [apply N.divide_add_r; assumption|]. apply N.divide_factor_r.
Qed.

Lemma obj_contains k lv x p : slab_ok c k lv x -> obj_of c x p -> sl_contains c x p = true.
Proof.
  intros S O. pose proof (obj_bounds k lv x p S O) as (B1 & B2 & B3 & _).
  unfold sl_contains, sl_len, payload. pose proof (b2s_pos (sl_idx x)).
  pose proof (overhead_lt_slabsz c (sl_idx x) F (so_idx _ _ _ _ S)).
  unfold sl_addr, sl_item in *. apply andb_true_intro. split; [apply N.leb_le; lia|apply N.ltb_lt; lia].
Qed.

(* the frame lookup arithmetic finds the slab header from any of its objects *)
Lemma obj_frame k lv x p : slab_ok c k lv x -> obj_of c x p -> align_down (p - 1) (sb c) = sl_frame x.
Proof.
  intros S O. pose proof (obj_bounds k lv x p S O) as (B1 & B2 & B3 & _).
  rewrite (align_down_sb c _ F). apply lookup_arith.
  - apply (sb_pos c F).
  - apply (so_al _ _ _ _ S).
  - pose proof (cf_hdrs_pos c F). lia.
  - pose proof (cf_slabsz_sb c F). pose proof (b2s_pos (sl_idx x)). unfold sl_item in *. lia.
Qed.

Lemma large_frame x : large_ok c x -> align_down (lg_addr c x - 1) (sb c) = lg_frame x.
Proof.
  intros L. rewrite (align_down_sb c _ F). unfold lg_addr. apply lookup_arith.
  - apply (sb_pos c F).
  - apply (lo_al _ _ L).
  - pose proof (page_pos c F). lia.
  - pose proof (page_le_slabsz c F). pose proof (cf_slabsz_sb c F). lia.
Qed.

Lemma obj_in_region k lv x p : slab_ok c k lv x -> obj_of c x p ->
  sl_base x <= p /\ p + sl_item x <= sl_base x + sl_res x /\ sl_frame x + hdr_slab c <= p.
Proof.
  intros S O. pose proof (obj_bounds k lv x p S O) as (B1 & B2 & B3 & _).
  pose proof (so_lo _ _ _ _ S). pose proof (so_hi _ _ _ _ S). lia.
Qed.

Lemma frame_pos_slab k lv x : slab_ok c k lv x -> 0 < sl_frame x.
Proof. intros S. pose proof (so_pos _ _ _ _ S). pose proof (so_lo _ _ _ _ S). lia. Qed.

End Geometry.

(* ---------- consequences of the invariant ---------- *)
Section InvFacts.
Variable c : cfg.
Hypothesis F : cfg_facts c.
Variables (k : N) (s : state).
Hypothesis I : Inv c k s.

Lemma NoDup_app_l {A} (l1 l2 : list A) : NoDup (l1 ++ l2) -> NoDup l1.
Proof. induction l1 as [|a l1 IH]; cbn; [constructor|]. intros H. inversion H; subst. constructor; [rewrite in_app_iff in *; tauto|auto]. Qed.
Lemma NoDup_app_r {A} (l1 l2 : list A) : NoDup (l1 ++ l2) -> NoDup l2.
Proof. induction l1 as [|a l1 IH]; cbn; [auto|]. intros H. inversion H; auto. Qed.
Lemma NoDup_app_disj {A} (l1 l2 : list A) a : NoDup (l1 ++ l2) -> In a l1 -> In a l2 -> False.
Proof.
  induction l1 as [|b l1 IH]; cbn; [tauto|]. intros H [->|H1] H2; inversion H; subst.
  - apply H3. apply in_or_app. right. assumption.
  - eauto.
Qed.

Lemma slab_frames_nodup : NoDup (map sl_frame (slabs s)).
Proof. eapply NoDup_app_l. apply (I_frames _ _ _ I). Qed.
Lemma large_frames_nodup : NoDup (map lg_frame (larges s)).
Proof. eapply NoDup_app_r. apply (I_frames _ _ _ I). Qed.

Lemma slab_by_frame x y : In x (slabs s) -> In y (slabs s) -> sl_frame x = sl_frame y -> x = y.
Proof.
  intros Hx Hy E. pose proof (find_slab_in (sl_frame x) _ x slab_frames_nodup Hx eq_refl) as A.
  pose proof (find_slab_in (sl_frame x) _ y slab_frames_nodup Hy (eq_sym E)) as B. congruence.
Qed.
Lemma large_by_frame x y : In x (larges s) -> In y (larges s) -> lg_frame x = lg_frame y -> x = y.
Proof.
  intros Hx Hy E. pose proof (find_large_in (lg_frame x) _ x large_frames_nodup Hx eq_refl) as A.
  pose proof (find_large_in (lg_frame x) _ y large_frames_nodup Hy (eq_sym E)) as B. congruence.
Qed.
Lemma slab_large_frames x y : In x (slabs s) -> In y (larges s) -> sl_frame x <> lg_frame y.
Proof.
  intros Hx Hy E. eapply (NoDup_app_disj _ _ (sl_frame x) (I_frames _ _ _ I)).
  - apply in_map. assumption.
  - rewrite E. apply in_map. assumption.
Qed.

Lemma lookup_obj x p : In x (slabs s) -> obj_of c x p -> lookup c s p = FSlab x.
Proof.
  intros Hx O. unfold lookup. rewrite (obj_frame c F _ _ x p (I_slab _ _ _ I x Hx) O).
  rewrite (find_slab_in (sl_frame x) _ x slab_frames_nodup Hx eq_refl). reflexivity.
Qed.

Lemma lookup_large x : In x (larges s) -> lookup c s (lg_addr c x) = FLarge x.
Proof.
  intros Hx. unfold lookup. rewrite (large_frame c F x (I_large _ _ _ I x Hx)).
  destruct (find_slab (lg_frame x) (slabs s)) eqn:E.
  - apply find_slab_some in E. destruct E as [E1 E2]. exfalso. eapply slab_large_frames; eauto.
  - rewrite (find_large_in (lg_frame x) _ x large_frames_nodup Hx eq_refl). reflexivity.
Qed.

(* a live block determines its frame *)
Lemma live_lookup b : In b (live s) ->
  (exists x, In x (slabs s) /\ lookup c s (bk_p b) = FSlab x /\ obj_of c x (bk_p b)
             /\ bk_size0 b = sl_item x /\ N.max (bk_req b) 1 <= sl_item x)
  \/ (exists x, In x (larges s) /\ lookup c s (bk_p b) = FLarge x /\ bk_p b = lg_addr c x
                /\ bk_size0 b = lg_len x /\ N.max (bk_req b) 1 <= lg_len x).
Proof.
  intros Hb. destruct (I_live _ _ _ I b Hb) as [(x & Hx & O & Z & R)|(x & Hx & E & Z & R)].
  - left. exists x. repeat split; auto. apply lookup_obj; assumption.
  - right. exists x. repeat split; auto. rewrite E. apply lookup_large; assumption.
Qed.

Lemma live_nonzero b : In b (live s) -> bk_p b <> 0.
Proof.
  intros Hb. destruct (I_live _ _ _ I b Hb) as [(x & Hx & O & _)|(x & Hx & E & _)].
  - pose proof (obj_bounds c F _ _ x _ (I_slab _ _ _ I x Hx) O) as (B1 & B2 & _).
    pose proof (cf_hdrs_pos c F). lia.
  - rewrite E. unfold lg_addr. pose proof (page_pos c F). lia.
Qed.

Lemma in_frames_slab x : In x (slabs s) -> In (sl_frame x, sl_region x) (frames s).
Proof. intros H. unfold frames. apply in_or_app. left. apply (in_map sl_key) in H. exact H. Qed.
Lemma in_frames_large x : In x (larges s) -> In (lg_frame x, lg_region x) (frames s).
Proof. intros H. unfold frames. apply in_or_app. right. apply (in_map lg_key) in H. exact H. Qed.

(* every frame address lies inside its own (nonempty) region *)
Lemma frame_in_region f r : In (f, r) (frames s) -> fst r <= f /\ f < fst r + snd r /\ 0 < fst r.
Proof.
  unfold frames. rewrite in_app_iff, !in_map_iff. intros [(x & E & Hx)|(x & E & Hx)]; injection E as <- <-; cbn.
  - pose proof (I_slab _ _ _ I x Hx) as S. pose proof (so_lo _ _ _ _ S). pose proof (so_hi _ _ _ _ S).
    pose proof (so_pos _ _ _ _ S). pose proof (cf_slabsz_pos c F). lia.
  - pose proof (I_large _ _ _ I x Hx) as L. pose proof (lo_lo _ _ L). pose proof (lo_hi _ _ L).
    pose proof (lo_pos _ _ L). pose proof (page_pos c F). lia.
Qed.

Lemma mapped_frames r : In r (mapped s) <-> exists f, In (f, r) (frames s).
Proof.
  unfold mapped, frames. rewrite in_app_iff, !in_map_iff. split.
  - intros [(x & <- & Hx)|(x & <- & Hx)].
    + exists (sl_frame x). apply in_or_app. left. apply in_map_iff. exists x. auto.
    + exists (lg_frame x). apply in_or_app. right. apply in_map_iff. exists x. auto.
  - intros (f & H). apply in_app_iff in H. rewrite !in_map_iff in H.
    destruct H as [(x & E & Hx)|(x & E & Hx)]; injection E as <- <-; [left|right]; exists x; auto.
Qed.

End InvFacts.
