(* C04: a failing map() leaves the state untouched (state EQUALITY, ghost state included). *)
From Coq Require Import List NArith Bool Lia ZifyBool ZifyNat ZifyN.
From FV Require Import Slab.SlabModel Slab.SlabArith.
Import ListNotations.
Local Open Scope N_scope.

Definition is_stop (r : result) : bool :=
  match r with RAssert _ | RUB _ => true | _ => false end.

Definition policy_calls (l : list callback) : list callback :=
  filter (fun cb => match cb with CAccess _ _ _ => false | _ => true end) l.

Lemma cfg_ok_nb c : cfg_ok c = true -> 1 <= nbuckets c.
Proof.
  unfold cfg_ok. intros H. repeat (apply andb_prop in H; destruct H as [H ?]).
  repeat match goal with H : (_ <=? _) = true |- _ => apply N.leb_le in H end. assumption.
Qed.

Lemma s2b_in_range c n : cfg_ok c = true -> 1 <= n -> n <= max_bucket_size c -> s2b n < nbuckets c.
Proof. intros Hc H1 H2. apply s2b_bound; [apply cfg_ok_nb; assumption|assumption|exact H2]. Qed.

Definition norm_req (n : N) : N := if n =? 0 then 1 else n.
Lemma norm_req_pos n : 1 <= norm_req n.
Proof. unfold norm_req. destruct (n =? 0) eqn:E; [lia|apply N.eqb_neq in E; lia]. Qed.

(* allocate with a failing map: nothing happens except the map call itself *)
Lemma alloc_fail c s n e len :
  cfg_ok c = true -> alloc_map_len c s n = Some len -> env_ret e = 0 ->
  alloc c s n e = (s, RNull, [map_call c len e]).
Proof.
  intros Hc Hm He. unfold alloc, alloc_map_len in *. fold (norm_req n) in *.
  destruct (norm_req n <=? max_bucket_size c) eqn:Hs.
  - apply N.leb_le in Hs.
    pose proof (s2b_in_range c _ Hc (norm_req_pos n) Hs) as Hb.
    assert (Hle : (s2b (norm_req n) <=? nbuckets c) = true) by (apply N.leb_le; lia).
    rewrite Hle. cbn [negb]. unfold alloc_small.
    destruct (bucket s (s2b (norm_req n))) eqn:Hbk; [|discriminate].
    injection Hm as <-. rewrite He. cbn. reflexivity.
  - injection Hm as <-. unfold alloc_large. rewrite He. cbn. reflexivity.
Qed.

Lemma alloc_needs_map_or_not c s n e :
  alloc_map_len c s n = None -> alloc c s n e = alloc c s n MapFail.
Proof.
  unfold alloc, alloc_map_len. fold (norm_req n).
  destruct (norm_req n <=? max_bucket_size c); [|discriminate].
  destruct (negb (s2b (norm_req n) <=? nbuckets c)); [reflexivity|].
  unfold alloc_small. destruct (bucket s (s2b (norm_req n))); [discriminate|reflexivity].
Qed.

Lemma get_size_lookup c s p : p <> 0 ->
  cur_size c s p = match lookup c s p with FSlab x => sl_item x | FLarge x => lg_len x | FNone => 0 end.
Proof.
  intros Hp. unfold cur_size, get_size_of. apply N.eqb_neq in Hp. rewrite Hp.
  destruct (lookup c s p); reflexivity.
Qed.

Ltac stop_case := cbn; split; [reflexivity|split; [right; reflexivity|intros X; discriminate X]].

Theorem map_failure_transparent c s o len e :
  cfg_ok c = true -> map_len c s o = Some len -> op_env o = Some e -> env_ret e = 0 ->
  st_of (step c s o) = s
  /\ (res_of (step c s o) = RNull \/ is_stop (res_of (step c s o)) = true)
  /\ (res_of (step c s o) = RNull ->
      policy_calls (cbs_of (step c s o)) = [CMap len (if aligned c then sb c else 0) 0]).
Proof.
  intros Hc Hm Ho He.
  destruct o as [n e'|p|p n|p n e'|p|p off l tag]; cbn in Ho; try discriminate; injection Ho as ->.
  - cbn [step map_len] in *. rewrite (alloc_fail c s n e len Hc Hm He). cbn.
    split; [reflexivity|]. split; [left; reflexivity|]. intros _. unfold map_call. rewrite He. reflexivity.
  - cbn [step map_len] in *. unfold realloc. cbv zeta.
    destruct (p =? 0) eqn:Hp.
    + rewrite (alloc_fail c s n e len Hc Hm He). cbn.
      split; [reflexivity|]. split; [left; reflexivity|]. intros _. unfold map_call. rewrite He. reflexivity.
    + destruct (n =? 0) eqn:Hn; [discriminate|].
      apply N.eqb_neq in Hp.
      destruct (n <=? cur_size c s p) eqn:Hcur; [discriminate|].
      rewrite (get_size_lookup c s p Hp) in Hcur.
      destruct (find_blk p (live s)); [|stop_case].
      destruct (lookup c s p) as [x|x|].
      * destruct (negb (sl_contains c x p)); [stop_case|].
        rewrite Hcur. rewrite (alloc_fail c s n e len Hc Hm He). cbn.
        split; [reflexivity|]. split; [left; reflexivity|]. intros _. unfold map_call. rewrite He. reflexivity.
      * destruct (negb (lg_addr c x =? p)); [stop_case|].
        rewrite Hcur. rewrite (alloc_fail c s n e len Hc Hm He). cbn.
        split; [reflexivity|]. split; [left; reflexivity|]. intros _. unfold map_call. rewrite He. reflexivity.
      * stop_case.
Qed.

(* "keeps working": the failed call can be deleted from the history *)
Corollary failed_op_is_invisible c s o len e rest :
  cfg_ok c = true -> map_len c s o = Some len -> op_env o = Some e -> env_ret e = 0 ->
  run_from c s (o :: rest) = run_from c s rest /\
  trace_from c s (o :: rest) = (res_of (step c s o), cbs_of (step c s o)) :: trace_from c s rest.
Proof.
  intros Hc Hm Ho He. destruct (map_failure_transparent c s o len e Hc Hm Ho He) as (Hs & _).
  split.
  - unfold run_from. cbn [fold_left]. rewrite Hs. reflexivity.
  - cbn [trace_from]. rewrite Hs. reflexivity.
Qed.

(* the env is irrelevant for ops that do not map *)
Lemma env_irrelevant_alloc c s n e1 e2 :
  alloc_map_len c s n = None -> alloc c s n e1 = alloc c s n e2.
Proof. intros H. rewrite (alloc_needs_map_or_not c s n e1 H), (alloc_needs_map_or_not c s n e2 H). reflexivity. Qed.
