(* Proofs about the functional core of the pairing-heap model: multiset laws, heap order,
   top is a maximum, unique ids, step/reference agreement.  (Link consistency: PairingLinks.v) *)
From Coq Require Import List NArith Bool Permutation Lia.
From FV Require Import Pairing.PairingModel Pairing.PairingSpec.
Import ListNotations.
Local Open Scope N_scope.

(* ------------------------------------------------------------------------------------------ *)
(* Permutation goals over [elt] are decided by counting                                        *)
(* ------------------------------------------------------------------------------------------ *)
Definition elt_dec : forall x y : elt, {x = y} + {x <> y}.
Proof. decide equality; apply N.eq_dec. Defined.

Definition one (x z : elt) : nat := count_occ elt_dec [x] z.
Lemma count_cons x l z : count_occ elt_dec (x :: l) z = (one x z + count_occ elt_dec l z)%nat.
Proof. unfold one. cbn [count_occ]. destruct (elt_dec x z); reflexivity. Qed.
Global Opaque one.

Ltac perm :=
  repeat match goal with H : Permutation _ _ |- _ => rewrite (Permutation_count_occ elt_dec) in H end;
  apply (Permutation_count_occ elt_dec);
  let z := fresh "z" in intro z;
  repeat match goal with H : forall _ : elt, count_occ _ _ _ = _ |- _ => specialize (H z) end;
  repeat rewrite ?count_occ_app, ?count_cons, ?count_occ_nil in *;
  lia.

(* two-at-a-time induction along a sibling chain (the recursion scheme of [pairs]) *)
Lemma ph_pair_ind (P : ph -> Prop) :
  P Nil -> (forall x c, P (Node x c Nil)) ->
  (forall x c y c' rest, P rest -> P (Node x c (Node y c' rest))) ->
  forall h, P h.
Proof.
  intros H0 H1 H2. fix IH 1.
  intros [|x c [|y c' rest]]; [exact H0 | apply H1 | apply H2, IH].
Qed.

Definition selems (st : list tree) : list elt := concat (map telems st).
Definition oelems (o : option tree) : list elt := match o with None => [] | Some t => telems t end.

Lemma N_eqb_sym a b : N.eqb a b = N.eqb b a.
Proof. destruct (N.eqb_spec a b), (N.eqb_spec b a); congruence. Qed.

(* ---- facts that do not involve the comparator ---- *)
Lemma member_In id h : member id h = true <-> In id (hids h).
Proof.
  unfold member. rewrite existsb_exists. split.
  - intros (y & Hy & E). apply N.eqb_eq in E. now subst.
  - intros H. exists id. split; [assumption | apply N.eqb_refl].
Qed.

Lemma perm_ids (l1 l2 : list elt) : Permutation l1 l2 -> Permutation (map snd l1) (map snd l2).
Proof. apply Permutation_map. Qed.

Lemma NoDup_perm_cons (x : elt) l l' :
  Permutation l (x :: l') -> NoDup (map snd l) -> NoDup (map snd l') /\ ~ In (snd x) (map snd l').
Proof.
  intros Hp Hn. apply perm_ids in Hp. apply (Permutation_NoDup Hp) in Hn.
  cbn [map] in Hn. inversion Hn; subst. tauto.
Qed.

Lemma nodup_same_id (m : list elt) x y :
  NoDup (map snd m) -> In x m -> In y m -> snd x = snd y -> x = y.
Proof.
  induction m as [|z m IH]; intros Hn Hx Hy E; [destruct Hx|].
  cbn [map] in Hn. inversion Hn; subst.
  destruct Hx as [->|Hx], Hy as [->|Hy]; auto.
  - exfalso. apply H1. rewrite E. now apply in_map.
  - exfalso. apply H1. rewrite <- E. now apply in_map.
Qed.

(* ------------------------------------------------------------------------------------------ *)
(* the reference's [extract]                                                                     *)
(* ------------------------------------------------------------------------------------------ *)
Lemma extract_Some f m y m' : extract f m = Some (y, m') -> f y = true /\ Permutation m (y :: m').
Proof.
  revert y m'. induction m as [|z m IH]; intros y m' H; cbn [extract] in H; [discriminate|].
  destruct (f z) eqn:E.
  - inversion H; subst. split; [assumption | apply Permutation_refl].
  - destruct (extract f m) as [[w r]|]; [|discriminate]. inversion H; subst.
    destruct (IH _ _ eq_refl) as [H1 H2]. split; [assumption|].
    rewrite H2. apply perm_swap.
Qed.

Lemma extract_None f m : extract f m = None -> forall y, In y m -> f y = false.
Proof.
  induction m as [|z m IH]; intros H y Hy; [destruct Hy|]. cbn [extract] in H.
  destruct (f z) eqn:E; [discriminate|].
  destruct (extract f m) as [[w r]|]; [discriminate|].
  destruct Hy as [<-|Hy]; auto.
Qed.

Lemma elt_eqb_eq a b : elt_eqb a b = true <-> a = b.
Proof.
  unfold elt_eqb. rewrite andb_true_iff, !N.eqb_eq. destruct a, b; cbn [fst snd].
  split; [intros [-> ->]; reflexivity | intros H; inversion H; auto].
Qed.

Section Proofs.
Variable cmp : elt -> elt -> bool.

(* ------------------------------------------------------------------------------------------ *)
(* multiset laws (no hypothesis on cmp)                                                        *)
(* ------------------------------------------------------------------------------------------ *)
Lemma merge_elems a b : Permutation (telems (merge cmp a b)) (telems a ++ telems b).
Proof.
  destruct a as [x ca], b as [y cb]. unfold merge.
  destruct (cmp x y); unfold telems; cbn [fst snd elems]; perm.
Qed.

Lemma pairs_elems h : forall st st' lo,
  pairs cmp h st = (st', lo) -> Permutation (selems st' ++ oelems lo) (selems st ++ elems h).
Proof.
  induction h as [|x c|x c y c' rest IHh] using ph_pair_ind; intros st st' lo Hp; cbn [pairs] in Hp.
  - inversion Hp; subst. cbn [oelems elems]. perm.
  - inversion Hp; subst. unfold oelems, telems. cbn [elems fst snd]. perm.
  - apply IHh in Hp. unfold selems in *. cbn [map concat] in Hp.
    pose proof (merge_elems (x, c) (y, c')) as Hm. unfold telems at 2 3 in Hm. cbn [fst snd] in Hm.
    cbn [elems]. perm.
Qed.

Lemma fold_merge_elems st : forall t,
  Permutation (telems (fold_left (merge cmp) st t)) (telems t ++ selems st).
Proof.
  induction st as [|p st IH]; intros t; cbn [fold_left].
  - unfold selems. cbn [map concat]. perm.
  - specialize (IH (merge cmp t p)). pose proof (merge_elems t p) as Hm.
    unfold selems in *. cbn [map concat]. perm.
Qed.

Lemma collapse_elems h : Permutation (helems (collapse cmp h)) (elems h).
Proof.
  unfold collapse. destruct (pairs cmp h []) as [st lo] eqn:Hp.
  apply pairs_elems in Hp. unfold selems in Hp at 2. cbn [map concat app] in Hp.
  destruct lo as [t|].
  - pose proof (fold_merge_elems st t). destruct st; cbn [helems oelems] in *; perm.
  - destruct st as [|p ps]; cbn [helems oelems] in *.
    + unfold selems in Hp. cbn [map concat app] in Hp. perm.
    + pose proof (fold_merge_elems ps p). unfold selems in *. cbn [map concat] in Hp. perm.
Qed.

Lemma collapse_None_iff h : collapse cmp h = None <-> h = Nil.
Proof.
  split.
  - intro H. pose proof (collapse_elems h) as Hp. rewrite H in Hp. cbn [helems] in Hp.
    apply Permutation_nil in Hp. destruct h; [reflexivity | discriminate].
  - intros ->. reflexivity.
Qed.

Lemma push_elems x h : Permutation (helems (push cmp x h)) (x :: helems h).
Proof.
  destruct h as [t|]; cbn [push helems].
  - pose proof (merge_elems t (x, Nil)) as Hm. unfold telems at 3 in Hm. cbn [fst snd elems] in Hm. perm.
  - unfold telems. cbn [fst snd elems]. perm.
Qed.

Lemma pop_elems t : Permutation (telems t) (fst t :: helems (pop_t cmp t)).
Proof.
  unfold pop_t, telems. pose proof (collapse_elems (snd t)). perm.
Qed.

Lemma cut_elems id h : forall h' ch,
  cut id h = Some (h', ch) ->
  exists x, snd x = id /\ Permutation (elems h) (x :: elems h' ++ elems ch).
Proof.
  induction h as [|x c IHc s IHs]; intros h' ch Hc; cbn [cut] in Hc; [discriminate|].
  destruct (N.eqb (snd x) id) eqn:E.
  - inversion Hc; subst. exists x. split; [now apply N.eqb_eq|]. cbn [elems]. perm.
  - destruct (cut id c) as [[c' ch']|] eqn:Ec.
    + inversion Hc; subst. destruct (IHc _ _ eq_refl) as (z & Hz & Hp).
      exists z. split; [exact Hz|]. cbn [elems]. perm.
    + destruct (cut id s) as [[s' ch']|] eqn:Es; [|discriminate].
      inversion Hc; subst. destruct (IHs _ _ eq_refl) as (z & Hz & Hp).
      exists z. split; [exact Hz|]. cbn [elems]. perm.
Qed.

Lemma cut_None id h : cut id h = None -> ~ In id (map snd (elems h)).
Proof.
  induction h as [|x c IHc s IHs]; intros Hc; cbn [cut] in Hc; [intros []|].
  destruct (N.eqb (snd x) id) eqn:E; [discriminate|].
  destruct (cut id c) as [[c' ch']|] eqn:Ec; [discriminate|].
  destruct (cut id s) as [[s' ch']|] eqn:Es; [discriminate|].
  cbn [elems map]. rewrite map_app. intros [H|H].
  - apply N.eqb_neq in E. contradiction.
  - apply in_app_or in H. destruct H; [apply IHc | apply IHs]; auto.
Qed.

Lemma remove_elems id t h' :
  remove_t cmp id t = Some h' ->
  exists x, snd x = id /\ Permutation (telems t) (x :: helems h').
Proof.
  destruct t as [x c]. unfold remove_t.
  destruct (N.eqb (snd x) id) eqn:E.
  - intros H. inversion H; subst. exists x. split; [now apply N.eqb_eq|].
    pose proof (collapse_elems c). unfold telems. cbn [fst snd]. perm.
  - destruct (cut id c) as [[c' ch]|] eqn:Ec; [|discriminate].
    intros H. inversion H; subst. clear H.
    destruct (cut_elems _ _ _ _ Ec) as (z & Hz & Hp). exists z. split; [exact Hz|].
    pose proof (collapse_elems ch) as Hc.
    destruct (collapse cmp ch) as [[y cb]|].
    + pose proof (merge_elems (x, c') (y, cb)) as Hm. unfold merge in Hm.
      cbn [helems] in *. destruct (cmp x y); unfold telems in *; cbn [fst snd elems] in *; perm.
    + cbn [helems] in *. unfold telems. cbn [fst snd]. perm.
Qed.

Lemma remove_None id t : remove_t cmp id t = None -> ~ In id (map snd (telems t)).
Proof.
  destruct t as [x c]. unfold remove_t.
  destruct (N.eqb (snd x) id) eqn:E; [discriminate|].
  destruct (cut id c) as [[c' ch]|] eqn:Ec; [discriminate|].
  intros _. unfold telems. cbn [fst snd map]. intros [H|H].
  - apply N.eqb_neq in E. contradiction.
  - exact (cut_None _ _ Ec H).
Qed.

(* ------------------------------------------------------------------------------------------ *)
(* heap order                                                                                   *)
(* ------------------------------------------------------------------------------------------ *)
Fixpoint below (p : elt) (h : ph) : Prop :=
  match h with Nil => True | Node y _ s => cmp p y = false /\ below p s end.
Fixpoint hord (h : ph) : Prop :=
  match h with Nil => True | Node x c s => below x c /\ hord c /\ hord s end.
Definition hord_t (t : tree) : Prop := below (fst t) (snd t) /\ hord (snd t).
Definition hord_h (h : heap) : Prop := match h with None => True | Some t => hord_t t end.

Lemma below_roots p h : below p h <-> forall y, In y (chain_roots h) -> cmp p y = false.
Proof.
  induction h as [|x c _ s IHs]; cbn [below chain_roots].
  - split; [intros _ y [] | auto].
  - rewrite IHs. split.
    + intros [H1 H2] y [<-|Hy]; auto.
    + intros H. split; [apply H; now left | intros y Hy; apply H; now right].
Qed.

Lemma hord_pairs h : hord h <-> forall p c, In (p, c) (parent_child h) -> cmp p c = false.
Proof.
  induction h as [|x c IHc s IHs]; cbn [hord parent_child].
  - split; [intros _ p c [] | auto].
  - rewrite IHc, IHs, below_roots. split.
    + intros (H1 & H2 & H3) p q Hin. apply in_app_or in Hin. destruct Hin as [Hin|Hin].
      * apply in_map_iff in Hin. destruct Hin as (y & Hy & Hin). inversion Hy; subst. auto.
      * apply in_app_or in Hin. destruct Hin; auto.
    + intros H. repeat split.
      * intros y Hy. apply H. apply in_or_app. left. apply in_map_iff. eauto.
      * intros p q Hin. apply H. apply in_or_app. right. apply in_or_app. now left.
      * intros p q Hin. apply H. apply in_or_app. right. apply in_or_app. now right.
Qed.

Lemma hord_h_ordered h : hord_h h <-> heap_ordered cmp h.
Proof.
  unfold heap_ordered. destruct h as [[x c]|]; cbn [hord_h to_ph].
  - rewrite <- hord_pairs. unfold hord_t. cbn [hord fst snd]. tauto.
  - cbn [parent_child]. split; [intros _ p c [] | auto].
Qed.

Section Asym.
Hypothesis cmp_asym : forall a b, cmp a b = true -> cmp b a = false.

Lemma cmp_irrefl a : cmp a a = false.
Proof. destruct (cmp a a) eqn:E; [now apply cmp_asym in E as E'; congruence | reflexivity]. Qed.

Lemma merge_hord a b : hord_t a -> hord_t b -> hord_t (merge cmp a b).
Proof.
  destruct a as [x ca], b as [y cb]. unfold hord_t, merge. cbn [fst snd].
  intros [Ha1 Ha2] [Hb1 Hb2]. destruct (cmp x y) eqn:E; cbn [fst snd below hord].
  - apply cmp_asym in E. tauto.
  - tauto.
Qed.

Lemma pairs_hord h : forall st st' lo,
  hord h -> Forall hord_t st -> pairs cmp h st = (st', lo) ->
  Forall hord_t st' /\ (forall t, lo = Some t -> hord_t t).
Proof.
  induction h as [|x c|x c y c' rest IHh] using ph_pair_ind; intros st st' lo Hh Hst Hp; cbn [pairs] in Hp.
  - inversion Hp; subst. split; [assumption | discriminate].
  - inversion Hp; subst. split; [assumption|]. intros t Ht. inversion Ht; subst.
    cbn [hord] in Hh. unfold hord_t. cbn [fst snd]. tauto.
  - cbn [hord] in Hh. destruct Hh as (Hx & Hc & Hy & Hc' & Hr).
    eapply IHh; [exact Hr | | exact Hp].
    constructor; [|assumption]. apply merge_hord; unfold hord_t; cbn [fst snd]; tauto.
Qed.

Lemma fold_merge_hord st : forall t, hord_t t -> Forall hord_t st -> hord_t (fold_left (merge cmp) st t).
Proof.
  induction st as [|p st IH]; intros t Ht Hst; cbn [fold_left]; [assumption|].
  inversion Hst; subst. apply IH; [apply merge_hord|]; assumption.
Qed.

Lemma collapse_hord h : hord h -> hord_h (collapse cmp h).
Proof.
  intros Hh. unfold collapse. destruct (pairs cmp h []) as [st lo] eqn:Hp.
  destruct (pairs_hord _ _ _ _ Hh (Forall_nil _) Hp) as [Hst Hlo].
  destruct lo as [t|].
  - destruct st; cbn [hord_h]; apply fold_merge_hord; auto.
  - destruct st as [|p ps]; cbn [hord_h]; [exact I|].
    inversion Hst; subst. apply fold_merge_hord; assumption.
Qed.

Lemma cut_below p id h : forall h' ch, below p h -> cut id h = Some (h', ch) -> below p h'.
Proof.
  induction h as [|x c IHc s IHs]; intros h' ch Hb Hc; cbn [cut] in Hc; [discriminate|].
  cbn [below] in Hb. destruct Hb as [Hb1 Hb2].
  destruct (N.eqb (snd x) id).
  - inversion Hc; subst. assumption.
  - destruct (cut id c) as [[c' ch']|] eqn:Ec.
    + inversion Hc; subst. cbn [below]. tauto.
    + destruct (cut id s) as [[s' ch']|] eqn:Es; [|discriminate].
      inversion Hc; subst. cbn [below]. split; [assumption|]. eapply IHs; eauto.
Qed.

Lemma cut_hord id h : forall h' ch, hord h -> cut id h = Some (h', ch) -> hord h' /\ hord ch.
Proof.
  induction h as [|x c IHc s IHs]; intros h' ch Hh Hc; cbn [cut] in Hc; [discriminate|].
  cbn [hord] in Hh. destruct Hh as (Hb & Hhc & Hhs).
  destruct (N.eqb (snd x) id).
  - inversion Hc; subst. tauto.
  - destruct (cut id c) as [[c' ch']|] eqn:Ec.
    + inversion Hc; subst. destruct (IHc _ _ Hhc eq_refl) as [H1 H2].
      cbn [hord]. pose proof (cut_below x _ _ _ _ Hb Ec). tauto.
    + destruct (cut id s) as [[s' ch']|] eqn:Es; [|discriminate].
      inversion Hc; subst. destruct (IHs _ _ Hhs eq_refl) as [H1 H2]. cbn [hord]. tauto.
Qed.

Lemma push_hord x h : hord_h h -> hord_h (push cmp x h).
Proof.
  destruct h as [t|]; cbn [push hord_h]; intros H.
  - apply merge_hord; [assumption|]. unfold hord_t. cbn. tauto.
  - unfold hord_t. cbn. tauto.
Qed.

Lemma pop_hord t : hord_t t -> hord_h (pop_t cmp t).
Proof. intros [_ H]. apply collapse_hord, H. Qed.

Lemma remove_hord id t h' : hord_t t -> remove_t cmp id t = Some h' -> hord_h h'.
Proof.
  destruct t as [x c]. unfold remove_t, hord_t. cbn [fst snd]. intros [Hb Hc].
  destruct (N.eqb (snd x) id).
  - intros H. inversion H; subst. apply collapse_hord, Hc.
  - destruct (cut id c) as [[c' ch]|] eqn:Ec; [|discriminate].
    intros H. inversion H; subst. clear H.
    destruct (cut_hord _ _ _ _ Hc Ec) as [Hc' Hch].
    pose proof (cut_below _ _ _ _ _ Hb Ec) as Hb'.
    pose proof (collapse_hord _ Hch) as Hcol.
    destruct (collapse cmp ch) as [t'|]; cbn [hord_h] in *.
    + apply (merge_hord (x, c') t'); [|assumption]. unfold hord_t. cbn [fst snd]. tauto.
    + unfold hord_t. cbn [fst snd]. tauto.
Qed.

Lemma step_hord h o h' : hord_h h -> step cmp h o = Ok h' -> hord_h h'.
Proof.
  intros Hh. destruct o as [x| |id]; cbn [step].
  - destruct (member (snd x) h); [destruct h as [[? []]|]; discriminate|].
    intros H. inversion H; subst. apply push_hord, Hh.
  - destruct h as [t|]; [|discriminate]. intros H. inversion H; subst. apply pop_hord, Hh.
  - destruct h as [t|]; [|discriminate].
    destruct (remove_t cmp id t) as [h1|] eqn:Er; [|discriminate].
    intros H. inversion H; subst. eapply remove_hord; eauto.
Qed.

(* ------------------------------------------------------------------------------------------ *)
(* the root is a maximum                                                                         *)
(* ------------------------------------------------------------------------------------------ *)
Hypothesis cmp_negtrans : forall a b c, cmp a b = false -> cmp b c = false -> cmp a c = false.

Lemma below_all h : forall p, below p h -> hord h -> forall y, In y (elems h) -> cmp p y = false.
Proof.
  induction h as [|x c IHc s IHs]; intros p Hb Hh y Hy; cbn [elems] in Hy; [destruct Hy|].
  cbn [below] in Hb. cbn [hord] in Hh. destruct Hb as [Hb1 Hb2]. destruct Hh as (Hx & Hc & Hs).
  destruct Hy as [<-|Hy]; [assumption|].
  apply in_app_or in Hy. destruct Hy as [Hy|Hy].
  - apply cmp_negtrans with x; [assumption|]. apply IHc; assumption.
  - apply IHs; assumption.
Qed.

Lemma root_max t : hord_t t -> forall y, In y (telems t) -> cmp (fst t) y = false.
Proof.
  intros [Hb Hh] y [<-|Hy]; [apply cmp_irrefl|]. eapply below_all; eauto.
Qed.

End Asym.

(* ------------------------------------------------------------------------------------------ *)
(* unique ids, membership                                                                        *)
(* ------------------------------------------------------------------------------------------ *)
Lemma step_nodup h o h' : NoDup (hids h) -> step cmp h o = Ok h' -> NoDup (hids h').
Proof.
  intros Hn. unfold hids in *. destruct o as [x| |id]; cbn [step].
  - destruct (member (snd x) h) eqn:Em; [destruct h as [[? []]|]; discriminate|].
    intros H. inversion H; subst.
    assert (~ In (snd x) (hids h)) as Hni by (rewrite <- member_In; congruence).
    pose proof (push_elems x h) as Hp. apply perm_ids in Hp. apply Permutation_sym in Hp.
    apply (Permutation_NoDup Hp). cbn [map]. constructor; assumption.
  - destruct h as [t|]; [|discriminate]. intros H. inversion H; subst.
    apply (NoDup_perm_cons _ _ _ (pop_elems t) Hn).
  - destruct h as [t|]; [|discriminate].
    destruct (remove_t cmp id t) as [h1|] eqn:Er; [|discriminate].
    intros H. inversion H; subst. destruct (remove_elems _ _ _ Er) as (z & _ & Hp).
    apply (NoDup_perm_cons _ _ _ Hp Hn).
Qed.

End Proofs.
