(* Proofs about the layout function: every hook field is what the pointer structure needs
   (backlink inverts child and sibling, the root alone has no backlink, links stay inside the
   heap, elements that are not contained have the all-null hook). *)
From Coq Require Import List NArith Bool Permutation Lia.
From FV Require Import Pairing.PairingModel Pairing.PairingSpec.
Import ListNotations.
Local Open Scope N_scope.

Lemma links_keys h : forall back, map fst (links back h) = map snd (elems h).
Proof.
  induction h as [|x c IHc s IHs]; intros back; cbn [links elems map]; [reflexivity|].
  rewrite !map_app, IHc, IHs. reflexivity.
Qed.

Lemma lookup_In id l k : lookup id l = Some k -> In (id, k) l.
Proof.
  induction l as [|[i k0] l IH]; cbn [lookup]; [discriminate|].
  destruct (N.eqb_spec i id); intros H.
  - inversion H; subst. now left.
  - right. auto.
Qed.

Lemma lookup_None id l : lookup id l = None -> ~ In id (map fst l).
Proof.
  induction l as [|[i k0] l IH]; cbn [lookup map fst]; [intros _ []|].
  destruct (N.eqb_spec i id); [discriminate|]. intros H [E|Hin]; [contradiction | now apply IH].
Qed.

Lemma In_lookup id l k : NoDup (map fst l) -> In (id, k) l -> lookup id l = Some k.
Proof.
  induction l as [|[i k0] l IH]; intros Hn Hin; [destruct Hin|].
  cbn [map fst] in Hn. inversion Hn; subst. cbn [lookup].
  destruct Hin as [E|Hin].
  - inversion E; subst. now rewrite N.eqb_refl.
  - destruct (N.eqb_spec i id); [|auto]. subst. exfalso. apply H1.
    change id with (fst (id, k)). now apply in_map.
Qed.

Lemma head_id_in h b : head_id h = Some b -> In b (map snd (elems h)).
Proof. destruct h; cbn; [discriminate|]. intros H. inversion H. now left. Qed.

Lemma NoDup_app_disj {A} (l1 l2 : list A) x : NoDup (l1 ++ l2) -> In x l1 -> In x l2 -> False.
Proof.
  induction l1 as [|y l1 IH]; intros Hn H1 H2; [destruct H1|].
  cbn in Hn. inversion Hn; subst. destruct H1 as [->|H1].
  - apply H3. apply in_or_app. now right.
  - now apply IH.
Qed.

Lemma NoDup_app_l {A} (l1 l2 : list A) : NoDup (l1 ++ l2) -> NoDup l1.
Proof.
  induction l1 as [|y l1 IH]; intros Hn; [constructor|]. cbn in Hn. inversion Hn; subst.
  constructor; [|auto]. intros H. apply H1. apply in_or_app. now left.
Qed.
Lemma NoDup_app_r {A} (l1 l2 : list A) : NoDup (l1 ++ l2) -> NoDup l2.
Proof. induction l1 as [|y l1 IH]; intros Hn; [assumption|]. cbn in Hn. inversion Hn; auto. Qed.

(* sibling of a = b  ->  backlink of b = a *)
Lemma links_sibling h : forall back a k b,
  In (a, k) (links back h) -> h_sibling k = Some b ->
  exists k', In (b, k') (links back h) /\ h_backlink k' = Some a.
Proof.
  induction h as [|x c IHc s IHs]; intros back a k b Hin Hs; cbn [links] in *; [destruct Hin|].
  destruct Hin as [E|Hin].
  - inversion E; subst. cbn [h_sibling] in Hs.
    destruct s as [|y c2 s2]; cbn [head_id] in Hs; [discriminate|]. inversion Hs; subst.
    eexists. split; [right; apply in_or_app; right; cbn [links]; left; reflexivity | reflexivity].
  - apply in_app_or in Hin. destruct Hin as [Hin|Hin].
    + destruct (IHc _ _ _ _ Hin Hs) as (k' & H1 & H2).
      exists k'. split; [right; apply in_or_app; now left | assumption].
    + destruct (IHs _ _ _ _ Hin Hs) as (k' & H1 & H2).
      exists k'. split; [right; apply in_or_app; now right | assumption].
Qed.

(* child of a = b  ->  backlink of b = a *)
Lemma links_child h : forall back a k b,
  In (a, k) (links back h) -> h_child k = Some b ->
  exists k', In (b, k') (links back h) /\ h_backlink k' = Some a.
Proof.
  induction h as [|x c IHc s IHs]; intros back a k b Hin Hs; cbn [links] in *; [destruct Hin|].
  destruct Hin as [E|Hin].
  - inversion E; subst. cbn [h_child] in Hs.
    destruct c as [|y c2 s2]; cbn [head_id] in Hs; [discriminate|]. inversion Hs; subst.
    eexists. split; [right; apply in_or_app; left; cbn [links]; left; reflexivity | reflexivity].
  - apply in_app_or in Hin. destruct Hin as [Hin|Hin].
    + destruct (IHc _ _ _ _ Hin Hs) as (k' & H1 & H2).
      exists k'. split; [right; apply in_or_app; now left | assumption].
    + destruct (IHs _ _ _ _ Hin Hs) as (k' & H1 & H2).
      exists k'. split; [right; apply in_or_app; now right | assumption].
Qed.

(* backlink of b = a  ->  b is the first node of the chain (and a is what was handed down), or
   a is in the structure and b is its child or its sibling *)
Lemma links_backlink h : forall back b k' a,
  In (b, k') (links back h) -> h_backlink k' = Some a ->
  (head_id h = Some b /\ back = Some a) \/
  exists k, In (a, k) (links back h) /\ (h_child k = Some b \/ h_sibling k = Some b).
Proof.
  induction h as [|x c IHc s IHs]; intros back b k' a Hin Hb; cbn [links] in *; [destruct Hin|].
  destruct Hin as [E|Hin].
  - inversion E; subst. cbn [h_backlink] in Hb. left. cbn [head_id]. auto.
  - right. apply in_app_or in Hin. destruct Hin as [Hin|Hin].
    + destruct (IHc _ _ _ _ Hin Hb) as [[H1 H2]|(k & H1 & H2)].
      * inversion H2; subst. eexists. split; [left; reflexivity|]. left. exact H1.
      * exists k. split; [right; apply in_or_app; now left | assumption].
    + destruct (IHs _ _ _ _ Hin Hb) as [[H1 H2]|(k & H1 & H2)].
      * inversion H2; subst. eexists. split; [left; reflexivity|]. right. exact H1.
      * exists k. split; [right; apply in_or_app; now right | assumption].
Qed.

(* only the first node of the outermost chain can have a null backlink *)
Lemma links_backlink_None h : forall back b k',
  In (b, k') (links back h) -> h_backlink k' = None -> back = None /\ head_id h = Some b.
Proof.
  induction h as [|x c IHc s IHs]; intros back b k' Hin Hb; cbn [links] in *; [destruct Hin|].
  destruct Hin as [E|Hin].
  - inversion E; subst. cbn [h_backlink] in Hb. cbn [head_id]. auto.
  - apply in_app_or in Hin. destruct Hin as [Hin|Hin].
    + destruct (IHc _ _ _ Hin Hb) as [H _]. discriminate.
    + destruct (IHs _ _ _ Hin Hb) as [H _]. discriminate.
Qed.

(* with unique ids: no self links, and child and sibling of a node differ *)
Lemma links_distinct h : forall back a k,
  NoDup (map snd (elems h)) -> In (a, k) (links back h) ->
  h_child k <> Some a /\ h_sibling k <> Some a /\
  (forall b, h_child k = Some b -> h_sibling k = Some b -> False).
Proof.
  induction h as [|x c IHc s IHs]; intros back a k Hn Hin; cbn [links] in *; [destruct Hin|].
  cbn [elems map] in Hn. rewrite map_app in Hn. inversion Hn as [|? ? Hx Hn']; subst.
  destruct Hin as [E|Hin].
  - inversion E; subst. cbn [h_child h_sibling]. repeat split.
    + intros H. apply head_id_in in H. apply Hx. apply in_or_app. now left.
    + intros H. apply head_id_in in H. apply Hx. apply in_or_app. now right.
    + intros b H1 H2. apply head_id_in in H1. apply head_id_in in H2.
      exact (NoDup_app_disj _ _ _ Hn' H1 H2).
  - apply in_app_or in Hin. destruct Hin as [Hin|Hin].
    + apply (IHc _ _ _ (NoDup_app_l _ _ Hn') Hin).
    + apply (IHs _ _ _ (NoDup_app_r _ _ Hn') Hin).
Qed.

Lemma elems_to_ph h : elems (to_ph h) = helems h.
Proof. destruct h as [[x c]|]; cbn; [now rewrite app_nil_r | reflexivity]. Qed.

Section Layout.
Variable h : heap.
Hypothesis Hn : NoDup (hids h).

Let L := links None (to_ph h).

Lemma L_keys : map fst L = hids h.
Proof. unfold L, hids. now rewrite links_keys, elems_to_ph. Qed.

Lemma L_nodup_elems : NoDup (map snd (elems (to_ph h))).
Proof. rewrite elems_to_ph. exact Hn. Qed.

Lemma in_lay a k : In (a, k) L -> layout h a = k.
Proof.
  intros Hin. unfold layout, layout_ph. fold L.
  rewrite (In_lookup a L k); [reflexivity | rewrite L_keys; exact Hn | exact Hin].
Qed.

Lemma lay_in a : In a (hids h) -> In (a, layout h a) L.
Proof.
  intros Hin. unfold layout, layout_ph. fold L.
  destruct (lookup a L) as [k|] eqn:E.
  - now apply lookup_In.
  - apply lookup_None in E. rewrite L_keys in E. contradiction.
Qed.

Lemma lay_null a : ~ In a (hids h) -> layout h a = null_hook.
Proof.
  intros Hni. unfold layout, layout_ph. fold L.
  destruct (lookup a L) as [k|] eqn:E; [|reflexivity].
  apply lookup_In in E. exfalso. apply Hni. rewrite <- L_keys.
  change a with (fst (a, k)). now apply in_map.
Qed.

Lemma lay_member a : layout h a <> null_hook -> In a (hids h).
Proof.
  intros Hne. destruct (in_dec N.eq_dec a (hids h)) as [Hi|Hi]; [assumption|].
  exfalso. apply Hne. now apply lay_null.
Qed.

Lemma field_member a b :
  h_child (layout h a) = Some b \/ h_backlink (layout h a) = Some b \/ h_sibling (layout h a) = Some b ->
  In a (hids h).
Proof.
  intros H. apply lay_member. intros E. rewrite E in H. cbn in H.
  destruct H as [H|[H|H]]; discriminate.
Qed.

Lemma lay_child a b : h_child (layout h a) = Some b -> h_backlink (layout h b) = Some a.
Proof.
  intros H. assert (In a (hids h)) as Ha by (eapply field_member; eauto).
  destruct (links_child _ _ _ _ _ (lay_in a Ha) H) as (k' & H1 & H2).
  now rewrite (in_lay _ _ H1).
Qed.

Lemma lay_sibling a b : h_sibling (layout h a) = Some b -> h_backlink (layout h b) = Some a.
Proof.
  intros H. assert (In a (hids h)) as Ha by (eapply field_member; eauto).
  destruct (links_sibling _ _ _ _ _ (lay_in a Ha) H) as (k' & H1 & H2).
  now rewrite (in_lay _ _ H1).
Qed.

Lemma lay_distinct a : In a (hids h) ->
  h_child (layout h a) <> Some a /\ h_sibling (layout h a) <> Some a /\
  (forall b, h_child (layout h a) = Some b -> h_sibling (layout h a) = Some b -> False).
Proof. intros Ha. exact (links_distinct _ _ _ _ L_nodup_elems (lay_in a Ha)). Qed.

Lemma lay_backlink a b : h_backlink (layout h b) = Some a ->
  In a (hids h) /\
  ((h_child (layout h a) = Some b /\ h_sibling (layout h a) <> Some b) \/
   (h_sibling (layout h a) = Some b /\ h_child (layout h a) <> Some b)).
Proof.
  intros H. assert (In b (hids h)) as Hb by (eapply field_member; eauto).
  destruct (links_backlink _ _ _ _ _ (lay_in b Hb) H) as [[_ H2]|(k & H1 & H2)]; [discriminate|].
  assert (In a (hids h)) as Ha.
  { rewrite <- L_keys. change a with (fst (a, k)). now apply in_map. }
  split; [exact Ha|].
  rewrite (in_lay _ _ H1). rewrite <- (in_lay _ _ H1) in H2 |- *.
  destruct (lay_distinct a Ha) as (_ & _ & Hd).
  destruct H2 as [H2|H2]; [left | right]; (split; [assumption|]); intros H3; eapply Hd; eauto.
Qed.

Lemma links_consistent_nodup : links_consistent h.
Proof.
  unfold links_consistent. repeat split.
  - (* root backlink *)
    destruct h as [[y c]|]; cbn [top option_map] in H; [|discriminate]. inversion H; subst. cbn [fst].
    unfold layout, layout_ph. cbn [to_ph links lookup]. now rewrite N.eqb_refl.
  - destruct h as [[y c]|]; cbn [top option_map] in H; [|discriminate]. inversion H; subst. cbn [fst].
    unfold layout, layout_ph. cbn [to_ph links lookup]. now rewrite N.eqb_refl.
  - (* only the root lacks a backlink *)
    intros a Ha Hb. destruct (links_backlink_None _ _ _ _ (lay_in a Ha) Hb) as [_ Hh].
    destruct h as [[y c]|]; cbn [to_ph head_id] in Hh; [|discriminate]. exact Hh.
  - intros a b. apply lay_child.
  - intros a b. apply lay_sibling.
  - intros a b H. apply (lay_backlink a b H).
  - destruct H as [H|[H|H]]; eapply field_member; eauto.
  - destruct H as [H|[H|H]].
    + apply lay_child in H. eapply field_member; eauto.
    + apply lay_backlink in H. tauto.
    + apply lay_sibling in H. eapply field_member; eauto.
  - intros ->. destruct H as [H|[H|H]].
    + assert (In b (hids h)) as Hb by (eapply field_member; eauto).
      destruct (lay_distinct b Hb) as (Hd & _). contradiction.
    + destruct (lay_backlink _ _ H) as [Hb [[H1 _]|[H1 _]]];
        destruct (lay_distinct b Hb) as (Hd1 & Hd2 & _); contradiction.
    + assert (In b (hids h)) as Hb by (eapply field_member; eauto).
      destruct (lay_distinct b Hb) as (_ & Hd & _). contradiction.
  - intros a. apply lay_null.
Qed.

End Layout.

(* ---- the layout determines the structure: two heaps (unique ids) whose root ids and hook fields
   agree for every id have the same child/sibling tree.  So comparing top() and all hook fields
   after every operation -- what the correspondence check does -- compares the whole model state. ---- *)
Lemma head_id_None h : head_id h = None -> h = Nil.
Proof. destruct h; [reflexivity | discriminate]. Qed.

Lemma shape_from_lookup (L1 L2 : list (N * hook)) :
  NoDup (map fst L1) -> NoDup (map fst L2) ->
  (forall id k1 k2, lookup id L1 = Some k1 -> lookup id L2 = Some k2 -> k1 = k2) ->
  forall c1 c2 b1 b2,
  incl (links b1 c1) L1 -> incl (links b2 c2) L2 -> head_id c1 = head_id c2 ->
  erase c1 = erase c2.
Proof.
  intros Hn1 Hn2 Hagree.
  induction c1 as [|x1 k1 IHk s1 IHs]; intros c2 b1 b2 Hi1 Hi2 Hh.
  - cbn [head_id] in Hh. symmetry in Hh. apply head_id_None in Hh. now subst.
  - destruct c2 as [|x2 k2 s2]; [discriminate|]. cbn [head_id] in Hh. inversion Hh as [Hid].
    cbn [links] in Hi1, Hi2.
    assert (In (snd x1, mk_hook (head_id k1) b1 (head_id s1)) L1) as E1 by (apply Hi1; now left).
    assert (In (snd x2, mk_hook (head_id k2) b2 (head_id s2)) L2) as E2 by (apply Hi2; now left).
    apply (In_lookup _ _ _ Hn1) in E1. apply (In_lookup _ _ _ Hn2) in E2. rewrite <- Hid in E2.
    pose proof (Hagree _ _ _ E1 E2) as Hk. inversion Hk as [[Hc Hb Hs]].
    cbn [erase]. rewrite Hid. f_equal.
    + apply (IHk k2 (Some (snd x1)) (Some (snd x2))); [| |exact Hc].
      * intros e He. apply Hi1. right. apply in_or_app. now left.
      * intros e He. apply Hi2. right. apply in_or_app. now left.
    + apply (IHs s2 (Some (snd x1)) (Some (snd x2))); [| |exact Hs].
      * intros e He. apply Hi1. right. apply in_or_app. now right.
      * intros e He. apply Hi2. right. apply in_or_app. now right.
Qed.

Theorem layout_faithful h1 h2 :
  NoDup (hids h1) -> NoDup (hids h2) ->
  option_map snd (top h1) = option_map snd (top h2) ->
  (forall id, layout h1 id = layout h2 id) ->
  erase (to_ph h1) = erase (to_ph h2).
Proof.
  intros Hn1 Hn2 Ht Hl.
  apply (shape_from_lookup (links None (to_ph h1)) (links None (to_ph h2))) with (b1 := None) (b2 := None).
  - rewrite L_keys. exact Hn1.
  - rewrite L_keys. exact Hn2.
  - intros id k1 k2 E1 E2. specialize (Hl id). unfold layout, layout_ph in Hl.
    rewrite E1, E2 in Hl. exact Hl.
  - apply incl_refl.
  - apply incl_refl.
  - destruct h1 as [[x1 c1]|], h2 as [[x2 c2]|]; cbn in Ht |- *; congruence.
Qed.
