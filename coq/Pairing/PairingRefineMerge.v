(* Refinement, part 2: _merge.  The two branches of _merge are the same code with the roles of a and b
   exchanged ([link_under]); its specification is a frame rule over [rep]. *)
From Coq Require Import List NArith Bool Permutation Lia.
From FV Require Import Pairing.PairingModel Pairing.PairingSpec Pairing.PairingProofs Pairing.PairingLinks
  Pairing.PairingPtr Pairing.PairingRefineBase.
Import ListNotations.
Local Open Scope N_scope.

(* evaluate reads of a memory built from single-field writes at ids known to be distinct *)
Ltac neq := solve [assumption | apply not_eq_sym; assumption | congruence].
Ltac ev :=
  repeat first
    [ rewrite set_child_same | rewrite set_backlink_same | rewrite set_sibling_same
    | rewrite set_child_other by neq | rewrite set_backlink_other by neq | rewrite set_sibling_other by neq ];
  cbn [h_child h_backlink h_sibling].

(* one branch of _merge: [a] becomes the first child of [b] *)
Definition link_under (f : hooks) (a b : N) : pres (hooks * N) :=
  let sibling := h_child (f b) in
  bind (match sibling with
        | Some s =>
          frg_assert (ptr_eqb (h_backlink (f s)) (Some b)) (
          POk (set_backlink f s (Some a)))
        | None => POk f
        end) (fun f =>
  let f := set_sibling f a sibling in
  let f := set_backlink f a (Some b) in
  let f := set_child f b (Some a) in
  POk (f, b)).

Lemma link_under_spec f x ca y cb :
  NoDup ((snd x :: ids ca) ++ snd y :: ids cb) ->
  rep f None (T (x, ca)) -> rep f None (T (y, cb)) ->
  exists f', link_under f (snd x) (snd y) = POk (f', snd y) /\
    rep f' None (T (y, Node x ca cb)) /\
    same_except ((snd x :: ids ca) ++ snd y :: ids cb) f f'.
Proof.
  unfold T. cbn [fst snd rep head_id].
  set (X := snd x). set (Y := snd y).
  intros Hn (HX & Hca & _) (HY & Hcb & _).
  apply NoDup_app_iff in Hn. destruct Hn as (Hn1 & Hn2 & Hd).
  inversion Hn1 as [|? ? HXca Hnca]; subst. inversion Hn2 as [|? ? HYcb Hncb]; subst.
  assert (X <> Y) as HXY by (intros E; apply (Hd X); [now left | left; now rewrite E]).
  assert (forall j, In j (ids ca) -> j <> X /\ j <> Y) as Dca.
  { intros j Hj. split; intros ->; [contradiction | apply (Hd Y); [now right | now left]]. }
  assert (forall j, In j (ids cb) -> j <> X /\ j <> Y) as Dcb.
  { intros j Hj. split; intros ->; [apply (Hd X); [now left | now right] | contradiction]. }
  unfold link_under. rewrite HY. cbn [h_child].
  destruct cb as [|z cz sz].
  - (* b has no child yet *)
    cbn [head_id bind].
    eexists. split; [reflexivity|]. split; [|].
    + repeat split.
      * ev. rewrite HY. reflexivity.
      * ev. rewrite HX. reflexivity.
      * apply (rep_ext ca f); [|assumption]. intros j Hj. destruct (Dca j Hj). now ev.
    + intros j Hj. rewrite in_app_iff in Hj. cbn [In] in Hj.
      assert (j <> X /\ j <> Y) as [? ?] by (split; intros ->; tauto). now ev.
  - (* the old first child z of b becomes the next sibling of a *)
    cbn [head_id]. cbn [rep head_id] in Hcb. destruct Hcb as (HZ & Hcz & Hsz).
    set (Z := snd z) in *. rewrite ids_node in *. fold Z in HYcb, Hncb, Dcb, Hd |- *.
    assert (Z <> X /\ Z <> Y) as [HZX HZY] by (apply Dcb; now left).
    inversion Hncb as [|? ? HZin Hncs]; subst.
    assert (forall j, In j (ids cz ++ ids sz) -> j <> X /\ j <> Y /\ j <> Z) as Dz.
    { intros j Hj. destruct (Dcb j (or_intror Hj)). repeat split; try assumption. intros ->. contradiction. }
    rewrite HZ. cbn [h_backlink]. rewrite ptr_eqb_refl. cbn [frg_assert bind].
    eexists. split; [reflexivity|]. split.
    + repeat split; fold Z.
      * ev. rewrite HY. reflexivity.
      * ev. rewrite HX. reflexivity.
      * apply (rep_ext ca f); [|assumption]. intros j Hj. destruct (Dca j Hj).
        assert (j <> Z) by (intros ->; apply (Hd Z); [now right | right; now left]). now ev.
      * ev. rewrite HZ. reflexivity.
      * apply (rep_ext cz f); [|assumption]. intros j Hj.
        destruct (Dz j) as (? & ? & ?); [apply in_or_app; now left|]. now ev.
      * apply (rep_ext sz f); [|assumption]. intros j Hj.
        destruct (Dz j) as (? & ? & ?); [apply in_or_app; now right|]. now ev.
    + intros j Hj. rewrite in_app_iff in Hj. cbn [In] in Hj.
      assert (j <> X /\ j <> Y /\ j <> Z) as (? & ? & ?) by (repeat split; intros ->; tauto). now ev.
Qed.

Section Merge.
Variable cmp : elt -> elt -> bool.

Lemma p_merge_unfold pr f a b :
  p_merge cmp pr f a b =
  frg_assert (is_null (h_backlink (f a)) && is_null (h_sibling (f a))) (
  frg_assert (is_null (h_backlink (f b)) && is_null (h_sibling (f b))) (
  if cmp (pr a, a) (pr b, b) then link_under f a b else link_under f b a)).
Proof. reflexivity. Qed.

(* _merge(a, b) on two detached trees held by the memory: the result is the layout of the functional
   merge; nothing outside the two trees is written *)
Lemma p_merge_spec pr f a b :
  NoDup (tids a ++ tids b) ->
  rep f None (T a) -> rep f None (T b) ->
  pr (tid a) = fst (fst a) -> pr (tid b) = fst (fst b) ->
  exists f', p_merge cmp pr f (tid a) (tid b) = POk (f', tid (merge cmp a b)) /\
    rep f' None (T (merge cmp a b)) /\
    same_except (tids a ++ tids b) f f'.
Proof.
  destruct a as [x ca], b as [y cb]. unfold tid. cbn [fst snd]. rewrite !tids_cons. unfold tid. cbn [fst snd].
  intros Hn Ha Hb Hpx Hpy.
  rewrite p_merge_unfold.
  pose proof Ha as Ha'. pose proof Hb as Hb'. unfold T in Ha', Hb'. cbn [fst snd rep head_id] in Ha', Hb'.
  destruct Ha' as (HX & _). destruct Hb' as (HY & _).
  rewrite HX, HY. cbn [h_backlink h_sibling is_null andb frg_assert].
  rewrite Hpx, Hpy, !elt_eta. unfold merge.
  destruct (cmp x y) eqn:E.
  - destruct (link_under_spec f x ca y cb Hn Ha Hb) as (f' & H1 & H2 & H3).
    exists f'. cbn [fst snd]. auto.
  - assert (NoDup ((snd y :: ids cb) ++ snd x :: ids ca)) as Hn'.
    { revert Hn. apply Permutation_NoDup. apply Permutation_app_comm. }
    destruct (link_under_spec f y cb x ca Hn' Hb Ha) as (f' & H1 & H2 & H3).
    exists f'. cbn [fst snd]. split; [assumption|]. split; [assumption|].
    eapply same_except_weaken; [|exact H3]. intros j Hj. apply in_app_or in Hj. apply in_or_app. tauto.
Qed.

(* which assertion stops _merge when an argument is not a detached root *)
Lemma p_merge_assert_b pr f a b :
  h_backlink (f b) <> None \/ h_sibling (f b) <> None -> p_merge cmp pr f a b = PAssertStop.
Proof.
  intros H. rewrite p_merge_unfold. unfold frg_assert.
  destruct (is_null (h_backlink (f a)) && is_null (h_sibling (f a))); [|reflexivity].
  destruct (h_backlink (f b)), (h_sibling (f b)); cbn; try reflexivity. destruct H; congruence.
Qed.

End Merge.
