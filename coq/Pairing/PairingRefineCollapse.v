(* Refinement, part 3: _collapse.  Loop invariants of the two passes:
   pass 1 (pairing): the memory holds (a) the not yet visited rest of the sibling chain, whose first
     node may carry a STALE backlink (it still points to its former predecessor, which has already
     been merged away) -- [exists bk, rep f bk rest] -- and (b) the stack of merged pairs, most recent
     first, each one a detached tree except that the backlink of its root is the root of the
     next older pair ([rep_stack]); [paired] is the root of the most recent pair.
   pass 2 (joining): the memory holds the detached tree [joined] and the remaining stack. *)
From Coq Require Import List NArith Bool Permutation Lia.
From FV Require Import Pairing.PairingModel Pairing.PairingSpec Pairing.PairingProofs Pairing.PairingLinks
  Pairing.PairingPtr Pairing.PairingRefineBase Pairing.PairingRefineMerge.
Import ListNotations.
Local Open Scope N_scope.

Definition stack_head (st : list tree) : option N :=
  match st with [] => None | t :: _ => Some (tid t) end.

(* the stack threaded through the backlink of the roots *)
Fixpoint rep_stack (f : hooks) (st : list tree) : Prop :=
  match st with
  | [] => True
  | t :: r => rep f (stack_head r) (T t) /\ rep_stack f r
  end.

Lemma selems_cons t st : selems (t :: st) = telems t ++ selems st.
Proof. reflexivity. Qed.

Lemma rep_stack_ext st : forall f g,
  (forall j, In j (map snd (selems st)) -> g j = f j) -> rep_stack f st -> rep_stack g st.
Proof.
  induction st as [|t st IH]; intros f g He Hr; [exact I|].
  cbn [rep_stack] in *. destruct Hr as [H1 H2]. rewrite selems_cons, map_app in He. split.
  - apply (rep_ext _ f); [|assumption]. intros j Hj. apply He. apply in_or_app. left. rewrite ids_T in Hj. exact Hj.
  - apply (IH f); [|assumption]. intros j Hj. apply He. apply in_or_app. now right.
Qed.

Lemma same_except_perm l l' f g : Permutation l l' -> same_except l f g -> same_except l' f g.
Proof. intros Hp. apply same_except_weaken. intros j Hj. eapply Permutation_in; eauto. Qed.

Lemma telems_T t : elems (T t) = telems t.
Proof. unfold T, telems. cbn [elems]. now rewrite app_nil_r. Qed.

Section Collapse.
Variable cmp : elt -> elt -> bool.

(* ---- pass 1 ---- *)
Lemma pair_spec pr : forall rest fuel f st bk,
  (length (elems rest) <= fuel)%nat ->
  NoDup (map snd (selems st ++ elems rest)) ->
  prio_ok pr (selems st ++ elems rest) ->
  rep f bk rest -> rep_stack f st ->
  exists f' st' lo,
    pairs cmp rest st = (st', lo) /\
    p_collapse_pair cmp pr fuel f (stack_head st) (head_id rest) = POk (f', stack_head st', option_map tid lo) /\
    rep_stack f' st' /\
    (forall t, lo = Some t -> exists bk', rep f' bk' (T t)) /\
    same_except (map snd (selems st ++ elems rest)) f f'.
Proof.
  induction rest as [|x c|x c y c' rest IH] using ph_pair_ind; intros fuel f st bk Hfuel Hn Hpr Hr Hst.
  - (* chain exhausted *)
    exists f, st, None. cbn [pairs head_id option_map].
    split; [reflexivity|]. split; [destruct fuel; reflexivity|]. split; [assumption|].
    split; [discriminate | apply same_except_refl].
  - (* a single element is left over *)
    exists f, st, (Some (x, c)). cbn [pairs head_id option_map]. cbn [rep head_id] in Hr.
    destruct Hr as (HX & Hc & _). split; [reflexivity|]. split; [|split; [assumption|split]].
    + unfold tid. cbn [fst snd]. destruct fuel; cbn [p_collapse_pair]; rewrite HX; reflexivity.
    + intros t Ht. inversion Ht; subst. exists bk. unfold T. cbn [fst snd rep head_id]. auto.
    + apply same_except_refl.
  - (* element x, partner y *)
    cbn [rep head_id] in Hr. destruct Hr as (HX & Hc & HY & Hc' & Hrest).
    set (X := snd x) in *. set (Y := snd y) in *.
    destruct fuel as [|fuel']; [cbn [elems length] in Hfuel; lia|].
    (* id bookkeeping *)
    assert (Permutation (selems st ++ elems (Node x c (Node y c' rest)))
                        ((telems (x, c) ++ telems (y, c')) ++ selems st ++ elems rest)) as Hperm.
    { unfold telems. cbn [elems fst snd]. perm. }
    pose proof (NoDup_ids_perm _ _ Hperm Hn) as Hn'.
    rewrite map_app in Hn'. apply NoDup_app_iff in Hn'. destruct Hn' as (Hnxy & Hnrest & Hdis).
    rewrite map_app in Hnxy. change (NoDup (tids (x, c) ++ tids (y, c'))) in Hnxy.
    assert (NoDup ((X :: ids c) ++ Y :: ids c')) as Hnxy' by exact Hnxy.
    apply NoDup_app_iff in Hnxy'. destruct Hnxy' as (Hnx & Hny & Hdxy).
    inversion Hnx as [|? ? HXc _]; subst. inversion Hny as [|? ? HYc' _]; subst.
    assert (X <> Y) as HXY by (intros E; apply (Hdxy X); [now left | left; now rewrite E]).
    assert (forall j, In j (ids c) -> j <> X /\ j <> Y) as Dc.
    { intros j Hj. split; intros ->; [contradiction | apply (Hdxy Y); [now right | now left]]. }
    assert (forall j, In j (ids c') -> j <> X /\ j <> Y) as Dc'.
    { intros j Hj. split; intros ->; [apply (Hdxy X); [now left | now right] | contradiction]. }
    set (l0 := map snd (telems (x, c) ++ telems (y, c'))) in *.
    assert (In X l0 /\ In Y l0) as [HXl0 HYl0].
    { unfold l0. rewrite map_app. split; apply in_or_app; [left | right]; now left. }
    (* run the loop body *)
    cbn [p_collapse_pair head_id]. fold X Y. rewrite HX. cbn [h_sibling]. rewrite HY. cbn [h_sibling].
    set (f2 := set_sibling (set_backlink f X None) X None).
    assert (h_backlink (f2 Y) = Some X) as E1 by (unfold f2; ev; now rewrite HY).
    rewrite E1, ptr_eqb_refl. cbn [frg_assert].
    set (f4 := set_sibling (set_backlink f2 Y None) Y None).
    assert (same_except l0 f f4) as Hs4.
    { unfold f4, f2. repeat (eapply same_except_trans; [|first [apply same_except_set_sibling | apply same_except_set_backlink]; assumption]).
      apply same_except_refl. }
    assert (rep f4 None (T (x, c))) as Hrx.
    { unfold T. cbn [fst snd rep head_id]. fold X. repeat split.
      - unfold f4, f2. ev. now rewrite HX.
      - apply (rep_ext c f); [|assumption]. intros j Hj. destruct (Dc j Hj). unfold f4, f2. now ev. }
    assert (rep f4 None (T (y, c'))) as Hry.
    { unfold T. cbn [fst snd rep head_id]. fold Y. repeat split.
      - unfold f4, f2. ev. now rewrite HY.
      - apply (rep_ext c' f); [|assumption]. intros j Hj. destruct (Dc' j Hj). unfold f4, f2. now ev. }
    assert (pr X = fst x /\ pr Y = fst y) as [HpX HpY].
    { split; apply Hpr; apply in_or_app; right; cbn [elems]; [now left|].
      right. apply in_or_app. right. now left. }
    destruct (p_merge_spec cmp pr f4 (x, c) (y, c') Hnxy Hrx Hry HpX HpY) as (f5 & Hm & Hr5 & Hs5).
    unfold tid in Hm at 1 2. cbn [fst snd] in Hm. fold X Y in Hm.
    rewrite Hm. cbn [bind].
    set (mt := merge cmp (x, c) (y, c')) in *.
    pose proof (merge_elems cmp (x, c) (y, c')) as Hme. fold mt in Hme.
    assert (Permutation (tids mt) l0) as Hpm by (unfold tids, l0; now apply Permutation_map).
    pose proof Hr5 as Hr5'. unfold T in Hr5'. cbn [rep head_id] in Hr5'. destruct Hr5' as (HM & _).
    fold (tid mt) in HM. rewrite HM. cbn [h_backlink is_null frg_assert].
    set (f6 := set_backlink f5 (tid mt) (stack_head st)).
    assert (In (tid mt) l0) as HMl0 by (apply (Permutation_in _ Hpm); rewrite tids_cons; now left).
    assert (same_except l0 f f6) as Hs6.
    { eapply same_except_trans; [exact Hs4|]. eapply same_except_trans.
      - unfold l0. rewrite map_app. exact Hs5.
      - apply same_except_set_backlink. assumption. }
    assert (rep f6 (stack_head st) (T mt)) as Hr6.
    { assert (NoDup (ids (T mt))) as HnT.
      { rewrite ids_T. apply Permutation_sym in Hpm. apply (Permutation_NoDup Hpm).
        unfold l0. now rewrite map_app. }
      pose proof (rep_rebase (T mt) f5 None (stack_head st) HnT Hr5) as H. exact H. }
    assert (rep_stack f6 st) as Hst6.
    { apply (rep_stack_ext st f); [|assumption]. intros j Hj. apply Hs6. intros Hin.
      apply (Hdis j Hin). rewrite map_app. apply in_or_app. now left. }
    assert (rep f6 (Some Y) rest) as Hrest6.
    { apply (rep_ext rest f); [|assumption]. intros j Hj. apply Hs6. intros Hin.
      apply (Hdis j Hin). rewrite map_app. apply in_or_app. now right. }
    assert (Permutation ((telems (x, c) ++ telems (y, c')) ++ selems st ++ elems rest)
                        (selems (mt :: st) ++ elems rest)) as Hperm2.
    { rewrite selems_cons. perm. }
    assert (length (elems rest) <= fuel')%nat as Hfuel'.
    { cbn [elems length] in Hfuel. rewrite !app_length in Hfuel. cbn [length] in Hfuel.
      rewrite !app_length in Hfuel. lia. }
    destruct (IH fuel' f6 (mt :: st) (Some Y) Hfuel'
                 (NoDup_ids_perm _ _ (perm_trans Hperm Hperm2) Hn)
                 (prio_ok_perm _ _ _ (perm_trans Hperm Hperm2) Hpr)
                 Hrest6 (conj Hr6 Hst6)) as (f' & st' & lo & Hp & Hrun & Hst' & Hlo & Hs').
    exists f', st', lo. cbn [pairs]. fold mt. split; [exact Hp|]. split; [|split; [exact Hst'|split; [exact Hlo|]]].
    + cbn [stack_head] in Hrun. exact Hrun.
    + eapply same_except_trans.
      * eapply same_except_weaken; [|exact Hs6]. intros j Hj.
        apply (Permutation_in _ (Permutation_sym (Permutation_map snd Hperm))).
        rewrite map_app. apply in_or_app. now left.
      * eapply same_except_perm; [|exact Hs'].
        apply Permutation_map. apply Permutation_sym. exact (perm_trans Hperm Hperm2).
Qed.

(* ---- pass 2 ---- *)
Lemma join_spec pr : forall st fuel f j,
  (length st <= fuel)%nat ->
  NoDup (map snd (telems j ++ selems st)) ->
  prio_ok pr (telems j ++ selems st) ->
  rep f None (T j) -> rep_stack f st ->
  exists f',
    p_collapse_join cmp pr fuel f (tid j) (stack_head st) = POk (f', tid (fold_left (merge cmp) st j)) /\
    rep f' None (T (fold_left (merge cmp) st j)) /\
    same_except (map snd (telems j ++ selems st)) f f'.
Proof.
  induction st as [|p st IH]; intros fuel f j Hfuel Hn Hpr Hj Hst.
  - exists f. cbn [stack_head fold_left]. split; [destruct fuel; reflexivity|].
    split; [assumption | apply same_except_refl].
  - destruct fuel as [|fuel']; [cbn [length] in Hfuel; lia|].
    cbn [rep_stack] in Hst. destruct Hst as [Hp Hst].
    cbn [p_collapse_join stack_head fold_left].
    pose proof Hp as Hp'. unfold T in Hp'. cbn [rep head_id] in Hp'. destruct Hp' as (HP & _).
    fold (tid p) in HP. set (P := tid p) in *.
    rewrite HP. cbn [h_backlink].
    set (f1 := set_backlink f P None).
    (* ids *)
    rewrite selems_cons in Hn, Hpr.
    assert (Permutation (telems j ++ telems p ++ selems st) ((telems j ++ telems p) ++ selems st)) as Hperm
      by (rewrite app_assoc; apply Permutation_refl).
    pose proof (NoDup_ids_perm _ _ Hperm Hn) as Hn'. rewrite map_app in Hn'.
    apply NoDup_app_iff in Hn'. destruct Hn' as (Hnjp & Hnst & Hdis).
    rewrite map_app in Hnjp. fold (tids j) (tids p) in Hnjp.
    pose proof Hnjp as Hnjp'. apply NoDup_app_iff in Hnjp'. destruct Hnjp' as (Hnj & Hnp & Hdjp).
    assert (In P (tids p)) as HPp by (rewrite tids_cons; now left).
    assert (rep f1 None (T p)) as Hp1.
    { assert (NoDup (ids (T p))) as HnT by now rewrite ids_T.
      exact (rep_rebase (T p) f (stack_head st) None HnT Hp). }
    assert (rep f1 None (T j)) as Hj1.
    { apply (rep_ext _ f); [|assumption]. intros i Hi. rewrite ids_T in Hi. unfold f1.
      apply set_backlink_other. intros ->. exact (Hdjp P Hi HPp). }
    assert (h_sibling (f1 P) = None) as E1.
    { unfold T in Hp1. cbn [rep head_id] in Hp1. destruct Hp1 as (H & _). fold (tid p) in H. fold P in H. now rewrite H. }
    rewrite E1. cbn [is_null frg_assert].
    assert (pr (tid j) = fst (fst j) /\ pr P = fst (fst p)) as [Hpj Hpp].
    { split; apply Hpr; apply in_or_app; [left | right; apply in_or_app; left]; now left. }
    destruct (p_merge_spec cmp pr f1 j p Hnjp Hj1 Hp1 Hpj Hpp) as (f2 & Hm & Hr2 & Hs2).
    fold P in Hm. rewrite Hm. cbn [bind].
    set (jt := merge cmp j p) in *.
    pose proof (merge_elems cmp j p) as Hme. fold jt in Hme.
    assert (same_except (map snd (telems j ++ telems p)) f f2) as Hs02.
    { rewrite map_app. fold (tids j) (tids p). eapply same_except_trans; [|exact Hs2].
      apply same_except_set_backlink. apply in_or_app. now right. }
    assert (rep_stack f2 st) as Hst2.
    { apply (rep_stack_ext st f); [|assumption]. intros i Hi. apply Hs02. intros Hin. exact (Hdis i Hin Hi). }
    assert (Permutation ((telems j ++ telems p) ++ selems st) (telems jt ++ selems st)) as Hperm2 by perm.
    assert (stack_head st = h_backlink (f P)) as Epred by now rewrite HP.
    destruct (IH fuel' f2 jt ltac:(cbn [length] in Hfuel; lia)
                 (NoDup_ids_perm _ _ (perm_trans Hperm Hperm2) Hn)
                 (prio_ok_perm _ _ _ (perm_trans Hperm Hperm2) Hpr) Hr2 Hst2) as (f' & Hrun & Hr' & Hs').
    exists f'. split; [exact Hrun|]. split; [exact Hr'|].
    eapply same_except_trans.
    + eapply same_except_weaken; [|exact Hs02]. intros i Hi. rewrite selems_cons.
      rewrite app_assoc, map_app. apply in_or_app. now left.
    + eapply same_except_perm; [|exact Hs']. apply Permutation_map. apply Permutation_sym.
      rewrite selems_cons. exact (perm_trans Hperm Hperm2).
Qed.

(* ---- _collapse(head) on a non-empty sibling chain whose first node may have any backlink ---- *)
Lemma p_collapse_spec pr h fuel f bk :
  h <> Nil -> (length (elems h) <= fuel)%nat ->
  NoDup (ids h) -> prio_ok pr (elems h) -> rep f bk h ->
  exists f' t,
    collapse cmp h = Some t /\
    p_collapse cmp pr fuel f (head_id h) = POk (f', tid t) /\
    rep f' None (T t) /\
    same_except (ids h) f f'.
Proof.
  intros Hne Hfuel Hn Hpr Hr.
  destruct (pair_spec pr h fuel f [] bk Hfuel Hn Hpr Hr I) as (f1 & st & lo & Hp & Hrun & Hst & Hlo & Hs1).
  cbn [selems map concat app] in Hs1. fold (ids h) in Hs1.
  pose proof (pairs_elems cmp h [] st lo Hp) as Hpe. cbn [selems map concat app] in Hpe.
  fold (selems st) in Hpe.
  assert (NoDup (map snd (selems st ++ oelems lo))) as Hn1.
  { apply Permutation_sym in Hpe. exact (NoDup_ids_perm _ _ Hpe Hn). }
  assert (prio_ok pr (selems st ++ oelems lo)) as Hpr1.
  { apply Permutation_sym in Hpe. exact (prio_ok_perm _ _ _ Hpe Hpr). }
  assert (length st <= fuel)%nat as Hlen.
  { apply Permutation_length in Hpe. rewrite app_length in Hpe.
    assert (length st <= length (selems st))%nat.
    { clear. induction st as [|t st IH]; [reflexivity|]. rewrite selems_cons, app_length.
      unfold telems. cbn [length]. lia. }
    lia. }
  unfold p_collapse, collapse. rewrite Hp.
  destruct h as [|x0 c0 s0]; [contradiction|]. cbn [head_id is_null negb frg_assert stack_head] in *.
  rewrite Hrun. cbn [bind].
  destruct lo as [t|].
  - (* an element is left over: joined = element *)
    cbn [option_map oelems] in *. destruct (Hlo t eq_refl) as (bk' & Hrt).
    set (f2 := set_backlink f1 (tid t) None).
    assert (Permutation (selems st ++ telems t) (telems t ++ selems st)) as Hperm by apply Permutation_app_comm.
    pose proof (NoDup_ids_perm _ _ Hperm Hn1) as Hn2.
    pose proof Hn2 as Hn2'. rewrite map_app in Hn2'. apply NoDup_app_iff in Hn2'. destruct Hn2' as (Hnt & Hnst & Hdis).
    fold (tids t) in Hnt, Hdis.
    assert (In (tid t) (tids t)) as Htt by (rewrite tids_cons; now left).
    assert (rep f2 None (T t)) as Hr2.
    { assert (NoDup (ids (T t))) as HnT by now rewrite ids_T.
      exact (rep_rebase (T t) f1 bk' None HnT Hrt). }
    assert (rep_stack f2 st) as Hst2.
    { apply (rep_stack_ext st f1); [|assumption]. intros i Hi. unfold f2. apply set_backlink_other.
      intros ->. exact (Hdis _ Htt Hi). }
    destruct (join_spec pr st fuel f2 t Hlen Hn2 (prio_ok_perm _ _ _ Hperm Hpr1) Hr2 Hst2) as (f' & Hj & Hr' & Hs').
    exists f', (fold_left (merge cmp) st t). split; [destruct st; reflexivity|]. split; [exact Hj|]. split; [exact Hr'|].
    assert (Permutation (map snd (telems t ++ selems st)) (ids (Node x0 c0 s0))) as Hpi.
    { unfold ids. apply Permutation_map. rewrite <- Hperm. exact Hpe. }
    eapply same_except_trans; [exact Hs1|]. eapply same_except_perm; [exact Hpi|].
    eapply same_except_trans; [|exact Hs']. apply same_except_set_backlink.
    rewrite map_app. apply in_or_app. left. exact Htt.
  - (* no element left: joined = the most recent pair *)
    cbn [option_map oelems] in *. rewrite app_nil_r in *.
    destruct st as [|p ps].
    + exfalso. apply Permutation_nil in Hpe. discriminate.
    + cbn [stack_head rep_stack] in *. destruct Hst as [Hrp Hst].
      pose proof Hrp as Hp'. unfold T in Hp'. cbn [rep head_id] in Hp'. destruct Hp' as (HP & _).
      fold (tid p) in HP. set (P := tid p) in *. rewrite HP. cbn [h_backlink].
      set (f2 := set_backlink f1 P None).
      rewrite selems_cons in Hn1, Hpr1.
      pose proof Hn1 as Hn1'. rewrite map_app in Hn1'. apply NoDup_app_iff in Hn1'. destruct Hn1' as (Hnp & Hnps & Hdis).
      fold (tids p) in Hnp, Hdis.
      assert (In P (tids p)) as HPp by (rewrite tids_cons; now left).
      assert (rep f2 None (T p)) as Hr2.
      { assert (NoDup (ids (T p))) as HnT by now rewrite ids_T.
        exact (rep_rebase (T p) f1 (stack_head ps) None HnT Hrp). }
      assert (h_sibling (f2 P) = None) as E1.
      { pose proof Hr2 as H. unfold T in H. cbn [rep head_id] in H. destruct H as (H & _). fold (tid p) in H. fold P in H. now rewrite H. }
      rewrite E1. cbn [is_null frg_assert bind].
      assert (rep_stack f2 ps) as Hst2.
      { apply (rep_stack_ext ps f1); [|assumption]. intros i Hi. unfold f2. apply set_backlink_other.
        intros ->. exact (Hdis _ HPp Hi). }
      destruct (join_spec pr ps fuel f2 p ltac:(cbn [length] in Hlen; lia) Hn1 Hpr1 Hr2 Hst2) as (f' & Hj & Hr' & Hs').
      exists f', (fold_left (merge cmp) ps p). split; [reflexivity|]. split; [exact Hj|]. split; [exact Hr'|].
      assert (Permutation (map snd (telems p ++ selems ps)) (ids (Node x0 c0 s0))) as Hpi.
      { unfold ids. apply Permutation_map. rewrite <- selems_cons. exact Hpe. }
      eapply same_except_trans; [exact Hs1|]. eapply same_except_perm; [exact Hpi|].
      eapply same_except_trans; [|exact Hs']. apply same_except_set_backlink.
      rewrite map_app. apply in_or_app. left. exact HPp.
Qed.

End Collapse.
