(* Refinement, part 4: push / pop / remove, the step theorem, the history theorem and the
   abstraction function.

   [R h s]: the pointer-level state [s] IS the layout of the functional heap [h]: every hook of every
   id equals [layout h id] (all-null outside the heap), [_root] is the id of the functional root, and
   the priority fields of the contained nodes are the priorities of the functional elements. *)
From Coq Require Import List NArith Bool Permutation Lia.
From FV Require Import Pairing.PairingModel Pairing.PairingSpec Pairing.PairingProofs Pairing.PairingLinks
  Pairing.PairingHistory Pairing.PairingPtr Pairing.PairingRefineBase Pairing.PairingRefineMerge
  Pairing.PairingRefineCollapse.
Import ListNotations.
Local Open Scope N_scope.

Definition R (h : heap) (s : pstate) : Prop :=
  (forall i, p_hooks s i = layout h i) /\
  p_root s = option_map snd (top h) /\
  prio_ok (p_prio s) (helems h).

Lemma R_init : R None p_init.
Proof. repeat split. intros e []. Qed.

Lemma layout_none i : layout None i = null_hook.
Proof. reflexivity. Qed.

Lemma ids_to_ph h : ids (to_ph h) = hids h.
Proof. unfold ids, hids. now rewrite elems_to_ph. Qed.

(* ---- remove(): the unlink through the backlink ---- *)
Definition unlink_pred (f : hooks) (e pd : N) : pres hooks :=
  if ptr_eqb (h_child (f pd)) (Some e) then POk (set_child f pd (h_sibling (f e)))
  else frg_assert (ptr_eqb (h_sibling (f pd)) (Some e)) (
       POk (set_sibling f pd (h_sibling (f e)))).
Definition unlink_sib (f0 f1 : hooks) (e : N) : hooks :=
  match h_sibling (f0 e) with
  | Some sb => set_backlink f1 sb (h_backlink (f0 e))
  | None => f1
  end.

Lemma cut_head e h h' ch : head_id h <> Some e -> cut e h = Some (h', ch) -> head_id h' = head_id h.
Proof.
  destruct h as [|x c s]; [discriminate|]. cbn [head_id cut]. intros Hh.
  destruct (N.eqb_spec (snd x) e) as [E|E]; [congruence|].
  destruct (cut e c) as [[c' ch']|].
  - intros H. inversion H; subst. reflexivity.
  - destruct (cut e s) as [[s' ch']|]; [|discriminate]. intros H. inversion H; subst. reflexivity.
Qed.

Lemma cut_ids e h h' ch : cut e h = Some (h', ch) -> Permutation (ids h) (e :: ids h' ++ ids ch).
Proof.
  intros Hc. destruct (cut_elems _ _ _ _ Hc) as (x0 & Hx0 & Hp).
  unfold ids. rewrite <- map_app, <- Hx0. change (snd x0 :: map snd (elems h' ++ elems ch)) with (map snd (x0 :: elems h' ++ elems ch)).
  now apply Permutation_map.
Qed.

(* the chain [sy] that followed the removed node [e] is spliced behind [X] *)
Lemma splice f f1 e X sy :
  h_sibling (f e) = head_id sy -> h_backlink (f e) = Some X ->
  rep f (Some e) sy -> NoDup (ids sy) -> ~ In X (ids sy) -> ~ In e (ids sy) -> X <> e ->
  (forall j, j <> X -> f1 j = f j) ->
  rep (unlink_sib f f1 e) (Some X) sy /\
  unlink_sib f f1 e X = f1 X /\
  unlink_sib f f1 e e = f e /\
  (forall j, j <> X -> ~ In j (ids sy) -> unlink_sib f f1 e j = f j).
Proof.
  intros Hs Hb Hr Hn HX He HXe H1. unfold unlink_sib. rewrite Hs, Hb.
  destruct sy as [|w cw sw]; cbn [head_id].
  - repeat split; auto.
  - cbn [rep] in Hr. destruct Hr as (HW & Hcw & Hsw). set (W := snd w) in *.
    rewrite ids_node in *. fold W in Hn, HX, He.
    assert (W <> X /\ W <> e) as [HWX HWe] by (split; intros E; [apply HX | apply He]; left; congruence).
    apply NoDup_cons_iff in Hn; destruct Hn as [HWin Hn']. rewrite in_app_iff in HWin.
    split; [|split; [|split]].
    + cbn [rep]. fold W. repeat split.
      * ev. rewrite H1 by assumption. now rewrite HW.
      * apply (rep_ext cw f); [|assumption]. intros j Hj.
        assert (j <> W) by (intros ->; tauto).
        assert (j <> X) by (intros ->; apply HX; right; apply in_or_app; now left).
        ev. now apply H1.
      * apply (rep_ext sw f); [|assumption]. intros j Hj.
        assert (j <> W) by (intros ->; tauto).
        assert (j <> X) by (intros ->; apply HX; right; apply in_or_app; now right).
        ev. now apply H1.
    + now ev.
    + ev. apply H1. congruence.
    + intros j HjX Hj. assert (j <> W) by (intros ->; apply Hj; now left). ev. now apply H1.
Qed.

Lemma cut_spec e : forall h b f h' ch,
  rep f b h -> NoDup (ids h) -> head_id h <> Some e -> cut e h = Some (h', ch) ->
  exists pd f1,
    h_backlink (f e) = Some pd /\ h_child (f e) = head_id ch /\
    unlink_pred f e pd = POk f1 /\
    rep (unlink_sib f f1 e) b h' /\ rep (unlink_sib f f1 e) (Some e) ch /\
    same_except (ids h) f (unlink_sib f f1 e) /\ unlink_sib f f1 e e = f e.
Proof.
  induction h as [|x c IHc s IHs]; intros b f h' ch Hr Hn Hh Hc; [discriminate|].
  cbn [head_id] in Hh. cbn [cut] in Hc.
  destruct (N.eqb_spec (snd x) e) as [E|HXe]; [congruence|].
  cbn [rep] in Hr. destruct Hr as (HX & Hrc & Hrs). set (X := snd x) in *.
  rewrite ids_node in Hn |- *. fold X in Hn |- *. apply NoDup_cons_iff in Hn; destruct Hn as [HXin Hn'].
  rewrite in_app_iff in HXin. apply NoDup_app_iff in Hn'. destruct Hn' as (Hnc & Hns & Hdis).
  destruct (cut e c) as [[c' ch']|] eqn:Ec.
  - (* e is below the child chain *)
    inversion Hc; subst h' ch; clear Hc.
    assert (In e (ids c)) as Hec by (apply (Permutation_in _ (Permutation_sym (cut_ids _ _ _ _ Ec))); now left).
    destruct c as [|y cy sy]; [discriminate|].
    destruct (N.eq_dec (snd y) e) as [HY|HY].
    + (* e is the first child of x *)
      cbn [cut] in Ec. rewrite (proj2 (N.eqb_eq _ _) HY) in Ec. inversion Ec; subst c' ch'; clear Ec.
      cbn [rep head_id] in Hrc. rewrite HY in Hrc. destruct Hrc as (He & Hcy & Hsy).
      cbn [head_id] in HX. rewrite HY in HX.
      rewrite ids_node, HY in Hnc, HXin, Hdis, Hec. apply NoDup_cons_iff in Hnc; destruct Hnc as [Hein Hncs].
      rewrite in_app_iff in Hein. apply NoDup_app_iff in Hncs. destruct Hncs as (Hncy & Hnsy & Hdcs).
      exists X, (set_child f X (h_sibling (f e))).
      assert (forall j, j <> X -> set_child f X (h_sibling (f e)) j = f j) as H1 by (intros j Hj; now ev).
      destruct (splice f _ e X sy ltac:(now rewrite He) ltac:(now rewrite He) Hsy Hnsy
                  ltac:(intros H; apply HXin; left; right; apply in_or_app; now right)
                  ltac:(tauto) HXe H1) as (S1 & S2 & S3 & S4).
      split; [now rewrite He|]. split; [now rewrite He|]. split.
      { unfold unlink_pred. rewrite HX. cbn [h_child]. now rewrite ptr_eqb_refl. }
      split; [|split; [|split]].
      * cbn [rep]. fold X. split; [|split].
        -- rewrite S2. ev. rewrite HX, He. reflexivity.
        -- exact S1.
        -- apply (rep_ext s f); [|assumption]. intros j Hj. apply S4.
           ++ intros ->. tauto.
           ++ intros Hin. apply (Hdis j); [right; apply in_or_app; now right | assumption].
      * apply (rep_ext cy f); [|assumption]. intros j Hj. apply S4.
        -- intros ->. apply HXin. left. right. apply in_or_app. now left.
        -- intros Hin. exact (Hdcs j Hj Hin).
      * intros j Hj. apply S4.
        -- intros ->. apply Hj. now left.
        -- intros Hin. apply Hj. right. apply in_or_app. left. rewrite ids_node. right. apply in_or_app. now right.
      * exact S3.
    + (* e is deeper: induction *)
      assert (head_id (Node y cy sy) <> Some e) as Hh' by (cbn [head_id]; congruence).
      destruct (IHc (Some X) f c' ch' Hrc Hnc Hh' eq_refl) as (pd & f1 & B1 & B2 & B3 & B4 & B5 & B6 & B7).
      exists pd, f1. split; [assumption|]. split; [assumption|]. split; [assumption|].
      split; [|split; [assumption|split; [|assumption]]].
      * cbn [rep]. fold X. split; [|split].
        -- rewrite B6 by tauto. rewrite HX. now rewrite (cut_head _ _ _ _ Hh' Ec).
        -- exact B4.
        -- apply (rep_ext s f); [|assumption]. intros j Hj. apply B6. intros Hin. exact (Hdis j Hin Hj).
      * intros j Hj. apply B6. intros Hin. apply Hj. right. apply in_or_app. now left.
  - destruct (cut e s) as [[s' ch']|] eqn:Es; [|discriminate].
    (* e is in the sibling chain *)
    inversion Hc; subst h' ch; clear Hc.
    assert (In e (ids s)) as Hes by (apply (Permutation_in _ (Permutation_sym (cut_ids _ _ _ _ Es))); now left).
    destruct s as [|y cy sy]; [discriminate|].
    destruct (N.eq_dec (snd y) e) as [HY|HY].
    + (* e is the next sibling of x *)
      cbn [cut] in Es. rewrite (proj2 (N.eqb_eq _ _) HY) in Es. inversion Es; subst s' ch'; clear Es.
      cbn [rep head_id] in Hrs. rewrite HY in Hrs. destruct Hrs as (He & Hcy & Hsy).
      cbn [head_id] in HX. rewrite HY in HX.
      rewrite ids_node, HY in Hns, HXin, Hdis, Hes. apply NoDup_cons_iff in Hns; destruct Hns as [Hein Hncs].
      rewrite in_app_iff in Hein. apply NoDup_app_iff in Hncs. destruct Hncs as (Hncy & Hnsy & Hdcs).
      exists X, (set_sibling f X (h_sibling (f e))).
      assert (forall j, j <> X -> set_sibling f X (h_sibling (f e)) j = f j) as H1 by (intros j Hj; now ev).
      destruct (splice f _ e X sy ltac:(now rewrite He) ltac:(now rewrite He) Hsy Hnsy
                  ltac:(intros H; apply HXin; right; right; apply in_or_app; now right)
                  ltac:(tauto) HXe H1) as (S1 & S2 & S3 & S4).
      split; [now rewrite He|]. split; [now rewrite He|]. split.
      { unfold unlink_pred. rewrite HX. cbn [h_child h_sibling].
        rewrite ptr_eqb_neq.
        - now rewrite ptr_eqb_refl.
        - intros Hc. apply head_id_ids in Hc. apply (Hdis e Hc). now left. }
      split; [|split; [|split]].
      * cbn [rep]. fold X. split; [|split].
        -- rewrite S2. ev. rewrite HX, He. reflexivity.
        -- apply (rep_ext c f); [|assumption]. intros j Hj. apply S4.
           ++ intros ->. tauto.
           ++ intros Hin. apply (Hdis j Hj). right. apply in_or_app. now right.
        -- exact S1.
      * apply (rep_ext cy f); [|assumption]. intros j Hj. apply S4.
        -- intros ->. apply HXin. right. right. apply in_or_app. now left.
        -- intros Hin. exact (Hdcs j Hj Hin).
      * intros j Hj. apply S4.
        -- intros ->. apply Hj. now left.
        -- intros Hin. apply Hj. right. apply in_or_app. right. rewrite ids_node. right. apply in_or_app. now right.
      * exact S3.
    + assert (head_id (Node y cy sy) <> Some e) as Hh' by (cbn [head_id]; congruence).
      destruct (IHs (Some X) f s' ch' Hrs Hns Hh' eq_refl) as (pd & f1 & B1 & B2 & B3 & B4 & B5 & B6 & B7).
      exists pd, f1. split; [assumption|]. split; [assumption|]. split; [assumption|].
      split; [|split; [assumption|split; [|assumption]]].
      * cbn [rep]. fold X. split; [|split].
        -- rewrite B6 by tauto. rewrite HX. now rewrite (cut_head _ _ _ _ Hh' Es).
        -- apply (rep_ext c f); [|assumption]. intros j Hj. apply B6. intros Hin. exact (Hdis j Hj Hin).
        -- exact B4.
      * intros j Hj. apply B6. intros Hin. apply Hj. right. apply in_or_app. now right.
Qed.

Section Refine.
Variable cmp : elt -> elt -> bool.

Lemma R_rep h s : NoDup (hids h) -> R h s ->
  rep (p_hooks s) None (to_ph h) /\ (forall j, ~ In j (hids h) -> p_hooks s j = null_hook).
Proof. intros Hn (H & _). now apply rep_layout. Qed.

Lemma R_intro h f pr r :
  NoDup (hids h) -> rep f None (to_ph h) -> (forall j, ~ In j (hids h) -> f j = null_hook) ->
  r = option_map snd (top h) -> prio_ok pr (helems h) -> R h (mk_pstate f pr r).
Proof. intros Hn H1 H2 H3 H4. split; [|split; assumption]. cbn [p_hooks]. now apply rep_layout. Qed.

(* ---- push ---- *)
Lemma push_refines fuel h s x :
  NoDup (hids h) -> R h s -> ~ In (snd x) (hids h) ->
  exists s', p_step cmp fuel s (Push x) = POk s' /\ R (push cmp x h) s'.
Proof.
  intros Hn HR Hx. destruct (R_rep h s Hn HR) as [Hrep Hnull]. destruct HR as (_ & Hroot & Hpr).
  destruct s as [f pr r]. cbn [p_hooks p_prio p_root] in *.
  set (X := snd x) in *. set (pr' := upd pr X (fst x)).
  assert (f X = null_hook) as HfX by now apply Hnull.
  assert (NoDup (hids (push cmp x h))) as Hn'.
  { apply (step_nodup cmp h (Push x)); [assumption|]. cbn [step].
    destruct (member (snd x) h) eqn:Em; [|reflexivity]. apply member_In in Em. contradiction. }
  assert (prio_ok pr' (x :: helems h)) as Hpr'.
  { intros e [<-|He]; unfold pr'.
    - apply upd_same.
    - rewrite upd_other; [now apply Hpr|]. intros E. apply Hx. rewrite <- E. unfold hids. now apply in_map. }
  cbn [p_step]. fold X pr'. unfold p_push. cbn [p_hooks p_prio p_root].
  rewrite HfX. cbn [null_hook h_child h_backlink h_sibling is_null andb frg_assert].
  destruct h as [t|].
  - (* _root = _merge(_root, element) *)
    cbn [top option_map] in Hroot. subst r. fold (tid t).
    rewrite to_ph_T in Hrep.
    assert (NoDup (tids t ++ tids (x, Nil))) as Hnn.
    { cbn [tids telems fst snd elems map]. fold X.
      apply NoDup_app_iff. split; [exact Hn|]. split; [repeat constructor; intros []|].
      intros j Hj [<-|[]]. exact (Hx Hj). }
    assert (rep f None (T (x, Nil))) as HrX.
    { unfold T. cbn [fst snd rep head_id]. fold X. rewrite HfX. repeat split. }
    assert (pr' (tid t) = fst (fst t)) as Hpt by (apply Hpr'; right; now left).
    assert (pr' (tid (x, Nil)) = fst (fst (x, Nil))) as Hpx by (apply Hpr'; now left).
    destruct (p_merge_spec cmp pr' f t (x, Nil) Hnn Hrep HrX Hpt Hpx) as (f' & Hm & Hr' & Hs').
    change (tid (x, Nil)) with X in Hm. fold pr'. rewrite Hm. cbn [bind push].
    eexists. split; [reflexivity|].
    pose proof (push_elems cmp x (Some t)) as Hpe. cbn [push] in Hpe.
    apply R_intro.
    + exact Hn'.
    + now rewrite to_ph_T.
    + intros j Hj. rewrite Hs'.
      * apply Hnull. intros Hin. apply Hj. unfold hids.
        apply (Permutation_in _ (Permutation_sym (Permutation_map snd Hpe))). right. exact Hin.
      * intros Hin. apply Hj. unfold hids.
        apply (Permutation_in _ (Permutation_sym (Permutation_map snd Hpe))).
        apply in_app_or in Hin. destruct Hin as [Hin|[<-|[]]]; [right; exact Hin | now left].
    + reflexivity.
    + apply (prio_ok_perm _ _ _ (Permutation_sym Hpe)). exact Hpr'.
  - (* _root = element *)
    cbn [top option_map] in Hroot. subst r. cbn [push].
    eexists. split; [reflexivity|]. apply R_intro.
    + exact Hn'.
    + cbn [to_ph rep head_id]. fold X. rewrite HfX. repeat split.
    + intros j Hj. apply Hnull. intros [].
    + reflexivity.
    + cbn [helems telems fst snd elems]. intros e [<-|[]]. apply Hpr'. now left.
Qed.

(* push of a contained element: an FRG_ASSERT fires, unless it is the sole element *)
Lemma push_member_stops fuel h s x :
  NoDup (hids h) -> R h s -> In (snd x) (hids h) ->
  match h with
  | Some (y, Nil) =>
    exists s', p_step cmp fuel s (Push x) = POk s' /\
               p_hooks s' (snd x) = mk_hook (Some (snd x)) (Some (snd x)) None   (* its own child *)
  | _ => p_step cmp fuel s (Push x) = PAssertStop
  end.
Proof.
  intros Hn HR Hx. destruct (R_rep h s Hn HR) as [Hrep Hnull]. destruct HR as (Hlay & Hroot & Hpr).
  destruct s as [f pr r]. cbn [p_hooks p_prio p_root] in *.
  set (X := snd x) in *.
  cbn [p_step]. fold X. unfold p_push. cbn [p_hooks p_prio p_root].
  destruct h as [[y c]|]; [|destruct Hx].
  cbn [top option_map fst] in Hroot. cbn [to_ph rep] in Hrep. destruct Hrep as (HY & Hc & _).
  destruct (N.eq_dec X (snd y)) as [E|E].
  - (* the root *)
    rewrite E, HY. cbn [h_child h_backlink h_sibling head_id].
    destruct c as [|z cz sz]; cbn [head_id is_null frg_assert andb]; [|reflexivity].
    subst r. rewrite <- E. rewrite p_merge_unfold. rewrite E, HY.
    cbn [h_child h_backlink h_sibling head_id is_null frg_assert andb].
    unfold link_under. rewrite HY. cbn [h_child bind].
    destruct (cmp _ _); (eexists; split; [reflexivity|]); cbn [p_hooks]; now ev.
  - (* not the root: it has a backlink *)
    assert (h_backlink (f X) <> None) as Hb.
    { rewrite Hlay. intros Hb.
      pose proof (links_consistent_nodup _ Hn) as (_ & H2 & _).
      specialize (H2 X Hx Hb). cbn [top option_map fst] in H2. congruence. }
    destruct c as [|z cz sz]; [exfalso; cbn in Hx; destruct Hx as [Hx|[]]; apply E; symmetry; exact Hx|].
    unfold frg_assert. destruct (is_null (h_child (f X))); [|reflexivity].
    destruct (h_backlink (f X)); [reflexivity | congruence].
Qed.

(* ---- pop ---- *)
Lemma pop_refines fuel t s :
  NoDup (hids (Some t)) -> R (Some t) s -> (length (helems (Some t)) <= fuel)%nat ->
  exists s', p_pop cmp fuel s = POk s' /\ R (pop_t cmp t) s'.
Proof.
  intros Hn HR Hfuel. destruct (R_rep _ s Hn HR) as [Hrep Hnull]. destruct HR as (_ & Hroot & Hpr).
  destruct s as [f pr r]. cbn [p_hooks p_prio p_root] in *.
  destruct t as [x c]. cbn [top option_map fst] in Hroot. subst r.
  cbn [to_ph rep head_id] in Hrep. destruct Hrep as (HX & Hc & _). set (X := snd x) in *.
  rewrite hids_some in Hn, Hnull. fold X in Hn, Hnull. apply NoDup_cons_iff in Hn. destruct Hn as [HXc Hnc].
  assert (NoDup (hids (pop_t cmp (x, c)))) as Hn'.
  { pose proof (pop_elems cmp (x, c)) as Hp. cbn [fst] in Hp.
    apply (NoDup_perm_cons _ _ _ Hp). unfold telems. cbn [fst snd map]. fold X. constructor; assumption. }
  unfold p_pop. cbn [p_root p_hooks p_prio]. rewrite HX. cbn [h_child].
  set (f1 := set_child f X None).
  assert (f1 X = null_hook) as H1X by (unfold f1; ev; now rewrite HX).
  rewrite H1X. cbn [null_hook h_backlink h_sibling is_null andb frg_assert].
  unfold pop_t. cbn [snd].
  destruct c as [|z cz sz].
  - (* no child *)
    cbn [head_id collapse pairs]. eexists. split; [reflexivity|]. apply R_intro.
    + constructor.
    + exact I.
    + intros j _. destruct (N.eq_dec j X) as [->|Hj]; [exact H1X|].
      unfold f1. ev. apply Hnull. intros [E|[]]. congruence.
    + reflexivity.
    + intros e [].
  - cbn [head_id].
    pose proof Hc as Hc'. cbn [rep] in Hc'. destruct Hc' as (HZ & _). set (Z := snd z) in *.
    assert (Z <> X) as HZX by (intros E; apply HXc; rewrite ids_node; left; exact E).
    assert (h_backlink (f1 Z) = Some X) as E1 by (unfold f1; ev; now rewrite HZ).
    rewrite E1, ptr_eqb_refl. cbn [frg_assert].
    set (f2 := set_backlink f1 Z None).
    assert (rep f2 None (Node z cz sz)) as Hr2.
    { assert (rep f1 (Some X) (Node z cz sz)) as Hr1.
      { apply (rep_ext _ f); [|assumption]. intros j Hj. unfold f1. apply set_child_other. intros ->. contradiction. }
      exact (rep_rebase (Node z cz sz) f1 (Some X) None Hnc Hr1). }
    assert (prio_ok pr (elems (Node z cz sz))) as Hprc.
    { intros e He. apply Hpr. right. exact He. }
    assert (length (elems (Node z cz sz)) <= fuel)%nat as Hf.
    { cbn [helems telems length snd] in Hfuel. lia. }
    destruct (p_collapse_spec cmp pr (Node z cz sz) fuel f2 None ltac:(discriminate) Hf Hnc Hprc Hr2)
      as (f3 & t & Hcol & Hrun & Hr3 & Hs3).
    cbn [head_id] in Hrun. fold Z in Hrun. rewrite Hrun, Hcol. cbn [bind].
    eexists. split; [reflexivity|].
    unfold pop_t in Hn'. cbn [snd] in Hn'. rewrite Hcol in Hn'.
    pose proof (collapse_elems cmp (Node z cz sz)) as Hce. rewrite Hcol in Hce. cbn [helems] in Hce.
    apply R_intro.
    + exact Hn'.
    + now rewrite to_ph_T.
    + intros j Hj.
      assert (~ In j (ids (Node z cz sz))) as Hjc.
      { intros Hin. apply Hj. unfold hids. cbn [helems].
        apply (Permutation_in _ (Permutation_sym (Permutation_map snd Hce))). exact Hin. }
      rewrite Hs3 by assumption.
      assert (j <> Z) by (intros ->; apply Hjc; rewrite ids_node; now left).
      unfold f2. ev. destruct (N.eq_dec j X) as [->|HjX]; [exact H1X|].
      unfold f1. ev. apply Hnull. intros [E|Hin]; [congruence | contradiction].
    + reflexivity.
    + cbn [helems]. apply (prio_ok_perm _ _ _ (Permutation_sym Hce)). exact Hprc.
Qed.

(* ---- remove ---- *)
Lemma p_remove_unfold fuel s e :
  p_remove cmp fuel s e =
  if ptr_eqb (p_root s) (Some e) then p_pop cmp fuel s
  else
    match h_backlink (p_hooks s e) with
    | None => PAssertStop
    | Some pd =>
      bind (unlink_pred (p_hooks s) e pd) (fun f1 =>
      let f := unlink_sib (p_hooks s) f1 e in
      bind (match h_child (p_hooks s e) with
            | Some c =>
              frg_assert (ptr_eqb (h_backlink (f c)) (Some e)) (
              let f := set_backlink f c None in
              bind (p_collapse cmp (p_prio s) fuel f (Some c)) (fun ft =>
              let '(f, t) := ft in
              match p_root s with
              | None => PNullDeref
              | Some r =>
                bind (p_merge cmp (p_prio s) f r t) (fun fr =>
                let '(f, r') := fr in
                POk (f, Some r'))
              end))
            | None => POk (f, p_root s)
            end) (fun frt =>
      let '(f, root) := frt in
      let f := set_backlink f e None in
      let f := set_sibling f e None in
      let f := set_child f e None in
      POk (mk_pstate f (p_prio s) root)))
    end.
Proof. reflexivity. Qed.

Lemma remove_absent_stops fuel h s e :
  NoDup (hids h) -> R h s -> ~ In e (hids h) -> p_remove cmp fuel s e = PAssertStop.
Proof.
  intros Hn HR He. destruct (R_rep h s Hn HR) as [_ Hnull]. destruct HR as (_ & Hroot & _).
  rewrite p_remove_unfold. rewrite ptr_eqb_neq.
  - now rewrite (Hnull e He).
  - rewrite Hroot. destruct h as [[x c]|]; cbn [top option_map fst]; [|discriminate].
    intros E. inversion E. apply He. left. assumption.
Qed.

Lemma remove_inner_refines fuel x c s e c' ch :
  NoDup (hids (Some (x, c))) -> R (Some (x, c)) s -> (length (helems (Some (x, c))) <= fuel)%nat ->
  snd x <> e -> cut e c = Some (c', ch) ->
  exists s', p_remove cmp fuel s e = POk s' /\
    R (Some (match collapse cmp ch with None => (x, c') | Some t' => merge cmp (x, c') t' end)) s'.
Proof.
  intros Hn HR Hfuel HXe Ec.
  assert (exists h', remove_t cmp e (x, c) = Some h' /\
            h' = Some (match collapse cmp ch with None => (x, c') | Some t' => merge cmp (x, c') t' end)) as (h' & Hrem & Eh').
  { eexists. split; [|reflexivity]. unfold remove_t. rewrite (proj2 (N.eqb_neq _ _) HXe), Ec. reflexivity. }
  rewrite <- Eh'.
  assert (NoDup (hids h')) as Hn'.
  { apply (step_nodup cmp (Some (x, c)) (Remove e)); [assumption|]. cbn [step]. now rewrite Hrem. }
  destruct (R_rep _ s Hn HR) as [Hrep Hnull]. destruct HR as (_ & Hroot & Hpr).
  destruct s as [f pr r]. cbn [p_hooks p_prio p_root] in *.
  cbn [top option_map fst] in Hroot. subst r. set (X := snd x) in *.
  cbn [to_ph] in Hrep.
  assert (ids (Node x c Nil) = hids (Some (x, c))) as Eids by (change (Node x c Nil) with (to_ph (Some (x, c))); unfold ids; now rewrite elems_to_ph).
  assert (cut e (Node x c Nil) = Some (Node x c' Nil, ch)) as Ecut.
  { cbn [cut]. fold X. rewrite (proj2 (N.eqb_neq _ _) HXe), Ec. reflexivity. }
  assert (head_id (Node x c Nil) <> Some e) as Hh by (cbn [head_id]; fold X; congruence).
  destruct (cut_spec e (Node x c Nil) None f _ _ Hrep ltac:(now rewrite Eids) Hh Ecut)
    as (pd & f1 & B1 & B2 & B3 & B4 & B5 & B6 & B7).
  set (f2 := unlink_sib f f1 e) in *.
  pose proof (cut_ids _ _ _ _ Ecut) as Hpi. rewrite Eids in Hpi, B6.
  pose proof (Permutation_NoDup Hpi Hn) as Hn2. apply NoDup_cons_iff in Hn2. destruct Hn2 as [Hein Hn2].
  rewrite in_app_iff in Hein. apply NoDup_app_iff in Hn2. destruct Hn2 as (Hnx & Hnch & Hdis).
  destruct (cut_elems _ _ _ _ Ec) as (x0 & Hx0 & Hpe).
  assert (forall j, ~ In j (hids (Some (x, c))) -> j <> e /\ ~ In j (ids (Node x c' Nil)) /\ ~ In j (ids ch)) as Hout.
  { intros j Hj. repeat split; [intros -> | intros Hin | intros Hin]; apply Hj; apply (Permutation_in _ (Permutation_sym Hpi)).
    - now left.
    - right. apply in_or_app. now left.
    - right. apply in_or_app. now right. }
  rewrite p_remove_unfold. cbn [p_root p_hooks p_prio].
  rewrite ptr_eqb_neq by congruence. rewrite B1. rewrite B3. cbn [bind]. fold f2. rewrite B2.
  assert (forall g, same_except [e] f2 g -> g e = null_hook ->
            forall hh, ~ In e (ids hh) -> rep f2 None hh -> rep g None hh) as Hclear.
  { intros g Hg _ hh Hnin. apply rep_ext. intros j Hj. apply Hg. intros [<-|[]]. contradiction. }
  destruct ch as [|z cz sz].
  - (* no children: only the hook of the removed node is reset *)
    cbn [head_id bind]. cbn [collapse pairs] in Eh'. subst h'.
    eexists. split; [reflexivity|]. apply R_intro.
    + exact Hn'.
    + cbn [to_ph]. apply (rep_ext _ f2); [|exact B4]. intros j Hj.
      assert (j <> e) by (intros ->; tauto). now ev.
    + intros j Hj. destruct (N.eq_dec j e) as [->|Hje]; [now ev|]. ev.
      assert (~ In j (hids (Some (x, c)))) as Hj'.
      { intros Hin. apply (Permutation_in _ Hpi) in Hin. destruct Hin as [E|Hin]; [congruence|].
        apply in_app_or in Hin. destruct Hin as [Hin|[]]. apply Hj. rewrite <- ids_to_ph. exact Hin. }
      rewrite B6 by assumption. now apply Hnull.
    + reflexivity.
    + cbn [helems]. intros y Hy. apply Hpr. cbn [helems]. unfold telems in *. cbn [fst snd] in *.
      destruct Hy as [<-|Hy]; [now left|]. right.
      apply (Permutation_in _ (Permutation_sym Hpe)). right. apply in_or_app. now left.
  - (* children: _root = _merge(_root, _collapse(child)) *)
    cbn [head_id]. pose proof B5 as B5'. cbn [rep] in B5'. destruct B5' as (HZ & _). set (Z := snd z) in *.
    rewrite HZ. cbn [h_backlink]. rewrite ptr_eqb_refl. cbn [frg_assert].
    set (f3 := set_backlink f2 Z None).
    assert (In Z (ids (Node z cz sz))) as HZin by (rewrite ids_node; now left).
    assert (rep f3 None (Node z cz sz)) as Hr3 by exact (rep_rebase (Node z cz sz) f2 (Some e) None Hnch B5).
    assert (prio_ok pr (elems (Node z cz sz))) as Hprch.
    { intros y Hy. apply Hpr. cbn [helems]. unfold telems. cbn [fst snd]. right.
      apply (Permutation_in _ (Permutation_sym Hpe)). right. apply in_or_app. now right. }
    assert (length (elems (Node z cz sz)) <= fuel)%nat as Hf.
    { cbn [helems] in Hfuel. unfold telems in Hfuel. cbn [fst snd length] in Hfuel.
      apply Permutation_length in Hpe. cbn [length] in Hpe. rewrite app_length in Hpe. lia. }
    destruct (p_collapse_spec cmp pr (Node z cz sz) fuel f3 None ltac:(discriminate) Hf Hnch Hprch Hr3)
      as (f4 & t & Hcol & Hrun & Hr4 & Hs4).
    cbn [head_id] in Hrun. fold Z in Hrun. fold f3. rewrite Hrun. cbn [bind].
    rewrite Hcol in Eh'.
    pose proof (collapse_elems cmp (Node z cz sz)) as Hce. rewrite Hcol in Hce. cbn [helems] in Hce.
    assert (Permutation (tids t) (ids (Node z cz sz))) as Hpt by (unfold tids, ids; now apply Permutation_map).
    assert (rep f4 None (T (x, c'))) as Hr4x.
    { unfold T. cbn [fst snd]. apply (rep_ext _ f2); [|exact B4]. intros j Hj.
      assert (~ In j (ids (Node z cz sz))) as Hjc by (intros Hin; exact (Hdis j Hj Hin)).
      rewrite Hs4 by assumption. unfold f3. apply set_backlink_other. intros ->. contradiction. }
    assert (NoDup (tids (x, c') ++ tids t)) as Hnn.
    { apply NoDup_app_iff. split; [|split].
      - rewrite <- ids_T. unfold T. cbn [fst snd]. exact Hnx.
      - apply (Permutation_NoDup (Permutation_sym Hpt)). exact Hnch.
      - intros j Hj Hjt. apply (Hdis j).
        + rewrite <- ids_T in Hj. exact Hj.
        + apply (Permutation_in _ Hpt). exact Hjt. }
    assert (pr (tid (x, c')) = fst (fst (x, c'))) as Hpx.
    { apply Hpr. cbn [helems]. now left. }
    assert (pr (tid t) = fst (fst t)) as Hpt'.
    { apply Hprch. apply (Permutation_in _ Hce). now left. }
    destruct (p_merge_spec cmp pr f4 (x, c') t Hnn Hr4x Hr4 Hpx Hpt') as (f5 & Hm & Hr5 & Hs5).
    change (tid (x, c')) with X in Hm. rewrite Hm. cbn [bind]. subst h'.
    set (mt := merge cmp (x, c') t) in *.
    pose proof (merge_elems cmp (x, c') t) as Hme. fold mt in Hme.
    assert (Permutation (hids (Some mt)) (ids (Node x c' Nil) ++ ids (Node z cz sz))) as Hph.
    { unfold hids. cbn [helems]. rewrite (Permutation_map snd Hme), map_app.
      apply Permutation_app; [|exact Hpt]. change (Node x c' Nil) with (T (x, c')). rewrite ids_T. apply Permutation_refl. }
    assert (~ In e (hids (Some mt))) as Hemt.
    { intros Hin. apply (Permutation_in _ Hph) in Hin. apply in_app_or in Hin. tauto. }
    eexists. split; [reflexivity|]. apply R_intro.
    + exact Hn'.
    + rewrite to_ph_T. apply (rep_ext _ f5); [|exact Hr5]. intros j Hj.
      assert (j <> e) by (intros ->; apply Hemt; rewrite <- ids_to_ph, to_ph_T; exact Hj).
      now ev.
    + intros j Hj. destruct (N.eq_dec j e) as [->|Hje]; [now ev|]. ev.
      assert (~ In j (ids (Node x c' Nil)) /\ ~ In j (ids (Node z cz sz))) as [Hj1 Hj2].
      { split; intros Hin; apply Hj; apply (Permutation_in _ (Permutation_sym Hph)); apply in_or_app; tauto. }
      rewrite Hs5.
      2:{ intros Hin. apply in_app_or in Hin. destruct Hin as [Hin|Hin].
          - apply Hj1. rewrite <- ids_T in Hin. exact Hin.
          - apply Hj2. apply (Permutation_in _ Hpt). exact Hin. }
      rewrite Hs4 by assumption.
      assert (j <> Z) by (intros ->; contradiction). unfold f3. ev.
      assert (~ In j (hids (Some (x, c)))) as Hj'.
      { intros Hin. apply (Permutation_in _ Hpi) in Hin. destruct Hin as [E|Hin]; [congruence|].
        apply in_app_or in Hin. tauto. }
      unfold f2. rewrite B6 by assumption. now apply Hnull.
    + reflexivity.
    + cbn [helems]. apply (prio_ok_perm _ _ _ (Permutation_sym Hme)).
      intros y Hy. apply in_app_or in Hy. destruct Hy as [Hy|Hy].
      * apply Hpr. cbn [helems]. unfold telems in *. cbn [fst snd] in *.
        destruct Hy as [<-|Hy]; [now left|]. right.
        apply (Permutation_in _ (Permutation_sym Hpe)). right. apply in_or_app. now left.
      * apply Hprch. apply (Permutation_in _ Hce). exact Hy.
Qed.

(* ---- the step theorem ---- *)
(* For every functional heap [h] with unique ids and the pointer-level state [s] that is its layout:
   the pointer-level operation, run with fuel >= the number of elements, ends in an FRG_ASSERT exactly
   when the functional step does, never runs out of fuel, never dereferences null, and otherwise
   yields the layout of the functional result.  (UB = push of the sole contained element: no
   assertion notices, the node becomes its own child.) *)
Theorem step_refines fuel h s o :
  NoDup (hids h) -> R h s -> (length (helems h) <= fuel)%nat ->
  match step cmp h o with
  | Ok h' => exists s', p_step cmp fuel s o = POk s' /\ R h' s'
  | AssertStop => p_step cmp fuel s o = PAssertStop
  | UB => exists s' x, o = Push x /\ p_step cmp fuel s o = POk s' /\
                       p_hooks s' (snd x) = mk_hook (Some (snd x)) (Some (snd x)) None
  end.
Proof.
  intros Hn HR Hfuel. destruct o as [x| |e]; cbn [step].
  - destruct (member (snd x) h) eqn:Em.
    + apply member_In in Em. pose proof (push_member_stops fuel h s x Hn HR Em) as H.
      destruct h as [[y [|]]|]; try exact H.
      destruct H as (s' & H1 & H2). exists s', x. auto.
    + apply push_refines; try assumption. rewrite <- member_In. congruence.
  - destruct h as [t|].
    + apply pop_refines; assumption.
    + destruct HR as (_ & Hroot & _). cbn [p_step]. unfold p_pop. now rewrite Hroot.
  - destruct h as [[x c]|].
    + cbn [p_step]. unfold remove_t.
      destruct (N.eqb_spec (snd x) e) as [E|E].
      * rewrite p_remove_unfold. destruct HR as (H1 & Hroot & H3). rewrite Hroot.
        cbn [top option_map fst]. rewrite E, ptr_eqb_refl.
        apply (pop_refines fuel (x, c) s Hn (conj H1 (conj Hroot H3)) Hfuel).
      * destruct (cut e c) as [[c' ch]|] eqn:Ec.
        -- exact (remove_inner_refines fuel x c s e c' ch Hn HR Hfuel E Ec).
        -- apply (remove_absent_stops fuel _ s e Hn HR). rewrite hids_some. intros [H|H]; [contradiction|].
           exact (cut_None _ _ Ec H).
    + cbn [p_step]. apply (remove_absent_stops fuel None s e Hn HR). intros [].
Qed.

(* ---- histories ---- *)
Lemma step_size h o h' : step cmp h o = Ok h' -> (length (helems h') <= S (length (helems h)))%nat.
Proof.
  destruct o as [x| |e]; intros H.
  - apply step_push_elems in H. destruct H as [_ Hp]. apply Permutation_length in Hp. cbn [length] in Hp. lia.
  - apply step_pop_elems in H. destruct H as (t & _ & Hp). apply Permutation_length in Hp. cbn [length] in Hp. lia.
  - apply step_remove_elems in H. destruct H as (x & _ & _ & Hp). apply Permutation_length in Hp. cbn [length] in Hp. lia.
Qed.

Lemma run_refines_from : forall ops fuel h s,
  NoDup (hids h) -> R h s -> (length (helems h) + length ops <= fuel)%nat ->
  match run cmp h ops with
  | Ok h' => exists s', p_run cmp fuel s ops = POk s' /\ R h' s' /\ NoDup (hids h') /\
                        (length (helems h') <= fuel)%nat
  | AssertStop => p_run cmp fuel s ops = PAssertStop
  | UB => True
  end.
Proof.
  induction ops as [|o ops IH]; intros fuel h s Hn HR Hfuel; cbn [run p_run].
  - exists s. cbn [length] in Hfuel. split; [reflexivity|]. split; [assumption|]. split; [assumption | lia].
  - cbn [length] in Hfuel.
    pose proof (step_refines fuel h s o Hn HR ltac:(lia)) as Hs.
    destruct (step cmp h o) as [h1| |] eqn:Es.
    + destruct Hs as (s1 & Hp & HR1). rewrite Hp. cbn [bind].
      pose proof (step_size _ _ _ Es). apply IH; [eapply step_nodup; eauto | assumption | lia].
    + now rewrite Hs.
    + exact I.
Qed.

(* every script, from the empty heap; fuel = length of the script (>= number of elements) *)
Theorem ptr_run_refines ops fuel :
  (length ops <= fuel)%nat ->
  match run cmp None ops with
  | Ok h => exists s, p_run cmp fuel p_init ops = POk s /\ R h s
  | AssertStop => p_run cmp fuel p_init ops = PAssertStop
  | UB => True
  end.
Proof.
  intros Hf. pose proof (run_refines_from ops fuel None p_init ltac:(constructor) R_init ltac:(cbn; lia)) as H.
  destruct (run cmp None ops); [|exact H|exact I]. destruct H as (s & H1 & H2 & _). eauto.
Qed.

End Refine.

(* ---- the abstraction function reads the functional heap back out of its layout ---- *)
Lemma abs_ph_rep pr : forall c fuel f b,
  rep f b c -> prio_ok pr (elems c) -> (length (elems c) <= fuel)%nat ->
  abs_ph fuel f pr (head_id c) = c.
Proof.
  induction c as [|x c1 IH1 s1 IH2]; intros fuel f b Hr Hpr Hf.
  - destruct fuel; reflexivity.
  - cbn [elems length] in Hf. rewrite app_length in Hf.
    destruct fuel as [|fuel']; [lia|]. cbn [head_id abs_ph].
    cbn [rep] in Hr. destruct Hr as (HX & H1 & H2). rewrite HX. cbn [h_child h_sibling].
    rewrite (Hpr x) by now left. rewrite elt_eta.
    rewrite (IH1 fuel' f (Some (snd x))), (IH2 fuel' f (Some (snd x))); try assumption; try lia; try reflexivity.
    + intros e He. apply Hpr. right. apply in_or_app. now right.
    + intros e He. apply Hpr. right. apply in_or_app. now left.
Qed.

Theorem abs_R fuel h s :
  NoDup (hids h) -> R h s -> (length (helems h) <= fuel)%nat -> abs fuel s = h.
Proof.
  intros Hn HR Hf. destruct (R_rep h s Hn HR) as [Hrep _]. destruct HR as (_ & Hroot & Hpr).
  unfold abs. rewrite Hroot. destruct h as [[x c]|]; cbn [top option_map fst]; [|reflexivity].
  cbn [to_ph rep] in Hrep. destruct Hrep as (HX & Hc & _). rewrite HX. cbn [h_child].
  rewrite (Hpr x) by now left. rewrite elt_eta.
  rewrite (abs_ph_rep (p_prio s) c fuel (p_hooks s) (Some (snd x))); try assumption; try reflexivity.
  - intros e He. apply Hpr. now right.
  - cbn [helems] in Hf. unfold telems in Hf. cbn [length snd] in Hf. lia.
Qed.
