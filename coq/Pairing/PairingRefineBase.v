(* Refinement of the pointer-level pairing-heap model (PairingPtr.v) to the functional model
   (PairingModel.v), part 1: the representation predicate [rep] (a memory holds the hook fields of a
   child/sibling structure), frames ([same_except]), single-field writes, and the connection of
   [rep] with the layout function of the functional model. *)
From Coq Require Import List NArith Bool Permutation Lia.
From FV Require Import Pairing.PairingModel Pairing.PairingSpec Pairing.PairingProofs Pairing.PairingLinks
  Pairing.PairingPtr.
Import ListNotations.
Local Open Scope N_scope.

Definition ids (h : ph) : list N := map snd (elems h).
Definition tid (t : tree) : N := snd (fst t).
Definition T (t : tree) : ph := Node (fst t) (snd t) Nil.            (* a detached root as a chain *)
Definition tids (t : tree) : list N := map snd (telems t).

(* the memory [f] holds, for every node of the chain [h], exactly the hook fields the structure
   needs, the first node of the chain having backlink [b] *)
Fixpoint rep (f : hooks) (b : option N) (h : ph) : Prop :=
  match h with
  | Nil => True
  | Node x c s =>
    f (snd x) = mk_hook (head_id c) b (head_id s) /\ rep f (Some (snd x)) c /\ rep f (Some (snd x)) s
  end.

(* [g] differs from [f] at most on the ids in [l] *)
Definition same_except (l : list N) (f g : hooks) : Prop := forall j, ~ In j l -> g j = f j.

Definition prio_ok (pr : N -> N) (l : list elt) : Prop := forall e, In e l -> pr (snd e) = fst e.

(* ---- ids ---- *)
Lemma ids_node x c s : ids (Node x c s) = snd x :: ids c ++ ids s.
Proof. unfold ids. cbn [elems map]. now rewrite map_app. Qed.

Lemma tids_cons t : tids t = tid t :: ids (snd t).
Proof. reflexivity. Qed.

Lemma ids_T t : ids (T t) = tids t.
Proof. unfold T, tids, telems. rewrite ids_node. cbn. now rewrite app_nil_r. Qed.

Lemma head_id_ids h a : head_id h = Some a -> In a (ids h).
Proof. apply head_id_in. Qed.

Lemma NoDup_app_iff {A} (l1 l2 : list A) :
  NoDup (l1 ++ l2) <-> NoDup l1 /\ NoDup l2 /\ (forall x, In x l1 -> In x l2 -> False).
Proof.
  split.
  - intros H. split; [eapply NoDup_app_l; eauto|]. split; [eapply NoDup_app_r; eauto|].
    intros x. now apply NoDup_app_disj.
  - intros (H1 & H2 & H3). induction l1 as [|a l1 IH]; [exact H2|].
    inversion H1; subst. cbn. constructor.
    + rewrite in_app_iff. intros [H|H]; [contradiction|]. apply (H3 a); [now left | assumption].
    + apply IH; [assumption|]. intros x Hx. apply H3. now right.
Qed.

(* ---- point updates ---- *)
Lemma upd_same {V} (f : N -> V) i v : upd f i v i = v.
Proof. unfold upd. now rewrite N.eqb_refl. Qed.
Lemma upd_other {V} (f : N -> V) i v j : j <> i -> upd f i v j = f j.
Proof. unfold upd. intros H. apply N.eqb_neq in H. now rewrite H. Qed.

Lemma set_child_same f p v : set_child f p v p = mk_hook v (h_backlink (f p)) (h_sibling (f p)).
Proof. apply upd_same. Qed.
Lemma set_backlink_same f p v : set_backlink f p v p = mk_hook (h_child (f p)) v (h_sibling (f p)).
Proof. apply upd_same. Qed.
Lemma set_sibling_same f p v : set_sibling f p v p = mk_hook (h_child (f p)) (h_backlink (f p)) v.
Proof. apply upd_same. Qed.
Lemma set_child_other f p v j : j <> p -> set_child f p v j = f j.
Proof. apply upd_other. Qed.
Lemma set_backlink_other f p v j : j <> p -> set_backlink f p v j = f j.
Proof. apply upd_other. Qed.
Lemma set_sibling_other f p v j : j <> p -> set_sibling f p v j = f j.
Proof. apply upd_other. Qed.

Lemma ptr_eqb_refl p : ptr_eqb p p = true.
Proof. destruct p; cbn; [apply N.eqb_refl | reflexivity]. Qed.
Lemma ptr_eqb_eq p q : ptr_eqb p q = true <-> p = q.
Proof.
  destruct p, q; cbn; try (split; [discriminate | congruence]); [|tauto].
  rewrite N.eqb_eq. split; congruence.
Qed.
Lemma ptr_eqb_neq p q : p <> q -> ptr_eqb p q = false.
Proof. intros H. destruct (ptr_eqb p q) eqn:E; [|reflexivity]. apply ptr_eqb_eq in E. contradiction. Qed.

(* ---- frames ---- *)
Lemma same_except_refl l f : same_except l f f.
Proof. intros j _. reflexivity. Qed.
Lemma same_except_trans l f g k : same_except l f g -> same_except l g k -> same_except l f k.
Proof. intros H1 H2 j Hj. now rewrite H2, H1. Qed.
Lemma same_except_weaken l l' f g : incl l l' -> same_except l f g -> same_except l' f g.
Proof. intros Hi H j Hj. apply H. intros Hin. apply Hj, Hi, Hin. Qed.
Lemma same_except_upd l f p k : In p l -> same_except l f (upd f p k).
Proof. intros Hp j Hj. apply upd_other. intros ->. contradiction. Qed.
Lemma same_except_set_child l f p v : In p l -> same_except l f (set_child f p v).
Proof. apply same_except_upd. Qed.
Lemma same_except_set_backlink l f p v : In p l -> same_except l f (set_backlink f p v).
Proof. apply same_except_upd. Qed.
Lemma same_except_set_sibling l f p v : In p l -> same_except l f (set_sibling f p v).
Proof. apply same_except_upd. Qed.

Lemma rep_ext h : forall f g b, (forall j, In j (ids h) -> g j = f j) -> rep f b h -> rep g b h.
Proof.
  induction h as [|x c IHc s IHs]; intros f g b He Hr; [exact I|].
  cbn [rep] in *. destruct Hr as (H1 & H2 & H3). rewrite ids_node in He. split; [|split].
  - rewrite He; [assumption | now left].
  - apply (IHc f); [|assumption]. intros j Hj. apply He. right. apply in_or_app. now left.
  - apply (IHs f); [|assumption]. intros j Hj. apply He. right. apply in_or_app. now right.
Qed.

Lemma rep_frame l h f g b :
  same_except l f g -> (forall j, In j (ids h) -> ~ In j l) -> rep f b h -> rep g b h.
Proof. intros Hs Hd. apply rep_ext. intros j Hj. apply Hs, Hd, Hj. Qed.

Lemma rep_upd_notin h f b p k : ~ In p (ids h) -> rep f b h -> rep (upd f p k) b h.
Proof. intros Hp. apply rep_ext. intros j Hj. apply upd_other. intros ->. contradiction. Qed.

(* the backlink handed to the first node is the only place where [b] occurs *)
Lemma rep_rebase h f b b' :
  NoDup (ids h) -> rep f b h ->
  match head_id h with
  | Some a => rep (set_backlink f a b') b' h
  | None => True
  end.
Proof.
  destruct h as [|x c s]; [exact (fun _ _ => I)|]. cbn [head_id rep]. rewrite ids_node.
  intros Hn (H1 & H2 & H3). inversion Hn as [|? ? Hx Hn']; subst.
  rewrite in_app_iff in Hx. split; [|split].
  - rewrite set_backlink_same, H1. reflexivity.
  - apply rep_upd_notin; [tauto | assumption].
  - apply rep_upd_notin; [tauto | assumption].
Qed.

Lemma rep_head h f b a : rep f b h -> head_id h = Some a -> h_backlink (f a) = b.
Proof.
  destruct h as [|x c s]; [discriminate|]. cbn [rep head_id]. intros (H1 & _) E.
  inversion E; subst. now rewrite H1.
Qed.

(* ---- [rep] and the layout function ---- *)
Lemma rep_agree h : forall f b, rep f b h <-> (forall i k, In (i, k) (links b h) -> f i = k).
Proof.
  induction h as [|x c IHc s IHs]; intros f b; cbn [rep links].
  - split; [intros _ i k [] | auto].
  - rewrite IHc, IHs. split.
    + intros (H1 & H2 & H3) i k [E|Hin].
      * inversion E; subst. exact H1.
      * apply in_app_or in Hin. destruct Hin; auto.
    + intros H. split; [apply H; now left|]. split; intros i k Hin; apply H; right; apply in_or_app; auto.
Qed.

Lemma rep_layout h f :
  NoDup (hids h) ->
  ((forall i, f i = layout h i) <->
   (rep f None (to_ph h) /\ forall j, ~ In j (hids h) -> f j = null_hook)).
Proof.
  intros Hn. split.
  - intros He. split.
    + apply rep_agree. intros i k Hin. rewrite He. now apply in_lay.
    + intros j Hj. rewrite He. now apply lay_null.
  - intros [Hr Hnull] i. destruct (in_dec N.eq_dec i (hids h)) as [Hi|Hi].
    + apply (proj1 (rep_agree _ _ _) Hr). now apply lay_in.
    + rewrite Hnull by assumption. symmetry. now apply lay_null.
Qed.

Lemma hids_some x c : hids (Some (x, c)) = snd x :: ids c.
Proof. reflexivity. Qed.

Lemma to_ph_T t : to_ph (Some t) = T t.
Proof. destruct t; reflexivity. Qed.

(* NoDup of id lists follows permutations of the element lists *)
Lemma NoDup_ids_perm (l l' : list elt) : Permutation l l' -> NoDup (map snd l) -> NoDup (map snd l').
Proof. intros Hp. apply Permutation_NoDup. now apply Permutation_map. Qed.

Lemma prio_ok_perm pr (l l' : list elt) : Permutation l l' -> prio_ok pr l -> prio_ok pr l'.
Proof. intros Hp H e He. apply H. apply Permutation_sym in Hp. eapply Permutation_in; eauto. Qed.

Lemma prio_ok_incl pr (l l' : list elt) : incl l' l -> prio_ok pr l -> prio_ok pr l'.
Proof. intros Hi H e He. apply H, Hi, He. Qed.

Lemma elt_eta (x : elt) : (fst x, snd x) = x.
Proof. now destruct x. Qed.
