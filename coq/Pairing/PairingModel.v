(* Executable model of frg::pairing_heap (include/frg/pairing_heap.hpp).
   Definitions only -- proofs live in PairingProofs.v / PairingLinks.v.

   The C++ structure is a left-child/right-sibling forest threaded through three hook fields
   (child, backlink, sibling).  [ph] is that structure minus the backlinks (a sibling chain of
   subtrees); a detached root ([_root], or an argument of [_merge]: backlink = sibling = null) is a
   [tree] = element + child chain; the heap object is [option tree] ([_root == nullptr] = [None]).
   [layout] recomputes all three hook fields of every element from the functional structure. *)
From Coq Require Import List NArith Bool.
Import ListNotations.
Local Open Scope N_scope.

Definition elt := (N * N)%type.                 (* (priority, id); the id stands for the node's address *)
Inductive ph := Nil | Node (x : elt) (child sibling : ph).
Definition tree := (elt * ph)%type.
Definition heap := option tree.

Inductive outcome (A : Type) :=
| Ok (a : A)
| AssertStop          (* an FRG_ASSERT fired (documented precondition violated) *)
| UB.                 (* precondition violated without any assertion noticing: structure corrupted *)
Arguments Ok {A} a. Arguments AssertStop {A}. Arguments UB {A}.

Inductive op := Push (x : elt) | Pop | Remove (id : N).

Record hook := mk_hook { h_child : option N; h_backlink : option N; h_sibling : option N }.
Definition null_hook := mk_hook None None None.

(* ---- observation functions (no comparator involved) ---- *)

Fixpoint elems (h : ph) : list elt :=
  match h with Nil => [] | Node x c s => x :: elems c ++ elems s end.
Definition telems (t : tree) : list elt := fst t :: elems (snd t).
Definition helems (h : heap) : list elt := match h with None => [] | Some t => telems t end.
Definition hids (h : heap) : list N := map snd (helems h).

Definition top (h : heap) : option elt := option_map fst h.          (* top(): _root *)
Definition empty (h : heap) : bool := match h with None => true | Some _ => false end.
Definition member (id : N) (h : heap) : bool := existsb (N.eqb id) (hids h).

Definition to_ph (h : heap) : ph := match h with None => Nil | Some (x, c) => Node x c Nil end.

Definition head_id (h : ph) : option N := match h with Nil => None | Node x _ _ => Some (snd x) end.

(* hook fields of every node of the chain [h] whose first node has backlink [back]: the backlink
   handed down is the same for a first child (its parent) and a next sibling (its predecessor) *)
Fixpoint links (back : option N) (h : ph) : list (N * hook) :=
  match h with
  | Nil => []
  | Node x c s =>
    (snd x, mk_hook (head_id c) back (head_id s))
      :: links (Some (snd x)) c ++ links (Some (snd x)) s
  end.

Fixpoint lookup (id : N) (l : list (N * hook)) : option hook :=
  match l with
  | [] => None
  | (i, k) :: r => if N.eqb i id then Some k else lookup id r
  end.

Definition layout_ph (h : ph) (id : N) : hook :=
  match lookup id (links None h) with Some k => k | None => null_hook end.
Definition layout (h : heap) (id : N) : hook := layout_ph (to_ph h) id.

Section WithCmp.
(* the user's Compare: [cmp a b = true] makes [a] a child of [b] in _merge, i.e. "a has lower
   priority than b" (std::less gives a max-heap) *)
Variable cmp : elt -> elt -> bool.

(* _merge(a, b) *)
Definition merge (a b : tree) : tree :=
  let '(x, ca) := a in
  let '(y, cb) := b in
  if cmp x y then (y, Node x ca cb) else (x, Node y cb ca).

(* _collapse, first loop: siblings are merged in pairs left to right, each merged pair is pushed on
   a stack (threaded through backlink in the C++; most recent first); an odd last one is left over *)
Fixpoint pairs (h : ph) (stack : list tree) : list tree * option tree :=
  match h with
  | Nil => (stack, None)
  | Node x c Nil => (stack, Some (x, c))
  | Node x c (Node y c' rest) => pairs rest (merge (x, c) (y, c') :: stack)
  end.

(* _collapse, second loop: joined = _merge(joined, paired), starting from the leftover or else from
   the most recent pair.  [collapse Nil = None] is the [if(child) ... else] of the callers. *)
Definition collapse (h : ph) : option tree :=
  match pairs h [] with
  | (stack, Some t) => Some (fold_left merge stack t)
  | (p :: ps, None) => Some (fold_left merge ps p)
  | ([], None) => None
  end.

(* push(element) *)
Definition push (x : elt) (h : heap) : heap :=
  match h with
  | None => Some (x, Nil)
  | Some t => Some (merge t (x, Nil))
  end.

(* pop() on a non-empty heap *)
Definition pop_t (t : tree) : heap := collapse (snd t).

(* the unlink step of remove(): take the node [id] out of its sibling chain; result = (structure
   without the node, the node's child chain) *)
Fixpoint cut (id : N) (h : ph) : option (ph * ph) :=
  match h with
  | Nil => None
  | Node x c s =>
    if N.eqb (snd x) id then Some (s, c)
    else match cut id c with
         | Some (c', ch) => Some (Node x c' s, ch)
         | None =>
           match cut id s with
           | Some (s', ch) => Some (Node x c s', ch)
           | None => None
           end
         end
  end.

(* remove(element) on a non-empty heap; [None] = FRG_ASSERT(predecessor) fires (not contained) *)
Definition remove_t (id : N) (t : tree) : option heap :=
  let '(x, c) := t in
  if N.eqb (snd x) id then Some (collapse c)
  else match cut id c with
       | None => None
       | Some (c', ch) =>
         Some (Some (match collapse ch with
                     | None => (x, c')
                     | Some t' => merge (x, c') t'
                     end))
       end.

Definition step (h : heap) (o : op) : outcome heap :=
  match o with
  | Push x =>
    if member (snd x) h then
      (* hook of a contained element: some field non-null -> FRG_ASSERT in push(); except when it is
         the sole element (all three fields null): _merge(_root, _root) makes it its own child *)
      match h with Some (_, Nil) => UB | _ => AssertStop end
    else Ok (push x h)
  | Pop => match h with None => AssertStop | Some t => Ok (pop_t t) end
  | Remove id =>
    match h with
    | None => AssertStop
    | Some t => match remove_t id t with None => AssertStop | Some h' => Ok h' end
    end
  end.

(* run a script; stops at the first step that is not Ok *)
Fixpoint run (h : heap) (ops : list op) : outcome heap :=
  match ops with
  | [] => Ok h
  | o :: r => match step h o with Ok h' => run h' r | AssertStop => AssertStop | UB => UB end
  end.

End WithCmp.
