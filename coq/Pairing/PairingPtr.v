(* Pointer-level model of frg::pairing_heap (include/frg/pairing_heap.hpp): the three hook fields of
   every node as a total function id -> hook, the heap object's _root, and _merge / _collapse /
   push / pop / remove transliterated ASSIGNMENT BY ASSIGNMENT in source order.
   Definitions only -- the refinement proof to the functional model (PairingModel.v) is in
   PairingRefine*.v.

   Conventions
   * a node pointer is an id (N); a nullable pointer is [option N]; [h(p).field] is [h_field (f p)];
     an assignment [h(p).field = v] is [set_field f p v] (a point update of the total function).
   * every FRG_ASSERT is [frg_assert c k]: outcome [PAssertStop] when [c] is false.
   * [h(p)] with p == nullptr (only possible where the source dereferences a nullable local:
     [h(paired)] in _collapse, [h(_root)] inside _merge called from remove) is [PNullDeref].
   * loops carry explicit fuel: one unit per ITERATION (the loop condition is evaluated before fuel
     is looked at); running out is the distinct outcome [POutOfFuel].
   * the node's priority is a field of the node, not of the hook: [p_prio]; the user's Compare
     receives the two node pointers and reads it: [cmp (pr a, a) (pr b, b)]. *)
From Coq Require Import List NArith Bool.
From FV Require Import Pairing.PairingModel.
Import ListNotations.
Local Open Scope N_scope.

Definition hooks := N -> hook.

Record pstate := mk_pstate {
  p_hooks : hooks;             (* hook of every node (all-null for nodes never touched) *)
  p_prio : N -> N;             (* priority field of every node *)
  p_root : option N            (* pairing_heap::_root *)
}.

Definition null_hooks : hooks := fun _ => null_hook.
Definition p_init : pstate := mk_pstate null_hooks (fun _ => 0) None.

Inductive pres (A : Type) :=
| POk (a : A)
| PAssertStop        (* an FRG_ASSERT fired *)
| PNullDeref         (* h(nullptr) *)
| POutOfFuel.        (* a loop ran longer than the fuel given *)
Arguments POk {A} a. Arguments PAssertStop {A}. Arguments PNullDeref {A}. Arguments POutOfFuel {A}.

Definition bind {A B} (m : pres A) (k : A -> pres B) : pres B :=
  match m with
  | POk a => k a
  | PAssertStop => PAssertStop
  | PNullDeref => PNullDeref
  | POutOfFuel => POutOfFuel
  end.

Definition frg_assert {A} (c : bool) (k : pres A) : pres A := if c then k else PAssertStop.

(* ---- memory: point updates of single fields ---- *)
Definition upd {V} (f : N -> V) (i : N) (v : V) : N -> V := fun j => if N.eqb j i then v else f j.

Definition set_child (f : hooks) (p : N) (v : option N) : hooks :=
  upd f p (mk_hook v (h_backlink (f p)) (h_sibling (f p))).
Definition set_backlink (f : hooks) (p : N) (v : option N) : hooks :=
  upd f p (mk_hook (h_child (f p)) v (h_sibling (f p))).
Definition set_sibling (f : hooks) (p : N) (v : option N) : hooks :=
  upd f p (mk_hook (h_child (f p)) (h_backlink (f p)) v).

Definition is_null (p : option N) : bool := match p with None => true | Some _ => false end.
Definition ptr_eqb (p q : option N) : bool :=
  match p, q with
  | None, None => true
  | Some a, Some b => N.eqb a b
  | _, _ => false
  end.

Section WithCmp.
Variable cmp : elt -> elt -> bool.

(* T *_merge(T *a, T *b) *)
Definition p_merge (pr : N -> N) (f : hooks) (a b : N) : pres (hooks * N) :=
  frg_assert (is_null (h_backlink (f a)) && is_null (h_sibling (f a))) (
  frg_assert (is_null (h_backlink (f b)) && is_null (h_sibling (f b))) (
  if cmp (pr a, a) (pr b, b) then
    let sibling := h_child (f b) in
    bind (match sibling with
          | Some s =>
            frg_assert (ptr_eqb (h_backlink (f s)) (Some b)) (
            POk (set_backlink f s (Some a)))
          | None => POk f
          end) (fun f =>
    let f := set_sibling f a sibling in
    let f := set_backlink f a (Some b) in
    let f := set_child f b (Some a) in
    POk (f, b))
  else
    let sibling := h_child (f a) in
    bind (match sibling with
          | Some s =>
            frg_assert (ptr_eqb (h_backlink (f s)) (Some a)) (
            POk (set_backlink f s (Some b)))
          | None => POk f
          end) (fun f =>
    let f := set_sibling f b sibling in
    let f := set_backlink f b (Some a) in
    let f := set_child f a (Some b) in
    POk (f, a)))).

(* _collapse, first loop: while(element && h(element).sibling) { ... }
   result: (memory, paired, element) at loop exit *)
Fixpoint p_collapse_pair (pr : N -> N) (fuel : nat) (f : hooks) (paired element : option N) {struct fuel}
  : pres (hooks * option N * option N) :=
  match element with
  | None => POk (f, paired, element)
  | Some e =>
    match h_sibling (f e) with
    | None => POk (f, paired, element)
    | Some partner =>
      match fuel with
      | O => POutOfFuel
      | S fuel' =>
        (* auto partner = h(element).sibling; *)
        let next := h_sibling (f partner) in
        let f := set_backlink f e None in
        let f := set_sibling f e None in
        frg_assert (ptr_eqb (h_backlink (f partner)) (Some e)) (
        let f := set_backlink f partner None in
        let f := set_sibling f partner None in
        bind (p_merge pr f e partner) (fun fm =>
        let '(f, merged) := fm in
        frg_assert (is_null (h_backlink (f merged))) (
        let f := set_backlink f merged paired in
        (* paired = merged; element = next; *)
        p_collapse_pair pr fuel' f (Some merged) next)))
      end
    end
  end.

(* _collapse, second loop: while(paired) { ... } *)
Fixpoint p_collapse_join (pr : N -> N) (fuel : nat) (f : hooks) (joined : N) (paired : option N) {struct fuel}
  : pres (hooks * N) :=
  match paired with
  | None => POk (f, joined)
  | Some p =>
    match fuel with
    | O => POutOfFuel
    | S fuel' =>
      let predecessor := h_backlink (f p) in
      let f := set_backlink f p None in
      frg_assert (is_null (h_sibling (f p))) (
      bind (p_merge pr f joined p) (fun fj =>
      let '(f, joined) := fj in
      (* paired = predecessor; *)
      p_collapse_join pr fuel' f joined predecessor))
    end
  end.

(* T *_collapse(T *head) *)
Definition p_collapse (pr : N -> N) (fuel : nat) (f : hooks) (head : option N) : pres (hooks * N) :=
  frg_assert (negb (is_null head)) (
  (* T *paired = nullptr; T *element = head; *)
  bind (p_collapse_pair pr fuel f None head) (fun fpe =>
  let '(f, paired, element) := fpe in
  bind (match element with
        | Some e =>
          let f := set_backlink f e None in
          POk (f, e, paired)                       (* joined = element *)
        | None =>
          match paired with
          | None => PNullDeref                      (* h(paired) *)
          | Some p =>
            let predecessor := h_backlink (f p) in
            let f := set_backlink f p None in
            frg_assert (is_null (h_sibling (f p))) (
            POk (f, p, predecessor))               (* joined = paired; paired = predecessor *)
          end
        end) (fun fjp =>
  let '(f, joined, paired) := fjp in
  p_collapse_join pr fuel f joined paired))).

(* void push(T *element) *)
Definition p_push (s : pstate) (e : N) : pres pstate :=
  let f := p_hooks s in
  frg_assert (is_null (h_child (f e))) (
  frg_assert (is_null (h_backlink (f e)) && is_null (h_sibling (f e))) (
  match p_root s with
  | Some r =>
    bind (p_merge (p_prio s) f r e) (fun fr =>
    let '(f, r') := fr in
    POk (mk_pstate f (p_prio s) (Some r')))
  | None => POk (mk_pstate f (p_prio s) (Some e))
  end)).

(* void pop() *)
Definition p_pop (fuel : nat) (s : pstate) : pres pstate :=
  match p_root s with
  | None => PAssertStop                              (* FRG_ASSERT(_root) *)
  | Some r =>
    let f := p_hooks s in
    let child := h_child (f r) in
    let f := set_child f r None in
    frg_assert (is_null (h_backlink (f r)) && is_null (h_sibling (f r))) (
    match child with
    | Some c =>
      frg_assert (ptr_eqb (h_backlink (f c)) (Some r)) (
      let f := set_backlink f c None in
      bind (p_collapse (p_prio s) fuel f (Some c)) (fun fr =>
      let '(f, r') := fr in
      POk (mk_pstate f (p_prio s) (Some r'))))
    | None => POk (mk_pstate f (p_prio s) None)
    end)
  end.

(* void remove(T *element) *)
Definition p_remove (fuel : nat) (s : pstate) (e : N) : pres pstate :=
  if ptr_eqb (p_root s) (Some e) then p_pop fuel s
  else
    let f := p_hooks s in
    let predecessor := h_backlink (f e) in
    let sibling := h_sibling (f e) in
    let child := h_child (f e) in
    match predecessor with
    | None => PAssertStop                            (* FRG_ASSERT(predecessor) *)
    | Some pd =>
      bind (if ptr_eqb (h_child (f pd)) (Some e) then POk (set_child f pd sibling)
            else frg_assert (ptr_eqb (h_sibling (f pd)) (Some e)) (
                 POk (set_sibling f pd sibling))) (fun f =>
      let f := match sibling with
               | Some sb => set_backlink f sb predecessor
               | None => f
               end in
      bind (match child with
            | Some c =>
              frg_assert (ptr_eqb (h_backlink (f c)) (Some e)) (
              let f := set_backlink f c None in
              bind (p_collapse (p_prio s) fuel f (Some c)) (fun ft =>
              let '(f, t) := ft in
              match p_root s with
              | None => PNullDeref                   (* h(_root) in _merge *)
              | Some r =>
                bind (p_merge (p_prio s) f r t) (fun fr =>
                let '(f, r') := fr in
                POk (f, Some r'))
              end))
            | None => POk (f, p_root s)
            end) (fun frt =>
      let '(f, root) := frt in
      let f := set_backlink f e None in
      let f := set_sibling f e None in
      let f := set_child f e None in
      POk (mk_pstate f (p_prio s) root)))
    end.

(* one script operation.  [Push (p, id)]: the caller stores the priority in the node, then pushes
   the node (the harness does exactly this for a node that is not contained). *)
Definition p_step (fuel : nat) (s : pstate) (o : op) : pres pstate :=
  match o with
  | Push x => p_push (mk_pstate (p_hooks s) (upd (p_prio s) (snd x) (fst x)) (p_root s)) (snd x)
  | Pop => p_pop fuel s
  | Remove id => p_remove fuel s id
  end.

(* run a script with the same fuel for every operation; stops at the first step that is not POk *)
Fixpoint p_run (fuel : nat) (s : pstate) (ops : list op) : pres pstate :=
  match ops with
  | [] => POk s
  | o :: r => bind (p_step fuel s o) (fun s' => p_run fuel s' r)
  end.

End WithCmp.

(* ---- abstraction: read the child/sibling tree back out of the memory (fuel = bound on the number
   of nodes visited along any path) ---- *)
Fixpoint abs_ph (fuel : nat) (f : hooks) (pr : N -> N) (p : option N) : ph :=
  match p, fuel with
  | Some i, S fuel' =>
    Node (pr i, i) (abs_ph fuel' f pr (h_child (f i))) (abs_ph fuel' f pr (h_sibling (f i)))
  | _, _ => Nil
  end.

Definition abs (fuel : nat) (s : pstate) : heap :=
  match p_root s with
  | None => None
  | Some r => Some ((p_prio s r, r), abs_ph fuel (p_hooks s) (p_prio s) (h_child (p_hooks s r)))
  end.
