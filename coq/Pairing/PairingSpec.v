(* Specification vocabulary for C08 (definitions only, no proofs): what the theorems in
   Props/Properties_C08.v talk about.  Nothing here is extracted. *)
From Coq Require Import List NArith Bool Permutation.
From FV Require Import Pairing.PairingModel.
Import ListNotations.
Local Open Scope N_scope.

(* ---- heap order, stated over the list of all (parent, child) pairs of the structure ---- *)
Fixpoint chain_roots (h : ph) : list elt :=
  match h with Nil => [] | Node x _ s => x :: chain_roots s end.
Fixpoint parent_child (h : ph) : list (elt * elt) :=
  match h with
  | Nil => []
  | Node x c s => map (pair x) (chain_roots c) ++ parent_child c ++ parent_child s
  end.

(* ---- the reference: a multiset (list up to Permutation) of elements with unique ids ---- *)
Fixpoint extract (f : elt -> bool) (m : list elt) : option (elt * list elt) :=
  match m with
  | [] => None
  | y :: r => if f y then Some (y, r)
              else match extract f r with Some (z, r') => Some (z, y :: r') | None => None end
  end.
Definition elt_eqb (a b : elt) : bool := N.eqb (fst a) (fst b) && N.eqb (snd a) (snd b).

(* one step of the reference, fed with what top() returned BEFORE the operation (this is exactly
   what the harness oracle does with its std::multiset): [None] = the operation's precondition
   does not hold *)
Definition ref_step (m : list elt) (o : op) (t : option elt) : option (list elt) :=
  match o with
  | Push x => if existsb (N.eqb (snd x)) (map snd m) then None else Some (x :: m)
  | Pop => match t with
           | None => None
           | Some x => option_map snd (extract (elt_eqb x) m)     (* exactly the element top() returned *)
           end
  | Remove id => option_map snd (extract (fun y => N.eqb (snd y) id) m)
  end.

(* the structure with priorities erased: what the hook fields can (and do) determine *)
Fixpoint erase (h : ph) : ph :=
  match h with Nil => Nil | Node x c s => Node (0, snd x) (erase c) (erase s) end.

Section WithCmp.
Variable cmp : elt -> elt -> bool.

Definition heap_ordered (h : heap) : Prop :=
  forall p c, In (p, c) (parent_child (to_ph h)) -> cmp p c = false.

(* heaps that some history of successful operations produces from the empty heap *)
Inductive reachable : heap -> Prop :=
| reach_empty : reachable None
| reach_step h o h' : reachable h -> step cmp h o = Ok h' -> reachable h'.

(* top() is a maximum of the multiset [m]; empty() says whether [m] is empty *)
Definition top_is_max (h : heap) (m : list elt) : Prop :=
  match top h with
  | None => m = []
  | Some x => In x m /\ forall y, In y m -> cmp x y = false
  end.
Definition observations_ok (h : heap) (m : list elt) : Prop :=
  Permutation (helems h) m /\ top_is_max h m /\ (empty h = true <-> m = []).

(* every hook field is what the pointer structure needs *)
Definition links_consistent (h : heap) : Prop :=
  (* the root has neither backlink nor sibling, and is the only contained element without backlink *)
  (forall x, top h = Some x -> h_backlink (layout h (snd x)) = None /\ h_sibling (layout h (snd x)) = None) /\
  (forall a, In a (hids h) -> h_backlink (layout h a) = None -> option_map snd (top h) = Some a) /\
  (* child and sibling are inverted by backlink *)
  (forall a b, h_child (layout h a) = Some b -> h_backlink (layout h b) = Some a) /\
  (forall a b, h_sibling (layout h a) = Some b -> h_backlink (layout h b) = Some a) /\
  (* the backlink of b leads to its parent (b first child) or to its previous sibling, never both *)
  (forall a b, h_backlink (layout h b) = Some a ->
     (h_child (layout h a) = Some b /\ h_sibling (layout h a) <> Some b) \/
     (h_sibling (layout h a) = Some b /\ h_child (layout h a) <> Some b)) /\
  (* links never leave the heap *)
  (forall a b, h_child (layout h a) = Some b \/ h_backlink (layout h a) = Some b \/ h_sibling (layout h a) = Some b ->
     In a (hids h) /\ In b (hids h) /\ a <> b) /\
  (* everything that is not contained has the all-null hook *)
  (forall a, ~ In a (hids h) -> layout h a = null_hook).

(* popping until empty ([fuel] = number of elements suffices): the sequence of tops delivered *)
Fixpoint drain (fuel : nat) (h : heap) : list elt :=
  match fuel, h with
  | S f, Some t => fst t :: drain f (pop_t cmp t)
  | _, _ => []
  end.

(* the model and the reference multiset in lock step over a script; the reference is fed with the
   model's top(); a step that is not Ok must be one whose precondition fails in the reference *)
Fixpoint lockstep (h : heap) (m : list elt) (ops : list op) : Prop :=
  observations_ok h m /\ heap_ordered h /\ NoDup (hids h) /\ links_consistent h /\
  match ops with
  | [] => True
  | o :: r =>
    match step cmp h o, ref_step m o (top h) with
    | Ok h', Some m' => lockstep h' m' r
    | AssertStop, None => True
    | UB, None => True
    | _, _ => False
    end
  end.

End WithCmp.
