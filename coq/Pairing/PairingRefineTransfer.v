(* Refinement, part 5: the C08 theorems transferred to the pointer-level model through the
   abstraction function [abs] (PairingPtr.v), and the fuel bound "number of elements + 1". *)
From Coq Require Import List NArith Bool Permutation Lia.
From FV Require Import Pairing.PairingModel Pairing.PairingSpec Pairing.PairingProofs Pairing.PairingLinks
  Pairing.PairingHistory Pairing.PairingPtr Pairing.PairingRefineBase Pairing.PairingRefine.
Import ListNotations.
Local Open Scope N_scope.

Section Transfer.
Variable cmp : elt -> elt -> bool.

(* fuel = number of elements + 1 suffices for every operation (number of elements does, too) *)
Lemma step_fuel_suffices h s o :
  NoDup (hids h) -> R h s ->
  let r := p_step cmp (S (length (helems h))) s o in r <> POutOfFuel /\ r <> PNullDeref.
Proof.
  intros Hn HR r. subst r.
  pose proof (step_refines cmp (S (length (helems h))) h s o Hn HR ltac:(lia)) as H.
  destruct (step cmp h o).
  - destruct H as (s' & -> & _). split; discriminate.
  - rewrite H. split; discriminate.
  - destruct H as (s' & x & _ & -> & _). split; discriminate.
Qed.

(* the pointer-level run of a script that the functional model runs through *)
Lemma run_transfer ops fuel h :
  (length ops <= fuel)%nat -> run cmp None ops = Ok h ->
  exists s, p_run cmp fuel p_init ops = POk s /\ R h s /\ abs fuel s = h /\ reachable cmp h.
Proof.
  intros Hf Hrun.
  pose proof (run_refines_from cmp ops fuel None p_init ltac:(constructor) R_init ltac:(cbn; lia)) as H.
  rewrite Hrun in H. destruct H as (s & H1 & H2 & H3 & H4).
  exists s. split; [assumption|]. split; [assumption|]. split; [now apply abs_R|].
  apply (run_reachable cmp ops None h); [constructor | assumption].
Qed.

Section Order.
Hypothesis cmp_asym : forall a b, cmp a b = true -> cmp b a = false.
Hypothesis cmp_negtrans : forall a b c, cmp a b = false -> cmp b c = false -> cmp a c = false.

(* what C08 says about the functional heap holds of the pointer-level state, read through [abs]:
   the memory is exactly the layout of [abs], which is heap ordered, has unique ids and consistent
   links, and _root is a maximum of its content *)
Theorem ptr_observations ops fuel h :
  (length ops <= fuel)%nat -> run cmp None ops = Ok h ->
  exists s, p_run cmp fuel p_init ops = POk s /\
    let a := abs fuel s in
    a = h /\
    (forall i, p_hooks s i = layout a i) /\
    heap_ordered cmp a /\ NoDup (hids a) /\ links_consistent a /\
    match p_root s with
    | None => helems a = []
    | Some r => In (p_prio s r, r) (helems a) /\ forall y, In y (helems a) -> cmp (p_prio s r, r) y = false
    end.
Proof.
  intros Hf Hrun. destruct (run_transfer ops fuel h Hf Hrun) as (s & H1 & HR & Ha & Hreach).
  exists s. split; [assumption|]. cbn zeta. rewrite Ha. split; [reflexivity|].
  destruct HR as (Hlay & Hroot & Hpr).
  split; [exact Hlay|]. split; [exact (heap_order_reachable cmp cmp_asym h Hreach)|].
  split; [exact (nodup_reachable cmp cmp_asym h Hreach)|].
  split; [exact (links_reachable cmp cmp_asym h Hreach)|].
  rewrite Hroot. destruct h as [[x c]|]; cbn [top option_map fst]; [|reflexivity].
  rewrite (Hpr x) by now left. rewrite elt_eta.
  exact (top_max_reachable cmp cmp_asym cmp_negtrans (Some (x, c)) x Hreach eq_refl).
Qed.

End Order.

(* multiset laws of single pointer-level operations, read through [abs] *)
Theorem ptr_multiset_step fuel h s o h' :
  NoDup (hids h) -> R h s -> (length (helems h) <= fuel)%nat -> step cmp h o = Ok h' ->
  exists s', p_step cmp fuel s o = POk s' /\ abs fuel s = h /\ abs (S fuel) s' = h' /\
    match o with
    | Push x => Permutation (helems (abs (S fuel) s')) (x :: helems (abs fuel s))
    | Pop => exists r, p_root s = Some r /\
               Permutation (helems (abs fuel s)) ((p_prio s r, r) :: helems (abs (S fuel) s'))
    | Remove id => exists p, Permutation (helems (abs fuel s)) ((p, id) :: helems (abs (S fuel) s'))
    end.
Proof.
  intros Hn HR Hf Hs.
  pose proof (step_refines cmp fuel h s o Hn HR Hf) as H. rewrite Hs in H. destruct H as (s' & Hp & HR').
  pose proof (step_nodup cmp h o h' Hn Hs) as Hn'. pose proof (step_size cmp h o h' Hs) as Hsz.
  assert (abs fuel s = h) as Ea by now apply abs_R.
  assert (abs (S fuel) s' = h') as Ea' by (apply abs_R; try assumption; lia).
  exists s'. split; [assumption|]. split; [assumption|]. split; [assumption|]. rewrite Ea, Ea'.
  destruct o as [x| |id].
  - exact (proj2 (step_push_elems cmp h x h' Hs)).
  - destruct (step_pop_elems cmp h h' Hs) as (t & Ht & Hperm).
    destruct HR as (_ & Hroot & Hpr). exists (snd t). rewrite Hroot, Ht. split; [reflexivity|].
    rewrite (Hpr t), elt_eta; [exact Hperm|]. destruct h as [[x c]|]; [|discriminate]. inversion Ht. now left.
  - destruct (step_remove_elems cmp h id h' Hs) as (x & Hx & _ & Hperm). exists (fst x).
    rewrite <- Hx, elt_eta. exact Hperm.
Qed.

End Transfer.
