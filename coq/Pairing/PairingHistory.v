(* History-level results for C08: the invariant of reachable heaps, agreement of the model with the
   reference multiset over every script, and the statements Props/Properties_C08.v exports. *)
From Coq Require Import List NArith Bool Permutation Sorted Lia.
From FV Require Import Pairing.PairingModel Pairing.PairingSpec Pairing.PairingProofs Pairing.PairingLinks.
Import ListNotations.
Local Open Scope N_scope.

Lemma existsb_eqb_In id l : existsb (N.eqb id) l = true <-> In id l.
Proof.
  rewrite existsb_exists. split.
  - intros (y & Hy & E). apply N.eqb_eq in E. now subst.
  - intros H. exists id. split; [assumption | apply N.eqb_refl].
Qed.

Lemma empty_iff h : empty h = true <-> helems h = [].
Proof. destruct h as [[x c]|]; cbn; split; intros; try reflexivity; discriminate. Qed.

Section History.
Variable cmp : elt -> elt -> bool.

Definition Inv (h : heap) : Prop := hord_h cmp h /\ NoDup (hids h).

(* ---- what each successful step does to the multiset (no hypothesis on cmp) ---- *)
Lemma step_push_elems h x h' :
  step cmp h (Push x) = Ok h' -> ~ In (snd x) (hids h) /\ Permutation (helems h') (x :: helems h).
Proof.
  cbn [step]. destruct (member (snd x) h) eqn:Em; [destruct h as [[? []]|]; discriminate|].
  intros H. inversion H; subst. split; [|apply push_elems].
  rewrite <- member_In. congruence.
Qed.

Lemma step_pop_elems h h' :
  step cmp h Pop = Ok h' -> exists t, top h = Some t /\ Permutation (helems h) (t :: helems h').
Proof.
  cbn [step]. destruct h as [t|]; [|discriminate]. intros H. inversion H; subst.
  exists (fst t). split; [reflexivity | apply pop_elems].
Qed.

Lemma step_remove_elems h id h' :
  step cmp h (Remove id) = Ok h' ->
  exists x, snd x = id /\ In x (helems h) /\ Permutation (helems h) (x :: helems h').
Proof.
  cbn [step]. destruct h as [t|]; [|discriminate].
  destruct (remove_t cmp id t) as [h1|] eqn:Er; [|discriminate].
  intros H. inversion H; subst. destruct (remove_elems _ _ _ _ Er) as (x & Hx & Hp).
  exists x. repeat split; try assumption.
  apply Permutation_sym in Hp. apply (Permutation_in _ Hp). now left.
Qed.

Lemma step_remove_defined h id :
  In id (hids h) -> exists h', step cmp h (Remove id) = Ok h'.
Proof.
  intros Hin. cbn [step]. destruct h as [t|]; [|destruct Hin].
  destruct (remove_t cmp id t) as [h1|] eqn:Er; [eauto|].
  apply remove_None in Er. contradiction.
Qed.

(* which steps stop, and how *)
Definition precondition (h : heap) (o : op) : Prop :=
  match o with
  | Push x => ~ In (snd x) (hids h)
  | Pop => helems h <> []
  | Remove id => In id (hids h)
  end.

Lemma step_ok_iff h o : (exists h', step cmp h o = Ok h') <-> precondition h o.
Proof.
  destruct o as [x| |id]; cbn [precondition].
  - cbn [step]. rewrite <- member_In. destruct (member (snd x) h).
    + split; [intros [h' H]; destruct h as [[? []]|]; discriminate | intros H; exfalso; now apply H].
    + split; [intros _; discriminate | eauto].
  - cbn [step]. destruct h as [[x c]|]; cbn [helems telems].
    + split; [intros _; discriminate | eauto].
    + split; [intros [h' H]; discriminate | intros H; now exfalso].
  - split; [|apply step_remove_defined].
    intros [h' H]. destruct (step_remove_elems _ _ _ H) as (x & Hx & Hin & _).
    subst. unfold hids. now apply in_map.
Qed.

Lemma step_ub_iff h o :
  step cmp h o = UB <-> exists x y, o = Push x /\ h = Some (y, Nil) /\ snd x = snd y.
Proof.
  split.
  - destruct o as [x| |id]; cbn [step].
    + destruct (member (snd x) h) eqn:Em; [|discriminate].
      destruct h as [[y [|]]|]; try discriminate. intros _.
      exists x, y. repeat split. unfold member, hids in Em. cbn in Em.
      rewrite orb_false_r in Em. now apply N.eqb_eq.
    + destruct h; discriminate.
    + destruct h as [t|]; [|discriminate]. destruct (remove_t cmp id t); discriminate.
  - intros (x & y & -> & -> & E). cbn [step]. unfold member, hids. cbn. rewrite E, N.eqb_refl. reflexivity.
Qed.

Section Order.
Hypothesis cmp_asym : forall a b, cmp a b = true -> cmp b a = false.

Lemma inv_step h o h' : Inv h -> step cmp h o = Ok h' -> Inv h'.
Proof.
  intros [H1 H2] Hs. split; [eapply step_hord | eapply step_nodup]; eauto.
Qed.

Lemma reachable_inv h : reachable cmp h -> Inv h.
Proof.
  induction 1 as [|h o h' _ IH Hs]; [split; [exact I | constructor]|].
  eapply inv_step; eauto.
Qed.

Theorem heap_order_reachable h : reachable cmp h -> heap_ordered cmp h.
Proof. intros H. apply hord_h_ordered. apply (reachable_inv _ H). Qed.

Theorem links_reachable h : reachable cmp h -> links_consistent h.
Proof. intros H. apply links_consistent_nodup. apply (reachable_inv _ H). Qed.

Theorem nodup_reachable h : reachable cmp h -> NoDup (hids h).
Proof. intros H. apply (reachable_inv _ H). Qed.

(* a removed (or popped) element has the all-null hook and can be pushed again *)
Theorem removed_hook_null h id h' :
  reachable cmp h -> step cmp h (Remove id) = Ok h' ->
  ~ In id (hids h') /\ layout h' id = null_hook /\
  forall p, step cmp h' (Push (p, id)) = Ok (push cmp (p, id) h').
Proof.
  intros Hr Hs. pose proof (nodup_reachable _ Hr) as Hn.
  destruct (step_remove_elems _ _ _ Hs) as (x & Hx & _ & Hp).
  destruct (NoDup_perm_cons _ _ _ Hp Hn) as [Hn' Hni]. rewrite Hx in Hni.
  assert (reachable cmp h') as Hr' by (econstructor; eauto).
  split; [exact Hni|]. split.
  - apply (links_reachable _ Hr'). exact Hni.
  - intros p. cbn [step snd]. destruct (member id h') eqn:Em; [|reflexivity].
    apply member_In in Em. contradiction.
Qed.

Theorem popped_hook_null h x h' :
  reachable cmp h -> top h = Some x -> step cmp h Pop = Ok h' ->
  ~ In (snd x) (hids h') /\ layout h' (snd x) = null_hook /\
  forall p, step cmp h' (Push (p, snd x)) = Ok (push cmp (p, snd x) h').
Proof.
  intros Hr Ht Hs. pose proof (nodup_reachable _ Hr) as Hn.
  destruct (step_pop_elems _ _ Hs) as (t & Ht' & Hp). rewrite Ht in Ht'. inversion Ht'; subst t.
  destruct (NoDup_perm_cons _ _ _ Hp Hn) as [Hn' Hni].
  assert (reachable cmp h') as Hr' by (econstructor; eauto).
  split; [exact Hni|]. split.
  - apply (links_reachable _ Hr'). exact Hni.
  - intros p. cbn [step snd]. destruct (member (snd x) h') eqn:Em; [|reflexivity].
    apply member_In in Em. contradiction.
Qed.

(* remove(x) of a contained x removes exactly x *)
Theorem remove_exactly h x :
  NoDup (hids h) -> In x (helems h) ->
  exists h', step cmp h (Remove (snd x)) = Ok h' /\ Permutation (helems h) (x :: helems h').
Proof.
  intros Hn Hin.
  destruct (step_remove_defined h (snd x)) as [h' Hs]; [unfold hids; now apply in_map|].
  exists h'. split; [exact Hs|].
  destruct (step_remove_elems _ _ _ Hs) as (y & Hy & Hiny & Hp).
  assert (y = x) as -> by (eapply nodup_same_id; eauto). exact Hp.
Qed.

Hypothesis cmp_negtrans : forall a b c, cmp a b = false -> cmp b c = false -> cmp a c = false.

Lemma top_max_inv h x :
  Inv h -> top h = Some x -> In x (helems h) /\ forall y, In y (helems h) -> cmp x y = false.
Proof.
  intros [Hh _] Ht. destruct h as [t|]; cbn [top option_map] in Ht; [|discriminate].
  inversion Ht; subst. cbn [helems hord_h] in *. split; [now left|].
  apply root_max; assumption.
Qed.

Theorem top_max_reachable h x :
  reachable cmp h -> top h = Some x -> In x (helems h) /\ forall y, In y (helems h) -> cmp x y = false.
Proof. intros Hr. apply top_max_inv. now apply reachable_inv. Qed.

Lemma obs_ok h m : Inv h -> Permutation (helems h) m -> observations_ok cmp h m.
Proof.
  intros Hi Hp. unfold observations_ok. split; [exact Hp|]. split.
  - unfold top_is_max. destruct (top h) as [x|] eqn:Ht.
    + destruct (top_max_inv _ _ Hi Ht) as [H1 H2]. split.
      * eapply Permutation_in; eauto.
      * intros y Hy. apply H2. apply Permutation_sym in Hp. eapply Permutation_in; eauto.
    + destruct h; [discriminate|]. cbn [helems] in Hp. now apply Permutation_nil.
  - rewrite empty_iff. split; intros E.
    + rewrite E in Hp. now apply Permutation_nil.
    + subst. apply Permutation_sym in Hp. now apply Permutation_nil.
Qed.

Lemma member_perm id h m : Permutation (helems h) m -> member id h = existsb (N.eqb id) (map snd m).
Proof.
  intros Hp. apply perm_ids in Hp.
  destruct (member id h) eqn:E1, (existsb (N.eqb id) (map snd m)) eqn:E2; try reflexivity.
  - apply member_In in E1. unfold hids in E1. apply (Permutation_in _ Hp) in E1.
    apply existsb_eqb_In in E1. congruence.
  - apply existsb_eqb_In in E2. apply Permutation_sym in Hp. apply (Permutation_in _ Hp) in E2.
    apply member_In in E2. congruence.
Qed.

Lemma lockstep_inv ops : forall h m, Inv h -> Permutation (helems h) m -> lockstep cmp h m ops.
Proof.
  induction ops as [|o ops IH]; intros h m Hi Hp; cbn [lockstep];
    (split; [now apply obs_ok|]); (split; [apply hord_h_ordered, Hi|]); (split; [apply Hi|]);
    (split; [apply links_consistent_nodup, Hi|]); [exact I|].
  pose proof (Permutation_NoDup (perm_ids _ _ Hp) (proj2 Hi)) as Hnm.
  destruct o as [x| |id].
  - (* push *)
    cbn [step ref_step]. rewrite <- (member_perm (snd x) _ _ Hp).
    destruct (member (snd x) h) eqn:Em.
    + destruct h as [[y [|]]|]; exact I.
    + apply IH.
      * apply (inv_step h (Push x)); [exact Hi|]. cbn [step]. now rewrite Em.
      * rewrite push_elems. now constructor.
  - (* pop *)
    destruct h as [t|]; cbn [step ref_step top option_map]; [|exact I].
    cbn [helems] in Hp.
    assert (In (fst t) m) as Hin by (apply (Permutation_in _ Hp); now left).
    destruct (extract (elt_eqb (fst t)) m) as [[y m']|] eqn:Ex; cbn [option_map snd].
    + destruct (extract_Some _ _ _ _ Ex) as [Hy Hm]. apply elt_eqb_eq in Hy. subst y.
      apply IH.
      * apply (inv_step (Some t) Pop); [exact Hi | reflexivity].
      * apply Permutation_cons_inv with (a := fst t).
        rewrite <- (pop_elems cmp t), Hp. exact Hm.
    + pose proof (extract_None _ _ Ex _ Hin) as Hf.
      assert (elt_eqb (fst t) (fst t) = true) by now apply elt_eqb_eq. congruence.
  - (* remove *)
    destruct h as [t|]; cbn [step ref_step].
    + cbn [helems] in Hp.
      destruct (remove_t cmp id t) as [h1|] eqn:Er.
      * destruct (remove_elems _ _ _ _ Er) as (x & Hx & Hpx).
        assert (In x m) as Hxm.
        { apply (Permutation_in _ Hp). apply Permutation_sym in Hpx. apply (Permutation_in _ Hpx). now left. }
        destruct (extract (fun y => N.eqb (snd y) id) m) as [[y m']|] eqn:Ex; cbn [option_map snd].
        -- destruct (extract_Some _ _ _ _ Ex) as [Hy Hm]. apply N.eqb_eq in Hy.
           assert (In y m) as Hym by (apply Permutation_sym in Hm; apply (Permutation_in _ Hm); now left).
           assert (x = y) as <- by (eapply nodup_same_id; eauto; congruence).
           apply IH.
           ++ apply (inv_step (Some t) (Remove id)); [exact Hi|]. cbn [step]. now rewrite Er.
           ++ apply Permutation_cons_inv with (a := x). rewrite <- Hpx, Hp. exact Hm.
        -- pose proof (extract_None _ _ Ex _ Hxm) as Hf. cbn beta in Hf.
           apply N.eqb_neq in Hf. contradiction.
      * destruct (extract (fun y => N.eqb (snd y) id) m) as [[y m']|] eqn:Ex; cbn [option_map snd]; [|exact I].
        destruct (extract_Some _ _ _ _ Ex) as [Hy Hm]. apply N.eqb_eq in Hy.
        apply remove_None in Er. apply Er.
        apply Permutation_sym in Hp. apply perm_ids in Hp. apply (Permutation_in _ Hp).
        rewrite <- Hy. apply in_map. apply Permutation_sym in Hm. apply (Permutation_in _ Hm). now left.
    + cbn [helems] in Hp. apply Permutation_nil in Hp. subst m. exact I.
Qed.

(* heap sort: popping a reachable heap until it is empty delivers every element exactly once, and
   no element is ordered below one delivered later *)
Lemma drain_inv fuel : forall h,
  Inv h -> length (helems h) = fuel ->
  Permutation (drain cmp fuel h) (helems h) /\
  StronglySorted (fun a b => cmp a b = false) (drain cmp fuel h).
Proof.
  induction fuel as [|f IH]; intros h Hi Hl.
  - destruct h as [[x c]|]; [discriminate|]. cbn. split; constructor.
  - destruct h as [t|]; [|discriminate]. cbn [drain].
    assert (Inv (pop_t cmp t)) as Hi' by (apply (inv_step (Some t) Pop); [exact Hi | reflexivity]).
    pose proof (pop_elems cmp t) as Hp. cbn [helems] in *.
    assert (length (helems (pop_t cmp t)) = f) as Hl'.
    { apply Permutation_length in Hp. cbn [length] in Hp. congruence. }
    destruct (IH _ Hi' Hl') as [H1 H2]. split.
    + rewrite Hp. now constructor.
    + constructor; [exact H2|]. apply Forall_forall. intros y Hy.
      apply (root_max cmp cmp_asym cmp_negtrans t (proj1 Hi)).
      apply Permutation_sym in Hp. apply (Permutation_in _ Hp). right.
      apply (Permutation_in _ H1 Hy).
Qed.

Theorem drain_sorted h :
  reachable cmp h ->
  Permutation (drain cmp (length (helems h)) h) (helems h) /\
  StronglySorted (fun a b => cmp a b = false) (drain cmp (length (helems h)) h).
Proof. intros Hr. apply drain_inv; [now apply reachable_inv | reflexivity]. Qed.

Theorem history ops : lockstep cmp None [] ops.
Proof. apply lockstep_inv; [split; [exact I | constructor] | constructor]. Qed.

End Order.
End History.

(* scripts that run through produce reachable heaps *)
Lemma run_reachable cmp ops : forall h h', reachable cmp h -> run cmp h ops = Ok h' -> reachable cmp h'.
Proof.
  induction ops as [|o ops IH]; intros h h' Hr H; cbn [run] in H.
  - inversion H; subst. exact Hr.
  - destruct (step cmp h o) as [h1| |] eqn:Es; try discriminate.
    apply (IH h1); [econstructor; eauto | exact H].
Qed.
