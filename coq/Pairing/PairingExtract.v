From FV Require Import Common.ExtractTypes Pairing.PairingModel Pairing.PairingPtr.
From Coq Require Extraction.
From Coq Require Import ExtrOcamlBasic.
Extraction "../build/extract/pairing_model.ml" types_witness step top empty layout helems
  p_init p_step p_run p_merge p_collapse upd set_child set_backlink set_sibling abs.
