From FV Require Import Common.ExtractTypes Pairing.PairingModel.
From Coq Require Extraction.
From Coq Require Import ExtrOcamlBasic.
Extraction "../build/extract/pairing_model.ml" types_witness step top empty layout helems.
