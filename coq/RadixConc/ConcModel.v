(* C10: frg::rcu_radixtree with ONE writer and any number of lock-free readers.  Definitions only.

   Writer  = the micro-step programs of the sequential model (Radix/RadixModel.v: fst (foi_prog ...),
             fst (insert_prog ...), fst (erase_prog ...)), one [mstep] per scheduler slot; every
             micro-step appends its write(s) to the release/acquire memory of RAView.v.
   Readers = [find k] transliterated from the source, ONE ATOMIC LOAD PER STEP (program counter + locals);
             the non-atomic reads of n->depth / n->prefix that follow a load are one step of their own.
   Scheduler = an arbitrary list of thread ids (0 = writer, S r = reader r) + an arbitrary choice
             function telling which admissible message each load returns (0 = the latest: SC).
   The memory orders are a PARAMETER ([orders], one field per access site of the source); the orders
   embedded in the micro-steps of the sequential model are NOT used.  Gen/RadixConcOrders.v instantiates
   the record from the clang AST.

   Locations:  LRoot | LLink n i | LMask n            atomic cells
               LPrefix n | LDepth n                   the node header ("Fields n"), non-atomic, written
                                                       only while the node is being initialised
               LSlot n i                              value storage, non-atomic (placement new)
               LParent n                              non-atomic; read only by the iterator (not modelled:
                                                       iteration under concurrent modification is unsupported) *)
From Coq Require Import List NArith Arith Bool.
From FV Require Import Common.EventLog Radix.RadixModel Radix.RadixBits RadixConc.RAView.
Import ListNotations.
Local Open Scope N_scope.

(* ---------------------------------------------------------------- locations and values *)
Inductive loc :=
| LRoot | LLink (n : nat) (i : N) | LMask (n : nat) | LPrefix (n : nat) | LDepth (n : nat)
| LSlot (n : nat) (i : N) | LParent (n : nat).

Definition loc_eqb (a b : loc) : bool :=
  match a, b with
  | LRoot, LRoot => true
  | LLink n i, LLink n' i' => Nat.eqb n n' && (i =? i')
  | LMask n, LMask n' => Nat.eqb n n'
  | LPrefix n, LPrefix n' => Nat.eqb n n'
  | LDepth n, LDepth n' => Nat.eqb n n'
  | LSlot n i, LSlot n' i' => Nat.eqb n n' && (i =? i')
  | LParent n, LParent n' => Nat.eqb n n'
  | _, _ => false
  end.

Inductive val :=
| VPtr (p : option nat)          (* node pointer: _root, links[i], parent *)
| VNum (x : N)                   (* prefix, depth, mask *)
| VSlot (k v : N).               (* a constructed value; k = the key it was stored under (ghost) *)

Notation msg := (RAView.msg loc val).
Notation log := (list (RAView.msg loc val)).
Notation view := (loc -> nat).
Definition mk (l : loc) (v : val) (rel na : bool) : msg := mk_msg l v rel na.

(* ---------------------------------------------------------------- memory orders per access site *)
Record orders := mk_orders {
  o_f_root : morder; o_f_mask : morder; o_f_link : morder;        (* find: the three loads *)
  o_c1_mask : morder; o_c1_link : morder; o_c1_root : morder;     (* find_or_insert case 1 *)
  o_c2_mask : morder; o_c2_null : morder; o_c2_lk : morder; o_c2_ls : morder;
  o_c2_link : morder; o_c2_root : morder;                         (* case 2 *)
  o_c3_mask : morder;                                             (* case 3 *)
  o_e_mask : morder                                               (* erase *)
}.

Definition is_rel (o : morder) : bool := match o with Release => true | _ => false end.
Definition is_acq (o : morder) : bool := match o with Acquire => true | _ => false end.

(* what the proofs need: acquire on the loads of find, release on the publishing stores; anything
   (in particular relaxed) on the stores into a node that is not yet published *)
Definition orders_sufficient (o : orders) : bool :=
  is_acq (o_f_root o) && is_acq (o_f_mask o) && is_acq (o_f_link o) &&
  is_rel (o_c1_link o) && is_rel (o_c1_root o) && is_rel (o_c2_link o) && is_rel (o_c2_root o) &&
  is_rel (o_c3_mask o) && is_rel (o_e_mask o).

(* the atomic stores of an operation, in program order *)
Inductive site := S_c1_mask | S_c1_pub | S_c2_mask | S_c2_null | S_c2_lk | S_c2_ls | S_c2_pub | S_c3_mask | S_e_mask.
Inductive wcase := C1 | C2 | C3 | CE.
Definition case_sites (c : wcase) : list site :=
  match c with
  | C1 => [S_c1_mask; S_c1_pub]
  | C2 => S_c2_mask :: repeat S_c2_null 16 ++ [S_c2_lk; S_c2_ls; S_c2_pub]
  | C3 => [S_c3_mask]
  | CE => [S_e_mask]
  end.
Definition site_order (o : orders) (s : site) (m : mstep) : morder :=
  match s with
  | S_c1_mask => o_c1_mask o
  | S_c1_pub => match m with MStoreRoot _ _ => o_c1_root o | _ => o_c1_link o end
  | S_c2_mask => o_c2_mask o
  | S_c2_null => o_c2_null o
  | S_c2_lk => o_c2_lk o
  | S_c2_ls => o_c2_ls o
  | S_c2_pub => match m with MStoreRoot _ _ => o_c2_root o | _ => o_c2_link o end
  | S_c3_mask => o_c3_mask o
  | S_e_mask => o_e_mask o
  end.

Definition is_store (m : mstep) : bool :=
  match m with MStoreMask _ _ _ | MStoreLink _ _ _ _ | MStoreRoot _ _ => true | _ => false end.
Definition is_alloc (m : mstep) : bool :=
  match m with MAllocEntry _ | MAllocLink _ => true | _ => false end.
Definition step_order (m : mstep) : morder :=
  match m with MStoreMask _ _ o | MStoreLink _ _ _ o | MStoreRoot _ o => o | _ => Relaxed end.

(* the order of the next atomic store and the sites that remain *)
Definition pop (o : orders) (sites : list site) (m : mstep) : morder * list site :=
  if is_store m then
    match sites with
    | s :: r => (site_order o s m, r)
    | [] => (step_order m, [])       (* not reached by the programs of the model *)
    end
  else (Relaxed, sites).

(* ---------------------------------------------------------------- the writes of a micro-step *)
Definition idx16 : list N := [0; 1; 2; 3; 4; 5; 6; 7; 8; 9; 10; 11; 12; 13; 14; 15].

(* construct<entry_node>() / construct<link_node>() value-initialise the node: non-atomic writes *)
Definition alloc_entry_msgs (n : nat) : list msg :=
  [mk (LPrefix n) (VNum 0) false true; mk (LDepth n) (VNum 0) false true; mk (LParent n) (VPtr None) false true;
   mk (LMask n) (VNum 0) false true].
Definition alloc_link_msgs (n : nat) : list msg :=
  [mk (LPrefix n) (VNum 0) false true; mk (LDepth n) (VNum 0) false true; mk (LParent n) (VPtr None) false true]
  ++ map (fun i => mk (LLink n i) (VPtr None) false true) idx16.

(* k: the key of the operation (ghost annotation of the constructed value); nn: number of nodes
   allocated so far (the id of the next node); o: the order of this store *)
Definition step_msgs (k : N) (nn : nat) (o : morder) (m : mstep) : list msg :=
  match m with
  | MAllocEntry _ => alloc_entry_msgs nn
  | MAllocLink _ => alloc_link_msgs nn
  | MSetPrefix n v => [mk (LPrefix n) (VNum v) false true]
  | MSetDepth n v => [mk (LDepth n) (VNum v) false true]
  | MSetParent n p => [mk (LParent n) (VPtr p) false true]
  | MStoreMask n v _ => [mk (LMask n) (VNum v) (is_rel o) false]
  | MConstruct n i v => [mk (LSlot n i) (VSlot k v) false true]
  | MStoreLink n i c _ => [mk (LLink n i) (VPtr c) (is_rel o) false]
  | MStoreRoot c _ => [mk LRoot (VPtr c) (is_rel o) false]
  end.

Fixpoint steps_msgs (o : orders) (k : N) (nn : nat) (sites : list site) (steps : list mstep) : list msg :=
  match steps with
  | [] => []
  | m :: r =>
      let '(ord, sites') := pop o sites m in
      step_msgs k nn ord m ++ steps_msgs o k (if is_alloc m then S nn else nn) sites' r
  end.

(* ---------------------------------------------------------------- writer operations *)
Inductive wop := WFoi (k v : N) | WInsert (k v : N) | WErase (k : N).
Definition wop_key (o : wop) : N := match o with WFoi k _ | WInsert k _ | WErase k => k end.

Definition is_ok {A} (o : outcome A) : bool := match o with Ok _ => true | _ => false end.

(* the micro-step program of an operation, computed from the state at its start, and whether it ends Ok *)
Definition op_steps (esz lsz : N) (s : st) (o : wop) : list mstep :=
  match o with
  | WFoi k v => fst (foi_prog esz lsz s k v)
  | WInsert k v => fst (insert_prog esz lsz s k v)
  | WErase k => fst (erase_prog s k)
  end.
Definition op_good (esz lsz : N) (s : st) (o : wop) : bool :=
  match o with
  | WFoi k v => is_ok (snd (foi_prog esz lsz s k v))
  | WInsert k v => is_ok (snd (insert_prog esz lsz s k v))
  | WErase k => is_ok (snd (erase_prog s k))
  end.
Definition op_case (s : st) (o : wop) : wcase :=
  match o with
  | WErase _ => CE
  | WFoi k _ | WInsert k _ =>
      match foi_walk 17 (nodes s) k None (root s) with
      | Ok (FCase1 _) => C1
      | Ok (FCase2 _ _) => C2
      | _ => C3
      end
  end.
Definition op_msgs (o : orders) (esz lsz : N) (s : st) (w : wop) : list msg :=
  steps_msgs o (wop_key w) (length (nodes s)) (case_sites (op_case s w)) (op_steps esz lsz s w).
Definition op_next (esz lsz : N) (s : st) (w : wop) : st :=
  match run_steps s (op_steps esz lsz s w) with Ok s' => s' | _ => s end.

(* the complete write log of a history (sequential composition): what every interleaving produces *)
Fixpoint hist_log (o : orders) (esz lsz : N) (s : st) (ops : list wop) : list msg :=
  match ops with
  | [] => []
  | w :: r => op_msgs o esz lsz s w ++ hist_log o esz lsz (op_next esz lsz s w) r
  end.
Fixpoint hist_states (esz lsz : N) (s : st) (ops : list wop) : list st :=
  s :: match ops with [] => [] | w :: r => hist_states esz lsz (op_next esz lsz s w) r end.

(* the constructor: _root{nullptr} *)
Definition log0 : log := [mk LRoot (VPtr None) false true].
Definition full_log (o : orders) (esz lsz : N) (ops : list wop) : log := log0 ++ hist_log o esz lsz st0 ops.

(* a history that respects the documented preconditions (keys are uint64_t; insert only absent keys,
   erase only present keys), decided by running it *)
Definition wop_okb (s : st) (o : wop) : bool :=
  match o with
  | WFoi k _ => k <? K64
  | WInsert k _ => (k <? K64) && match find s k with Ok None => true | _ => false end
  | WErase k => (k <? K64) && match find s k with Ok (Some _) => true | _ => false end
  end.
Fixpoint hist_okb (esz lsz : N) (s : st) (ops : list wop) : bool :=
  match ops with
  | [] => true
  | w :: r => wop_okb s w && hist_okb esz lsz (op_next esz lsz s w) r
  end.

(* ---------------------------------------------------------------- the writer thread *)
Record wstate := mk_w {
  w_st : st;                 (* the heap of the sequential model *)
  w_pend : list mstep;       (* micro-steps of the current operation that are still to be done *)
  w_sites : list site;       (* its atomic stores that are still to be done *)
  w_key : N;                 (* its key *)
  w_bad : bool;              (* it ends in an assertion / UB after its micro-steps *)
  w_ops : list wop;          (* operations not yet started *)
  w_stop : bool;             (* the writer has stopped (assertion / UB) *)
  w_done : nat               (* number of completed operations (ghost) *)
}.
Definition w_init (ops : list wop) : wstate := mk_w st0 [] [] 0 false ops false 0.
Definition w_started (w : wstate) : nat := match w_pend w with [] => w_done w | _ => S (w_done w) end.

Definition nil_b {A} (l : list A) : bool := match l with [] => true | _ => false end.

(* one scheduler slot of the writer: either start the next operation (its walk: the writer's own loads
   always see its own latest stores, they are not steps of their own) or do ONE micro-step *)
Definition wstep (o : orders) (esz lsz : N) (c : wstate * log) : wstate * log :=
  let '(w, L) := c in
  if w_stop w then c else
  match w_pend w with
  | m :: r =>
      match apply_step (w_st w) m with
      | Ok s' =>
          let '(ord, sites') := pop o (w_sites w) m in
          (mk_w s' r sites' (w_key w) (w_bad w) (w_ops w) (nil_b r && w_bad w)
                (if nil_b r && negb (w_bad w) then S (w_done w) else w_done w),
           L ++ step_msgs (w_key w) (length (nodes (w_st w))) ord m)
      | _ => (mk_w (w_st w) [] [] (w_key w) true (w_ops w) true (w_done w), L)
      end
  | [] =>
      match w_ops w with
      | [] => c
      | op :: os =>
          let steps := op_steps esz lsz (w_st w) op in
          let bad := negb (op_good esz lsz (w_st w) op) in
          (mk_w (w_st w) steps (case_sites (op_case (w_st w) op)) (wop_key op) bad os (nil_b steps && bad)
                (if nil_b steps && negb bad then S (w_done w) else w_done w), L)
      end
  end.

(* ---------------------------------------------------------------- a reader thread *)
Inductive ritem :=
| RFind (k : N)
| RSync.       (* external synchronisation with the writer (thread start, a lock, a message): join its view *)
Inductive rub := URace | UWild | UShiftR | UType.
Inductive rpc :=
| PIdle
| PHdr (k : N) (n : nat)               (* n != nullptr: about to read n->depth, n->prefix *)
| PMask (k : N) (n : nat) (ix : N)     (* about to load cn->mask *)
| PLink (k : N) (n : nat) (ix : N)     (* about to load cn->links[ix] *)
| PStuck (w : rub).                    (* undefined behaviour *)

Record frec := mk_frec {
  f_key : N; f_res : option addr;
  f_start : nat; f_end : nat;          (* global step numbers of the first load and of the return *)
  f_base0 : nat;                       (* lower bound of the whole view when the call started (ghost) *)
  f_mask : option nat;                 (* stamp of the mask message that was read (ghost) *)
  f_len : nat;                         (* length of the write log when the call returned (ghost) *)
  f_view : view                        (* the reader's view at the return *)
}.
Record rstate := mk_r {
  r_view : view;
  r_base : nat;                        (* ghost: a lower bound of r_view on every location *)
  r_pc : rpc;
  r_todo : list ritem;
  r_done : list frec;                  (* completed calls, most recent first *)
  r_start : nat; r_base0 : nat         (* of the call in progress *)
}.
Definition r_init (script : list ritem) : rstate := mk_r (fun _ => 1%nat) 1 PIdle script [] 0 0.

Definition finish (r : rstate) (V : view) (b : nat) (k : N) (res : option addr) (mj : option nat) (clk len : nat) : rstate :=
  mk_r V b PIdle (r_todo r) (mk_frec k res (r_start r) clk (r_base0 r) mj len V :: r_done r) (r_start r) (r_base0 r).
Definition stuck (r : rstate) (w : rub) : rstate :=
  mk_r (r_view r) (r_base r) (PStuck w) (r_todo r) (r_done r) (r_start r) (r_base0 r).
Definition goto (r : rstate) (V : view) (b : nat) (pc : rpc) : rstate :=
  mk_r V b pc (r_todo r) (r_done r) (r_start r) (r_base0 r).

Definition ratomic (acq : bool) (L : log) (V : view) (l : loc) (c : nat) := read_atomic loc val loc_eqb acq L V l c.
Definition rna (L : log) (V : view) (l : loc) := read_na loc val loc_eqb L V l.
Definition new_base (acq : bool) (b : nat) (j : nat) (m : msg) : nat := if acq && mrel m then Nat.max b (S j) else b.

(* n = <loaded pointer>; while(true) { if(!n) return nullptr; ... *)
Definition after_ptr (r : rstate) (V : view) (b : nat) (k : N) (p : option nat) (clk len : nat) : rstate :=
  match p with
  | None => finish r V b k None None clk len
  | Some n => goto r V b (PHdr k n)
  end.

Definition rstep (o : orders) (L : log) (clk c : nat) (r : rstate) : rstate :=
  match r_pc r with
  | PStuck _ => r
  | PIdle =>
      match r_todo r with
      | [] => r
      | RSync :: t =>
          mk_r (vjoin loc (r_view r) (length L)) (Nat.max (r_base r) (length L)) PIdle t (r_done r) (r_start r) (r_base0 r)
      | RFind k :: t =>
          (* auto n = _root.load(acquire) *)
          let r1 := mk_r (r_view r) (r_base r) PIdle t (r_done r) clk (r_base r) in
          match ratomic (is_acq (o_f_root o)) L (r_view r) LRoot c with
          | RGot j m V' =>
              match mval m with
              | VPtr p => after_ptr r1 V' (new_base (is_acq (o_f_root o)) (r_base r) j m) k p clk (length L)
              | _ => stuck r1 UType
              end
          | RRace => stuck r1 URace
          | RNoMsg => stuck r1 UWild
          end
      end
  | PHdr k n =>
      (* if(pfx_of(k, n->depth) != n->prefix) return nullptr; idx = idx_of(k, n->depth); if(n->depth == ll) *)
      match rna L (r_view r) (LDepth n), rna L (r_view r) (LPrefix n) with
      | RGot _ md _, RGot _ mx _ =>
          match mval md, mval mx with
          | VNum d, VNum x =>
              match pfx_of k d with
              | Ok px =>
                  if negb (px =? x) then finish r (r_view r) (r_base r) k None None clk (length L) else
                  match idx_of k d with
                  | Ok ix => goto r (r_view r) (r_base r) (if d =? ll then PMask k n ix else PLink k n ix)
                  | _ => stuck r UShiftR
                  end
              | _ => stuck r UShiftR
              end
          | _, _ => stuck r UType
          end
      | RRace, _ | _, RRace => stuck r URace
      | _, _ => stuck r UWild
      end
  | PMask k n ix =>
      (* auto mask = cn->mask.load(acquire); if(!(mask & (1 << idx))) return nullptr; return &entries[idx] *)
      match ratomic (is_acq (o_f_mask o)) L (r_view r) (LMask n) c with
      | RGot j m V' =>
          match mval m with
          | VNum mv =>
              finish r V' (new_base (is_acq (o_f_mask o)) (r_base r) j m) k
                     (if N.testbit mv ix then Some (n, ix) else None) (Some j) clk (length L)
          | _ => stuck r UType
          end
      | RRace => stuck r URace
      | RNoMsg => stuck r UWild         (* static_cast<entry_node *> of a link node *)
      end
  | PLink k n ix =>
      (* n = cn->links[idx].load(acquire) *)
      match ratomic (is_acq (o_f_link o)) L (r_view r) (LLink n ix) c with
      | RGot j m V' =>
          match mval m with
          | VPtr p => after_ptr r V' (new_base (is_acq (o_f_link o)) (r_base r) j m) k p clk (length L)
          | _ => stuck r UType
          end
      | RRace => stuck r URace
      | RNoMsg => stuck r UWild
      end
  end.

(* ---------------------------------------------------------------- the system *)
Record sys := mk_sys { s_w : wstate; s_log : log; s_rd : nat -> rstate; s_clk : nat }.

Definition sys_init (ops : list wop) (scripts : nat -> list ritem) : sys :=
  mk_sys (w_init ops) log0 (fun r => r_init (scripts r)) 0.

(* thread 0 = the writer, thread S r = reader r; c = which admissible message a load returns *)
Definition sys_step (o : orders) (esz lsz : N) (S0 : sys) (t : nat) (c : nat) : sys :=
  match t with
  | O => let '(w', L') := wstep o esz lsz (s_w S0, s_log S0) in mk_sys w' L' (s_rd S0) (S (s_clk S0))
  | S r =>
      let r' := rstep o (s_log S0) (s_clk S0) c (s_rd S0 r) in
      mk_sys (s_w S0) (s_log S0) (fun q => if Nat.eqb q r then r' else s_rd S0 q) (S (s_clk S0))
  end.

(* the states the system goes through; element i is the state after i steps *)
Fixpoint trace (o : orders) (esz lsz : N) (choices : nat -> nat) (S0 : sys) (sched : list nat) : list sys :=
  S0 :: match sched with
        | [] => []
        | t :: r => trace o esz lsz choices (sys_step o esz lsz S0 t (choices (s_clk S0))) r
        end.

Definition run_conc (o : orders) (esz lsz : N) (ops : list wop) (scripts : nat -> list ritem)
                    (sched : list nat) (choices : nat -> nat) : list sys :=
  trace o esz lsz choices (sys_init ops scripts) sched.

(* sequentially consistent reader: choice 0 everywhere; used by the lock-step correspondence check *)
Fixpoint rrun (o : orders) (L : log) (fuel : nat) (r : rstate) : rstate :=
  match fuel with
  | O => r
  | S f =>
      match r_pc r, r_todo r with
      | PIdle, [] => r
      | PStuck _, _ => r
      | _, _ => rrun o L f (rstep o L 0 0 r)
      end
  end.
Definition find_sc (o : orders) (L : log) (k : N) : rstate :=
  rrun o L 40 (mk_r (fun _ => 1%nat) 1 PIdle [RFind k] [] 0 0).
