(* erase k only clears k's bit: its micro-step program is ONE store to the leaf's mask - no destroy, no write to the
   value's storage - so the slot keeps its last construction (stored under exactly k) across the erase. *)
From Coq Require Import List NArith Arith Bool Lia ZifyBool ZifyNat ZifyN.
From FV Require Import Common.EventLog Radix.RadixModel Radix.RadixBits Radix.RadixInv Radix.RadixExec
  Radix.RadixSem Radix.RadixFind Radix.RadixSpec RadixConc.RAView RadixConc.ConcModel RadixConc.ConcProg
  RadixConc.ConcWriter RadixConc.ConcLog RadixConc.ConcStatic RadixConc.ConcStatic2 RadixConc.ConcStep RadixConc.ConcReader.
Import ListNotations.
Local Open Scope N_scope.

Arguments pfxP : simpl never.
Arguments idxP : simpl never.
Arguments N.testbit : simpl never.
Arguments clear_bit : simpl never.

Section Erase.
  Variables (o : orders) (esz lsz : N) (wops : list wop).
  Hypothesis Hsuf : orders_sufficient o = true.
  Hypothesis Hok : hist_okb esz lsz st0 wops = true.

  Theorem erase_leaves_slot p k : nth_error wops p = Some (WErase k) ->
    exists e en v,
      find (bstate esz lsz wops p) k = Ok (Some (e, idxP k 15)) /\ nth_error (nodes (bstate esz lsz wops p)) e = Some en /\
      (* the whole operation is one atomic store to the mask of k's leaf *)
      op_steps esz lsz (bstate esz lsz wops p) (WErase k) = [MStoreMask e (clear_bit (n_mask en) (idxP k 15)) Release] /\
      blog o esz lsz wops (S p) = blog o esz lsz wops p ++
        [mk (LMask e) (VNum (clear_bit (n_mask en) (idxP k 15))) (is_rel (o_e_mask o)) false] /\
      (* every slot keeps its last write; k's slot holds a value constructed under exactly k, before and after *)
      (forall e' i', lastval (blog o esz lsz wops (S p)) (LSlot e' i') = lastval (blog o esz lsz wops p) (LSlot e' i')) /\
      lastval (blog o esz lsz wops p) (LSlot e (idxP k 15)) = Some (VSlot k v) /\
      lastval (blog o esz lsz wops (S p)) (LSlot e (idxP k 15)) = Some (VSlot k v).
  Proof.
    intros Gw. pose proof (Stat_hist o esz lsz Hsuf wops Hok p) as HSt.
    pose proof (st_inv _ _ HSt) as I. pose proof (bstate_okb esz lsz wops p _ Hok Gw) as Hokw.
    destruct (blog_S o esz lsz wops p _ Gw) as [BL _].
    destruct (op_shape_ok esz lsz _ _ I Hokw) as [_ Sh].
    assert (Hk : k < K64). { cbn [wop_okb] in Hokw. apply andb_true_iff in Hokw. apply N.ltb_lt. tauto. }
    destruct Sh as [e0 [v0 Ev0] _ _ _|v0 p0 Hne _ _ _ _|v0 p0 si sn d [E|E] _ _ _ _ _ _ _ _
                   |v0 e0 en0 [E|E] _ _ _ _ _ _ _|e en _ W Ge Hent Hpfx Hbit Hst Hcase]; try discriminate.
    { exfalso. apply Hne. reflexivity. }
    cbn [wop_key] in *.
    assert (Hfind : find (bstate esz lsz wops p) k = Ok (Some (e, idxP k 15))).
    { rewrite (find_of_walk _ k _ I Hk W). cbn [find_of_stop]. rewrite Hbit. reflexivity. }
    assert (EM : op_msgs o esz lsz (bstate esz lsz wops p) (WErase k) =
                 [mk (LMask e) (VNum (clear_bit (n_mask en) (idxP k 15))) (is_rel (o_e_mask o)) false]).
    { unfold op_msgs. rewrite Hst, Hcase. reflexivity. }
    rewrite EM in BL.
    assert (Hkeep : forall e' i', lastval (blog o esz lsz wops (S p)) (LSlot e' i') = lastval (blog o esz lsz wops p) (LSlot e' i')).
    { intros e' i'. rewrite BL. apply lastval_skip. constructor; [cbn; discriminate|constructor]. }
    (* the slot of k holds a construction under k *)
    destruct (old_bit (blog o esz lsz wops p) _ e en (idxP k 15) (st_cons _ _ HSt) (st_mask _ _ HSt) Ge Hent Hbit)
      as (tc & mc & kk & v & Gc & Ec & Evc).
    destruct (lastval (blog o esz lsz wops p) (LSlot e (idxP k 15))) as [lv|] eqn:Lv.
    2:{ exfalso. apply (lastval_none _ _ Lv tc). exists mc. auto. }
    destruct (lastval_some _ _ _ Lv) as (j & m & Gj & Elj & Evj & _).
    assert (Ty : typed m).
    { pose proof (blog_prefix o esz lsz wops p) as EP.
      apply (msg_typed o esz lsz wops Hsuf Hok j m). rewrite EP. apply nth_app_l. exact Gj. }
    unfold typed in Ty. rewrite Elj, Evj in Ty. destruct lv as [| |k2 v2]; try contradiction.
    destruct (st_slot _ _ HSt j m e (idxP k 15) k2 v2 Gj Elj Evj) as (_ & Ei2 & Lp2 & _).
    assert (k2 = k).
    { apply key_eq; [|congruence].
      rewrite (c_val _ _ (st_cons _ _ HSt) (LPrefix e) eq_refl) in Lp2. cbn [heap_val] in Lp2. rewrite Ge in Lp2.
      cbn [option_map] in Lp2. injection Lp2 as Lp2. rewrite Hpfx in Lp2. symmetry. exact Lp2. }
    subst k2. exists e, en, v2. split; [exact Hfind|]. split; [exact Ge|]. split; [exact Hst|]. split; [exact BL|].
    split; [exact Hkeep|]. split; [exact Lv|]. rewrite Hkeep. exact Lv.
  Qed.
End Erase.
