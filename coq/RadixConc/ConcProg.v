(* Closed forms of the writer's micro-step programs (from the walk of the sequential model) and of the
   messages they append to the memory, per case of the source; and the glue to the C09 theorems:
   a history accepted by [hist_okb] runs without assertion/UB and keeps the heap invariant. *)
From Coq Require Import List NArith Arith Bool Lia ZifyBool ZifyNat ZifyN.
From FV Require Import Common.EventLog Radix.RadixModel Radix.RadixBits Radix.RadixInv Radix.RadixExec
  Radix.RadixSem Radix.RadixFind Radix.RadixPres Radix.RadixSpec Radix.RadixHist
  RadixConc.RAView RadixConc.ConcModel.
Import ListNotations.
Local Open Scope N_scope.

Arguments pfxP : simpl never.
Arguments idxP : simpl never.
Arguments N.shiftl : simpl never.
Arguments N.lor : simpl never.
Arguments N.testbit : simpl never.
Arguments clear_bit : simpl never.

(* ---------------------------------------------------------------- programs as pairs *)
Lemma pbind_lift_ok {A B} (a : A) (f : A -> prog B) : pbind (lift (Ok a)) f = f a.
Proof. unfold pbind, lift. destruct (f a). reflexivity. Qed.

Lemma pbind_emit {B} m (f : unit -> prog B) : pbind (emit m) f = (m :: fst (f tt), snd (f tt)).
Proof. unfold pbind, emit. destruct (f tt). reflexivity. Qed.

Lemma pbind_steps_ok {A B} l (a : A) (f : A -> prog B) : pbind (l, Ok a) f = (l ++ fst (f a), snd (f a)).
Proof. unfold pbind. destruct (f a). reflexivity. Qed.

(* continuation-style versions: they do not duplicate the continuation *)
Lemma pbind_emit_eq {B} m (f : unit -> prog B) l o : f tt = (l, o) -> pbind (emit m) f = (m :: l, o).
Proof. intros E. rewrite pbind_emit, E. reflexivity. Qed.
Lemma pbind_lift_eq {A B} (o1 : outcome A) a (f : A -> prog B) l o : o1 = Ok a -> f a = (l, o) -> pbind (lift o1) f = (l, o).
Proof. intros -> E. rewrite pbind_lift_ok. exact E. Qed.
Lemma pbind_steps_eq {A B} (p : prog A) l1 a (f : A -> prog B) l2 o : p = (l1, Ok a) -> f a = (l2, o) -> pbind p f = (l1 ++ l2, o).
Proof. intros -> E. rewrite pbind_steps_ok, E. reflexivity. Qed.
Lemma pbind_last_eq {A B} (p : prog A) m a (f : A -> prog B) o : p = ([m], Ok a) -> f a = ([], o) -> pbind p f = ([m], o).
Proof. intros -> E. rewrite pbind_steps_ok, E. reflexivity. Qed.

Lemma run_prog_ok {A} s (p : prog A) s' a : run_prog s p = Ok (s', a) -> run_steps s (fst p) = Ok s' /\ snd p = Ok a.
Proof.
  unfold run_prog. destruct (run_steps s (fst p)) as [s1| | |]; cbn [bind]; try discriminate.
  destruct (snd p) as [a1| | |]; cbn [bind]; try discriminate. intros E. injection E as <- <-. split; reflexivity.
Qed.

Lemma null_links_closed r :
  null_links r = (map (fun i => MStoreLink r i None Relaxed) idx16, Ok tt).
Proof. reflexivity. Qed.

Definition pub_step (H : list node) (k : N) (p : option nat) (c : nat) : mstep :=
  match p with
  | None => MStoreRoot (Some c) Release
  | Some pi => MStoreLink pi (cell_idx H k p) (Some c) Release
  end.

Lemma publish_closed H k p c :
  (forall pi, p = Some pi -> exists pn, nth_error H pi = Some pn /\ n_depth pn <= 15) ->
  publish H k p c = ([pub_step H k p c], Ok tt).
Proof.
  intros Hp. destruct p as [pi|]; cbn [publish pub_step cell_idx]; [|reflexivity].
  destruct (Hp pi eq_refl) as (pn & G & Hd). rewrite G. rewrite idx_of_ok by exact Hd.
  rewrite pbind_lift_ok. reflexivity.
Qed.

(* ---------------------------------------------------------------- the four programs *)
Definition entry_steps (n : nat) (k v : N) (par : option nat) : list mstep :=
  [MSetPrefix n (pfxP k 15); MSetDepth n 15; MSetParent n par; MStoreMask n (bit (idxP k 15)) Relaxed;
   MConstruct n (idxP k 15) v].
Definition c1_steps (esz : N) (H : list node) (k v : N) (p : option nat) : list mstep :=
  let n := length H in
  MAllocEntry esz :: entry_steps n k v p ++ [pub_step H k p n].
Definition c2_steps (esz lsz : N) (H : list node) (k v : N) (p : option nat) (si : nat) (sp d : N) : list mstep :=
  let n := length H in let r := S n in
  MAllocEntry esz :: MAllocLink lsz :: entry_steps n k v (Some r) ++
  [MSetParent si (Some r); MSetPrefix r (pfxP k d); MSetDepth r d; MSetParent r p] ++
  map (fun i => MStoreLink r i None Relaxed) idx16 ++
  [MStoreLink r (idxP k d) (Some n) Relaxed; MStoreLink r (idxP sp d) (Some si) Relaxed; pub_step H k p r].
Definition c3_steps (e : nat) (m : N) (k v : N) : list mstep :=
  [MConstruct e (idxP k 15) v; MStoreMask e (N.lor m (bit (idxP k 15))) Release].
Definition ce_steps (e : nat) (m : N) (k : N) : list mstep :=
  [MStoreMask e (clear_bit m (idxP k 15)) Release].

Section Closed.
  Variables (esz lsz : N) (s : st) (k v : N).
  Hypothesis (I : Inv_s s) (Hk : k < K64).

  Lemma walk_of_foi st : Walk (nodes s) k None (root s) st -> foi_walk 17 (nodes s) k None (root s) = Ok st.
  Proof. intros W. apply (walk_foi _ _ _ I Hk _ _ _ W). apply (fuel_ok_root _ _ I). Qed.

  Lemma parent_depth p pi : (forall pi, p = Some pi -> exists pn, nth_error (nodes s) pi = Some pn /\ is_entry pn = false) ->
    p = Some pi -> exists pn, nth_error (nodes s) pi = Some pn /\ n_depth pn <= 15.
  Proof.
    intros Hp E. destruct (Hp pi E) as (pn & G & _). exists pn. split; [exact G|].
    apply node_ok_depth. eapply inv_ok; eassumption.
  Qed.

  Lemma foi_prog_case1 p : Walk (nodes s) k None (root s) (FCase1 p) ->
    foi_prog esz lsz s k v = (c1_steps esz (nodes s) k v p, Ok ((length (nodes s), idxP k 15), true)).
  Proof.
    intros W. pose proof (case1_parent _ _ _ _ W) as Hp.
    unfold foi_prog. rewrite (walk_of_foi _ W), pbind_lift_ok.
    unfold c1_steps, entry_steps. cbn [app].
    apply pbind_emit_eq.
    eapply pbind_lift_eq; [apply pfx_of_ok; [exact Hk|unfold ll; lia]|]. cbv beta.
    do 3 apply pbind_emit_eq.
    eapply pbind_lift_eq; [apply idx_of_ok; unfold ll; lia|]. cbv beta. apply pbind_emit_eq.
    eapply pbind_lift_eq; [apply idx_of_ok; unfold ll; lia|]. cbv beta. apply pbind_emit_eq.
    eapply pbind_last_eq; [|reflexivity].
    apply publish_closed.
    intros pi E. destruct (Hp pi E) as (pn & G & Hent & _). exists pn. split; [exact G|].
    apply node_ok_depth. eapply inv_ok; eassumption.
  Qed.

  Lemma foi_prog_case2 p si sn : Walk (nodes s) k None (root s) (FCase2 p si) ->
    nth_error (nodes s) si = Some sn ->
    exists d, d < n_depth sn /\ hi k d = hi (n_prefix sn) d /\ hi k (d + 1) <> hi (n_prefix sn) (d + 1) /\
      (forall pi pn, p = Some pi -> nth_error (nodes s) pi = Some pn -> n_depth pn < d) /\
      foi_prog esz lsz s k v = (c2_steps esz lsz (nodes s) k v p si (n_prefix sn) d, Ok ((length (nodes s), idxP k 15), true)).
  Proof.
    intros W Gs. destruct (walk_split_facts _ _ _ _ _ _ W) as (sn' & Gs' & Hne). rewrite Gs in Gs'. injection Gs' as <-.
    pose proof (case2_parent _ _ _ _ _ W) as Hp.
    pose proof (inv_ok _ _ I _ _ Gs) as Oks. pose proof (node_ok_depth _ Oks) as Hsd.
    destruct Oks as (Hsp & Hsfix & _).
    assert (Hne' : hi k (n_depth sn) <> hi (n_prefix sn) (n_depth sn)).
    { intros E. apply Hne. apply (pfx_fix_hi _ _ k Hsfix). exact E. }
    destruct (split_loop_ok k (n_prefix sn) (n_depth sn) Hk Hsp Hsd Hne' 17 0) as (d & SL & _ & Hdlt & Hag & Hdis).
    { rewrite !hi_0 by assumption. reflexivity. }
    { cbn. lia. }
    assert (Hagp : forall pi, p = Some pi -> exists pn, nth_error (nodes s) pi = Some pn /\ is_entry pn = false /\
                     hi k (n_depth pn + 1) = hi (n_prefix sn) (n_depth pn + 1)).
    { intros pi E. destruct (Hp pi E) as (pn & Gp & Hent & Hm & Hc & _). exists pn.
      pose proof (node_ok_link _ (inv_ok _ _ I _ _ Gp) Hent) as Hpd.
      destruct pn as [xp dp parp lsp|]; [|discriminate]. cbn [n_links n_depth n_prefix] in *.
      destruct (inv_link _ _ I _ _ _ _ _ _ _ Gp Hc) as (cn & Gc & A & B & C & D). rewrite Gs in Gc. injection Gc as <-.
      repeat split; auto. apply hi_S_iff; [lia|]. split.
      - apply pfx_eq_iff. rewrite Hm, B. reflexivity.
      - rewrite C, N2Nat.id. reflexivity. }
    assert (Habove : forall pi pn, p = Some pi -> nth_error (nodes s) pi = Some pn -> n_depth pn < d).
    { intros pi pn E G. destruct (Hagp pi E) as (pn' & G' & _ & Hag'). rewrite G in G'. injection G' as <-.
      destruct (N.lt_ge_cases (n_depth pn) d) as [L|Ge]; [exact L|]. exfalso. apply Hdis.
      apply (hi_mono (d + 1) (n_depth pn + 1)); [lia | | exact Hag'].
      pose proof (node_ok_depth _ (inv_ok _ _ I _ _ G)). lia. }
    exists d. split; [exact Hdlt|]. split; [exact Hag|]. split; [exact Hdis|]. split; [exact Habove|].
    assert (Hidx : idxP k d <> idxP (n_prefix sn) d).
    { intros E. apply Hdis. apply hi_S_iff; [lia|]. split; assumption. }
    assert (A1 : match p with
                 | Some pi => match nth_error (nodes s) pi with
                              | Some pn => assert (n_depth pn <? d) ASplitAbove
                              | None => UB UBadPtr end
                 | None => Ok tt end = Ok tt).
    { destruct p as [pi|]; [|reflexivity]. destruct (Hagp pi eq_refl) as (pn & G & _). rewrite G.
      pose proof (Habove pi pn eq_refl G) as L. apply N.ltb_lt in L. rewrite L. reflexivity. }
    assert (A2 : assert (d <? n_depth sn) ASplitBelow = Ok tt).
    { assert (E : (d <? n_depth sn) = true) by (apply N.ltb_lt; exact Hdlt). rewrite E. reflexivity. }
    assert (A3 : assert (negb (idxP k d =? idxP (n_prefix sn) d)) ASplitIdx = Ok tt).
    { assert (E : (idxP k d =? idxP (n_prefix sn) d) = false) by (apply N.eqb_neq; exact Hidx). rewrite E. reflexivity. }
    unfold foi_prog. rewrite (walk_of_foi _ W), pbind_lift_ok. rewrite Gs.
    unfold c2_steps, entry_steps. cbn [app].
    do 2 apply pbind_emit_eq.
    eapply pbind_lift_eq; [apply pfx_of_ok; [exact Hk|unfold ll; lia]|]. cbv beta.
    do 3 apply pbind_emit_eq.
    eapply pbind_lift_eq; [apply idx_of_ok; unfold ll; lia|]. cbv beta. apply pbind_emit_eq.
    eapply pbind_lift_eq; [apply idx_of_ok; unfold ll; lia|]. cbv beta. do 2 apply pbind_emit_eq.
    eapply pbind_lift_eq; [exact SL|]. cbv beta.
    eapply pbind_lift_eq; [exact A1|]. cbv beta.
    eapply pbind_lift_eq; [exact A2|]. cbv beta.
    eapply pbind_lift_eq; [apply idx_of_ok; lia|]. cbv beta.
    eapply pbind_lift_eq; [apply idx_of_ok; lia|]. cbv beta.
    eapply pbind_lift_eq; [exact A3|]. cbv beta.
    eapply pbind_lift_eq; [apply pfx_of_ok; [exact Hk|lia]|]. cbv beta.
    do 3 apply pbind_emit_eq.
    eapply pbind_steps_eq; [apply null_links_closed|]. cbv beta.
    eapply pbind_lift_eq; [apply idx_of_ok; lia|]. cbv beta. apply pbind_emit_eq.
    eapply pbind_lift_eq; [apply idx_of_ok; lia|]. cbv beta. apply pbind_emit_eq.
    eapply pbind_last_eq; [|reflexivity].
    apply publish_closed.
    intros pi E. destruct (Hagp pi E) as (pn & G & _). exists pn. split; [exact G|].
    apply node_ok_depth. eapply inv_ok; eassumption.
  Qed.

  Lemma foi_prog_case3 e m ix : Walk (nodes s) k None (root s) (FCase3 e m ix) ->
    ix = idxP k 15 /\
    foi_prog esz lsz s k v =
      if N.testbit m ix then ([], Ok ((e, ix), false)) else (c3_steps e m k v, Ok ((e, ix), true)).
  Proof.
    intros W. destruct (walk_entry_facts _ _ _ _ _ _ _ W) as (en & Ge & Hent & Hm & -> & ->).
    pose proof (node_ok_entry _ (inv_ok _ _ I _ _ Ge) Hent) as Hd15. rewrite Hd15 in *. split; [reflexivity|].
    unfold foi_prog. rewrite (walk_of_foi _ W), pbind_lift_ok.
    destruct (N.testbit (n_mask en) (idxP k 15)); [reflexivity|].
    rewrite !pbind_emit. reflexivity.
  Qed.

  Lemma erase_prog_closed e m ix : Walk (nodes s) k None (root s) (FCase3 e m ix) -> N.testbit m ix = true ->
    ix = idxP k 15 /\ erase_prog s k = (ce_steps e m k, Ok tt).
  Proof.
    intros W B. destruct (walk_entry_facts _ _ _ _ _ _ _ W) as (en & Ge & Hent & Hm & -> & ->).
    pose proof (node_ok_entry _ (inv_ok _ _ I _ _ Ge) Hent) as Hd15. rewrite Hd15 in *. split; [reflexivity|].
    unfold erase_prog. rewrite (walk_erase _ _ _ I Hk _ _ _ W 17 (fuel_ok_root _ _ I)). cbn [erase_of_stop].
    rewrite pbind_lift_ok, B. cbn [assert]. rewrite pbind_lift_ok. reflexivity.
  Qed.
End Closed.

Lemma fst_insert_prog esz lsz s k v r : snd (foi_prog esz lsz s k v) = Ok r -> snd r = true ->
  fst (insert_prog esz lsz s k v) = fst (foi_prog esz lsz s k v) /\ snd (insert_prog esz lsz s k v) = Ok (fst r).
Proof.
  unfold insert_prog. destruct (foi_prog esz lsz s k v) as [l o]. cbn [fst snd]. intros -> B.
  rewrite pbind_steps_ok, B. cbn [assert]. rewrite pbind_lift_ok. cbn [fst snd pret]. rewrite app_nil_r. split; reflexivity.
Qed.

(* ---------------------------------------------------------------- one operation of an accepted history *)
Lemma ltb_K64 k : (k <? K64) = true -> k < K64.
Proof. apply N.ltb_lt. Qed.

(* what an accepted operation looks like: which case of the source, its micro-steps, and the walk facts *)
Inductive op_shape (esz lsz : N) (s : st) (o : wop) : Prop :=
| Sh_none e : (exists v, o = WFoi (wop_key o) v) -> find s (wop_key o) = Ok (Some (e, idxP (wop_key o) 15)) ->
    op_steps esz lsz s o = [] -> op_case s o = C3 -> op_shape esz lsz s o
| Sh_c1 v p : o <> WErase (wop_key o) -> (o = WFoi (wop_key o) v \/ o = WInsert (wop_key o) v) ->
    Walk (nodes s) (wop_key o) None (root s) (FCase1 p) ->
    op_steps esz lsz s o = c1_steps esz (nodes s) (wop_key o) v p -> op_case s o = C1 -> op_shape esz lsz s o
| Sh_c2 v p si sn d : (o = WFoi (wop_key o) v \/ o = WInsert (wop_key o) v) ->
    Walk (nodes s) (wop_key o) None (root s) (FCase2 p si) -> nth_error (nodes s) si = Some sn ->
    d < n_depth sn -> hi (wop_key o) d = hi (n_prefix sn) d -> hi (wop_key o) (d + 1) <> hi (n_prefix sn) (d + 1) ->
    (forall pi pn, p = Some pi -> nth_error (nodes s) pi = Some pn -> n_depth pn < d) ->
    op_steps esz lsz s o = c2_steps esz lsz (nodes s) (wop_key o) v p si (n_prefix sn) d -> op_case s o = C2 ->
    op_shape esz lsz s o
| Sh_c3 v e en : (o = WFoi (wop_key o) v \/ o = WInsert (wop_key o) v) ->
    Walk (nodes s) (wop_key o) None (root s) (FCase3 e (n_mask en) (idxP (wop_key o) 15)) ->
    nth_error (nodes s) e = Some en -> is_entry en = true -> n_prefix en = pfxP (wop_key o) 15 ->
    N.testbit (n_mask en) (idxP (wop_key o) 15) = false ->
    op_steps esz lsz s o = c3_steps e (n_mask en) (wop_key o) v -> op_case s o = C3 -> op_shape esz lsz s o
| Sh_ce e en : o = WErase (wop_key o) ->
    Walk (nodes s) (wop_key o) None (root s) (FCase3 e (n_mask en) (idxP (wop_key o) 15)) ->
    nth_error (nodes s) e = Some en -> is_entry en = true -> n_prefix en = pfxP (wop_key o) 15 ->
    N.testbit (n_mask en) (idxP (wop_key o) 15) = true ->
    op_steps esz lsz s o = ce_steps e (n_mask en) (wop_key o) -> op_case s o = CE -> op_shape esz lsz s o.

Lemma foi_shape_aux esz lsz s k v (o : wop) : Inv_s s -> k < K64 -> wop_key o = k ->
  (o = WFoi k v \/ (o = WInsert k v /\ find s k = Ok None)) ->
  op_good esz lsz s o = true /\ op_shape esz lsz s o.
Proof.
  intros I Hk Ekey Ho. destruct (find_walk s k I Hk) as (st & W & F).
  assert (Hcase : forall st', foi_walk 17 (nodes s) k None (root s) = Ok st' ->
            op_case s o = match st' with FCase1 _ => C1 | FCase2 _ _ => C2 | FCase3 _ _ _ => C3 end).
  { intros st' E. destruct Ho as [->|[-> _]]; cbn [op_case]; rewrite E; destruct st'; reflexivity. }
  pose proof (walk_of_foi s k I Hk _ W) as Ew. specialize (Hcase _ Ew).
  destruct st as [p|p si|e m ix].
  - pose proof (foi_prog_case1 esz lsz s k v I Hk p W) as P.
    assert (Hst : op_steps esz lsz s o = c1_steps esz (nodes s) k v p /\ op_good esz lsz s o = true).
    { destruct Ho as [->|[-> _]]; cbn [op_steps op_good].
      - rewrite P. split; reflexivity.
      - destruct (fst_insert_prog esz lsz s k v _ ltac:(rewrite P; reflexivity) eq_refl) as [E1 E2].
        rewrite E1, E2, P. split; reflexivity. }
    destruct Hst as [Hst Hg]. split; [exact Hg|]. rewrite <- Ekey in *.
    eapply (Sh_c1 _ _ _ _ v p); try eassumption.
    + destruct Ho as [->|[-> _]]; discriminate.
    + destruct Ho as [->|[-> _]]; cbn [wop_key]; auto.
  - destruct (walk_split_facts _ _ _ _ _ _ W) as (sn & Gs & Hne).
    destruct (foi_prog_case2 esz lsz s k v I Hk p si sn W Gs) as (d & Hd & Hag & Hdis & Hab & P).
    assert (Hst : op_steps esz lsz s o = c2_steps esz lsz (nodes s) k v p si (n_prefix sn) d /\ op_good esz lsz s o = true).
    { destruct Ho as [->|[-> _]]; cbn [op_steps op_good].
      - rewrite P. split; reflexivity.
      - destruct (fst_insert_prog esz lsz s k v _ ltac:(rewrite P; reflexivity) eq_refl) as [E1 E2].
        rewrite E1, E2, P. split; reflexivity. }
    destruct Hst as [Hst Hg]. split; [exact Hg|]. rewrite <- Ekey in *.
    eapply (Sh_c2 _ _ _ _ v p si sn d); try eassumption.
    destruct Ho as [->|[-> _]]; cbn [wop_key]; auto.
  - destruct (foi_prog_case3 esz lsz s k v I Hk e m ix W) as (-> & P).
    destruct (walk_entry_facts _ _ _ _ _ _ _ W) as (en & Ge & Hent & Hm & -> & _).
    pose proof (node_ok_entry _ (inv_ok _ _ I _ _ Ge) Hent) as Hd15. rewrite Hd15 in *.
    cbn [find_of_stop] in F.
    destruct (N.testbit (n_mask en) (idxP k 15)) eqn:B.
    + (* present: only find_or_insert is accepted *)
      destruct Ho as [->|[-> Fn]]; [|rewrite Fn in F; discriminate].
      cbn [op_good]. rewrite P. split; [reflexivity|].
      eapply (Sh_none _ _ _ _ e); cbn [wop_key op_steps]; [eauto|exact F|rewrite P; reflexivity|exact Hcase].
    + assert (Hst : op_steps esz lsz s o = c3_steps e (n_mask en) k v /\ op_good esz lsz s o = true).
      { destruct Ho as [->|[-> _]]; cbn [op_steps op_good].
        - rewrite P. split; reflexivity.
        - destruct (fst_insert_prog esz lsz s k v _ ltac:(rewrite P; reflexivity) eq_refl) as [E1 E2].
          rewrite E1, E2, P. split; reflexivity. }
      destruct Hst as [Hst Hg]. split; [exact Hg|]. rewrite <- Ekey in *.
      eapply (Sh_c3 _ _ _ _ v e en); try eassumption; [|symmetry; exact Hm].
      destruct Ho as [->|[-> _]]; cbn [wop_key]; auto.
Qed.

Lemma op_shape_ok esz lsz s o : Inv_s s -> wop_okb s o = true -> op_good esz lsz s o = true /\ op_shape esz lsz s o.
Proof.
  intros I Hok. destruct o as [k v|k v|k]; cbn [wop_okb] in Hok.
  - apply (foi_shape_aux esz lsz s k v); [exact I|apply ltb_K64; exact Hok|reflexivity|left; reflexivity].
  - apply andb_true_iff in Hok. destruct Hok as [Hk Hf].
    apply (foi_shape_aux esz lsz s k v); [exact I|apply ltb_K64; exact Hk|reflexivity|right].
    split; [reflexivity|]. destruct (find s k) as [[a|]| | |]; try discriminate. reflexivity.
  - apply andb_true_iff in Hok. destruct Hok as [Hk Hf]. apply ltb_K64 in Hk.
    destruct (find s k) as [[a|]| | |] eqn:F; try discriminate.
    destruct (find_walk s k I Hk) as (st & W & F'). rewrite F in F'. injection F' as F'.
    destruct st as [p|p si|e m ix]; try discriminate. cbn [find_of_stop] in F'.
    destruct (N.testbit m ix) eqn:B; [|discriminate].
    destruct (erase_prog_closed s k I Hk e m ix W B) as (-> & P).
    destruct (walk_entry_facts _ _ _ _ _ _ _ W) as (en & Ge & Hent & Hm & -> & _).
    cbn [op_good]. rewrite P. split; [reflexivity|].
    eapply (Sh_ce _ _ _ _ e en); cbn [wop_key op_steps op_case]; try eassumption; try reflexivity.
    + symmetry. pose proof (node_ok_entry _ (inv_ok _ _ I _ _ Ge) Hent) as Hd15. rewrite Hd15 in Hm. exact Hm.
    + rewrite P. reflexivity.
Qed.

(* the operation runs to completion, keeps the invariant, and changes [find] only at its own key *)
Lemma op_run_ok esz lsz s o : Inv_s s -> wop_okb s o = true ->
  exists s', run_steps s (op_steps esz lsz s o) = Ok s' /\ op_next esz lsz s o = s' /\ Inv_s s' /\
    (forall k', k' < K64 -> k' <> wop_key o -> find s' k' = find s k') /\
    (forall a, find s (wop_key o) = Ok (Some a) -> o <> WErase (wop_key o) -> s' = s).
Proof.
  intros I Hok. destruct o as [k v|k v|k]; cbn [wop_okb] in Hok.
  - apply ltb_K64 in Hok. destruct (foi_spec esz lsz s k v I Hok) as (s' & a & b & R & I' & F' & C).
    apply run_prog_ok in R. destruct R as [R _]. exists s'. unfold op_next. cbn [op_steps wop_key]. rewrite R.
    split; [reflexivity|]. split; [reflexivity|]. split; [exact I'|]. split.
    + intros k' Hk' Hne. rewrite (F' k' Hk'). destruct (N.eqb_spec k' k); [contradiction|reflexivity].
    + intros a0 Fa _. destruct C as [[Fn _]|[_ [_ E]]]; [congruence|exact E].
  - apply andb_true_iff in Hok. destruct Hok as [Hk Hf]. apply ltb_K64 in Hk.
    destruct (find s k) as [[a0|]| | |] eqn:F; try discriminate.
    destruct (foi_spec esz lsz s k v I Hk) as (s' & a & b & R & I' & F' & C).
    destruct C as [[_ ->]|[Fs _]]; [|congruence].
    assert (R2 : insert esz lsz s k v = Ok (s', a)) by (rewrite insert_unfold, R; reflexivity).
    apply run_prog_ok in R2. destruct R2 as [R2 _]. exists s'. unfold op_next. cbn [op_steps wop_key]. rewrite R2.
    split; [reflexivity|]. split; [reflexivity|]. split; [exact I'|]. split.
    + intros k' Hk' Hne. rewrite (F' k' Hk'). destruct (N.eqb_spec k' k); [contradiction|reflexivity].
    + intros a1 Fa. congruence.
  - apply andb_true_iff in Hok. destruct Hok as [Hk Hf]. apply ltb_K64 in Hk.
    destruct (find s k) as [[a|]| | |] eqn:F; try discriminate.
    destruct (erase_spec s k a I Hk F) as (s' & R & I' & _ & F' & _).
    apply run_prog_ok in R. destruct R as [R _]. exists s'. unfold op_next. cbn [op_steps wop_key]. rewrite R.
    split; [reflexivity|]. split; [reflexivity|]. split; [exact I'|]. split.
    + intros k' Hk' Hne. rewrite (F' k' Hk'). destruct (N.eqb_spec k' k); [contradiction|reflexivity].
    + intros a0 _ Hne. exfalso. apply Hne. reflexivity.
Qed.
