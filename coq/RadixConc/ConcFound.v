(* "Covers k" is monotone: once key k is present (and until it is erased) every message a reader can be served on
   its way down - at _root, at the link cell of k in every node on the way, at the mask of the leaf - leads to k's
   slot, whatever restructuring happens meanwhile.  Static part: a property of the write log at operation boundaries. *)
From Coq Require Import List NArith Arith Bool Lia ZifyBool ZifyNat ZifyN.
From FV Require Import Common.EventLog Radix.RadixModel Radix.RadixBits Radix.RadixInv Radix.RadixExec
  Radix.RadixSem Radix.RadixFind Radix.RadixSpec RadixConc.RAView RadixConc.ConcModel RadixConc.ConcProg
  RadixConc.ConcWriter RadixConc.ConcLog RadixConc.ConcStatic RadixConc.ConcStatic2 RadixConc.ConcStep.
Import ListNotations.
Local Open Scope N_scope.

Arguments pfxP : simpl never.
Arguments idxP : simpl never.
Arguments N.testbit : simpl never.
Arguments N.shiftl : simpl never.
Arguments N.lor : simpl never.
Arguments clear_bit : simpl never.
Arguments bit : simpl never.

(* the reader's lower bound after reading message j (acquire load) *)
Definition nb (b j : nat) (m : msg) : nat := if mrel m then Nat.max b (S j) else b.

Inductive Cov (LF L : log) (k : N) (e : nat) : nat -> nat -> Prop :=
| Cov_entry b c :
    lastval LF (LPrefix c) = Some (VNum (pfxP k 15)) -> lastval LF (LDepth c) = Some (VNum 15) -> c = e ->
    (forall j m mv, adm L (LMask c) b j -> nth_error L j = Some m -> mval m = VNum mv -> N.testbit mv (idxP k 15) = true) ->
    Cov LF L k e b c
| Cov_link b c d :
    d < 15 -> lastval LF (LPrefix c) = Some (VNum (pfxP k d)) -> lastval LF (LDepth c) = Some (VNum d) ->
    (forall j m, adm L (LLink c (idxP k d)) b j -> nth_error L j = Some m -> exists c', mval m = VPtr (Some c')) ->
    (forall j m c', adm L (LLink c (idxP k d)) b j -> nth_error L j = Some m -> mval m = VPtr (Some c') ->
       Cov LF L k e (nb b j m) c') ->
    Cov LF L k e b c.

Definition CovCell (LF L : log) (k : N) (e : nat) (b : nat) (l : loc) : Prop :=
  (forall j m, adm L l b j -> nth_error L j = Some m -> exists c', mval m = VPtr (Some c')) /\
  (forall j m c', adm L l b j -> nth_error L j = Some m -> mval m = VPtr (Some c') -> Cov LF L k e (nb b j m) c').

Lemma adm_mono (L : log) l b b' j : adm L l b' j -> (b <= b')%nat -> adm L l b j.
Proof. intros [A B] H. split; [exact A|]. intros j' Hj' Hlt. specialize (B j' Hj' Hlt). lia. Qed.

Lemma nb_mono b b' j m : (b <= b')%nat -> (nb b j m <= nb b' j m)%nat.
Proof. unfold nb. destruct (mrel m); lia. Qed.

Lemma Cov_mono LF L k e b c : Cov LF L k e b c -> forall b', (b <= b')%nat -> Cov LF L k e b' c.
Proof.
  induction 1 as [b c Lp Ld Ec Hm|b c d Hd Lp Ld Hex Hcov IH]; intros b' Hle.
  - apply Cov_entry; auto. intros j m mv A. apply Hm. eapply adm_mono; eassumption.
  - eapply Cov_link; eauto.
    + intros j m A. apply Hex. eapply adm_mono; eassumption.
    + intros j m c' A G Ev. apply (IH j m c' (adm_mono _ _ _ _ _ A Hle) G Ev). apply nb_mono. exact Hle.
Qed.

Lemma CovCell_mono LF L k e b l b' : CovCell LF L k e b l -> (b <= b')%nat -> CovCell LF L k e b' l.
Proof.
  intros [A B] Hle. split.
  - intros j m Ad. apply A. eapply adm_mono; eassumption.
  - intros j m c' Ad G Ev. eapply Cov_mono; [apply (B j m c' (adm_mono _ _ _ _ _ Ad Hle) G Ev)|apply nb_mono; exact Hle].
Qed.

(* admissibility and longer logs *)
Lemma adm_app_old (L M : log) l b j : adm (L ++ M) l b j -> (j < length L)%nat -> adm L l b j.
Proof.
  intros [A B] Hj. split; [eapply at_loc_app_inv; eassumption|].
  intros j' Hj' Hlt. apply B; [apply at_loc_app; exact Hj'|exact Hlt].
Qed.

(* a reader of the prefix Lc whose bound is within Lc is admissible in every extension *)
Lemma adm_extend (Lc Y : log) l v b j : adm Lc l v j -> (v <= length Lc)%nat -> (b <= v)%nat -> adm (Lc ++ Y) l b j.
Proof.
  intros [A B] Hv Hb. split; [apply at_loc_app; exact A|]. intros j' Hj' Hlt.
  destruct (Nat.lt_ge_cases j' (length Lc)) as [H|H].
  - specialize (B j' (at_loc_app_inv _ _ _ _ _ _ Hj' H) Hlt). lia.
  - lia.
Qed.

(* with the bound at the end of the log only the last message is admissible *)
Lemma adm_full_last (L : log) l j m : adm L l (length L) j -> nth_error L j = Some m -> lastval L l = Some (mval m).
Proof.
  intros [(m' & G' & E') B] G. rewrite G in G'. injection G' as <-. apply (last_is_lastval L l j m G E').
  intros j' Hj'. destruct (Nat.le_gt_cases j' j) as [H|H]; [exact H|]. specialize (B j' Hj' H).
  destruct Hj' as (m2 & G2 & _). assert (j' < length L)%nat by (apply nth_error_Some; congruence). lia.
Qed.

Lemma last_adm (L : log) l v b : lastval L l = Some v -> (b <= length L)%nat ->
  exists j m, adm L l b j /\ nth_error L j = Some m /\ mval m = v.
Proof.
  intros E Hb. destruct (lastval_some _ _ _ E) as (j & m & G & El & Ev & Hmax).
  exists j, m. split; [|auto]. split; [exists m; auto|]. intros j' Hj' Hlt. specialize (Hmax j' Hj'). lia.
Qed.

Section Found.
  Variables (o : orders) (esz lsz : N).
  Hypothesis Hsuf : orders_sufficient o = true.

  Lemma op_F14 s w : Inv_s s -> wop_okb s w = true ->
    Forall (F1p (length (nodes s))) (op_msgs o esz lsz s w) /\ Forall F4p (op_msgs o esz lsz s w) /\
    (length (nodes s) <= length (nodes (op_next esz lsz s w)))%nat.
  Proof.
    intros I Hok. destruct (op_shape_ok esz lsz s w I Hok) as [_ Sh].
    destruct (op_run_ok esz lsz s w I Hok) as (s' & Hrun & Hnext & _). rewrite Hnext.
    pose proof (run_steps_length _ _ _ Hrun) as Hlen.
    assert (HM : exists n1, Mfacts (length (nodes s)) n1 (op_msgs o esz lsz s w)).
    { unfold op_msgs.
      destruct Sh as [e _ _ Hst Hcase|v p _ _ W Hst Hcase|v p si sn d _ W Gs Hd Hag Hdis Hab Hst Hcase
                     |v e en _ W Ge Hent Hpfx Hbit Hst Hcase|e en _ W Ge Hent Hpfx Hbit Hst Hcase]; rewrite Hst, Hcase.
      - exists 0%nat. cbn [steps_msgs]. repeat split; constructor.
      - rewrite c1_msgs_ok. eexists. apply (c1_facts o Hsuf).
        intros pi E. destruct (case1_parent _ _ _ _ W pi E) as (pn & G & _). apply nth_error_Some. congruence.
      - rewrite c2_msgs_ok. eexists. apply (c2_facts o Hsuf).
        + intros pi E. destruct (case2_parent _ _ _ _ _ W pi E) as (pn & G & _). apply nth_error_Some. congruence.
        + apply nth_error_Some. congruence.
      - rewrite c3_msgs_ok. eexists. apply (c3_facts o Hsuf). apply nth_error_Some. congruence.
      - rewrite ce_msgs_ok. eexists. apply (ce_facts o Hsuf). apply nth_error_Some. congruence. }
    destruct HM as (n1 & F1 & _ & _ & F4). split; [exact F1|]. split; [exact F4|lia].
  Qed.

  (* the header of an allocated node is never written again *)
  Lemma hist_hdr_stable ops : forall s (L : log) c, Inv_s s -> hist_okb esz lsz s ops = true -> (c < length (nodes s))%nat ->
    lastval (L ++ hist_log o esz lsz s ops) (LPrefix c) = lastval L (LPrefix c) /\
    lastval (L ++ hist_log o esz lsz s ops) (LDepth c) = lastval L (LDepth c).
  Proof.
    induction ops as [|w r IH]; intros s L c I H Hc; cbn [hist_log hist_okb] in *.
    - rewrite app_nil_r. split; reflexivity.
    - apply andb_true_iff in H. destruct H as [H1 H2].
      destruct (op_F14 s w I H1) as (F1 & F4 & Hgrow).
      destruct (op_run_ok esz lsz s w I H1) as (s' & _ & E & I' & _).
      rewrite app_assoc. rewrite E in *.
      destruct (IH s' (L ++ op_msgs o esz lsz s w) c I' H2 ltac:(lia)) as [-> ->].
      exact (lastval_old_hdr L _ _ c F1 F4 Hc).
  Qed.

  Variable wops : list wop.
  Hypothesis Hok : hist_okb esz lsz st0 wops = true.
  Notation LF := (full_log o esz lsz wops).

  Lemma hdr_stable q c : (c < length (nodes (bstate esz lsz wops q)))%nat ->
    lastval LF (LPrefix c) = lastval (blog o esz lsz wops q) (LPrefix c) /\
    lastval LF (LDepth c) = lastval (blog o esz lsz wops q) (LDepth c).
  Proof.
    intros Hc. rewrite (blog_prefix o esz lsz wops q). apply hist_hdr_stable; [apply bstate_inv; exact Hok| |exact Hc].
    pose proof Hok as H. rewrite <- (firstn_skipn q wops), hist_okb_app in H. apply andb_true_iff in H. tauto.
  Qed.

  (* ---------------------------------------------------------------- the base case: the walk of a present key *)
  Lemma cov_base q k e : k < K64 ->
    let L := blog o esz lsz wops q in let s := bstate esz lsz wops q in
    forall p0 c st, Walk (nodes s) k p0 c st -> forall m ix, st = FCase3 e m ix -> N.testbit m ix = true ->
    forall ci, c = Some ci -> Cov LF L k e (length L) ci.
  Proof.
    intros Hk L s. pose proof (Stat_hist o esz lsz Hsuf wops Hok q) as HSt. fold L s in HSt.
    pose proof (st_inv _ _ HSt) as I. pose proof (st_cons _ _ HSt) as C.
    induction 1 as [p|p i nd G Hne|p i nd G He Hent|p i nd st G He Hent W IH]; intros m ix Est B ci Ec; try discriminate.
    - (* the leaf *)
      injection Est as <- <- <-. injection Ec as <-.
      assert (Hi : (i < length (nodes s))%nat) by (apply nth_error_Some; congruence).
      destruct (hdr_stable q i Hi) as [Sp Sd]. fold L in Sp, Sd.
      pose proof (node_ok_entry _ (inv_ok _ _ I _ _ G) Hent) as Hd15. rewrite Hd15 in *.
      apply Cov_entry.
      + rewrite Sp, (c_val _ _ C (LPrefix i) eq_refl). cbn [heap_val]. rewrite G. cbn [option_map]. rewrite He. reflexivity.
      + rewrite Sd, (c_val _ _ C (LDepth i) eq_refl). cbn [heap_val]. rewrite G. cbn [option_map]. rewrite Hd15. reflexivity.
      + reflexivity.
      + intros j mm mv A Gj Ev. pose proof (adm_full_last L _ j mm A Gj) as Lv.
        rewrite (c_val _ _ C (LMask i) eq_refl) in Lv. cbn [heap_val] in Lv. rewrite G in Lv.
        destruct nd as [|x d par mk0 sl]; [discriminate|]. cbn [n_mask] in B. rewrite Ev in Lv. injection Lv as <-. exact B.
    - (* an inner node *)
      injection Ec as <-.
      assert (Hi : (i < length (nodes s))%nat) by (apply nth_error_Some; congruence).
      destruct (hdr_stable q i Hi) as [Sp Sd]. fold L in Sp, Sd.
      pose proof (node_ok_link _ (inv_ok _ _ I _ _ G) Hent) as Hd.
      destruct nd as [x d par ls|]; [|discriminate]. cbn [n_depth n_prefix n_links] in *.
      assert (Hcell : lastval L (LLink i (idxP k d)) = Some (VPtr (nth (N.to_nat (idxP k d)) ls None))).
      { rewrite (c_val _ _ C (LLink i (idxP k d)) eq_refl). cbn [heap_val]. rewrite G.
        pose proof (c_l16 _ _ C _ _ _ _ _ G) as L16. pose proof (idx_lt k d).
        destruct (nth_error ls (N.to_nat (idxP k d))) as [y|] eqn:Gy; [|apply nth_error_None in Gy; lia].
        cbn [option_map]. rewrite (nth_error_nth _ _ _ Gy). reflexivity. }
      destruct (nth (N.to_nat (idxP k d)) ls None) as [c1|] eqn:Ec1.
      2:{ apply Walk_inv in W. subst st. discriminate. }
      eapply (Cov_link LF L k e _ i d).
      + exact Hd.
      + rewrite Sp, (c_val _ _ C (LPrefix i) eq_refl). cbn [heap_val]. rewrite G. cbn [option_map n_prefix]. rewrite He. reflexivity.
      + rewrite Sd, (c_val _ _ C (LDepth i) eq_refl). cbn [heap_val]. rewrite G. reflexivity.
      + intros j mm A Gj. pose proof (adm_full_last L _ j mm A Gj) as Lv. rewrite Hcell in Lv. injection Lv as Lv. eauto.
      + intros j mm c' A Gj Ev. pose proof (adm_full_last L _ j mm A Gj) as Lv. rewrite Hcell, Ev in Lv. injection Lv as <-.
        assert (Hj : (j < length L)%nat) by (apply nth_error_Some; congruence).
        replace (nb (length L) j mm) with (length L) by (unfold nb; destruct (mrel mm); lia).
        eapply IH; [exact Est|exact B|reflexivity].
  Qed.

  (* ---------------------------------------------------------------- one more operation *)
  Definition oldptr (n0 : nat) (l : loc) : Prop := l = LRoot \/ exists c i, l = LLink c i /\ (c < n0)%nat.

  Section Ext.
    Variables (q : nat) (w : wop) (k : N) (e : nat).
    Hypothesis Gw : nth_error wops q = Some w.
    Hypothesis Hk : k < K64.
    Hypothesis Hne : w <> WErase k.
    Notation L := (blog o esz lsz wops q).
    Notation s := (bstate esz lsz wops q).
    Notation M := (op_msgs o esz lsz s w).
    Notation n0 := (length (nodes s)).

    Lemma HStq : Stat L s.
    Proof. apply Stat_hist; assumption. Qed.
    Lemma HStq' : Stat (L ++ M) (op_next esz lsz s w).
    Proof. destruct (blog_S o esz lsz wops q w Gw) as [<- <-]. apply Stat_hist; assumption. Qed.
    Lemma Hokw : wop_okb s w = true.
    Proof. eapply bstate_okb; eassumption. Qed.

    Lemma heap_hdr c nd : nth_error (nodes s) c = Some nd ->
      lastval LF (LPrefix c) = Some (VNum (n_prefix nd)) /\ lastval LF (LDepth c) = Some (VNum (n_depth nd)).
    Proof.
      intros G. assert (Hc : (c < n0)%nat) by (apply nth_error_Some; congruence).
      destruct (hdr_stable q c Hc) as [-> ->].
      rewrite (c_val _ _ (st_cons _ _ HStq) (LPrefix c) eq_refl), (c_val _ _ (st_cons _ _ HStq) (LDepth c) eq_refl).
      cbn [heap_val]. rewrite G. split; reflexivity.
    Qed.

    Lemma cell_content pi pn i : nth_error (nodes s) pi = Some pn -> is_entry pn = false -> i < 16 ->
      lastval L (LLink pi i) = Some (VPtr (nth (N.to_nat i) (n_links pn) None)).
    Proof.
      intros G Hent Hi. rewrite (c_val _ _ (st_cons _ _ HStq) (LLink pi i) eq_refl). cbn [heap_val]. rewrite G.
      destruct pn as [x d par ls|]; [|discriminate]. cbn [n_links].
      pose proof (c_l16 _ _ (st_cons _ _ HStq) _ _ _ _ _ G) as L16.
      destruct (nth_error ls (N.to_nat i)) as [y|] eqn:Gy; [|apply nth_error_None in Gy; lia].
      cbn [option_map]. rewrite (nth_error_nth _ _ _ Gy). reflexivity.
    Qed.

    (* the cell a case-1 / case-2 operation publishes into, and what it held *)
    Definition pubcell (p : option nat) : loc :=
      match p with None => LRoot | Some pi => LLink pi (cell_idx (nodes s) (wop_key w) p) end.

    Lemma pubcell_c1 p : Walk (nodes s) (wop_key w) None (root s) (FCase1 p) -> lastval L (pubcell p) = Some (VPtr None).
    Proof.
      intros W. destruct p as [pi|]; cbn [pubcell cell_idx].
      - destruct (case1_parent _ _ _ _ W pi eq_refl) as (pn & G & Hent & _ & Hc & _). rewrite G.
        rewrite (cell_content pi pn _ G Hent (idx_lt _ _)), Hc. reflexivity.
      - pose proof (walk_top_immediate _ _ _ _ W eq_refl) as Ert. cbn in Ert.
        rewrite (c_val _ _ (st_cons _ _ HStq) LRoot eq_refl). cbn [heap_val]. rewrite Ert. reflexivity.
    Qed.

    Lemma pubcell_c2 p si : Walk (nodes s) (wop_key w) None (root s) (FCase2 p si) -> lastval L (pubcell p) = Some (VPtr (Some si)).
    Proof.
      intros W. destruct p as [pi|]; cbn [pubcell cell_idx].
      - destruct (case2_parent _ _ _ _ _ W pi eq_refl) as (pn & G & Hent & _ & Hc & _). rewrite G.
        rewrite (cell_content pi pn _ G Hent (idx_lt _ _)), Hc. reflexivity.
      - pose proof (walk_top_immediate _ _ _ _ W eq_refl) as Ert. cbn in Ert.
        rewrite (c_val _ _ (st_cons _ _ HStq) LRoot eq_refl). cbn [heap_val]. rewrite Ert. reflexivity.
    Qed.

    (* case 2: the new inner node r covers k as soon as the displaced child si does *)
    Lemma c2_cov_r v p si sn d b0 :
      Walk (nodes s) (wop_key w) None (root s) (FCase2 p si) -> nth_error (nodes s) si = Some sn ->
      d < n_depth sn -> hi (wop_key w) d = hi (n_prefix sn) d ->
      M = c2_msgs o (nodes s) (wop_key w) v p si (n_prefix sn) d ->
      Cov LF (L ++ M) k e b0 si -> (b0 <= length L + 51)%nat ->
      Cov LF (L ++ M) k e (length L + 51) (S n0).
    Proof.
      intros W Gs Hd Hag EM Csi Hb0.
      pose proof (node_ok_depth _ (inv_ok _ _ (st_inv _ _ HStq) _ _ Gs)) as Hds.
      destruct (heap_hdr si sn Gs) as [Lps Lds].
      (* k goes through si *)
      assert (Hthru : n_prefix sn = pfxP k (n_depth sn)).
      { inversion Csi as [b c Lp Ld Ec Hm|b c d' Hd' Lp Ld Hex Hcov]; subst; rewrite Lps in Lp; rewrite Lds in Ld;
          injection Lp as Lp; injection Ld as Ld; rewrite Ld; exact Lp. }
      assert (Epfx : pfxP (wop_key w) d = pfxP k d).
      { apply pfx_eq_iff. rewrite Hag, Hthru. apply hi_pfx; lia. }
      assert (Eidx : idxP (n_prefix sn) d = idxP k d).
      { rewrite Hthru. apply idx_pfx; lia. }
      assert (Hsi : (si < n0)%nat) by (apply nth_error_Some; congruence).
      assert (Hpi : forall pi, p = Some pi -> (pi < n0)%nat).
      { intros pi E. destruct (case2_parent _ _ _ _ _ W pi E) as (pn & G & _). apply nth_error_Some. congruence. }
      (* r is allocated in the next state: the publish message points to it *)
      assert (Hr : (S n0 < length (nodes (op_next esz lsz s w)))%nat).
      { apply (st_tgt _ _ HStq' (length L + 50)%nat (pub_msg (o_c2_link o) (o_c2_root o) (nodes s) (wop_key w) p (S n0))).
        - apply nth_app_r. rewrite EM. destruct p; reflexivity.
        - destruct p; reflexivity. }
      destruct (blog_S o esz lsz wops q w Gw) as [BL BS].
      assert (Hfld : lastval LF (LPrefix (S n0)) = Some (VNum (pfxP k d)) /\ lastval LF (LDepth (S n0)) = Some (VNum d)).
      { rewrite <- BS in Hr. destruct (hdr_stable (S q) (S n0) Hr) as [-> ->]. rewrite BL, !lastval_app, EM.
        rewrite c2_lastval_prefix, c2_lastval_depth, Nat.eqb_refl, Epfx. split; reflexivity. }
      destruct Hfld as [Lpr Ldr].
      (* the messages of the cell of k in r *)
      assert (Hnone : forall i j, ~ at_loc L (LLink (S n0) i) j).
      { intros i. apply lastval_none. rewrite (c_val _ _ (st_cons _ _ HStq) (LLink (S n0) i) eq_refl). cbn [heap_val].
        rewrite (proj2 (nth_error_None _ _)) by lia. reflexivity. }
      assert (Hle : forall a m i, nth_error M a = Some m -> mloc m = LLink (S n0) i -> (a <= 49)%nat).
      { intros a m i Ga El. rewrite EM in Ga.
        assert (A : all_i (fun a m => forall i, mloc m = LLink (S n0) i -> (a <= 49)%nat) 0
                      (c2_msgs o (nodes s) (wop_key w) v p si (n_prefix sn) d)).
        { destruct p as [pi|]; [specialize (Hpi pi eq_refl)|]; expl; cbn [all_i]; repeat apply conj; try exact Logic.I;
            intros i0 E0; cbn in E0; try discriminate; try lia; injection E0 as E0 _; lia. }
        exact (all_i_nth0 _ _ A a m Ga i El). }
      assert (G49 : nth_error M 49 = Some (mk (LLink (S n0) (idxP (n_prefix sn) d)) (VPtr (Some si)) (is_rel (o_c2_ls o)) false)).
      { rewrite EM. destruct p; reflexivity. }
      assert (Hadm : forall j, adm (L ++ M) (LLink (S n0) (idxP k d)) (length L + 51) j -> j = (length L + 49)%nat).
      { intros j [(m & G & El) B]. destruct (nth_app_cases _ _ _ _ G) as [[Hlt G']|[Hge G']].
        - exfalso. apply (Hnone (idxP k d) j). exists m. auto.
        - pose proof (Hle _ _ _ G' El) as Ha.
          destruct (Nat.eq_dec (j - length L) 49) as [E49|N49]; [lia|]. exfalso.
          assert (Hat : at_loc (L ++ M) (LLink (S n0) (idxP k d)) (length L + 49)).
          { eexists. split; [apply nth_app_r; exact G49|]. cbn [mloc mk]. rewrite Eidx. reflexivity. }
          specialize (B _ Hat ltac:(lia)). lia. }
      eapply (Cov_link LF (L ++ M) k e _ (S n0) d).
      - lia.
      - exact Lpr.
      - exact Ldr.
      - intros j m A G. rewrite (Hadm j A) in G. rewrite (nth_app_r L M 49 _ G49) in G. injection G as <-. exists si. reflexivity.
      - intros j m c' A G Ev. rewrite (Hadm j A) in G |- *. rewrite (nth_app_r L M 49 _ G49) in G. injection G as <-.
        cbn [mval mk] in Ev. injection Ev as <-.
        apply (Cov_mono _ _ _ _ _ _ Csi). unfold nb. destruct (mrel _); lia.
    Qed.

    (* which messages of the operation are stores to pointer cells that existed before it *)
    Lemma old_ptr_msg a m : nth_error M a = Some m -> oldptr n0 (mloc m) ->
      (exists p, Walk (nodes s) (wop_key w) None (root s) (FCase1 p) /\ mloc m = pubcell p) \/
      (exists v p si sn d, Walk (nodes s) (wop_key w) None (root s) (FCase2 p si) /\ nth_error (nodes s) si = Some sn /\
         d < n_depth sn /\ hi (wop_key w) d = hi (n_prefix sn) d /\
         M = c2_msgs o (nodes s) (wop_key w) v p si (n_prefix sn) d /\ mloc m = pubcell p /\ a = 50%nat /\
         mval m = VPtr (Some (S n0)) /\ mrel m = true).
    Proof.
      intros Ga Hold. destruct (op_shape_ok esz lsz s w (st_inv _ _ HStq) Hokw) as [_ Sh].
      destruct (suff o Hsuf) as (_ & _ & _ & _ & _ & R1 & R2 & _).
      unfold op_msgs in *.
      destruct Sh as [e0 _ _ Hst Hcase|v p _ _ W Hst Hcase|v p si sn d _ W Gs Hd Hag Hdis Hab Hst Hcase
                     |v e0 en _ W Ge Hent Hpfx Hbit Hst Hcase|e0 en _ W Ge Hent Hpfx Hbit Hst Hcase]; rewrite Hst, Hcase in *.
      - destruct a; discriminate.
      - left. exists p. split; [exact W|]. rewrite c1_msgs_ok in Ga.
        assert (A : all_i (fun a m => oldptr n0 (mloc m) -> mloc m = pubcell p) 0 (c1_msgs o (nodes s) (wop_key w) v p)).
        { destruct p as [pi|]; expl; cbn [all_i]; repeat apply conj; try exact Logic.I;
            intros [E|(c & i & E & Hc)]; cbn in E; try discriminate; try reflexivity. }
        exact (all_i_nth0 _ _ A a m Ga Hold).
      - right. exists v, p, si, sn, d. rewrite c2_msgs_ok in *. do 4 (split; [assumption|]). split; [reflexivity|].
        assert (A : all_i (fun a m => oldptr n0 (mloc m) -> mloc m = pubcell p /\ a = 50%nat /\ mval m = VPtr (Some (S n0)) /\ mrel m = true) 0
                      (c2_msgs o (nodes s) (wop_key w) v p si (n_prefix sn) d)).
        { destruct p as [pi|]; expl; cbn [all_i]; repeat apply conj; try exact Logic.I;
            intros [E|(c & i & E & Hc)]; cbn in E; try discriminate; try (injection E as E _; lia);
            cbn [mloc mval mrel mk pubcell]; rewrite ?R1, ?R2; auto. }
        exact (all_i_nth0 _ _ A a m Ga Hold).
      - exfalso. rewrite c3_msgs_ok in Ga. destruct a as [|[|a]]; [| |destruct a; discriminate]; cbn in Ga; injection Ga as <-;
          destruct Hold as [E|(c & i & E & Hc)]; discriminate.
      - exfalso. rewrite ce_msgs_ok in Ga. destruct a as [|a]; [|destruct a; discriminate]; cbn in Ga; injection Ga as <-;
          destruct Hold as [E|(c & i & E & Hc)]; discriminate.
    Qed.

    (* a new mask message of an old leaf keeps the bit of k *)
    Lemma mask_ext a m c mv : nth_error M a = Some m -> mloc m = LMask c -> (c < n0)%nat -> mval m = VNum mv ->
      lastval LF (LPrefix c) = Some (VNum (pfxP k 15)) ->
      (forall mv0, lastval L (LMask c) = Some (VNum mv0) -> N.testbit mv0 (idxP k 15) = true) ->
      N.testbit mv (idxP k 15) = true.
    Proof.
      intros Ga El Hc Ev Lp Hold. destruct (op_shape_ok esz lsz s w (st_inv _ _ HStq) Hokw) as [_ Sh].
      unfold op_msgs in *.
      destruct Sh as [e0 _ _ Hst Hcase|v p _ _ W Hst Hcase|v p si sn d _ W Gs Hd Hag Hdis Hab Hst Hcase
                     |v e0 en _ W Ge Hent Hpfx Hbit Hst Hcase|e0 en Ew W Ge Hent Hpfx Hbit Hst Hcase]; rewrite Hst, Hcase in *.
      - destruct a; discriminate.
      - exfalso. rewrite c1_msgs_ok in Ga.
        assert (A : all_i (fun a m => forall c, mloc m = LMask c -> (n0 <= c)%nat) 0 (c1_msgs o (nodes s) (wop_key w) v p)).
        { destruct p as [pi|]; expl; cbn [all_i]; repeat apply conj; try exact Logic.I;
            intros c0 E; cbn in E; try discriminate; injection E as <-; lia. }
        pose proof (all_i_nth0 _ _ A a m Ga c El). lia.
      - exfalso. rewrite c2_msgs_ok in Ga.
        assert (A : all_i (fun a m => forall c, mloc m = LMask c -> (n0 <= c)%nat) 0
                      (c2_msgs o (nodes s) (wop_key w) v p si (n_prefix sn) d)).
        { destruct p as [pi|]; expl; cbn [all_i]; repeat apply conj; try exact Logic.I;
            intros c0 E; cbn in E; try discriminate; injection E as <-; lia. }
        pose proof (all_i_nth0 _ _ A a m Ga c El). lia.
      - rewrite c3_msgs_ok in Ga. destruct a as [|[|a]]; [| |destruct a; discriminate]; cbn in Ga; injection Ga as <-; cbn in El, Ev; try discriminate.
        injection El as <-. injection Ev as <-. rewrite testbit_set. apply orb_true_iff. left.
        apply Hold. apply (entry_mask L s e0 en (st_cons _ _ HStq) Ge Hent).
      - rewrite ce_msgs_ok in Ga. destruct a as [|a]; [|destruct a; discriminate]; cbn in Ga; injection Ga as <-; cbn in El, Ev.
        injection El as <-. injection Ev as <-. rewrite testbit_clear. apply andb_true_iff. split.
        + apply Hold. apply (entry_mask L s e0 en (st_cons _ _ HStq) Ge Hent).
        + apply negb_true_iff. apply N.eqb_neq. intros Eix. apply Hne. rewrite Ew. f_equal.
          destruct (heap_hdr e0 en Ge) as [Lpe _]. rewrite Lpe in Lp. injection Lp as Lp. rewrite Hpfx in Lp.
          apply key_eq; assumption.
    Qed.

    (* a new message at a pointer cell that existed before the operation *)
    Lemma cell_new l b j m : oldptr n0 l -> (b <= length L)%nat ->
      (forall j0 m0, adm L l b j0 -> nth_error L j0 = Some m0 -> exists c', mval m0 = VPtr (Some c')) ->
      (forall j0 m0 c', adm L l b j0 -> nth_error L j0 = Some m0 -> mval m0 = VPtr (Some c') ->
         Cov LF (L ++ M) k e (nb b j0 m0) c') ->
      adm (L ++ M) l b j -> nth_error (L ++ M) j = Some m -> (length L <= j)%nat ->
      exists c', mval m = VPtr (Some c') /\ Cov LF (L ++ M) k e (nb b j m) c'.
    Proof.
      intros Hold Hb Hex HIH A G Hge.
      assert (El : mloc m = l). { destruct A as [(m' & G' & E') _]. rewrite G in G'. injection G' as <-. exact E'. }
      rewrite nth_error_app2 in G by exact Hge.
      rewrite <- El in Hold.
      destruct (old_ptr_msg _ _ G Hold) as [(p & W & Ep)|(v & p & si & sn & d & W & Gs & Hd & Hag & EM & Ep & Ea & Ev & Er)].
      - exfalso. pose proof (pubcell_c1 p W) as Lv. rewrite <- Ep, El in Lv.
        destruct (last_adm L l _ b Lv Hb) as (j0 & m0 & A0 & G0 & V0).
        destruct (Hex j0 m0 A0 G0) as (c' & Ec'). congruence.
      - pose proof (pubcell_c2 p si W) as Lv. rewrite <- Ep, El in Lv.
        destruct (last_adm L l _ b Lv Hb) as (j0 & m0 & A0 & G0 & V0).
        pose proof (HIH j0 m0 si A0 G0 V0) as Csi.
        assert (Hj0 : (j0 < length L)%nat) by (apply nth_error_Some; congruence).
        assert (Hnb : (nb b j0 m0 <= length L + 51)%nat) by (unfold nb; destruct (mrel m0); lia).
        pose proof (c2_cov_r v p si sn d _ W Gs Hd Hag EM Csi Hnb) as Cr.
        exists (S n0). split; [exact Ev|]. unfold nb. rewrite Er.
        replace (Nat.max b (S j)) with (length L + 51)%nat by lia. exact Cr.
    Qed.

    Lemma Cov_ext b c : Cov LF L k e b c -> (b <= length L)%nat -> (c < n0)%nat -> Cov LF (L ++ M) k e b c.
    Proof.
      induction 1 as [b c Lp Ld Ec Hm|b c d Hd Lp Ld Hex Hcov IH]; intros Hb Hc.
      - apply Cov_entry; auto. intros j m mv A G Ev. destruct (nth_app_cases _ _ _ _ G) as [[Hlt G']|[Hge G']].
        + apply (Hm j m mv (adm_app_old _ _ _ _ _ A Hlt) G' Ev).
        + assert (El : mloc m = LMask c). { destruct A as [(m' & G2 & E') _]. rewrite G in G2. injection G2 as <-. exact E'. }
          apply (mask_ext _ m c mv G' El Hc Ev Lp). intros mv0 Lv.
          destruct (last_adm L _ _ b Lv Hb) as (j0 & m0 & A0 & G0 & V0). exact (Hm j0 m0 mv0 A0 G0 V0).
      - assert (IH' : forall j0 m0 c', adm L (LLink c (idxP k d)) b j0 -> nth_error L j0 = Some m0 -> mval m0 = VPtr (Some c') ->
                  Cov LF (L ++ M) k e (nb b j0 m0) c').
        { intros j0 m0 c' A0 G0 V0. apply (IH j0 m0 c' A0 G0 V0).
          - assert (j0 < length L)%nat by (apply nth_error_Some; congruence). unfold nb. destruct (mrel m0); lia.
          - apply (st_tgt _ _ HStq j0 m0 c' G0). destruct A0 as [(m' & G2 & E') _]. rewrite G0 in G2. injection G2 as <-.
            unfold ptr_target. rewrite E', V0. reflexivity. }
        assert (Hold : oldptr n0 (LLink c (idxP k d))) by (right; eauto).
        eapply Cov_link; eauto.
        + intros j m A G. destruct (nth_app_cases _ _ _ _ G) as [[Hlt G']|[Hge G']].
          * apply (Hex j m (adm_app_old _ _ _ _ _ A Hlt) G').
          * destruct (cell_new _ b j m Hold Hb Hex IH' A G Hge) as (c' & Ev & _). eauto.
        + intros j m c' A G Ev. destruct (nth_app_cases _ _ _ _ G) as [[Hlt G']|[Hge G']].
          * apply (IH' j m c' (adm_app_old _ _ _ _ _ A Hlt) G' Ev).
          * destruct (cell_new _ b j m Hold Hb Hex IH' A G Hge) as (c2 & Ev2 & C2). rewrite Ev in Ev2. injection Ev2 as <-. exact C2.
    Qed.

    Lemma CovRoot_ext b : CovCell LF L k e b LRoot -> (b <= length L)%nat -> CovCell LF (L ++ M) k e b LRoot.
    Proof.
      intros [Hex Hcov] Hb.
      assert (IH' : forall j0 m0 c', adm L LRoot b j0 -> nth_error L j0 = Some m0 -> mval m0 = VPtr (Some c') ->
                Cov LF (L ++ M) k e (nb b j0 m0) c').
      { intros j0 m0 c' A0 G0 V0. apply Cov_ext; [exact (Hcov j0 m0 c' A0 G0 V0)| |].
        - assert (j0 < length L)%nat by (apply nth_error_Some; congruence). unfold nb. destruct (mrel m0); lia.
        - apply (st_tgt _ _ HStq j0 m0 c' G0). destruct A0 as [(m' & G2 & E') _]. rewrite G0 in G2. injection G2 as <-.
          unfold ptr_target. rewrite E', V0. reflexivity. }
      assert (Hold : oldptr n0 LRoot) by (left; reflexivity).
      split.
      - intros j m A G. destruct (nth_app_cases _ _ _ _ G) as [[Hlt G']|[Hge G']].
        + apply (Hex j m (adm_app_old _ _ _ _ _ A Hlt) G').
        + destruct (cell_new _ b j m Hold Hb Hex IH' A G Hge) as (c' & Ev & _). eauto.
      - intros j m c' A G Ev. destruct (nth_app_cases _ _ _ _ G) as [[Hlt G']|[Hge G']].
        + apply (IH' j m c' (adm_app_old _ _ _ _ _ A Hlt) G' Ev).
        + destruct (cell_new _ b j m Hold Hb Hex IH' A G Hge) as (c2 & Ev2 & C2). rewrite Ev in Ev2. injection Ev2 as <-. exact C2.
    Qed.
  End Ext.

  (* ---------------------------------------------------------------- over a history *)
  Lemma blog_len_mono p q : (p <= q)%nat -> (length (blog o esz lsz wops p) <= length (blog o esz lsz wops q))%nat.
  Proof. intros H. destruct (blog_mono o esz lsz wops p q H) as (X & ->). rewrite app_length. lia. Qed.

  Theorem cov_hist k e p : k < K64 -> find (bstate esz lsz wops p) k = Ok (Some (e, idxP k 15)) ->
    forall q, (p <= q)%nat -> (q <= length wops)%nat ->
    (forall t, (p <= t < q)%nat -> nth_error wops t <> Some (WErase k)) ->
    CovCell LF (blog o esz lsz wops q) k e (length (blog o esz lsz wops p)) LRoot /\
    find (bstate esz lsz wops q) k = Ok (Some (e, idxP k 15)).
  Proof.
    intros Hk Hp q Hpq. induction Hpq as [|q Hpq IH]; intros Hq Hne.
    - split; [|exact Hp].
      pose proof (Stat_hist o esz lsz Hsuf wops Hok p) as HSt. pose proof (st_inv _ _ HSt) as I.
      destruct (find_walk _ k I Hk) as (st & W & F). rewrite Hp in F. injection F as F.
      destruct st as [pp|pp si|e0 m ix]; try discriminate. cbn [find_of_stop] in F.
      destruct (N.testbit m ix) eqn:B; [|discriminate]. injection F as <- <-.
      assert (Hroot : forall j mm, adm (blog o esz lsz wops p) LRoot (length (blog o esz lsz wops p)) j ->
                nth_error (blog o esz lsz wops p) j = Some mm -> mval mm = VPtr (root (bstate esz lsz wops p))).
      { intros j mm A G. pose proof (adm_full_last _ _ j mm A G) as Lv.
        rewrite (c_val _ _ (st_cons _ _ HSt) LRoot eq_refl) in Lv. cbn [heap_val] in Lv. injection Lv as Lv. symmetry. exact Lv. }
      destruct (root (bstate esz lsz wops p)) as [c|] eqn:Er.
      2:{ apply Walk_inv in W. discriminate. }
      split.
      + intros j mm A G. rewrite (Hroot j mm A G). eauto.
      + intros j mm c' A G Ev. rewrite (Hroot j mm A G) in Ev. injection Ev as <-.
        assert (Hj : (j < length (blog o esz lsz wops p))%nat) by (apply nth_error_Some; congruence).
        replace (nb (length (blog o esz lsz wops p)) j mm) with (length (blog o esz lsz wops p)) by (unfold nb; destruct (mrel mm); lia).
        eapply (cov_base p k e Hk); [exact W|reflexivity|exact B|reflexivity].
    - destruct IH as [IC IF]; [lia|intros t Ht; apply Hne; lia|].
      destruct (nth_error wops q) as [w|] eqn:Gw; [|apply nth_error_None in Gw; lia].
      assert (Hnw : w <> WErase k). { intros ->. apply (Hne q); [lia|exact Gw]. }
      destruct (blog_S o esz lsz wops q w Gw) as [-> ->]. split.
      + apply (CovRoot_ext q w k e Gw Hk Hnw); [exact IC|]. apply blog_len_mono. exact Hpq.
      + pose proof (bstate_okb esz lsz wops q w Hok Gw) as Hokw.
        destruct (op_run_ok esz lsz _ w (bstate_inv esz lsz wops q Hok) Hokw) as (s' & _ & En & _ & Foth & Fsame).
        rewrite En. destruct (N.eq_dec (wop_key w) k) as [Ek|Ek].
        * assert (s' = bstate esz lsz wops q) as ->; [|exact IF]. apply (Fsame (e, idxP k 15)); [rewrite Ek; exact IF|].
          rewrite Ek. exact Hnw.
        * rewrite Foth by (try exact Hk; congruence). exact IF.
  Qed.
End Found.
