(* The writer is schedule-independent: whatever the interleaving, after its n-th slot the memory is the
   same prefix of the complete write log of the history ([full_log]); operation boundaries are the logs
   of the prefixes of the history ([blog]). *)
From Coq Require Import List NArith Arith Bool Lia ZifyBool ZifyNat ZifyN.
From FV Require Import Common.EventLog Radix.RadixModel Radix.RadixBits Radix.RadixInv Radix.RadixExec
  Radix.RadixSpec RadixConc.RAView RadixConc.ConcModel RadixConc.ConcProg.
Import ListNotations.
Local Open Scope nat_scope.

Lemma apply_step_length s m s' : apply_step s m = Ok s' ->
  length (nodes s') = if is_alloc m then S (length (nodes s)) else length (nodes s).
Proof.
  destruct m; cbn [apply_step step_target is_alloc]; intros E;
    try (injection E as <-; cbn [nodes]; rewrite app_length; cbn; lia);
    try (injection E as <-; reflexivity);
    (destruct (nth_error (nodes s) n) as [nd|]; [|discriminate]; destruct (step_node _ nd); cbn [bind] in E; try discriminate;
     injection E as <-; cbn [nodes]; apply length_upd).
Qed.

(* ---------------------------------------------------------------- histories and their boundary states/logs *)
Fixpoint hist_end (esz lsz : N) (s : st) (ops : list wop) : st :=
  match ops with [] => s | w :: r => hist_end esz lsz (op_next esz lsz s w) r end.

Lemma hist_log_app o esz lsz ops1 : forall s ops2,
  hist_log o esz lsz s (ops1 ++ ops2) = hist_log o esz lsz s ops1 ++ hist_log o esz lsz (hist_end esz lsz s ops1) ops2.
Proof.
  induction ops1 as [|w r IH]; intros s ops2; cbn [app hist_log hist_end]; [reflexivity|].
  rewrite IH, app_assoc. reflexivity.
Qed.

Lemma hist_end_app esz lsz ops1 : forall s ops2,
  hist_end esz lsz s (ops1 ++ ops2) = hist_end esz lsz (hist_end esz lsz s ops1) ops2.
Proof. induction ops1 as [|w r IH]; intros s ops2; cbn [app hist_end]; [reflexivity|apply IH]. Qed.

Lemma hist_okb_app esz lsz ops1 : forall s ops2,
  hist_okb esz lsz s (ops1 ++ ops2) = hist_okb esz lsz s ops1 && hist_okb esz lsz (hist_end esz lsz s ops1) ops2.
Proof.
  induction ops1 as [|w r IH]; intros s ops2; cbn [app hist_okb hist_end]; [reflexivity|].
  rewrite IH, andb_assoc. reflexivity.
Qed.

Lemma hist_inv esz lsz ops : forall s, Inv_s s -> hist_okb esz lsz s ops = true -> Inv_s (hist_end esz lsz s ops).
Proof.
  induction ops as [|w r IH]; intros s I H; cbn [hist_okb hist_end] in *; [exact I|].
  apply andb_true_iff in H. destruct H as [H1 H2].
  destruct (op_run_ok esz lsz s w I H1) as (s' & _ & E & I' & _). rewrite E in *. apply IH; assumption.
Qed.

(* state and log at the boundary after the first p operations *)
Definition bstate (esz lsz : N) (ops : list wop) (p : nat) : st := hist_end esz lsz st0 (firstn p ops).
Definition blog (o : orders) (esz lsz : N) (ops : list wop) (p : nat) : log := full_log o esz lsz (firstn p ops).

Lemma blog_prefix o esz lsz ops p :
  full_log o esz lsz ops = blog o esz lsz ops p ++ hist_log o esz lsz (bstate esz lsz ops p) (skipn p ops).
Proof.
  unfold blog, full_log, bstate. rewrite <- (firstn_skipn p ops) at 1. rewrite hist_log_app, app_assoc. reflexivity.
Qed.

Lemma blog_S o esz lsz ops p w : nth_error ops p = Some w ->
  blog o esz lsz ops (S p) = blog o esz lsz ops p ++ op_msgs o esz lsz (bstate esz lsz ops p) w /\
  bstate esz lsz ops (S p) = op_next esz lsz (bstate esz lsz ops p) w.
Proof.
  intros G. assert (E : firstn (S p) ops = firstn p ops ++ [w]).
  { revert ops G; induction p as [|p IH]; intros [|x r] G; cbn in *; try discriminate.
    - injection G as <-. reflexivity.
    - f_equal. apply IH. exact G. }
  unfold blog, full_log, bstate. rewrite E, hist_log_app, hist_end_app. cbn [hist_log hist_end].
  rewrite app_nil_r, app_assoc. split; reflexivity.
Qed.

Lemma blog_all o esz lsz ops p : length ops <= p -> blog o esz lsz ops p = full_log o esz lsz ops.
Proof. intros H. unfold blog. rewrite firstn_all2 by exact H. reflexivity. Qed.

Lemma bstate_inv esz lsz ops p : hist_okb esz lsz st0 ops = true -> Inv_s (bstate esz lsz ops p).
Proof.
  intros H. unfold bstate. apply hist_inv; [exact Inv_s_st0|].
  rewrite <- (firstn_skipn p ops), hist_okb_app in H. apply andb_true_iff in H. tauto.
Qed.

Lemma bstate_okb esz lsz ops p w : hist_okb esz lsz st0 ops = true -> nth_error ops p = Some w ->
  wop_okb (bstate esz lsz ops p) w = true.
Proof.
  intros H G. rewrite <- (firstn_skipn p ops), hist_okb_app in H. apply andb_true_iff in H. destruct H as [_ H].
  fold (bstate esz lsz ops p) in H.
  assert (E : exists r, skipn p ops = w :: r).
  { clear H. revert ops G; induction p as [|p IH]; intros [|x r] G; cbn in *; try discriminate; [injection G as <-; eauto|apply IH; exact G]. }
  destruct E as (r & E). rewrite E in H. cbn [hist_okb] in H. apply andb_true_iff in H. tauto.
Qed.

Lemma blog_mono o esz lsz ops p q : p <= q -> exists M, blog o esz lsz ops q = blog o esz lsz ops p ++ M.
Proof.
  intros H. unfold blog, full_log.
  replace (firstn q ops) with (firstn p ops ++ firstn (q - p) (skipn p ops)).
  - rewrite hist_log_app. eexists. rewrite app_assoc. reflexivity.
  - rewrite <- (firstn_skipn p (firstn q ops)). f_equal.
    + rewrite firstn_firstn. f_equal. lia.
    + rewrite skipn_firstn_comm. reflexivity.
Qed.

(* ---------------------------------------------------------------- the writer invariant *)
Section Writer.
  Variables (o : orders) (esz lsz : N) (wops : list wop).
  Hypothesis Hok : hist_okb esz lsz st0 wops = true.

  Definition pend_msgs (w : wstate) : list msg :=
    steps_msgs o (w_key w) (length (nodes (w_st w))) (w_sites w) (w_pend w).

  Record WInv (w : wstate) (L : log) : Prop := mk_WInv {
    wi_stop : w_stop w = false;
    wi_bad : w_bad w = false;
    wi_run : exists se, run_steps (w_st w) (w_pend w) = Ok se /\ se = bstate esz lsz wops (w_started w);
    wi_ops : w_ops w = skipn (w_started w) wops /\ w_started w <= length wops;
    wi_log : L ++ pend_msgs w = blog o esz lsz wops (w_started w);
    wi_done : w_done w <= w_started w;
    wi_base : exists M, L = blog o esz lsz wops (w_done w) ++ M
  }.

  Lemma blog_0 : blog o esz lsz wops 0 = log0.
  Proof. unfold blog, full_log. cbn [firstn hist_log]. apply app_nil_r. Qed.

  Lemma WInv_init : WInv (w_init wops) log0.
  Proof.
    constructor; cbn [w_init w_stop w_bad w_st w_pend w_ops w_done]; unfold w_started; cbn [w_pend w_done w_init].
    - reflexivity.
    - reflexivity.
    - exists st0. split; reflexivity.
    - split; [reflexivity|lia].
    - rewrite blog_0. reflexivity.
    - lia.
    - exists []. rewrite blog_0. reflexivity.
  Qed.

  Lemma skipn_cons {A} (l : list A) p x r : skipn p l = x :: r -> nth_error l p = Some x /\ skipn (S p) l = r.
  Proof.
    revert l; induction p as [|p IH]; intros [|y t] E; cbn in *; try discriminate.
    - injection E as <- <-. split; reflexivity.
    - apply IH. exact E.
  Qed.

  Lemma WInv_step w L : WInv w L -> WInv (fst (wstep o esz lsz (w, L))) (snd (wstep o esz lsz (w, L))).
  Proof.
    intros HW. pose proof HW as [Hs Hb (se & Hr & Hse) (Ho & Hlen) Hl Hd (MB & HB)]. unfold wstep. rewrite Hs.
    destruct (w_pend w) as [|m r] eqn:Ep.
    - (* start the next operation *)
      assert (Est : w_started w = w_done w) by (unfold w_started; rewrite Ep; reflexivity).
      destruct (w_ops w) as [|op os] eqn:Eo.
      { cbn [fst snd]. exact HW. }
      cbn [run_steps] in Hr. injection Hr as Hr. subst se.
      symmetry in Ho. destruct (skipn_cons _ _ _ _ Ho) as [Gop Hsk].
      pose proof (bstate_okb esz lsz wops _ op Hok Gop) as Hokb. rewrite <- Hse in Hokb.
      pose proof (bstate_inv esz lsz wops (w_started w) Hok) as I. rewrite <- Hse in I.
      destruct (op_shape_ok esz lsz (w_st w) op I Hokb) as [Hg _].
      destruct (op_run_ok esz lsz (w_st w) op I Hokb) as (s' & Hrun & Hnext & I' & _).
      destruct (blog_S o esz lsz wops (w_started w) op Gop) as [BL BS]. rewrite <- Hse in BL, BS.
      assert (Hlen' : S (w_started w) <= length wops).
      { assert (w_started w < length wops) by (apply nth_error_Some; congruence). lia. }
      rewrite Hg. cbn [negb]. rewrite andb_false_r.
      unfold pend_msgs in Hl. rewrite Ep in Hl. cbn [steps_msgs] in Hl. rewrite app_nil_r in Hl.
      destruct (op_steps esz lsz (w_st w) op) as [|m1 r1] eqn:Es; cbn [nil_b andb fst snd].
      + (* an operation without micro-steps *)
        constructor; cbn [w_stop w_bad w_st w_pend w_ops w_done w_sites w_key]; unfold w_started;
          cbn [w_pend w_done].
        * reflexivity.
        * reflexivity.
        * exists (w_st w). split; [reflexivity|]. rewrite <- Est, BS, Hnext. cbn [run_steps] in Hrun. congruence.
        * rewrite <- Est. split; [symmetry; exact Hsk|exact Hlen'].
        * unfold pend_msgs. cbn [w_pend steps_msgs]. rewrite app_nil_r, <- Est, BL. unfold op_msgs. rewrite Es. cbn [steps_msgs].
          rewrite app_nil_r. exact Hl.
        * lia.
        * exists []. rewrite app_nil_r, <- Est, BL. unfold op_msgs. rewrite Es. cbn [steps_msgs]. rewrite app_nil_r. exact Hl.
      + constructor; cbn [w_stop w_bad w_st w_pend w_ops w_done w_sites w_key]; unfold w_started;
          cbn [w_pend w_done].
        * reflexivity.
        * reflexivity.
        * exists s'. split; [exact Hrun|]. rewrite <- Est, BS. symmetry. exact Hnext.
        * rewrite <- Est. split; [symmetry; exact Hsk|exact Hlen'].
        * unfold pend_msgs. cbn [w_pend w_st w_key w_sites]. rewrite <- Est, BL, Hl. unfold op_msgs. rewrite Es. reflexivity.
        * lia.
        * exists MB. exact HB.
    - (* one micro-step *)
      cbn [run_steps] in Hr. destruct (apply_step (w_st w) m) as [s'| | |] eqn:Ea; cbn [bind] in Hr; try discriminate.
      assert (Est : w_started w = S (w_done w)) by (unfold w_started; rewrite Ep; reflexivity).
      unfold pend_msgs in Hl. rewrite Ep in Hl. cbn [steps_msgs] in Hl.
      destruct (pop o (w_sites w) m) as [ord sites'] eqn:Epop.
      rewrite Hb. cbn [negb]. rewrite andb_false_r, andb_true_r.
      rewrite <- (apply_step_length _ _ _ Ea) in Hl.
      destruct r as [|m2 r2]; cbn [nil_b fst snd].
      + constructor; cbn [w_stop w_bad w_st w_pend w_ops w_done w_sites w_key]; unfold w_started;
          cbn [w_pend w_done].
        * reflexivity.
        * reflexivity.
        * exists s'. split; [reflexivity|]. cbn [run_steps] in Hr. congruence.
        * rewrite <- Est. split; assumption.
        * unfold pend_msgs. cbn [w_pend steps_msgs]. rewrite app_nil_r, <- Est, <- Hl. cbn [steps_msgs]. rewrite app_nil_r. reflexivity.
        * lia.
        * exists []. rewrite app_nil_r, <- Est, <- Hl. cbn [steps_msgs]. rewrite app_nil_r. reflexivity.
      + constructor; cbn [w_stop w_bad w_st w_pend w_ops w_done w_sites w_key]; unfold w_started;
          cbn [w_pend w_done].
        * reflexivity.
        * reflexivity.
        * exists se. split; [exact Hr|]. rewrite <- Est. exact Hse.
        * rewrite <- Est. split; assumption.
        * unfold pend_msgs. cbn [w_pend w_st w_key w_sites]. rewrite <- Est, <- Hl, <- app_assoc. reflexivity.
        * lia.
        * exists (MB ++ step_msgs (w_key w) (length (nodes (w_st w))) ord m). rewrite HB, <- app_assoc. reflexivity.
  Qed.

  (* consequences used by the reader proofs *)
  Lemma WInv_prefix w L : WInv w L -> exists M, full_log o esz lsz wops = L ++ M.
  Proof.
    intros [_ _ _ _ Hl _]. rewrite (blog_prefix o esz lsz wops (w_started w)), <- Hl, <- app_assoc. eauto.
  Qed.

  Lemma WInv_started w L : WInv w L -> exists M, blog o esz lsz wops (w_started w) = L ++ M.
  Proof. intros [_ _ _ _ Hl _]. rewrite <- Hl. eauto. Qed.

  Lemma WInv_done w L : WInv w L -> exists M, L = blog o esz lsz wops (w_done w) ++ M.
  Proof. intros H. exact (wi_base _ _ H). Qed.
End Writer.
