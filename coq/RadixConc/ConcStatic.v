(* Static invariants of the write log of a history: closed forms of the messages of each case of the source,
   the publication discipline (S_pub: every non-release write to a node precedes every pointer to it), mask/slot
   facts, and generic lemmas for extending a log by the messages of one operation. *)
From Coq Require Import List NArith Arith Bool Lia ZifyBool ZifyNat ZifyN.
From FV Require Import Common.EventLog Radix.RadixModel Radix.RadixBits Radix.RadixInv Radix.RadixExec
  Radix.RadixSem Radix.RadixFind Radix.RadixSpec RadixConc.RAView RadixConc.ConcModel RadixConc.ConcProg RadixConc.ConcWriter RadixConc.ConcLog.
Import ListNotations.
Local Open Scope N_scope.
Arguments pfxP : simpl never.
Arguments idxP : simpl never.
Arguments N.shiftl : simpl never.
Arguments N.lor : simpl never.
Arguments N.testbit : simpl never.
Arguments clear_bit : simpl never.

Definition entry_init_msgs (mo : morder) (n : nat) (k v : N) (par : option nat) : list msg :=
  [mk (LPrefix n) (VNum (pfxP k 15)) false true; mk (LDepth n) (VNum 15) false true; mk (LParent n) (VPtr par) false true;
   mk (LMask n) (VNum (bit (idxP k 15))) (is_rel mo) false; mk (LSlot n (idxP k 15)) (VSlot k v) false true].
Definition pub_msg (ol orr : morder) (H : list node) (k : N) (p : option nat) (c : nat) : msg :=
  match p with
  | None => mk LRoot (VPtr (Some c)) (is_rel orr) false
  | Some pi => mk (LLink pi (cell_idx H k p)) (VPtr (Some c)) (is_rel ol) false
  end.
Definition c1_msgs (o : orders) (H : list node) (k v : N) (p : option nat) : list msg :=
  let n := length H in
  alloc_entry_msgs n ++ entry_init_msgs (o_c1_mask o) n k v p ++ [pub_msg (o_c1_link o) (o_c1_root o) H k p n].
Definition link_init_msgs (o : orders) (r : nat) (k sp d : N) (p : option nat) (n si : nat) : list msg :=
  [mk (LPrefix r) (VNum (pfxP k d)) false true; mk (LDepth r) (VNum d) false true; mk (LParent r) (VPtr p) false true]
  ++ map (fun i => mk (LLink r i) (VPtr None) (is_rel (o_c2_null o)) false) idx16
  ++ [mk (LLink r (idxP k d)) (VPtr (Some n)) (is_rel (o_c2_lk o)) false;
      mk (LLink r (idxP sp d)) (VPtr (Some si)) (is_rel (o_c2_ls o)) false].
Definition c2_msgs (o : orders) (H : list node) (k v : N) (p : option nat) (si : nat) (sp d : N) : list msg :=
  let n := length H in let r := S n in
  alloc_entry_msgs n ++ alloc_link_msgs r ++ entry_init_msgs (o_c2_mask o) n k v (Some r) ++
  [mk (LParent si) (VPtr (Some r)) false true] ++ link_init_msgs o r k sp d p n si ++
  [pub_msg (o_c2_link o) (o_c2_root o) H k p r].
Definition c3_msgs (o : orders) (e : nat) (m k v : N) : list msg :=
  [mk (LSlot e (idxP k 15)) (VSlot k v) false true;
   mk (LMask e) (VNum (N.lor m (bit (idxP k 15)))) (is_rel (o_c3_mask o)) false].
Definition ce_msgs (o : orders) (e : nat) (m k : N) : list msg :=
  [mk (LMask e) (VNum (clear_bit m (idxP k 15))) (is_rel (o_e_mask o)) false].

Lemma c1_msgs_ok o esz H k v p : steps_msgs o k (length H) (case_sites C1) (c1_steps esz H k v p) = c1_msgs o H k v p.
Proof. destruct p; reflexivity. Qed.
Lemma c2_msgs_ok o esz lsz H k v p si sp d :
  steps_msgs o k (length H) (case_sites C2) (c2_steps esz lsz H k v p si sp d) = c2_msgs o H k v p si sp d.
Proof. destruct p; reflexivity. Qed.
Lemma c3_msgs_ok o n e m k v : steps_msgs o k n (case_sites C3) (c3_steps e m k v) = c3_msgs o e m k v.
Proof. reflexivity. Qed.
Lemma ce_msgs_ok o n e m k : steps_msgs o k n (case_sites CE) (ce_steps e m k) = ce_msgs o e m k.
Proof. reflexivity. Qed.

(* ---------------------------------------------------------------- helpers on explicit lists *)
Fixpoint all_i (P : nat -> msg -> Prop) (i : nat) (M : list msg) : Prop :=
  match M with [] => True | m :: r => P i m /\ all_i P (S i) r end.
Lemma all_i_nth P M : forall i, all_i P i M -> forall a m, nth_error M a = Some m -> P (i + a)%nat m.
Proof.
  induction M as [|x r IH]; intros i H a m G; [destruct a; discriminate|]. destruct H as [H1 H2].
  destruct a as [|a]; cbn in G.
  - injection G as <-. rewrite Nat.add_0_r. exact H1.
  - replace (i + S a)%nat with (S i + a)%nat by lia. eapply IH; eassumption.
Qed.
Lemma all_i_nth0 P M : all_i P 0 M -> forall a m, nth_error M a = Some m -> P a m.
Proof. intros H a m G. exact (all_i_nth P M 0%nat H a m G). Qed.

Lemma nth_app_cases {A} (L M : list A) j x : nth_error (L ++ M) j = Some x ->
  ((j < length L)%nat /\ nth_error L j = Some x) \/ ((length L <= j)%nat /\ nth_error M (j - length L) = Some x).
Proof.
  intros G. destruct (Nat.lt_ge_cases j (length L)) as [H|H].
  - left. rewrite nth_error_app1 in G by exact H. auto.
  - right. rewrite nth_error_app2 in G by exact H. auto.
Qed.
Lemma nth_app_l {A} (L M : list A) j x : nth_error L j = Some x -> nth_error (L ++ M) j = Some x.
Proof. intros G. rewrite nth_error_app1; [exact G|]. apply nth_error_Some. congruence. Qed.
Lemma nth_app_r {A} (L M : list A) a x : nth_error M a = Some x -> nth_error (L ++ M) (length L + a) = Some x.
Proof. intros G. rewrite nth_error_app2 by lia. replace (length L + a - length L)%nat with a by lia. exact G. Qed.

(* ---------------------------------------------------------------- static invariants of a write log *)
Definition ptr_target (m : msg) : option nat :=
  match mloc m, mval m with
  | LRoot, VPtr (Some c) => Some c
  | LLink _ _, VPtr (Some c) => Some c
  | _, _ => None
  end.
Definition hdr_of (m : msg) : option nat :=
  match mloc m with LPrefix c | LDepth c | LMask c | LLink c _ => Some c | _ => None end.
Definition has_na (L : log) (l : loc) : Prop := exists j m, nth_error L j = Some m /\ mloc m = l /\ mna m = true.

(* every write to a node's header / atomic cells that is not a release store precedes every pointer to the node *)
Definition S_pub (L : log) : Prop := forall jp mp c j m, nth_error L jp = Some mp -> ptr_target mp = Some c ->
  nth_error L j = Some m -> hdr_of m = Some c -> mrel m = false -> (j < jp)%nat.
Definition S_tgt (L : log) (n : nat) : Prop := forall j m c, nth_error L j = Some m -> ptr_target m = Some c -> (c < n)%nat.
Definition S_hdr (L : log) : Prop := forall j m, nth_error L j = Some m ->
  match mloc m with LPrefix _ | LDepth _ => mrel m = false | _ => True end.
Definition S_kna (L : log) : Prop := forall c d, lastval L (LDepth c) = Some (VNum d) ->
  if d =? 15 then has_na L (LMask c) else forall i, i < 16 -> has_na L (LLink c i).
Definition S_mask (L : log) : Prop := forall tm mm e mv i, nth_error L tm = Some mm -> mloc mm = LMask e -> mval mm = VNum mv ->
  N.testbit mv i = true ->
  exists tc mc kk v, nth_error L tc = Some mc /\ mloc mc = LSlot e i /\ mval mc = VSlot kk v /\
    ((tc < tm)%nat \/ (tc = S tm /\ forall jp mp, nth_error L jp = Some mp -> ptr_target mp = Some e -> (tc < jp)%nat)).
Definition S_slot (L : log) : Prop := forall tc mc e i kk v, nth_error L tc = Some mc -> mloc mc = LSlot e i -> mval mc = VSlot kk v ->
  kk < K64 /\ i = idxP kk 15 /\ lastval L (LPrefix e) = Some (VNum (pfxP kk 15)) /\ lastval L (LDepth e) = Some (VNum 15).

Record Stat (L : log) (s : st) : Prop := mk_Stat {
  st_inv : Inv_s s;
  st_cons : Consistent L s;
  st_pub : S_pub L;
  st_tgt : S_tgt L (length (nodes s));
  st_hdr : S_hdr L;
  st_kna : S_kna L;
  st_mask : S_mask L;
  st_slot : S_slot L
}.

(* no pointer to c is followed by a non-release write to c's header / cells *)
Fixpoint wf_pub (P : list nat) (M : list msg) : Prop :=
  match M with
  | [] => True
  | m :: r =>
      (forall c, hdr_of m = Some c -> mrel m = false -> ~ In c P /\ ptr_target m <> Some c) /\
      wf_pub (match ptr_target m with Some c => c :: P | None => P end) r
  end.

Lemma wf_pub_notin M : forall P, wf_pub P M -> forall b mb c, nth_error M b = Some mb -> hdr_of mb = Some c -> mrel mb = false -> ~ In c P.
Proof.
  induction M as [|x r IH]; intros P W b mb c G Hh Hr; [destruct b; discriminate|]. destruct W as [H1 H2].
  destruct b as [|b]; cbn in G.
  - injection G as <-. apply (H1 c Hh Hr).
  - specialize (IH _ H2 b mb c G Hh Hr). intros Hin. apply IH. destruct (ptr_target x); [right|]; exact Hin.
Qed.

Lemma wf_pub_sound M : forall P, wf_pub P M -> forall a b ma mb c, nth_error M a = Some ma -> ptr_target ma = Some c ->
  nth_error M b = Some mb -> hdr_of mb = Some c -> mrel mb = false -> (b < a)%nat.
Proof.
  induction M as [|x r IH]; intros P W a b ma mb c Ga Hp Gb Hh Hr; [destruct a; discriminate|]. destruct W as [H1 H2].
  destruct a as [|a], b as [|b]; cbn in Ga, Gb.
  - injection Ga as <-. injection Gb as <-. destruct (H1 c Hh Hr) as [_ Hne]. contradiction.
  - injection Ga as <-. rewrite Hp in H2. exfalso. apply (wf_pub_notin r _ H2 b mb c Gb Hh Hr). left. reflexivity.
  - lia.
  - specialize (IH _ H2 a b ma mb c Ga Hp Gb Hh Hr). lia.
Qed.

Lemma S_pub_app L M n0 : S_pub L -> S_tgt L n0 ->
  Forall (fun m : msg => forall c, hdr_of m = Some c -> mrel m = false -> (n0 <= c)%nat) M -> wf_pub [] M -> S_pub (L ++ M).
Proof.
  intros SP ST F W jp mp c j m Gp Hp G Hh Hr.
  destruct (nth_app_cases _ _ _ _ Gp) as [[Hjp Gp']|[Hjp Gp']], (nth_app_cases _ _ _ _ G) as [[Hj G']|[Hj G']].
  - eapply SP; eassumption.
  - exfalso. pose proof (ST _ _ _ Gp' Hp) as Hc. rewrite Forall_forall in F.
    specialize (F m (nth_error_In _ _ G') c Hh Hr). lia.
  - lia.
  - pose proof (wf_pub_sound M [] W _ _ _ _ c Gp' Hp G' Hh Hr). lia.
Qed.

Lemma S_tgt_app L M n0 n1 : S_tgt L n0 -> (n0 <= n1)%nat ->
  Forall (fun m : msg => forall c, ptr_target m = Some c -> (c < n1)%nat) M -> S_tgt (L ++ M) n1.
Proof.
  intros ST Hle F j m c G Hp. destruct (nth_app_cases _ _ _ _ G) as [[_ G']|[_ G']].
  - specialize (ST _ _ _ G' Hp). lia.
  - rewrite Forall_forall in F. exact (F m (nth_error_In _ _ G') c Hp).
Qed.

Lemma S_hdr_app L M : S_hdr L ->
  Forall (fun m : msg => match mloc m with LPrefix _ | LDepth _ => mrel m = false | _ => True end) M -> S_hdr (L ++ M).
Proof.
  intros SH F j m G. destruct (nth_app_cases _ _ _ _ G) as [[_ G']|[_ G']]; [eapply SH; exact G'|].
  rewrite Forall_forall in F. exact (F m (nth_error_In _ _ G')).
Qed.

Lemma has_na_app L M l : has_na L l -> has_na (L ++ M) l.
Proof. intros (j & m & G & E & N). exists j, m. split; [apply nth_app_l; exact G|auto]. Qed.
Lemma has_na_app_r L M l : has_na M l -> has_na (L ++ M) l.
Proof. intros (j & m & G & E & N). exists (length L + j)%nat, m. split; [apply nth_app_r; exact G|auto]. Qed.

(* ---------------------------------------------------------------- facts about the messages of one operation *)
Definition F1p (n0 : nat) (m : msg) : Prop := forall c, hdr_of m = Some c -> mrel m = false -> (n0 <= c)%nat.
Definition F3p (n1 : nat) (m : msg) : Prop := forall c, ptr_target m = Some c -> (c < n1)%nat.
Definition F4p (m : msg) : Prop := match mloc m with LPrefix _ | LDepth _ => mrel m = false | _ => True end.
Definition Mfacts (n0 n1 : nat) (M : list msg) : Prop :=
  Forall (F1p n0) M /\ wf_pub [] M /\ Forall (F3p n1) M /\ Forall F4p M.

Ltac expl := cbn [c1_msgs c2_msgs c3_msgs ce_msgs alloc_entry_msgs alloc_link_msgs entry_init_msgs link_init_msgs
                  pub_msg app map idx16 length].
Ltac fa := repeat apply Forall_cons; try apply Forall_nil.

Lemma wf_pub_cons P m r :
  (forall c, hdr_of m = Some c -> mrel m = false -> ~ In c P /\ ptr_target m <> Some c) ->
  wf_pub (match ptr_target m with Some c => c :: P | None => P end) r -> wf_pub P (m :: r).
Proof. intros A B. split; assumption. Qed.

Ltac wfp rw :=
  lazymatch goal with
  | |- wf_pub _ [] => exact I
  | |- wf_pub _ (_ :: _) =>
      apply wf_pub_cons;
      [ let c := fresh "c" in let Hc := fresh "Hc" in let Hr := fresh "Hr" in
        intros c Hc Hr; cbn in Hc, Hr; rw; try discriminate; injection Hc as <-;
        (split; [cbn; intuition lia | cbn; try discriminate; try (intros Eq; injection Eq; lia)])
      | cbn [ptr_target mloc mval mk]; wfp rw ]
  end.

Section Facts.
  Variable o : orders.
  Hypothesis Hsuf : orders_sufficient o = true.

  Lemma suff : is_acq (o_f_root o) = true /\ is_acq (o_f_mask o) = true /\ is_acq (o_f_link o) = true /\
    is_rel (o_c1_link o) = true /\ is_rel (o_c1_root o) = true /\ is_rel (o_c2_link o) = true /\ is_rel (o_c2_root o) = true /\
    is_rel (o_c3_mask o) = true /\ is_rel (o_e_mask o) = true.
  Proof.
    pose proof Hsuf as E. unfold orders_sufficient in E.
    repeat match type of E with (_ && _ = true) => apply andb_true_iff in E; let E2 := fresh in destruct E as [E E2] end.
    repeat split; assumption.
  Qed.

  Lemma c1_facts H k v p : (forall pi, p = Some pi -> (pi < length H)%nat) ->
    Mfacts (length H) (S (length H)) (c1_msgs o H k v p).
  Proof.
    intros Hp. destruct suff as (_ & _ & _ & R1 & R2 & _).
    assert (Hpi : forall pi, p = Some pi -> (pi < length H)%nat) by exact Hp.
    destruct p as [pi|]; [specialize (Hpi pi eq_refl)|]; expl; unfold Mfacts; (split; [|split; [|split]]).
    all: try (fa; intros c Hc; cbn in Hc; try discriminate; injection Hc as <-; try lia; intros Hr; cbn in Hr; rewrite ?R1, ?R2 in Hr; try discriminate; lia).
    all: try (fa; try exact I; reflexivity).
    all: wfp ltac:(rewrite ?R1, ?R2 in *).
  Qed.
  Lemma c2_facts H k v p si sp d : (forall pi, p = Some pi -> (pi < length H)%nat) -> (si < length H)%nat ->
    Mfacts (length H) (S (S (length H))) (c2_msgs o H k v p si sp d).
  Proof.
    intros Hp Hsi. destruct suff as (_ & _ & _ & _ & _ & R1 & R2 & _).
    assert (Hpi : forall pi, p = Some pi -> (pi < length H)%nat) by exact Hp.
    destruct p as [pi|]; [specialize (Hpi pi eq_refl)|]; expl; unfold Mfacts; (split; [|split; [|split]]).
    all: try (fa; intros c Hc; cbn in Hc; try discriminate; injection Hc as <-; try lia; intros Hr; cbn in Hr; rewrite ?R1, ?R2 in Hr; try discriminate; lia).
    all: try (fa; try exact I; reflexivity).
    all: wfp ltac:(rewrite ?R1, ?R2 in *).
  Qed.

  Lemma c3_facts e m k v n0 : (e < n0)%nat -> Mfacts n0 n0 (c3_msgs o e m k v).
  Proof.
    intros He. destruct suff as (_ & _ & _ & _ & _ & _ & _ & R1 & R2).
    unfold Mfacts, c3_msgs, ce_msgs; (split; [|split; [|split]]).
    all: try (fa; intros c Hc; cbn in Hc; try discriminate; injection Hc as <-; try lia; intros Hr; cbn in Hr; rewrite ?R1, ?R2 in Hr; try discriminate; lia).
    all: try (fa; try exact I; reflexivity).
    all: wfp ltac:(rewrite ?R1, ?R2 in *).
  Qed.

  Lemma ce_facts e m k n0 : (e < n0)%nat -> Mfacts n0 n0 (ce_msgs o e m k).
  Proof.
    intros He. destruct suff as (_ & _ & _ & _ & _ & _ & _ & R1 & R2).
    unfold Mfacts, c3_msgs, ce_msgs; (split; [|split; [|split]]).
    all: try (fa; intros c Hc; cbn in Hc; try discriminate; injection Hc as <-; try lia; intros Hr; cbn in Hr; rewrite ?R1, ?R2 in Hr; try discriminate; lia).
    all: try (fa; try exact I; reflexivity).
    all: wfp ltac:(rewrite ?R1, ?R2 in *).
  Qed.
End Facts.

(* ---------------------------------------------------------------- generic extension lemmas *)
Lemma lastval_old_hdr L M n0 c : Forall (F1p n0) M -> Forall F4p M -> (c < n0)%nat ->
  lastval (L ++ M) (LPrefix c) = lastval L (LPrefix c) /\ lastval (L ++ M) (LDepth c) = lastval L (LDepth c).
Proof.
  intros F1 F4 Hc. rewrite Forall_forall in F1, F4. split; apply lastval_skip; apply Forall_forall; intros m Hin E;
    specialize (F1 m Hin c); specialize (F4 m Hin); unfold F1p, F4p, hdr_of in *; rewrite E in *;
    specialize (F1 eq_refl F4); clear - F1 Hc; lia.
Qed.

Lemma S_kna_app L M : S_kna L ->
  (forall c d, lastval M (LDepth c) = Some (VNum d) ->
     if d =? 15 then has_na M (LMask c) else forall i, i < 16 -> has_na M (LLink c i)) ->
  S_kna (L ++ M).
Proof.
  intros K HM c d E. rewrite lastval_app in E. destruct (lastval M (LDepth c)) as [v|] eqn:EM.
  - injection E as ->. specialize (HM c d EM). destruct (d =? 15).
    + apply has_na_app_r. exact HM.
    + intros i Hi. apply has_na_app_r. apply HM. exact Hi.
  - specialize (K c d E). destruct (d =? 15).
    + apply has_na_app. exact K.
    + intros i Hi. apply has_na_app. apply K. exact Hi.
Qed.

Lemma S_mask_app L M : S_mask L ->
  (forall a mm e mv i, nth_error M a = Some mm -> mloc mm = LMask e -> mval mm = VNum mv -> N.testbit mv i = true ->
     exists tc mc kk v, nth_error (L ++ M) tc = Some mc /\ mloc mc = LSlot e i /\ mval mc = VSlot kk v /\
       ((tc < length L + a)%nat \/
        (tc = S (length L + a) /\ forall jp mp, nth_error (L ++ M) jp = Some mp -> ptr_target mp = Some e -> (tc < jp)%nat))) ->
  S_mask (L ++ M).
Proof.
  intros SM HM tm mm e mv i G El Ev B. destruct (nth_app_cases _ _ _ _ G) as [[Hlt G']|[Hge G']].
  - destruct (SM tm mm e mv i G' El Ev B) as (tc & mc & kk & v & Gc & Ec & Evc & D).
    exists tc, mc, kk, v. split; [apply nth_app_l; exact Gc|]. split; [exact Ec|]. split; [exact Evc|].
    destruct D as [D|[D1 D2]]; [left; exact D|right]. split; [exact D1|].
    intros jp mp Gp Hp. destruct (nth_app_cases _ _ _ _ Gp) as [[_ Gp']|[Hgp _]]; [eapply D2; eassumption|].
    assert (tc < length L)%nat by (apply nth_error_Some; congruence). lia.
  - destruct (HM _ mm e mv i G' El Ev B) as (tc & mc & kk & v & Gc & Ec & Evc & D).
    exists tc, mc, kk, v. replace (length L + (tm - length L))%nat with tm in D by lia. auto.
Qed.

Lemma S_slot_app L M n0 s : S_slot L -> Consistent L s -> length (nodes s) = n0 -> Forall (F1p n0) M -> Forall F4p M ->
  (forall a mc e i kk v, nth_error M a = Some mc -> mloc mc = LSlot e i -> mval mc = VSlot kk v ->
     kk < K64 /\ i = idxP kk 15 /\ lastval (L ++ M) (LPrefix e) = Some (VNum (pfxP kk 15)) /\
     lastval (L ++ M) (LDepth e) = Some (VNum 15)) ->
  S_slot (L ++ M).
Proof.
  intros SS C Hn F1 F4 HM tc mc e i kk v G El Ev. destruct (nth_app_cases _ _ _ _ G) as [[Hlt G']|[Hge G']].
  - destruct (SS tc mc e i kk v G' El Ev) as (A & B & P & D). split; [exact A|]. split; [exact B|].
    assert (He : (e < n0)%nat).
    { rewrite (c_val _ _ C (LPrefix e) eq_refl) in P. cbn [heap_val] in P.
      destruct (nth_error (nodes s) e) eqn:Ge; [|discriminate]. rewrite <- Hn. apply nth_error_Some. congruence. }
    destruct (lastval_old_hdr L M n0 e F1 F4 He) as [-> ->]. split; assumption.
  - eapply HM; eassumption.
Qed.

Lemma has_na_in (M : log) m l : In m M -> mloc m = l -> mna m = true -> has_na M l.
Proof. intros Hin E N. destruct (In_nth_error _ _ Hin) as (j & G). exists j, m. auto. Qed.

Lemma in_idx16 i : i < 16 -> In i idx16.
Proof.
  intros Hi. assert (Hc : i = 0 \/ i = 1 \/ i = 2 \/ i = 3 \/ i = 4 \/ i = 5 \/ i = 6 \/ i = 7 \/ i = 8 \/ i = 9 \/ i = 10 \/
                     i = 11 \/ i = 12 \/ i = 13 \/ i = 14 \/ i = 15) by lia.
  unfold idx16. cbn [In]. intuition.
Qed.

Lemma run_steps_length steps : forall s s', run_steps s steps = Ok s' ->
  length (nodes s') = (length (nodes s) + length (filter is_alloc steps))%nat.
Proof.
  induction steps as [|m r IH]; intros s s' R; cbn [run_steps filter] in *.
  - injection R as <-. cbn [length]. lia.
  - destruct (apply_step s m) as [s1| | |] eqn:Ea; cbn [bind] in R; try discriminate.
    rewrite (IH _ _ R), (apply_step_length _ _ _ Ea). destruct (is_alloc m); cbn [length]; lia.
Qed.
