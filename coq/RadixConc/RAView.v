(* A view-based release/acquire memory for ONE writer and any number of readers.

   Memory = the writer's write log: every write (atomic or not) appends one message
   {location; value; release?; non-atomic?}.  The per-location write history of location l is the
   sub-list of the messages with [mloc = l]; a message is named by its global position in the log
   (its stamp).  Because there is a single writer, the writer's view at the write with stamp j is
   "every message with stamp <= j", so the view recorded in message j is represented by the number
   [S j] ([wview]) instead of being stored in the message.

   A reader has a view V : loc -> nat; V l = b means: the reader has seen every message of l with
   stamp < b.  An atomic load of l may return ANY message of l that is not older than the last
   message of l below V l ([adm]); afterwards V l > that stamp.  If the load is acquire and the
   message was written by a release store, the reader joins the writer's view at that store
   (V l' >= S j for every l').  A load is a data race (undefined behaviour) when a NON-ATOMIC write
   to the location is not covered by the reader's view; a non-atomic read is a race unless the view
   covers EVERY write to the location, in particular the last one.
   Sequential consistency is the special case "choice 0": always the latest message. *)
From Coq Require Import List Arith Bool Lia.
Import ListNotations.

Section RA.
  Variables (loc val : Type) (loc_eqb : loc -> loc -> bool).
  Hypothesis loc_eqb_spec : forall a b, reflect (a = b) (loc_eqb a b).

  Record msg := mk_msg { mloc : loc; mval : val; mrel : bool; mna : bool }.
  Definition log := list msg.
  Definition view := loc -> nat.

  Definition wview (j : nat) : nat := S j.          (* the writer's view at its write number j *)
  Definition vjoin (V : view) (t : nat) : view := fun l => Nat.max (V l) t.
  Definition vbump (V : view) (l : loc) (t : nat) : view :=
    fun l' => if loc_eqb l l' then Nat.max (V l') t else V l'.

  (* ------------------------------------------------------------ stamps of a location *)
  Fixpoint stamps_from (i : nat) (L : log) (l : loc) : list nat :=
    match L with
    | [] => []
    | m :: r => if loc_eqb (mloc m) l then i :: stamps_from (S i) r l else stamps_from (S i) r l
    end.
  Definition stamps (L : log) (l : loc) : list nat := stamps_from 0 L l.      (* ascending *)

  (* admissible stamps for a lower bound b, latest first: everything >= b and the last one below b *)
  Fixpoint cands_aux (b : nat) (ds : list nat) : list nat :=
    match ds with
    | [] => []
    | j :: r => if b <=? j then j :: cands_aux b r else [j]
    end.
  Definition cands (L : log) (l : loc) (b : nat) : list nat := cands_aux b (rev (stamps L l)).

  (* a write to l that is non-atomic and not covered by the bound b *)
  Definition na_uncovered (L : log) (l : loc) (b : nat) : bool :=
    existsb (fun j => (b <=? j) && match nth_error L j with Some m => mna m | None => false end) (stamps L l).
  Definition any_uncovered (L : log) (l : loc) (b : nat) : bool :=
    existsb (fun j => b <=? j) (stamps L l).

  Inductive rres :=
  | RRace                                   (* data race: undefined behaviour *)
  | RNoMsg                                  (* the location was never written: wild pointer / wrong cast *)
  | RGot (j : nat) (m : msg) (V' : view).   (* message j was read; the reader's new view *)

  Definition read_atomic (acq : bool) (L : log) (V : view) (l : loc) (choice : nat) : rres :=
    match cands L l (V l) with
    | [] => RNoMsg
    | c0 :: cs =>
        if na_uncovered L l (V l) then RRace else
        let j := nth (choice mod (S (length cs))) (c0 :: cs) c0 in
        match nth_error L j with
        | None => RNoMsg
        | Some m => RGot j m (if acq && mrel m then vjoin V (wview j) else vbump V l (S j))
        end
    end.

  Definition read_na (L : log) (V : view) (l : loc) : rres :=
    match rev (stamps L l) with
    | [] => RNoMsg
    | j :: _ =>
        if any_uncovered L l (V l) then RRace else
        match nth_error L j with
        | None => RNoMsg
        | Some m => RGot j m V
        end
    end.

  (* ------------------------------------------------------------ specification *)
  Definition at_loc (L : log) (l : loc) (j : nat) : Prop := exists m, nth_error L j = Some m /\ mloc m = l.
  (* j may be returned to a reader whose bound for l is b *)
  Definition adm (L : log) (l : loc) (b j : nat) : Prop :=
    at_loc L l j /\ forall j', at_loc L l j' -> j < j' -> b <= j'.

  Lemma stamps_from_spec i L l j :
    In j (stamps_from i L l) <-> i <= j /\ exists m, nth_error L (j - i) = Some m /\ mloc m = l.
  Proof.
    revert i; induction L as [|m L IH]; intros i; cbn [stamps_from].
    - split; [intros []|]. intros (_ & m & G & _). destruct (j - i); discriminate.
    - destruct (loc_eqb_spec (mloc m) l) as [E|E].
      + cbn [In]. rewrite IH. split.
        * intros [<-|(Hle & m' & G & E')].
          -- split; [lia|]. exists m. rewrite Nat.sub_diag. split; [reflexivity|exact E].
          -- split; [lia|]. exists m'. replace (j - i) with (S (j - S i)) by lia. split; assumption.
        * intros (Hle & m' & G & E'). destruct (Nat.eq_dec i j) as [->|Hn]; [left; reflexivity|right].
          split; [lia|]. exists m'. replace (j - i) with (S (j - S i)) in G by lia. split; assumption.
      + rewrite IH. split.
        * intros (Hle & m' & G & E'). split; [lia|]. exists m'. replace (j - i) with (S (j - S i)) by lia. split; assumption.
        * intros (Hle & m' & G & E'). destruct (Nat.eq_dec i j) as [->|Hn].
          -- rewrite Nat.sub_diag in G. cbn in G. injection G as <-. contradiction.
          -- split; [lia|]. exists m'. replace (j - i) with (S (j - S i)) in G by lia. split; assumption.
  Qed.

  Lemma stamps_spec L l j : In j (stamps L l) <-> at_loc L l j.
  Proof.
    unfold stamps, at_loc. rewrite stamps_from_spec, Nat.sub_0_r. split; [intros (_ & H); exact H|intros H; split; [lia|exact H]].
  Qed.

  (* descending lists *)
  Fixpoint desc (ds : list nat) : Prop :=
    match ds with [] => True | j :: r => (forall j', In j' r -> j' < j) /\ desc r end.

  Lemma stamps_from_lb i L l j : In j (stamps_from i L l) -> i <= j.
  Proof. intros H. apply stamps_from_spec in H. tauto. Qed.

  Lemma desc_app_single ds x : desc ds -> (forall j, In j ds -> x < j) -> desc (ds ++ [x]).
  Proof.
    induction ds as [|j r IH]; cbn [app desc]; intros D Hx.
    - split; [intros j' []|exact I].
    - destruct D as [D1 D2]. split.
      + intros j' Hin. apply in_app_or in Hin. destruct Hin as [Hin|[<-|[]]]; [apply D1; exact Hin|].
        apply Hx. left. reflexivity.
      + apply IH; [exact D2|]. intros j0 Hj. apply Hx. right. exact Hj.
  Qed.

  Lemma desc_rev_stamps_from i L l : desc (rev (stamps_from i L l)).
  Proof.
    revert i; induction L as [|m L IH]; intros i; cbn [stamps_from]; [exact I|].
    destruct (loc_eqb (mloc m) l); [|apply IH].
    cbn [rev]. apply desc_app_single; [apply IH|].
    intros j Hj. apply in_rev in Hj. apply stamps_from_lb in Hj. lia.
  Qed.

  Lemma cands_aux_spec b ds j : desc ds ->
    (In j (cands_aux b ds) <-> In j ds /\ forall j', In j' ds -> j < j' -> b <= j').
  Proof.
    induction ds as [|x r IH]; cbn [cands_aux desc]; intros D.
    - split; [intros []|intros [[] _]].
    - destruct D as [D1 D2]. destruct (Nat.leb_spec b x) as [Hle|Hlt].
      + cbn [In]. rewrite (IH D2). split.
        * intros [<-|[Hin Hall]].
          -- split; [left; reflexivity|]. intros j' [<-|Hj'] Hlt; [lia|]. specialize (D1 j' Hj'). lia.
          -- split; [right; exact Hin|]. intros j' [<-|Hj'] Hlt; [exact Hle|]. apply Hall; assumption.
        * intros [[<-|Hin] Hall]; [left; reflexivity|right].
          split; [exact Hin|]. intros j' Hj' Hlt. apply Hall; [right; exact Hj'|exact Hlt].
      + cbn [In]. split.
        * intros [<-|[]]. split; [left; reflexivity|]. intros j' [<-|Hj'] Hl; [lia|]. specialize (D1 j' Hj'). lia.
        * intros [[<-|Hin] Hall]; [left; reflexivity|]. exfalso.
          specialize (D1 j Hin). specialize (Hall x (or_introl eq_refl) D1). lia.
  Qed.

  Lemma cands_spec L l b j : In j (cands L l b) <-> adm L l b j.
  Proof.
    unfold cands, adm. rewrite cands_aux_spec by apply desc_rev_stamps_from.
    rewrite <- in_rev, stamps_spec. split; intros [A B]; (split; [exact A|]); intros j' Hj'.
    - apply B. rewrite <- in_rev. apply stamps_spec. exact Hj'.
    - apply B. rewrite <- in_rev in Hj'. apply stamps_spec. exact Hj'.
  Qed.

  Lemma na_uncovered_spec L l b :
    na_uncovered L l b = true <-> exists j m, nth_error L j = Some m /\ mloc m = l /\ mna m = true /\ b <= j.
  Proof.
    unfold na_uncovered. rewrite existsb_exists. split.
    - intros (j & Hin & Hb). apply stamps_spec in Hin. destruct Hin as (m & G & E).
      apply andb_true_iff in Hb. destruct Hb as [Hb Hn]. rewrite G in Hn. apply Nat.leb_le in Hb. eauto 6.
    - intros (j & m & G & E & Hn & Hb). exists j. split; [apply stamps_spec; exists m; auto|].
      rewrite G, Hn. apply andb_true_iff. split; [apply Nat.leb_le; exact Hb|reflexivity].
  Qed.

  Lemma any_uncovered_spec L l b : any_uncovered L l b = true <-> exists j, at_loc L l j /\ b <= j.
  Proof.
    unfold any_uncovered. rewrite existsb_exists. split.
    - intros (j & Hin & Hb). apply stamps_spec in Hin. apply Nat.leb_le in Hb. eauto.
    - intros (j & Hin & Hb). exists j. split; [apply stamps_spec; exact Hin|apply Nat.leb_le; exact Hb].
  Qed.

  Lemma cands_nonempty L l b : (exists j, at_loc L l j) -> cands L l b <> [].
  Proof.
    intros (j & Hj). apply stamps_spec in Hj. unfold cands. apply in_rev in Hj.
    destruct (rev (stamps L l)) as [|x r]; [destruct Hj|]. cbn [cands_aux]. destruct (b <=? x); discriminate.
  Qed.

  Lemma cands_empty L l b : cands L l b = [] -> forall j, ~ at_loc L l j.
  Proof. intros E j Hj. apply (cands_nonempty L l b); eauto. Qed.

  (* what an atomic load can return *)
  Lemma read_atomic_got acq L V l c j m V' : read_atomic acq L V l c = RGot j m V' ->
    nth_error L j = Some m /\ mloc m = l /\ adm L l (V l) j /\
    (forall j' m', nth_error L j' = Some m' -> mloc m' = l -> mna m' = true -> j' < V l) /\
    V' = (if acq && mrel m then vjoin V (wview j) else vbump V l (S j)).
  Proof.
    unfold read_atomic. destruct (cands L l (V l)) as [|c0 cs] eqn:Ec; [discriminate|].
    destruct (na_uncovered L l (V l)) eqn:Eu; [discriminate|].
    set (j0 := nth (c mod S (length cs)) (c0 :: cs) c0).
    destruct (nth_error L j0) as [m0|] eqn:G; [|discriminate]. intros E. injection E as <- <- <-.
    assert (Hin : In j0 (cands L l (V l))).
    { rewrite Ec. apply nth_In. cbn [length]. apply Nat.mod_upper_bound. discriminate. }
    apply cands_spec in Hin. pose proof Hin as [(m1 & G1 & E1) _]. rewrite G in G1. injection G1 as <-.
    split; [exact G|]. split; [exact E1|]. split; [exact Hin|]. split; [|reflexivity].
    intros j' m' G' E' Hn. destruct (Nat.lt_ge_cases j' (V l)) as [Hlt|Hge]; [exact Hlt|].
    exfalso. assert (na_uncovered L l (V l) = true) by (apply na_uncovered_spec; eauto 6). congruence.
  Qed.

  Lemma read_atomic_race acq L V l c : read_atomic acq L V l c = RRace ->
    exists j m, nth_error L j = Some m /\ mloc m = l /\ mna m = true /\ V l <= j.
  Proof.
    unfold read_atomic. destruct (cands L l (V l)) as [|c0 cs]; [discriminate|].
    destruct (na_uncovered L l (V l)) eqn:Eu; [intros _; apply na_uncovered_spec; exact Eu|].
    destruct (nth_error L _); discriminate.
  Qed.

  Lemma read_atomic_nomsg acq L V l c : read_atomic acq L V l c = RNoMsg -> forall j, ~ at_loc L l j.
  Proof.
    unfold read_atomic. destruct (cands L l (V l)) as [|c0 cs] eqn:Ec; [intros _; eapply cands_empty; exact Ec|].
    destruct (na_uncovered L l (V l)); [discriminate|].
    set (j0 := nth (c mod S (length cs)) (c0 :: cs) c0).
    destruct (nth_error L j0) eqn:G; [discriminate|]. intros _.
    assert (Hin : In j0 (cands L l (V l))).
    { rewrite Ec. apply nth_In. cbn [length]. apply Nat.mod_upper_bound. discriminate. }
    apply cands_spec in Hin. destruct Hin as [(m1 & G1 & _) _]. congruence.
  Qed.

  (* every admissible message is returned for some choice: the model does not lose behaviours *)
  Lemma read_atomic_complete acq L V l j m :
    nth_error L j = Some m -> adm L l (V l) j -> na_uncovered L l (V l) = false ->
    exists c, read_atomic acq L V l c = RGot j m (if acq && mrel m then vjoin V (wview j) else vbump V l (S j)).
  Proof.
    intros G A Eu. apply cands_spec in A. unfold read_atomic. rewrite Eu.
    destruct (cands L l (V l)) as [|c0 cs] eqn:Ec; [destruct A|].
    destruct (In_nth _ _ c0 A) as (c & Hc & Hn). exists c. cbn [length] in Hc.
    rewrite Nat.mod_small by exact Hc. rewrite Hn, G. reflexivity.
  Qed.

  Lemma read_na_got L V l j m V' : read_na L V l = RGot j m V' ->
    nth_error L j = Some m /\ mloc m = l /\ V' = V /\
    (forall j', at_loc L l j' -> j' <= j) /\ (forall j', at_loc L l j' -> j' < V l).
  Proof.
    unfold read_na. destruct (rev (stamps L l)) as [|x r] eqn:Er; [discriminate|].
    destruct (any_uncovered L l (V l)) eqn:Eu; [discriminate|].
    destruct (nth_error L x) as [m0|] eqn:G; [|discriminate]. intros E. injection E as <- <- <-.
    assert (Hx : at_loc L l x). { apply stamps_spec, in_rev. rewrite Er. left. reflexivity. }
    pose proof Hx as (m1 & G1 & E1). rewrite G in G1. injection G1 as <-.
    split; [exact G|]. split; [exact E1|]. split; [reflexivity|]. split.
    - intros j' Hj'. apply stamps_spec, in_rev in Hj'. rewrite Er in Hj'.
      pose proof (desc_rev_stamps_from 0 L l) as D. fold (stamps L l) in D. rewrite Er in D. destruct D as [D _].
      destruct Hj' as [<-|Hj']; [lia|]. specialize (D j' Hj'). lia.
    - intros j' Hj'. destruct (Nat.lt_ge_cases j' (V l)) as [Hlt|Hge]; [exact Hlt|]. exfalso.
      assert (any_uncovered L l (V l) = true) by (apply any_uncovered_spec; eauto). congruence.
  Qed.

  Lemma read_na_race L V l : read_na L V l = RRace -> exists j, at_loc L l j /\ V l <= j.
  Proof.
    unfold read_na. destruct (rev (stamps L l)) as [|x r]; [discriminate|].
    destruct (any_uncovered L l (V l)) eqn:Eu; [intros _; apply any_uncovered_spec; exact Eu|].
    destruct (nth_error L x); discriminate.
  Qed.

  Lemma read_na_nomsg L V l : read_na L V l = RNoMsg -> forall j, ~ at_loc L l j.
  Proof.
    unfold read_na. destruct (rev (stamps L l)) as [|x r] eqn:Er.
    - intros _ j Hj. apply stamps_spec, in_rev in Hj. rewrite Er in Hj. destruct Hj.
    - destruct (any_uncovered L l (V l)); [discriminate|].
      destruct (nth_error L x) eqn:G; [discriminate|]. intros _.
      assert (Hx : at_loc L l x). { apply stamps_spec, in_rev. rewrite Er. left. reflexivity. }
      destruct Hx as (m1 & G1 & _). congruence.
  Qed.

  (* choice 0 = the latest message: sequential consistency *)
  Lemma read_atomic_latest acq L V l j m V' : read_atomic acq L V l 0 = RGot j m V' ->
    forall j', at_loc L l j' -> j' <= j.
  Proof.
    unfold read_atomic, cands. destruct (rev (stamps L l)) as [|x r] eqn:Er; [discriminate|].
    pose proof (desc_rev_stamps_from 0 L l) as D. fold (stamps L l) in D. rewrite Er in D. destruct D as [D _].
    assert (Hhd : exists cs, cands_aux (V l) (x :: r) = x :: cs).
    { cbn [cands_aux]. destruct (V l <=? x); eauto. }
    destruct Hhd as (cs & ->). destruct (na_uncovered L l (V l)); [discriminate|].
    rewrite Nat.mod_0_l by discriminate. cbn [nth].
    destruct (nth_error L x); [|discriminate]. intros E. injection E as <- _ _.
    intros j' Hj'. apply stamps_spec, in_rev in Hj'. rewrite Er in Hj'.
    destruct Hj' as [<-|Hj']; [lia|]. specialize (D j' Hj'). lia.
  Qed.

  (* views only grow *)
  Lemma vjoin_ge V t l : V l <= vjoin V t l /\ t <= vjoin V t l.
  Proof. unfold vjoin. lia. Qed.
  Lemma vbump_ge V l t l' : V l' <= vbump V l t l'.
  Proof. unfold vbump. destruct (loc_eqb l l'); lia. Qed.
  Lemma vbump_at V l t : t <= vbump V l t l.
  Proof. unfold vbump. destruct (loc_eqb_spec l l); [lia|contradiction]. Qed.
  Lemma vbump_le V l t n : (forall l', V l' <= n) -> t <= n -> forall l', vbump V l t l' <= n.
  Proof. intros H Ht l'. unfold vbump. specialize (H l'). destruct (loc_eqb l l'); lia. Qed.
  Lemma vjoin_le V t n : (forall l', V l' <= n) -> t <= n -> forall l', vjoin V t l' <= n.
  Proof. intros H Ht l'. unfold vjoin. specialize (H l'). lia. Qed.

  (* logs only grow: what was admissible / covered in a prefix *)
  Lemma at_loc_app L M l j : at_loc L l j -> at_loc (L ++ M) l j.
  Proof.
    intros (m & G & E). exists m. split; [|exact E]. rewrite nth_error_app1; [exact G|]. apply nth_error_Some. congruence.
  Qed.
  Lemma at_loc_app_inv L M l j : at_loc (L ++ M) l j -> j < length L -> at_loc L l j.
  Proof. intros (m & G & E) Hlt. exists m. rewrite nth_error_app1 in G by exact Hlt. auto. Qed.
End RA.

Arguments mk_msg {loc val}.
Arguments mloc {loc val}.
Arguments mval {loc val}.
Arguments mrel {loc val}.
Arguments mna {loc val}.
Arguments RRace {loc val}.
Arguments RNoMsg {loc val}.
Arguments RGot {loc val}.
