(* The write log against the heap of the sequential model: the last message of every tracked location is
   the heap's content ([Consistent]), preserved by every micro-step; closed forms of the messages of an
   operation in each case of the source. *)
From Coq Require Import List NArith Arith Bool Lia ZifyBool ZifyNat ZifyN.
From FV Require Import Common.EventLog Radix.RadixModel Radix.RadixBits Radix.RadixInv Radix.RadixExec
  Radix.RadixSem Radix.RadixFind Radix.RadixSpec RadixConc.RAView RadixConc.ConcModel RadixConc.ConcProg RadixConc.ConcWriter.
Import ListNotations.
Local Open Scope N_scope.

Arguments pfxP : simpl never.
Arguments idxP : simpl never.
Arguments N.shiftl : simpl never.
Arguments N.lor : simpl never.
Arguments N.testbit : simpl never.
Arguments clear_bit : simpl never.

(* ---------------------------------------------------------------- locations *)
Lemma loc_eqb_spec a b : reflect (a = b) (loc_eqb a b).
Proof.
  destruct a, b; cbn [loc_eqb]; try (constructor; discriminate); try (constructor; reflexivity);
    try (destruct (Nat.eqb_spec n n0) as [->|E]; cbn [andb]; [|constructor; congruence]);
    try (destruct (N.eqb_spec i i0) as [->|E]; constructor; congruence);
    constructor; reflexivity.
Qed.

Lemma loc_eqb_refl a : loc_eqb a a = true.
Proof. destruct (loc_eqb_spec a a); [reflexivity|contradiction]. Qed.

Definition loc_node (l : loc) : option nat :=
  match l with
  | LRoot => None
  | LLink n _ | LMask n | LPrefix n | LDepth n | LSlot n _ | LParent n => Some n
  end.
(* the locations whose content the sequential heap determines and find reads *)
Definition tracked (l : loc) : bool :=
  match l with LRoot | LLink _ _ | LMask _ | LPrefix _ | LDepth _ => true | LSlot _ _ | LParent _ => false end.

Notation at_loc := (RAView.at_loc loc val).
Notation adm := (RAView.adm loc val).

(* ---------------------------------------------------------------- the last message of a location *)
Definition find_last (L : log) (l : loc) : option msg := List.find (fun m => loc_eqb (mloc m) l) (rev L).
Definition lastval (L : log) (l : loc) : option val := option_map mval (find_last L l).

Lemma find_app {A} (f : A -> bool) l1 l2 : List.find f (l1 ++ l2) = match List.find f l1 with Some x => Some x | None => List.find f l2 end.
Proof. induction l1 as [|x r IH]; cbn; [reflexivity|]. destruct (f x); [reflexivity|exact IH]. Qed.

Lemma find_last_app L M l : find_last (L ++ M) l = match find_last M l with Some m => Some m | None => find_last L l end.
Proof. unfold find_last. rewrite rev_app_distr. apply find_app. Qed.

Lemma lastval_app L M l : lastval (L ++ M) l = match lastval M l with Some v => Some v | None => lastval L l end.
Proof. unfold lastval. rewrite find_last_app. destruct (find_last M l); reflexivity. Qed.

Lemma lastval_snoc L m l : lastval (L ++ [m]) l = if loc_eqb (mloc m) l then Some (mval m) else lastval L l.
Proof. rewrite lastval_app. unfold lastval at 1, find_last. cbn [rev app List.find]. destruct (loc_eqb (mloc m) l); reflexivity. Qed.

Lemma lastval_nil l : lastval [] l = None.
Proof. reflexivity. Qed.

Lemma find_last_spec L l m : find_last L l = Some m ->
  mloc m = l /\ exists j, nth_error L j = Some m /\ forall j' m', nth_error L j' = Some m' -> mloc m' = l -> (j' <= j)%nat.
Proof.
  induction L as [|x L IH] using rev_ind; [discriminate|].
  rewrite find_last_app. unfold find_last at 1. cbn [rev app List.find].
  destruct (loc_eqb_spec (mloc x) l) as [E|E].
  - intros H. injection H as <-. split; [exact E|]. exists (length L). split.
    + rewrite nth_error_app2 by lia. rewrite Nat.sub_diag. reflexivity.
    + intros j' m' G _. assert (j' < length (L ++ [x]))%nat by (apply nth_error_Some; congruence).
      rewrite app_length in H. cbn in H. lia.
  - intros H. destruct (IH H) as (El & j & G & Hmax). split; [exact El|]. exists j. split.
    + rewrite nth_error_app1; [exact G|]. apply nth_error_Some. congruence.
    + intros j' m' G' E'. destruct (Nat.lt_ge_cases j' (length L)) as [Hlt|Hge].
      * rewrite nth_error_app1 in G' by exact Hlt. eapply Hmax; eassumption.
      * rewrite nth_error_app2 in G' by exact Hge. destruct (j' - length L)%nat as [|q]; cbn in G'.
        -- injection G' as <-. contradiction.
        -- destruct q; discriminate.
Qed.

Lemma find_last_none L l : find_last L l = None -> forall j m, nth_error L j = Some m -> mloc m <> l.
Proof.
  unfold find_last. intros H j m G E. apply nth_error_In in G. apply in_rev in G.
  pose proof (find_none _ _ H m G) as F. cbn in F. rewrite E, loc_eqb_refl in F. discriminate.
Qed.

Lemma lastval_none L l : lastval L l = None -> forall j, ~ at_loc L l j.
Proof.
  unfold lastval. destruct (find_last L l) eqn:F; [discriminate|]. intros _ j (m & G & E).
  exact (find_last_none L l F j m G E).
Qed.

(* the last message at l, given by position *)
Lemma last_is_lastval L l j m : nth_error L j = Some m -> mloc m = l ->
  (forall j', at_loc L l j' -> (j' <= j)%nat) -> lastval L l = Some (mval m).
Proof.
  intros G E Hmax. unfold lastval. destruct (find_last L l) as [m0|] eqn:F.
  - destruct (find_last_spec L l m0 F) as (E0 & j0 & G0 & Hmax0).
    assert (j0 <= j)%nat by (apply Hmax; exists m0; auto).
    assert (j <= j0)%nat by (eapply Hmax0; eassumption).
    assert (Ej : j0 = j) by lia. subst j0.
    assert (Em : Some m0 = Some m) by (transitivity (nth_error L j); [symmetry; exact G0|exact G]).
    injection Em as ->. reflexivity.
  - exfalso. exact (find_last_none L l F j m G E).
Qed.

Lemma lastval_some L l v : lastval L l = Some v ->
  exists j m, nth_error L j = Some m /\ mloc m = l /\ mval m = v /\ forall j', at_loc L l j' -> (j' <= j)%nat.
Proof.
  unfold lastval. destruct (find_last L l) as [m|] eqn:F; [|discriminate]. intros E. injection E as <-.
  destruct (find_last_spec L l m F) as (El & j & G & Hmax). exists j, m. repeat split; auto.
  intros j' (m' & G' & E'). eapply Hmax; eassumption.
Qed.

(* ---------------------------------------------------------------- the heap as a memory *)
Definition heap_val (s : st) (l : loc) : option val :=
  match l with
  | LRoot => Some (VPtr (root s))
  | LPrefix c => option_map (fun nd => VNum (n_prefix nd)) (nth_error (nodes s) c)
  | LDepth c => option_map (fun nd => VNum (n_depth nd)) (nth_error (nodes s) c)
  | LLink c i => match nth_error (nodes s) c with
                 | Some (Link _ _ _ ls) => option_map VPtr (nth_error ls (N.to_nat i))
                 | _ => None end
  | LMask c => match nth_error (nodes s) c with
               | Some (Entry _ _ _ m _) => Some (VNum m)
               | _ => None end
  | _ => None
  end.

Definition links16 (H : list node) : Prop := forall c x d p ls, nth_error H c = Some (Link x d p ls) -> length ls = 16%nat.

Record Consistent (L : log) (s : st) : Prop := mk_Cons {
  c_val : forall l, tracked l = true -> lastval L l = heap_val s l;
  c_l16 : links16 (nodes s)
}.

Lemma Consistent_0 : Consistent log0 st0.
Proof.
  split.
  - intros l T. destruct l; try discriminate; cbn [heap_val st0 nodes root]; try reflexivity;
      unfold log0, lastval, find_last; cbn; try (destruct n; reflexivity).
  - intros c x d p ls G. destruct c; discriminate.
Qed.

(* one tracked single write *)
Lemma cons_single L s s' m :
  Consistent L s -> links16 (nodes s') ->
  (forall l, tracked l = true -> heap_val s' l = if loc_eqb (mloc m) l then Some (mval m) else heap_val s l) ->
  Consistent (L ++ [m]) s'.
Proof.
  intros [Cv Cl] Hl Hv. split; [|exact Hl]. intros l T. rewrite lastval_snoc, (Hv l T), (Cv l T). reflexivity.
Qed.

(* an untracked single write *)
Lemma cons_untracked L s s' m :
  Consistent L s -> links16 (nodes s') -> tracked (mloc m) = false ->
  (forall l, tracked l = true -> heap_val s' l = heap_val s l) ->
  Consistent (L ++ [m]) s'.
Proof.
  intros C Hl Hu Hv. apply (cons_single L s s' m C Hl). intros l T. rewrite (Hv l T).
  destruct (loc_eqb_spec (mloc m) l) as [E|E]; [|reflexivity]. rewrite E in Hu. congruence.
Qed.

Lemma links16_upd H n f : links16 H ->
  (forall x d p ls, length ls = 16%nat -> match f (Link x d p ls) with Link _ _ _ ls' => length ls' = 16%nat | _ => True end) ->
  (forall x d p m sl, match f (Entry x d p m sl) with Link _ _ _ ls' => length ls' = 16%nat | _ => True end) ->
  links16 (upd H n (fun _ => match nth_error H n with Some nd => f nd | None => zero_entry end)).
Proof.
  intros Hl HfL HfE c x d p ls G. rewrite nth_error_upd in G. destruct (Nat.eqb_spec n c) as [->|E].
  - destruct (nth_error H c) as [nd|] eqn:Gc; [|discriminate]. cbn [option_map] in G. injection G as G.
    destruct nd as [x0 d0 p0 ls0|x0 d0 p0 m0 sl0].
    + specialize (HfL x0 d0 p0 ls0 (Hl _ _ _ _ _ Gc)). rewrite G in HfL. exact HfL.
    + specialize (HfE x0 d0 p0 m0 sl0). rewrite G in HfE. exact HfE.
  - eapply Hl. exact G.
Qed.

(* apply_step on an existing node, in the form [upd H n (fun _ => nd')] *)
Lemma apply_step_node s m n s' : step_target m = Some n -> apply_step s m = Ok s' ->
  exists nd nd', nth_error (nodes s) n = Some nd /\ step_node m nd = Ok nd' /\
                 nodes s' = upd (nodes s) n (fun _ => nd') /\ root s' = root s.
Proof.
  intros Ht E. destruct m; cbn [step_target] in Ht; try discriminate; injection Ht as ->;
    unfold apply_step in E; cbn [step_target] in E;
    (destruct (nth_error (nodes s) n) as [nd|] eqn:G; [|discriminate]);
    (destruct (step_node _ nd) as [nd'| | |] eqn:Sn; cbn [bind] in E; try discriminate);
    injection E as <-; exists nd, nd'; cbn [nodes root]; auto.
Qed.

Lemma heap_val_upd_other s s' n nd' l : nodes s' = upd (nodes s) n (fun _ => nd') -> root s' = root s ->
  loc_node l <> Some n -> heap_val s' l = heap_val s l.
Proof.
  intros En Er Hn. destruct l; cbn [heap_val loc_node] in *; try reflexivity; try (rewrite Er; reflexivity);
    rewrite En, nth_error_upd_neq by congruence; reflexivity.
Qed.

Lemma l16_keep H n nd nd' : links16 H -> nth_error H n = Some nd ->
  (forall x d p ls, nd' = Link x d p ls -> length ls = 16%nat) -> links16 (upd H n (fun _ => nd')).
Proof.
  intros Hl G Hn c x d p ls Gc. rewrite nth_error_upd in Gc. destruct (Nat.eqb_spec n c) as [->|E].
  - rewrite G in Gc. cbn in Gc. injection Gc as Gc. eapply Hn. exact Gc.
  - eapply Hl. exact Gc.
Qed.

Lemma option_nat_dec (a b : option nat) : {a = b} + {a <> b}.
Proof. decide equality. apply Nat.eq_dec. Qed.

Lemma N2Nat_eqb a b : Nat.eqb (N.to_nat a) (N.to_nat b) = (a =? b).
Proof. destruct (N.eqb_spec a b) as [->|E]; [apply Nat.eqb_refl|]. apply Nat.eqb_neq. lia. Qed.

Lemma lastval_skip L M l : Forall (fun m : msg => mloc m <> l) M -> lastval (L ++ M) l = lastval L l.
Proof.
  intros F. rewrite lastval_app. destruct (lastval M l) as [v|] eqn:E; [|reflexivity].
  destruct (lastval_some M l v E) as (j & m & G & El & _). apply nth_error_In in G.
  rewrite Forall_forall in F. exfalso. exact (F m G El).
Qed.

Lemma alloc_entry_on n : Forall (fun m : msg => loc_node (mloc m) = Some n) (alloc_entry_msgs n).
Proof. repeat constructor. Qed.
Lemma alloc_link_on n : Forall (fun m : msg => loc_node (mloc m) = Some n) (alloc_link_msgs n).
Proof. repeat constructor. Qed.

Lemma on_node_skip M n l : Forall (fun m : msg => loc_node (mloc m) = Some n) M -> loc_node l <> Some n -> Forall (fun m : msg => mloc m <> l) M.
Proof. intros F Hn. eapply Forall_impl; [|exact F]. cbn. intros m E El. rewrite El in E. contradiction. Qed.

Lemma nth_error_snoc {A} (l : list A) z c :
  nth_error (l ++ [z]) c = if Nat.eqb (length l) c then Some z else nth_error l c.
Proof.
  destruct (Nat.eqb_spec (length l) c) as [<-|Hn].
  - rewrite nth_error_app2 by lia. rewrite Nat.sub_diag. reflexivity.
  - destruct (Nat.lt_ge_cases c (length l)); [apply nth_error_app1; assumption|].
    rewrite (proj2 (nth_error_None _ _)) by (rewrite app_length; cbn; lia).
    symmetry. apply nth_error_None. lia.
Qed.

Lemma heap_val_alloc s z lg l : loc_node l <> Some (length (nodes s)) ->
  heap_val (mk_st (nodes s ++ [z]) (root s) lg) l = heap_val s l.
Proof.
  intros Hn. destruct l as [|c i|c|c|c|c i|c]; cbn [heap_val nodes root loc_node] in *; try reflexivity;
    rewrite nth_error_snoc; (destruct (Nat.eqb_spec (length (nodes s)) c) as [Ec|_]; [exfalso; apply Hn; rewrite Ec; reflexivity|reflexivity]).
Qed.

Lemma lastval_fresh L s l : Consistent L s -> tracked l = true -> loc_node l = Some (length (nodes s)) -> lastval L l = None.
Proof.
  intros [Cv _] T E. rewrite (Cv l T).
  assert (Hfresh : nth_error (nodes s) (length (nodes s)) = None) by (apply nth_error_None; lia).
  destruct l as [|c i|c|c|c|c i|c]; try discriminate; cbn [loc_node] in E; injection E as ->; cbn [heap_val]; rewrite Hfresh; reflexivity.
Qed.

Lemma cons_step L s m s' k o : Consistent L s -> apply_step s m = Ok s' ->
  Consistent (L ++ step_msgs k (length (nodes s)) o m) s'.
Proof.
  intros C E. pose proof C as [Cv Cl].
  destruct m as [sz|sz|n v|n v|n p|n v ord|n i v|n i c ord|c ord].
  - (* allocate an entry node *)
    cbn [apply_step] in E. injection E as <-. cbn [step_msgs]. split; cbn [nodes root].
    + intros l T. destruct (option_nat_dec (loc_node l) (Some (length (nodes s)))) as [En|Hn].
      * rewrite lastval_app, (lastval_fresh L s l C T En).
        destruct l as [|c i|c|c|c|c i|c]; try discriminate; cbn [loc_node] in En; injection En as ->;
          cbn [heap_val nodes]; rewrite nth_error_snoc, Nat.eqb_refl;
          unfold alloc_entry_msgs, lastval, find_last; cbn [rev app List.find mk mloc mval loc_eqb option_map zero_entry n_prefix n_depth];
          rewrite ?Nat.eqb_refl; reflexivity.
      * rewrite (lastval_skip L _ l (on_node_skip _ _ l (alloc_entry_on _) Hn)), heap_val_alloc by exact Hn. apply Cv. exact T.
    + intros c x d p ls G. rewrite nth_error_snoc in G. destruct (Nat.eqb (length (nodes s)) c); [discriminate|]. eapply Cl. exact G.
  - (* allocate a link node *)
    cbn [apply_step] in E. injection E as <-. cbn [step_msgs]. split; cbn [nodes root].
    + intros l T. destruct (option_nat_dec (loc_node l) (Some (length (nodes s)))) as [En|Hn].
      * rewrite lastval_app, (lastval_fresh L s l C T En).
        destruct l as [|c i|c|c|c|c i|c]; try discriminate; cbn [loc_node] in En; injection En as ->;
          cbn [heap_val nodes]; rewrite nth_error_snoc, Nat.eqb_refl;
          unfold alloc_link_msgs, idx16, lastval, find_last;
          cbn [map rev app List.find mk mloc mval loc_eqb option_map zero_link n_prefix n_depth];
          rewrite ?Nat.eqb_refl; cbn [andb]; try reflexivity.
        destruct (N.lt_ge_cases i 16) as [Hi|Hi].
        -- assert (Hc : i = 0 \/ i = 1 \/ i = 2 \/ i = 3 \/ i = 4 \/ i = 5 \/ i = 6 \/ i = 7 \/ i = 8 \/ i = 9 \/ i = 10 \/
                         i = 11 \/ i = 12 \/ i = 13 \/ i = 14 \/ i = 15) by lia.
           repeat (destruct Hc as [->|Hc]; [reflexivity|]). subst i. reflexivity.
        -- assert (Hnone : nth_error (repeat (@None nat) 16) (N.to_nat i) = None) by (apply nth_error_None; rewrite repeat_length; lia).
           rewrite Hnone. cbn [option_map].
           repeat match goal with |- context [?a =? i] => destruct (N.eqb_spec a i) as [?|_]; [lia|] end. reflexivity.
      * rewrite (lastval_skip L _ l (on_node_skip _ _ l (alloc_link_on _) Hn)), heap_val_alloc by exact Hn. apply Cv. exact T.
    + intros c x d p ls G. rewrite nth_error_snoc in G. destruct (Nat.eqb (length (nodes s)) c).
      * injection G as _ _ _ <-. reflexivity.
      * eapply Cl. exact G.
  - (* n->prefix = v *)
    destruct (apply_step_node s (MSetPrefix n v) n s' eq_refl E) as (nd & nd' & G & Sn & En & Er). cbn [step_node] in Sn. injection Sn as <-.
    cbn [step_msgs]. apply (cons_single L s s' _ C).
    + rewrite En. apply (l16_keep _ _ _ _ Cl G). intros x d p ls Eq. destruct nd; cbn in Eq; [|discriminate].
      injection Eq as _ _ _ <-. eapply Cl. exact G.
    + intros l T. cbn [mk mloc mval]. destruct (loc_eqb_spec (LPrefix n) l) as [<-|Hne].
      * cbn [heap_val]. rewrite En, (nth_error_upd_eq _ _ _ _ G). cbn. destruct nd; reflexivity.
      * destruct l as [|c i|c|c|c|c i|c]; try discriminate; cbn [heap_val]; rewrite ?Er; try reflexivity;
          rewrite En, nth_error_upd; destruct (Nat.eqb_spec n c) as [<-|Hn]; try reflexivity;
          rewrite G; cbn [option_map]; try (destruct nd; reflexivity). congruence.
  - (* n->depth = v *)
    destruct (apply_step_node s (MSetDepth n v) n s' eq_refl E) as (nd & nd' & G & Sn & En & Er). cbn [step_node] in Sn. injection Sn as <-.
    cbn [step_msgs]. apply (cons_single L s s' _ C).
    + rewrite En. apply (l16_keep _ _ _ _ Cl G). intros x d p ls Eq. destruct nd; cbn in Eq; [|discriminate].
      injection Eq as _ _ _ <-. eapply Cl. exact G.
    + intros l T. cbn [mk mloc mval]. destruct (loc_eqb_spec (LDepth n) l) as [<-|Hne].
      * cbn [heap_val]. rewrite En, (nth_error_upd_eq _ _ _ _ G). cbn. destruct nd; reflexivity.
      * destruct l as [|c i|c|c|c|c i|c]; try discriminate; cbn [heap_val]; rewrite ?Er; try reflexivity;
          rewrite En, nth_error_upd; destruct (Nat.eqb_spec n c) as [<-|Hn]; try reflexivity;
          rewrite G; cbn [option_map]; try (destruct nd; reflexivity). congruence.
  - (* n->parent = p : untracked *)
    destruct (apply_step_node s (MSetParent n p) n s' eq_refl E) as (nd & nd' & G & Sn & En & Er). cbn [step_node] in Sn. injection Sn as <-.
    cbn [step_msgs]. apply (cons_untracked L s s' _ C); [|reflexivity|].
    + rewrite En. apply (l16_keep _ _ _ _ Cl G). intros x d p0 ls Eq. destruct nd; cbn in Eq; [|discriminate].
      injection Eq as _ _ _ <-. eapply Cl. exact G.
    + intros l T. destruct l as [|c i|c|c|c|c i|c]; try discriminate; cbn [heap_val]; rewrite ?Er; try reflexivity;
        rewrite En, nth_error_upd; destruct (Nat.eqb_spec n c) as [<-|Hn]; try reflexivity;
        rewrite G; cbn [option_map]; destruct nd; reflexivity.
  - (* n->mask.store(v) *)
    destruct (apply_step_node s (MStoreMask n v ord) n s' eq_refl E) as (nd & nd' & G & Sn & En & Er). cbn [step_node] in Sn.
    destruct nd as [|x d p m sl]; [discriminate|]. injection Sn as <-.
    cbn [step_msgs]. apply (cons_single L s s' _ C).
    + rewrite En. apply (l16_keep _ _ _ _ Cl G). intros; discriminate.
    + intros l T. cbn [mk mloc mval]. destruct (loc_eqb_spec (LMask n) l) as [<-|Hne].
      * cbn [heap_val]. rewrite En, (nth_error_upd_eq _ _ _ _ G). reflexivity.
      * destruct l as [|c i|c|c|c|c i|c]; try discriminate; cbn [heap_val]; rewrite ?Er; try reflexivity;
          rewrite En, nth_error_upd; destruct (Nat.eqb_spec n c) as [<-|Hn]; try reflexivity;
          rewrite G; cbn [option_map]; try reflexivity. congruence.
  - (* placement new : untracked *)
    destruct (apply_step_node s (MConstruct n i v) n s' eq_refl E) as (nd & nd' & G & Sn & En & Er). cbn [step_node] in Sn.
    destruct nd as [|x d p m sl]; [discriminate|]. destruct (16 <=? i); [discriminate|]. injection Sn as <-.
    cbn [step_msgs]. apply (cons_untracked L s s' _ C); [|reflexivity|].
    + rewrite En. apply (l16_keep _ _ _ _ Cl G). intros; discriminate.
    + intros l T. destruct l as [|c j|c|c|c|c j|c]; try discriminate; cbn [heap_val]; rewrite ?Er; try reflexivity;
        rewrite En, nth_error_upd; destruct (Nat.eqb_spec n c) as [<-|Hn]; try reflexivity;
        rewrite G; cbn [option_map]; reflexivity.
  - (* n->links[i].store(c) *)
    destruct (apply_step_node s (MStoreLink n i c ord) n s' eq_refl E) as (nd & nd' & G & Sn & En & Er). cbn [step_node] in Sn.
    destruct nd as [x d p ls|]; [|discriminate]. destruct (16 <=? i) eqn:Hi; [discriminate|]. injection Sn as <-.
    apply N.leb_gt in Hi. pose proof (Cl _ _ _ _ _ G) as L16.
    cbn [step_msgs]. apply (cons_single L s s' _ C).
    + rewrite En. apply (l16_keep _ _ _ _ Cl G). intros x0 d0 p0 ls0 Eq. injection Eq as _ _ _ <-. rewrite length_upd. exact L16.
    + intros l T. cbn [mk mloc mval]. destruct (loc_eqb_spec (LLink n i) l) as [<-|Hne].
      * cbn [heap_val]. rewrite En, (nth_error_upd_eq _ _ _ _ G).
        destruct (nth_error ls (N.to_nat i)) as [y|] eqn:Gy; [|apply nth_error_None in Gy; lia].
        rewrite (nth_error_upd_eq _ _ _ _ Gy). reflexivity.
      * destruct l as [|c0 j|c0|c0|c0|c0 j|c0]; try discriminate; cbn [heap_val]; rewrite ?Er; try reflexivity;
          rewrite En, nth_error_upd; destruct (Nat.eqb_spec n c0) as [<-|Hn]; try reflexivity;
          rewrite G; cbn [option_map]; try reflexivity.
        rewrite nth_error_upd. destruct (Nat.eqb_spec (N.to_nat i) (N.to_nat j)) as [Eij|_]; [|reflexivity].
        exfalso. apply Hne. f_equal. lia.
  - (* _root.store(c) *)
    cbn [apply_step] in E. injection E as <-. cbn [step_msgs]. apply (cons_single L s _ _ C); [exact Cl|].
    intros l T. cbn [mk mloc mval]. destruct l; try discriminate; reflexivity.
Qed.

Lemma cons_steps o k steps : forall L s s', Consistent L s -> run_steps s steps = Ok s' ->
  forall sites, Consistent (L ++ steps_msgs o k (length (nodes s)) sites steps) s'.
Proof.
  induction steps as [|m r IH]; intros L s s' C R sites0; cbn [run_steps steps_msgs] in *.
  - injection R as <-. rewrite app_nil_r. exact C.
  - destruct (apply_step s m) as [s1| | |] eqn:Ea; cbn [bind] in R; try discriminate.
    destruct (pop o sites0 m) as [ord sites']. rewrite app_assoc.
    rewrite <- (apply_step_length s m s1 Ea). apply (IH _ s1 s'); [|exact R].
    apply cons_step; assumption.
Qed.
