(* What the source-derived file Gen/RadixConcOrders.v (translator/gen_radixconc.py, from the clang AST of
   rcu_radixtree.hpp) is compared with: the KINDS of the writer's writes in program order (which object, which
   field / cell) for every case of find_or_insert and for erase, taken from the micro-step programs of the
   model on witness states, and the memory orders the sequential model embeds in its micro-steps.
   Definitions only. *)
From Coq Require Import List NArith Arith Bool.
From FV Require Import Common.EventLog Radix.RadixModel Radix.RadixAccess RadixConc.RAView RadixConc.ConcModel.
Import ListNotations.
Local Open Scope N_scope.

Inductive who := NewE | NewL | Old.          (* n (the new entry node) | r (the new link node) | a node that existed *)
Inductive fname := FPrefix | FDepth | FParent.
Inductive wkind :=
| KField (w : who) (f : fname)               (* x->prefix = / x->depth = / x->parent = *)
| KMask (w : who)                            (* x->mask.store *)
| KNew (w : who)                             (* new (x->entries[..].buffer) T{..} *)
| KLink (w : who)                            (* x->links[..].store *)
| KRoot                                      (* _root.store *)
| KDestroy (w : who).                        (* p->~T() / std::destroy_at(p) / frg::destruct: never produced by the model's
                                                micro-steps - the writer's programs contain no destroy step *)
Definition has_destroy (l : list wkind) : bool := existsb (fun k => match k with KDestroy _ => true | _ => false end) l.

Definition who_of (base n : nat) : who := if Nat.eqb n base then NewE else if Nat.eqb n (S base) then NewL else Old.
Definition step_kind (base : nat) (m : mstep) : list wkind :=
  match m with
  | MAllocEntry _ | MAllocLink _ => []
  | MSetPrefix n _ => [KField (who_of base n) FPrefix]
  | MSetDepth n _ => [KField (who_of base n) FDepth]
  | MSetParent n _ => [KField (who_of base n) FParent]
  | MStoreMask n _ _ => [KMask (who_of base n)]
  | MConstruct n _ _ => [KNew (who_of base n)]
  | MStoreLink n _ _ _ => [KLink (who_of base n)]
  | MStoreRoot _ _ => [KRoot]
  end.
Definition prog_kinds (s : st) (o : wop) : list wkind := flat_map (step_kind (length (nodes s))) (op_steps 1 2 s o).

(* witness (state, operation) pairs, one per path of the source *)
Definition wit_c1_root := (w_empty, WInsert 5 1).
Definition wit_c1_link := (w_two, WInsert 18446744073709551615 1).
Definition wit_c2_root := (w_one, WInsert 1152921504606846981 1).
Definition wit_c2_link := (w_two, WInsert 21 1).
Definition wit_c3 := (w_one, WInsert 6 1).
Definition wit_erase := (w_one, WErase 5).
Definition kinds_of (w : st * wop) : list wkind := prog_kinds (fst w) (snd w).

(* the source lists both publishing stores of a case (if(p) links[..].store else _root.store): drop one of them *)
Definition drop_root (l : list wkind) : list wkind := filter (fun k => match k with KRoot => false | _ => true end) l.
Definition drop_last_link (l : list wkind) : list wkind :=
  match rev l with
  | KRoot :: KLink _ :: r => rev (KRoot :: r)
  | _ => l
  end.

(* the orders the sites assign to the atomic stores of a program vs. the orders embedded in its micro-steps *)
Fixpoint assigned (o : orders) (sites : list site) (steps : list mstep) : list morder :=
  match steps with
  | [] => []
  | m :: r => if is_store m then fst (pop o sites m) :: assigned o (snd (pop o sites m)) r
              else assigned o sites r
  end.
Definition embedded (steps : list mstep) : list morder := map step_order (filter is_store steps).
Definition embedded_ok (o : orders) (w : st * wop) : bool :=
  let steps := op_steps 1 2 (fst w) (snd w) in
  let a := assigned o (case_sites (op_case (fst w) (snd w))) steps in
  let e := embedded steps in
  (Nat.eqb (length a) (length e)) &&
  forallb (fun p => match fst p, snd p with
                    | Relaxed, Relaxed | Acquire, Acquire | Release, Release => true
                    | _, _ => false end) (combine a e).
Definition orders_embedded (o : orders) : bool :=
  forallb (embedded_ok o) [wit_c1_root; wit_c1_link; wit_c2_root; wit_c2_link; wit_c3; wit_erase].

(* the orders the sequential model was written against (= the ones embedded in its micro-steps); the lock-step driver
   uses this record so that it does not depend on the generated file *)
Definition c09_orders : orders :=
  mk_orders Acquire Acquire Acquire Relaxed Release Release Relaxed Relaxed Relaxed Relaxed Release Release Release Release.

(* the example of C10_orders_sufficient: the same record with a relaxed publish of a new root *)
Definition weaken_c1_root (o : orders) : orders :=
  mk_orders (o_f_root o) (o_f_mask o) (o_f_link o) (o_c1_mask o) (o_c1_link o) Relaxed (o_c2_mask o) (o_c2_null o)
            (o_c2_lk o) (o_c2_ls o) (o_c2_link o) (o_c2_root o) (o_c3_mask o) (o_e_mask o).

(* ... and with a relaxed mask store in erase *)
Definition weaken_e_mask (o : orders) : orders :=
  mk_orders (o_f_root o) (o_f_mask o) (o_f_link o) (o_c1_mask o) (o_c1_link o) (o_c1_root o) (o_c2_mask o) (o_c2_null o)
            (o_c2_lk o) (o_c2_ls o) (o_c2_link o) (o_c2_root o) (o_c3_mask o) Relaxed.
