(* Dynamic part of C10_present_key_found: a reader whose view, when its find k started, included the end of an
   operation after which k was present, and which returns before k is erased, follows only nodes that cover k. *)
From Coq Require Import List NArith Arith Bool Lia ZifyBool ZifyNat ZifyN.
From FV Require Import Common.EventLog Radix.RadixModel Radix.RadixBits Radix.RadixInv Radix.RadixExec
  Radix.RadixSem Radix.RadixFind Radix.RadixSpec RadixConc.RAView RadixConc.ConcModel RadixConc.ConcProg
  RadixConc.ConcWriter RadixConc.ConcLog RadixConc.ConcStatic RadixConc.ConcStatic2 RadixConc.ConcStep
  RadixConc.ConcReader RadixConc.ConcSys RadixConc.ConcFound.
Import ListNotations.
Local Open Scope N_scope.

Arguments pfxP : simpl never.
Arguments idxP : simpl never.
Arguments N.testbit : simpl never.

Section Dyn.
  Variables (o : orders) (esz lsz : N) (wops : list wop).
  Hypothesis Hsuf : orders_sufficient o = true.
  Hypothesis Hok : hist_okb esz lsz st0 wops = true.
  Notation LF := (full_log o esz lsz wops).
  Notation blog := (blog o esz lsz wops).
  Notation bstate := (bstate esz lsz wops).

  (* k is present (at address (e, idx)) after the first p operations, none of the operations p..q-1 erases it,
     and the bound b0 includes the whole log of the first p operations *)
  Definition FoundHyp (k : N) (e : nat) (p q b0 : nat) : Prop :=
    (p <= q)%nat /\ (q <= length wops)%nat /\ find (bstate p) k = Ok (Some (e, idxP k 15)) /\
    (forall t, (p <= t < q)%nat -> nth_error wops t <> Some (WErase k)) /\ (length (blog p) <= b0)%nat.

  Definition tpc_ok (Lc : log) (r : rstate) : Prop :=
    match r_pc r with
    | PHdr k c | PMask k c _ | PLink k c _ =>
        forall e p q, FoundHyp k e p q (r_base0 r) -> (length Lc <= length (blog q))%nat ->
          exists b', (b' <= r_base r)%nat /\ Cov LF (blog q) k e b' c
    | _ => True
    end.
  Definition tdone_ok (f : frec) : Prop :=
    forall e p q, FoundHyp (f_key f) e p q (f_base0 f) -> (f_len f <= length (blog q))%nat ->
      f_res f = Some (e, idxP (f_key f) 15).
  Record TInv (Lc : log) (r : rstate) : Prop := mk_TInv { ti_pc : tpc_ok Lc r; ti_done : Forall tdone_ok (r_done r) }.

  Lemma TInv_grow Lc M r : TInv Lc r -> TInv (Lc ++ M) r.
  Proof.
    intros [A B]. split; [|exact B]. unfold tpc_ok in *. destruct (r_pc r); auto;
      intros e p q H Hlen; apply (A e p q H); rewrite app_length in Hlen; lia.
  Qed.

  Lemma prefix_both (Lc X : log) q : LF = Lc ++ X -> (length Lc <= length (blog q))%nat -> exists Y, blog q = Lc ++ Y.
  Proof.
    intros EL Hlen. pose proof (blog_prefix o esz lsz wops q) as EB. rewrite EL in EB.
    exists (skipn (length Lc) (blog q)).
    rewrite <- (firstn_skipn (length Lc) (blog q)) at 1. f_equal.
    assert (E : firstn (length Lc) (Lc ++ X) = firstn (length Lc) (blog q ++ hist_log o esz lsz (bstate q) (skipn q wops))) by (rewrite EB; reflexivity).
    rewrite firstn_app, Nat.sub_diag, firstn_all in E. cbn [firstn] in E. rewrite app_nil_r in E.
    rewrite firstn_app in E. replace (length Lc - length (blog q))%nat with 0%nat in E by lia. cbn [firstn] in E. rewrite app_nil_r in E.
    symmetry. exact E.
  Qed.

  Lemma ratomic_adm acq (Lc : log) (V : view) l ch j m V' : ratomic acq Lc V l ch = RGot j m V' ->
    adm Lc l (V l) j /\ nth_error Lc j = Some m.
  Proof. intros R. destruct (read_atomic_got _ _ _ loc_eqb_spec _ _ _ _ _ _ _ _ R) as (G & _ & A & _). auto. Qed.

  (* the load's message is admissible in the boundary log for every bound below the reader's base *)
  Lemma adm_boundary (Lc X : log) (V : view) l j q b :
    LF = Lc ++ X -> (length Lc <= length (blog q))%nat -> adm Lc l (V l) j -> (V l <= length Lc)%nat -> (b <= V l)%nat ->
    forall m, nth_error Lc j = Some m -> adm (blog q) l b j /\ nth_error (blog q) j = Some m.
  Proof.
    intros EL Hlen A Hv Hb m G. destruct (prefix_both Lc X q EL Hlen) as (Y & ->). split.
    - eapply adm_extend; eassumption.
    - apply nth_app_l. exact G.
  Qed.

  Lemma nb_le_new_base b' b j (m : msg) : (b' <= b)%nat -> (nb b' j m <= new_base true b j m)%nat.
  Proof. intros H. unfold nb, new_base. cbn [andb]. destruct (mrel m); lia. Qed.

  Lemma tstep Lc X clk ch r : LF = Lc ++ X -> (1 <= length Lc)%nat -> RInv LF Lc r -> TInv Lc r ->
    TInv Lc (rstep o Lc clk ch r).
  Proof.
    intros EL HLc [Hb HV Htodo Hpc Hdone] [Tpc Tdone].
    destruct (suff o Hsuf) as (A1 & A2 & A3 & _).
    unfold rstep. unfold tpc_ok in Tpc. destruct (r_pc r) as [|k c|k c ix|k c ix|w] eqn:Epc; cbn [pc_ok] in Hpc.
    - destruct (r_todo r) as [|[k|] t] eqn:Et.
      + split; [unfold tpc_ok; rewrite Epc; exact Logic.I|exact Tdone].
      + inversion Htodo as [|? ? Hk Ht]; subst.
        destruct (ratomic_root o esz lsz wops Hsuf Hok Lc X (r_view r) (r_base r) EL Hb HV (is_acq (o_f_root o)) ch) as (j & m & R & GF & El & Hj & Hrel).
        rewrite R. destruct (ratomic_adm _ _ _ _ _ _ _ _ R) as [Aj Gj].
        pose proof (msg_typed o esz lsz wops Hsuf Hok j m GF) as Ty. unfold typed in Ty. rewrite El in Ty.
        destruct (mval m) as [pp| |] eqn:Ev; try contradiction.
        assert (Hcell : forall e p q, FoundHyp k e p q (r_base r) -> (length Lc <= length (blog q))%nat ->
                  exists c', pp = Some c' /\ Cov LF (blog q) k e (nb (length (blog p)) j m) c').
        { intros e p q (Hpq & Hq & Hp & Hne & Hb0) Hlen.
          destruct (cov_hist o esz lsz Hsuf wops Hok k e p Hk Hp q Hpq Hq Hne) as [[Cex Ccov] _].
          destruct (HV LRoot) as [HV1 HV2].
          destruct (adm_boundary Lc X (r_view r) LRoot j q (length (blog p)) EL Hlen Aj HV2 ltac:(lia) m Gj) as [Aq Gq].
          destruct (Cex j m Aq Gq) as (c' & Ec'). rewrite Ev in Ec'. injection Ec' as ->.
          exists c'. split; [reflexivity|]. apply (Ccov j m c' Aq Gq). exact Ev. }
        destruct pp as [c|]; cbn [after_ptr].
        * split; [|exact Tdone]. unfold tpc_ok. cbn [goto r_pc r_base r_base0].
          intros e p q H Hlen. destruct (Hcell e p q H Hlen) as (c' & Ec & Cc). injection Ec as <-.
          exists (nb (length (blog p)) j m). split; [|exact Cc]. rewrite A1. apply nb_le_new_base.
          destruct H as (_ & _ & _ & _ & H). exact H.
        * split; [unfold tpc_ok; exact Logic.I|]. cbn [finish r_done]. constructor; [|exact Tdone].
          intros e p q H Hlen. cbn [f_key f_base0 f_len] in *. destruct (Hcell e p q H Hlen) as (c' & Ec & _). discriminate.
      + split; [unfold tpc_ok; exact Logic.I|exact Tdone].
    - (* header *)
      destruct Hpc as [Hk Hh]. destruct (held_node o esz lsz wops Hsuf Hok (r_base r) c Hh) as (nd & Gn & Okn & Lp & Ld).
      destruct (rna_hdr o esz lsz wops Hsuf Hok Lc X (r_view r) (r_base r) EL Hb HV c (LDepth c) _ Hh (or_introl eq_refl) Ld) as (jd & md & Rd & Evd).
      destruct (rna_hdr o esz lsz wops Hsuf Hok Lc X (r_view r) (r_base r) EL Hb HV c (LPrefix c) _ Hh (or_intror eq_refl) Lp) as (jx & mx & Rx & Evx).
      rewrite Rd, Rx, Evd, Evx.
      pose proof (node_ok_depth _ Okn) as Hd.
      rewrite pfx_of_ok by (try exact Hk; lia).
      destruct (negb (pfxP k (n_depth nd) =? n_prefix nd)) eqn:Epx.
      + split; [unfold tpc_ok; exact Logic.I|]. cbn [finish r_done]. constructor; [|exact Tdone].
        intros e p q H Hlen. cbn [f_key f_base0 f_len] in *. exfalso.
        destruct (Tpc e p q H Hlen) as (b' & _ & Cc).
        apply negb_true_iff, N.eqb_neq in Epx. apply Epx.
        inversion Cc as [b c0 Lp' Ld' Ec Hm|b c0 d' Hd' Lp' Ld' Hex Hcov]; subst; rewrite Lp in Lp'; rewrite Ld in Ld';
          injection Lp' as Lp'; injection Ld' as Ld'; rewrite Ld'; symmetry; exact Lp'.
      + rewrite idx_of_ok by exact Hd. split; [|exact Tdone]. unfold tpc_ok. cbn [goto r_pc r_base r_base0].
        destruct (n_depth nd =? ll); exact Tpc.
    - (* mask *)
      destruct Hpc as (Hk & Hh & Lp & Ld & Eix).
      assert (Hna : has_na LF (LMask c)) by (exact (st_kna _ _ (HS o esz lsz wops Hsuf Hok) c 15 Ld)).
      destruct (ratomic_cell o esz lsz wops Hsuf Hok Lc X (r_view r) (r_base r) EL Hb HV c (LMask c) (is_acq (o_f_mask o)) ch Hh (or_introl eq_refl) Hna)
        as (j & m & R & GF & El & Hj & Hnr).
      rewrite R. destruct (ratomic_adm _ _ _ _ _ _ _ _ R) as [Aj Gj].
      pose proof (msg_typed o esz lsz wops Hsuf Hok j m GF) as Ty. unfold typed in Ty. rewrite El in Ty.
      destruct (mval m) as [|mv|] eqn:Ev; try contradiction.
      split; [unfold tpc_ok; exact Logic.I|]. cbn [finish r_done]. constructor; [|exact Tdone].
      intros e p q H Hlen. cbn [f_key f_base0 f_len f_res] in *.
      destruct (Tpc e p q H Hlen) as (b' & Hb' & Cc). destruct (HV (LMask c)) as [HV1 HV2].
      destruct (adm_boundary Lc X (r_view r) (LMask c) j q b' EL Hlen Aj HV2 ltac:(lia) m Gj) as [Aq Gq].
      inversion Cc as [b c0 Lp' Ld' Ec Hm|b c0 d' Hd' Lp' Ld' Hex Hcov]; subst.
      + rewrite (Hm j m mv Aq Gq Ev). reflexivity.
      + rewrite Ld in Ld'. injection Ld' as Ld'. lia.
    - (* link *)
      destruct Hpc as (Hk & Hh & d & Hd & Ld & Lp & Eix).
      assert (Hna : has_na LF (LLink c ix)).
      { pose proof (st_kna _ _ (HS o esz lsz wops Hsuf Hok) c d Ld) as K. assert (E : (d =? 15) = false) by (apply N.eqb_neq; lia).
        rewrite E in K. apply K. rewrite Eix. apply idx_lt. }
      destruct (ratomic_cell o esz lsz wops Hsuf Hok Lc X (r_view r) (r_base r) EL Hb HV c (LLink c ix) (is_acq (o_f_link o)) ch Hh (or_intror (ex_intro _ ix eq_refl)) Hna)
        as (j & m & R & GF & El & Hj & Hnr).
      rewrite R. destruct (ratomic_adm _ _ _ _ _ _ _ _ R) as [Aj Gj].
      pose proof (msg_typed o esz lsz wops Hsuf Hok j m GF) as Ty. unfold typed in Ty. rewrite El in Ty.
      destruct (mval m) as [pp| |] eqn:Ev; try contradiction.
      assert (Hcell : forall e p q, FoundHyp k e p q (r_base0 r) -> (length Lc <= length (blog q))%nat ->
                exists c' b', pp = Some c' /\ (b' <= r_base r)%nat /\ Cov LF (blog q) k e (nb b' j m) c').
      { intros e p q H Hlen. destruct (Tpc e p q H Hlen) as (b' & Hb' & Cc). destruct (HV (LLink c ix)) as [HV1 HV2].
        destruct (adm_boundary Lc X (r_view r) (LLink c ix) j q b' EL Hlen Aj HV2 ltac:(lia) m Gj) as [Aq Gq].
        inversion Cc as [b c0 Lp' Ld' Ec Hm|b c0 d' Hd' Lp' Ld' Hex Hcov]; subst.
        - rewrite Ld in Ld'. injection Ld' as Ld'. lia.
        - rewrite Ld in Ld'. injection Ld' as <-.
          destruct (Hex j m Aq Gq) as (c' & Ec'). rewrite Ev in Ec'. injection Ec' as ->.
          exists c', b'. split; [reflexivity|]. split; [exact Hb'|]. apply (Hcov j m c' Aq Gq). exact Ev. }
      destruct pp as [c'|]; cbn [after_ptr].
      + split; [|exact Tdone]. unfold tpc_ok. cbn [goto r_pc r_base r_base0].
        intros e p q H Hlen. destruct (Hcell e p q H Hlen) as (c2 & b' & Ec & Hb' & Cc). injection Ec as <-.
        exists (nb b' j m). split; [|exact Cc]. rewrite A3. apply nb_le_new_base. exact Hb'.
      + split; [unfold tpc_ok; exact Logic.I|]. cbn [finish r_done]. constructor; [|exact Tdone].
        intros e p q H Hlen. cbn [f_key f_base0 f_len] in *. destruct (Hcell e p q H Hlen) as (c2 & b' & Ec & _). discriminate.
    - contradiction.
  Qed.

  (* ---------------------------------------------------------------- along every trace *)
  Variables (scripts : nat -> list ritem) (choices : nat -> nat).
  Hypothesis Hscr : scripts_ok scripts.

  Definition SysT (S0 : sys) : Prop := SysInv o esz lsz wops S0 /\ forall r, TInv (s_log S0) (s_rd S0 r).

  Lemma SysT_init : SysT (sys_init wops scripts).
  Proof.
    split; [apply SysInv_init; assumption|]. intros r. split; [exact Logic.I|constructor].
  Qed.

  Lemma SysT_step S0 t c : SysT S0 -> SysT (sys_step o esz lsz S0 t c).
  Proof.
    intros [HI HT]. split; [apply SysInv_step; assumption|]. destruct HI as [HW HR].
    destruct t as [|r]; cbn [sys_step].
    - destruct (wstep_log o esz lsz (s_w S0) (s_log S0)) as (M & EM).
      destruct (wstep o esz lsz (s_w S0, s_log S0)) as [w' L'] eqn:Ew. cbn [fst snd] in *. subst L'.
      cbn [s_log s_rd]. intros q. apply TInv_grow. apply HT.
    - cbn [s_log s_rd]. intros q. destruct (Nat.eqb q r); [|apply HT].
      destruct (WInv_prefix o esz lsz wops _ _ HW) as (X & EX).
      eapply (tstep (s_log S0) X); [exact EX|eapply WInv_len; eassumption|apply HR|apply HT].
  Qed.

  Lemma SysT_trace sched : forall S0, SysT S0 -> Forall SysT (trace o esz lsz choices S0 sched).
  Proof.
    induction sched as [|t r IH]; intros S0 H; cbn [trace]; constructor; auto.
    apply IH. apply SysT_step. exact H.
  Qed.

  Lemma run_T sched S0 : In S0 (run_conc o esz lsz wops scripts sched choices) -> SysT S0.
  Proof.
    intros Hin. pose proof (SysT_trace sched _ SysT_init) as F. rewrite Forall_forall in F. exact (F S0 Hin).
  Qed.
End Dyn.
