(* The static invariants hold at every operation boundary of an accepted history (orders sufficient). *)
From Coq Require Import List NArith Arith Bool Lia ZifyBool ZifyNat ZifyN.
From FV Require Import Common.EventLog Radix.RadixModel Radix.RadixBits Radix.RadixInv Radix.RadixExec
  Radix.RadixSem Radix.RadixFind Radix.RadixSpec RadixConc.RAView RadixConc.ConcModel RadixConc.ConcProg
  RadixConc.ConcWriter RadixConc.ConcLog RadixConc.ConcStatic.
Import ListNotations.
Local Open Scope N_scope.

Arguments pfxP : simpl never.
Arguments idxP : simpl never.
Arguments N.shiftl : simpl never.
Arguments N.lor : simpl never.
Arguments N.testbit : simpl never.
Arguments clear_bit : simpl never.
Arguments bit : simpl never.

Ltac lv := unfold lastval, find_last;
  cbn [c1_msgs c2_msgs c3_msgs ce_msgs alloc_entry_msgs alloc_link_msgs entry_init_msgs link_init_msgs pub_msg
       app map idx16 rev List.find loc_eqb mloc mval mk option_map andb].

(* last header values inside the messages of an operation *)
Lemma c1_lastval_depth o H k v p c :
  lastval (c1_msgs o H k v p) (LDepth c) = if Nat.eqb (length H) c then Some (VNum 15) else None.
Proof. destruct p; lv; destruct (Nat.eqb (length H) c); reflexivity. Qed.
Lemma c1_lastval_prefix o H k v p c :
  lastval (c1_msgs o H k v p) (LPrefix c) = if Nat.eqb (length H) c then Some (VNum (pfxP k 15)) else None.
Proof. destruct p; lv; destruct (Nat.eqb (length H) c); reflexivity. Qed.
Lemma c2_lastval_depth o H k v p si sp d c :
  lastval (c2_msgs o H k v p si sp d) (LDepth c) =
    if Nat.eqb (S (length H)) c then Some (VNum d) else if Nat.eqb (length H) c then Some (VNum 15) else None.
Proof. destruct p; lv; destruct (Nat.eqb (S (length H)) c), (Nat.eqb (length H) c); reflexivity. Qed.
Lemma c2_lastval_prefix o H k v p si sp d c :
  lastval (c2_msgs o H k v p si sp d) (LPrefix c) =
    if Nat.eqb (S (length H)) c then Some (VNum (pfxP k d)) else if Nat.eqb (length H) c then Some (VNum (pfxP k 15)) else None.
Proof. destruct p; lv; destruct (Nat.eqb (S (length H)) c), (Nat.eqb (length H) c); reflexivity. Qed.
Lemma c3_lastval_depth o e m k v c : lastval (c3_msgs o e m k v) (LDepth c) = None.
Proof. reflexivity. Qed.
Lemma ce_lastval_depth o e m k c : lastval (ce_msgs o e m k) (LDepth c) = None.
Proof. reflexivity. Qed.

Lemma Stat_0 : Stat log0 st0.
Proof.
  constructor.
  - exact Inv_s_st0.
  - exact Consistent_0.
  - intros jp mp c j m Gp Hp. destruct jp as [|[|jp]]; cbn in Gp; try discriminate. injection Gp as <-. discriminate.
  - intros j m c G Hp. destruct j as [|[|j]]; cbn in G; try discriminate. injection G as <-. discriminate.
  - intros j m G. destruct j as [|[|j]]; cbn in G; try discriminate. injection G as <-. exact I.
  - intros c d E. discriminate.
  - intros tm mm e mv i G El. destruct tm as [|[|tm]]; cbn in G; try discriminate. injection G as <-. discriminate.
  - intros tc mc e i kk v G El. destruct tc as [|[|tc]]; cbn in G; try discriminate. injection G as <-. discriminate.
Qed.

Section Step.
  Variables (o : orders) (esz lsz : N).
  Hypothesis Hsuf : orders_sufficient o = true.

  Lemma entry_mask L s e en : Consistent L s -> nth_error (nodes s) e = Some en -> is_entry en = true ->
    lastval L (LMask e) = Some (VNum (n_mask en)).
  Proof.
    intros C G Hent. rewrite (c_val _ _ C (LMask e) eq_refl). cbn [heap_val]. rewrite G. destruct en; [discriminate|reflexivity].
  Qed.

  (* a bit that was set in the mask of e before the operation has its constructed slot in the old log *)
  Lemma old_bit L s e en i : Consistent L s -> S_mask L -> nth_error (nodes s) e = Some en -> is_entry en = true ->
    N.testbit (n_mask en) i = true ->
    exists tc mc kk v, nth_error L tc = Some mc /\ mloc mc = LSlot e i /\ mval mc = VSlot kk v.
  Proof.
    intros C SM G Hent B. destruct (lastval_some _ _ _ (entry_mask L s e en C G Hent)) as (j0 & m0 & G0 & E0 & V0 & _).
    destruct (SM j0 m0 e (n_mask en) i G0 E0 V0 B) as (tc & mc & kk & v & Gc & Ec & Evc & _). eauto 8.
  Qed.

  Lemma Stat_step L s w : Stat L s -> wop_okb s w = true ->
    Stat (L ++ op_msgs o esz lsz s w) (op_next esz lsz s w).
  Proof.
    intros [I C SP ST SH SK SM SS] Hok.
    destruct (op_shape_ok esz lsz s w I Hok) as [Hg Sh].
    destruct (op_run_ok esz lsz s w I Hok) as (s' & Hrun & Hnext & I' & _). rewrite Hnext.
    pose proof (cons_steps o (wop_key w) _ L s s' C Hrun (case_sites (op_case s w))) as C'.
    pose proof (run_steps_length _ _ _ Hrun) as Hlen.
    assert (Hk : wop_key w < K64).
    { destruct w; cbn [wop_okb wop_key] in *; try (apply andb_true_iff in Hok; destruct Hok as [Hok _]); apply N.ltb_lt; exact Hok. }
    fold (op_msgs o esz lsz s w) in C'. unfold op_msgs in *.
    destruct Sh as [e _ _ Hst Hcase|v p _ _ W Hst Hcase|v p si sn d _ W Gs Hd Hag Hdis Hab Hst Hcase
                   |v e en _ W Ge Hent Hpfx Hbit Hst Hcase|e en _ W Ge Hent Hpfx Hbit Hst Hcase];
      set (k := wop_key w) in *; rewrite Hst, Hcase in *.
    - (* nothing to do *)
      cbn [steps_msgs run_steps] in *. injection Hrun as <-. rewrite app_nil_r in *. constructor; assumption.
    - (* case 1 *)
      rewrite c1_msgs_ok in *. set (M := c1_msgs o (nodes s) k v p) in *. set (n0 := length (nodes s)) in *.
      assert (Hpi : forall pi, p = Some pi -> (pi < n0)%nat).
      { intros pi E. destruct (case1_parent _ _ _ _ W pi E) as (pn & G & _). apply nth_error_Some. congruence. }
      destruct (c1_facts o Hsuf (nodes s) k v p Hpi) as (F1 & WP & F3 & F4). fold M n0 in F1, WP, F3, F4.
      assert (Hn1 : length (nodes s') = S n0).
      { rewrite Hlen. unfold c1_steps. destruct p; cbn; lia. }
      constructor; try assumption.
      + eapply S_pub_app; eassumption.
      + rewrite Hn1. eapply S_tgt_app; [exact ST|lia|exact F3].
      + apply S_hdr_app; assumption.
      + apply S_kna_app; [exact SK|]. intros c dd E. unfold M in E. rewrite c1_lastval_depth in E.
        destruct (Nat.eqb_spec (length (nodes s)) c) as [<-|_]; [|discriminate]. injection E as <-. cbn [N.eqb Pos.eqb].
        apply (has_na_in M (mk (LMask n0) (VNum 0) false true)); [|reflexivity|reflexivity].
        unfold M, c1_msgs, alloc_entry_msgs. cbn [app In]. auto.
      + apply S_mask_app; [exact SM|]. intros a mm e mv i Ga.
        assert (Q : all_i (fun b mp => ptr_target mp = Some n0 -> (8 < b)%nat) 0 M).
        { subst M. destruct p as [pi|]; expl; cbn [all_i]; repeat apply conj; try exact Logic.I; intros Hp; cbn in Hp; try discriminate; lia. }
        assert (G8 : nth_error M 8 = Some (mk (LSlot n0 (idxP k 15)) (VSlot k v) false true)) by (subst M; destruct p; reflexivity).
        assert (Hfin : forall i0, N.testbit (bit (idxP k 15)) i0 = true ->
                  exists tc mc kk v0, nth_error (L ++ M) tc = Some mc /\ mloc mc = LSlot n0 i0 /\ mval mc = VSlot kk v0 /\
                     ((tc < length L + 7)%nat \/ (tc = S (length L + 7) /\
                        forall jp mp, nth_error (L ++ M) jp = Some mp -> ptr_target mp = Some n0 -> (tc < jp)%nat))).
        { intros i0 B. unfold bit in B. rewrite testbit_bit in B. apply N.eqb_eq in B. subst i0.
          exists (length L + 8)%nat. eexists. exists k, v. split; [apply nth_app_r; exact G8|]. split; [reflexivity|]. split; [reflexivity|].
          right. split; [lia|]. intros jp mp Gp Hp. destruct (nth_app_cases _ _ _ _ Gp) as [[_ Gp']|[Hge Gp']].
          - pose proof (ST _ _ _ Gp' Hp). lia.
          - pose proof (all_i_nth0 _ _ Q _ _ Gp' Hp). lia. }
        assert (A : all_i (fun a mm => forall e mv i, mloc mm = LMask e -> mval mm = VNum mv -> N.testbit mv i = true ->
                     exists tc mc kk v0, nth_error (L ++ M) tc = Some mc /\ mloc mc = LSlot e i /\ mval mc = VSlot kk v0 /\
                       ((tc < length L + a)%nat \/ (tc = S (length L + a) /\
                          forall jp mp, nth_error (L ++ M) jp = Some mp -> ptr_target mp = Some e -> (tc < jp)%nat))) 0 M).
        { clear Q G8 Ga C' F1 WP F3 F4. revert Hfin. generalize (L ++ M). intros LM Hfin. subst M.
          destruct p as [pi|]; expl; cbn [all_i]; repeat apply conj; try exact Logic.I; intros ee mvv ii El Ev B; cbn in El, Ev; try discriminate;
            injection El as <-; injection Ev as <-; try (rewrite N.bits_0 in B; discriminate); exact (Hfin ii B). }
        exact (all_i_nth0 _ _ A a mm Ga e mv i).
      + eapply (S_slot_app L M n0 s); try eassumption; try reflexivity.
        intros a mc e i kk v0 Ga.
        assert (PD : lastval (L ++ M) (LPrefix n0) = Some (VNum (pfxP k 15)) /\ lastval (L ++ M) (LDepth n0) = Some (VNum 15)).
        { rewrite !lastval_app. unfold M. rewrite c1_lastval_prefix, c1_lastval_depth. fold n0. rewrite Nat.eqb_refl. split; reflexivity. }
        assert (A : all_i (fun a mc => forall e i kk v0, mloc mc = LSlot e i -> mval mc = VSlot kk v0 ->
                     kk < K64 /\ i = idxP kk 15 /\ lastval (L ++ M) (LPrefix e) = Some (VNum (pfxP kk 15)) /\
                     lastval (L ++ M) (LDepth e) = Some (VNum 15)) 0 M).
        { clear Ga C' F1 WP F3 F4. revert PD. generalize (L ++ M). intros LM PD. subst M.
          destruct p as [pi|]; expl; cbn [all_i]; repeat apply conj; try exact Logic.I; intros ee ii kk0 v1 El Ev; cbn in El, Ev; try discriminate;
            injection El as <- <-; injection Ev as <- <-; (split; [exact Hk|]); (split; [reflexivity|]); exact PD. }
        exact (all_i_nth0 _ _ A a mc Ga e i kk v0).
    - (* case 2 *)
      rewrite c2_msgs_ok in *. set (M := c2_msgs o (nodes s) k v p si (n_prefix sn) d) in *. set (n0 := length (nodes s)) in *.
      assert (Hpi : forall pi, p = Some pi -> (pi < n0)%nat).
      { intros pi E. destruct (case2_parent _ _ _ _ _ W pi E) as (pn & G & _). apply nth_error_Some. congruence. }
      assert (Hsi : (si < n0)%nat) by (apply nth_error_Some; congruence).
      destruct (c2_facts o Hsuf (nodes s) k v p si (n_prefix sn) d Hpi Hsi) as (F1 & WP & F3 & F4). fold M n0 in F1, WP, F3, F4.
      assert (Hn1 : length (nodes s') = S (S n0)).
      { rewrite Hlen. unfold c2_steps. destruct p; cbn; lia. }
      assert (Hd15 : (d =? 15) = false).
      { pose proof (node_ok_depth _ (inv_ok _ _ I _ _ Gs)). apply N.eqb_neq. lia. }
      constructor; try assumption.
      + eapply S_pub_app; eassumption.
      + rewrite Hn1. eapply S_tgt_app; [exact ST|lia|exact F3].
      + apply S_hdr_app; assumption.
      + apply S_kna_app; [exact SK|]. intros c dd E. unfold M in E. rewrite c2_lastval_depth in E.
        destruct (Nat.eqb_spec (S (length (nodes s))) c) as [<-|_].
        * injection E as <-. rewrite Hd15. intros i Hi.
          apply (has_na_in M (mk (LLink (S n0) i) (VPtr None) false true)); [|reflexivity|reflexivity].
          unfold M, c2_msgs. apply in_or_app. right. apply in_or_app. left. unfold alloc_link_msgs. apply in_or_app. right.
          apply (in_map (fun i => mk (LLink (S n0) i) (VPtr None) false true)). apply in_idx16. exact Hi.
        * destruct (Nat.eqb_spec (length (nodes s)) c) as [<-|_]; [|discriminate]. injection E as <-. cbn [N.eqb Pos.eqb].
          apply (has_na_in M (mk (LMask n0) (VNum 0) false true)); [|reflexivity|reflexivity].
          unfold M, c2_msgs, alloc_entry_msgs. cbn [app In]. auto.
      + apply S_mask_app; [exact SM|]. intros a mm e mv i Ga.
        assert (Q : all_i (fun b mp => ptr_target mp = Some n0 -> (27 < b)%nat) 0 M).
        { subst M. destruct p as [pi|]; expl; cbn [all_i]; repeat apply conj; try exact Logic.I; intros Hp; cbn in Hp; try discriminate; try lia;
            injection Hp as Hp; lia. }
        assert (G8 : nth_error M 27 = Some (mk (LSlot n0 (idxP k 15)) (VSlot k v) false true)) by (subst M; destruct p; reflexivity).
        assert (Hfin : forall i0, N.testbit (bit (idxP k 15)) i0 = true ->
                  exists tc mc kk v0, nth_error (L ++ M) tc = Some mc /\ mloc mc = LSlot n0 i0 /\ mval mc = VSlot kk v0 /\
                     ((tc < length L + 26)%nat \/ (tc = S (length L + 26) /\
                        forall jp mp, nth_error (L ++ M) jp = Some mp -> ptr_target mp = Some n0 -> (tc < jp)%nat))).
        { intros i0 B. unfold bit in B. rewrite testbit_bit in B. apply N.eqb_eq in B. subst i0.
          exists (length L + 27)%nat. eexists. exists k, v. split; [apply nth_app_r; exact G8|]. split; [reflexivity|]. split; [reflexivity|].
          right. split; [lia|]. intros jp mp Gp Hp. destruct (nth_app_cases _ _ _ _ Gp) as [[_ Gp']|[Hge Gp']].
          - pose proof (ST _ _ _ Gp' Hp). lia.
          - pose proof (all_i_nth0 _ _ Q _ _ Gp' Hp). lia. }
        assert (A : all_i (fun a mm => forall e mv i, mloc mm = LMask e -> mval mm = VNum mv -> N.testbit mv i = true ->
                     exists tc mc kk v0, nth_error (L ++ M) tc = Some mc /\ mloc mc = LSlot e i /\ mval mc = VSlot kk v0 /\
                       ((tc < length L + a)%nat \/ (tc = S (length L + a) /\
                          forall jp mp, nth_error (L ++ M) jp = Some mp -> ptr_target mp = Some e -> (tc < jp)%nat))) 0 M).
        { clear Q G8 Ga C' F1 WP F3 F4. revert Hfin. generalize (L ++ M). intros LM Hfin. subst M.
          destruct p as [pi|]; expl; cbn [all_i]; repeat apply conj; try exact Logic.I; intros ee mvv ii El Ev B; cbn in El, Ev; try discriminate;
            injection El as <-; injection Ev as <-; try (rewrite N.bits_0 in B; discriminate); exact (Hfin ii B). }
        exact (all_i_nth0 _ _ A a mm Ga e mv i).
      + eapply (S_slot_app L M n0 s); try eassumption; try reflexivity.
        intros a mc e i kk v0 Ga.
        assert (PD : lastval (L ++ M) (LPrefix n0) = Some (VNum (pfxP k 15)) /\ lastval (L ++ M) (LDepth n0) = Some (VNum 15)).
        { rewrite !lastval_app. unfold M. rewrite c2_lastval_prefix, c2_lastval_depth. fold n0. rewrite Nat.eqb_refl.
          assert (E : Nat.eqb (S n0) n0 = false) by (apply Nat.eqb_neq; lia). rewrite E. split; reflexivity. }
        assert (A : all_i (fun a mc => forall e i kk v0, mloc mc = LSlot e i -> mval mc = VSlot kk v0 ->
                     kk < K64 /\ i = idxP kk 15 /\ lastval (L ++ M) (LPrefix e) = Some (VNum (pfxP kk 15)) /\
                     lastval (L ++ M) (LDepth e) = Some (VNum 15)) 0 M).
        { clear Ga C' F1 WP F3 F4. revert PD. generalize (L ++ M). intros LM PD. subst M.
          destruct p as [pi|]; expl; cbn [all_i]; repeat apply conj; try exact Logic.I; intros ee ii kk0 v1 El Ev; cbn in El, Ev; try discriminate;
            injection El as <- <-; injection Ev as <- <-; (split; [exact Hk|]); (split; [reflexivity|]); exact PD. }
        exact (all_i_nth0 _ _ A a mc Ga e i kk v0).
    - (* case 3 *)
      rewrite c3_msgs_ok in *. set (M := c3_msgs o e (n_mask en) k v) in *. set (n0 := length (nodes s)) in *.
      assert (He : (e < n0)%nat) by (apply nth_error_Some; congruence).
      destruct (c3_facts o Hsuf e (n_mask en) k v n0 He) as (F1 & WP & F3 & F4). fold M in F1, WP, F3, F4.
      assert (Hn1 : length (nodes s') = n0) by (rewrite Hlen; cbn; lia).
      constructor; try assumption.
      + eapply S_pub_app; eassumption.
      + rewrite Hn1. eapply S_tgt_app; [exact ST|lia|exact F3].
      + apply S_hdr_app; assumption.
      + apply S_kna_app; [exact SK|]. intros c dd E. discriminate.
      + apply S_mask_app; [exact SM|]. intros a mm e0 mv i Ga El Ev B.
        destruct a as [|[|a]]; [| |destruct a; discriminate]; cbn in Ga; injection Ga as <-; cbn in El, Ev; try discriminate.
        injection El as <-. injection Ev as <-. rewrite testbit_set in B. apply orb_true_iff in B. destruct B as [B|B].
        * destruct (old_bit L s e en i C SM Ge Hent B) as (tc & mc & kk & v0 & Gc & Ec & Evc).
          exists tc, mc, kk, v0. split; [apply nth_app_l; exact Gc|]. split; [exact Ec|]. split; [exact Evc|]. left.
          assert (tc < length L)%nat by (apply nth_error_Some; congruence). lia.
        * apply N.eqb_eq in B. subst i. exists (length L + 0)%nat. eexists. exists k, v.
          split; [apply nth_app_r; reflexivity|]. split; [reflexivity|]. split; [reflexivity|]. left. lia.
      + eapply (S_slot_app L M n0 s); try eassumption; try reflexivity.
        intros a mc e0 i kk v0 Ga El Ev.
        destruct a as [|[|a]]; [| |destruct a; discriminate]; cbn in Ga; injection Ga as <-; cbn in El, Ev; try discriminate.
        injection El as <- <-. injection Ev as <- <-. split; [exact Hk|]. split; [reflexivity|].
        destruct (lastval_old_hdr L M n0 e F1 F4 He) as [-> ->].
        rewrite (c_val _ _ C (LPrefix e) eq_refl), (c_val _ _ C (LDepth e) eq_refl). cbn [heap_val]. rewrite Ge. cbn [option_map].
        rewrite Hpfx, (node_ok_entry _ (inv_ok _ _ I _ _ Ge) Hent). split; reflexivity.
    - (* erase *)
      rewrite ce_msgs_ok in *. set (M := ce_msgs o e (n_mask en) k) in *. set (n0 := length (nodes s)) in *.
      assert (He : (e < n0)%nat) by (apply nth_error_Some; congruence).
      destruct (ce_facts o Hsuf e (n_mask en) k n0 He) as (F1 & WP & F3 & F4). fold M in F1, WP, F3, F4.
      assert (Hn1 : length (nodes s') = n0) by (rewrite Hlen; cbn; lia).
      constructor; try assumption.
      + eapply S_pub_app; eassumption.
      + rewrite Hn1. eapply S_tgt_app; [exact ST|lia|exact F3].
      + apply S_hdr_app; assumption.
      + apply S_kna_app; [exact SK|]. intros c dd E. discriminate.
      + apply S_mask_app; [exact SM|]. intros a mm e0 mv i Ga El Ev B.
        destruct a as [|a]; cbn in Ga; [|destruct a; discriminate]. injection Ga as <-. cbn in El, Ev.
        injection El as <-. injection Ev as <-. rewrite testbit_clear in B. apply andb_true_iff in B. destruct B as [B _].
        destruct (old_bit L s e en i C SM Ge Hent B) as (tc & mc & kk & v0 & Gc & Ec & Evc).
        exists tc, mc, kk, v0. split; [apply nth_app_l; exact Gc|]. split; [exact Ec|]. split; [exact Evc|]. left.
        assert (tc < length L)%nat by (apply nth_error_Some; congruence). lia.
      + eapply (S_slot_app L M n0 s); try eassumption; try reflexivity.
        intros a mc e0 i kk v0 Ga El Ev.
        destruct a as [|a]; cbn in Ga; [|destruct a; discriminate]. injection Ga as <-. cbn in El. discriminate.
  Qed.

  Lemma Stat_hist ops : hist_okb esz lsz st0 ops = true ->
    forall p, Stat (blog o esz lsz ops p) (bstate esz lsz ops p).
  Proof.
    intros Hok p. induction p as [|p IH].
    - rewrite blog_0. unfold bstate. cbn [firstn hist_end]. exact Stat_0.
    - destruct (nth_error ops p) as [w|] eqn:G.
      + destruct (blog_S o esz lsz ops p w G) as [-> ->]. apply Stat_step; [exact IH|]. eapply bstate_okb; eassumption.
      + apply nth_error_None in G. unfold blog, bstate in *. rewrite firstn_all2 by lia. rewrite firstn_all2 in IH by lia. exact IH.
  Qed.

  Lemma Stat_full ops : hist_okb esz lsz st0 ops = true ->
    Stat (full_log o esz lsz ops) (bstate esz lsz ops (length ops)).
  Proof. intros Hok. rewrite <- (blog_all o esz lsz ops (length ops)) by lia. apply Stat_hist. exact Hok. Qed.
End Step.
