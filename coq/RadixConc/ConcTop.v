(* Top-level statements of C10 for an arbitrary order record satisfying [orders_sufficient]
   (Props/Properties_C10.v instantiates them with the record extracted from the source). *)
From Coq Require Import List NArith Arith Bool Lia ZifyBool ZifyNat ZifyN.
From FV Require Import Common.EventLog Radix.RadixModel Radix.RadixBits Radix.RadixInv Radix.RadixExec
  Radix.RadixSem Radix.RadixFind Radix.RadixSpec RadixConc.RAView RadixConc.ConcModel RadixConc.ConcProg
  RadixConc.ConcWriter RadixConc.ConcLog RadixConc.ConcStatic RadixConc.ConcStatic2 RadixConc.ConcStep
  RadixConc.ConcReader RadixConc.ConcSys RadixConc.ConcFound RadixConc.ConcFoundDyn.
Import ListNotations.
Local Open Scope N_scope.

Arguments pfxP : simpl never.
Arguments idxP : simpl never.
Arguments N.testbit : simpl never.

Definition no_ub (tr : list sys) : Prop :=
  forall S0, In S0 tr -> w_stop (s_w S0) = false /\ forall r w, r_pc (s_rd S0 r) <> PStuck w.

(* f is the record of a completed find of reader r *)
Definition find_call (tr : list sys) (r : nat) (f : frec) : Prop := exists S0, In S0 tr /\ In f (r_done (s_rd S0 r)).

Definition present_after (esz lsz : N) (wops : list wop) (p : nat) (k : N) (a : addr) : Prop :=
  find (bstate esz lsz wops p) k = Ok (Some a).
Definition view_covers (o : orders) (esz lsz : N) (wops : list wop) (p : nat) (f : frec) : Prop :=
  (length (blog o esz lsz wops p) <= f_base0 f)%nat.
Definition not_erased_until (o : orders) (esz lsz : N) (wops : list wop) (k : N) (p q : nat) (f : frec) : Prop :=
  (p <= q)%nat /\ (q <= length wops)%nat /\ (f_len f <= length (blog o esz lsz wops q))%nat /\
  forall t, (p <= t < q)%nat -> nth_error wops t <> Some (WErase k).

Lemma exists_last_in {A} (l : list A) d : l <> [] -> In (last l d) l.
Proof.
  induction l as [|x [|y r] IH]; intros H; [contradiction|left; reflexivity|].
  right. apply IH. discriminate.
Qed.

Section Top.
  Variables (o : orders) (esz lsz : N) (wops : list wop) (scripts : nat -> list ritem) (sched : list nat) (choices : nat -> nat).
  Hypothesis Hsuf : orders_sufficient o = true.
  Hypothesis Hok : hist_okb esz lsz st0 wops = true.
  Hypothesis Hscr : scripts_ok scripts.
  Notation LF := (full_log o esz lsz wops).
  Notation tr := (run_conc o esz lsz wops scripts sched choices).

  Lemma inv_of S0 : In S0 tr -> SysInv o esz lsz wops S0.
  Proof. apply run_inv; assumption. Qed.

  Lemma top_no_ub : no_ub tr.
  Proof.
    intros S0 Hin. destruct (inv_of S0 Hin) as [HW HR]. split; [exact (wi_stop _ _ _ _ _ _ HW)|].
    intros r w E. pose proof (ri_pc _ _ _ (HR r)) as P. rewrite E in P. exact P.
  Qed.

  Lemma top_race_free :
    no_ub tr /\
    forall S0 r k c, In S0 tr -> r_pc (s_rd S0 r) = PHdr k c ->
      forall j m, nth_error LF j = Some m -> (mloc m = LPrefix c \/ mloc m = LDepth c) ->
        (j < r_view (s_rd S0 r) (mloc m))%nat /\ (j < length (s_log S0))%nat.
  Proof.
    split; [exact top_no_ub|]. intros S0 r k c Hin Epc j m G Hl.
    destruct (inv_of S0 Hin) as [HW HR]. destruct (HR r) as [Hb HV _ Hpc _]. rewrite Epc in Hpc. destruct Hpc as [_ Hh].
    assert (Hj : (j < r_base (s_rd S0 r))%nat).
    { apply (held_covers o esz lsz wops Hsuf Hok _ c j m Hh G).
      - unfold hdr_of. destruct Hl as [-> | ->]; reflexivity.
      - pose proof (st_hdr _ _ (HS o esz lsz wops Hsuf Hok) j m G) as Hr. destruct Hl as [E|E]; rewrite E in Hr; exact Hr. }
    destruct (HV (mloc m)). lia.
  Qed.

  Lemma frec_of r f : find_call tr r f -> frec_ok LF f.
  Proof.
    intros (S0 & Hin & Hf). destruct (inv_of S0 Hin) as [_ HR]. pose proof (ri_done _ _ _ (HR r)) as F.
    rewrite Forall_forall in F. exact (F f Hf).
  Qed.

  Lemma top_result_sound :
    forall r f e i, find_call tr r f -> f_res f = Some (e, i) ->
      lastval LF (LPrefix e) = Some (VNum (pfxP (f_key f) 15)) /\ lastval LF (LDepth e) = Some (VNum 15) /\
      i = idxP (f_key f) 15 /\
      exists tm mm mv, f_mask f = Some tm /\ nth_error LF tm = Some mm /\ mloc mm = LMask e /\ mval mm = VNum mv /\
        N.testbit mv i = true /\
        exists tc mc v, nth_error LF tc = Some mc /\ mloc mc = LSlot e i /\ mval mc = VSlot (f_key f) v /\
          (tc < f_view f (LSlot e i))%nat /\ ((tc < tm)%nat \/ tc = S tm).
  Proof.
    intros r f e i Hc Er. destruct (frec_of r f Hc) as (_ & _ & H). rewrite Er in H. exact H.
  Qed.

  Lemma top_deref :
    forall r f e i S1, find_call tr r f -> f_res f = Some (e, i) -> In S1 tr -> (f_len f <= length (s_log S1))%nat ->
      (forall j, RAView.at_loc loc val (s_log S1) (LSlot e i) j -> (j < f_view f (LSlot e i))%nat) ->
      exists j m v, rna (s_log S1) (f_view f) (LSlot e i) = RGot j m (f_view f) /\ mval m = VSlot (f_key f) v.
  Proof.
    intros r f e i S1 Hc Er Hin Hlen Hcov. destruct (frec_of r f Hc) as (_ & Hvl & H). rewrite Er in H.
    destruct H as (Lp & Ld & Ei & tm & mm & mv & _ & _ & _ & _ & _ & tc & mc & v & Gc & Ec & Evc & Hcv & _).
    destruct (inv_of S1 Hin) as [HW _]. destruct (WInv_prefix o esz lsz wops _ _ HW) as (X & EX).
    assert (Gc1 : nth_error (s_log S1) tc = Some mc).
    { rewrite EX in Gc. rewrite nth_error_app1 in Gc; [exact Gc|]. specialize (Hvl (LSlot e i)). lia. }
    unfold rna. destruct (read_na loc val loc_eqb (s_log S1) (f_view f) (LSlot e i)) as [| |j m V'] eqn:R.
    - exfalso. destruct (read_na_race _ _ _ loc_eqb_spec _ _ _ R) as (j & Hat & Hge). specialize (Hcov j Hat). lia.
    - exfalso. apply (read_na_nomsg _ _ _ loc_eqb_spec _ _ _ R tc). exists mc. auto.
    - destruct (read_na_got _ _ _ loc_eqb_spec _ _ _ _ _ _ R) as (G & El & -> & _ & _).
      assert (GF : nth_error LF j = Some m) by (rewrite EX; apply nth_app_l; exact G).
      pose proof (msg_typed o esz lsz wops Hsuf Hok j m GF) as Ty. unfold typed in Ty. rewrite El in Ty.
      destruct (mval m) as [| |kk vv] eqn:Ev; try contradiction.
      destruct (st_slot _ _ (HS o esz lsz wops Hsuf Hok) j m e i kk vv GF El Ev) as (_ & Eik & Lpk & _).
      assert (kk = f_key f).
      { apply key_eq; [|congruence]. rewrite Lp in Lpk. injection Lpk as Lpk. symmetry. exact Lpk. }
      subst kk. exists j, m, vv. split; [reflexivity|exact Ev].
  Qed.

  Lemma top_present_found :
    forall r f a p q, find_call tr r f ->
      present_after esz lsz wops p (f_key f) a -> view_covers o esz lsz wops p f ->
      not_erased_until o esz lsz wops (f_key f) p q f ->
      f_res f = Some a /\ no_ub tr.
  Proof.
    intros r f a p q (S0 & Hin & Hf) Hp Hv (Hpq & Hq & Hlen & Hne). split; [|exact top_no_ub].
    destruct (run_T o esz lsz wops Hsuf Hok scripts choices Hscr sched S0 Hin) as [[_ HR] HT].
    pose proof (ti_done _ _ _ _ _ _ (HT r)) as F. rewrite Forall_forall in F. specialize (F f Hf).
    pose proof (ri_done _ _ _ (HR r)) as FR. rewrite Forall_forall in FR. specialize (FR f Hf).
    (* the address of a present key is (e, idx_of k 15) *)
    unfold present_after in Hp.
    destruct FR as [Hk _].
    destruct (find_addr _ _ a (bstate_inv esz lsz wops p Hok) Hk Hp) as (en & _ & _ & _ & Ei & _).
    destruct a as [e ix]. cbn [snd] in Ei. subst ix.
    apply (F e p q); [|exact Hlen]. repeat split; assumption.
  Qed.

  Lemma top_prefix : forall S0, In S0 tr ->
    (exists X, LF = s_log S0 ++ X) /\
    forall r l, (r_base (s_rd S0 r) <= r_view (s_rd S0 r) l)%nat /\ (r_view (s_rd S0 r) l <= length (s_log S0))%nat.
  Proof.
    intros S0 Hin. destruct (inv_of S0 Hin) as [HW HR]. split; [exact (WInv_prefix o esz lsz wops _ _ HW)|].
    intros r l. exact (ri_view _ _ _ (HR r) l).
  Qed.
End Top.
