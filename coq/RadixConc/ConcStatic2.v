(* Per-message facts of the write log of an accepted history: values are typed by their location, non-atomic
   writes are never release, and every store to _root after the constructor's is an atomic release store. *)
From Coq Require Import List NArith Arith Bool Lia ZifyBool ZifyNat ZifyN.
From FV Require Import Common.EventLog Radix.RadixModel Radix.RadixBits Radix.RadixInv Radix.RadixExec
  Radix.RadixSem Radix.RadixFind Radix.RadixSpec RadixConc.RAView RadixConc.ConcModel RadixConc.ConcProg
  RadixConc.ConcWriter RadixConc.ConcLog RadixConc.ConcStatic.
Import ListNotations.
Local Open Scope N_scope.

Definition typed (m : msg) : Prop :=
  match mloc m, mval m with
  | LRoot, VPtr _ | LLink _ _, VPtr _ | LParent _, VPtr _ => True
  | LMask _, VNum _ | LPrefix _, VNum _ | LDepth _, VNum _ => True
  | LSlot _ _, VSlot _ _ => True
  | _, _ => False
  end.
Definition P2 (m : msg) : Prop :=
  typed m /\ (mna m = true -> mrel m = false) /\ (mloc m = LRoot -> mrel m = true /\ mna m = false).

Section P2.
  Variables (o : orders) (esz lsz : N).
  Hypothesis Hsuf : orders_sufficient o = true.

  Ltac p2 := fa; unfold P2, typed; cbn [mloc mval mrel mna mk];
    (split; [exact Logic.I|]); (split; [intros E; try reflexivity; discriminate|]); intros E; try discriminate.

  Lemma c1_P2 H k v p : Forall P2 (c1_msgs o H k v p).
  Proof.
    destruct (suff o Hsuf) as (_ & _ & _ & R1 & R2 & _). destruct p; expl; p2. rewrite R2. split; reflexivity.
  Qed.
  Lemma c2_P2 H k v p si sp d : Forall P2 (c2_msgs o H k v p si sp d).
  Proof.
    destruct (suff o Hsuf) as (_ & _ & _ & _ & _ & R1 & R2 & _). destruct p; expl; p2. rewrite R2. split; reflexivity.
  Qed.
  Lemma c3_P2 e m k v : Forall P2 (c3_msgs o e m k v).
  Proof. unfold c3_msgs; p2. Qed.
  Lemma ce_P2 e m k : Forall P2 (ce_msgs o e m k).
  Proof. unfold ce_msgs; p2. Qed.

  Lemma op_P2 s w : Inv_s s -> wop_okb s w = true -> Forall P2 (op_msgs o esz lsz s w).
  Proof.
    intros I Hok. destruct (op_shape_ok esz lsz s w I Hok) as [_ Sh]. unfold op_msgs.
    destruct Sh as [e _ _ Hst Hcase|v p _ _ W Hst Hcase|v p si sn d _ W Gs Hd Hag Hdis Hab Hst Hcase
                   |v e en _ W Ge Hent Hpfx Hbit Hst Hcase|e en _ W Ge Hent Hpfx Hbit Hst Hcase]; rewrite Hst, Hcase.
    - constructor.
    - rewrite c1_msgs_ok. apply c1_P2.
    - rewrite c2_msgs_ok. apply c2_P2.
    - rewrite c3_msgs_ok. apply c3_P2.
    - rewrite ce_msgs_ok. apply ce_P2.
  Qed.

  Lemma hist_P2 ops : forall s, Inv_s s -> hist_okb esz lsz s ops = true -> Forall P2 (hist_log o esz lsz s ops).
  Proof.
    induction ops as [|w r IH]; intros s I H; cbn [hist_log hist_okb] in *; [constructor|].
    apply andb_true_iff in H. destruct H as [H1 H2]. apply Forall_app. split; [apply op_P2; assumption|].
    destruct (op_run_ok esz lsz s w I H1) as (s' & _ & E & I' & _). rewrite E in *. apply IH; assumption.
  Qed.

  (* the constructor's store is the only non-atomic write to _root *)
  Lemma full_log_root ops : hist_okb esz lsz st0 ops = true ->
    nth_error (full_log o esz lsz ops) 0 = Some (mk LRoot (VPtr None) false true) /\
    (forall j m, nth_error (full_log o esz lsz ops) j = Some m ->
       typed m /\ (mna m = true -> mrel m = false) /\
       (mloc m = LRoot -> j = 0%nat \/ (mrel m = true /\ mna m = false))).
  Proof.
    intros Hok. split; [reflexivity|]. intros j m G. unfold full_log in G.
    destruct j as [|j]; cbn in G.
    - injection G as <-. repeat split; auto.
    - pose proof (hist_P2 ops st0 Inv_s_st0 Hok) as F. rewrite Forall_forall in F.
      destruct (F m (nth_error_In _ _ G)) as (A & B & C). repeat split; auto.
  Qed.
End P2.
