From FV Require Import Common.ExtractTypes Common.EventLog Radix.RadixModel RadixConc.RAView RadixConc.ConcModel
  RadixConc.ConcLog RadixConc.ConcSkel.
From Coq Require Extraction.
From Coq Require Import ExtrOcamlBasic.
Extraction "../build/extract/radixconc_model.ml" types_witness st0 log0 nodes root wop_okb op_msgs op_next op_case
  find_sc r_done r_pc f_res lastval c09_orders orders_sufficient run_conc sys_init s_rd s_log s_w w_done.
