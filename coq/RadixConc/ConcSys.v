(* The system invariant along every trace: writer invariant + reader invariant of every reader. *)
From Coq Require Import List NArith Arith Bool Lia ZifyBool ZifyNat ZifyN.
From FV Require Import Common.EventLog Radix.RadixModel Radix.RadixBits Radix.RadixInv Radix.RadixExec
  Radix.RadixSem Radix.RadixFind Radix.RadixSpec RadixConc.RAView RadixConc.ConcModel RadixConc.ConcProg
  RadixConc.ConcWriter RadixConc.ConcLog RadixConc.ConcStatic RadixConc.ConcStatic2 RadixConc.ConcStep RadixConc.ConcReader.
Import ListNotations.
Local Open Scope nat_scope.

Lemma wstep_log o esz lsz w L : exists M, snd (wstep o esz lsz (w, L)) = L ++ M.
Proof.
  unfold wstep. destruct (w_stop w); [exists []; cbn; symmetry; apply app_nil_r|].
  destruct (w_pend w) as [|m r].
  - destruct (w_ops w); exists []; cbn; symmetry; apply app_nil_r.
  - destruct (apply_step (w_st w) m); try (exists []; cbn; symmetry; apply app_nil_r).
    destruct (pop o (w_sites w) m). eexists. cbn [snd]. reflexivity.
Qed.

Definition scripts_ok (scripts : nat -> list ritem) : Prop := forall r, Forall item_ok (scripts r).

Section Sys.
  Variables (o : orders) (esz lsz : N) (wops : list wop) (scripts : nat -> list ritem) (choices : nat -> nat).
  Hypothesis Hsuf : orders_sufficient o = true.
  Hypothesis Hok : hist_okb esz lsz st0 wops = true.
  Hypothesis Hscr : scripts_ok scripts.
  Notation LF := (full_log o esz lsz wops).

  Record SysInv (S0 : sys) : Prop := mk_SysInv {
    si_w : WInv o esz lsz wops (s_w S0) (s_log S0);
    si_r : forall r, RInv LF (s_log S0) (s_rd S0 r)
  }.

  Lemma WInv_len w L : WInv o esz lsz wops w L -> 1 <= length L.
  Proof.
    intros H. destruct (WInv_done o esz lsz wops w L H) as (M & ->). unfold blog, full_log, log0.
    rewrite !app_length. cbn [length]. lia.
  Qed.

  Lemma SysInv_init : SysInv (sys_init wops scripts).
  Proof.
    constructor; cbn [sys_init s_w s_log s_rd].
    - apply WInv_init. exact Hok.
    - intros r. constructor; cbn [r_init r_base r_view r_todo r_pc r_done log0 length];
        [lia|intros l; lia|exact (Hscr r)|exact Logic.I|constructor].
  Qed.

  Lemma SysInv_step S0 t c : SysInv S0 -> SysInv (sys_step o esz lsz S0 t c).
  Proof.
    intros [HW HR]. destruct t as [|r]; cbn [sys_step].
    - pose proof (WInv_step o esz lsz wops Hok _ _ HW) as HW'.
      destruct (wstep_log o esz lsz (s_w S0) (s_log S0)) as (M & EM).
      destruct (wstep o esz lsz (s_w S0, s_log S0)) as [w' L'] eqn:Ew. cbn [fst snd] in *. subst L'.
      constructor; cbn [s_w s_log s_rd]; [exact HW'|]. intros q. apply RInv_grow. apply HR.
    - constructor; cbn [s_w s_log s_rd]; [exact HW|]. intros q. destruct (Nat.eqb q r); [|apply HR].
      destruct (WInv_prefix o esz lsz wops _ _ HW) as (X & EX).
      eapply (rstep_inv o esz lsz wops Hsuf Hok (s_log S0) X); [exact EX|eapply WInv_len; exact HW|apply HR].
  Qed.

  Lemma SysInv_trace sched : forall S0, SysInv S0 -> Forall SysInv (trace o esz lsz choices S0 sched).
  Proof.
    induction sched as [|t r IH]; intros S0 H; cbn [trace]; constructor; auto.
    apply IH. apply SysInv_step. exact H.
  Qed.

  Lemma run_inv sched S0 : In S0 (run_conc o esz lsz wops scripts sched choices) -> SysInv S0.
  Proof.
    intros Hin. pose proof (SysInv_trace sched _ SysInv_init) as F. rewrite Forall_forall in F. exact (F S0 Hin).
  Qed.
End Sys.
