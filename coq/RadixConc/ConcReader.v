(* The reader invariant: in every reachable state of the concurrent system (any schedule, any choice of
   admissible messages) no reader is stuck in undefined behaviour, a reader that holds a node pointer has a
   view that covers the node's initialisation, and every completed find satisfies [frec_ok]. *)
From Coq Require Import List NArith Arith Bool Lia ZifyBool ZifyNat ZifyN.
From FV Require Import Common.EventLog Radix.RadixModel Radix.RadixBits Radix.RadixInv Radix.RadixExec
  Radix.RadixSem Radix.RadixFind Radix.RadixSpec RadixConc.RAView RadixConc.ConcModel RadixConc.ConcProg
  RadixConc.ConcWriter RadixConc.ConcLog RadixConc.ConcStatic RadixConc.ConcStatic2 RadixConc.ConcStep.
Import ListNotations.
Local Open Scope N_scope.

Arguments pfxP : simpl never.
Arguments idxP : simpl never.
Arguments N.testbit : simpl never.

(* the reader holds a pointer to node c: some pointer message to c is below its whole view *)
Definition Held (LF : log) (b : nat) (c : nat) : Prop :=
  exists jp mp, nth_error LF jp = Some mp /\ ptr_target mp = Some c /\ (jp < b)%nat.

(* what a completed find guarantees (C10_result_sound) *)
Definition frec_ok (LF : log) (f : frec) : Prop :=
  f_key f < K64 /\ (forall l, (f_view f l <= f_len f)%nat) /\
  match f_res f with
  | None => True
  | Some (e, ix) =>
      lastval LF (LPrefix e) = Some (VNum (pfxP (f_key f) 15)) /\ lastval LF (LDepth e) = Some (VNum 15) /\
      ix = idxP (f_key f) 15 /\
      exists tm mm mv, f_mask f = Some tm /\ nth_error LF tm = Some mm /\ mloc mm = LMask e /\ mval mm = VNum mv /\
        N.testbit mv ix = true /\
        exists tc mc v, nth_error LF tc = Some mc /\ mloc mc = LSlot e ix /\ mval mc = VSlot (f_key f) v /\
          (tc < f_view f (LSlot e ix))%nat /\ ((tc < tm)%nat \/ tc = S tm)
  end.

Definition pc_ok (LF : log) (b : nat) (pc : rpc) : Prop :=
  match pc with
  | PIdle => True
  | PHdr k c => k < K64 /\ Held LF b c
  | PMask k c ix => k < K64 /\ Held LF b c /\ lastval LF (LPrefix c) = Some (VNum (pfxP k 15)) /\
                    lastval LF (LDepth c) = Some (VNum 15) /\ ix = idxP k 15
  | PLink k c ix => k < K64 /\ Held LF b c /\ exists d, d < 15 /\ lastval LF (LDepth c) = Some (VNum d) /\
                    lastval LF (LPrefix c) = Some (VNum (pfxP k d)) /\ ix = idxP k d
  | PStuck _ => False
  end.
Definition item_ok (i : ritem) : Prop := match i with RFind k => k < K64 | RSync => True end.

Record RInv (LF Lc : log) (r : rstate) : Prop := mk_RInv {
  ri_base : (1 <= r_base r)%nat;
  ri_view : forall l, (r_base r <= r_view r l)%nat /\ (r_view r l <= length Lc)%nat;
  ri_todo : Forall item_ok (r_todo r);
  ri_pc : pc_ok LF (r_base r) (r_pc r);
  ri_done : Forall (frec_ok LF) (r_done r)
}.

Lemma Held_mono LF b b' c : Held LF b c -> (b <= b')%nat -> Held LF b' c.
Proof. intros (jp & mp & G & P & H) Hle. exists jp, mp. repeat split; auto. lia. Qed.

Lemma RInv_grow LF Lc M r : RInv LF Lc r -> RInv LF (Lc ++ M) r.
Proof.
  intros [A B C D E]. constructor; auto. intros l. destruct (B l). split; [assumption|]. rewrite app_length. lia.
Qed.

Lemma RInv_goto LF (Lc : log) r V b pc : (1 <= b)%nat -> (forall l, (b <= V l)%nat /\ (V l <= length Lc)%nat) ->
  Forall item_ok (r_todo r) -> pc_ok LF b pc -> Forall (frec_ok LF) (r_done r) -> RInv LF Lc (goto r V b pc).
Proof. intros. constructor; cbn [goto r_base r_view r_todo r_pc r_done]; assumption. Qed.

Lemma RInv_finish LF (Lc : log) r V b k res mj clk len : k < K64 -> (1 <= b)%nat -> (forall l, (b <= V l)%nat /\ (V l <= length Lc)%nat) ->
  Forall item_ok (r_todo r) -> Forall (frec_ok LF) (r_done r) -> len = length Lc ->
  match res with
  | None => True
  | Some (e, ix) =>
      lastval LF (LPrefix e) = Some (VNum (pfxP k 15)) /\ lastval LF (LDepth e) = Some (VNum 15) /\
      ix = idxP k 15 /\
      exists tm mm mv, mj = Some tm /\ nth_error LF tm = Some mm /\ mloc mm = LMask e /\ mval mm = VNum mv /\
        N.testbit mv ix = true /\
        exists tc mc v, nth_error LF tc = Some mc /\ mloc mc = LSlot e ix /\ mval mc = VSlot k v /\
          (tc < V (LSlot e ix))%nat /\ ((tc < tm)%nat \/ tc = S tm)
  end -> RInv LF Lc (finish r V b k res mj clk len).
Proof.
  intros Hk Hb HV Ht Hd -> Hres. constructor; cbn [finish r_base r_view r_todo r_pc r_done]; try assumption; [exact Logic.I|].
  constructor; [|assumption]. split; [exact Hk|]. split; [cbn [f_view f_len]; intros l; apply HV|]. exact Hres.
Qed.

Section Reader.
  Variables (o : orders) (esz lsz : N) (wops : list wop).
  Hypothesis Hsuf : orders_sufficient o = true.
  Hypothesis Hok : hist_okb esz lsz st0 wops = true.
  Notation LF := (full_log o esz lsz wops).
  Notation sF := (bstate esz lsz wops (length wops)).

  Lemma HS : Stat LF sF.
  Proof. apply Stat_full; assumption. Qed.

  Lemma prefix_nth (Lc X : log) j m : LF = Lc ++ X -> nth_error Lc j = Some m -> nth_error LF j = Some m.
  Proof. intros -> G. apply nth_app_l. exact G. Qed.
  Lemma prefix_nth_inv (Lc X : log) j m : LF = Lc ++ X -> nth_error LF j = Some m -> (j < length Lc)%nat -> nth_error Lc j = Some m.
  Proof. intros E G H. rewrite E in G. rewrite nth_error_app1 in G by exact H. exact G. Qed.

  (* a non-release write to the header or an atomic cell of a held node is below the whole view *)
  Lemma held_covers b c j m : Held LF b c -> nth_error LF j = Some m -> hdr_of m = Some c -> mrel m = false -> (j < b)%nat.
  Proof.
    intros (jp & mp & Gp & Hp & Hlt) G Hh Hr. pose proof (st_pub _ _ HS jp mp c j m Gp Hp G Hh Hr). lia.
  Qed.

  Lemma na_nonrel j m : nth_error LF j = Some m -> mna m = true -> mrel m = false.
  Proof. intros G N. destruct (full_log_root o esz lsz Hsuf wops Hok) as [_ F]. destruct (F j m G) as (_ & A & _). exact (A N). Qed.

  Lemma msg_typed j m : nth_error LF j = Some m -> typed m.
  Proof. intros G. destruct (full_log_root o esz lsz Hsuf wops Hok) as [_ F]. destruct (F j m G) as (A & _). exact A. Qed.

  (* the node a held pointer designates *)
  Lemma held_node b c : Held LF b c -> exists nd, nth_error (nodes sF) c = Some nd /\ node_ok nd /\
    lastval LF (LPrefix c) = Some (VNum (n_prefix nd)) /\ lastval LF (LDepth c) = Some (VNum (n_depth nd)).
  Proof.
    intros (jp & mp & Gp & Hp & _). pose proof (st_tgt _ _ HS jp mp c Gp Hp) as Hc.
    destruct (nth_error (nodes sF) c) as [nd|] eqn:G; [|apply nth_error_None in G; lia].
    exists nd. split; [reflexivity|]. split; [exact (inv_ok _ _ (st_inv _ _ HS) _ _ G)|].
    rewrite (c_val _ _ (st_cons _ _ HS) (LPrefix c) eq_refl), (c_val _ _ (st_cons _ _ HS) (LDepth c) eq_refl).
    cbn [heap_val]. rewrite G. split; reflexivity.
  Qed.

  Section Step.
    Variables (Lc X : log) (V : view) (b : nat).
    Hypothesis (EL : LF = Lc ++ X) (Hb1 : (1 <= b)%nat).
    Hypothesis (HV : forall l, (b <= V l)%nat /\ (V l <= length Lc)%nat).

    Lemma rna_hdr c l v : Held LF b c -> (l = LDepth c \/ l = LPrefix c) -> lastval LF l = Some v ->
      exists j m, rna Lc V l = RGot j m V /\ mval m = v.
    Proof.
      intros Hh Hl Ev. destruct (lastval_some _ _ _ Ev) as (j0 & m0 & G0 & E0 & V0 & Hmax0).
      assert (Hhdr : forall j m, nth_error LF j = Some m -> mloc m = l -> (j < b)%nat).
      { intros j m G E. apply (held_covers b c j m Hh G).
        - unfold hdr_of. rewrite E. destruct Hl as [-> | ->]; reflexivity.
        - pose proof (st_hdr _ _ HS j m G) as Hr. rewrite E in Hr. destruct Hl as [-> | ->]; exact Hr. }
      pose proof (Hhdr j0 m0 G0 E0) as Hj0. destruct (HV l) as [HV1 HV2].
      assert (G0c : nth_error Lc j0 = Some m0) by (apply (prefix_nth_inv Lc X); [exact EL|exact G0|lia]).
      unfold rna. destruct (read_na loc val loc_eqb Lc V l) as [| |j m V'] eqn:R.
      - exfalso. destruct (read_na_race _ _ _ loc_eqb_spec _ _ _ R) as (j & (m & G & E) & Hge).
        pose proof (Hhdr j m (prefix_nth Lc X j m EL G) E). lia.
      - exfalso. apply (read_na_nomsg _ _ _ loc_eqb_spec _ _ _ R j0). exists m0. auto.
      - destruct (read_na_got _ _ _ loc_eqb_spec _ _ _ _ _ _ R) as (G & E & -> & Hmax & _).
        assert (j0 <= j)%nat by (apply Hmax; exists m0; auto).
        assert (j <= j0)%nat by (apply Hmax0; exists m; split; [exact (prefix_nth Lc X j m EL G)|exact E]).
        assert (Ej : j = j0) by lia. subst j. rewrite G0c in G. injection G as <-. exists j0, m0. auto.
    Qed.

    (* an acquire load of an atomic cell of a held node *)
    Lemma ratomic_cell c l acq ch : Held LF b c -> (l = LMask c \/ exists i, l = LLink c i) -> has_na LF l ->
      exists j m, ratomic acq Lc V l ch = RGot j m (if acq && mrel m then vjoin loc V (wview j) else vbump loc loc_eqb V l (S j)) /\
        nth_error LF j = Some m /\ mloc m = l /\ (j < length Lc)%nat /\ (mrel m = false -> (j < b)%nat).
    Proof.
      intros Hh Hl (jn & mn & Gn & En & Nn).
      assert (Hcov : forall j m, nth_error LF j = Some m -> mloc m = l -> mrel m = false -> (j < b)%nat).
      { intros j m G E Hr. apply (held_covers b c j m Hh G); [|exact Hr].
        unfold hdr_of. rewrite E. destruct Hl as [-> | [i ->]]; reflexivity. }
      destruct (HV l) as [HV1 HV2].
      unfold ratomic. destruct (read_atomic loc val loc_eqb acq Lc V l ch) as [| |j m V'] eqn:R.
      - exfalso. destruct (read_atomic_race _ _ _ loc_eqb_spec _ _ _ _ _ R) as (j & m & G & E & N & Hge).
        pose proof (prefix_nth Lc X j m EL G) as GF. pose proof (Hcov j m GF E (na_nonrel j m GF N)). lia.
      - exfalso. pose proof (Hcov jn mn Gn En (na_nonrel jn mn Gn Nn)) as Hjn.
        apply (read_atomic_nomsg _ _ _ loc_eqb_spec _ _ _ _ _ R jn). exists mn. split; [|exact En].
        apply (prefix_nth_inv Lc X); [exact EL|exact Gn|lia].
      - destruct (read_atomic_got _ _ _ loc_eqb_spec _ _ _ _ _ _ _ _ R) as (G & E & _ & _ & ->).
        exists j, m. pose proof (prefix_nth Lc X j m EL G) as GF. split; [reflexivity|]. split; [exact GF|]. split; [exact E|].
        split; [apply nth_error_Some; congruence|]. intros Hr. exact (Hcov j m GF E Hr).
    Qed.

    Lemma ratomic_root acq ch :
      exists j m, ratomic acq Lc V LRoot ch = RGot j m (if acq && mrel m then vjoin loc V (wview j) else vbump loc loc_eqb V LRoot (S j)) /\
        nth_error LF j = Some m /\ mloc m = LRoot /\ (j < length Lc)%nat /\
        (forall c, mval m = VPtr (Some c) -> mrel m = true).
    Proof.
      destruct (full_log_root o esz lsz Hsuf wops Hok) as [G0 F]. destruct (HV LRoot) as [HV1 HV2].
      assert (Hlen : (0 < length Lc)%nat) by lia.
      unfold ratomic. destruct (read_atomic loc val loc_eqb acq Lc V LRoot ch) as [| |j m V'] eqn:R.
      - exfalso. destruct (read_atomic_race _ _ _ loc_eqb_spec _ _ _ _ _ R) as (j & m & G & E & N & Hge).
        destruct (F j m (prefix_nth Lc X j m EL G)) as (_ & _ & C). destruct (C E) as [->|[_ C2]]; [lia|congruence].
      - exfalso. apply (read_atomic_nomsg _ _ _ loc_eqb_spec _ _ _ _ _ R 0%nat). exists (mk LRoot (VPtr None) false true). split; [|reflexivity].
        apply (prefix_nth_inv Lc X); [exact EL|exact G0|exact Hlen].
      - destruct (read_atomic_got _ _ _ loc_eqb_spec _ _ _ _ _ _ _ _ R) as (G & E & _ & _ & ->).
        exists j, m. pose proof (prefix_nth Lc X j m EL G) as GF. split; [reflexivity|]. split; [exact GF|]. split; [exact E|].
        split; [apply nth_error_Some; congruence|]. intros c Ev.
        destruct (F j m GF) as (_ & _ & C). destruct (C E) as [->|[C1 _]]; [|exact C1].
        rewrite G0 in GF. injection GF as <-. discriminate.
    Qed.
  End Step.

  (* the view after an atomic load stays within the current log and above the (new) base *)
  Lemma view_after (Lc : log) (V : view) b acq l j (m : msg) : (forall l, (b <= V l)%nat /\ (V l <= length Lc)%nat) -> (j < length Lc)%nat ->
    forall l', (new_base acq b j m <= (if acq && mrel m then vjoin loc V (wview j) else vbump loc loc_eqb V l (S j)) l')%nat /\
               ((if acq && mrel m then vjoin loc V (wview j) else vbump loc loc_eqb V l (S j)) l' <= length Lc)%nat.
  Proof.
    intros HV Hj l'. destruct (HV l') as [A B]. unfold new_base, wview. destruct (acq && mrel m).
    - unfold vjoin. lia.
    - unfold vbump. destruct (loc_eqb l l'); lia.
  Qed.

  Lemma new_base_ge acq b j (m : msg) : (b <= new_base acq b j m)%nat.
  Proof. unfold new_base. destruct (acq && mrel m); lia. Qed.

  Lemma rstep_inv Lc X clk ch r : LF = Lc ++ X -> (1 <= length Lc)%nat -> RInv LF Lc r -> RInv LF Lc (rstep o Lc clk ch r).
  Proof.
    intros EL HLc [Hb HV Htodo Hpc Hdone].
    destruct (suff o Hsuf) as (A1 & A2 & A3 & _).
    unfold rstep. destruct (r_pc r) as [|k c|k c ix|k c ix|w] eqn:Epc; cbn [pc_ok] in Hpc.
    - (* idle: next item of the script *)
      destruct (r_todo r) as [|[k|] t] eqn:Et.
      + constructor; auto; [rewrite Et; constructor|rewrite Epc; exact Logic.I].
      + (* find k: load the root *)
        inversion Htodo as [|? ? Hk Ht]; subst.
        destruct (ratomic_root Lc X (r_view r) (r_base r) EL Hb HV (is_acq (o_f_root o)) ch) as (j & m & R & GF & El & Hj & Hrel).
        rewrite R. pose proof (msg_typed j m GF) as Ty. unfold typed in Ty. rewrite El in Ty.
        destruct (mval m) as [p| |] eqn:Ev; try contradiction.
        pose proof (view_after Lc (r_view r) (r_base r) (is_acq (o_f_root o)) LRoot j m HV Hj) as HV'.
        pose proof (new_base_ge (is_acq (o_f_root o)) (r_base r) j m) as Hbge.
        destruct p as [c|]; cbn [after_ptr].
        * apply RInv_goto; cbn [r_todo r_done]; [lia|exact HV'|exact Ht| |exact Hdone].
          cbn [pc_ok]. split; [exact Hk|]. exists j, m. split; [exact GF|]. split; [unfold ptr_target; rewrite El, Ev; reflexivity|].
          unfold new_base. rewrite A1, (Hrel c eq_refl). cbn [andb]. lia.
        * apply RInv_finish; cbn [r_todo r_done]; [exact Hk|lia|exact HV'|exact Ht|exact Hdone|reflexivity|]. exact Logic.I.
      + (* external synchronisation *)
        inversion Htodo as [|? ? _ Ht]; subst.
        constructor; cbn [r_base r_view r_todo r_pc r_done];
          [lia|intros l; destruct (HV l); unfold vjoin; lia|exact Ht|exact Logic.I|exact Hdone].
    - (* read the header of node c *)
      destruct Hpc as [Hk Hh]. destruct (held_node (r_base r) c Hh) as (nd & Gn & Okn & Lp & Ld).
      destruct (rna_hdr Lc X (r_view r) (r_base r) EL Hb HV c (LDepth c) _ Hh (or_introl eq_refl) Ld) as (jd & md & Rd & Evd).
      destruct (rna_hdr Lc X (r_view r) (r_base r) EL Hb HV c (LPrefix c) _ Hh (or_intror eq_refl) Lp) as (jx & mx & Rx & Evx).
      rewrite Rd, Rx, Evd, Evx.
      pose proof (node_ok_depth _ Okn) as Hd.
      rewrite pfx_of_ok by (try exact Hk; lia).
      destruct (negb (pfxP k (n_depth nd) =? n_prefix nd)) eqn:Epx.
      + apply RInv_finish; [exact Hk|exact Hb|exact HV|exact Htodo|exact Hdone|reflexivity|]. exact Logic.I.
      + apply negb_false_iff, N.eqb_eq in Epx. rewrite idx_of_ok by exact Hd.
        apply RInv_goto; [exact Hb|exact HV|exact Htodo| |exact Hdone].
        destruct (n_depth nd =? ll) eqn:Ed; cbn [pc_ok].
        * apply N.eqb_eq in Ed. unfold ll in Ed. rewrite Ed in *. repeat split; auto. rewrite Lp, Epx. reflexivity.
        * apply N.eqb_neq in Ed. unfold ll in Ed. split; [exact Hk|]. split; [exact Hh|]. exists (n_depth nd).
          split; [lia|]. split; [exact Ld|]. split; [rewrite Lp, Epx; reflexivity|reflexivity].
    - (* load the mask *)
      destruct Hpc as (Hk & Hh & Lp & Ld & Eix).
      assert (Hna : has_na LF (LMask c)) by (exact (st_kna _ _ HS c 15 Ld)).
      destruct (ratomic_cell Lc X (r_view r) (r_base r) EL Hb HV c (LMask c) (is_acq (o_f_mask o)) ch Hh (or_introl eq_refl) Hna)
        as (j & m & R & GF & El & Hj & Hnr).
      rewrite R. pose proof (msg_typed j m GF) as Ty. unfold typed in Ty. rewrite El in Ty.
      destruct (mval m) as [|mv|] eqn:Ev; try contradiction.
      pose proof (view_after Lc (r_view r) (r_base r) (is_acq (o_f_mask o)) (LMask c) j m HV Hj) as HV'.
      pose proof (new_base_ge (is_acq (o_f_mask o)) (r_base r) j m) as Hbge.
      apply RInv_finish; [exact Hk|lia|exact HV'|exact Htodo|exact Hdone|reflexivity|].
      destruct (N.testbit mv ix) eqn:B; [|exact Logic.I].
      split; [exact Lp|]. split; [exact Ld|]. split; [exact Eix|].
      exists j, m, mv. split; [reflexivity|]. split; [exact GF|]. split; [exact El|]. split; [exact Ev|]. split; [exact B|].
      destruct (st_mask _ _ HS j m c mv ix GF El Ev B) as (tc & mc & kk & v & Gc & Ec & Evc & D).
      destruct (st_slot _ _ HS tc mc c ix kk v Gc Ec Evc) as (Hkk & Eikk & Lpk & _).
      assert (Ekk : kk = k).
      { apply key_eq; [|congruence]. rewrite Lp in Lpk. injection Lpk as Lpk. symmetry. exact Lpk. }
      subst kk. exists tc, mc, v. split; [exact Gc|]. split; [exact Ec|]. split; [exact Evc|].
      destruct Hh as (jp & mp & Gp & Hp & Hjp).
      split.
      + (* covered by the final view *)
        destruct (HV (LSlot c ix)) as [HVs _]. rewrite A2. cbn [andb].
        destruct D as [D|[D1 D2]].
        * destruct (mrel m) eqn:Er.
          -- unfold vjoin, wview. lia.
          -- pose proof (Hnr eq_refl). pose proof (vbump_ge loc loc_eqb (r_view r) (LMask c) (S j) (LSlot c ix)). lia.
        * pose proof (D2 jp mp Gp Hp) as Hlt.
          assert (Hge : (r_view r (LSlot c ix) <= (if mrel m then vjoin loc (r_view r) (wview j) else vbump loc loc_eqb (r_view r) (LMask c) (S j)) (LSlot c ix))%nat).
          { destruct (mrel m); [unfold vjoin; lia|apply vbump_ge]. }
          lia.
      + destruct D as [D|[D1 _]]; [left; exact D|right; exact D1].
    - (* load a link *)
      destruct Hpc as (Hk & Hh & d & Hd & Ld & Lp & Eix).
      assert (Hna : has_na LF (LLink c ix)).
      { pose proof (st_kna _ _ HS c d Ld) as K. assert (E : (d =? 15) = false) by (apply N.eqb_neq; lia). rewrite E in K.
        apply K. rewrite Eix. apply idx_lt. }
      destruct (ratomic_cell Lc X (r_view r) (r_base r) EL Hb HV c (LLink c ix) (is_acq (o_f_link o)) ch Hh (or_intror (ex_intro _ ix eq_refl)) Hna)
        as (j & m & R & GF & El & Hj & Hnr).
      rewrite R. pose proof (msg_typed j m GF) as Ty. unfold typed in Ty. rewrite El in Ty.
      destruct (mval m) as [p| |] eqn:Ev; try contradiction.
      pose proof (view_after Lc (r_view r) (r_base r) (is_acq (o_f_link o)) (LLink c ix) j m HV Hj) as HV'.
      pose proof (new_base_ge (is_acq (o_f_link o)) (r_base r) j m) as Hbge.
      destruct p as [c'|]; cbn [after_ptr].
      + apply RInv_goto; [lia|exact HV'|exact Htodo| |exact Hdone].
        cbn [pc_ok]. split; [exact Hk|]. exists j, m. split; [exact GF|]. split; [unfold ptr_target; rewrite El, Ev; reflexivity|].
        unfold new_base. rewrite A3. cbn [andb]. destruct (mrel m) eqn:Er; [lia|exact (Hnr eq_refl)].
      + apply RInv_finish; [exact Hk|lia|exact HV'|exact Htodo|exact Hdone|reflexivity|]. exact Logic.I.
    - contradiction.
  Qed.
End Reader.
