(* Proofs about print_digits / print_int (PrintIntModel.v): the digit loop produces the positional
   representation, the assertion k < 64 never fires for values < 2^64, and with the default
   locale_options the whole function is a padding algebra (print_digits_spec). *)
From Coq Require Import String.
From Coq Require Import NArith ZArith List Bool Lia ZifyBool ZifyNat ZifyN.
From FV Require Import Printf.PrintIntModel Printf.IsoPrintf.
Import ListNotations.
Local Open Scope Z_scope.

(* ------------------------------------------------------------------------------------------ *)
(* the reference digit function of IsoPrintf.v                                                  *)
(* ------------------------------------------------------------------------------------------ *)

Lemma digit_char_eq : forall caps d, (d < 16)%N -> PrintIntModel.digit_char caps d = IsoPrintf.digit_char caps d.
Proof.
  intros caps d Hd. unfold PrintIntModel.digit_char, IsoPrintf.digit_char.
  destruct (N.ltb d 10) eqn:E; [reflexivity|].
  apply N.ltb_ge in E. destruct caps; lia.
Qed.

Lemma log2_div_lt : forall n radix : N, (2 <= radix)%N -> (radix <= n)%N ->
  (N.to_nat (N.log2 (n / radix)) < N.to_nat (N.log2 n))%nat.
Proof.
  intros n radix Hr Hn.
  assert (H2 : (n / radix <= n / 2)%N).
  { apply N.div_le_compat_l. lia. }
  assert (Hh : (N.log2 (n / 2) = N.pred (N.log2 n))%N).
  { rewrite <- N.div2_div. rewrite N.div2_spec. rewrite N.log2_shiftr. lia. }
  assert (Hl : (N.log2 (n / radix) <= N.log2 (n / 2))%N) by (apply N.log2_le_mono; exact H2).
  assert (Hp : (0 < N.log2 n)%N) by (apply N.log2_pos; lia).
  lia.
Qed.

Lemma digits_fuel_mono : forall radix up f f' n, (2 <= radix)%N ->
  (N.to_nat (N.log2 n) < f)%nat -> (N.to_nat (N.log2 n) < f')%nat ->
  digits_fuel f radix up n = digits_fuel f' radix up n.
Proof.
  intros radix up f. induction f as [|f IH]; intros f' n Hr H1 H2; [lia|].
  destruct f' as [|f']; [lia|]. cbn [digits_fuel].
  destruct (N.ltb n radix) eqn:E; [reflexivity|].
  apply N.ltb_ge in E.
  pose proof (log2_div_lt n radix Hr E) as Hd.
  rewrite (IH f' (n / radix)%N Hr); [reflexivity| lia | lia].
Qed.

Lemma digits_unfold : forall radix up n, (2 <= radix)%N ->
  digits radix up n =
  if N.ltb n radix then [IsoPrintf.digit_char up n]
  else digits radix up (n / radix) ++ [IsoPrintf.digit_char up (N.modulo n radix)].
Proof.
  intros radix up n Hr. unfold digits at 1. cbn [digits_fuel].
  destruct (N.ltb n radix) eqn:E; [reflexivity|].
  apply N.ltb_ge in E. pose proof (log2_div_lt n radix Hr E) as Hd.
  unfold digits. f_equal. apply digits_fuel_mono; [assumption| lia | lia].
Qed.

Lemma digits_nonempty : forall radix up n, (2 <= radix)%N -> digits radix up n <> [].
Proof.
  intros radix up n Hr. rewrite digits_unfold by assumption.
  destruct (N.ltb n radix); [discriminate|]. intro H. apply app_eq_nil in H. destruct H; discriminate.
Qed.

(* length: at most k digits for a value below 2^k *)
Lemma digits_fuel_length : forall radix up f n (k : nat), (2 <= radix)%N -> (1 <= k)%nat ->
  (n < 2 ^ N.of_nat k)%N -> (length (digits_fuel f radix up n) <= k)%nat.
Proof.
  intros radix up f. induction f as [|f IH]; intros n k Hr Hk Hn; cbn [digits_fuel]; [cbn; lia|].
  destruct (N.ltb n radix) eqn:E; [cbn; lia|].
  apply N.ltb_ge in E. rewrite app_length. cbn [length].
  destruct k as [|k]; [lia|].
  destruct k as [|k].
  { change (2 ^ N.of_nat 1)%N with 2%N in Hn. lia. }
  assert (Hq : (n / radix < 2 ^ N.of_nat (S k))%N).
  { apply N.div_lt_upper_bound; [lia|].
    replace (N.of_nat (S (S k))) with (N.succ (N.of_nat (S k))) in Hn by lia.
    rewrite N.pow_succ_r' in Hn. nia. }
  specialize (IH (n / radix)%N (S k) Hr ltac:(lia) Hq). lia.
Qed.

Lemma digits_length_64 : forall radix up n, (2 <= radix)%N -> (n < 2 ^ 64)%N ->
  (length (digits radix up n) <= 64)%nat.
Proof. intros. unfold digits. apply digits_fuel_length; [assumption | lia | exact H0]. Qed.

(* value of a digit string: the positional representation *)
Definition digit_val (c : N) : N :=
  (if N.leb 48 c && N.leb c 57 then c - 48 else if N.leb 97 c then c - 87 else c - 55)%N.
Definition digits_value (radix : N) (ds : list N) : N := fold_left (fun a c => (a * radix + digit_val c)%N) ds 0%N.

Lemma digit_val_char : forall up d, (d < 16)%N -> digit_val (IsoPrintf.digit_char up d) = d.
Proof.
  intros up d Hd. unfold digit_val, IsoPrintf.digit_char.
  destruct (N.ltb d 10) eqn:E.
  - apply N.ltb_lt in E. replace (N.leb 48 (48 + d) && N.leb (48 + d) 57) with true by lia. lia.
  - apply N.ltb_ge in E. destruct up.
    + replace (N.leb 48 (65 + (d - 10)) && N.leb (65 + (d - 10)) 57) with false by lia.
      replace (N.leb 97 (65 + (d - 10))) with false by lia. lia.
    + replace (N.leb 48 (97 + (d - 10)) && N.leb (97 + (d - 10)) 57) with false by lia.
      replace (N.leb 97 (97 + (d - 10))) with true by lia. lia.
Qed.

Lemma digits_value_app : forall radix a b c,
  fold_left (fun a c => (a * radix + digit_val c)%N) (a ++ [b]) c
  = (fold_left (fun a c => (a * radix + digit_val c)%N) a c * radix + digit_val b)%N.
Proof. intros. rewrite fold_left_app. reflexivity. Qed.

(* the reference function really is the positional representation *)
Lemma digits_value_digits : forall radix up n, (2 <= radix)%N -> (radix <= 16)%N ->
  digits_value radix (digits radix up n) = n.
Proof.
  intros radix up n Hr Hr'. unfold digits_value.
  induction n as [n IH] using (well_founded_induction N.lt_wf_0).
  rewrite digits_unfold by assumption.
  destruct (N.ltb n radix) eqn:E.
  - apply N.ltb_lt in E. cbn [fold_left]. rewrite digit_val_char by lia. lia.
  - apply N.ltb_ge in E. rewrite digits_value_app.
    rewrite IH by (apply N.div_lt; lia).
    rewrite digit_val_char by (pose proof (N.mod_lt n radix); lia).
    pose proof (N.div_mod n radix). lia.
Qed.

Lemma digits_head_nonzero : forall radix up n, (2 <= radix)%N -> (radix <= 16)%N -> (n <> 0)%N ->
  exists c r, digits radix up n = c :: r /\ c <> 48%N.
Proof.
  intros radix up n Hr Hr'.
  induction n as [n IH] using (well_founded_induction N.lt_wf_0). intro Hn.
  rewrite digits_unfold by assumption.
  destruct (N.ltb n radix) eqn:E.
  - apply N.ltb_lt in E. eexists; eexists; split; [reflexivity|].
    unfold IsoPrintf.digit_char. destruct (N.ltb n 10) eqn:E2; [lia|]. destruct up; lia.
  - apply N.ltb_ge in E.
    destruct (IH (n / radix)%N) as [c [r [Hd Hc]]].
    + apply N.div_lt; lia.
    + intro H0. apply N.div_small_iff in H0; lia.
    + rewrite Hd. eexists; eexists; split; [reflexivity | exact Hc].
Qed.

Lemma digits_zero : forall radix up, (2 <= radix)%N -> digits radix up 0 = [48%N].
Proof. intros. rewrite digits_unfold by assumption. replace (N.ltb 0 radix) with true by lia. reflexivity. Qed.

(* ------------------------------------------------------------------------------------------ *)
(* the grouping counters with the default locale                                                *)
(* ------------------------------------------------------------------------------------------ *)

Definition gs_ok (s : gstate) : Prop := gs_g s = 0 /\ gs_r s = 0 /\ gs_extra s = 0 /\ 0 <= gs_c s.
Definition gs_add (gt : bool) (n : Z) (s : gstate) : gstate :=
  if gt then mk_gs (gs_c s + n) (gs_g s) (gs_r s) (gs_extra s) else s.

Lemma gs_add_0 : forall gt s, gs_add gt 0 s = s.
Proof. intros gt [c g r e]; unfold gs_add; destruct gt; cbn; [f_equal; lia | reflexivity]. Qed.
Lemma gs_add_add : forall gt a b s, gs_add gt a (gs_add gt b s) = gs_add gt (b + a) s.
Proof. intros gt a b [c g r e]; unfold gs_add; destruct gt; cbn; [f_equal; lia | reflexivity]. Qed.
Lemma gs_add_ok : forall gt n s, 0 <= n -> gs_ok s -> gs_ok (gs_add gt n s).
Proof. intros gt n [c g r e] Hn [H1 [H2 [H3 H4]]]; unfold gs_add, gs_ok in *; destruct gt; cbn in *; lia. Qed.

Lemma step_grouping_default : forall gt s, gs_ok s ->
  step_grouping gt default_locale s = Ok (gs_add gt 1 s).
Proof.
  intros gt [c g r e] [H1 [H2 [H3 H4]]]. cbn in *. subst.
  unfold step_grouping, gs_add. destruct gt; cbn [negb]; [|reflexivity].
  cbn [gs_c gs_g gs_r gs_extra]. unfold read_grouping, default_locale. cbn [loc_grouping length bind].
  change (0 <? 0) with false. change (0 <? Z.of_nat 1) with true. cbn [nth Z.to_nat bind].
  replace (c + 1 =? -83) with false by lia. reflexivity.
Qed.

Lemma step_grouping_n_default : forall n gt s, gs_ok s ->
  step_grouping_n n gt default_locale s = Ok (gs_add gt (Z.of_nat n) s).
Proof.
  induction n as [|n IH]; intros gt s Hs.
  - cbn. rewrite gs_add_0. reflexivity.
  - cbn [step_grouping_n]. rewrite step_grouping_default by assumption. cbn [bind].
    rewrite IH by (apply gs_add_ok; [lia | assumption]).
    rewrite gs_add_add. f_equal. f_equal. lia.
Qed.

(* the do-while loop *)
Lemma digits_loop_spec : forall fuel number radix caps gt buf k s,
  (2 <= radix)%N -> (radix <= 16)%N -> gs_ok s -> 0 <= k ->
  k + Z.of_nat (length (digits radix caps number)) <= 64 ->
  (length (digits radix caps number) <= fuel)%nat ->
  digits_loop fuel number radix caps gt default_locale buf k s
  = Ok (digits radix caps number ++ buf, k + Z.of_nat (length (digits radix caps number)),
        gs_add gt (Z.of_nat (length (digits radix caps number))) s).
Proof.
  induction fuel as [|fuel IH]; intros number radix caps gt buf k s Hr Hr' Hs Hk Hlen Hf.
  - pose proof (digits_nonempty radix caps number Hr). destruct (digits radix caps number); [congruence | cbn in Hf; lia].
  - cbn [digits_loop].
    pose proof (digits_nonempty radix caps number Hr) as Hne.
    assert (Hk64 : (k <? 64) = true).
    { destruct (digits radix caps number); [congruence | cbn [length] in Hlen; lia]. }
    rewrite Hk64. cbn [negb].
    rewrite step_grouping_default by assumption. cbn [bind].
    rewrite (digits_unfold radix caps number Hr) in *.
    destruct (N.ltb number radix) eqn:E.
    + apply N.ltb_lt in E. rewrite N.div_small by assumption. cbn [N.eqb].
      rewrite N.mod_small by assumption. rewrite digit_char_eq by lia. cbn [length app]. reflexivity.
    + apply N.ltb_ge in E.
      assert (Hq : (number / radix)%N <> 0%N) by (intro H0; apply N.div_small_iff in H0; lia).
      apply N.eqb_neq in Hq. rewrite Hq.
      rewrite app_length in Hlen, Hf. cbn [length] in Hlen, Hf.
      rewrite IH; try assumption; try lia.
      * rewrite digit_char_eq by (pose proof (N.mod_lt number radix); lia).
        rewrite <- app_assoc. cbn [app]. rewrite app_length. cbn [length].
        rewrite gs_add_add. f_equal. f_equal; [f_equal; lia | f_equal; lia].
      * apply gs_add_ok; [lia | assumption].
Qed.

(* the emission loops: with the default locale no separator is ever written *)
Lemma emit_chars_default : forall cs gt s acc,
  (gt = false \/ cs = [] \/ (gs_g s = 0 /\ gs_r s = 0 /\ Z.of_nat (length cs) <= gs_c s)) ->
  exists s', emit_chars cs gt default_locale s acc = Ok (s', acc ++ cs).
Proof.
  induction cs as [|ch r IH]; intros gt s acc H.
  - cbn. rewrite app_nil_r. eexists; reflexivity.
  - cbn [emit_chars]. unfold emit_grouping.
    destruct gt; cbn [negb].
    + destruct H as [H | [H | [Hg [Hr Hc]]]]; [discriminate | discriminate |].
      destruct (gs_c s - 1 =? 0) eqn:E.
      * rewrite Hr. change (0 =? 0) with true. cbn [andb]. rewrite Hg. change (0 >? 0) with false. cbn [andb].
        unfold read_grouping, default_locale. cbn [loc_grouping length loc_sep bind fst snd].
        change (0 <? 0) with false. change (0 <? Z.of_nat 1) with true. cbn [bind fst snd].
        assert (r = []) by (destruct r; [reflexivity | cbn [length] in Hc; lia]). subst r.
        cbn [emit_chars]. rewrite app_nil_r. eexists; reflexivity.
      * cbn [bind fst snd]. rewrite app_nil_r.
        destruct (IH true (mk_gs (gs_c s - 1) (gs_g s) (gs_r s) (gs_extra s)) (acc ++ [ch])) as [s' Hs'].
        { right. right. cbn [gs_g gs_r gs_c]. cbn [length] in Hc. lia. }
        rewrite Hs'. rewrite <- app_assoc. eexists; reflexivity.
    + cbn [bind fst snd]. rewrite app_nil_r.
      destruct (IH false s (acc ++ [ch])) as [s' Hs']; [left; reflexivity|].
      rewrite Hs'. rewrite <- app_assoc. eexists; reflexivity.
Qed.

(* ------------------------------------------------------------------------------------------ *)
(* print_digits as a padding algebra                                                            *)
(* ------------------------------------------------------------------------------------------ *)

Definition zlen (l : list N) : Z := Z.of_nat (length l).
Definition sign_chars (negative asign pspace : bool) : list N :=
  if negative then [45%N] else if asign then [43%N] else if pspace then [32%N] else [].

(* what print_digits appends to the sink *)
Definition print_digits_result (number : N) (negative : bool) (radix : N) (width prec : Z) (padding : byte)
           (lj asign pspace caps : bool) (prefix : list byte) : list byte :=
  let ds := if N.eqb number 0 && (prec =? 0) then [] else digits radix caps number in
  let body := repeat 48%N (Z.to_nat (prec - zlen ds)) ++ ds in
  let sign := sign_chars negative asign pspace ++ prefix in
  let fill := width - (zlen sign + zlen body) in
  if lj then sign ++ body ++ repeat 32%N (Z.to_nat fill)
  else if N.eqb padding 48 then sign ++ repeat 48%N (Z.to_nat fill) ++ body
  else repeat padding (Z.to_nat fill) ++ sign ++ body.

Lemma repeat_neg : forall (A : Type) (x : A) z, z <= 0 -> repeat x (Z.to_nat z) = [].
Proof. intros. replace (Z.to_nat z) with O by lia. reflexivity. Qed.

Theorem print_digits_spec : forall number negative radix width prec padding lj gt asign pspace caps prefix,
  (2 <= radix)%N -> (radix <= 16)%N -> (number < 2 ^ 64)%N ->
  print_digits number negative radix width prec padding lj gt asign pspace caps default_locale prefix
  = Ok (print_digits_result number negative radix width prec padding lj asign pspace caps prefix).
Proof.
  intros number negative radix width prec padding lj gt asign pspace caps prefix Hr Hr' Hn.
  unfold print_digits, print_digits_result.
  pose proof (digits_length_64 radix caps number Hr Hn) as H64.
  pose proof (digits_nonempty radix caps number Hr) as Hne.
  set (ds := if N.eqb number 0 && (prec =? 0) then [] else digits radix caps number).
  (* phase 1: the digit loop *)
  assert (H1 : (if negb (N.eqb number 0) || negb (prec =? 0)
                then digits_loop 65 number radix caps gt default_locale [] 0 gs0
                else Ok ([], 0, gs0))
               = Ok (ds, zlen ds, gs_add gt (zlen ds) gs0)).
  { subst ds. destruct (N.eqb number 0 && (prec =? 0)) eqn:E.
    - replace (negb (N.eqb number 0) || negb (prec =? 0)) with false by (destruct (N.eqb number 0), (prec =? 0); cbn [andb orb negb] in *; congruence).
      rewrite gs_add_0. reflexivity.
    - replace (negb (N.eqb number 0) || negb (prec =? 0)) with true by (destruct (N.eqb number 0), (prec =? 0); cbn [andb orb negb] in *; congruence).
      rewrite digits_loop_spec; try assumption; try lia.
      + rewrite app_nil_r. reflexivity.
      + unfold gs_ok, gs0; cbn; lia. }
  rewrite H1. cbn [bind].
  assert (Hok : gs_ok (gs_add gt (zlen ds) gs0)).
  { apply gs_add_ok; [unfold zlen; lia | unfold gs_ok, gs0; cbn; lia]. }
  (* phase 2: precision steps *)
  assert (H2 : (if zlen ds <? prec
                then step_grouping_n (Z.to_nat (prec - zlen ds)) gt default_locale (gs_add gt (zlen ds) gs0)
                else Ok (gs_add gt (zlen ds) gs0))
               = Ok (gs_add gt (Z.max (zlen ds) prec) gs0)).
  { destruct (zlen ds <? prec) eqn:E.
    - rewrite step_grouping_n_default by assumption. rewrite gs_add_add. f_equal. f_equal. lia.
    - f_equal. f_equal. lia. }
  rewrite H2. cbn [bind].
  set (s2 := gs_add gt (Z.max (zlen ds) prec) gs0).
  assert (Hok2 : gs_ok s2) by (apply gs_add_ok; [unfold zlen; lia | unfold gs_ok, gs0; cbn; lia]).
  (* phase 3: if (!c) c = grouping[g] *)
  assert (H3 : exists s3, (if gs_c s2 =? 0
                then c' <- read_grouping default_locale (gs_g s2) ;; Ok (mk_gs c' (gs_g s2) (gs_r s2) (gs_extra s2))
                else Ok s2) = Ok s3 /\ gs_extra s3 = 0 /\
                (Z.max (zlen ds) prec <= 0 \/ (gs_g s3 = 0 /\ gs_r s3 = 0 /\ (gt = true -> Z.max (zlen ds) prec <= gs_c s3) /\ (gt = true -> gs_c s2 <> 0)))).
  { destruct Hok2 as [Hg [Hr2 [He Hc]]].
    destruct (gs_c s2 =? 0) eqn:E.
    - rewrite Hg. unfold read_grouping, default_locale. cbn [loc_grouping length bind].
      change (0 <? 0) with false. change (0 <? Z.of_nat 1) with true. cbn [bind nth Z.to_nat].
      eexists; split; [reflexivity|]. cbn [gs_extra gs_g gs_r gs_c]. split; [assumption|].
      subst s2. unfold gs_add, gs0 in *. destruct gt; cbn [gs_c gs_g gs_r gs_extra] in *.
      + left. lia.
      + right. repeat split; try assumption; intros; congruence.
    - eexists; split; [reflexivity|]. split; [assumption|]. right. repeat split; try assumption.
      + intros ->. subst s2. unfold gs_add, gs0. cbn. lia.
      + intros _. lia. }
  destruct H3 as [s3 [H3 [He3 Hc3]]]. rewrite H3. cbn [bind]. rewrite He3.
  (* phase 4: emission *)
  set (zs := if zlen ds <? prec then repeat 48%N (Z.to_nat (prec - zlen ds)) else []).
  assert (Hzs : zs = repeat 48%N (Z.to_nat (prec - zlen ds))).
  { subst zs. destruct (zlen ds <? prec) eqn:E; [reflexivity|]. rewrite repeat_neg by lia. reflexivity. }
  destruct (emit_chars_default (zs ++ ds) gt s3 []) as [s4 H4].
  { destruct gt; [|left; reflexivity]. right.
    destruct Hc3 as [Hz | [Hg [Hr3 [Hc _]]]].
    - left. assert (ds = []) by (destruct ds; [reflexivity | unfold zlen in Hz; cbn [length] in Hz; lia]).
      subst zs. rewrite H. replace (zlen [] <? prec) with false by (unfold zlen in *; cbn [length] in *; lia). reflexivity.
    - right. repeat split; try assumption. specialize (Hc eq_refl).
      rewrite app_length, Hzs, repeat_length. unfold zlen in *. lia. }
  rewrite H4. cbn [bind snd app].
  (* phase 5: assembling the field *)
  f_equal.
  assert (Hsl : zlen (sign_chars negative asign pspace ++ prefix)
                = (if negative || asign || pspace then 1 else 0) + Z.of_nat (length prefix)).
  { unfold zlen, sign_chars. rewrite app_length. destruct negative, asign, pspace; cbn [orb length]; rewrite Nat2Z.inj_add; reflexivity. }
  assert (Hbl : zlen (repeat 48%N (Z.to_nat (prec - zlen ds)) ++ ds) = Z.max (zlen ds) prec).
  { unfold zlen. rewrite app_length, repeat_length. lia. }
  rewrite Hsl, Hbl.
  set (fw := Z.max (zlen ds) prec + 0 + (if negative || asign || pspace then 1 else 0) + Z.of_nat (length prefix)).
  replace (width - ((if negative || asign || pspace then 1 else 0) + Z.of_nat (length prefix) + Z.max (zlen ds) prec))
    with (width - fw) by (subst fw; lia).
  fold (sign_chars negative asign pspace).
  rewrite Hzs.
  destruct lj; cbn [negb andb].
  - destruct (fw <? width) eqn:E.
    + destruct (N.eqb padding 48); rewrite ?app_nil_r, <- ?app_assoc; reflexivity.
    + rewrite (repeat_neg _ 32%N) by lia.
      destruct (N.eqb padding 48); rewrite ?app_nil_r, <- ?app_assoc; reflexivity.
  - destruct (fw <? width) eqn:E.
    + destruct (N.eqb padding 48) eqn:Ep.
      * apply N.eqb_eq in Ep. subst padding. rewrite app_nil_r, <- !app_assoc. reflexivity.
      * rewrite app_nil_r, <- !app_assoc. reflexivity.
    + rewrite (repeat_neg _ padding (width - fw)) by lia.
      rewrite (repeat_neg _ 48%N (width - fw)) by lia.
      destruct (N.eqb padding 48); rewrite ?app_nil_r, <- ?app_assoc; reflexivity.
Qed.

(* ------------------------------------------------------------------------------------------ *)
(* print_int: the ~x + 1 trick                                                                  *)
(* ------------------------------------------------------------------------------------------ *)

Lemma twos_abs_spec : forall tbits z, (1 <= tbits)%N -> - 2 ^ (Z.of_N tbits - 1) <= z < 0 ->
  twos_abs tbits z = Z.to_N (- z).
Proof.
  intros tbits z Hb Hz. unfold twos_abs.
  assert (Hp : 2 ^ Z.of_N tbits = 2 * 2 ^ (Z.of_N tbits - 1)).
  { rewrite <- Z.pow_succ_r by lia. f_equal. lia. }
  assert (Hpos : 0 < 2 ^ (Z.of_N tbits - 1)) by (apply Z.pow_pos_nonneg; lia).
  assert (Hm : z mod 2 ^ Z.of_N tbits = z + 2 ^ Z.of_N tbits).
  { symmetry. apply Z.mod_unique with (q := -1); lia. }
  rewrite Hm.
  set (u := Z.to_N (z + 2 ^ Z.of_N tbits)).
  assert (Hu : (u < 2 ^ tbits)%N).
  { subst u. apply N2Z.inj_lt. rewrite Z2N.id by lia. rewrite N2Z.inj_pow. change (Z.of_N 2) with 2. lia. }
  assert (Hu0 : (0 < u)%N) by (subst u; lia).
  assert (Hlog : (N.log2 u < tbits)%N) by (apply N.log2_lt_pow2; assumption).
  change (N.lxor u (N.ones tbits)) with (N.lnot u tbits).
  rewrite N.lnot_sub_low by assumption. rewrite N.ones_equiv.
  assert (Hpn : (0 < 2 ^ tbits)%N) by (apply N.neq_0_lt_0, N.pow_nonzero; lia).
  replace (N.pred (2 ^ tbits) - u + 1)%N with (2 ^ tbits - u)%N by lia.
  rewrite N.mod_small by lia.
  apply N2Z.inj. rewrite N2Z.inj_sub by lia. rewrite N2Z.inj_pow. change (Z.of_N 2) with 2.
  subst u. rewrite !Z2N.id by lia. lia.
Qed.

(* print_int of a T-typed value (T = int, long, long long or their unsigned variants) *)
Theorem print_int_spec : forall tbits number radix width prec padding lj gt asign pspace caps prefix,
  (2 <= radix)%N -> (radix <= 16)%N -> (1 <= tbits)%N -> (tbits <= 64)%N ->
  - 2 ^ (Z.of_N tbits - 1) <= number < 2 ^ 64 ->
  print_int tbits number radix width prec padding lj gt asign pspace caps default_locale prefix
  = Ok (print_digits_result (Z.to_N (Z.abs number)) (number <? 0) radix width prec padding lj asign pspace caps prefix).
Proof.
  intros tbits number radix width prec padding lj gt asign pspace caps prefix Hr Hr' Hb Hb' Hn.
  unfold print_int. destruct (number <? 0) eqn:E.
  - rewrite twos_abs_spec by lia. rewrite print_digits_spec; try assumption.
    + f_equal. f_equal. lia.
    + assert (2 ^ (Z.of_N tbits - 1) <= 2 ^ 63) by (apply Z.pow_le_mono_r; lia).
      apply N2Z.inj_lt. rewrite Z2N.id by lia. change (Z.of_N (2 ^ 64)) with (2 ^ 64). lia.
  - rewrite print_digits_spec; try assumption.
    + f_equal. f_equal. lia.
    + apply N2Z.inj_lt. rewrite Z2N.id by lia. change (Z.of_N (2 ^ 64)) with (2 ^ 64). lia.
Qed.
