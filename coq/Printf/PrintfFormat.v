(* C19 for whole format strings: a concatenation of literal text (no '%', no NUL) and directives of
   the grammar without n$ (and %%) prints the literal pieces and iso_printf of every directive, in
   order.  The single-directive machinery of PrintfStageA/B is replayed "in context": the format is
   pre ++ render d ++ post and parsing starts at length pre. *)
From Coq Require Import String.
From Coq Require Import NArith ZArith Znumtheory List Bool Lia ZifyBool ZifyNat ZifyN.
From FV Require Import Printf.PrintIntModel Printf.IsoPrintf Printf.PrintIntProofs Printf.PrintfModel
  Printf.PrintfParse Printf.PrintfConform Printf.PrintfSafety Printf.PrintfStageA Printf.PrintfStageB
  Printf.PrintfConformProofs Printf.PrintfConformGen.
Import ListNotations.
Local Open Scope Z_scope.

(* ---- pieces of Stage A that needed the end of the string, now with a suffix *)
Lemma parse_size_mod_eval_post : forall s pos (l : lenmod) (pre : list byte) (cv : byte) (post : list byte) st,
  s = pre ++ len_chars l ++ cv :: post -> pos = length pre -> is_conv_char cv ->
  parse_size_mod s pos st = (st, Ok ((pos + length (len_chars l))%nat, szmod_of l)).
Proof.
  intros s pos l pre cv post st Hs Hp Hcv. subst s pos.
  assert (Hcv' : N.eqb cv 108 = false /\ N.eqb cv 122 = false /\ N.eqb cv 76 = false /\ N.eqb cv 104 = false
                 /\ N.eqb cv 116 = false /\ N.eqb cv 106 = false /\ cv <> 0%N).
  { unfold is_conv_char in Hcv. repeat split; try apply N.eqb_neq; lia. }
  destruct Hcv' as [E1 [E2 [E3 [E4 [E5 [E6 Hcv0]]]]]].
  destruct l; cbn [len_chars app length szmod_of]; unfold parse_size_mod;
  repeat first
   [ mstep ltac:(apply read_app0); cbn [nth]
   | mstep ltac:(apply read_app; cbn [length]; lia); cbn [nth]
   | mstep ltac:(apply assert_nz_app; [cbn [length]; lia | cbn [nth]; first [discriminate | exact Hcv0]]); cbn [nth]
   | rewrite E1 | rewrite E2 | rewrite E3 | rewrite E4 | rewrite E5 | rewrite E6
   | progress cbn [N.eqb Pos.eqb] ];
  unfold ret; rewrite ?Nat.add_0_r; reflexivity.
Qed.

Lemma nth0_app_nonempty : forall (a post : list byte) c r, a = c :: r -> nth 0 (a ++ post) 0%N = c.
Proof. intros a post c r ->. reflexivity. Qed.

Lemma width_tail_cons_ctx : forall d, d_conv d <> Cpct -> width_ok d = true ->
  exists c r, width_chars d ++ prec_chars d ++ tail3 d = c :: r /\ not_flag c /\ c <> 0%N /\ c <> 36%N /\ c <> 37%N
              /\ (is_digit c = true -> forall post, nth 0 (r ++ post) 0%N <> 36%N).
Proof.
  intros d Hc Hw. destruct (prec_tail_cons (fun _ _ _ => ret tt) d Hc) as [c2 [r2 [H2 [Hd2 [H42 [H37 [Hnz [Hnf Hr]]]]]]]].
  unfold width_chars, width_ok in *. destruct (d_width d) eqn:Ew; cbn [app]; rewrite H2.
  - exists c2, r2. split; [reflexivity|]. split; [assumption|]. split; [apply Hnz|]. split; [apply Hnz|]. split; [assumption|].
    intros Hd. congruence.
  - destruct (dec_digits_spec n) as [Hds [_ [c [r [Hcr Hc48]]]]]. rewrite Hcr. cbn [app].
    assert (Hcd : is_digit c = true) by (rewrite Hcr in Hds; inversion Hds; assumption).
    assert (Hn0 : n <> 0%N) by lia. specialize (Hc48 Hn0).
    exists c, (r ++ c2 :: r2). split; [reflexivity|].
    unfold is_digit in Hcd. unfold not_flag. repeat split; try lia.
    intros _ post.
    pose proof (dec_digits_nz36 n) as Hall. rewrite Hcr in Hall. inversion Hall as [|? ? _ Hrall]; subst.
    destruct r as [|c' r'].
    + cbn [app nth]. apply Hnz.
    + cbn [app nth]. inversion Hrall; subst. apply H1.
  - exists 42%N, (c2 :: r2). unfold not_flag. repeat split; try discriminate.
Qed.

Section InContext.
Variable ag : byte -> format_options -> printf_size_mod -> M unit.

Theorem parse_directive_ctx : forall d v (pre0 post : list byte) s out rest pops cache na st2,
  s = pre0 ++ render d ++ post ->
  d_pos d = None -> d_conv d <> Cpct -> width_ok d = true -> prec_ok d = true ->
  (match d_width d with WStar => in_int_range (a_width v) && negb (a_width v =? -2147483648) | _ => true end) = true ->
  (match d_prec d with PStar => in_int_range (a_prec v) | _ => true end) = true ->
  ag (conv_char (d_conv d)) (opts_of d v) (szmod_of (d_len d))
     (mk_ps out (mk_vs rest (pops ++ star_pops d) cache na)) = (st2, Ok tt) ->
  parse_directive s ag (length pre0 + 1) false (mk_ps out (mk_vs (star_slots d v ++ rest) pops cache na))
  = (st2, Ok ((length pre0 + length (render d))%nat, false)).
Proof.
  intros d v pre0 post s out rest pops cache na st2 Hs0 Hpos Hconv Hwok Hpok Hwfit Hpfit Hag.
  pose proof (render_shape d Hpos Hconv) as Hr.
  destruct (width_tail_cons_ctx d Hconv Hwok) as [c1 [r1 [H1 [Hnf1 [Hc10 [Hc136 [Hc137 Hd1]]]]]]].
  destruct (prec_tail_cons ag d Hconv) as [c2 [r2 [H2 [Hd2 [H242 [H237 [Hnz2 [Hnf2 Hr2]]]]]]]].
  destruct (tail3_cons d Hconv) as [c3 [r3 [H3 [Hpl3 Hr3]]]].
  set (F := map flag_char (d_flags d)) in *.
  assert (HF : length F = length (d_flags d)) by (subst F; apply map_length).
  assert (Hs : s = (pre0 ++ [37%N]) ++ F ++ width_chars d ++ prec_chars d ++ tail3 d ++ post).
  { rewrite Hs0, Hr. rewrite <- !app_assoc. reflexivity. }
  assert (Hrl : length (render d) = (1 + length F + length (width_chars d) + length (prec_chars d) + length (tail3 d))%nat).
  { rewrite Hr. rewrite !app_length. cbn [length]. lia. }
  assert (Hlen : length s = (length pre0 + length (render d) + length post)%nat).
  { rewrite Hs0. rewrite !app_length. lia. }
  assert (Hl3 : length (tail3 d) = (length (len_chars (d_len d)) + 1)%nat) by (unfold tail3; rewrite app_length; reflexivity).
  clear Hs0 Hr.
  assert (E1 : width_chars d ++ prec_chars d ++ tail3 d ++ post = c1 :: (r1 ++ post)).
  { transitivity ((width_chars d ++ prec_chars d ++ tail3 d) ++ post); [rewrite <- !app_assoc; reflexivity | rewrite H1; reflexivity]. }
  unfold parse_directive.
  mstep ltac:(apply (flags_loop_eval' s (length pre0 + 1)%nat (d_flags d) (pre0 ++ [37%N]) c1 (r1 ++ post));
              [rewrite Hs; rewrite E1; reflexivity
              | rewrite app_length; reflexivity | assumption | assumption | assumption
              | intros Hd; apply Hd1; assumption | lia]).
  cbv beta iota.
  set (o1 := apply_flags (d_flags d) (set_dollar false default_options)).
  assert (Ho1 : arg_pos o1 = -1) by (subst o1; rewrite apply_flags_arg_pos; reflexivity).
  unfold star_slots. rewrite <- app_assoc.
  rewrite (width_phase_k ag _ _ s _ d v ((pre0 ++ [37%N]) ++ F) ((prec_chars d ++ tail3 d) ++ post) c2 (r2 ++ post));
    [ | rewrite Hs; rewrite <- !app_assoc; reflexivity
      | rewrite !app_length; rewrite HF; cbn [length]; lia
      | assumption | assumption | intros _; assumption | rewrite H2; reflexivity | assumption | assumption | assumption | lia].
  cbv beta iota.
  set (o2 := width_opts d v o1).
  assert (Ho2 : arg_pos o2 = -1) by (subst o2; rewrite width_opts_arg_pos; assumption).
  rewrite (prec_phase_k ag _ _ s _ d v (((pre0 ++ [37%N]) ++ F) ++ width_chars d) (tail3 d ++ post) c3 (r3 ++ post));
    [ | rewrite Hs; rewrite <- !app_assoc; reflexivity
      | rewrite !app_length; rewrite HF; cbn [length]; lia
      | assumption | assumption | intros _; assumption | rewrite H3; reflexivity | assumption | lia].
  cbv beta iota.
  mstep ltac:(apply (parse_size_mod_eval_post s _ (d_len d) ((((pre0 ++ [37%N]) ++ F) ++ width_chars d) ++ prec_chars d)
                       (conv_char (d_conv d)) post);
              [rewrite Hs; unfold tail3; rewrite <- !app_assoc; reflexivity
              | rewrite !app_length; rewrite HF; cbn [length]; lia
              | apply conv_char_is; assumption]).
  cbv beta iota.
  assert (Hrd : forall st, read s (length pre0 + 1 + length (d_flags d) + length (width_chars d) + length (prec_chars d) + length (len_chars (d_len d))) st
                           = (st, Ok (conv_char (d_conv d)))).
  { intros st. rewrite Hs. unfold tail3.
    replace ((pre0 ++ [37%N]) ++ F ++ width_chars d ++ prec_chars d ++ (len_chars (d_len d) ++ [conv_char (d_conv d)]) ++ post)
      with (((pre0 ++ [37%N]) ++ F ++ width_chars d ++ prec_chars d ++ len_chars (d_len d)) ++ conv_char (d_conv d) :: post)
      by (rewrite <- !app_assoc; reflexivity).
    replace (length pre0 + 1 + length (d_flags d) + length (width_chars d) + length (prec_chars d) + length (len_chars (d_len d)))%nat
      with (length ((pre0 ++ [37%N]) ++ F ++ width_chars d ++ prec_chars d ++ len_chars (d_len d)))
      by (rewrite !app_length; rewrite HF; cbn [length]; lia).
    apply read_app0. }
  mstep ltac:(apply Hrd).
  rewrite <- app_assoc. fold (star_pops d).
  mstep ltac:(exact Hag).
  unfold ret. f_equal. f_equal. f_equal. lia.
Qed.

End InContext.

(* ---- %s with the string anywhere in memory *)
Lemma agent_str_mem : forall mem addr d v out rest pops cache na,
  d_conv d = Cs -> in_grammar d = true -> fits d v = true ->
  addr <> 0%N -> (addr < 2 ^ 64)%N -> mem_lookup mem addr = Some (a_str v) ->
  agent mem 115%N (opts_of d v) (szmod_of (d_len d))
        (mk_ps out (mk_vs (addr :: rest) pops cache na))
  = (mk_ps (out ++ iso_printf d v) (mk_vs rest (pops ++ [ATPtr]) cache na), Ok tt).
Proof.
  intros mem addr d v out rest pops cache na Ec Hgr Hfit Ha0 Ha64 Hmem.
  destruct (opts_of_fields d v) as [F1 [F2 [F3 [F4 [F5 [F6 [F7 [F8 F9]]]]]]]].
  unfold in_grammar in Hgr. rewrite Ec in Hgr.
  apply andb_true_iff in Hgr. destruct Hgr as [Hgr Hlen].
  apply andb_true_iff in Hgr. destruct Hgr as [Hgr Hfl].
  assert (Hl : d_len d = LNone) by (destruct (d_len d); try discriminate; reflexivity).
  unfold fits in Hfit. rewrite Ec in Hfit.
  apply andb_true_iff in Hfit. destruct Hfit as [_ Hstr].
  apply andb_true_iff in Hstr. destruct Hstr as [Hnul Hbytes].
  assert (Hptr : interp t_ptr addr = Z.of_N addr).
  { unfold interp, t_ptr. cbn [ct_bits ct_signed andb]. rewrite N.mod_small by assumption. reflexivity. }
  assert (Hnz : (Z.of_N addr =? 0) = false) by (clear - Ha0; lia).
  unfold agent. cbn [N.eqb Pos.eqb orb]. unfold do_printf_chars. cbn [N.eqb Pos.eqb].
  rewrite F5, F4. rewrite (only_minus_flags d FZero Hfl) by discriminate.
  rewrite (only_minus_flags d FHash Hfl) by discriminate. cbn [negb massert].
  mstep ltac:(reflexivity). mstep ltac:(reflexivity).
  rewrite Hl. cbn [szmod_of szmod_eqb].
  unfold printf_string.
  mstep ltac:(apply pop_va_eval; assumption).
  rewrite Hptr, Hnz. rewrite N2Z.id. rewrite Hmem.
  mstep ltac:(reflexivity).
  rewrite F8.
  set (lim := match eff_prec d v with Some p => Some (Z.to_nat p) | None => None end) in *.
  assert (Hlim : match eff_prec d v with
                 | Some pr => c_strnlen (a_str v) (if pr <? 0 then None else Some (Z.to_nat pr)) 0
                 | None => c_strnlen (a_str v) None 0
                 end = Ok (len (take_str (a_str v) lim))).
  { subst lim. destruct (eff_prec d v) as [pr|] eqn:Ep.
    - pose proof (eff_prec_nonneg d v pr Ep). replace (pr <? 0) with false by (clear - H; lia).
      rewrite strnlen_take by assumption. reflexivity.
    - rewrite strnlen_take by assumption. reflexivity. }
  rewrite Hlim. mstep ltac:(reflexivity).
  unfold len at 1. rewrite Nat2Z.id. rewrite copy_take by assumption.
  mstep ltac:(reflexivity).
  unfold iso_printf. rewrite Ec. unfold justify. fold lim.
  rewrite F1, F7.
  assert (Hpad : (if len (take_str (a_str v) lim) <? Z.abs (eff_width d v)
                  then spaces (Z.abs (eff_width d v) - len (take_str (a_str v) lim)) else [])
                 = blanks (Z.abs (eff_width d v) - len (take_str (a_str v) lim))).
  { unfold spaces, blanks. destruct (len (take_str (a_str v) lim) <? Z.abs (eff_width d v)) eqn:E; [reflexivity|].
    rewrite repeat_neg by (clear - E; lia). reflexivity. }
  rewrite Hpad.
  destruct (has FMinus d || (eff_width d v <? 0)); unfold emit; cbn [ps_out ps_vs]; reflexivity.
Qed.

(* ---- format strings as lists of items *)
Inductive fitem :=
| FLit (l : list byte)                               (* literal text *)
| FDir (d : directive) (v : argval) (addr : N).      (* a directive, its argument values, where its %s string lives *)

Definition lit_char_ok (c : byte) : Prop := c <> 0%N /\ c <> 37%N.

Definition item_render (it : fitem) : list byte := match it with FLit l => l | FDir d _ _ => render d end.
Definition item_slots (it : fitem) : list N :=
  match it with
  | FLit _ => []
  | FDir d v a => star_slots d v ++ match d_conv d with Cs => [a] | _ => value_slot d v end
  end.
Definition item_iso (it : fitem) : list byte := match it with FLit l => l | FDir d v _ => iso_printf d v end.

Definition fmt_render (its : list fitem) : list byte := concat (map item_render its).
Definition fmt_slots (its : list fitem) : list N := concat (map item_slots its).
Definition fmt_iso (its : list fitem) : list byte := concat (map item_iso its).

Definition item_ok (mem : memory) (it : fitem) : Prop :=
  match it with
  | FLit l => l <> [] /\ Forall lit_char_ok l
  | FDir d v a => d_pos d = None /\ in_grammar d = true /\ fits d v = true
                  /\ (d_conv d = Cs -> a <> 0%N /\ (a < 2 ^ 64)%N /\ mem_lookup mem a = Some (a_str v))
  end.

(* canonical decomposition: literal pieces are maximal (two adjacent literals are one literal) *)
Fixpoint wf_items (mem : memory) (its : list fitem) : Prop :=
  match its with
  | [] => True
  | it :: r => item_ok mem it
               /\ match it, r with FLit _, FLit _ :: _ => False | _, _ => True end
               /\ wf_items mem r
  end.

Lemma render_starts_pct : forall d, exists r, render d = 37%N :: r.
Proof. intros d. unfold render. destruct (d_conv d); eexists; reflexivity. Qed.

Lemma fmt_render_after_lit : forall mem l r, wf_items mem (FLit l :: r) ->
  fmt_render r = [] \/ exists p, fmt_render r = 37%N :: p.
Proof.
  intros mem l r [_ [Hadj _]]. destruct r as [|[l2|d v a] r']; [left; reflexivity | contradiction |].
  right. unfold fmt_render. cbn [map concat item_render]. destruct (render_starts_pct d) as [p Hp]. rewrite Hp.
  eexists. reflexivity.
Qed.

(* while(s[n] && s[n] != '%') n++ over a literal piece *)
Lemma scan_literal_eval : forall (l2 l1 pre post : list byte) fuel st,
  Forall lit_char_ok l2 -> (post = [] \/ exists p, post = 37%N :: p) -> (length l2 < fuel)%nat ->
  scan_literal (pre ++ l1 ++ l2 ++ post) fuel (length pre) (length l1) st = (st, Ok (length l1 + length l2)%nat).
Proof.
  induction l2 as [|c l2 IH]; intros l1 pre post fuel st Hok Hpost Hf.
  - destruct fuel as [|fuel]; [cbn in Hf; lia|]. cbn [scan_literal app length].
    mstep ltac:(rewrite app_assoc; rewrite <- (app_length pre l1); apply read_app0).
    destruct Hpost as [-> | [p ->]]; cbn [nth N.eqb Pos.eqb negb andb]; unfold ret; rewrite Nat.add_0_r; reflexivity.
  - destruct fuel as [|fuel]; [cbn in Hf; lia|]. cbn [scan_literal app length].
    inversion Hok as [|? ? [Hc0 Hc37] Hok']; subst.
    mstep ltac:(rewrite app_assoc; rewrite <- (app_length pre l1); apply read_app0). cbn [nth].
    apply N.eqb_neq in Hc0, Hc37. rewrite Hc0, Hc37. cbn [negb andb].
    replace (length l1 + 1)%nat with (length (l1 ++ [c])) by (rewrite app_length; reflexivity).
    replace (pre ++ l1 ++ c :: l2 ++ post) with (pre ++ (l1 ++ [c]) ++ l2 ++ post) by (rewrite <- !app_assoc; reflexivity).
    rewrite IH; [ | assumption | assumption | cbn [length] in Hf; lia ].
    rewrite app_length. cbn [length]. f_equal. f_equal. lia.
Qed.

Lemma firstn_skipn_mid : forall (pre l post : list byte),
  firstn (length l) (skipn (length pre) (pre ++ l ++ post)) = l.
Proof.
  intros. rewrite skipn_app. rewrite Nat.sub_diag. rewrite skipn_all. cbn [app skipn].
  rewrite firstn_app. rewrite Nat.sub_diag. rewrite firstn_all. cbn [firstn]. apply app_nil_r.
Qed.

(* what the agent does for one directive item *)
Lemma agent_item : forall mem d v a out rest pops cache na,
  item_ok mem (FDir d v a) -> d_conv d <> Cpct ->
  exists ty,
    agent mem (conv_char (d_conv d)) (opts_of d v) (szmod_of (d_len d))
          (mk_ps out (mk_vs ((match d_conv d with Cs => [a] | _ => value_slot d v end) ++ rest) pops cache na))
    = (mk_ps (out ++ iso_printf d v) (mk_vs rest (pops ++ ty) cache na), Ok tt).
Proof.
  intros mem d v a out rest pops cache na [Hpos [Hgr [Hfit Hstr]]] Hne.
  destruct (d_conv d) eqn:Ec; try congruence.
  1-6: exists [int_argty (d_len d)]; rewrite <- Ec;
       apply agent_int; [rewrite Ec; reflexivity | assumption].
  - exists [ATInt]. unfold value_slot. rewrite Ec. cbn [conv_char app]. apply agent_char; assumption.
  - exists [ATPtr]. destruct (Hstr eq_refl) as [Ha0 [Ha64 Hmem]]. cbn [conv_char app]. apply agent_str_mem; assumption.
  - exists [ATPtr]. unfold value_slot. rewrite Ec. cbn [conv_char app]. apply agent_ptr; assumption.
Qed.

Theorem format_items : forall mem (its : list fitem) (pre : list byte) out rest pops cache na fuel s,
  wf_items mem its -> s = pre ++ fmt_render its -> (length (fmt_render its) < fuel)%nat ->
  exists pops',
    format_loop s (agent mem) fuel (length pre) false (mk_ps out (mk_vs (fmt_slots its ++ rest) pops cache na))
    = (mk_ps (out ++ fmt_iso its) (mk_vs rest pops' cache na), Ok tt).
Proof.
  intros mem its. induction its as [|it r IH]; intros pre out rest pops cache na fuel s Hwf Hs Hf.
  - (* end of the format *)
    unfold fmt_render, fmt_slots, fmt_iso in *. cbn [map concat app] in *. rewrite app_nil_r in Hs. subst s.
    destruct fuel as [|fuel]; [cbn in Hf; lia|]. cbn [format_loop].
    mstep ltac:(apply read_end). cbn [N.eqb]. rewrite app_nil_r. eexists. reflexivity.
  - destruct Hwf as [Hok [Hadj Hwf]].
    assert (Hr : fmt_render (it :: r) = item_render it ++ fmt_render r) by reflexivity.
    assert (Hsl : fmt_slots (it :: r) = item_slots it ++ fmt_slots r) by reflexivity.
    assert (Hiso : fmt_iso (it :: r) = item_iso it ++ fmt_iso r) by reflexivity.
    rewrite Hr in Hs, Hf. rewrite Hsl, Hiso. rewrite app_length in Hf.
    destruct fuel as [|fuel]; [lia|].
    destruct it as [l | d v a].
    + (* literal text *)
      destruct Hok as [Hne Hall]. cbn [item_render item_slots item_iso app] in *.
      destruct l as [|c l']; [congruence|].
      pose proof (Forall_inv Hall) as [Hc0 Hc37]. pose proof (Forall_inv_tail Hall) as Hall'.
      cbn [format_loop].
      mstep ltac:(rewrite Hs; apply (read_app0 pre ((c :: l') ++ fmt_render r))). cbn [app nth].
      apply N.eqb_neq in Hc0, Hc37. rewrite Hc0, Hc37. cbn [negb].
      assert (Hpost : fmt_render r = [] \/ exists p, fmt_render r = 37%N :: p).
      { apply (fmt_render_after_lit mem (c :: l') r). split; [split; assumption | split; assumption]. }
      assert (Hscan : forall st, scan_literal s (S (length s)) (length pre) 1 st = (st, Ok (length (c :: l')))).
      { intros st. rewrite Hs.
        replace (pre ++ (c :: l') ++ fmt_render r) with (pre ++ [c] ++ l' ++ fmt_render r) by reflexivity.
        rewrite (scan_literal_eval l' [c] pre (fmt_render r)); [reflexivity | assumption | assumption |].
        rewrite !app_length. cbn [length]. lia. }
      mstep ltac:(apply Hscan).
      assert (Hemit : firstn (length (c :: l')) (skipn (length pre) s) = c :: l') by (rewrite Hs; apply firstn_skipn_mid).
      rewrite Hemit. mstep ltac:(reflexivity). cbn [ps_out ps_vs].
      replace (length pre + length (c :: l'))%nat with (length (pre ++ c :: l')) by (rewrite app_length; reflexivity).
      destruct (IH (pre ++ c :: l') (out ++ c :: l') rest pops cache na fuel s Hwf
                   ltac:(rewrite Hs; rewrite <- app_assoc; reflexivity) ltac:(cbn [length] in Hf; lia)) as [pops' Hrun].
      rewrite Hrun. rewrite <- app_assoc. eexists. reflexivity.
    + (* a directive *)
      pose proof Hok as Hok'. destruct Hok as [Hpos [Hgr [Hfit Hstr]]].
      cbn [item_render item_slots item_iso] in *.
      destruct (render_starts_pct d) as [rd Hrd].
      cbn [format_loop].
      mstep ltac:(rewrite Hs; rewrite Hrd; apply (read_app0 pre ((37%N :: rd) ++ fmt_render r))). cbn [app nth N.eqb Pos.eqb negb].
      assert (Hdec : d_conv d = Cpct \/ d_conv d <> Cpct) by (destruct (d_conv d); (left; reflexivity) || (right; discriminate)).
      destruct Hdec as [Ec | Hne].
      { (* %% *)
        assert (Hrp : render d = [37; 37]%N) by (unfold render; rewrite Ec; reflexivity).
        rewrite Hrp in Hrd. inversion Hrd; subst rd. rewrite Hrp in Hs, Hf.
        mstep ltac:(rewrite Hs; apply (assert_nz_app pre ([37; 37]%N ++ fmt_render r) 1); [cbn; lia | cbn [app nth]; discriminate]).
        mstep ltac:(rewrite Hs; apply (read_app pre ([37; 37]%N ++ fmt_render r) 1); cbn; lia). cbn [app nth N.eqb Pos.eqb].
        mstep ltac:(reflexivity). cbn [ps_out ps_vs].
        assert (Hnoarg : star_slots d v ++ match d_conv d with Cs => [a] | _ => value_slot d v end = []).
        { unfold in_grammar in Hgr. rewrite Ec in Hgr.
          destruct (d_pos d); [discriminate|]. destruct (d_flags d); [|discriminate].
          destruct (d_width d) eqn:Ew; try discriminate. destruct (d_prec d) eqn:Ep; try discriminate.
          unfold star_slots, value_slot. rewrite Ew, Ep, Ec. reflexivity. }
        rewrite Hnoarg. cbn [app].
        replace (length pre + 2)%nat with (length (pre ++ [37; 37]%N)) by (rewrite app_length; reflexivity).
        destruct (IH (pre ++ [37; 37]%N) (out ++ [37%N]) rest pops cache na fuel s Hwf
                     ltac:(rewrite Hs; rewrite <- app_assoc; reflexivity) ltac:(cbn [length] in Hf; lia)) as [pops' Hrun].
        rewrite Hrun. unfold iso_printf. rewrite Ec. rewrite <- app_assoc. eexists. reflexivity. }
      destruct (in_grammar_parts d Hgr Hne) as [Hwok Hpok].
      destruct (fits_parts d v Hfit) as [Hwfit Hpfit].
      destruct (render_head (agent mem) d Hpos Hne Hwok) as [c1 [r1 [Hrh [Hc10 Hc137]]]].
      rewrite Hrh in Hrd. inversion Hrd; subst rd.
      mstep ltac:(rewrite Hs; rewrite Hrh; apply (assert_nz_app pre ((37%N :: c1 :: r1) ++ fmt_render r) 1); [cbn; lia | cbn [app nth]; assumption]).
      mstep ltac:(rewrite Hs; rewrite Hrh; apply (read_app pre ((37%N :: c1 :: r1) ++ fmt_render r) 1); cbn; lia). cbn [app nth].
      apply N.eqb_neq in Hc137. rewrite Hc137.
      destruct (agent_item mem d v a out (fmt_slots r ++ rest) ([] ++ pops ++ star_pops d) cache na Hok' Hne) as [ty Hag].
      cbn [app] in Hag.
      rewrite <- !app_assoc.
      mstep ltac:(apply (parse_directive_ctx (agent mem) d v pre (fmt_render r) s out _ pops cache na _ Hs Hpos Hne Hwok Hpok Hwfit Hpfit Hag)).
      cbn [fst snd ps_out ps_vs].
      replace (length pre + length (render d))%nat with (length (pre ++ render d)) by (rewrite app_length; reflexivity).
      destruct (IH (pre ++ render d) (out ++ iso_printf d v) rest ((pops ++ star_pops d) ++ ty) cache na fuel s Hwf
                   ltac:(rewrite Hs; rewrite <- app_assoc; reflexivity) ltac:(rewrite Hrh in Hf; cbn [length] in Hf; lia)) as [pops' Hrun].
      rewrite Hrun. rewrite <- app_assoc. eexists. reflexivity.
Qed.

(* C19 for whole format strings *)
Theorem printf_format_conforms : forall mem (its : list fitem) cache,
  wf_items mem its ->
  let r := run_printf mem (fmt_render its) (fmt_slots its) cache in
  snd r = Ok tt /\ ps_out (fst r) = fmt_iso its /\ va_rest (ps_vs (fst r)) = [].
Proof.
  intros mem its cache Hwf. cbv zeta. unfold run_printf, printf_format, printf_format_with.
  destruct (format_items mem its [] [] [] [] cache 0 (S (length (fmt_render its))) (fmt_render its) Hwf eq_refl ltac:(lia)) as [pops' Hrun].
  rewrite app_nil_r in Hrun. cbn [length] in Hrun. rewrite Hrun. cbn. repeat split; reflexivity.
Qed.

(* the canonical decomposition is no restriction: adjacent literal pieces can be merged, empty ones dropped *)
Fixpoint merge_lits (its : list fitem) : list fitem :=
  match its with
  | [] => []
  | FLit l :: r =>
    match merge_lits r with
    | FLit l2 :: r' => FLit (l ++ l2) :: r'
    | r' => match l with [] => r' | _ => FLit l :: r' end
    end
  | it :: r => it :: merge_lits r
  end.

Lemma merge_lits_same : forall its,
  fmt_render (merge_lits its) = fmt_render its /\ fmt_slots (merge_lits its) = fmt_slots its
  /\ fmt_iso (merge_lits its) = fmt_iso its.
Proof.
  unfold fmt_render, fmt_slots, fmt_iso.
  induction its as [|[l|d v a] r [IH1 [IH2 IH3]]]; [repeat split; reflexivity | |].
  - cbn [merge_lits]. destruct (merge_lits r) as [|[l2|d2 v2 a2] r'] eqn:E; cbn [map concat item_render item_slots item_iso app] in *.
    + destruct l; cbn [map concat item_render item_slots item_iso app]; rewrite <- IH1, <- IH2, <- IH3; repeat split; reflexivity.
    + rewrite <- IH1, <- IH2, <- IH3. rewrite <- !app_assoc. repeat split; reflexivity.
    + destruct l; cbn [map concat item_render item_slots item_iso app]; rewrite <- IH1, <- IH2, <- IH3; repeat split; reflexivity.
  - cbn [merge_lits map concat item_render item_slots item_iso]. rewrite IH1, IH2, IH3. repeat split; reflexivity.
Qed.
