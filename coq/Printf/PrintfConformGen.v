(* The conformance theorem for EVERY directive of the grammar, including the n$ prefix:
   generalisation of the agent lemmas of PrintfStageB.v over how the converted argument is fetched
   (pops_value), the positional cache lemmas, printf_conforms. *)
From Coq Require Import String.
From Coq Require Import NArith ZArith Znumtheory List Bool Lia ZifyBool ZifyNat ZifyN.
From FV Require Import Printf.PrintIntModel Printf.IsoPrintf Printf.PrintIntProofs Printf.PrintfModel
  Printf.PrintfParse Printf.PrintfConform Printf.PrintfSafety Printf.PrintfStageA Printf.PrintfStageB Printf.PrintfConformProofs.
Import ListNotations.
Local Open Scope Z_scope.

(* ---- the same for directives with an n$ prefix *)
Lemma opts_from_fields : forall d v,
  let o := opts_from d v in
  left_justify o = has FMinus d || (eff_width d v <? 0)
  /\ always_sign o = has FPlus d
  /\ plus_becomes_space o = has FSpace d
  /\ alt_conversion o = has FHash d
  /\ fill_zeros o = has FZero d
  /\ group_thousands o = has FQuote d
  /\ minimum_width o = Z.abs (eff_width d v)
  /\ precision o = eff_prec d v.
Proof.
  intros d v. cbv zeta. unfold opts_from.
  destruct (apply_flags_fields (d_flags d) (base_opts d)) as [H1 [H2 [H3 [H4 [H5 [H6 [H7 H8]]]]]]].
  set (o1 := apply_flags (d_flags d) (base_opts d)) in *.
  assert (Hb : left_justify (base_opts d) = false /\ always_sign (base_opts d) = false /\ plus_becomes_space (base_opts d) = false
               /\ alt_conversion (base_opts d) = false /\ fill_zeros (base_opts d) = false /\ group_thousands (base_opts d) = false
               /\ minimum_width (base_opts d) = 0 /\ precision (base_opts d) = None).
  { unfold base_opts. destruct (d_pos d); cbn; repeat split; reflexivity. }
  destruct Hb as [B1 [B2 [B3 [B4 [B5 [B6 [B7 B8]]]]]]].
  rewrite B1 in H1. rewrite B2 in H2. rewrite B3 in H3. rewrite B4 in H4. rewrite B5 in H5. rewrite B6 in H6.
  rewrite B7 in H7. rewrite B8 in H8. cbn [orb] in H1, H2, H3, H4, H5, H6.
  destruct (width_opts_fields d v o1) as [W1 [W2 [W3 [W4 [W5 [W6 [W7 W8]]]]]]].
  set (o2 := width_opts d v o1) in *.
  destruct (prec_opts_fields d v o2 ltac:(rewrite W8; exact H8)) as [P1 [P2 [P3 [P4 [P5 [P6 [P7 P8]]]]]]].
  rewrite !has_existsb.
  rewrite P1, P2, P3, P4, P5, P6, P7, P8, W1, W2, W3, W4, W5, W6, W7, H1, H2, H3, H4, H5, H6.
  repeat split; reflexivity.
Qed.

(* a state from which pop_arg<T> yields the value in [slot], whatever T, and leaves the sink alone *)
Definition pops_value (o : format_options) (vs : va_struct) (slot : N) : Prop :=
  forall out ct, ctype_ok ct -> exists vs', pop_arg ct o (mk_ps out vs) = (mk_ps out vs', Ok (interp ct slot)).

Lemma signed_ct : forall l a, exists ct,
  signed_type (szmod_of l) = Some ct /\ ctype_ok ct /\ interp ct (int_slot l a) = to_signed (len_bits l) a.
Proof.
  intros l a. destruct l; (eexists; split; [reflexivity|]; split; [unfold ctype_ok; cbn; lia|]); unfold int_slot;
    first [rewrite interp_slot32 by (cbn; lia) | rewrite interp_slot64 by (cbn; lia)]; reflexivity.
Qed.
Lemma unsigned_ct : forall l a, exists ct,
  unsigned_type (szmod_of l) = Some ct /\ ctype_ok ct /\ interp ct (int_slot l a) = to_unsigned (len_bits l) a.
Proof.
  intros l a. destruct l; (eexists; split; [reflexivity|]; split; [unfold ctype_ok; cbn; lia|]); unfold int_slot;
    first [rewrite interp_slot32 by (cbn; lia) | rewrite interp_slot64 by (cbn; lia)]; reflexivity.
Qed.

Lemma emit_eval : forall bs st, emit bs st = (mk_ps (ps_out st ++ bs) (ps_vs st), Ok tt).
Proof. reflexivity. Qed.

(* transfer of the algebra lemmas from opts_of to opts_from: they only use the eight fields *)
Lemma result_iso_transfer : forall d v,
  left_justify (opts_from d v) = left_justify (opts_of d v)
  /\ always_sign (opts_from d v) = always_sign (opts_of d v)
  /\ plus_becomes_space (opts_from d v) = plus_becomes_space (opts_of d v)
  /\ alt_conversion (opts_from d v) = alt_conversion (opts_of d v)
  /\ fill_zeros (opts_from d v) = fill_zeros (opts_of d v)
  /\ group_thousands (opts_from d v) = group_thousands (opts_of d v)
  /\ minimum_width (opts_from d v) = minimum_width (opts_of d v)
  /\ precision (opts_from d v) = precision (opts_of d v).
Proof.
  intros d v.
  destruct (opts_from_fields d v) as [A1 [A2 [A3 [A4 [A5 [A6 [A7 A8]]]]]]].
  destruct (opts_of_fields d v) as [B1 [B2 [B3 [B4 [B5 [B6 [B7 [B8 _]]]]]]]].
  rewrite A1, A2, A3, A4, A5, A6, A7, A8, B1, B2, B3, B4, B5, B6, B7, B8. repeat split; reflexivity.
Qed.

Lemma agent_int_gen : forall mem d v out vs,
  is_int_conv (d_conv d) = true -> in_grammar d = true ->
  pops_value (opts_from d v) vs (int_slot (d_len d) (a_int v)) ->
  exists vs2, agent mem (conv_char (d_conv d)) (opts_from d v) (szmod_of (d_len d)) (mk_ps out vs)
              = (mk_ps (out ++ iso_printf d v) vs2, Ok tt).
Proof.
  intros mem d v out vs Hint Hgr Hpops.
  destruct (result_iso_transfer d v) as [T1 [T2 [T3 [T4 [T5 [T6 [T7 T8]]]]]]].
  destruct (opts_of_fields d v) as [F1 [F2 [F3 [F4 [F5 [F6 [F7 [F8 F9]]]]]]]].
  assert (Hpad : padding_of (opts_from d v) = padding_of (opts_of d v)) by (unfold padding_of; rewrite T5, T8; reflexivity).
  assert (Hp1 : prec_or_1 (opts_from d v) = prec_or_1 (opts_of d v)) by (unfold prec_or_1; rewrite T8; reflexivity).
  assert (Hoct : forall x, octal_precision (opts_from d v) x = octal_precision (opts_of d v) x)
    by (intros x; unfold octal_precision; rewrite Hp1, T4; reflexivity).
  unfold iso_printf.
  destruct (d_conv d) eqn:Ec; try discriminate; cbn [conv_char]; unfold agent; cbn [N.eqb Pos.eqb orb];
    unfold do_printf_ints; cbn [N.eqb Pos.eqb orb].
  - (* d *)
    assert (Halt : alt_conversion (opts_from d v) = false).
    { rewrite T4, F4. unfold in_grammar in Hgr. rewrite Ec in Hgr. destruct (has FHash d); [|reflexivity].
      rewrite !andb_false_r in Hgr. discriminate. }
    destruct (signed_ct (d_len d) (a_int v)) as [ct [Hct [Hok Hval]]].
    destruct (Hpops out ct Hok) as [vs' Hpop].
    eexists.
    rewrite Halt. cbn [negb massert]. mstep ltac:(reflexivity).
    rewrite Hct. mstep ltac:(exact Hpop). rewrite Hval.
    rewrite print_int_spec; [ | compute; discriminate | compute; discriminate | compute; discriminate | compute; discriminate
                            | change (Z.of_N 64 - 1) with 63; apply to_signed_range; apply len_bits_range ].
    mstep ltac:(reflexivity). rewrite emit_eval. cbn [ps_out ps_vs].
    rewrite T7, Hp1, Hpad, T1, T2, T3. rewrite (signed_result_iso d v (or_introl Ec)). reflexivity.
  - (* i *)
    assert (Halt : alt_conversion (opts_from d v) = false).
    { rewrite T4, F4. unfold in_grammar in Hgr. rewrite Ec in Hgr. destruct (has FHash d); [|reflexivity].
      rewrite !andb_false_r in Hgr. discriminate. }
    destruct (signed_ct (d_len d) (a_int v)) as [ct [Hct [Hok Hval]]].
    destruct (Hpops out ct Hok) as [vs' Hpop].
    eexists.
    rewrite Halt. cbn [negb massert]. mstep ltac:(reflexivity).
    rewrite Hct. mstep ltac:(exact Hpop). rewrite Hval.
    rewrite print_int_spec; [ | compute; discriminate | compute; discriminate | compute; discriminate | compute; discriminate
                            | change (Z.of_N 64 - 1) with 63; apply to_signed_range; apply len_bits_range ].
    mstep ltac:(reflexivity). rewrite emit_eval. cbn [ps_out ps_vs].
    rewrite T7, Hp1, Hpad, T1, T2, T3. rewrite (signed_result_iso d v (or_intror Ec)). reflexivity.
  - (* u *)
    assert (Halt : alt_conversion (opts_from d v) = false).
    { rewrite T4, F4. unfold in_grammar in Hgr. rewrite Ec in Hgr. destruct (has FHash d); [|reflexivity].
      rewrite !andb_false_r in Hgr. discriminate. }
    destruct (unsigned_ct (d_len d) (a_int v)) as [ct [Hct [Hok Hval]]].
    destruct (Hpops out ct Hok) as [vs' Hpop].
    pose proof (to_unsigned_range (len_bits (d_len d)) (a_int v) (len_bits_range _)) as Hv.
    eexists.
    rewrite Hct. mstep ltac:(exact Hpop). rewrite Hval.
    rewrite Halt. cbn [negb massert]. mstep ltac:(reflexivity).
    unfold print_unsigned. rewrite Halt. rewrite andb_false_r.
    rewrite print_int_spec; [ | compute; discriminate | compute; discriminate | compute; discriminate | compute; discriminate
                            | change (Z.of_N 64 - 1) with 63; clear - Hv; lia ].
    mstep ltac:(reflexivity). rewrite emit_eval. cbn [ps_out ps_vs].
    replace (to_unsigned (len_bits (d_len d)) (a_int v) <? 0) with false by (clear - Hv; lia).
    rewrite T7, Hp1, Hpad, T1. rewrite (unsigned_dec_result_iso d v [] Ec). reflexivity.
  - (* o *)
    destruct (unsigned_ct (d_len d) (a_int v)) as [ct [Hct [Hok Hval]]].
    destruct (Hpops out ct Hok) as [vs' Hpop].
    pose proof (to_unsigned_range (len_bits (d_len d)) (a_int v) (len_bits_range _)) as Hv.
    eexists.
    rewrite Hct. mstep ltac:(exact Hpop). rewrite Hval.
    unfold print_unsigned.
    rewrite print_int_spec; [ | compute; discriminate | compute; discriminate | compute; discriminate | compute; discriminate
                            | change (Z.of_N 64 - 1) with 63; clear - Hv; lia ].
    mstep ltac:(reflexivity). rewrite emit_eval. cbn [ps_out ps_vs].
    replace (to_unsigned (len_bits (d_len d)) (a_int v) <? 0) with false by (clear - Hv; lia).
    replace (if negb (to_unsigned (len_bits (d_len d)) (a_int v) =? 0) && alt_conversion (opts_from d v) then [] else []) with (@nil N)
    by (destruct (negb (to_unsigned (len_bits (d_len d)) (a_int v) =? 0) && alt_conversion (opts_from d v)); reflexivity).
    rewrite T7, Hoct, Hpad, T1. rewrite (octal_result_iso d v Ec). reflexivity.
  - (* x *)
    destruct (unsigned_ct (d_len d) (a_int v)) as [ct [Hct [Hok Hval]]].
    destruct (Hpops out ct Hok) as [vs' Hpop].
    pose proof (to_unsigned_range (len_bits (d_len d)) (a_int v) (len_bits_range _)) as Hv.
    eexists.
    rewrite Hct. mstep ltac:(exact Hpop). rewrite Hval.
    unfold print_unsigned.
    rewrite print_int_spec; [ | compute; discriminate | compute; discriminate | compute; discriminate | compute; discriminate
                            | change (Z.of_N 64 - 1) with 63; clear - Hv; lia ].
    mstep ltac:(reflexivity). rewrite emit_eval. cbn [ps_out ps_vs].
    replace (to_unsigned (len_bits (d_len d)) (a_int v) <? 0) with false by (clear - Hv; lia).
    rewrite T7, Hp1, Hpad, T1, T4. rewrite (hex_result_iso d v false Ec). reflexivity.
  - (* X *)
    destruct (unsigned_ct (d_len d) (a_int v)) as [ct [Hct [Hok Hval]]].
    destruct (Hpops out ct Hok) as [vs' Hpop].
    pose proof (to_unsigned_range (len_bits (d_len d)) (a_int v) (len_bits_range _)) as Hv.
    eexists.
    rewrite Hct. mstep ltac:(exact Hpop). rewrite Hval.
    unfold print_unsigned.
    rewrite print_int_spec; [ | compute; discriminate | compute; discriminate | compute; discriminate | compute; discriminate
                            | change (Z.of_N 64 - 1) with 63; clear - Hv; lia ].
    mstep ltac:(reflexivity). rewrite emit_eval. cbn [ps_out ps_vs].
    replace (to_unsigned (len_bits (d_len d)) (a_int v) <? 0) with false by (clear - Hv; lia).
    rewrite T7, Hp1, Hpad, T1, T4. rewrite (hex_result_iso d v true Ec). reflexivity.
Qed.

(* ---- providers of pops_value *)
Lemma pops_value_seq : forall o slot rest pops cache na, arg_pos o = -1 ->
  pops_value o (mk_vs (slot :: rest) pops cache na) slot.
Proof.
  intros o slot rest pops cache na Hap out ct Hok. eexists. apply pop_va_eval; assumption.
Qed.

Lemma interp_mod : forall ct a b, N.modulo a (2 ^ ct_bits ct) = N.modulo b (2 ^ ct_bits ct) -> interp ct a = interp ct b.
Proof. intros ct a b H. unfold interp. rewrite H. reflexivity. Qed.

Lemma interp_cell_write : forall ct raw old, ctype_ok ct ->
  interp ct (cell_write ct (interp ct raw) old) = interp ct raw.
Proof.
  intros ct raw old [Hb1 Hb2]. apply interp_mod. unfold cell_write.
  set (b := ct_bits ct) in *.
  assert (Hp : (0 < 2 ^ b)%N) by (apply N.neq_0_lt_0, N.pow_nonzero; lia).
  assert (Hpz : 0 < 2 ^ Z.of_N b) by (apply Z.pow_pos_nonneg; lia).
  rewrite N.shiftl_mul_pow2. rewrite N.add_comm. rewrite N.mod_add by lia.
  (* the low part *)
  assert (Hv : interp ct raw mod 2 ^ Z.of_N b = Z.of_N (raw mod 2 ^ b)).
  { unfold interp. fold b.
    pose proof (N.mod_lt raw (2 ^ b) ltac:(lia)) as Hm.
    assert (Hm' : 0 <= Z.of_N (raw mod 2 ^ b) < 2 ^ Z.of_N b).
    { split; [lia|]. rewrite <- (N2Z.inj_pow 2). lia. }
    destruct (ct_signed ct && (2 ^ (Z.of_N b - 1) <=? Z.of_N (raw mod 2 ^ b))).
    - rewrite <- (Z.mod_add _ 1) by lia.
      replace (Z.of_N (raw mod 2 ^ b) - 2 ^ Z.of_N b + 1 * 2 ^ Z.of_N b) with (Z.of_N (raw mod 2 ^ b)) by lia.
      apply Z.mod_small. exact Hm'.
    - apply Z.mod_small. exact Hm'. }
  rewrite Hv. rewrite N2Z.id. apply N.mod_mod. lia.
Qed.

Lemma set_nth_nth : forall (l : list N) i f l', set_nth l i f = Some l' ->
  exists x, nth_error l' i = Some (f x).
Proof.
  induction l as [|x r IH]; intros i f l' H; cbn in H; [discriminate|].
  destruct i as [|i].
  - inversion H; subst. exists x. reflexivity.
  - destruct (set_nth r i f) as [r'|] eqn:E; [|discriminate]. inversion H; subst.
    destruct (IH i f r' E) as [y Hy]. exists y. exact Hy.
Qed.

Lemma pop_upto_spec : forall k i ct (l : list N) rest out pops cache na, ctype_ok ct ->
  length l = k -> 0 <= i -> i + Z.of_nat k <= Z.of_nat (length cache) ->
  exists cache' pops',
    pop_upto k i ct (mk_ps out (mk_vs (l ++ rest) pops cache na)) = (mk_ps out (mk_vs rest pops' cache' na), Ok tt)
    /\ length cache' = length cache
    /\ ((1 <= k)%nat -> exists old, nth_error cache' (Z.to_nat (i + Z.of_nat k - 1)) = Some (cell_write ct (interp ct (last l 0%N)) old)).
Proof.
  induction k as [|k IH]; intros i ct l rest out pops cache na Hok Hl Hi Hb.
  - destruct l; [|discriminate]. exists cache, pops. cbn. split; [reflexivity|]. split; [reflexivity|]. lia.
  - destruct l as [|x l']; [discriminate|]. cbn [length] in Hl. injection Hl as Hl.
    cbn [pop_upto app].
    mstep ltac:(unfold pop_va; cbn [ps_vs va_rest ps_out va_pops arg_list num_args]; reflexivity).
    destruct (set_nth_some cache (Z.to_nat i) (cell_write ct (interp ct x)) ltac:(lia)) as [cache1 Hc1].
    assert (Hw : write_member i ct (interp ct x) (mk_ps out (mk_vs (l' ++ rest) (pops ++ [ct_va ct]) cache na))
                 = (mk_ps out (mk_vs (l' ++ rest) (pops ++ [ct_va ct]) cache1 na), Ok tt)).
    { unfold write_member. replace (i <? 0) with false by lia.
      cbn [ps_vs arg_list ps_out va_rest va_pops num_args]. rewrite Hc1. reflexivity. }
    mstep ltac:(exact Hw).
    pose proof (set_nth_length _ _ _ _ Hc1) as Hlen1.
    destruct (IH (i + 1) ct l' rest out (pops ++ [ct_va ct]) cache1 na Hok Hl ltac:(lia) ltac:(lia)) as [cache' [pops' [Hrun [Hlen' Hlast]]]].
    exists cache', pops'. split; [exact Hrun|]. split; [lia|].
    intros _. destruct k as [|k].
    + (* the write just done is the last one *)
      destruct l'; [|discriminate]. cbn [pop_upto] in Hrun. unfold ret in Hrun. inversion Hrun; subst.
      destruct (set_nth_nth _ _ _ _ Hc1) as [old Hold]. exists old.
      replace (Z.to_nat (i + Z.of_nat 1 - 1)) with (Z.to_nat i) by lia. cbn [last]. exact Hold.
    + destruct (Hlast ltac:(lia)) as [old Hold]. exists old.
      replace (Z.to_nat (i + Z.of_nat (S (S k)) - 1)) with (Z.to_nat (i + 1 + Z.of_nat (S k) - 1)) by lia.
      destruct l' as [|y l'']; [discriminate|]. cbn [last] in *. exact Hold.
Qed.

Lemma pops_value_pos : forall o (n : N) (pre : list N) slot rest pops cache,
  arg_pos o = Z.of_N n - 1 -> dollar_arg_pos o = true -> (1 <= n <= 9)%N ->
  length pre = N.to_nat (n - 1) -> (9 <= length cache)%nat ->
  pops_value o (mk_vs (pre ++ slot :: rest) pops cache 0) slot.
Proof.
  intros o n pre slot rest pops cache Hap Hd Hn Hpre Hc out ct Hok.
  unfold pop_arg. rewrite Hap, Hd. replace (Z.of_N n - 1 =? -1) with false by lia.
  mstep ltac:(reflexivity). cbn [ps_vs num_args].
  replace (Z.to_nat (Z.of_N n - 1 + 1 - 0)) with (S (length pre)) by lia.
  replace (pre ++ slot :: rest) with ((pre ++ [slot]) ++ rest) by (rewrite <- app_assoc; reflexivity).
  destruct (pop_upto_spec (S (length pre)) 0 ct (pre ++ [slot]) rest out pops cache 0 Hok
              ltac:(rewrite app_length; cbn [length]; lia) ltac:(lia) ltac:(lia)) as [cache' [pops' [Hrun [Hlen Hlast]]]].
  mstep ltac:(exact Hrun).
  replace (0 <=? Z.of_N n - 1) with true by lia.
  mstep ltac:(reflexivity).
  destruct (Hlast ltac:(lia)) as [old Hold]. rewrite last_last in Hold.
  unfold read_member. replace (Z.of_N n - 1 <? 0) with false by lia.
  cbn [ps_vs arg_list].
  replace (Z.to_nat (Z.of_N n - 1)) with (Z.to_nat (0 + Z.of_nat (S (length pre)) - 1)) by lia.
  rewrite Hold. rewrite interp_cell_write by assumption.
  eexists. reflexivity.
Qed.


Lemma ctok_char : ctype_ok t_char. Proof. unfold ctype_ok; cbn; lia. Qed.
Lemma ctok_ptr : ctype_ok t_ptr. Proof. unfold ctype_ok; cbn; lia. Qed.

Lemma agent_char_gen : forall mem d v out vs,
  d_conv d = Cc -> in_grammar d = true ->
  pops_value (opts_from d v) vs (slot32 (a_int v)) ->
  exists vs2, agent mem 99%N (opts_from d v) (szmod_of (d_len d)) (mk_ps out vs)
              = (mk_ps (out ++ iso_printf d v) vs2, Ok tt).
Proof.
  intros mem d v out vs Ec Hgr Hpops.
  destruct (opts_from_fields d v) as [F1 [F2 [F3 [F4 [F5 [F6 [F7 F8]]]]]]].
  unfold in_grammar in Hgr. rewrite Ec in Hgr.
  apply andb_true_iff in Hgr. destruct Hgr as [Hgr Hlen].
  apply andb_true_iff in Hgr. destruct Hgr as [Hgr Hprec].
  apply andb_true_iff in Hgr. destruct Hgr as [Hgr Hfl].
  assert (Hl : d_len d = LNone) by (destruct (d_len d); try discriminate; reflexivity).
  assert (Hp : d_prec d = PNone) by (destruct (d_prec d); try discriminate; reflexivity).
  assert (Hch : Z.to_N (interp t_char (slot32 (a_int v)) mod 256) = Z.to_N (a_int v mod 256)).
  { rewrite interp_slot32 by (compute; discriminate). cbn [ct_signed t_char ct_bits]. change (Z.of_N 8) with 8.
    rewrite to_signed8_mod256. reflexivity. }
  unfold agent. cbn [N.eqb Pos.eqb orb]. unfold do_printf_chars. cbn [N.eqb Pos.eqb].
  rewrite F5, F4, F8. rewrite (only_minus_flags d FZero Hfl) by discriminate.
  rewrite (only_minus_flags d FHash Hfl) by discriminate.
  rewrite Hl. cbn [szmod_of szmod_eqb]. unfold eff_prec. rewrite Hp. cbn [is_some negb massert].
  rewrite F7. replace (Z.abs (eff_width d v) =? INT_MIN) with false by (unfold INT_MIN; clear; lia).
  unfold iso_printf. rewrite Ec. unfold justify.
  mstep ltac:(reflexivity). mstep ltac:(reflexivity). mstep ltac:(reflexivity). mstep ltac:(reflexivity).
  rewrite F1. destruct (has FMinus d || (eff_width d v <? 0)).
  - destruct (Hpops out t_char ctok_char) as [vs' Hpop]. eexists.
    mstep ltac:(exact Hpop). mstep ltac:(apply emit_eval). rewrite emit_eval. cbn [ps_out ps_vs].
    rewrite Hch. unfold spaces, blanks, len. cbn [length]. rewrite <- app_assoc. reflexivity.
  - destruct (Hpops (out ++ spaces (Z.abs (eff_width d v) - 1)) t_char ctok_char) as [vs' Hpop]. eexists.
    mstep ltac:(apply emit_eval). cbn [ps_out ps_vs].
    mstep ltac:(exact Hpop). rewrite emit_eval. cbn [ps_out ps_vs].
    rewrite Hch. unfold spaces, blanks, len. cbn [length]. rewrite <- app_assoc. reflexivity.
Qed.

Lemma agent_str_gen : forall d v out vs,
  d_conv d = Cs -> in_grammar d = true -> fits d v = true ->
  pops_value (opts_from d v) vs str_addr ->
  exists vs2, agent (mem_of d v) 115%N (opts_from d v) (szmod_of (d_len d)) (mk_ps out vs)
              = (mk_ps (out ++ iso_printf d v) vs2, Ok tt).
Proof.
  intros d v out vs Ec Hgr Hfit Hpops.
  destruct (opts_from_fields d v) as [F1 [F2 [F3 [F4 [F5 [F6 [F7 F8]]]]]]].
  unfold in_grammar in Hgr. rewrite Ec in Hgr.
  apply andb_true_iff in Hgr. destruct Hgr as [Hgr Hlen].
  apply andb_true_iff in Hgr. destruct Hgr as [Hgr Hfl].
  assert (Hl : d_len d = LNone) by (destruct (d_len d); try discriminate; reflexivity).
  unfold fits in Hfit. rewrite Ec in Hfit.
  apply andb_true_iff in Hfit. destruct Hfit as [_ Hstr].
  apply andb_true_iff in Hstr. destruct Hstr as [Hnul Hbytes].
  destruct (Hpops out t_ptr ctok_ptr) as [vs' Hpop]. eexists.
  unfold agent. cbn [N.eqb Pos.eqb orb]. unfold do_printf_chars. cbn [N.eqb Pos.eqb].
  rewrite F5, F4. rewrite (only_minus_flags d FZero Hfl) by discriminate.
  rewrite (only_minus_flags d FHash Hfl) by discriminate. cbn [negb massert].
  mstep ltac:(reflexivity). mstep ltac:(reflexivity).
  rewrite Hl. cbn [szmod_of szmod_eqb].
  unfold printf_string.
  mstep ltac:(exact Hpop).
  assert (Hptr : interp t_ptr str_addr = Z.of_N str_addr) by reflexivity.
  rewrite Hptr. change (Z.of_N str_addr =? 0) with false. cbv iota.
  unfold mem_of. rewrite Ec. rewrite N2Z.id. cbn [mem_lookup]. rewrite N.eqb_refl.
  mstep ltac:(reflexivity).
  rewrite F8.
  set (lim := match eff_prec d v with Some p => Some (Z.to_nat p) | None => None end) in *.
  assert (Hlim : match eff_prec d v with
                 | Some pr => c_strnlen (a_str v) (if pr <? 0 then None else Some (Z.to_nat pr)) 0
                 | None => c_strnlen (a_str v) None 0
                 end = Ok (len (take_str (a_str v) lim))).
  { subst lim. destruct (eff_prec d v) as [pr|] eqn:Ep.
    - pose proof (eff_prec_nonneg d v pr Ep). replace (pr <? 0) with false by (clear - H; lia).
      rewrite strnlen_take by assumption. reflexivity.
    - rewrite strnlen_take by assumption. reflexivity. }
  rewrite Hlim. mstep ltac:(reflexivity).
  unfold len at 1. rewrite Nat2Z.id. rewrite copy_take by assumption.
  mstep ltac:(reflexivity).
  unfold iso_printf. rewrite Ec. unfold justify. fold lim.
  rewrite F1, F7.
  assert (Hpad : (if len (take_str (a_str v) lim) <? Z.abs (eff_width d v)
                  then spaces (Z.abs (eff_width d v) - len (take_str (a_str v) lim)) else [])
                 = blanks (Z.abs (eff_width d v) - len (take_str (a_str v) lim))).
  { unfold spaces, blanks. destruct (len (take_str (a_str v) lim) <? Z.abs (eff_width d v)) eqn:E; [reflexivity|].
    rewrite repeat_neg by (clear - E; lia). reflexivity. }
  rewrite Hpad.
  destruct (has FMinus d || (eff_width d v <? 0)); rewrite emit_eval; cbn [ps_out ps_vs]; reflexivity.
Qed.

Lemma agent_ptr_gen : forall mem d v out vs,
  d_conv d = Cp -> in_grammar d = true -> fits d v = true ->
  pops_value (opts_from d v) vs (slot64 (a_int v)) ->
  exists vs2, agent mem 112%N (opts_from d v) (szmod_of (d_len d)) (mk_ps out vs)
              = (mk_ps (out ++ iso_printf d v) vs2, Ok tt).
Proof.
  intros mem d v out vs Ec Hgr Hfit Hpops.
  destruct (opts_from_fields d v) as [F1 [F2 [F3 [F4 [F5 [F6 [F7 F8]]]]]]].
  unfold in_grammar in Hgr. rewrite Ec in Hgr.
  destruct (d_flags d) eqn:Efl; [|destruct (d_pos d); discriminate].
  destruct (d_width d) eqn:Ew; try (destruct (d_pos d); discriminate).
  destruct (d_prec d) eqn:Ep; try (destruct (d_pos d); discriminate).
  destruct (d_len d) eqn:El; try (destruct (d_pos d); discriminate).
  unfold fits in Hfit. rewrite Ec, Ew, Ep in Hfit. cbn [andb] in Hfit.
  assert (Ha : 0 <= a_int v < 2 ^ 64) by (clear - Hfit; lia).
  assert (Hf0 : has FZero d = false /\ has FMinus d = false /\ has FHash d = false).
  { unfold has. rewrite Efl. repeat split; reflexivity. }
  destruct Hf0 as [Hz [Hm Hh]].
  assert (Hw0 : eff_width d v = 0) by (unfold eff_width; rewrite Ew; reflexivity).
  destruct (Hpops (out ++ [48; 120]%N) t_ptr ctok_ptr) as [vs' Hpop]. eexists.
  unfold agent. cbn [N.eqb Pos.eqb orb]. unfold do_printf_chars. cbn [N.eqb Pos.eqb].
  rewrite F5, F1, F4, F7, Hz, Hm, Hh, Hw0. cbn [negb massert orb Z.abs Z.eqb Z.ltb Z.compare].
  mstep ltac:(reflexivity). mstep ltac:(reflexivity). mstep ltac:(reflexivity). mstep ltac:(reflexivity).
  mstep ltac:(apply emit_eval). cbn [ps_out ps_vs].
  mstep ltac:(exact Hpop).
  rewrite interp_ptr by assumption.
  unfold print_int_default.
  rewrite print_int_spec; [ | compute; discriminate | compute; discriminate | compute; discriminate | compute; discriminate
                          | change (Z.of_N 64 - 1) with 63; clear - Ha; lia ].
  mstep ltac:(reflexivity).
  replace (a_int v <? 0) with false by (clear - Ha; lia).
  rewrite print_digits_result_plain by (compute; discriminate).
  unfold iso_printf. rewrite Ec. rewrite emit_eval. cbn [ps_out ps_vs].
  replace (Z.to_N (Z.abs (a_int v))) with (Z.to_N (a_int v)) by (f_equal; clear - Ha; lia).
  rewrite <- app_assoc. reflexivity.
Qed.

(* ---- the theorem for every directive of the grammar *)
Lemma apply_flags_dollar : forall fl o, dollar_arg_pos (apply_flags fl o) = dollar_arg_pos o.
Proof.
  induction fl as [|f fl IH]; intros o; [reflexivity|]. cbn [apply_flags fold_left].
  fold (apply_flags fl (apply_flag f o)). rewrite IH. destruct o, f; reflexivity.
Qed.
Lemma width_opts_dollar : forall d v o, dollar_arg_pos (width_opts d v o) = dollar_arg_pos o.
Proof. intros d v o. unfold width_opts. destruct (d_width d); [| |destruct (a_width v <? 0)]; destruct o; reflexivity. Qed.
Lemma prec_opts_dollar : forall d v o, dollar_arg_pos (prec_opts d v o) = dollar_arg_pos o.
Proof. intros d v o. unfold prec_opts. destruct (d_prec d); [| | |destruct (0 <=? a_prec v)]; destruct o; reflexivity. Qed.

Lemma opts_from_pos : forall d v,
  arg_pos (opts_from d v) = match d_pos d with Some n => Z.of_N n - 1 | None => -1 end
  /\ dollar_arg_pos (opts_from d v) = dollar_of d.
Proof.
  intros d v. unfold opts_from.
  rewrite prec_opts_arg_pos, width_opts_arg_pos, apply_flags_arg_pos.
  rewrite prec_opts_dollar, width_opts_dollar, apply_flags_dollar.
  unfold base_opts, dollar_of. destruct (d_pos d); split; reflexivity.
Qed.

Lemma in_grammar_pos_ok : forall d, in_grammar d = true -> d_conv d <> Cpct -> pos_ok d = true.
Proof.
  intros d H Hc. unfold in_grammar in H.
  destruct (d_conv d) eqn:Ec; try congruence;
    repeat (apply andb_true_iff in H; let H' := fresh "H" in destruct H as [H H']); try assumption.
  destruct (d_flags d); [|destruct (d_pos d); discriminate].
  destruct (d_width d); try (destruct (d_pos d); discriminate).
  destruct (d_prec d); try (destruct (d_pos d); discriminate).
  destruct (d_len d); try (destruct (d_pos d); discriminate). assumption.
Qed.

Lemma concat_repeat1 : forall (x : N) (n : nat), concat (repeat [x] (S n)) = repeat x n ++ [x].
Proof.
  intros x n. induction n as [|n IH]; [reflexivity|].
  change (concat (repeat [x] (S (S n)))) with (x :: concat (repeat [x] (S n))). rewrite IH. reflexivity.
Qed.

Lemma value_slot_single : forall d v, d_conv d <> Cpct -> exists x, value_slot d v = [x].
Proof. intros d v H. unfold value_slot. destruct (d_conv d); try congruence; try (destruct (d_len d)); eexists; reflexivity. Qed.

(* the value slot is where the converted argument is fetched from: sequentially, or as the n-th of n slots *)
Lemma pops_value_args : forall d v x, in_grammar d = true -> d_conv d <> Cpct -> value_slot d v = [x] ->
  exists rest0, args_of d v = star_slots d v ++ rest0
                /\ pops_value (opts_from d v) (mk_vs rest0 ([] ++ star_pops d) cache_init 0) x.
Proof.
  intros d v x Hgr Hc Hx.
  pose proof (in_grammar_pos_ok d Hgr Hc) as Hpok.
  destruct (opts_from_pos d v) as [Hap Hdl].
  unfold args_of. destruct (d_pos d) as [n|] eqn:Ep.
  - (* n$ : no stars *)
    destruct (pos_ok_star d Hpok) as [Hws Hps].
    assert (Hstars : star_slots d v = [] /\ star_pops d = []).
    { unfold star_slots, star_pops. destruct (d_width d) eqn:Ew; [| |specialize (Hws eq_refl); congruence];
        (destruct (d_prec d) eqn:Epr; [| | |specialize (Hps eq_refl); congruence]); split; reflexivity. }
    destruct Hstars as [Hss Hsp]. rewrite Hss, Hsp. cbn [app].
    assert (Hn : (1 <= n <= 9)%N).
    { unfold pos_ok in Hpok. rewrite Ep in Hpok.
      apply andb_true_iff in Hpok. destruct Hpok as [Hpok _]. apply andb_true_iff in Hpok. destruct Hpok as [Hpok _].
      apply andb_true_iff in Hpok. destruct Hpok as [H1 H9]. lia. }
    rewrite Hx. replace (N.to_nat n) with (S (N.to_nat (n - 1))) by lia. rewrite concat_repeat1.
    eexists. split; [reflexivity|].
    apply (pops_value_pos (opts_from d v) n (repeat x (N.to_nat (n - 1))) x [] [] cache_init);
      [ exact Hap | rewrite Hdl; unfold dollar_of; rewrite Ep; reflexivity | exact Hn
      | apply repeat_length | unfold cache_init; rewrite repeat_length; lia ].
  - unfold star_slots. rewrite Hx. rewrite app_assoc. eexists. split; [reflexivity|].
    apply pops_value_seq. exact Hap.
Qed.

Theorem printf_conforms : forall d v,
  in_grammar d = true -> fits d v = true -> frigg_printf d v = Ok (iso_printf d v).
Proof.
  intros d v Hgr Hfit.
  destruct (d_conv d) eqn:Ec.
  10: { (* %% *)
    unfold in_grammar in Hgr. rewrite Ec in Hgr.
    destruct (d_pos d) eqn:Hpos; [discriminate|].
    destruct (d_flags d) eqn:Efl; [|discriminate].
    destruct (d_width d) eqn:Ew; try discriminate.
    destruct (d_prec d) eqn:Ep; try discriminate.
    destruct (d_len d) eqn:El; try discriminate.
    unfold frigg_printf, frigg_printf_with, iso_printf, args_of, value_slot, mem_of, render.
    rewrite Hpos, Ec, Ew, Ep. reflexivity. }
  all: assert (Hne : d_conv d <> Cpct) by (rewrite Ec; discriminate);
    destruct (in_grammar_parts d Hgr Hne) as [Hwok Hpok];
    destruct (fits_parts d v Hfit) as [Hwfit Hpfit];
    pose proof (in_grammar_pos_ok d Hgr Hne) as Hposok;
    destruct (value_slot_single d v Hne) as [x Hx];
    destruct (pops_value_args d v x Hgr Hne Hx) as [rest0 [Hargs Hpv]];
    unfold frigg_printf, frigg_printf_with, run_printf, printf_format; rewrite Hargs.
  1-6: (* integers *)
    assert (Hint : is_int_conv (d_conv d) = true) by (rewrite Ec; reflexivity);
    assert (Hxs : x = int_slot (d_len d) (a_int v)) by (rewrite (value_slot_int d v Hint) in Hx; inversion Hx; reflexivity);
    rewrite Hxs in Hpv;
    destruct (agent_int_gen (mem_of d v) d v [] _ Hint Hgr Hpv) as [vs2 Hag];
    rewrite (format_render_gen (agent (mem_of d v)) d v [] rest0 [] cache_init 0 _ Hposok Hne Hwok Hpok Hwfit Hpfit Hag);
    reflexivity.
  - (* c *)
    assert (Hxs : x = slot32 (a_int v)) by (unfold value_slot in Hx; rewrite Ec in Hx; inversion Hx; reflexivity).
    rewrite Hxs in Hpv.
    destruct (agent_char_gen (mem_of d v) d v [] _ Ec Hgr Hpv) as [vs2 Hag].
    change 99%N with (conv_char Cc) in Hag. rewrite <- Ec in Hag.
    rewrite (format_render_gen (agent (mem_of d v)) d v [] rest0 [] cache_init 0 _ Hposok Hne Hwok Hpok Hwfit Hpfit Hag).
    reflexivity.
  - (* s *)
    assert (Hxs : x = str_addr) by (unfold value_slot in Hx; rewrite Ec in Hx; inversion Hx; reflexivity).
    rewrite Hxs in Hpv.
    destruct (agent_str_gen d v [] _ Ec Hgr Hfit Hpv) as [vs2 Hag].
    change 115%N with (conv_char Cs) in Hag. rewrite <- Ec in Hag.
    rewrite (format_render_gen (agent (mem_of d v)) d v [] rest0 [] cache_init 0 _ Hposok Hne Hwok Hpok Hwfit Hpfit Hag).
    reflexivity.
  - (* p *)
    assert (Hxs : x = slot64 (a_int v)) by (unfold value_slot in Hx; rewrite Ec in Hx; inversion Hx; reflexivity).
    rewrite Hxs in Hpv.
    destruct (agent_ptr_gen (mem_of d v) d v [] _ Ec Hgr Hfit Hpv) as [vs2 Hag].
    change 112%N with (conv_char Cp) in Hag. rewrite <- Ec in Hag.
    rewrite (format_render_gen (agent (mem_of d v)) d v [] rest0 [] cache_init 0 _ Hposok Hne Hwok Hpok Hwfit Hpfit Hag).
    reflexivity.
Qed.
