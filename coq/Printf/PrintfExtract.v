From FV Require Import Common.ExtractTypes Printf.PrintIntModel Printf.PrintfModel Printf.IsoPrintf Printf.NamedArgs.
From Coq Require Extraction.
From Coq Require Import ExtrOcamlBasic.
Extraction "../build/extract/printf_core.ml" types_witness run_printf print_digits print_int default_locale
  iso_printf render in_grammar fits named_args.
