(* printf_format fetches exactly the arguments its format names (NamedArgs.named_args), for EVERY
   byte list: simulation between the index-based monadic parser of PrintfModel.v and the list-level
   scanner of NamedArgs.v. *)
From Coq Require Import String.
From Coq Require Import NArith ZArith List Bool Lia ZifyBool ZifyNat ZifyN.
From FV Require Import Printf.PrintIntModel Printf.IsoPrintf Printf.PrintIntProofs Printf.PrintfModel
  Printf.PrintfParse Printf.PrintfSafety Printf.PrintfConformGen Printf.NamedArgs.
Import ListNotations.
Local Open Scope Z_scope.

(* ---- the list view of a position *)
Lemma skipn_S_tl : forall (A : Type) n (l : list A), skipn (S n) l = tl (skipn n l).
Proof. intros A n. induction n as [|n IH]; intros l; destruct l; cbn [skipn tl]; try reflexivity. apply IH. Qed.

Lemma nth_hd_skipn : forall n (l : list N), nth n l 0%N = hd0 (skipn n l).
Proof. induction n as [|n IH]; intros l; destruct l; cbn [nth skipn]; try reflexivity. apply IH. Qed.

Lemma mbind_stop : forall A B (m : M A) (f : A -> M B) st st' w,
  m st = (st', AssertStop w) -> mbind m f st = (st', AssertStop w).
Proof. intros A B m f st st' w H. unfold mbind. rewrite H. reflexivity. Qed.

Section Bridge.
Variable s : list byte.
Definition sfx (pos : nat) : list N := skipn pos s.

Lemma rd_sfx : forall pos st, (pos <= length s)%nat -> read s pos st = (st, Ok (hd0 (sfx pos))).
Proof.
  intros pos st Hp. unfold read, sfx.
  destruct (Nat.ltb pos (length s)) eqn:E.
  - unfold ret. rewrite nth_hd_skipn. reflexivity.
  - apply Nat.ltb_ge in E. assert (pos = length s) by lia. subst pos. rewrite Nat.eqb_refl.
    rewrite skipn_all. reflexivity.
Qed.

Lemma sfx_S : forall pos, sfx (S pos) = tl (sfx pos).
Proof. intros. apply skipn_S_tl. Qed.
Lemma sfx_plus1 : forall pos, sfx (pos + 1) = tl (sfx pos).
Proof. intros. rewrite Nat.add_1_r. apply sfx_S. Qed.
Lemma sfx_plus2 : forall pos, sfx (pos + 2) = tl (tl (sfx pos)).
Proof. intros. replace (pos + 2)%nat with (S (S pos)) by lia. rewrite !sfx_S. reflexivity. Qed.

Lemma sfx_nonnil : forall pos, hd0 (sfx pos) <> 0%N -> (pos < length s)%nat.
Proof.
  intros pos H. destruct (Nat.ltb pos (length s)) eqn:E; [apply Nat.ltb_lt; assumption|].
  apply Nat.ltb_ge in E. unfold sfx in H. rewrite skipn_all2 in H by lia. cbn in H. congruence.
Qed.

Lemma sfx_cons : forall pos, (pos < length s)%nat -> sfx pos = hd0 (sfx pos) :: sfx (pos + 1).
Proof.
  intros pos H. rewrite sfx_plus1. unfold sfx. destruct (skipn pos s) eqn:E.
  - assert (length (skipn pos s) = 0%nat) by (rewrite E; reflexivity). rewrite skipn_length in H0. lia.
  - reflexivity.
Qed.

Lemma sfx_cons_ex : forall pos, (pos < length s)%nat -> exists c, sfx pos = c :: sfx (pos + 1).
Proof. intros pos H. eexists. apply sfx_cons. assumption. Qed.

Lemma assert_nz_sfx : forall pos st, (pos <= length s)%nat ->
  assert_nz s pos st = (st, if N.eqb (hd0 (sfx pos)) 0 then AssertStop "*s" else Ok tt).
Proof.
  intros pos st Hp. unfold assert_nz. erewrite mbind_ok by (apply rd_sfx; assumption).
  destruct (N.eqb (hd0 (sfx pos)) 0); reflexivity.
Qed.

Lemma assert_nz_ok : forall pos st, (pos <= length s)%nat -> N.eqb (hd0 (sfx pos)) 0 = false ->
  assert_nz s pos st = (st, Ok tt).
Proof. intros pos st Hp H. rewrite assert_nz_sfx by assumption. rewrite H. reflexivity. Qed.
Lemma assert_nz_stop : forall pos st, (pos <= length s)%nat -> N.eqb (hd0 (sfx pos)) 0 = true ->
  assert_nz s pos st = (st, AssertStop "*s").
Proof. intros pos st Hp H. rewrite assert_nz_sfx by assumption. rewrite H. reflexivity. Qed.

(* ---- the phases that do not touch the state *)
Lemma isdig_eq : forall c, is_digit c = isdig c. Proof. reflexivity. Qed.

Lemma set_flag_isflag : forall c o,
  (isflag c = true -> exists o', set_flag c o = Some o' /\ arg_pos o' = arg_pos o /\ precision o' = precision o)
  /\ (isflag c = false -> set_flag c o = None).
Proof.
  intros c o. destruct o as [cv mw ap da pr lj asg pbs alt fz gt uc]. unfold isflag, set_flag. split.
  - intros H.
    destruct (N.eqb c 45); [eexists; repeat split; reflexivity|].
    destruct (N.eqb c 43); [eexists; repeat split; reflexivity|].
    destruct (N.eqb c 32); [eexists; repeat split; reflexivity|].
    destruct (N.eqb c 35); [eexists; repeat split; reflexivity|].
    destruct (N.eqb c 48); [eexists; repeat split; reflexivity|].
    destruct (N.eqb c 39); [eexists; repeat split; reflexivity|]. discriminate.
  - intros H. destruct (N.eqb c 45), (N.eqb c 43), (N.eqb c 32), (N.eqb c 35), (N.eqb c 48), (N.eqb c 39); try discriminate. reflexivity.
Qed.

Lemma flags_loop_sim : forall fuel pos opts dollar st,
  (pos < length s)%nat -> (length s - pos < fuel)%nat -> opts_ok opts ->
  match sk_flags (sfx pos) (arg_pos opts) with
  | None => exists w, flags_loop s fuel pos opts dollar st = (st, AssertStop w)
  | Some (ap, l') => exists pos' opts' d',
      flags_loop s fuel pos opts dollar st = (st, Ok (pos', opts', d'))
      /\ (pos <= pos' < length s)%nat /\ sfx pos' = l' /\ arg_pos opts' = ap /\ opts_ok opts'
      /\ precision opts' = precision opts
  end.
Proof.
  induction fuel as [|fuel IH]; intros pos opts dollar st Hp Hf Ho; [lia|].
  destruct (sfx_cons_ex pos Hp) as [c Hc]. rewrite Hc. cbn [sk_flags flags_loop].
  erewrite mbind_ok by (apply rd_sfx; lia). rewrite Hc. cbn [hd0 hd]. change (isdig c) with (is_digit c).
  destruct (is_digit c) eqn:Ed; cbn [andb].
  - (* a digit: look at the next character *)
    assert (Hc0 : c <> 0%N) by (intro H0; rewrite H0 in Ed; discriminate).
    erewrite mbind_ok by (erewrite mbind_ok by (apply rd_sfx; lia); reflexivity).
    destruct (N.eqb (hd0 (sfx (pos + 1))) 36) eqn:E36.
    + (* n$ *)
      assert (Hp1 : (pos + 1 < length s)%nat) by (apply sfx_nonnil; intro H0; rewrite H0 in E36; discriminate).
      destruct (sfx_cons_ex (pos + 1)%nat Hp1) as [c1 Hc1]. rewrite Hc1.
      replace (pos + 1 + 1)%nat with (pos + 2)%nat in * by lia.
      cbv iota beta.
      destruct (N.eqb (hd0 (sfx (pos + 2))) 0) eqn:E0.
      * eexists. erewrite mbind_stop by (apply assert_nz_stop; [lia | assumption]). reflexivity.
      * assert (Hp2 : (pos + 2 < length s)%nat) by (apply sfx_nonnil; intro H0; rewrite H0 in E0; discriminate).
        erewrite mbind_ok by (apply assert_nz_ok; [lia | assumption]).
        assert (Ho' : opts_ok (set_arg_pos (Z.of_N c - 48 - 1) opts)).
        { apply set_arg_pos_ok; [|assumption]. unfold is_digit in Ed. lia. }
        specialize (IH (pos + 2)%nat (set_arg_pos (Z.of_N c - 48 - 1) opts) true st Hp2 ltac:(lia) Ho').
        assert (Hap : arg_pos (set_arg_pos (Z.of_N c - 48 - 1) opts) = Z.of_N c - 48 - 1) by (destruct opts; reflexivity).
        rewrite Hap in IH.
        destruct (sk_flags (sfx (pos + 2)) (Z.of_N c - 48 - 1)) as [[ap l']|].
        -- destruct IH as [pos' [opts' [d' [Hrun [Hpp [Hl [Ha [Hok Hpr]]]]]]]].
           exists pos', opts', d'. rewrite Hrun. split; [reflexivity | split; [lia | split; [assumption | split; [assumption | split; [assumption|]]]]].
           rewrite Hpr. destruct opts; reflexivity.
        -- exact IH.
    + (* a digit that is not followed by '$': '0' is a flag, the others end the flags *)
      destruct (set_flag_isflag c opts) as [Hyes Hno].
      destruct (isflag c) eqn:Ef.
      * destruct (Hyes eq_refl) as [o' [Hsf [Hap Hprc]]]. rewrite Hsf.
        cbv iota beta.
        destruct (N.eqb (hd0 (sfx (pos + 1))) 0) eqn:E0.
        -- eexists. erewrite mbind_stop by (apply assert_nz_stop; [lia | assumption]). reflexivity.
        -- assert (Hp1 : (pos + 1 < length s)%nat) by (apply sfx_nonnil; intro H0; rewrite H0 in E0; discriminate).
           erewrite mbind_ok by (apply assert_nz_ok; [lia | assumption]).
           specialize (IH (pos + 1)%nat o' dollar st Hp1 ltac:(lia) (set_flag_ok c opts o' Hsf Ho)).
           rewrite Hap in IH.
           destruct (sk_flags (sfx (pos + 1)) (arg_pos opts)) as [[ap l']|].
           ++ destruct IH as [pos' [opts' [d' [Hrun [Hpp [Hl [Ha [Hok Hpr]]]]]]]].
              exists pos', opts', d'. rewrite Hrun. split; [reflexivity | split; [lia | split; [assumption | split; [assumption | split; [assumption | congruence]]]]].
           ++ exact IH.
      * rewrite (Hno eq_refl). exists pos, opts, dollar. unfold ret.
        split; [reflexivity | split; [lia | split; [assumption | split; [reflexivity | split; [assumption | reflexivity]]]]].
  - (* not a digit *)
    erewrite mbind_ok by reflexivity.
    destruct (set_flag_isflag c opts) as [Hyes Hno].
    destruct (isflag c) eqn:Ef.
    + destruct (Hyes eq_refl) as [o' [Hsf [Hap Hprc]]]. rewrite Hsf.
      cbv iota beta.
      destruct (N.eqb (hd0 (sfx (pos + 1))) 0) eqn:E0.
      * eexists. erewrite mbind_stop by (apply assert_nz_stop; [lia | assumption]). reflexivity.
      * assert (Hp1 : (pos + 1 < length s)%nat) by (apply sfx_nonnil; intro H0; rewrite H0 in E0; discriminate).
        erewrite mbind_ok by (apply assert_nz_ok; [lia | assumption]).
        specialize (IH (pos + 1)%nat o' dollar st Hp1 ltac:(lia) (set_flag_ok c opts o' Hsf Ho)).
        rewrite Hap in IH.
        destruct (sk_flags (sfx (pos + 1)) (arg_pos opts)) as [[ap l']|].
        -- destruct IH as [pos' [opts' [d' [Hrun [Hpp [Hl [Ha [Hok Hpr]]]]]]]].
           exists pos', opts', d'. rewrite Hrun. split; [reflexivity | split; [lia | split; [assumption | split; [assumption | split; [assumption | congruence]]]]].
        -- exact IH.
    + rewrite (Hno eq_refl). exists pos, opts, dollar. unfold ret.
      split; [reflexivity | split; [lia | split; [assumption | split; [reflexivity | split; [assumption | reflexivity]]]]].
Qed.


Lemma number_loop_sim : forall fuel msg pos w st,
  (pos < length s)%nat -> (length s - pos < fuel)%nat -> 0 <= w <= INT_MAX ->
  match sk_number (sfx pos) w with
  | None => exists m, number_loop s fuel msg pos w st = (st, AssertStop m)
  | Some (v, l') => exists pos',
      number_loop s fuel msg pos w st = (st, Ok (pos', v))
      /\ (pos <= pos' < length s)%nat /\ sfx pos' = l' /\ 0 <= v <= INT_MAX
  end.
Proof.
  induction fuel as [|fuel IH]; intros msg pos w st Hp Hf Hw; [lia|].
  destruct (sfx_cons_ex pos Hp) as [c Hc]. rewrite Hc. cbn [sk_number number_loop].
  erewrite mbind_ok by (apply rd_sfx; lia). rewrite Hc. cbn [hd0 hd]. change (isdig c) with (is_digit c).
  destruct (is_digit c) eqn:Ed.
  - change 2147483647 with INT_MAX.
    destruct (w <=? (INT_MAX - (Z.of_N c - 48)) / 10) eqn:Ea.
    + cbn [massert]. erewrite mbind_ok by reflexivity.
      assert (Hd : 0 <= Z.of_N c - 48 <= 9) by (unfold is_digit in Ed; lia).
      assert (Hb : w * 10 + (Z.of_N c - 48) <= INT_MAX).
      { pose proof (Z.mul_div_le (INT_MAX - (Z.of_N c - 48)) 10 ltac:(lia)). lia. }
      replace (in_int (w * 10)) with true by (unfold in_int, INT_MIN, INT_MAX in *; lia).
      replace (in_int (w * 10 + (Z.of_N c - 48))) with true by (unfold in_int, INT_MIN, INT_MAX in *; lia).
      cbn [negb].
      destruct (N.eqb (hd0 (sfx (pos + 1))) 0) eqn:E0.
      * eexists. erewrite mbind_stop by (apply assert_nz_stop; [lia | assumption]). reflexivity.
      * assert (Hp1 : (pos + 1 < length s)%nat) by (apply sfx_nonnil; intro H0; rewrite H0 in E0; discriminate).
        erewrite mbind_ok by (apply assert_nz_ok; [lia | assumption]).
        specialize (IH msg (pos + 1)%nat (w * 10 + (Z.of_N c - 48)) st Hp1 ltac:(lia) ltac:(lia)).
        destruct (sk_number (sfx (pos + 1)) (w * 10 + (Z.of_N c - 48))) as [[v l']|].
        -- destruct IH as [pos' [Hrun [Hpp [Hl Hw']]]].
           exists pos'. rewrite Hrun. split; [reflexivity | split; [lia | split; assumption]].
        -- exact IH.
    + cbn [massert]. eexists. unfold mbind, fail_assert. reflexivity.
  - exists pos. unfold ret. split; [reflexivity | split; [lia | split; [exact Hc | assumption]]].
Qed.

Definition lmod_szmod (m : lmod) : printf_size_mod :=
  match m with
  | MNone => default_size | Mhh => char_size | Mh => short_size | Ml => long_size | Mll => longlong_size
  | Mz | Mt => native_size | Mj => intmax_size | ML => longdouble_size
  end.

Lemma parse_size_mod_sim : forall pos st, (pos < length s)%nat ->
  match sk_mod (sfx pos) with
  | None => exists w, parse_size_mod s pos st = (st, AssertStop w)
  | Some (m, l') => exists pos',
      parse_size_mod s pos st = (st, Ok (pos', lmod_szmod m)) /\ (pos <= pos' < length s)%nat /\ sfx pos' = l'
  end.
Proof.
  intros pos st Hp. unfold sk_mod, parse_size_mod.
  erewrite mbind_ok by (apply rd_sfx; lia).
  rewrite <- !sfx_plus1. replace (pos + 1 + 1)%nat with (pos + 2)%nat by lia.
  assert (Hstep1 : forall (K : unit -> M (nat * printf_size_mod)) r,
            N.eqb (hd0 (sfx (pos + 1))) 0 = false -> (K tt st = r) -> mbind (assert_nz s (pos + 1)) K st = r).
  { intros K r H0 HK. erewrite mbind_ok by (apply assert_nz_ok; [lia | assumption]). exact HK. }
  assert (Hstop1 : forall (K : unit -> M (nat * printf_size_mod)),
            N.eqb (hd0 (sfx (pos + 1))) 0 = true -> mbind (assert_nz s (pos + 1)) K st = (st, AssertStop "*s"%string)).
  { intros K H0. apply mbind_stop. apply assert_nz_stop; [lia | assumption]. }
  assert (Hp1 : N.eqb (hd0 (sfx (pos + 1))) 0 = false -> (pos + 1 < length s)%nat).
  { intros H0. apply sfx_nonnil. intro H1. rewrite H1 in H0. discriminate. }
  destruct (N.eqb (hd0 (sfx pos)) 108) eqn:El.
  { destruct (N.eqb (hd0 (sfx (pos + 1))) 0) eqn:E0; [eexists; apply Hstop1; reflexivity|].
    specialize (Hp1 eq_refl).
    erewrite Hstep1; [ | reflexivity | reflexivity ].
    erewrite mbind_ok by (apply rd_sfx; lia).
    destruct (N.eqb (hd0 (sfx (pos + 1))) 108).
    - destruct (N.eqb (hd0 (sfx (pos + 2))) 0) eqn:E2.
      + eexists. apply mbind_stop. apply assert_nz_stop; [lia | assumption].
      + erewrite mbind_ok by (apply assert_nz_ok; [lia | assumption]).
        assert ((pos + 2 < length s)%nat) by (apply sfx_nonnil; intro H1; rewrite H1 in E2; discriminate).
        exists (pos + 2)%nat. split; [reflexivity | split; [lia | reflexivity]].
    - exists (pos + 1)%nat. split; [reflexivity | split; [lia | reflexivity]]. }
  destruct (N.eqb (hd0 (sfx pos)) 122) eqn:Ez.
  { destruct (N.eqb (hd0 (sfx (pos + 1))) 0) eqn:E0; [eexists; apply Hstop1; reflexivity|].
    specialize (Hp1 eq_refl). erewrite Hstep1; [ | reflexivity | reflexivity ].
    exists (pos + 1)%nat. split; [reflexivity | split; [lia | reflexivity]]. }
  destruct (N.eqb (hd0 (sfx pos)) 76) eqn:EL.
  { destruct (N.eqb (hd0 (sfx (pos + 1))) 0) eqn:E0; [eexists; apply Hstop1; reflexivity|].
    specialize (Hp1 eq_refl). erewrite Hstep1; [ | reflexivity | reflexivity ].
    exists (pos + 1)%nat. split; [reflexivity | split; [lia | reflexivity]]. }
  destruct (N.eqb (hd0 (sfx pos)) 104) eqn:Eh.
  { destruct (N.eqb (hd0 (sfx (pos + 1))) 0) eqn:E0; [eexists; apply Hstop1; reflexivity|].
    specialize (Hp1 eq_refl).
    erewrite Hstep1; [ | reflexivity | reflexivity ].
    erewrite mbind_ok by (apply rd_sfx; lia).
    destruct (N.eqb (hd0 (sfx (pos + 1))) 104).
    - destruct (N.eqb (hd0 (sfx (pos + 2))) 0) eqn:E2.
      + eexists. apply mbind_stop. apply assert_nz_stop; [lia | assumption].
      + erewrite mbind_ok by (apply assert_nz_ok; [lia | assumption]).
        assert ((pos + 2 < length s)%nat) by (apply sfx_nonnil; intro H1; rewrite H1 in E2; discriminate).
        exists (pos + 2)%nat. split; [reflexivity | split; [lia | reflexivity]].
    - exists (pos + 1)%nat. split; [reflexivity | split; [lia | reflexivity]]. }
  destruct (N.eqb (hd0 (sfx pos)) 116) eqn:Et.
  { destruct (N.eqb (hd0 (sfx (pos + 1))) 0) eqn:E0; [eexists; apply Hstop1; reflexivity|].
    specialize (Hp1 eq_refl). erewrite Hstep1; [ | reflexivity | reflexivity ].
    exists (pos + 1)%nat. split; [reflexivity | split; [lia | reflexivity]]. }
  destruct (N.eqb (hd0 (sfx pos)) 106) eqn:Ej.
  { destruct (N.eqb (hd0 (sfx (pos + 1))) 0) eqn:E0; [eexists; apply Hstop1; reflexivity|].
    specialize (Hp1 eq_refl). erewrite Hstep1; [ | reflexivity | reflexivity ].
    exists (pos + 1)%nat. split; [reflexivity | split; [lia | reflexivity]]. }
  exists pos. split; [reflexivity | split; [lia | reflexivity]].
Qed.

Lemma drop_lit_cons : forall c r, drop_lit (c :: r) = if N.eqb c 0 || N.eqb c 37 then c :: r else drop_lit r.
Proof. reflexivity. Qed.

Lemma scan_literal_sim : forall fuel pos n st,
  (pos + n <= length s)%nat -> (length s - (pos + n) < fuel)%nat ->
  exists n', scan_literal s fuel pos n st = (st, Ok n')
             /\ (n <= n')%nat /\ (pos + n' <= length s)%nat /\ sfx (pos + n') = drop_lit (sfx (pos + n)).
Proof.
  induction fuel as [|fuel IH]; intros pos n st Hp Hf; [lia|]. cbn [scan_literal].
  erewrite mbind_ok by (apply rd_sfx; lia).
  destruct (negb (N.eqb (hd0 (sfx (pos + n))) 0) && negb (N.eqb (hd0 (sfx (pos + n))) 37)) eqn:E.
  - assert (Hlt : (pos + n < length s)%nat).
    { apply sfx_nonnil. intro H0. rewrite H0 in E. discriminate. }
    destruct (IH pos (n + 1)%nat st ltac:(lia) ltac:(lia)) as [n' [Hrun [Hn [Hl Hs]]]].
    exists n'. rewrite Hrun. split; [reflexivity | split; [lia | split; [assumption|]]].
    rewrite Hs. destruct (sfx_cons_ex (pos + n)%nat Hlt) as [c Hc].
    rewrite Hc in *. cbn [hd0 hd] in E. rewrite drop_lit_cons.
    replace (N.eqb c 0 || N.eqb c 37) with false by (destruct (N.eqb c 0), (N.eqb c 37); cbn in *; congruence).
    f_equal. f_equal. lia.
  - exists n. unfold ret. split; [reflexivity | split; [lia | split; [assumption|]]].
    destruct (Nat.ltb (pos + n) (length s)) eqn:El.
    + apply Nat.ltb_lt in El. destruct (sfx_cons_ex (pos + n)%nat El) as [c Hc].
      rewrite Hc in *. cbn [hd0 hd] in E. rewrite drop_lit_cons.
      replace (N.eqb c 0 || N.eqb c 37) with true by (destruct (N.eqb c 0), (N.eqb c 37); cbn in *; congruence).
      reflexivity.
    + apply Nat.ltb_ge in El. unfold sfx. rewrite skipn_all2 by lia. reflexivity.
Qed.

(* ------------------------------------------------------------------------------------------ *)
(* the phases that fetch arguments                                                              *)
(* ------------------------------------------------------------------------------------------ *)
Variable mem : memory.

Definition kind_va (k : argkind) : argty :=
  match k with KInt => ATInt | KLong => ATLong | KLLong => ATLLong | KPtr | KStr _ => ATPtr end.

(* the number of bytes a %s may read: [prev] is the argument fetched just before the string *)
Definition limit_of (lim : slimit) (prev : N) : option nat :=
  match lim with
  | SNone => None
  | SLit n => Some n
  | SStar => let p := interp t_int prev in if p <? 0 then None else Some (Z.to_nat p)
  end.

(* hypotheses on the argument list: a %s argument is a null pointer, or points to a buffer that contains a NUL
   within the precision or has at least `precision` bytes (IsoPrintf.has_nul_within: exactly what ISO C asks of
   the argument of %.Ns); without a precision the buffer must contain a NUL *)
Definition str_valid (lim : option nat) (v : Z) : Prop :=
  v = 0 \/ exists buf, mem_lookup mem (Z.to_N v) = Some buf /\ has_nul_within buf lim = true.
Definition arg_ok (prev : N) (k : argkind) (raw : N) : Prop :=
  forall lim, k = KStr lim -> str_valid (limit_of lim prev) (interp t_ptr raw).
Definition args_ok (prev0 : N) (ks : list argkind) (rest : list N) : Prop :=
  (length ks <= length rest)%nat
  /\ forall j, (j < length ks)%nat ->
       arg_ok (match j with O => prev0 | S j' => nth j' rest 0%N end) (nth j ks KInt) (nth j rest 0%N).

(* state invariant: the cache holds the positions named so far; cells named as (terminated) strings hold them *)
Definition inv (st : pstate) (ck : list argkind) : Prop :=
  (9 <= length (arg_list (ps_vs st)))%nat
  /\ num_args (ps_vs st) = Z.of_nat (length ck) /\ (length ck <= 9)%nat
  /\ forall i, (i < length ck)%nat -> nth i ck KInt = KStr SNone ->
       str_valid None (interp t_ptr (nth i (arg_list (ps_vs st)) 0%N)).

Definition is_prefix (a b : list argkind) : Prop := exists c, b = a ++ c.

Definition log (st : pstate) : list argty := va_pops (ps_vs st).

(* outcome of a computation that names ks: Ok -> fetched exactly ks; AssertStop -> a prefix; nothing else *)
Definition osim {A} (st : pstate) (ks ck' : list argkind) (res : pstate * outcome A) (Q : A -> Prop) : Prop :=
  match res with
  | (st', Ok a) => inv st' ck' /\ log st' = log st ++ map kind_va ks
                   /\ va_rest (ps_vs st') = skipn (length ks) (va_rest (ps_vs st)) /\ Q a
  | (st', AssertStop _) => exists pre, is_prefix pre ks /\ log st' = log st ++ map kind_va pre
  | _ => False
  end.

Lemma nth_skipn_plus : forall (A : Type) (l : list A) n j d, nth j (skipn n l) d = nth (n + j) l d.
Proof. intros A l. induction l as [|x r IH]; intros n j d; destruct n; cbn [skipn nth plus]; try reflexivity; [destruct j; reflexivity | apply IH]. Qed.

Lemma skipn_add : forall (A : Type) (l : list A) a b, skipn b (skipn a l) = skipn (a + b) l.
Proof. intros A l. induction l as [|x r IH]; intros a b; destruct a; cbn [skipn plus]; try reflexivity; [destruct b; reflexivity | apply IH]. Qed.

Definition last_prev (prev0 : N) (n : nat) (rest : list N) : N :=
  match n with O => prev0 | S n' => nth n' rest 0%N end.

Lemma args_ok_app : forall p k1 k2 rest, args_ok p (k1 ++ k2) rest ->
  args_ok p k1 rest /\ args_ok (last_prev p (length k1) rest) k2 (skipn (length k1) rest).
Proof.
  intros p k1 k2 rest [Hl Ha]. rewrite app_length in Hl. split.
  - split; [lia|]. intros j Hj. specialize (Ha j ltac:(rewrite app_length; lia)). rewrite app_nth1 in Ha by assumption. exact Ha.
  - split; [rewrite skipn_length; lia|]. intros j Hj.
    specialize (Ha (length k1 + j)%nat ltac:(rewrite app_length; lia)).
    rewrite app_nth2_plus in Ha. rewrite nth_skipn_plus.
    destruct j as [|j'].
    + rewrite Nat.add_0_r in *. unfold last_prev. exact Ha.
    + replace (length k1 + S j')%nat with (S (length k1 + j')) in * by lia.
      rewrite nth_skipn_plus. exact Ha.
Qed.

(* the previous argument only matters for a string whose precision is ".*" *)
Lemma args_ok_prev : forall p p' ks rest,
  (forall lim, nth 0 ks KInt = KStr lim -> lim <> SStar) -> args_ok p ks rest -> args_ok p' ks rest.
Proof.
  intros p p' ks rest Hns [Hl Ha]. split; [assumption|]. intros j Hj. specialize (Ha j Hj).
  destruct j as [|j']; [|exact Ha].
  intros lim Hk. specialize (Ha lim Hk). specialize (Hns lim Hk).
  destruct lim; try congruence; exact Ha.
Qed.

Lemma is_prefix_app_r : forall a b c, is_prefix a b -> is_prefix a (b ++ c).
Proof. intros a b c [d ->]. exists (d ++ c). rewrite app_assoc. reflexivity. Qed.
Lemma is_prefix_app_l : forall a b c, is_prefix b c -> is_prefix (a ++ b) (a ++ c).
Proof. intros a b c [d ->]. exists d. rewrite app_assoc. reflexivity. Qed.
Lemma is_prefix_nil : forall b, is_prefix [] b.
Proof. intros b. exists b. reflexivity. Qed.
Lemma is_prefix_refl : forall b, is_prefix b b.
Proof. intros b. exists []. rewrite app_nil_r. reflexivity. Qed.

(* sequencing *)
Lemma osim_bind : forall A B (m : M A) (f : A -> M B) st k1 ck1 k2 ck2 (Q1 : A -> Prop) (Q2 : B -> Prop),
  osim st k1 ck1 (m st) Q1 ->
  (forall a st1, inv st1 ck1 -> Q1 a -> va_rest (ps_vs st1) = skipn (length k1) (va_rest (ps_vs st)) ->
                 osim st1 k2 ck2 (f a st1) Q2) ->
  osim st (k1 ++ k2) ck2 (mbind m f st) Q2.
Proof.
  intros A B m f st k1 ck1 k2 ck2 Q1 Q2 H1 H2. unfold mbind.
  destruct (m st) as [st1 [a|w|w|]]; cbn [osim] in *; try contradiction.
  - destruct H1 as [Hinv [Hlog [Hrest HQ]]]. specialize (H2 a st1 Hinv HQ Hrest).
    destruct (f a st1) as [st2 [b|w|w|]]; cbn [osim] in *; try contradiction.
    + destruct H2 as [Hinv2 [Hlog2 [Hrest2 HQ2]]]. split; [assumption|]. split.
      * rewrite Hlog2, Hlog. rewrite map_app, app_assoc. reflexivity.
      * split; [|assumption]. rewrite Hrest2, Hrest. rewrite skipn_add. rewrite app_length. reflexivity.
    + destruct H2 as [pre [Hpre Hlog2]]. exists (k1 ++ pre). split; [apply is_prefix_app_l; assumption|].
      rewrite Hlog2, Hlog. rewrite map_app, app_assoc. reflexivity.
  - destruct H1 as [pre [Hpre Hlog]]. exists pre. split; [apply is_prefix_app_r; assumption | assumption].
Qed.

(* a computation that does not touch the state *)
Lemma osim_pure : forall A (r : outcome A) st ck (Q : A -> Prop),
  inv st ck -> match r with Ok a => Q a | AssertStop _ => True | _ => False end ->
  osim st [] ck (st, r) Q.
Proof.
  intros A r st ck Q Hinv H. destruct r; cbn [osim]; try contradiction.
  - split; [assumption|]. split; [cbn; rewrite app_nil_r; reflexivity|]. split; [reflexivity | assumption].
  - exists []. split; [apply is_prefix_nil | cbn; rewrite app_nil_r; reflexivity].
Qed.

Lemma set_nth_spec : forall (l : list N) i f l', set_nth l i f = Some l' ->
  forall j, nth j l' 0%N = if Nat.eqb j i then f (nth i l 0%N) else nth j l 0%N.
Proof.
  induction l as [|x r IH]; intros i f l' H j; cbn in H; [discriminate|].
  destruct i as [|i].
  - inversion H; subst. destruct j; reflexivity.
  - destruct (set_nth r i f) as [r'|] eqn:E; [|discriminate]. inversion H; subst.
    destruct j as [|j]; [reflexivity|]. cbn [nth Nat.eqb]. apply IH. assumption.
Qed.

Lemma pop_upto_full : forall k i ct st, ctype_ok ct -> 0 <= i ->
  i + Z.of_nat k <= Z.of_nat (length (arg_list (ps_vs st))) -> (k <= length (va_rest (ps_vs st)))%nat ->
  exists cache',
    pop_upto k i ct st
    = (mk_ps (ps_out st) (mk_vs (skipn k (va_rest (ps_vs st))) (va_pops (ps_vs st) ++ repeat (ct_va ct) k) cache' (num_args (ps_vs st))), Ok tt)
    /\ length cache' = length (arg_list (ps_vs st))
    /\ (forall j, (Z.of_nat j < i) -> nth j cache' 0%N = nth j (arg_list (ps_vs st)) 0%N)
    /\ (forall m, (m < k)%nat -> exists old,
           nth (Z.to_nat i + m) cache' 0%N = cell_write ct (interp ct (nth m (va_rest (ps_vs st)) 0%N)) old).
Proof.
  induction k as [|k IH]; intros i ct st Hok Hi Hb Hl.
  - destruct st as [o [vr vp al na]]. cbn [pop_upto ps_vs ps_out va_rest va_pops arg_list num_args repeat skipn] in *.
    exists al. unfold ret. rewrite app_nil_r. split; [reflexivity|]. split; [reflexivity|]. split; [intros; reflexivity|]. intros m Hm. lia.
  - destruct st as [o [vr vp al na]]. cbn [ps_vs ps_out va_rest va_pops arg_list num_args] in *.
    destruct vr as [|x vr]; [cbn in Hl; lia|]. cbn [pop_upto].
    erewrite mbind_ok by (unfold pop_va; cbn [ps_vs va_rest ps_out va_pops arg_list num_args]; reflexivity).
    destruct (set_nth_some al (Z.to_nat i) (cell_write ct (interp ct x)) ltac:(lia)) as [al1 Hc1].
    erewrite mbind_ok by (unfold write_member; replace (i <? 0) with false by lia;
                          cbn [ps_vs arg_list ps_out va_rest va_pops num_args]; rewrite Hc1; reflexivity).
    pose proof (set_nth_length _ _ _ _ Hc1) as Hlen1.
    pose proof (set_nth_spec _ _ _ _ Hc1) as Hspec1.
    destruct (IH (i + 1) ct (mk_ps o (mk_vs vr (vp ++ [ct_va ct]) al1 na)) Hok ltac:(lia)
                 ltac:(cbn [ps_vs arg_list]; lia) ltac:(cbn [ps_vs va_rest length] in *; lia))
      as [cache' [Hrun [Hlen [Hlow Hnew]]]].
    cbn [ps_vs ps_out va_rest va_pops arg_list num_args] in *.
    exists cache'. rewrite Hrun. split.
    { cbn [skipn repeat]. rewrite <- app_assoc. reflexivity. }
    split; [lia|]. split.
    + intros j Hj. rewrite Hlow by lia. rewrite Hspec1.
      replace (Nat.eqb j (Z.to_nat i)) with false by lia. reflexivity.
    + intros m Hm. destruct m as [|m].
      * exists (nth (Z.to_nat i) al 0%N). rewrite Nat.add_0_r. rewrite Hlow by lia. rewrite Hspec1.
        rewrite Nat.eqb_refl. reflexivity.
      * destruct (Hnew m ltac:(lia)) as [old Hold]. exists old.
        replace (Z.to_nat i + S m)%nat with (Z.to_nat (i + 1) + m)%nat by lia. exact Hold.
Qed.

Lemma nth_repeat_lt : forall (A : Type) (k d : A) n j, (j < n)%nat -> nth j (repeat k n) d = k.
Proof. intros A k d n. induction n as [|n IH]; intros j H; [lia|]. destruct j; cbn [repeat nth]; [reflexivity | apply IH; lia]. Qed.

Lemma map_repeat' : forall (A B : Type) (f : A -> B) x n, map f (repeat x n) = repeat (f x) n.
Proof. intros. induction n; cbn; [reflexivity | f_equal; assumption]. Qed.

Lemma kind_eqb_eq : forall a b, kind_eqb a b = true -> a = b.
Proof.
  intros a b H; destruct a as [| | | |l1], b as [| | | |l2]; try discriminate; try reflexivity.
  cbn in H. destruct l1, l2; try discriminate; try reflexivity. apply Nat.eqb_eq in H. subst. reflexivity.
Qed.

Lemma nth_error_nth_N : forall (l : list N) i, (i < length l)%nat -> nth_error l i = Some (nth i l 0%N).
Proof. intros l i H. apply nth_error_nth'. assumption. Qed.

(* pop_arg<T> names the arguments [fetch] says; asked for a string it returns a pointer that may be read up to the
   limit (sequential fetch), resp. to a terminated string (positional fetch) *)
Lemma pop_arg_sim : forall ct k opts st ck ks ck' prev0,
  ctype_ok ct -> ct_va ct = kind_va k -> (forall lim, k = KStr lim -> ct = t_ptr) ->
  inv st ck -> opts_ok opts ->
  fetch k (arg_pos opts) ck = Some (ks, ck') -> args_ok prev0 ks (va_rest (ps_vs st)) ->
  osim st ks ck' (pop_arg ct opts st)
       (fun v => - 2 ^ 63 <= v < 2 ^ 64
                 /\ (forall lim, k = KStr lim -> (arg_pos opts = -1 \/ lim = SNone) -> str_valid (limit_of lim prev0) v)
                 /\ (arg_pos opts = -1 -> v = interp ct (hd 0%N (va_rest (ps_vs st))))).
Proof.
  intros ct k opts st ck ks ck' prev0 Hct Hva Hstr Hinv [Hap [Hd Hw]] Hf Hargs.
  destruct Hinv as [Hcl [Hna [Hck9 Hcells]]].
  destruct st as [o [vr vp al na]]. cbn [ps_vs ps_out va_rest va_pops arg_list num_args] in *.
  unfold fetch in Hf. unfold pop_arg.
  destruct (arg_pos opts =? -1) eqn:E1.
  - (* sequential *)
    inversion Hf; subst ks ck'. clear Hf.
    destruct Hargs as [Hl Ha]. cbn [length] in Hl.
    destruct vr as [|raw vr]; [cbn in Hl; lia|].
    unfold pop_va. cbn [ps_vs va_rest ps_out va_pops arg_list num_args osim log map length skipn].
    split; [repeat split; assumption|]. split; [rewrite Hva; reflexivity|]. split; [reflexivity|].
    split; [apply interp_range; assumption|]. split; [|intros _; reflexivity].
    intros lim Hk _. specialize (Ha 0%nat ltac:(cbn; lia)). cbn [nth] in Ha. rewrite (Hstr lim Hk). apply Ha. assumption.
  - destruct Hd as [Hd | Hd]; [lia|]. rewrite Hd.
    erewrite mbind_ok by reflexivity. cbn [ps_vs num_args].
    destruct (arg_pos opts <? Z.of_nat (length ck)) eqn:E2.
    + (* a position that is cached already *)
      destruct (kind_eqb (nth (Z.to_nat (arg_pos opts)) ck KInt) k) eqn:Ek; [|discriminate].
      inversion Hf; subst ks ck'. clear Hf. apply kind_eqb_eq in Ek.
      replace (Z.to_nat (arg_pos opts + 1 - na)) with O by lia. cbn [pop_upto].
      erewrite mbind_ok by reflexivity.
      replace (na <=? arg_pos opts) with false by lia.
      erewrite mbind_ok by reflexivity.
      unfold read_member. replace (arg_pos opts <? 0) with false by lia.
      cbn [ps_vs arg_list]. rewrite nth_error_nth_N by lia.
      cbn [osim log ps_vs va_pops va_rest map length skipn]. rewrite app_nil_r.
      split; [repeat split; assumption|]. split; [reflexivity|]. split; [reflexivity|].
      split; [apply interp_range; assumption|]. split; [|intros; lia].
      intros lim Hk [Hm1 | Hsn]; [lia|]. subst lim. cbn [limit_of]. rewrite (Hstr SNone Hk). apply Hcells; [lia | congruence].
    + (* new positions: fetched from the va_list into the cache *)
      inversion Hf; subst ks ck'. clear Hf.
      set (n := Z.to_nat (arg_pos opts + 1 - Z.of_nat (length ck))) in *.
      assert (Hn : (1 <= n)%nat) by lia.
      destruct Hargs as [Hl Ha]. rewrite repeat_length in Hl, Ha.
      replace (Z.to_nat (arg_pos opts + 1 - na)) with n by lia.
      destruct (pop_upto_full n na ct (mk_ps o (mk_vs vr vp al na)) Hct ltac:(lia)
                  ltac:(cbn [ps_vs arg_list]; lia) ltac:(cbn [ps_vs va_rest]; lia))
        as [cache' [Hrun [Hlen [Hlow Hnew]]]].
      cbn [ps_vs ps_out va_rest va_pops arg_list num_args] in *.
      erewrite mbind_ok by (exact Hrun).
      replace (na <=? arg_pos opts) with true by lia.
      erewrite mbind_ok by reflexivity. cbn [ps_vs ps_out va_rest va_pops arg_list num_args].
      unfold read_member. replace (arg_pos opts <? 0) with false by lia.
      cbn [ps_vs arg_list]. rewrite nth_error_nth_N by lia.
      destruct (Hnew (n - 1)%nat ltac:(lia)) as [old Hold].
      replace (Z.to_nat na + (n - 1))%nat with (Z.to_nat (arg_pos opts)) in Hold by lia.
      rewrite Hold. rewrite interp_cell_write by assumption.
      cbn [osim log ps_vs va_pops va_rest arg_list num_args]. rewrite repeat_length.
      split.
      { (* the invariant for the extended cache *)
        unfold inv. cbn [ps_vs arg_list num_args].
        split; [lia|]. split; [rewrite app_length, repeat_length; lia|]. split; [rewrite app_length, repeat_length; lia|].
        intros i Hi Hki. rewrite app_length, repeat_length in Hi.
        destruct (Nat.ltb i (length ck)) eqn:Ei.
        - apply Nat.ltb_lt in Ei. rewrite app_nth1 in Hki by assumption.
          rewrite Hlow by lia. apply Hcells; assumption.
        - apply Nat.ltb_ge in Ei. rewrite app_nth2 in Hki by assumption.
          rewrite nth_repeat_lt in Hki by lia.
          destruct (Hnew (i - length ck)%nat ltac:(lia)) as [old' Hold'].
          replace (Z.to_nat na + (i - length ck))%nat with i in Hold' by lia.
          rewrite Hold'. rewrite (Hstr SNone Hki). rewrite interp_cell_write by (unfold ctype_ok; cbn; lia).
          specialize (Ha (i - length ck)%nat ltac:(lia)). rewrite nth_repeat_lt in Ha by lia.
          exact (Ha SNone Hki). }
      split; [rewrite map_repeat'; rewrite Hva; reflexivity|]. split; [reflexivity|].
      split; [apply interp_range; assumption|]. split; [|intros; lia].
      intros lim Hk [Hm1 | Hsn]; [lia|]. subst lim.
      specialize (Ha (n - 1)%nat ltac:(lia)). rewrite nth_repeat_lt in Ha by lia.
      rewrite (Hstr SNone Hk). exact (Ha SNone Hk).
Qed.

(* ---- small osim rules *)
Lemma osim_bind_l : forall A B (m : M A) (f : A -> M B) st ck1 k2 ck2 (Q1 : A -> Prop) (Q2 : B -> Prop),
  osim st [] ck1 (m st) Q1 ->
  (forall a st1, inv st1 ck1 -> Q1 a -> va_rest (ps_vs st1) = va_rest (ps_vs st) -> osim st1 k2 ck2 (f a st1) Q2) ->
  osim st k2 ck2 (mbind m f st) Q2.
Proof. intros. change k2 with ([] ++ k2). eapply osim_bind; eauto. Qed.

Lemma osim_bind_r : forall A B (m : M A) (f : A -> M B) st k1 ck1 ck2 (Q1 : A -> Prop) (Q2 : B -> Prop),
  osim st k1 ck1 (m st) Q1 ->
  (forall a st1, inv st1 ck1 -> Q1 a -> osim st1 [] ck2 (f a st1) Q2) ->
  osim st k1 ck2 (mbind m f st) Q2.
Proof. intros. rewrite <- (app_nil_r k1). eapply osim_bind; eauto. Qed.

Lemma osim_assert : forall b w st ck, inv st ck -> osim st [] ck (massert b w st) (fun _ => b = true).
Proof. intros b w st ck H. unfold massert. destruct b; apply osim_pure; auto. Qed.

Lemma osim_fail_assert : forall A w st ks ck (Q : A -> Prop), osim st ks ck (@fail_assert A w st) Q.
Proof. intros. cbn. exists []. split; [apply is_prefix_nil | rewrite app_nil_r; reflexivity]. Qed.

Lemma osim_emit : forall bs st ck, inv st ck -> osim st [] ck (emit bs st) (fun _ => True).
Proof.
  intros bs st ck H. unfold emit. cbn [osim log ps_vs map length skipn]. rewrite app_nil_r.
  split; [exact H|]. repeat split; reflexivity.
Qed.

Lemma osim_ret : forall A (a : A) st ck (Q : A -> Prop), inv st ck -> Q a -> osim st [] ck (ret a st) Q.
Proof. intros. apply osim_pure; assumption. Qed.

Lemma osim_lift_ok : forall A (o : outcome A) a st ck, inv st ck -> o = Ok a -> osim st [] ck (lift o st) (fun _ => True).
Proof. intros A o a st ck H ->. apply osim_pure; [assumption | exact I]. Qed.

Lemma osim_weaken : forall A st ks ck (r : pstate * outcome A) (Q Q' : A -> Prop),
  osim st ks ck r Q -> (forall a, Q a -> Q' a) -> osim st ks ck r Q'.
Proof. intros A st ks ck [st' [a|w|w|]] Q Q' H HQ; cbn [osim] in *; try assumption. destruct H as [H1 [H2 [H3 H4]]]. auto. Qed.

Lemma print_int_is_ok : forall number radix width prec padding lj gt asign pspace caps prefix,
  (radix = 2 \/ radix = 8 \/ radix = 10 \/ radix = 16)%N -> - 2 ^ 63 <= number < 2 ^ 64 ->
  exists o, print_int 64 number radix width prec padding lj gt asign pspace caps default_locale prefix = Ok o.
Proof.
  intros. rewrite print_int_spec; [eexists; reflexivity | lia | lia | lia | lia | change (Z.of_N 64 - 1) with 63; lia].
Qed.

(* ---- strings *)
Lemma has_nul_within_any : forall buf lim, has_nul_within buf None = true -> has_nul_within buf lim = true.
Proof.
  induction buf as [|c r IH]; intros lim H; [discriminate|].
  destruct lim as [[|m]|]; cbn [has_nul_within] in *; try reflexivity; try assumption.
  destruct (N.eqb c 0); [reflexivity|]. cbn [orb] in *. apply IH. assumption.
Qed.

Lemma strnlen_ok : forall buf lim acc, has_nul_within buf lim = true ->
  c_strnlen buf lim acc = Ok (acc + Z.of_nat (length (take_str buf lim))).
Proof. intros. rewrite PrintfStageB.strnlen_take by assumption. reflexivity. Qed.

Lemma copy_chars_ok : forall buf lim, has_nul_within buf lim = true ->
  exists o, copy_chars (length (take_str buf lim)) buf = Ok o.
Proof.
  induction buf as [|ch r IH]; intros lim H.
  - destruct lim as [[|m]|]; cbn in *; try discriminate; eexists; reflexivity.
  - destruct lim as [[|m]|]; cbn [take_str has_nul_within] in *.
    + eexists; reflexivity.
    + destruct (N.eqb ch 0) eqn:E; [eexists; reflexivity|]. cbn [orb] in H. cbn [length copy_chars]. rewrite E.
      destruct (IH (Some m) H) as [o Ho]. rewrite Ho. eexists; reflexivity.
    + destruct (N.eqb ch 0) eqn:E; [eexists; reflexivity|]. cbn [orb] in H. cbn [length copy_chars]. rewrite E.
      destruct (IH None H) as [o Ho]. rewrite Ho. eexists; reflexivity.
Qed.

(* the precision the parser left in opts, seen from the scanner: [pv] is the argument ".*" fetched *)
Definition prec_rel (lim : slimit) (pv : N) (po : option Z) : Prop :=
  match lim with
  | SNone => po = None
  | SLit n => po = Some (Z.of_nat n)
  | SStar => po = (let p := interp t_int pv in if 0 <=? p then Some p else None)
  end.

Lemma prec_rel_limit : forall lim pv po, prec_rel lim pv po ->
  match po with Some pr => if pr <? 0 then None else Some (Z.to_nat pr) | None => None end = limit_of lim pv.
Proof.
  intros lim pv po H. destruct lim; cbn [prec_rel limit_of] in *; subst po.
  - reflexivity.
  - replace (Z.of_nat n <? 0) with false by lia. rewrite Nat2Z.id. reflexivity.
  - cbv zeta. destruct (0 <=? interp t_int pv) eqn:E.
    + replace (interp t_int pv <? 0) with false by lia. reflexivity.
    + replace (interp t_int pv <? 0) with true by lia. reflexivity.
Qed.

Lemma osim_printf_string : forall opts st ck ks ck' lim pv,
  inv st ck -> opts_ok opts ->
  (arg_pos opts = -1 -> prec_rel lim pv (precision opts)) ->
  fetch (KStr (if arg_pos opts =? -1 then lim else SNone)) (arg_pos opts) ck = Some (ks, ck') ->
  args_ok pv ks (va_rest (ps_vs st)) ->
  osim st ks ck' (printf_string mem opts st) (fun _ => True).
Proof.
  intros opts st ck ks ck' lim pv Hinv Ho Hpr Hf Hargs. unfold printf_string.
  set (L := match precision opts with Some pr => if pr <? 0 then None else Some (Z.to_nat pr) | None => None end).
  eapply osim_bind_r.
  { apply (pop_arg_sim t_ptr (KStr (if arg_pos opts =? -1 then lim else SNone)) opts st ck ks ck' pv); try assumption; try reflexivity.
    unfold ctype_ok; cbn; lia. }
  intros p st1 Hinv1 [Hrange [Hsv _]]. cbv beta.
  (* the pointer may be read up to the parser's limit L *)
  assert (HsvL : str_valid L p).
  { destruct (arg_pos opts =? -1) eqn:E1.
    - assert (Hm1 : arg_pos opts = -1) by (apply Z.eqb_eq; exact E1).
      specialize (Hsv lim eq_refl (or_introl Hm1)).
      subst L. rewrite (prec_rel_limit lim pv (precision opts) (Hpr Hm1)). exact Hsv.
    - specialize (Hsv SNone eq_refl (or_intror eq_refl)). cbn [limit_of] in Hsv.
      destruct Hsv as [H0 | [buf [Hm Hn]]]; [left; assumption|].
      right. exists buf. split; [assumption | apply has_nul_within_any; assumption]. }
  assert (Hbuf : exists buf, (if p =? 0 then ret null_string
                              else match mem_lookup mem (Z.to_N p) with
                                   | Some b => ret b
                                   | None => fail_ub "string argument is not a valid pointer"
                                   end) st1 = (st1, Ok buf) /\ has_nul_within buf L = true).
  { destruct HsvL as [-> | [buf [Hm Hn]]].
    - exists null_string. split; [reflexivity | apply has_nul_within_any; reflexivity].
    - destruct (p =? 0); [exists null_string; split; [reflexivity | apply has_nul_within_any; reflexivity]|].
      rewrite Hm. exists buf. split; [reflexivity | assumption]. }
  destruct Hbuf as [buf [Hbuf Hnul]].
  erewrite mbind_ok by (exact Hbuf).
  assert (Hlen : (match precision opts with
                  | Some pr => c_strnlen buf (if pr <? 0 then None else Some (Z.to_nat pr)) 0
                  | None => c_strnlen buf None 0
                  end) = Ok (0 + Z.of_nat (length (take_str buf L)))).
  { subst L. destruct (precision opts) as [pr|]; apply strnlen_ok; assumption. }
  rewrite Hlen. erewrite mbind_ok by reflexivity.
  rewrite Z.add_0_l, Nat2Z.id.
  destruct (copy_chars_ok buf L Hnul) as [o Hcp]. rewrite Hcp.
  erewrite mbind_ok by reflexivity.
  destruct (left_justify opts); apply osim_emit; assumption.
Qed.

(* the string routines never touch index `limit`: they behave as if the buffer ended there *)
Lemma strnlen_reads_below_limit : forall buf p acc,
  c_strnlen buf (Some p) acc = c_strnlen (firstn p buf) (Some p) acc.
Proof.
  induction buf as [|c r IH]; intros p acc; destruct p as [|p]; cbn [c_strnlen firstn]; try reflexivity.
  destruct (N.eqb c 0); [reflexivity | apply IH].
Qed.
Lemma copy_chars_reads_below : forall n buf, copy_chars n buf = copy_chars n (firstn n buf).
Proof.
  induction n as [|n IH]; intros buf; [reflexivity|]. destruct buf as [|c r]; cbn [copy_chars firstn]; [reflexivity|].
  destruct (N.eqb c 0); [reflexivity|]. rewrite IH. reflexivity.
Qed.

(* ---- the agent *)
Definition int_kinds (m : lmod) : list argkind :=
  match m with ML => [] | Mll => [KLLong] | Ml | Mz | Mt | Mj => [KLong] | MNone | Mhh | Mh => [KInt] end.

Lemma conv_kinds_int : forall t m lim ap, is_int_conv_char t = true -> conv_kinds t m lim ap = int_kinds m.
Proof. intros t m lim ap H. unfold conv_kinds. rewrite H. destruct m; reflexivity. Qed.

Lemma signed_kind : forall m,
  match signed_type (lmod_szmod m) with
  | None => int_kinds m = []
  | Some ct => exists k, int_kinds m = [k] /\ ct_va ct = kind_va k /\ ctype_ok ct /\ (forall lim, k <> KStr lim)
  end.
Proof. intros m; destruct m; cbn; try reflexivity; eexists; (split; [reflexivity|]); (split; [reflexivity|]); (split; [unfold ctype_ok; cbn; lia | intros; discriminate]). Qed.
Lemma unsigned_kind : forall m,
  match unsigned_type (lmod_szmod m) with
  | None => int_kinds m = []
  | Some ct => exists k, int_kinds m = [k] /\ ct_va ct = kind_va k /\ ctype_ok ct /\ (forall lim, k <> KStr lim)
  end.
Proof. intros m; destruct m; cbn; try reflexivity; eexists; (split; [reflexivity|]); (split; [reflexivity|]); (split; [unfold ctype_ok; cbn; lia | intros; discriminate]). Qed.

Lemma osim_print_unsigned : forall opts number radix prec prefix gt caps st ck,
  inv st ck -> (radix = 2 \/ radix = 8 \/ radix = 10 \/ radix = 16)%N -> - 2 ^ 63 <= number < 2 ^ 64 ->
  osim st [] ck (print_unsigned opts number radix prec prefix gt caps st) (fun _ => True).
Proof.
  intros opts number radix prec prefix gt caps st ck Hinv Hr Hn. unfold print_unsigned.
  destruct (print_int_is_ok number radix (minimum_width opts) prec (padding_of opts) (left_justify opts) gt false false caps
              (if negb (number =? 0) && alt_conversion opts then prefix else []) Hr Hn) as [o Hpi].
  rewrite Hpi. erewrite mbind_ok by reflexivity. apply osim_emit. assumption.
Qed.

Lemma osim_pop_then : forall ct k opts st ck ks ck' prev0 (body : Z -> M unit),
  ctype_ok ct -> ct_va ct = kind_va k -> (forall lim, k <> KStr lim) ->
  inv st ck -> opts_ok opts -> fetch k (arg_pos opts) ck = Some (ks, ck') -> args_ok prev0 ks (va_rest (ps_vs st)) ->
  (forall number st1, inv st1 ck' -> - 2 ^ 63 <= number < 2 ^ 64 -> osim st1 [] ck' (body number st1) (fun _ => True)) ->
  osim st ks ck' (mbind (pop_arg ct opts) body st) (fun _ => True).
Proof.
  intros ct k opts st ck ks ck' prev0 body Hct Hva Hk Hinv Ho Hf Hargs Hbody.
  eapply osim_bind_r.
  - apply (pop_arg_sim ct k opts st ck ks ck' prev0); try assumption. intros lim Hl. exfalso. exact (Hk lim Hl).
  - intros number st1 Hinv1 [Hrange _]. apply Hbody; assumption.
Qed.

Lemma agent_sim : forall t m opts st ck lim pv,
  inv st ck -> opts_ok opts -> (arg_pos opts = -1 -> prec_rel lim pv (precision opts)) ->
  match fetch_list (conv_kinds t m lim (arg_pos opts)) (arg_pos opts) ck with
  | None => True
  | Some (ks, ck') => args_ok pv ks (va_rest (ps_vs st)) ->
                      osim st ks ck' (agent mem t opts (lmod_szmod m) st) (fun _ => True)
  end.
Proof.
  intros t m opts st ck lim pv Hinv Ho Hprel. unfold agent.
  destruct (N.eqb t 99 || N.eqb t 112 || N.eqb t 115) eqn:Echars.
  - (* c p s *)
    unfold do_printf_chars.
    destruct (N.eqb t 112) eqn:Ep.
    { apply N.eqb_eq in Ep. subst t. cbn [conv_kinds is_int_conv_char N.eqb Pos.eqb orb fetch_list].
      destruct (fetch KPtr (arg_pos opts) ck) as [[ks ck']|] eqn:Ef; [|exact I]. intros Hargs.
      eapply osim_bind_l; [apply osim_assert; eassumption|]. intros _ st1 Hi1 _ Hr1.
      eapply osim_bind_l; [apply osim_assert; eassumption|]. intros _ st2 Hi2 _ Hr2.
      eapply osim_bind_l; [apply osim_assert; eassumption|]. intros _ st3 Hi3 _ Hr3.
      eapply osim_bind_l; [apply osim_assert; eassumption|]. intros _ st4 Hi4 _ Hr4.
      eapply osim_bind_l; [apply osim_emit; eassumption|]. intros _ st5 Hi5 _ Hr5.
      apply (osim_pop_then t_ptr KPtr opts st5 ck ks ck' pv); try assumption; try reflexivity; try (intros; discriminate).
      { unfold ctype_ok; cbn; lia. }
      { rewrite Hr5, Hr4, Hr3, Hr2, Hr1. assumption. }
      intros number st6 Hi6 Hrange. unfold print_int_default.
      destruct (print_int_is_ok number 16 0 1 32%N false false false false false [] ltac:(lia) Hrange) as [o Hpi].
      rewrite Hpi. erewrite mbind_ok by reflexivity. apply osim_emit. assumption. }
    destruct (N.eqb t 99) eqn:Ec.
    { apply N.eqb_eq in Ec. subst t. cbn [conv_kinds is_int_conv_char N.eqb Pos.eqb orb fetch_list].
      destruct (fetch KInt (arg_pos opts) ck) as [[ks ck']|] eqn:Ef; [|exact I]. intros Hargs.
      eapply osim_bind_l; [apply osim_assert; eassumption|]. intros _ st1 Hi1 _ Hr1.
      eapply osim_bind_l; [apply osim_assert; eassumption|]. intros _ st2 Hi2 _ Hr2.
      eapply osim_bind_l; [apply osim_assert; eassumption|]. intros _ st3 Hi3 _ Hr3.
      eapply osim_bind_l; [apply osim_assert; eassumption|]. intros _ st4 Hi4 _ Hr4.
      destruct Ho as [Hap [Hd Hw]].
      replace (minimum_width opts =? INT_MIN) with false by (unfold INT_MIN; lia).
      assert (Ho' : opts_ok opts) by (repeat split; assumption || lia).
      destruct (left_justify opts).
      - apply (osim_pop_then t_char KInt opts st4 ck ks ck' pv); try assumption; try reflexivity; try (intros; discriminate).
        { unfold ctype_ok; cbn; lia. }
        { rewrite Hr4, Hr3, Hr2, Hr1. assumption. }
        intros ch st5 Hi5 _.
        eapply osim_bind_l; [apply osim_emit; eassumption|]. intros _ st6 Hi6 _ _. apply osim_emit. assumption.
      - eapply osim_bind_l; [apply osim_emit; eassumption|]. intros _ st5 Hi5 _ Hr5.
        apply (osim_pop_then t_char KInt opts st5 ck ks ck' pv); try assumption; try reflexivity; try (intros; discriminate).
        { unfold ctype_ok; cbn; lia. }
        { rewrite Hr5, Hr4, Hr3, Hr2, Hr1. assumption. }
        intros ch st6 Hi6 _. apply osim_emit. assumption. }
    destruct (N.eqb t 115) eqn:Es.
    { apply N.eqb_eq in Es. subst t. cbn [conv_kinds is_int_conv_char N.eqb Pos.eqb orb fetch_list].
      destruct (fetch (KStr (if arg_pos opts =? -1 then lim else SNone)) (arg_pos opts) ck) as [[ks ck']|] eqn:Ef; [|exact I]. intros Hargs.
      eapply osim_bind_l; [apply osim_assert; eassumption|]. intros _ st1 Hi1 _ Hr1.
      eapply osim_bind_l; [apply osim_assert; eassumption|]. intros _ st2 Hi2 _ Hr2.
      destruct (szmod_eqb (lmod_szmod m) default_size).
      - apply (osim_printf_string opts st2 ck ks ck' lim pv); try assumption. rewrite Hr2, Hr1. assumption.
      - eapply osim_bind_l; [apply osim_assert; eassumption|]. intros _ st3 Hi3 _ Hr3.
        apply (osim_printf_string opts st3 ck ks ck' lim pv); try assumption. rewrite Hr3, Hr2, Hr1. assumption. }
    try rewrite Ep in Echars; try rewrite Ec in Echars; try rewrite Es in Echars; discriminate.
  - (* everything else goes to do_printf_ints *)
    apply orb_false_iff in Echars. destruct Echars as [Echars E115].
    apply orb_false_iff in Echars. destruct Echars as [E99 E112].
    unfold do_printf_ints.
    destruct (N.eqb t 100 || N.eqb t 105) eqn:Edi.
    { assert (Hic : is_int_conv_char t = true) by (unfold is_int_conv_char; destruct (N.eqb t 100), (N.eqb t 105); cbn in *; congruence).
      rewrite (conv_kinds_int t m lim (arg_pos opts) Hic).
      pose proof (signed_kind m) as Hsk.
      destruct (signed_type (lmod_szmod m)) as [ct|].
      - destruct Hsk as [k [Hk [Hva [Hct Hns]]]]. rewrite Hk. cbn [fetch_list].
        destruct (fetch k (arg_pos opts) ck) as [[ks ck']|] eqn:Ef; [|exact I]. intros Hargs.
        eapply osim_bind_l; [apply osim_assert; eassumption|]. intros _ st1 Hi1 _ Hr1.
        apply (osim_pop_then ct k opts st1 ck ks ck' pv); try assumption.
        { rewrite Hr1. assumption. }
        intros number st2 Hi2 Hrange.
        destruct (print_int_is_ok number 10 (minimum_width opts) (prec_or_1 opts) (padding_of opts) (left_justify opts)
                    (group_thousands opts) (always_sign opts) (plus_becomes_space opts) false [] ltac:(lia) Hrange) as [o Hpi].
        rewrite Hpi. erewrite mbind_ok by reflexivity. apply osim_emit. assumption.
      - rewrite Hsk. cbn [fetch_list]. intros _.
        eapply osim_bind_l; [apply osim_assert; eassumption|]. intros _ st1 Hi1 _ Hr1. apply osim_fail_assert. }
    destruct (N.eqb t 98 || N.eqb t 66 || N.eqb t 111 || N.eqb t 120 || N.eqb t 88) eqn:Ebox.
    { assert (Hic : is_int_conv_char t = true).
      { unfold is_int_conv_char. destruct (N.eqb t 100), (N.eqb t 105), (N.eqb t 98), (N.eqb t 66), (N.eqb t 111), (N.eqb t 120), (N.eqb t 88); cbn in *; congruence. }
      rewrite (conv_kinds_int t m lim (arg_pos opts) Hic).
      pose proof (unsigned_kind m) as Hsk.
      destruct (unsigned_type (lmod_szmod m)) as [ct|].
      - destruct Hsk as [k [Hk [Hva [Hct Hns]]]]. rewrite Hk. cbn [fetch_list].
        destruct (fetch k (arg_pos opts) ck) as [[ks ck']|] eqn:Ef; [|exact I]. intros Hargs.
        apply (osim_pop_then ct k opts st ck ks ck' pv); try assumption.
        intros number st2 Hi2 Hrange.
        destruct (N.eqb t 98); [apply osim_print_unsigned; [assumption | lia | assumption]|].
        destruct (N.eqb t 66); [apply osim_print_unsigned; [assumption | lia | assumption]|].
        destruct (N.eqb t 111); [apply osim_print_unsigned; [assumption | lia | assumption]|].
        destruct (N.eqb t 120); apply osim_print_unsigned; try assumption; lia.
      - rewrite Hsk. cbn [fetch_list]. intros _. apply osim_fail_assert. }
    destruct (N.eqb t 117) eqn:Eu.
    { assert (Hic : is_int_conv_char t = true).
      { unfold is_int_conv_char. rewrite Eu. rewrite !orb_true_r. reflexivity. }
      rewrite (conv_kinds_int t m lim (arg_pos opts) Hic).
      pose proof (unsigned_kind m) as Hsk.
      destruct (unsigned_type (lmod_szmod m)) as [ct|].
      - destruct Hsk as [k [Hk [Hva [Hct Hns]]]]. rewrite Hk. cbn [fetch_list].
        destruct (fetch k (arg_pos opts) ck) as [[ks ck']|] eqn:Ef; [|exact I]. intros Hargs.
        apply (osim_pop_then ct k opts st ck ks ck' pv); try assumption.
        intros number st2 Hi2 Hrange.
        eapply osim_bind_l; [apply osim_assert; eassumption|]. intros _ st3 Hi3 _ Hr3.
        apply osim_print_unsigned; [assumption | lia | assumption].
      - rewrite Hsk. cbn [fetch_list]. intros _. apply osim_fail_assert. }
    (* no conversion of the model *)
    assert (Hck : conv_kinds t m lim (arg_pos opts) = []).
    { unfold conv_kinds.
      assert (Hic : is_int_conv_char t = false).
      { unfold is_int_conv_char. apply orb_false_iff in Edi. destruct Edi as [E1 E2]. rewrite E1, E2. cbn [orb].
        repeat (apply orb_false_iff in Ebox; destruct Ebox as [Ebox ?]).
        rewrite Ebox. repeat match goal with H : N.eqb t _ = false |- _ => rewrite H end. reflexivity. }
      rewrite Hic, E99, E115, E112. reflexivity. }
    rewrite Hck. cbn [fetch_list]. intros _. apply osim_fail_assert.
Qed.

(* ---- one directive *)
Lemma arg_pos_set_width : forall w o, arg_pos (set_width w o) = arg_pos o. Proof. intros w o; destruct o; reflexivity. Qed.
Lemma arg_pos_set_left : forall o, arg_pos (set_left o) = arg_pos o. Proof. intros o; destruct o; reflexivity. Qed.
Lemma arg_pos_set_precision : forall p o, arg_pos (set_precision p o) = arg_pos o. Proof. intros p o; destruct o; reflexivity. Qed.

Lemma precision_set_width : forall w o, precision (set_width w o) = precision o. Proof. intros w o; destruct o; reflexivity. Qed.
Lemma precision_set_left : forall o, precision (set_left o) = precision o. Proof. intros o; destruct o; reflexivity. Qed.
Lemma precision_set_precision : forall p o, precision (set_precision p o) = Some p. Proof. intros p o; destruct o; reflexivity. Qed.

Definition wpost (pos1 : nat) (l2 : list N) (ap : Z) (pr : option Z) (y : nat * format_options) : Prop :=
  (pos1 <= fst y < length s)%nat /\ sfx (fst y) = l2 /\ opts_ok (snd y) /\ arg_pos (snd y) = ap /\ precision (snd y) = pr.
Definition ppost (pos2 : nat) (l4 : list N) (ap : Z) (lim : slimit) (pv : N) (y : nat * format_options) : Prop :=
  (pos2 <= fst y < length s)%nat /\ sfx (fst y) = l4 /\ opts_ok (snd y) /\ arg_pos (snd y) = ap
  /\ (ap = -1 -> prec_rel lim pv (precision (snd y))).

Lemma osim_star_width : forall w opts st ck, inv st ck -> opts_ok opts ->
  osim st [] ck (star_width w opts st) (fun o => opts_ok o /\ arg_pos o = arg_pos opts /\ precision o = precision opts).
Proof.
  intros w opts st ck Hinv Ho. unfold star_width. destruct (w <? 0) eqn:Ew.
  - eapply osim_bind_l; [apply osim_assert; eassumption|]. intros _ st2 Hi2 _ _.
    apply osim_ret; [assumption|]. split; [|split].
    + apply set_width_ok; [lia | apply set_left_ok; assumption].
    + rewrite arg_pos_set_width, arg_pos_set_left. reflexivity.
    + rewrite precision_set_width, precision_set_left. reflexivity.
  - apply osim_ret; [assumption|]. split; [apply set_width_ok; [lia | assumption] | split; [apply arg_pos_set_width | apply precision_set_width]].
Qed.

Lemma width_sim : forall fuel pos1 opts st ck,
  (pos1 < length s)%nat -> (length s - pos1 < fuel)%nat -> inv st ck -> opts_ok opts ->
  let comp :=
    (if N.eqb (hd0 (sfx pos1)) 42 then
       _ <-- assert_nz s (pos1 + 1) ;;;
       w <-- pop_arg t_int opts ;;;
       o <-- star_width w opts ;;;
       ret ((pos1 + 1)%nat, o)
     else
       z <-- number_loop s fuel msg_width_overflow pos1 0 ;;;
       ret (fst z, set_width (snd z) opts)) in
  match (if N.eqb (hd0 (sfx pos1)) 42 then
           (if N.eqb (hd0 (tl (sfx pos1))) 0 then WCut
            else match fetch KInt (arg_pos opts) ck with None => WConf | Some (k1, ck1) => WOk k1 ck1 (tl (sfx pos1)) end)
         else match sk_number (sfx pos1) 0 with None => WCut | Some (_, l2) => WOk [] ck l2 end) with
  | WConf => True
  | WCut => osim st [] ck (comp st) (fun _ => False)
  | WOk k1 ck1 l2 => forall prev, args_ok prev k1 (va_rest (ps_vs st)) ->
                     osim st k1 ck1 (comp st) (wpost pos1 l2 (arg_pos opts) (precision opts))
  end.
Proof.
  intros fuel pos1 opts st ck Hp Hf Hinv Ho. cbv zeta.
  destruct (N.eqb (hd0 (sfx pos1)) 42) eqn:E42.
  - rewrite <- sfx_plus1.
    destruct (N.eqb (hd0 (sfx (pos1 + 1))) 0) eqn:E0.
    + erewrite mbind_stop by (apply assert_nz_stop; [lia | assumption]).
      cbn. exists []. split; [apply is_prefix_nil | rewrite app_nil_r; reflexivity].
    + assert (Hp1 : (pos1 + 1 < length s)%nat) by (apply sfx_nonnil; intro H0; rewrite H0 in E0; discriminate).
      destruct (fetch KInt (arg_pos opts) ck) as [[k1 ck1]|] eqn:Ef; [|exact I]. intros prev Hargs.
      erewrite mbind_ok by (apply assert_nz_ok; [lia | assumption]).
      eapply osim_bind_r.
      { apply (pop_arg_sim t_int KInt opts st ck k1 ck1 prev); try assumption; try reflexivity; try (intros; discriminate).
        unfold ctype_ok; cbn; lia. }
      intros w st1 Hi1 _. cbv beta.
      eapply osim_bind_l.
      { apply (osim_star_width w opts st1 ck1); assumption. }
      intros o st2 Hi2 [Hoo [Hoa Hop]] _. cbv beta.
      apply osim_ret; [assumption|]. unfold wpost. cbn [fst snd].
      split; [lia|]. split; [reflexivity|]. split; [assumption|]. split; assumption.
  - pose proof (number_loop_sim fuel msg_width_overflow pos1 0 st Hp Hf ltac:(unfold INT_MAX; lia)) as Hn.
    destruct (sk_number (sfx pos1) 0) as [[v l2]|].
    + destruct Hn as [pos' [Hrun [Hpp [Hl Hw']]]]. intros prev _.
      erewrite mbind_ok by (exact Hrun). apply osim_ret; [assumption|]. unfold wpost. cbn [fst snd].
      split; [lia|]. split; [assumption|]. split; [apply set_width_ok; [lia | assumption]|].
      split; [apply arg_pos_set_width | apply precision_set_width].
    + destruct Hn as [m Hrun]. erewrite mbind_stop by (exact Hrun).
      cbn. exists []. split; [apply is_prefix_nil | rewrite app_nil_r; reflexivity].
Qed.

Lemma prec_sim : forall fuel pos2 opts st ck,
  (pos2 < length s)%nat -> (length s - pos2 < fuel)%nat -> inv st ck -> opts_ok opts -> precision opts = None ->
  let comp :=
    (if N.eqb (hd0 (sfx pos2)) 46 then
       _ <-- assert_nz s (pos2 + 1) ;;;
       c1 <-- read s (pos2 + 1) ;;;
       if N.eqb c1 42 then
         _ <-- assert_nz s (pos2 + 2) ;;;
         p <-- pop_arg t_int opts ;;;
         ret ((pos2 + 2)%nat, if 0 <=? p then set_precision p opts else opts)
       else
         z <-- number_loop s fuel msg_precision_overflow (pos2 + 1) 0 ;;;
         ret (fst z, set_precision (snd z) opts)
     else ret (pos2, opts)) in
  match (if N.eqb (hd0 (sfx pos2)) 46 then
           let l3 := tl (sfx pos2) in
           if N.eqb (hd0 l3) 0 then PCut
           else if N.eqb (hd0 l3) 42 then
             (if N.eqb (hd0 (tl l3)) 0 then PCut
              else match fetch KInt (arg_pos opts) ck with None => PConf | Some (k2, ck2) => POk k2 ck2 (tl l3) SStar end)
           else match sk_number l3 0 with None => PCut | Some (v, l4) => POk [] ck l4 (SLit (Z.to_nat v)) end
         else POk [] ck (sfx pos2) SNone) with
  | PConf => True
  | PCut => osim st [] ck (comp st) (fun _ => False)
  | POk k2 ck2 l4 lim => forall prev, args_ok prev k2 (va_rest (ps_vs st)) ->
                         osim st k2 ck2 (comp st) (ppost pos2 l4 (arg_pos opts) lim (hd 0%N (va_rest (ps_vs st))))
  end.
Proof.
  intros fuel pos2 opts st ck Hp Hf Hinv Ho Hpn. cbv zeta.
  destruct (N.eqb (hd0 (sfx pos2)) 46) eqn:E46.
  - rewrite <- sfx_plus1.
    destruct (N.eqb (hd0 (sfx (pos2 + 1))) 0) eqn:E0.
    + erewrite mbind_stop by (apply assert_nz_stop; [lia | assumption]).
      cbn. exists []. split; [apply is_prefix_nil | rewrite app_nil_r; reflexivity].
    + assert (Hp1 : (pos2 + 1 < length s)%nat) by (apply sfx_nonnil; intro H0; rewrite H0 in E0; discriminate).
      erewrite mbind_ok by (apply assert_nz_ok; [lia | assumption]).
      erewrite mbind_ok by (apply rd_sfx; lia).
      destruct (N.eqb (hd0 (sfx (pos2 + 1))) 42) eqn:E42.
      * rewrite <- sfx_plus1. replace (pos2 + 1 + 1)%nat with (pos2 + 2)%nat by lia.
        destruct (N.eqb (hd0 (sfx (pos2 + 2))) 0) eqn:E02.
        -- erewrite mbind_stop by (apply assert_nz_stop; [lia | assumption]).
           cbn. exists []. split; [apply is_prefix_nil | rewrite app_nil_r; reflexivity].
        -- assert (Hp2 : (pos2 + 2 < length s)%nat) by (apply sfx_nonnil; intro H0; rewrite H0 in E02; discriminate).
           destruct (fetch KInt (arg_pos opts) ck) as [[k2 ck2]|] eqn:Ef; [|exact I]. intros prev Hargs.
           erewrite mbind_ok by (apply assert_nz_ok; [lia | assumption]).
           eapply osim_bind_r.
           { apply (pop_arg_sim t_int KInt opts st ck k2 ck2 prev); try assumption; try reflexivity; try (intros; discriminate).
             unfold ctype_ok; cbn; lia. }
           intros p st1 Hi1 [_ [_ Hpv]]. cbv beta.
           apply osim_ret; [assumption|]. unfold ppost. cbn [fst snd].
           split; [lia|]. split; [reflexivity|].
           destruct (0 <=? p) eqn:Ep0.
           ++ split; [apply set_precision_ok; assumption|]. split; [apply arg_pos_set_precision|].
              intros Hm1. cbn [prec_rel]. rewrite precision_set_precision. rewrite <- (Hpv Hm1). cbv zeta. rewrite Ep0. reflexivity.
           ++ split; [assumption|]. split; [reflexivity|].
              intros Hm1. cbn [prec_rel]. rewrite Hpn. rewrite <- (Hpv Hm1). cbv zeta. rewrite Ep0. reflexivity.
      * pose proof (number_loop_sim fuel msg_precision_overflow (pos2 + 1)%nat 0 st Hp1 ltac:(lia) ltac:(unfold INT_MAX; lia)) as Hn.
        destruct (sk_number (sfx (pos2 + 1)) 0) as [[v l4]|].
        -- destruct Hn as [pos' [Hrun [Hpp [Hl Hw']]]]. intros prev _.
           erewrite mbind_ok by (exact Hrun). apply osim_ret; [assumption|]. unfold ppost. cbn [fst snd].
           split; [lia|]. split; [assumption|]. split; [apply set_precision_ok; assumption|]. split; [apply arg_pos_set_precision|].
           intros _. cbn [prec_rel]. rewrite precision_set_precision. rewrite Z2Nat.id by lia. reflexivity.
        -- destruct Hn as [m Hrun]. erewrite mbind_stop by (exact Hrun).
           cbn. exists []. split; [apply is_prefix_nil | rewrite app_nil_r; reflexivity].
  - intros prev _. apply osim_ret; [assumption|]. unfold ppost. cbn [fst snd].
    split; [lia|]. split; [reflexivity|]. split; [assumption|]. split; [reflexivity|]. intros _. exact Hpn.
Qed.

Lemma osim_false_bind : forall A B (m : M A) (f : A -> M B) st k ck ck2 (Q2 : B -> Prop),
  osim st k ck (m st) (fun _ => False) -> osim st k ck2 (mbind m f st) Q2.
Proof. intros. eapply osim_bind_r; [eassumption | intros a st1 _ []]. Qed.

Lemma conv_fetch_star : forall t m lim ap ck k3 ck3,
  fetch_list (conv_kinds t m lim ap) ap ck = Some (k3, ck3) -> nth 0 k3 KInt = KStr SStar -> lim = SStar /\ ap = -1.
Proof.
  intros t m lim ap ck k3 ck3 Hf Hn. unfold conv_kinds in Hf.
  assert (Hgen : forall k, (forall l, k = KStr l -> l = (if ap =? -1 then lim else SNone)) ->
                           fetch k ap ck = Some (k3, ck3) -> lim = SStar /\ ap = -1).
  { intros k Hk Hfk. unfold fetch in Hfk.
    assert (Hk3 : k = KStr SStar).
    { destruct (ap =? -1); [inversion Hfk; subst; cbn in Hn; assumption|].
      destruct (ap <? Z.of_nat (length ck)).
      - destruct (kind_eqb _ k); inversion Hfk; subst; cbn in Hn; discriminate.
      - inversion Hfk; subst. destruct (Z.to_nat (ap + 1 - Z.of_nat (length ck))); cbn in Hn; [discriminate | assumption]. }
    specialize (Hk SStar Hk3). destruct (ap =? -1) eqn:E; [|discriminate]. split; [congruence | lia]. }
  destruct (is_int_conv_char t).
  { destruct m; cbn [fetch_list] in Hf; try (inversion Hf; subst; cbn in Hn; discriminate);
      (eapply Hgen; [|exact Hf]; intros l Hl; discriminate). }
  destruct (N.eqb t 99); [cbn [fetch_list] in Hf; eapply Hgen; [|exact Hf]; intros l Hl; discriminate|].
  destruct (N.eqb t 115); [cbn [fetch_list] in Hf; eapply Hgen; [|exact Hf]; intros l Hl; inversion Hl; reflexivity|].
  destruct (N.eqb t 112); [cbn [fetch_list] in Hf; eapply Hgen; [|exact Hf]; intros l Hl; discriminate|].
  cbn [fetch_list] in Hf. inversion Hf; subst. cbn in Hn. discriminate.
Qed.

Lemma pexpr_star : forall (b1 b2 b3 b4 : bool) ap ck1 (l3t l2 : list N) (num : option (Z * list N)) k2 ck2 l4,
  (if b1 then
     if b2 then PCut
     else if b3 then (if b4 then PCut else match fetch KInt ap ck1 with None => PConf | Some (k2, ck2) => POk k2 ck2 l3t SStar end)
          else match num with None => PCut | Some (v, l4) => POk [] ck1 l4 (SLit (Z.to_nat v)) end
   else POk [] ck1 l2 SNone) = POk k2 ck2 l4 SStar ->
  ap = -1 -> k2 = [KInt].
Proof.
  intros b1 b2 b3 b4 ap ck1 l3t l2 num k2 ck2 l4 H Hap. subst ap.
  destruct b1; [|discriminate]. destruct b2; [discriminate|]. destruct b3.
  - destruct b4; [discriminate|]. cbn in H. inversion H. reflexivity.
  - destruct num as [[v l]|]; discriminate.
Qed.

Lemma hd_nth0 : forall (l : list N), hd 0%N l = nth 0 l 0%N.
Proof. intros [|x r]; reflexivity. Qed.

Lemma directive_sim : forall pos dollar st ck,
  (pos < length s)%nat -> inv st ck ->
  match sk_directive (sfx pos) ck with
  | DConf => True
  | DCut ks => forall prev, args_ok prev ks (va_rest (ps_vs st)) ->
               osim st ks ck (parse_directive s (agent mem) pos dollar st) (fun _ => False)
  | DOk ks ck' l' => forall prev, args_ok prev ks (va_rest (ps_vs st)) ->
                     osim st ks ck' (parse_directive s (agent mem) pos dollar st)
                          (fun x => (pos < fst x <= length s)%nat /\ sfx (fst x) = l')
  end.
Proof.
  intros pos dollar st ck Hp Hinv. unfold sk_directive, parse_directive.
  pose proof (flags_loop_sim (S (length s)) pos (set_dollar dollar default_options) dollar st Hp ltac:(lia)
                (set_dollar_default_ok dollar)) as HF.
  replace (arg_pos (set_dollar dollar default_options)) with (-1) in HF by reflexivity.
  replace (precision (set_dollar dollar default_options)) with (@None Z) in HF by reflexivity.
  destruct (sk_flags (sfx pos) (-1)) as [[ap l1]|].
  2: { destruct HF as [w Hrun]. intros prev _. erewrite mbind_stop by (exact Hrun).
       cbn. exists []. split; [apply is_prefix_nil | rewrite app_nil_r; reflexivity]. }
  destruct HF as [pos1 [opts1 [d1 [Hrun [Hpp1 [Hl1 [Hap1 [Ho1 Hpr1]]]]]]]]. subst l1 ap.
  erewrite mbind_ok by (exact Hrun). cbv beta iota.
  erewrite mbind_ok by (apply rd_sfx; lia).
  pose proof (width_sim (S (length s)) pos1 opts1 st ck ltac:(lia) ltac:(lia) Hinv Ho1) as HW. cbv zeta in HW.
  lazymatch goal with
  | |- match (match ?W with WCut => _ | WConf => _ | WOk _ _ _ => _ end) with DCut _ => _ | DConf => _ | DOk _ _ _ => _ end =>
    destruct W as [| |k1 ck1 l2]
  end.
  { intros prev _. eapply osim_false_bind. exact HW. }
  { exact I. }
  (* precision *)
  lazymatch goal with
  | |- match (match ?P with PCut => _ | PConf => _ | POk _ _ _ _ => _ end) with DCut _ => _ | DConf => _ | DOk _ _ _ => _ end =>
    destruct P as [| |k2 ck2 l4 lim] eqn:EP
  end.
  { (* cut inside the precision *)
    intros prev Hargs. rewrite <- (app_nil_r k1). eapply osim_bind; [apply (HW prev); assumption|].
    intros [pos2 opts2] st1 Hi1 [Hpp2 [Hl2 [Ho2 [Hap2 Hpr2]]]] Hrest1. cbn [fst snd] in *. cbv iota.
    erewrite mbind_ok by (apply rd_sfx; lia).
    pose proof (prec_sim (S (length s)) pos2 opts2 st1 ck1 ltac:(lia) ltac:(lia) Hi1 Ho2 ltac:(congruence)) as HP. cbv zeta in HP.
    rewrite Hl2, Hap2 in HP. cbv zeta in EP. rewrite EP in HP.
    rewrite Hl2. eapply osim_false_bind. exact HP. }
  { exact I. }
  (* length modifier, conversion *)
  destruct (sk_mod l4) as [[m l5]|] eqn:EM.
  2: { (* cut inside the length modifier *)
    intros prev Hargs. destruct (args_ok_app prev k1 k2 _ Hargs) as [Hargs1 Hargs2].
    eapply osim_bind; [apply (HW prev); assumption|].
    intros [pos2 opts2] st1 Hi1 [Hpp2 [Hl2 [Ho2 [Hap2 Hpr2]]]] Hrest1. cbn [fst snd] in *. cbv iota.
    erewrite mbind_ok by (apply rd_sfx; lia).
    pose proof (prec_sim (S (length s)) pos2 opts2 st1 ck1 ltac:(lia) ltac:(lia) Hi1 Ho2 ltac:(congruence)) as HP. cbv zeta in HP.
    rewrite Hl2, Hap2 in HP. cbv zeta in EP. rewrite EP in HP.
    rewrite <- (app_nil_r k2). rewrite Hl2.
    eapply osim_bind; [eapply HP; rewrite Hrest1; eassumption|].
    intros [pos3 opts3] st2 Hi2 [Hpp3 [Hl3 [Ho3 [Hap3 Hprel]]]] Hrest2. cbn [fst snd] in *. cbv iota.
    pose proof (parse_size_mod_sim pos3 st2 ltac:(lia)) as HM. rewrite Hl3, EM in HM.
    destruct HM as [w HMrun]. erewrite mbind_stop by (exact HMrun).
    cbn. exists []. split; [apply is_prefix_nil | rewrite app_nil_r; reflexivity]. }
  destruct (fetch_list (conv_kinds (hd0 l5) m lim (arg_pos opts1)) (arg_pos opts1) ck2) as [[k3 ck3]|] eqn:EA; [|exact I].
  intros prev Hargs.
  destruct (args_ok_app prev k1 (k2 ++ k3) _ Hargs) as [Hargs1 Hargs23].
  eapply osim_bind; [apply (HW prev); assumption|].
  intros [pos2 opts2] st1 Hi1 [Hpp2 [Hl2 [Ho2 [Hap2 Hpr2]]]] Hrest1. cbn [fst snd] in *. cbv iota.
  erewrite mbind_ok by (apply rd_sfx; lia).
  pose proof (prec_sim (S (length s)) pos2 opts2 st1 ck1 ltac:(lia) ltac:(lia) Hi1 Ho2 ltac:(congruence)) as HP. cbv zeta in HP.
  rewrite Hl2, Hap2 in HP. cbv zeta in EP. rewrite EP in HP.
  rewrite <- Hrest1 in Hargs23.
  set (prev1 := last_prev prev (length k1) (va_rest (ps_vs st))) in *.
  destruct (args_ok_app prev1 k2 k3 _ Hargs23) as [Hargs2 Hargs3].
  rewrite Hl2.
  eapply osim_bind; [apply (HP prev1); assumption|].
  intros [pos3 opts3] st2 Hi2 [Hpp3 [Hl3 [Ho3 [Hap3 Hprel]]]] Hrest2. cbn [fst snd] in *. cbv iota.
  pose proof (parse_size_mod_sim pos3 st2 ltac:(lia)) as HM. rewrite Hl3, EM in HM.
  destruct HM as [pos4 [HMrun [Hpp4 Hl4]]].
  erewrite mbind_ok by (exact HMrun). cbv beta iota.
  erewrite mbind_ok by (apply rd_sfx; lia). rewrite Hl4.
  set (pv := hd 0%N (va_rest (ps_vs st1))) in *.
  pose proof (agent_sim (hd0 l5) m opts3 st2 ck2 lim pv Hi2 Ho3) as HA. rewrite Hap3 in HA. specialize (HA Hprel). rewrite EA in HA.
  (* the previous argument, as the agent needs it *)
  assert (Hargs3' : args_ok pv k3 (va_rest (ps_vs st2))).
  { rewrite Hrest2.
    destruct (nth 0 k3 KInt) as [| | | |l0] eqn:E0;
      try (eapply args_ok_prev; [|exact Hargs3]; intros l Hl; rewrite E0 in Hl; discriminate).
    destruct l0 as [|n0|];
      try (eapply args_ok_prev; [|exact Hargs3]; intros l Hl; rewrite E0 in Hl; inversion Hl; discriminate).
    destruct (conv_fetch_star _ _ _ _ _ _ _ EA E0) as [Hls Hapm].
    subst lim. pose proof (pexpr_star _ _ _ _ _ _ _ _ _ _ _ _ EP Hapm) as Hk2. subst k2.
    cbn [length last_prev] in Hargs3. subst pv. rewrite hd_nth0. exact Hargs3. }
  eapply osim_bind_r; [apply HA; exact Hargs3'|].
  intros _ st3 Hi3 _. apply osim_ret; [assumption|]. cbn [fst].
  split; [lia|]. rewrite sfx_plus1. rewrite Hl4. reflexivity.
Qed.

(* ---- the whole format *)
Lemma format_sim : forall fuel pos dollar st ck,
  (pos <= length s)%nat -> (length s - pos < fuel)%nat -> inv st ck ->
  match sk_format fuel (sfx pos) ck with
  | None => True
  | Some ks => forall prev, args_ok prev ks (va_rest (ps_vs st)) ->
               exists ckf, osim st ks ckf (format_loop s (agent mem) fuel pos dollar st) (fun _ => True)
  end.
Proof.
  induction fuel as [|fuel IH]; intros pos dollar st ck Hp Hf Hinv; [lia|].
  cbn [sk_format format_loop].
  erewrite mbind_ok by (apply rd_sfx; lia).
  destruct (N.eqb (hd0 (sfx pos)) 0) eqn:E0.
  { intros prev _. exists ck. apply osim_ret; [assumption | exact I]. }
  assert (Hlt : (pos < length s)%nat) by (apply sfx_nonnil; intro H0; rewrite H0 in E0; discriminate).
  destruct (negb (N.eqb (hd0 (sfx pos)) 37)) eqn:E37.
  - (* literal text *)
    destruct (scan_literal_sim (S (length s)) pos 1 st ltac:(lia) ltac:(lia)) as [n' [Hrun [Hn [Hl Hs]]]].
    rewrite sfx_plus1 in Hs. rewrite <- Hs.
    specialize (IH (pos + n')%nat dollar).
    destruct (sk_format fuel (sfx (pos + n')) ck) as [ks|] eqn:ES; [|exact I].
    intros prev Hargs.
    erewrite mbind_ok by (exact Hrun).
    erewrite mbind_ok by reflexivity.
    specialize (IH (mk_ps (ps_out st ++ firstn n' (skipn pos s)) (ps_vs st)) ck ltac:(lia) ltac:(lia) Hinv).
    rewrite ES in IH. exact (IH prev Hargs).
  - (* '%' *)
    rewrite <- sfx_plus1.
    destruct (N.eqb (hd0 (sfx (pos + 1))) 0) eqn:E1.
    { intros prev _. exists ck. erewrite mbind_stop by (apply assert_nz_stop; [lia | assumption]).
      cbn. exists []. split; [apply is_prefix_nil | rewrite app_nil_r; reflexivity]. }
    assert (Hlt1 : (pos + 1 < length s)%nat) by (apply sfx_nonnil; intro H0; rewrite H0 in E1; discriminate).
    erewrite mbind_ok by (apply assert_nz_ok; [lia | assumption]).
    erewrite mbind_ok by (apply rd_sfx; lia).
    destruct (N.eqb (hd0 (sfx (pos + 1))) 37) eqn:E2.
    + (* "%%" *)
      rewrite <- sfx_plus1. replace (pos + 1 + 1)%nat with (pos + 2)%nat by lia.
      specialize (IH (pos + 2)%nat dollar (mk_ps (ps_out st ++ [37%N]) (ps_vs st)) ck ltac:(lia) ltac:(lia) Hinv).
      destruct (sk_format fuel (sfx (pos + 2)) ck) as [ks|]; [|exact I].
      intros prev Hargs. erewrite mbind_ok by reflexivity. exact (IH prev Hargs).
    + (* a directive *)
      pose proof (directive_sim (pos + 1)%nat dollar st ck Hlt1 Hinv) as HD.
      destruct (sk_directive (sfx (pos + 1)) ck) as [ks | | ks ck' l'].
      * intros prev Hargs. exists ck. eapply osim_false_bind. apply (HD prev). assumption.
      * exact I.
      * destruct (sk_format fuel l' ck') as [ks'|] eqn:ES; [|exact I].
        intros prev Hargs. destruct (args_ok_app prev ks ks' _ Hargs) as [Ha1 Ha2].
        specialize (HD prev Ha1).
        (* run the directive, then the rest *)
        unfold mbind.
        destruct (parse_directive s (agent mem) (pos + 1) dollar st) as [st1 [x|w|w|]]; cbn [osim] in HD; try contradiction.
        -- destruct HD as [Hi1 [Hlog1 [Hrest1 [Hpx Hlx]]]].
           specialize (IH (fst x) (snd x) st1 ck' ltac:(lia) ltac:(lia) Hi1).
           rewrite Hlx, ES in IH. rewrite <- Hrest1 in Ha2. destruct (IH _ Ha2) as [ckf Hrec].
           exists ckf.
           destruct (format_loop s (agent mem) fuel (fst x) (snd x) st1) as [st2 [u|w|w|]]; cbn [osim] in *; try contradiction.
           ++ destruct Hrec as [Hi2 [Hlog2 [Hrest2 _]]]. split; [assumption|]. split.
              ** rewrite Hlog2, Hlog1. rewrite map_app, app_assoc. reflexivity.
              ** split; [|exact I]. rewrite Hrest2, Hrest1. rewrite skipn_add. rewrite app_length. reflexivity.
           ++ destruct Hrec as [pre [Hpre Hlog2]]. exists (ks ++ pre). split; [apply is_prefix_app_l; assumption|].
              rewrite Hlog2, Hlog1. rewrite map_app, app_assoc. reflexivity.
        -- exists ck. cbn [osim]. destruct HD as [pre [Hpre Hlog1]]. exists pre.
           split; [apply is_prefix_app_r; assumption | assumption].
Qed.

End Bridge.

(* ---- the statement *)
Theorem printf_format_named : forall (mem : memory) (s : list byte) (args cache : list N) (ks : list argkind),
  (9 <= length cache)%nat -> named_args s = Some ks -> args_ok mem 0%N ks args ->
  let r := run_printf mem s args cache in
  match snd r with
  | Ok _ => va_pops (ps_vs (fst r)) = map kind_va ks
  | AssertStop _ => exists pre, is_prefix pre ks /\ va_pops (ps_vs (fst r)) = map kind_va pre
  | UB _ => False
  | OutOfFuel => False
  end.
Proof.
  intros mem s args cache ks Hc Hn Hargs. cbv zeta.
  unfold run_printf, printf_format, printf_format_with, named_args in *.
  assert (Hinv : inv mem (mk_ps [] (mk_vs args [] cache 0)) []).
  { unfold inv. cbn [ps_vs arg_list num_args length]. split; [assumption|]. split; [reflexivity|]. split; [lia|]. intros i Hi. lia. }
  pose proof (format_sim s mem (S (length s)) 0 false (mk_ps [] (mk_vs args [] cache 0)) [] ltac:(lia) ltac:(lia) Hinv) as H.
  unfold sfx in H. cbn [skipn] in H. rewrite Hn in H. destruct (H 0%N Hargs) as [ckf Hsim].
  destruct (format_loop s (agent mem) (S (length s)) 0 false (mk_ps [] (mk_vs args [] cache 0))) as [st' [u|w|w|]];
    cbn [osim fst snd] in *; try contradiction.
  - destruct Hsim as [_ [Hlog _]]. exact Hlog.
  - destruct Hsim as [pre [Hpre Hlog]]. exists pre. split; assumption.
Qed.
