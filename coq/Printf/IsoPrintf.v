(* Independent specification of printf directives, written from ISO C (C17) 7.21.6.1 (plus the
   POSIX n$ and ' notations of the property's grammar, and %p in the form frigg documents:
   "0x" followed by lower-case hex).  This file imports nothing from the frigg models.  It is
   validated against glibc's snprintf by the check (leg "spec == glibc").

   The integer part is a literal port of the function that matched glibc on 170k random
   directives in the design spike (memory note iso-printf-int-spec-validated). *)
From Coq Require Import NArith ZArith List Bool.
Import ListNotations.
Local Open Scope Z_scope.

(* ---- the grammar *)
Inductive flag := FMinus | FPlus | FSpace | FHash | FZero | FQuote.
Inductive wspec := WNone | WLit (n : N) | WStar.                    (* WLit n: n >= 1 ("0" is a flag) *)
Inductive pspec := PNone | PDot | PLit (n : N) | PStar.             (* PDot: a '.' with no digits *)
Inductive lenmod := LNone | Lhh | Lh | Ll | Lll | Lz | Ltd | Lj.
Inductive conv := Cd | Ci | Cu | Co | Cx | CX | Cc | Cs | Cp | Cpct.

Record directive := mk_dir {
  d_pos : option N;          (* n$ *)
  d_flags : list flag;       (* any subset, any order, repetitions allowed *)
  d_width : wspec;
  d_prec : pspec;
  d_len : lenmod;
  d_conv : conv
}.

(* the arguments a directive consumes *)
Record argval := mk_av {
  a_width : Z;               (* the int for a '*' width *)
  a_prec : Z;                (* the int for a '.*' precision *)
  a_int : Z;                 (* d i u o x X: the (promoted) argument; c: the int; p: the pointer value *)
  a_str : list N             (* s: the bytes of the array pointed to (exactly; may lack a NUL) *)
}.

(* ---- rendering a directive as the bytes of a format string *)
Fixpoint dec_digits_fuel (fuel : nat) (n : N) : list N :=
  match fuel with
  | O => []
  | S f => if N.ltb n 10 then [(48 + n)%N] else dec_digits_fuel f (N.div n 10) ++ [(48 + N.modulo n 10)%N]
  end.
Definition dec_digits (n : N) : list N := dec_digits_fuel (S (N.to_nat (N.log2 n))) n.

Definition flag_char (f : flag) : N :=
  match f with FMinus => 45 | FPlus => 43 | FSpace => 32 | FHash => 35 | FZero => 48 | FQuote => 39 end%N.
Definition len_chars (l : lenmod) : list N :=
  match l with
  | LNone => [] | Lhh => [104; 104] | Lh => [104] | Ll => [108] | Lll => [108; 108]
  | Lz => [122] | Ltd => [116] | Lj => [106]
  end%N.
Definition conv_char (c : conv) : N :=
  match c with
  | Cd => 100 | Ci => 105 | Cu => 117 | Co => 111 | Cx => 120 | CX => 88
  | Cc => 99 | Cs => 115 | Cp => 112 | Cpct => 37
  end%N.

Definition render (d : directive) : list N :=
  match d_conv d with
  | Cpct => [37; 37]%N
  | _ =>
    [37%N]
    ++ (match d_pos d with Some n => [(48 + n)%N; 36%N] | None => [] end)
    ++ map flag_char (d_flags d)
    ++ (match d_width d with WNone => [] | WLit n => dec_digits n | WStar => [42%N] end)
    ++ (match d_prec d with PNone => [] | PDot => [46%N] | PLit n => 46%N :: dec_digits n | PStar => [46; 42]%N end)
    ++ len_chars (d_len d)
    ++ [conv_char (d_conv d)]
  end.

(* ---- semantics *)
Definition has (f : flag) (d : directive) : bool :=
  existsb (fun g => match f, g with
                    | FMinus, FMinus | FPlus, FPlus | FSpace, FSpace | FHash, FHash
                    | FZero, FZero | FQuote, FQuote => true
                    | _, _ => false end) (d_flags d).

(* field width (negative = '-' flag with the absolute value) and precision (negative = omitted) *)
Definition eff_width (d : directive) (v : argval) : Z :=
  match d_width d with WNone => 0 | WLit n => Z.of_N n | WStar => a_width v end.
Definition eff_prec (d : directive) (v : argval) : option Z :=
  match d_prec d with
  | PNone => None | PDot => Some 0 | PLit n => Some (Z.of_N n)
  | PStar => if a_prec v <? 0 then None else Some (a_prec v)
  end.

(* value conversion by the length modifier (LP64) *)
Definition len_bits (l : lenmod) : Z :=
  match l with LNone => 32 | Lhh => 8 | Lh => 16 | Ll | Lll | Lz | Ltd | Lj => 64 end.
Definition to_unsigned (bits v : Z) : Z := v mod 2 ^ bits.
Definition to_signed (bits v : Z) : Z :=
  let m := v mod 2 ^ bits in if 2 ^ (bits - 1) <=? m then m - 2 ^ bits else m.

(* positional representation, most significant digit first, "0" for zero *)
Definition digit_char (upper : bool) (x : N) : N :=
  (if N.ltb x 10 then 48 + x else if upper then 65 + (x - 10) else 97 + (x - 10))%N.
Fixpoint digits_fuel (fuel : nat) (radix : N) (upper : bool) (n : N) : list N :=
  match fuel with
  | O => []
  | S f => if N.ltb n radix then [digit_char upper n]
           else digits_fuel f radix upper (N.div n radix) ++ [digit_char upper (N.modulo n radix)]
  end.
Definition digits (radix : N) (upper : bool) (n : N) : list N :=
  digits_fuel (S (N.to_nat (N.log2 n))) radix upper n.

Definition zeros (n : Z) : list N := repeat 48%N (Z.to_nat n).
Definition blanks (n : Z) : list N := repeat 32%N (Z.to_nat n).
Definition len (l : list N) : Z := Z.of_nat (length l).

Definition radix_of (c : conv) : N := match c with Co => 8 | Cx | CX => 16 | _ => 10 end%N.

(* d i u o x X *)
Definition iso_int (d : directive) (v : argval) : list N :=
  let c := d_conv d in
  let w0 := eff_width d v in
  let left := has FMinus d || (w0 <? 0) in
  let width := Z.abs w0 in
  let prec := eff_prec d v in
  let signed := match c with Cd | Ci => true | _ => false end in
  let value := if signed then to_signed (len_bits (d_len d)) (a_int v)
               else to_unsigned (len_bits (d_len d)) (a_int v) in
  let neg := signed && (value <? 0) in
  let mag := Z.to_N (Z.abs value) in
  let p := match prec with None => 1 | Some p => p end in
  let ds := if N.eqb mag 0 && (p =? 0) then [] else digits (radix_of c) (match c with CX => true | _ => false end) mag in
  let body := zeros (p - len ds) ++ ds in
  let body := match c with
              | Co => if has FHash d && negb (match body with 48%N :: _ => true | _ => false end)
                      then 48%N :: body else body
              | _ => body
              end in
  let sign := if signed then (if neg then [45%N] else if has FPlus d then [43%N]
                              else if has FSpace d then [32%N] else [])
              else [] in
  let prefix := match c with
                | Cx => if has FHash d && negb (N.eqb mag 0) then [48; 120]%N else []
                | CX => if has FHash d && negb (N.eqb mag 0) then [48; 88]%N else []
                | _ => []
                end in
  let n := len (sign ++ prefix ++ body) in
  if left then sign ++ prefix ++ body ++ blanks (width - n)
  else if has FZero d && negb (match prec with Some _ => true | None => false end)
       then sign ++ prefix ++ zeros (width - n) ++ body
  else blanks (width - n) ++ sign ++ prefix ++ body.

(* the bytes of the string argument that %s writes: up to the NUL, at most the precision *)
Fixpoint take_str (s : list N) (limit : option nat) : list N :=
  match limit with
  | Some O => []
  | _ => match s with
         | [] => []
         | ch :: r => if N.eqb ch 0 then []
                      else ch :: take_str r (match limit with Some (S m) => Some m | _ => None end)
         end
  end.

Definition justify (d : directive) (v : argval) (body : list N) : list N :=
  let w0 := eff_width d v in
  let left := has FMinus d || (w0 <? 0) in
  let pad := blanks (Z.abs w0 - len body) in
  if left then body ++ pad else pad ++ body.

Definition iso_printf (d : directive) (v : argval) : list N :=
  match d_conv d with
  | Cd | Ci | Cu | Co | Cx | CX => iso_int d v
  | Cc => justify d v [Z.to_N (a_int v mod 256)]
  | Cs => justify d v (take_str (a_str v) (match eff_prec d v with Some p => Some (Z.to_nat p) | None => None end))
  | Cp => [48; 120]%N ++ digits 16 false (Z.to_N (a_int v))
  | Cpct => [37%N]
  end.

(* ---- which directives / values the property covers *)
Definition is_int_conv (c : conv) : bool := match c with Cd | Ci | Cu | Co | Cx | CX => true | _ => false end.

Definition pos_ok (d : directive) : bool :=
  match d_pos d with
  | None => true
  | Some n => N.leb 1 n && N.leb n 9
              && negb (match d_width d with WStar => true | _ => false end)
              && negb (match d_prec d with PStar => true | _ => false end)
  end.
Definition width_ok (d : directive) : bool :=
  match d_width d with WLit n => N.leb 1 n && N.leb n 2147483647 | _ => true end.
Definition prec_ok (d : directive) : bool :=
  match d_prec d with PLit n => N.leb n 2147483647 | _ => true end.

Definition in_grammar (d : directive) : bool :=
  match d_conv d with
  | Cd | Ci | Cu => pos_ok d && width_ok d && prec_ok d && negb (has FHash d)       (* # with d i u: undefined *)
  | Co | Cx | CX => pos_ok d && width_ok d && prec_ok d
  | Cc => pos_ok d && width_ok d
          && forallb (fun f => match f with FMinus => true | _ => false end) (d_flags d)
          && match d_prec d with PNone => true | _ => false end
          && match d_len d with LNone => true | _ => false end
  | Cs => pos_ok d && width_ok d && prec_ok d
          && forallb (fun f => match f with FMinus => true | _ => false end) (d_flags d)
          && match d_len d with LNone => true | _ => false end
  | Cp => match d_pos d, d_flags d, d_width d, d_prec d, d_len d with
          | _, [], WNone, PNone, LNone => pos_ok d
          | _, _, _, _, _ => false
          end
  | Cpct => match d_pos d, d_flags d, d_width d, d_prec d, d_len d with
            | None, [], WNone, PNone, LNone => true
            | _, _, _, _, _ => false
            end
  end.

(* the argument has the type the directive expects *)
Definition in_int_range (z : Z) : bool := (-2147483648 <=? z) && (z <=? 2147483647).
Fixpoint has_nul_within (s : list N) (limit : option nat) : bool :=
  match limit with
  | Some O => true
  | _ => match s with
         | [] => false
         | ch :: r => N.eqb ch 0 || has_nul_within r (match limit with Some (S m) => Some m | _ => None end)
         end
  end.

Definition fits (d : directive) (v : argval) : bool :=
  (match d_width d with WStar => in_int_range (a_width v) && negb (a_width v =? -2147483648) | _ => true end)
  && (match d_prec d with PStar => in_int_range (a_prec v) | _ => true end)
  && match d_conv d with
     | Cd | Ci => match d_len d with
                  | LNone | Lhh | Lh => in_int_range (a_int v)
                  | _ => (- 2 ^ 63 <=? a_int v) && (a_int v <? 2 ^ 63)
                  end
     | Cu | Co | Cx | CX => match d_len d with
                            | LNone => (0 <=? a_int v) && (a_int v <? 2 ^ 32)
                            | Lhh | Lh => in_int_range (a_int v)      (* promoted to int *)
                            | _ => (0 <=? a_int v) && (a_int v <? 2 ^ 64)
                            end
     | Cc => in_int_range (a_int v)
     | Cs => has_nul_within (a_str v) (match eff_prec d v with Some p => Some (Z.to_nat p) | None => None end)
             && forallb (fun ch => N.ltb ch 256) (a_str v)
     | Cp => (0 <? a_int v) && (a_int v <? 2 ^ 64)                    (* null pointers: not specified *)
     | Cpct => true
     end.
